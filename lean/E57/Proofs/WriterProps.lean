/-
Properties of the point-cloud writer model (E57/Model/Writer.lean).  Core Lean only.

  A  bounds are the exact minimum / maximum of the values added
       foldMin_spec foldMax_spec foldMin_first foldMax_first (generic order, `StrictOn`/`StrictWeakOn`)
       foldMin_mem foldMax_mem (no hypothesis on the order)
       A1-F (doubles; a NaN is never taken as a bound, repair "NaN is not a bound"): foldMinF_eq foldMaxF_eq
       (the fold of updMinF/updMaxF = generic fold over `nonNaN vs`), foldMinF_spec foldMaxF_spec foldMinF_first,
       foldMinF_not_nan, foldMinF_eq_none, bounds_order_independent_of_nan (foldMinF_insert_nan …);
       old behaviour as documentation: foldMin_poisoned foldMax_poisoned foldMin_later_ignored
       foldMin_int foldMax_int (index bounds), foldBounds_exact, bounds_exact (writer), xMin_is_minimum …
       nan_never_a_bound (writer), xBounds_independent_of_nan_point, nan_point_moves_no_x_bound, xBounds_congr
       updateAllBounds_no_panic, updateAllBounds_no_err_partial
  B  values that cannot be stored are rejected with an error and change nothing
       addPoint_rejects addPoint_err_no_state addPoint_ok_implies PcW.new_rejects
  C  totality on well-formed states (`PcW.Inv`, `PW.Inv`)
       PcW.new_never_panics PcW.new_ok_maxPoints_pos PcW.new_inv PcW.new_err_iff PcW.new_ok_iff
       addPoint_total packet_capacity addPoint_accepts drainLoop_terminates finalize_total
       blobWrite_total blob_patch, and the whole happy path: session_ok
       (finalize_diverges_when_capacity_zero(_exact) describe states with `maxPoints = 0`, which `new`
        no longer produces)

Finding (a statement that is FALSE for the model, with a machine-checked counterexample):
  * updateAllBounds_no_err_statement_false: duplicate record names pass `validate_prototype` (only the
    first record of a name is checked); a second `rowIndex` of non-integer type makes every
    `add_point` fail with "to_i64 failed".
Repaired in the crate (formerly findings, now positive theorems):
  * `get_max_packet_points` no longer underflows or divides by zero (PcW.new_never_panics); all-zero-width
    prototypes get capacity 65535 and never write a packet (Inv0.zero, packet_capacity).
  * a prototype of which not one point fits a packet (e.g. `wideProto`, 5912 doubles) is refused by
    `new` (wideProto_rejected, PcW.new_err_iff) instead of looping for ever in `finalize`.
-/
import E57.Model.Writer
import E57.Proofs.BitsWrite
import E57.Proofs.BitsRead
import E57.Proofs.PagesWrite
import E57.Props.C12
namespace E57

/-! # Part A — bounds -/

/-! ## A1: generic fold of `update_min` / `update_max` -/

def foldMin {α : Type} (lt : α → α → Bool) (vs : List α) : Option α :=
  vs.foldl (fun cur v => updMinG lt v cur) none

def foldMax {α : Type} (lt : α → α → Bool) (vs : List α) : Option α :=
  vs.foldl (fun cur v => updMaxG lt v cur) none

/-- `update_max` is `update_min` for the reversed order -/
theorem updMaxG_eq_flip {α : Type} (lt : α → α → Bool) (v : α) (cur : Option α) :
    updMaxG lt v cur = updMinG (fun a b => lt b a) v cur := by
  cases cur <;> rfl

theorem foldMax_eq_flip {α : Type} (lt : α → α → Bool) (vs : List α) :
    foldMax lt vs = foldMin (fun a b => lt b a) vs := by
  unfold foldMax foldMin
  have : (fun cur v => updMaxG lt v cur) = (fun cur v => updMinG (fun a b => lt b a) v cur) := by
    funext cur v; exact updMaxG_eq_flip lt v cur
  rw [this]

/-- `lt` is a strict partial order on the values satisfying `S` (for `f64`: `S` = "is not NaN") -/
structure StrictOn {α : Type} (S : α → Prop) (lt : α → α → Bool) : Prop where
  irrefl : ∀ a, S a → lt a a = false
  trans : ∀ a b c, S a → S b → S c → lt a b = true → lt b c = true → lt a c = true

/-- strict weak order on `S`: additionally, incomparability is transitive
    (`+0.0` and `-0.0` are incomparable but different) -/
structure StrictWeakOn {α : Type} (S : α → Prop) (lt : α → α → Bool) : Prop extends StrictOn S lt where
  negTrans : ∀ a b c, S a → S b → S c → lt a b = true → lt a c = true ∨ lt c b = true

/-- strict total order on `S` -/
structure StrictTotalOn {α : Type} (S : α → Prop) (lt : α → α → Bool) : Prop extends StrictOn S lt where
  total : ∀ a b, S a → S b → a ≠ b → lt a b = true ∨ lt b a = true

theorem StrictTotalOn.weak {α : Type} {S : α → Prop} {lt : α → α → Bool} (h : StrictTotalOn S lt) :
    StrictWeakOn S lt where
  irrefl := h.irrefl
  trans := h.trans
  negTrans := by
    intro a b c ha hb hc hab
    by_cases hcb : c = b
    · subst hcb; exact .inl hab
    · rcases h.total c b hc hb hcb with h1 | h1
      · exact .inr h1
      · exact .inl (h.trans a b c ha hb hc hab h1)

theorem StrictOn.flip {α : Type} {S : α → Prop} {lt : α → α → Bool} (h : StrictOn S lt) :
    StrictOn S (fun a b => lt b a) where
  irrefl := h.irrefl
  trans := fun a b c ha hb hc h1 h2 => h.trans c b a hc hb ha h2 h1

theorem StrictWeakOn.flip {α : Type} {S : α → Prop} {lt : α → α → Bool} (h : StrictWeakOn S lt) :
    StrictWeakOn S (fun a b => lt b a) where
  toStrictOn := h.toStrictOn.flip
  negTrans := fun a b c ha hb hc h1 => (h.negTrans b a c hb ha hc h1).symm

/-- the fold started from a current value -/
theorem foldMin_from_spec {α : Type} {S : α → Prop} {lt : α → α → Bool} (h : StrictOn S lt)
    (vs : List α) : ∀ (c : α) (seen : List α), S c → (∀ v ∈ vs, S v) → (∀ v ∈ seen, S v) →
      c ∈ seen → (∀ v ∈ seen, lt v c = false) →
      ∃ m, vs.foldl (fun cur v => updMinG lt v cur) (some c) = some m ∧ m ∈ seen ++ vs ∧
        ∀ v ∈ seen ++ vs, lt v m = false := by
  induction vs with
  | nil => intro c seen _ _ _ hc hmin; exact ⟨c, rfl, by simpa using hc, by simpa using hmin⟩
  | cons x xs ih =>
    intro c seen hSc hS hSs hc hmin
    have hSx : S x := hS x (by simp)
    have hSxs : ∀ v ∈ xs, S v := fun v hv => hS v (by simp [hv])
    have hSs' : ∀ v ∈ seen ++ [x], S v := by
      intro v hv; rcases List.mem_append.1 hv with h1 | h1
      · exact hSs v h1
      · simp at h1; subst h1; exact hSx
    simp only [List.foldl_cons, updMinG]
    by_cases hx : lt x c = true
    · simp only [hx, if_true]
      obtain ⟨m, h1, h2, h3⟩ := ih x (seen ++ [x]) hSx hSxs hSs' (by simp) (by
        intro v hv
        rcases List.mem_append.1 hv with h1 | h1
        · cases hvx : lt v x with
          | false => rfl
          | true =>
            have := h.trans v x c (hSs v h1) hSx hSc hvx hx
            rw [hmin v h1] at this; cases this
        · simp at h1; subst h1; exact h.irrefl v hSx)
      exact ⟨m, h1, by simpa using h2, by simpa using h3⟩
    · simp only [hx]
      obtain ⟨m, h1, h2, h3⟩ := ih c (seen ++ [x]) hSc hSxs hSs' (by simp [hc]) (by
        intro v hv
        rcases List.mem_append.1 hv with h1 | h1
        · exact hmin v h1
        · simp at h1; subst h1; simpa using hx)
      exact ⟨m, h1, by simpa using h2, by simpa using h3⟩

theorem foldMin_nil {α : Type} (lt : α → α → Bool) : foldMin lt [] = none := rfl
theorem foldMax_nil {α : Type} (lt : α → α → Bool) : foldMax lt [] = none := rfl

/-- **A1 (minimum)**: on a non-empty list of `S`-values the fold returns an element of the list
    such that no element is smaller -/
theorem foldMin_spec {α : Type} {S : α → Prop} {lt : α → α → Bool} (h : StrictOn S lt)
    (vs : List α) (hS : ∀ v ∈ vs, S v) (hne : vs ≠ []) :
    ∃ m, foldMin lt vs = some m ∧ m ∈ vs ∧ ∀ v ∈ vs, lt v m = false := by
  cases vs with
  | nil => exact absurd rfl hne
  | cons x xs =>
    have hSx : S x := hS x (by simp)
    obtain ⟨m, h1, h2, h3⟩ := foldMin_from_spec h xs x [x] hSx (fun v hv => hS v (by simp [hv]))
      (by simpa using hSx) (by simp) (by simpa using h.irrefl x hSx)
    exact ⟨m, h1, by simpa using h2, by simpa using h3⟩

/-- **A1 (maximum)** -/
theorem foldMax_spec {α : Type} {S : α → Prop} {lt : α → α → Bool} (h : StrictOn S lt)
    (vs : List α) (hS : ∀ v ∈ vs, S v) (hne : vs ≠ []) :
    ∃ m, foldMax lt vs = some m ∧ m ∈ vs ∧ ∀ v ∈ vs, lt m v = false := by
  rw [foldMax_eq_flip]
  exact foldMin_spec h.flip vs hS hne

/-- with a total order, "no element is smaller" means "below or equal to every element" -/
theorem foldMin_spec_total {α : Type} {S : α → Prop} {lt : α → α → Bool} (h : StrictTotalOn S lt)
    (vs : List α) (hS : ∀ v ∈ vs, S v) (hne : vs ≠ []) :
    ∃ m, foldMin lt vs = some m ∧ m ∈ vs ∧ ∀ v ∈ vs, m = v ∨ lt m v = true := by
  obtain ⟨m, h1, h2, h3⟩ := foldMin_spec h.toStrictOn vs hS hne
  refine ⟨m, h1, h2, fun v hv => ?_⟩
  by_cases hmv : m = v
  · exact .inl hmv
  · rcases h.total m v (hS m h2) (hS v hv) hmv with h4 | h4
    · exact .inr h4
    · rw [h3 v hv] at h4; cases h4

theorem foldMax_spec_total {α : Type} {S : α → Prop} {lt : α → α → Bool} (h : StrictTotalOn S lt)
    (vs : List α) (hS : ∀ v ∈ vs, S v) (hne : vs ≠ []) :
    ∃ m, foldMax lt vs = some m ∧ m ∈ vs ∧ ∀ v ∈ vs, m = v ∨ lt v m = true := by
  obtain ⟨m, h1, h2, h3⟩ := foldMax_spec h.toStrictOn vs hS hne
  refine ⟨m, h1, h2, fun v hv => ?_⟩
  by_cases hmv : m = v
  · exact .inl hmv
  · rcases h.total m v (hS m h2) (hS v hv) hmv with h4 | h4
    · rw [h3 v hv] at h4; cases h4
    · exact .inr h4

/-! ### the stored extremum is the FIRST element attaining it -/

theorem foldMin_from_first {α : Type} {S : α → Prop} {lt : α → α → Bool} (h : StrictWeakOn S lt)
    (vs : List α) : ∀ (c : α) (pre post : List α), S c → (∀ v ∈ vs, S v) →
      (∀ v ∈ pre, S v) → (∀ v ∈ post, S v) →
      (∀ v ∈ pre, lt c v = true) → (∀ v ∈ post, lt v c = false) →
      ∃ m pre' post', vs.foldl (fun cur v => updMinG lt v cur) (some c) = some m ∧
        pre ++ c :: post ++ vs = pre' ++ m :: post' ∧
        (∀ v ∈ pre', lt m v = true) ∧ (∀ v ∈ post', lt v m = false) := by
  induction vs with
  | nil =>
    intro c pre post _ _ _ _ h1 h2
    exact ⟨c, pre, post, rfl, by simp, h1, h2⟩
  | cons x xs ih =>
    intro c pre post hSc hS hSpre hSpost h1 h2
    have hSx : S x := hS x (by simp)
    have hSxs : ∀ v ∈ xs, S v := fun v hv => hS v (by simp [hv])
    simp only [List.foldl_cons, updMinG]
    by_cases hx : lt x c = true
    · simp only [hx, if_true]
      obtain ⟨m, pre', post', e1, e2, e3, e4⟩ := ih x (pre ++ c :: post) [] hSx hSxs
        (by
          intro v hv; rcases List.mem_append.1 hv with h3 | h3
          · exact hSpre v h3
          · rcases List.mem_cons.1 h3 with h3 | h3
            · subst h3; exact hSc
            · exact hSpost v h3)
        (by simp)
        (by
          intro v hv; rcases List.mem_append.1 hv with h3 | h3
          · exact h.trans x c v hSx hSc (hSpre v h3) hx (h1 v h3)
          · rcases List.mem_cons.1 h3 with h3 | h3
            · subst h3; exact hx
            · rcases h.negTrans x c v hSx hSc (hSpost v h3) hx with h4 | h4
              · exact h4
              · rw [h2 v h3] at h4; cases h4)
        (by simp)
      exact ⟨m, pre', post', e1, by simpa using e2, e3, e4⟩
    · simp only [hx]
      obtain ⟨m, pre', post', e1, e2, e3, e4⟩ := ih c pre (post ++ [x]) hSc hSxs hSpre
        (by
          intro v hv; rcases List.mem_append.1 hv with h3 | h3
          · exact hSpost v h3
          · simp at h3; subst h3; exact hSx)
        h1
        (by
          intro v hv; rcases List.mem_append.1 hv with h3 | h3
          · exact h2 v h3
          · simp at h3; subst h3; simpa using hx)
      exact ⟨m, pre', post', e1, by simpa using e2, e3, e4⟩

/-- **A1 (first occurrence)**: every earlier element is strictly larger than the stored minimum,
    no later element is smaller: `update_min` replaces only on a strict improvement -/
theorem foldMin_first {α : Type} {S : α → Prop} {lt : α → α → Bool} (h : StrictWeakOn S lt)
    (vs : List α) (hS : ∀ v ∈ vs, S v) (hne : vs ≠ []) :
    ∃ m pre post, foldMin lt vs = some m ∧ vs = pre ++ m :: post ∧
      (∀ v ∈ pre, lt m v = true) ∧ (∀ v ∈ post, lt v m = false) := by
  cases vs with
  | nil => exact absurd rfl hne
  | cons x xs =>
    have hSx : S x := hS x (by simp)
    obtain ⟨m, pre, post, e1, e2, e3, e4⟩ := foldMin_from_first h xs x [] [] hSx
      (fun v hv => hS v (by simp [hv])) (by simp) (by simp) (by simp) (by simp)
    exact ⟨m, pre, post, e1, by simpa using e2, e3, e4⟩

theorem foldMax_first {α : Type} {S : α → Prop} {lt : α → α → Bool} (h : StrictWeakOn S lt)
    (vs : List α) (hS : ∀ v ∈ vs, S v) (hne : vs ≠ []) :
    ∃ m pre post, foldMax lt vs = some m ∧ vs = pre ++ m :: post ∧
      (∀ v ∈ pre, lt v m = true) ∧ (∀ v ∈ post, lt m v = false) := by
  rw [foldMax_eq_flip]
  exact foldMin_first h.flip vs hS hne

/-! ### the result of the fold is one of the values (no hypothesis on the order) -/

theorem foldl_updMinG_mem {α : Type} (lt : α → α → Bool) (vs : List α) : ∀ (c : Option α) (m : α),
    vs.foldl (fun cur v => updMinG lt v cur) c = some m → c = some m ∨ m ∈ vs := by
  induction vs with
  | nil => intro c m h; exact .inl h
  | cons x xs ih =>
    intro c m h
    rw [List.foldl_cons] at h
    rcases ih _ m h with h1 | h1
    · cases c with
      | none => simp only [updMinG, Option.some.injEq] at h1; exact .inr (by simp [h1])
      | some c0 =>
        simp only [updMinG] at h1
        split at h1
        · simp only [Option.some.injEq] at h1; exact .inr (by simp [h1])
        · exact .inl h1
    · exact .inr (by simp [h1])

/-- whatever the relation `lt`, a stored minimum is one of the values added -/
theorem foldMin_mem {α : Type} (lt : α → α → Bool) (vs : List α) (m : α) (h : foldMin lt vs = some m) :
    m ∈ vs := by
  rcases foldl_updMinG_mem lt vs none m h with h1 | h1
  · cases h1
  · exact h1

theorem foldMax_mem {α : Type} (lt : α → α → Bool) (vs : List α) (m : α) (h : foldMax lt vs = some m) :
    m ∈ vs := by
  rw [foldMax_eq_flip] at h; exact foldMin_mem _ vs m h

theorem foldMin_eq_none {α : Type} (lt : α → α → Bool) (vs : List α) : foldMin lt vs = none ↔ vs = [] := by
  cases vs with
  | nil => simp [foldMin]
  | cons x xs =>
    simp only [reduceCtorEq, iff_false]
    intro h
    have : ∀ (l : List α) (c : α), l.foldl (fun cur v => updMinG lt v cur) (some c) ≠ none := by
      intro l
      induction l with
      | nil => intro c hc; cases hc
      | cons y ys ih =>
        intro c
        rw [List.foldl_cons]
        simp only [updMinG]
        split
        · exact ih y
        · exact ih c
    exact this xs x h

theorem foldMax_eq_none {α : Type} (lt : α → α → Bool) (vs : List α) : foldMax lt vs = none ↔ vs = [] := by
  rw [foldMax_eq_flip]; exact foldMin_eq_none _ vs

/-! ### the OLD behaviour (before the repair "NaN is not a bound"), as documentation

`update_min`/`update_max` used to take the first value unconditionally.  A first value that compares
false with everything (a NaN) then stayed for good, while the same value later in the sequence was
ignored: the stored bound depended on WHERE the NaN occurred.  Generic in `lt`, so no fact about
`Float` is needed. -/

theorem foldl_updMinG_stuck {α : Type} (lt : α → α → Bool) (a : α) (h : ∀ x, lt x a = false) :
    ∀ (vs : List α), vs.foldl (fun cur v => updMinG lt v cur) (some a) = some a
  | [] => rfl
  | x :: xs => by
    rw [List.foldl_cons]; simp only [updMinG, h x, Bool.false_eq_true, if_false]
    exact foldl_updMinG_stuck lt a h xs

/-- old behaviour: an incomparable FIRST value poisons the minimum … -/
theorem foldMin_poisoned {α : Type} (lt : α → α → Bool) (a : α) (h : ∀ x, lt x a = false) (vs : List α) :
    foldMin lt (a :: vs) = some a := foldl_updMinG_stuck lt a h vs

theorem foldMax_poisoned {α : Type} (lt : α → α → Bool) (a : α) (h : ∀ x, lt a x = false) (vs : List α) :
    foldMax lt (a :: vs) = some a := by
  rw [foldMax_eq_flip]; exact foldMin_poisoned _ a h vs

/-- … while the same value after a first one is ignored -/
theorem foldMin_later_ignored {α : Type} (lt : α → α → Bool) (a : α) (h : ∀ x, lt a x = false)
    (x : α) (l₁ l₂ : List α) : foldMin lt (x :: l₁ ++ a :: l₂) = foldMin lt (x :: l₁ ++ l₂) := by
  unfold foldMin
  rw [List.foldl_append, List.foldl_append, List.foldl_cons]
  have : ∀ (l : List α) (c : α), ∃ c', l.foldl (fun cur v => updMinG lt v cur) (some c) = some c' := by
    intro l
    induction l with
    | nil => intro c; exact ⟨c, rfl⟩
    | cons y ys ih =>
      intro c; rw [List.foldl_cons]; simp only [updMinG]
      split
      · exact ih y
      · exact ih c
  obtain ⟨c', hc'⟩ := this l₁ x
  rw [List.foldl_cons] at *
  simp only [updMinG] at hc' ⊢
  rw [hc']
  simp only [h c', Bool.false_eq_true, if_false]

/-! ## A1-F: on `f64` a NaN is never taken as a bound

`updMinF`/`updMaxF` (the repaired `update_min`/`update_max` on doubles) return at once for a value
that cannot be compared with itself.  The fold over ANY sequence of doubles is therefore the generic
fold over its non-NaN values, wherever the NaNs stand. -/

/-- the values that are not NaN, in their order -/
def nonNaN (vs : List UInt64) : List UInt64 := vs.filter (fun v => !fltIsNaN v)

/-- the property on which IEEE `<` is a strict order -/
abbrev NotNaN (v : UInt64) : Prop := fltIsNaN v = false

def foldMinF (vs : List UInt64) : Option UInt64 := vs.foldl (fun cur v => updMinF v cur) none
def foldMaxF (vs : List UInt64) : Option UInt64 := vs.foldl (fun cur v => updMaxF v cur) none

theorem mem_nonNaN {v : UInt64} {vs : List UInt64} : v ∈ nonNaN vs ↔ v ∈ vs ∧ fltIsNaN v = false := by
  simp [nonNaN]

theorem nonNaN_notNaN (vs : List UInt64) : ∀ v ∈ nonNaN vs, NotNaN v := fun _ hv => (mem_nonNaN.1 hv).2

theorem nonNaN_append (a b : List UInt64) : nonNaN (a ++ b) = nonNaN a ++ nonNaN b := by
  simp [nonNaN]

theorem nonNaN_cons_nan {x : UInt64} (h : fltIsNaN x = true) (l : List UInt64) : nonNaN (x :: l) = nonNaN l := by
  simp [nonNaN, h]

theorem nonNaN_cons_ok {x : UInt64} (h : fltIsNaN x = false) (l : List UInt64) :
    nonNaN (x :: l) = x :: nonNaN l := by
  simp [nonNaN, h]

theorem nonNaN_eq_nil {vs : List UInt64} : nonNaN vs = [] ↔ ∀ v ∈ vs, fltIsNaN v = true := by
  simp [nonNaN]

/-- without NaNs nothing is filtered (the statements before the repair are the special case) -/
theorem nonNaN_eq_self {vs : List UInt64} (h : ∀ v ∈ vs, fltIsNaN v = false) : nonNaN vs = vs := by
  simp only [nonNaN, List.filter_eq_self]
  intro v hv; simp [h v hv]

/-- inserting any block of NaNs anywhere leaves the non-NaN values as they were -/
theorem nonNaN_insert (l₁ l₂ nans : List UInt64) (h : ∀ v ∈ nans, fltIsNaN v = true) :
    nonNaN (l₁ ++ nans ++ l₂) = nonNaN (l₁ ++ l₂) := by
  rw [nonNaN_append, nonNaN_append, nonNaN_eq_nil.2 h, List.append_nil, nonNaN_append]

theorem foldl_updMinF (vs : List UInt64) : ∀ (c : Option UInt64),
    vs.foldl (fun cur v => updMinF v cur) c = (nonNaN vs).foldl (fun cur v => updMinG fltLt v cur) c := by
  induction vs with
  | nil => intro c; rfl
  | cons x xs ih =>
    intro c
    rw [List.foldl_cons, ih]
    cases hx : fltIsNaN x with
    | true => rw [nonNaN_cons_nan hx]; simp only [updMinF, hx, if_true]
    | false => rw [nonNaN_cons_ok hx, List.foldl_cons]; simp only [updMinF, hx, Bool.false_eq_true, if_false]

theorem foldl_updMaxF (vs : List UInt64) : ∀ (c : Option UInt64),
    vs.foldl (fun cur v => updMaxF v cur) c = (nonNaN vs).foldl (fun cur v => updMaxG fltLt v cur) c := by
  induction vs with
  | nil => intro c; rfl
  | cons x xs ih =>
    intro c
    rw [List.foldl_cons, ih]
    cases hx : fltIsNaN x with
    | true => rw [nonNaN_cons_nan hx]; simp only [updMaxF, hx, if_true]
    | false => rw [nonNaN_cons_ok hx, List.foldl_cons]; simp only [updMaxF, hx, Bool.false_eq_true, if_false]

/-- **A1-F**: the repaired fold on doubles is the generic fold over the non-NaN values -/
theorem foldMinF_eq (vs : List UInt64) : foldMinF vs = foldMin fltLt (nonNaN vs) := foldl_updMinF vs none
theorem foldMaxF_eq (vs : List UInt64) : foldMaxF vs = foldMax fltLt (nonNaN vs) := foldl_updMaxF vs none

/-- the bound depends on the non-NaN values only -/
theorem foldMinF_congr {l l' : List UInt64} (h : nonNaN l = nonNaN l') : foldMinF l = foldMinF l' := by
  rw [foldMinF_eq, foldMinF_eq, h]
theorem foldMaxF_congr {l l' : List UInt64} (h : nonNaN l = nonNaN l') : foldMaxF l = foldMaxF l' := by
  rw [foldMaxF_eq, foldMaxF_eq, h]

/-- **the bound does not depend on where a NaN stands**: inserting a NaN anywhere changes nothing
    (in particular at the front, the position that used to poison the bound: `foldMin_poisoned`) -/
theorem foldMinF_insert_nan (l₁ l₂ : List UInt64) (nan : UInt64) (h : fltIsNaN nan = true) :
    foldMinF (l₁ ++ nan :: l₂) = foldMinF (l₁ ++ l₂) := by
  apply foldMinF_congr
  have := nonNaN_insert l₁ l₂ [nan] (by simpa using h)
  simpa using this

theorem foldMaxF_insert_nan (l₁ l₂ : List UInt64) (nan : UInt64) (h : fltIsNaN nan = true) :
    foldMaxF (l₁ ++ nan :: l₂) = foldMaxF (l₁ ++ l₂) := by
  apply foldMaxF_congr
  have := nonNaN_insert l₁ l₂ [nan] (by simpa using h)
  simpa using this

theorem bounds_order_independent_of_nan (l₁ l₂ : List UInt64) (nan : UInt64) (h : fltIsNaN nan = true) :
    foldMinF (l₁ ++ nan :: l₂) = foldMinF (l₁ ++ l₂) ∧ foldMaxF (l₁ ++ nan :: l₂) = foldMaxF (l₁ ++ l₂) :=
  ⟨foldMinF_insert_nan l₁ l₂ nan h, foldMaxF_insert_nan l₁ l₂ nan h⟩

/-- no hypothesis at all: what the fold stores is a value of the sequence and is not a NaN -/
theorem foldMinF_not_nan (vs : List UInt64) (b : UInt64) (h : foldMinF vs = some b) :
    b ∈ vs ∧ fltIsNaN b = false := by
  rw [foldMinF_eq] at h; exact mem_nonNaN.1 (foldMin_mem _ _ b h)

theorem foldMaxF_not_nan (vs : List UInt64) (b : UInt64) (h : foldMaxF vs = some b) :
    b ∈ vs ∧ fltIsNaN b = false := by
  rw [foldMaxF_eq] at h; exact mem_nonNaN.1 (foldMax_mem _ _ b h)

/-- nothing is stored exactly when every value is a NaN (or there is none) -/
theorem foldMinF_eq_none (vs : List UInt64) : foldMinF vs = none ↔ ∀ v ∈ vs, fltIsNaN v = true := by
  rw [foldMinF_eq, foldMin_eq_none, nonNaN_eq_nil]
theorem foldMaxF_eq_none (vs : List UInt64) : foldMaxF vs = none ↔ ∀ v ∈ vs, fltIsNaN v = true := by
  rw [foldMaxF_eq, foldMax_eq_none, nonNaN_eq_nil]

/-- **A1-F (minimum)**: as soon as one value is not a NaN, the fold stores a non-NaN value of the
    sequence below which no non-NaN value lies.  The VALUES may contain NaNs anywhere; only the order
    facts about IEEE `<` on non-NaN doubles are assumed. -/
theorem foldMinF_spec (h : StrictOn NotNaN fltLt) (vs : List UInt64) (hne : nonNaN vs ≠ []) :
    ∃ m, foldMinF vs = some m ∧ m ∈ vs ∧ fltIsNaN m = false ∧
      ∀ v ∈ vs, fltIsNaN v = false → fltLt v m = false := by
  obtain ⟨m, h1, h2, h3⟩ := foldMin_spec h (nonNaN vs) (nonNaN_notNaN vs) hne
  exact ⟨m, by rw [foldMinF_eq, h1], (mem_nonNaN.1 h2).1, (mem_nonNaN.1 h2).2,
    fun v hv hn => h3 v (mem_nonNaN.2 ⟨hv, hn⟩)⟩

theorem foldMaxF_spec (h : StrictOn NotNaN fltLt) (vs : List UInt64) (hne : nonNaN vs ≠ []) :
    ∃ m, foldMaxF vs = some m ∧ m ∈ vs ∧ fltIsNaN m = false ∧
      ∀ v ∈ vs, fltIsNaN v = false → fltLt m v = false := by
  obtain ⟨m, h1, h2, h3⟩ := foldMax_spec h (nonNaN vs) (nonNaN_notNaN vs) hne
  exact ⟨m, by rw [foldMaxF_eq, h1], (mem_nonNaN.1 h2).1, (mem_nonNaN.1 h2).2,
    fun v hv hn => h3 v (mem_nonNaN.2 ⟨hv, hn⟩)⟩

/-- **A1-F (first occurrence)**: among the non-NaN values the stored minimum is the first attaining it -/
theorem foldMinF_first (h : StrictWeakOn NotNaN fltLt) (vs : List UInt64) (hne : nonNaN vs ≠ []) :
    ∃ m pre post, foldMinF vs = some m ∧ nonNaN vs = pre ++ m :: post ∧
      (∀ v ∈ pre, fltLt m v = true) ∧ (∀ v ∈ post, fltLt v m = false) := by
  rw [foldMinF_eq]; exact foldMin_first h (nonNaN vs) (nonNaN_notNaN vs) hne

theorem foldMaxF_first (h : StrictWeakOn NotNaN fltLt) (vs : List UInt64) (hne : nonNaN vs ≠ []) :
    ∃ m pre post, foldMaxF vs = some m ∧ nonNaN vs = pre ++ m :: post ∧
      (∀ v ∈ pre, fltLt v m = true) ∧ (∀ v ∈ post, fltLt m v = false) := by
  rw [foldMaxF_eq]; exact foldMax_first h (nonNaN vs) (nonNaN_notNaN vs) hne

/-! ## A2: the integer (index) bounds are the exact minimum and maximum -/

def ltI : Int → Int → Bool := fun a b => decide (a < b)

theorem ltI_total : StrictTotalOn (fun _ : Int => True) ltI where
  irrefl := by intro a _; simp [ltI]
  trans := by intro a b c _ _ _ h1 h2; simp [ltI] at *; omega
  total := by intro a b _ _ hne; simp [ltI]; omega

theorem foldMin_int (vs : List Int) (hne : vs ≠ []) (m : Int) :
    foldMin ltI vs = some m ↔ m ∈ vs ∧ ∀ v ∈ vs, m ≤ v := by
  obtain ⟨m', h1, h2, h3⟩ := foldMin_spec ltI_total.toStrictOn vs (fun _ _ => trivial) hne
  have h3' : ∀ v ∈ vs, m' ≤ v := by
    intro v hv; have := h3 v hv; simp [ltI] at this; omega
  constructor
  · intro h; rw [h1] at h; cases h; exact ⟨h2, h3'⟩
  · rintro ⟨hm, hle⟩
    have := hle m' h2; have := h3' m hm
    rw [h1]; congr 1; omega

theorem foldMax_int (vs : List Int) (hne : vs ≠ []) (m : Int) :
    foldMax ltI vs = some m ↔ m ∈ vs ∧ ∀ v ∈ vs, v ≤ m := by
  obtain ⟨m', h1, h2, h3⟩ := foldMax_spec ltI_total.toStrictOn vs (fun _ _ => trivial) hne
  have h3' : ∀ v ∈ vs, v ≤ m' := by
    intro v hv; have := h3 v hv; simp [ltI] at this; omega
  constructor
  · intro h; rw [h1] at h; cases h; exact ⟨h2, h3'⟩
  · rintro ⟨hm, hle⟩
    have := hle m' h2; have := h3' m hm
    rw [h1]; congr 1; omega

/-- the model's index-bound updates are these folds -/
theorem foldl_updMinI (vs : List Int) (cur : Option Int) :
    vs.foldl (fun c v => updMinI v c) cur = vs.foldl (fun c v => updMinG ltI v c) cur := rfl
theorem foldl_updMaxI (vs : List Int) (cur : Option Int) :
    vs.foldl (fun c v => updMaxI v c) cur = vs.foldl (fun c v => updMaxG ltI v c) cur := rfl

/-! # generic helpers for `Outcome` -/

theorem Outcome.bind_eq_ok {α β} {x : Outcome α} {f : α → Outcome β} {b : β}
    (h : (x >>= f) = .ok b) : ∃ a, x = .ok a ∧ f a = .ok b := by
  cases x with
  | ok a => exact ⟨a, rfl, h⟩
  | err e => cases h
  | panic s => cases h

theorem Outcome.bind_eq_panic {α β} {x : Outcome α} {f : α → Outcome β} {s : String}
    (h : (x >>= f) = .panic s) : x = .panic s ∨ ∃ a, x = .ok a ∧ f a = .panic s := by
  cases x with
  | ok a => exact .inr ⟨a, rfl, h⟩
  | err e => cases h
  | panic s' => change (Outcome.panic s' : Outcome β) = Outcome.panic s at h; cases h; exact .inl rfl

/-! # Part B — rejection -/

/-! ### `write_buffer_to_disk` in named pieces -/

def pktLen (n sum : Nat) : Nat :=
  if (6 + n * 2 + sum) % 4 ≠ 0 then 6 + n * 2 + sum + (4 - (6 + n * 2 + sum) % 4) else 6 + n * 2 + sum

def sizesOf (lf : Bool) (ss : List WBuf) : List Nat :=
  ss.map (fun s => if lf then s.allBytes else s.fullBytes)

def drainOf (lf : Bool) (ss : List WBuf) : List (Bytes × WBuf) :=
  ss.map (fun s => if lf then s.getAllBytes else s.getFullBytes)

def sumNat (l : List Nat) : Nat := l.foldl (· + ·) 0

/-- everything after `writePoints` -/
def wbdTail (w : PcW) (pw : PW) (lf : Bool) (buf : List (List Value)) (ss : List WBuf) :
    Outcome (PW × PcW) :=
  if sumNat (sizesOf lf ss) > 0 then
    if pktLen w.prototype.length (sumNat (sizesOf lf ss)) > 65535 then
      .err "Invalid data packet length detected"
    else
      dataPacketHeaderBytes false (pktLen w.prototype.length (sumNat (sizesOf lf ss)))
          (w.prototype.length % 65536) >>= fun hdr =>
      pw.writeAll hdr >>= fun pw1 =>
      pw1.writeAll ((sizesOf lf ss).map (fun s => toLE (s % 65536) 2)).flatten >>= fun pw2 =>
      pw2.writeAll ((drainOf lf ss).map (·.1)).flatten >>= fun pw3 =>
      pw3.align >>= fun pw4 =>
      .ok (pw4, { w with
        buffer := buf
        header := { w.header with sectionLength :=
          w.header.sectionLength + pktLen w.prototype.length (sumNat (sizesOf lf ss)) }
        streams := (drainOf lf ss).map (·.2) })
  else
    pw.align >>= fun pw4 => .ok (pw4, { w with buffer := buf, streams := ss })

theorem writeBufferToDisk_eq (w : PcW) (pw : PW) (lf : Bool) :
    w.writeBufferToDisk pw lf =
      (writePoints (min w.maxPoints w.buffer.length) w.buffer w.prototype w.streams >>=
        fun r => wbdTail w pw lf r.1 r.2) := rfl

theorem wbdTail_frame (w : PcW) (pw : PW) (lf : Bool) (buf : List (List Value)) (ss : List WBuf)
    (pw' : PW) (w' : PcW) (h : wbdTail w pw lf buf ss = .ok (pw', w')) :
    w'.prototype = w.prototype ∧ w'.pointCount = w.pointCount ∧ w'.pc = w.pc ∧
      w'.maxPoints = w.maxPoints ∧ w'.guid = w.guid ∧ w'.sectionOffset = w.sectionOffset ∧
      w'.buffer = buf := by
  unfold wbdTail at h
  split at h
  · split at h
    · cases h
    · obtain ⟨hdr, _, h⟩ := Outcome.bind_eq_ok h
      obtain ⟨p1, _, h⟩ := Outcome.bind_eq_ok h
      obtain ⟨p2, _, h⟩ := Outcome.bind_eq_ok h
      obtain ⟨p3, _, h⟩ := Outcome.bind_eq_ok h
      obtain ⟨p4, _, h⟩ := Outcome.bind_eq_ok h
      cases h
      simp
  · obtain ⟨p4, _, h⟩ := Outcome.bind_eq_ok h
    cases h
    simp

theorem writeBufferToDisk_frame (w : PcW) (pw : PW) (lf : Bool) (pw' : PW) (w' : PcW)
    (h : w.writeBufferToDisk pw lf = .ok (pw', w')) :
    w'.prototype = w.prototype ∧ w'.pointCount = w.pointCount ∧ w'.pc = w.pc ∧
      w'.maxPoints = w.maxPoints ∧ w'.guid = w.guid ∧ w'.sectionOffset = w.sectionOffset := by
  rw [writeBufferToDisk_eq] at h
  obtain ⟨r, _, h⟩ := Outcome.bind_eq_ok h
  obtain ⟨h1, h2, h3, h4, h5, h6, _⟩ := wbdTail_frame _ _ _ _ _ _ _ h
  exact ⟨h1, h2, h3, h4, h5, h6⟩

/-- **B1**: wrong arity, wrong kind or an integer outside `min..max` is rejected with an error -/
theorem addPoint_rejects (w : PcW) (pw : PW) (vs : List Value)
    (h : vs.length ≠ w.prototype.length ∨ checkValues w.prototype vs = false) :
    ∃ e, w.addPoint pw vs = .err e := by
  unfold PcW.addPoint
  by_cases h1 : vs.length ≠ w.prototype.length
  · exact ⟨"Number of values does not match prototype length", by simp [h1]⟩
  · have h2 : checkValues w.prototype vs = false := by
      rcases h with h | h
      · exact absurd h h1
      · exact h
    exact ⟨"value does not fit the prototype", by simp [h1, h2]⟩

/-- a driver that keeps the old state when a call fails -/
def stepKeep (st : PW × PcW) (vs : List Value) : PW × PcW :=
  match st.2.addPoint st.1 vs with
  | .ok st' => st'
  | _ => st

/-- **B1'**: a rejected point changes nothing -/
theorem addPoint_err_no_state (w : PcW) (pw : PW) (vs : List Value)
    (h : vs.length ≠ w.prototype.length ∨ checkValues w.prototype vs = false) :
    stepKeep (pw, w) vs = (pw, w) := by
  obtain ⟨e, he⟩ := addPoint_rejects w pw vs h
  simp [stepKeep, he]

/-- **B2**: an accepted point had the right arity and kinds, and is counted -/
theorem addPoint_ok_implies (w : PcW) (pw : PW) (vs : List Value) (pw' : PW) (w' : PcW)
    (h : w.addPoint pw vs = .ok (pw', w')) :
    vs.length = w.prototype.length ∧ checkValues w.prototype vs = true ∧
      w'.pointCount = w.pointCount + 1 ∧ w'.prototype = w.prototype := by
  unfold PcW.addPoint at h
  by_cases h1 : vs.length ≠ w.prototype.length
  · simp [h1] at h
  · cases h2 : checkValues w.prototype vs with
    | false => simp [h1, h2] at h
    | true =>
      simp only [h1, h2, if_false, Bool.not_true] at h
      obtain ⟨pc, _, h⟩ := Outcome.bind_eq_ok h
      refine ⟨by omega, rfl, ?_⟩
      split at h
      · obtain ⟨e1, e2, _⟩ := writeBufferToDisk_frame _ _ _ _ _ h
        exact ⟨e2, e1⟩
      · cases h; exact ⟨rfl, rfl⟩

/-- **B3**: a prototype violating the extension or the prototype rules is rejected -/
theorem PcW.new_rejects (pw : PW) (exts : List (String × String)) (guid : String) (proto : Prototype)
    (h : validateExtensions proto exts = false ∨ validatePrototype proto = false) :
    ∃ e, PcW.new pw exts guid proto = .err e := by
  unfold PcW.new
  cases h1 : validateExtensions proto exts with
  | false => exact ⟨"extension namespace or name not accepted", by simp⟩
  | true =>
    have h2 : validatePrototype proto = false := by
      rcases h with h | h
      · rw [h1] at h; cases h
      · exact h
    exact ⟨"prototype violates the documented rules", by simp [h2]⟩

/-! # Part C — totality -/

/-! ## sums -/

theorem foldl_add_eq (l : List Nat) (a : Nat) : l.foldl (· + ·) a = a + l.sum := by
  induction l generalizing a with
  | nil => simp
  | cons x xs ih => simp only [List.foldl_cons, List.sum_cons, ih]; omega

theorem sumNat_eq (l : List Nat) : sumNat l = l.sum := by
  unfold sumNat; rw [foldl_add_eq]; omega

/-- number of bits of one point -/
def pointBits (p : Prototype) : Nat := (p.map (fun r => r.dt.bitSize)).sum

def usedSum (ss : List WBuf) : Nat := (ss.map WBuf.used).sum

/-! ## one value into one stream -/

/-- integer bounds are `i64` values (a type invariant of the Rust `Record`, not of the model's `Int`) -/
def DataType.i64ok : DataType → Prop
  | .integer min max => inI64 min = true ∧ inI64 max = true
  | .scaled min max _ _ => inI64 min = true ∧ inI64 max = true
  | _ => True

def ProtoI64 (p : Prototype) : Prop := ∀ r ∈ p, r.dt.i64ok

theorem serializeInteger_spec (i min max : Int) (s : WBuf) (hs : s.Inv)
    (hmin : inI64 min = true) (hmax : inI64 max = true) (h1 : min ≤ i) (h2 : i ≤ max) :
    ∃ s', serializeInteger i min max s = .ok s' ∧ s'.Inv ∧ s'.used = s.used + integerBits min max := by
  have hle : min ≤ max := by omega
  have hb := C12.integerBits_le_64 min max hle hmin hmax
  have hl := (C12.integerBits_least min max hle).1
  rw [inI64_iff] at hmin hmax
  have e := C12.i64ToU64_of_nonneg (i - min) (by omega) (by omega)
  have hfit : leVal (toLE (i64ToU64 (i - min)) 8) < 2 ^ integerBits min max := by
    rw [leVal_toLE, e]
    have : (i - min).toNat ≤ (max - min).toNat := by omega
    have h64 : (i - min).toNat < 2 ^ (8 * 8) := by
      have : (2 : Nat) ^ (8 * 8) = 18446744073709551616 := by decide
      omega
    rw [Nat.mod_eq_of_lt h64]
    omega
  obtain ⟨s', e1, e2, e3, _⟩ := WBuf.addBits_spec s (toLE (i64ToU64 (i - min)) 8) (integerBits min max)
    hs hfit (by rw [toLE_length]; omega)
  exact ⟨s', e1, e2, e3⟩

/-- `RecordDataType::write` of an accepted value succeeds and appends exactly `bit_size` bits -/
theorem DataType.write_spec (dt : DataType) (v : Value) (s : WBuf) (hs : s.Inv)
    (hacc : dt.accepts v = true) (hi : dt.i64ok) :
    ∃ s', dt.write v s = .ok s' ∧ s'.Inv ∧ s'.used = s.used + dt.bitSize := by
  cases dt with
  | single mn mx =>
    cases v <;> simp [DataType.accepts, DataType.matches] at hacc
    obtain ⟨s', e1, e2, e3, _⟩ := WBuf.addBytes_spec s (toLE _ 4) hs
    exact ⟨s', e1, e2, by rw [e3, toLE_length]; rfl⟩
  | double mn mx =>
    cases v <;> simp [DataType.accepts, DataType.matches] at hacc
    obtain ⟨s', e1, e2, e3, _⟩ := WBuf.addBytes_spec s (toLE _ 8) hs
    exact ⟨s', e1, e2, by rw [e3, toLE_length]; rfl⟩
  | scaled mn mx sc off =>
    cases v <;> simp [DataType.accepts, DataType.matches] at hacc
    exact serializeInteger_spec _ mn mx s hs hi.1 hi.2 hacc.1 hacc.2
  | integer mn mx =>
    cases v <;> simp [DataType.accepts, DataType.matches] at hacc
    exact serializeInteger_spec _ mn mx s hs hi.1 hi.2 hacc.1 hacc.2

/-! ## one point into the streams -/

theorem writePointStreams_spec : ∀ (rs : List Record) (vs : List Value) (ss : List WBuf),
    vs.length = rs.length → ss.length = rs.length → (∀ s ∈ ss, s.Inv) →
    checkValues rs vs = true → (∀ r ∈ rs, r.dt.i64ok) →
    ∃ ss', writePointStreams rs vs ss = .ok ss' ∧ ss'.length = rs.length ∧ (∀ s ∈ ss', s.Inv) ∧
      usedSum ss' = usedSum ss + pointBits rs
  | [], vs, ss, _, hs, _, _, _ => by
    cases ss with
    | nil => exact ⟨[], rfl, rfl, by simp, rfl⟩
    | cons _ _ => simp at hs
  | r :: rs, [], _, hv, _, _, _, _ => by simp at hv
  | r :: rs, v :: vs, [], _, hs, _, _, _ => by simp at hs
  | r :: rs, v :: vs, s :: ss, hv, hs, hinv, hc, hi => by
    simp only [checkValues, Bool.and_eq_true] at hc
    obtain ⟨s', e1, e2, e3⟩ := DataType.write_spec r.dt v s (hinv s (by simp)) hc.1 (hi r (by simp))
    obtain ⟨ss', f1, f2, f3, f4⟩ := writePointStreams_spec rs vs ss (by simpa using hv) (by simpa using hs)
      (fun x hx => hinv x (by simp [hx])) hc.2 (fun x hx => hi x (by simp [hx]))
    refine ⟨s' :: ss', ?_, by simp [f2], ?_, ?_⟩
    · simp [writePointStreams, e1, f1]
    · intro x hx
      rcases List.mem_cons.1 hx with h | h
      · subst h; exact e2
      · exact f3 x h
    · simp only [usedSum, pointBits, List.map_cons, List.sum_cons] at f4 ⊢
      omega

/-! ## `n` buffered points into the streams -/

theorem writePoints_spec (proto : Prototype) (hi : ProtoI64 proto) : ∀ (n : Nat) (buf : List (List Value))
    (ss : List WBuf), n ≤ buf.length →
    (∀ pt ∈ buf, pt.length = proto.length ∧ checkValues proto pt = true) →
    ss.length = proto.length → (∀ s ∈ ss, s.Inv) →
    ∃ ss', writePoints n buf proto ss = .ok (buf.drop n, ss') ∧ ss'.length = proto.length ∧
      (∀ s ∈ ss', s.Inv) ∧ usedSum ss' = usedSum ss + n * pointBits proto
  | 0, buf, ss, _, _, hs, hinv => ⟨ss, rfl, hs, hinv, by simp⟩
  | n + 1, [], _, hn, _, _, _ => by simp at hn
  | n + 1, pt :: buf, ss, hn, hb, hs, hinv => by
    obtain ⟨ss1, e1, e2, e3, e4⟩ := writePointStreams_spec proto pt ss (hb pt (by simp)).1 hs hinv
      (hb pt (by simp)).2 hi
    obtain ⟨ss2, f1, f2, f3, f4⟩ := writePoints_spec proto hi n buf ss1 (by simpa using hn)
      (fun x hx => hb x (by simp [hx])) e2 e3
    refine ⟨ss2, ?_, f2, f3, ?_⟩
    · simp [writePoints, e1, f1]
    · rw [f4, e4, Nat.add_mul]; omega

/-! ## draining the streams -/

theorem sum_eq_zero_forall (l : List Nat) (h : l.sum = 0) : ∀ x ∈ l, x = 0 := by
  induction l with
  | nil => simp
  | cons a as ih =>
    simp only [List.sum_cons] at h
    intro x hx
    rcases List.mem_cons.1 hx with h1 | h1
    · omega
    · exact ih (by omega) x h1

/-- after a drain only the partial byte is left -/
theorem drain_inv (lf : Bool) (s : WBuf) (hs : s.Inv) :
    ((if lf then s.getAllBytes else s.getFullBytes).2).Inv ∧
      ((if lf then s.getAllBytes else s.getFullBytes).2).used < 8 := by
  cases lf with
  | true => exact ⟨WBuf.inv_new, by simp [WBuf.getAllBytes, WBuf.used]⟩
  | false =>
    refine ⟨(WBuf.getFullBytes_spec s hs).1, ?_⟩
    have h8 := hs.lt8
    simp only [Bool.false_eq_true, if_false, WBuf.getFullBytes, WBuf.fullBytes, WBuf.used, List.length_drop]
    by_cases h0 : s.lastBit = 0
    · simp [h0]
    · have : s.buffer.length ≠ 0 := by simpa using hs.nonempty h0
      simp only [h0, ne_eq, not_false_eq_true, if_true, if_false]
      omega

/-- a stream whose drainable size is zero holds only a partial byte -/
theorem size_zero_used (lf : Bool) (s : WBuf) (hs : s.Inv)
    (h : (if lf then s.allBytes else s.fullBytes) = 0) : s.used < 8 := by
  have h8 := hs.lt8
  cases lf with
  | true =>
    simp only [if_true, WBuf.allBytes] at h
    simp only [WBuf.used, h]; split <;> omega
  | false =>
    simp only [Bool.false_eq_true, if_false, WBuf.fullBytes] at h
    simp only [WBuf.used]
    split at h <;> split <;> omega

/-! ## the packet -/

theorem pktLen_bounds (n sum : Nat) : 6 + n * 2 + sum ≤ pktLen n sum ∧ pktLen n sum ≤ 6 + n * 2 + sum + 3 := by
  unfold pktLen; split <;> omega

theorem dataPacketHeaderBytes_ok (r : Bool) (n c : Nat) (h : 0 < n) :
    ∃ b, dataPacketHeaderBytes r n c = .ok b := by
  unfold dataPacketHeaderBytes
  rw [if_neg (by omega)]
  exact ⟨_, rfl⟩

/-- the writer state after `write_buffer_to_disk` -/
def wbdNext (w : PcW) (lf : Bool) (buf : List (List Value)) (ss : List WBuf) : PcW :=
  if sumNat (sizesOf lf ss) > 0 then
    { w with
      buffer := buf
      header := { w.header with sectionLength :=
        w.header.sectionLength + pktLen w.prototype.length (sumNat (sizesOf lf ss)) }
      streams := (drainOf lf ss).map (·.2) }
  else { w with buffer := buf, streams := ss }

/-- on a well-formed page writer the tail of `write_buffer_to_disk` either reports an over-long packet
    or succeeds; it cannot panic (the header's `packet_length - 1` does not underflow) -/
theorem wbdTail_spec (w : PcW) (pw : PW) (lf : Bool) (buf : List (List Value)) (ss : List WBuf)
    (hpw : pw.Inv) :
    (wbdTail w pw lf buf ss = .err "Invalid data packet length detected" ∧
        pktLen w.prototype.length (sumNat (sizesOf lf ss)) > 65535 ∧ sumNat (sizesOf lf ss) > 0) ∨
    ∃ pw', wbdTail w pw lf buf ss = .ok (pw', wbdNext w lf buf ss) ∧ pw'.Inv := by
  unfold wbdTail wbdNext
  by_cases hsum : sumNat (sizesOf lf ss) > 0
  · simp only [hsum, if_true]
    by_cases hlen : pktLen w.prototype.length (sumNat (sizesOf lf ss)) > 65535
    · left; simp only [hlen, if_true]; exact ⟨trivial, trivial, trivial⟩
    · right
      simp only [hlen, if_false]
      obtain ⟨hdr, e0⟩ := dataPacketHeaderBytes_ok false (pktLen w.prototype.length (sumNat (sizesOf lf ss)))
        (w.prototype.length % 65536) (by have := (pktLen_bounds w.prototype.length (sumNat (sizesOf lf ss))).1; omega)
      obtain ⟨p1, e1, i1, _⟩ := pw_writeAll pw hdr hpw
      obtain ⟨p2, e2, i2, _⟩ := pw_writeAll p1 ((sizesOf lf ss).map (fun s => toLE (s % 65536) 2)).flatten i1
      obtain ⟨p3, e3, i3, _⟩ := pw_writeAll p2 ((drainOf lf ss).map (·.1)).flatten i2
      obtain ⟨p4, e4, i4, _⟩ := pw_align p3 i3
      exact ⟨p4, by simp [e0, e1, e2, e3, e4], i4⟩
  · right
    simp only [hsum, if_false]
    obtain ⟨p4, e4, i4, _⟩ := pw_align pw hpw
    exact ⟨p4, by simp [e4], i4⟩

theorem usedSum_zero_forall (ss : List WBuf) (h : usedSum ss = 0) : ∀ s ∈ ss, s.used = 0 := by
  intro s hs
  exact sum_eq_zero_forall _ h _ (List.mem_map.2 ⟨s, hs, rfl⟩)

theorem forall_zero_usedSum : ∀ (ss : List WBuf), (∀ s ∈ ss, s.used = 0) → usedSum ss = 0
  | [], _ => rfl
  | s :: ss, h => by
    have := forall_zero_usedSum ss (fun x hx => h x (by simp [hx]))
    have := h s (by simp)
    simp only [usedSum, List.map_cons, List.sum_cons] at *
    omega

/-- draining an empty stream leaves it empty -/
theorem drain_used_zero (lf : Bool) (s : WBuf) (hs : s.Inv) (h0 : s.used = 0) :
    ((if lf then s.getAllBytes else s.getFullBytes).2).used = 0 := by
  cases lf with
  | true => simp [WBuf.getAllBytes, WBuf.used]
  | false =>
    have := (WBuf.getFullBytes_spec s hs).2.2
    simp only [Bool.false_eq_true, if_false]
    omega

/-- the drainable size of an empty stream is zero -/
theorem size_of_used_zero (lf : Bool) (s : WBuf) (hs : s.Inv) (h0 : s.used = 0) :
    (if lf then s.allBytes else s.fullBytes) = 0 := by
  have hl := WBuf.length_eq s hs
  cases lf with
  | true => simp only [if_true, WBuf.allBytes]; omega
  | false =>
    simp only [Bool.false_eq_true, if_false, WBuf.fullBytes]
    split <;> omega

theorem sizes_of_used_zero (lf : Bool) : ∀ (ss : List WBuf), (∀ s ∈ ss, s.Inv) → (∀ s ∈ ss, s.used = 0) →
    sumNat (sizesOf lf ss) = 0
  | [], _, _ => rfl
  | s :: ss, hi, h0 => by
    have h1 := sizes_of_used_zero lf ss (fun x hx => hi x (by simp [hx])) (fun x hx => h0 x (by simp [hx]))
    have h2 := size_of_used_zero lf s (hi s (by simp)) (h0 s (by simp))
    rw [sumNat_eq] at h1 ⊢
    simp only [sizesOf, List.map_cons, List.sum_cons] at h1 ⊢
    omega

/-! ## the writer invariant -/

/-- well-formed point-cloud writer state (without the bound on the number of buffered points) -/
structure PcW.Inv0 (w : PcW) : Prop where
  slen : w.streams.length = w.prototype.length
  sinv : ∀ s ∈ w.streams, s.Inv
  /-- between calls the streams hold only their incomplete byte -/
  drained : ∀ s ∈ w.streams, s.used < 8
  buf : ∀ pt ∈ w.buffer, pt.length = w.prototype.length ∧ checkValues w.prototype pt = true
  mp : 0 < w.maxPoints
  i64 : ProtoI64 w.prototype
  /-- a prototype whose records all have width zero never puts a bit into a stream -/
  zero : pointBits w.prototype = 0 → ∀ s ∈ w.streams, s.used = 0

/-- the invariant between the public calls -/
structure PcW.Inv (w : PcW) : Prop extends PcW.Inv0 w where
  blen : w.buffer.length < w.maxPoints

theorem wbdNext_inv0 (w : PcW) (lf : Bool) (n : Nat) (ss : List WBuf) (h : w.Inv0)
    (hl : ss.length = w.prototype.length) (hi : ∀ s ∈ ss, s.Inv)
    (hz : pointBits w.prototype = 0 → ∀ s ∈ ss, s.used = 0) :
    (wbdNext w lf (w.buffer.drop n) ss).Inv0 := by
  unfold wbdNext
  by_cases hsum : sumNat (sizesOf lf ss) > 0
  · simp only [hsum, if_true]
    refine ⟨by simp [drainOf, hl], ?_, ?_, ?_, h.mp, h.i64, ?_⟩
    · intro s hs
      simp only [drainOf, List.map_map, List.mem_map, Function.comp] at hs
      obtain ⟨a, ha, rfl⟩ := hs
      exact (drain_inv lf a (hi a ha)).1
    · intro s hs
      simp only [drainOf, List.map_map, List.mem_map, Function.comp] at hs
      obtain ⟨a, ha, rfl⟩ := hs
      exact (drain_inv lf a (hi a ha)).2
    · intro pt hpt; exact h.buf pt (List.mem_of_mem_drop hpt)
    · intro hp s hs
      simp only [drainOf, List.map_map, List.mem_map, Function.comp] at hs
      obtain ⟨a, ha, rfl⟩ := hs
      exact drain_used_zero lf a (hi a ha) (hz hp a ha)
  · simp only [hsum, if_false]
    refine ⟨hl, hi, ?_, ?_, h.mp, h.i64, hz⟩
    · intro s hs
      have h0 : (sizesOf lf ss).sum = 0 := by rw [← sumNat_eq]; omega
      exact size_zero_used lf s (hi s hs)
        (sum_eq_zero_forall _ h0 _ (List.mem_map.2 ⟨s, hs, rfl⟩))
    · intro pt hpt; exact h.buf pt (List.mem_of_mem_drop hpt)

theorem wbdNext_frame (w : PcW) (lf : Bool) (buf : List (List Value)) (ss : List WBuf) :
    (wbdNext w lf buf ss).prototype = w.prototype ∧ (wbdNext w lf buf ss).pointCount = w.pointCount ∧
      (wbdNext w lf buf ss).pc = w.pc ∧ (wbdNext w lf buf ss).maxPoints = w.maxPoints ∧
      (wbdNext w lf buf ss).guid = w.guid ∧ (wbdNext w lf buf ss).sectionOffset = w.sectionOffset ∧
      (wbdNext w lf buf ss).buffer = buf := by
  unfold wbdNext; split <;> simp

/-- **`write_buffer_to_disk` is total**: on well-formed states it returns the over-long-packet error
    or succeeds, keeps both invariants and removes `min maxPoints buffer.length` points from the buffer -/
theorem writeBufferToDisk_spec (w : PcW) (pw : PW) (lf : Bool) (h : w.Inv0) (hpw : pw.Inv) :
    (w.writeBufferToDisk pw lf = .err "Invalid data packet length detected" ∧
      ∃ ss, writePoints (min w.maxPoints w.buffer.length) w.buffer w.prototype w.streams =
          .ok (w.buffer.drop (min w.maxPoints w.buffer.length), ss) ∧
        ss.length = w.prototype.length ∧ (∀ s ∈ ss, s.Inv) ∧
        usedSum ss = usedSum w.streams + min w.maxPoints w.buffer.length * pointBits w.prototype ∧
        pktLen w.prototype.length (sumNat (sizesOf lf ss)) > 65535 ∧
        sumNat (sizesOf lf ss) > 0) ∨
    ∃ pw' w', w.writeBufferToDisk pw lf = .ok (pw', w') ∧ pw'.Inv ∧ w'.Inv0 ∧
      w'.buffer = w.buffer.drop (min w.maxPoints w.buffer.length) ∧
      w'.prototype = w.prototype ∧ w'.maxPoints = w.maxPoints ∧ w'.pc = w.pc ∧
      w'.pointCount = w.pointCount ∧ w'.guid = w.guid ∧ w'.sectionOffset = w.sectionOffset := by
  rw [writeBufferToDisk_eq]
  obtain ⟨ss, e1, e2, e3, e4⟩ := writePoints_spec w.prototype h.i64 (min w.maxPoints w.buffer.length)
    w.buffer w.streams (Nat.min_le_right _ _) h.buf h.slen h.sinv
  rw [e1]
  simp only [Outcome.bind_ok]
  have hz : pointBits w.prototype = 0 → ∀ s ∈ ss, s.used = 0 := by
    intro hp
    apply usedSum_zero_forall
    rw [e4, hp, Nat.mul_zero, Nat.add_zero]
    exact forall_zero_usedSum _ (h.zero hp)
  rcases wbdTail_spec w pw lf (w.buffer.drop (min w.maxPoints w.buffer.length)) ss hpw with ⟨e, hl, hs⟩ | ⟨pw', e, i⟩
  · exact .inl ⟨e, ss, rfl, e2, e3, e4, hl, hs⟩
  · right
    obtain ⟨f1, f2, f3, f4, f5, f6, f7⟩ := wbdNext_frame w lf (w.buffer.drop (min w.maxPoints w.buffer.length)) ss
    exact ⟨pw', _, e, i, wbdNext_inv0 w lf _ ss h e2 e3 hz, f7, f1, f4, f3, f2, f5, f6⟩

/-! ## C2: `add_point` -/

theorem updateBounds_no_panic (pc : PointCloud) (r : Record) (v : Value) (s : String) :
    updateBounds pc r v ≠ .panic s := by
  unfold updateBounds
  simp only
  split
  · split <;> simp
  · split
    · split <;> simp
    · split
      · split <;> simp
      · simp

theorem updateAllBounds_no_panic : ∀ (rs : List Record) (vs : List Value) (pc : PointCloud) (s : String),
    updateAllBounds rs vs pc ≠ .panic s
  | [], _, _, _ => by simp [updateAllBounds]
  | _ :: _, [], _, _ => by simp [updateAllBounds]
  | r :: rs, v :: vs, pc, s => by
    simp only [updateAllBounds]
    intro h
    rcases Outcome.bind_eq_panic h with h | ⟨pc', _, h⟩
    · exact updateBounds_no_panic _ _ _ _ h
    · exact updateAllBounds_no_panic rs vs pc' s h

/-- `add_point` on well-formed states: an error, or success with both invariants re-established -/
theorem addPoint_spec (w : PcW) (pw : PW) (hw : w.Inv) (hpw : pw.Inv) (vs : List Value) :
    (∃ e, w.addPoint pw vs = .err e) ∨
    ∃ pw' w', w.addPoint pw vs = .ok (pw', w') ∧ w'.Inv ∧ pw'.Inv := by
  by_cases h1 : vs.length ≠ w.prototype.length
  · exact .inl (addPoint_rejects w pw vs (.inl h1))
  cases h2 : checkValues w.prototype vs with
  | false => exact .inl (addPoint_rejects w pw vs (.inr h2))
  | true =>
  unfold PcW.addPoint
  simp only [h1, h2, if_false, Bool.not_true]
  cases hub : updateAllBounds w.prototype vs w.pc with
  | panic s => exact absurd hub (updateAllBounds_no_panic _ _ _ _)
  | err e => exact .inl ⟨e, rfl⟩
  | ok pc =>
    simp only [Outcome.bind_ok]
    have hlen : vs.length = w.prototype.length := by omega
    have hinv0 : PcW.Inv0 { w with pc := pc, buffer := w.buffer ++ [vs], pointCount := w.pointCount + 1 } :=
      ⟨hw.slen, hw.sinv, hw.drained, by
        intro pt hpt
        rcases List.mem_append.1 hpt with h | h
        · exact hw.buf pt h
        · simp at h; subst h; exact ⟨hlen, h2⟩, hw.mp, hw.i64, hw.zero⟩
    have hbl := hw.blen
    have hmp := hw.mp
    by_cases hge : (w.buffer ++ [vs]).length ≥ w.maxPoints
    · rw [if_pos hge]
      simp only [List.length_append, List.length_cons, List.length_nil] at hge
      rcases writeBufferToDisk_spec _ pw false hinv0 hpw with ⟨e, _⟩ | ⟨pw', w', e, i1, i2, e3, _, e5, _⟩
      · exact .inl ⟨_, e⟩
      · refine .inr ⟨pw', w', e, ⟨i2, ?_⟩, i1⟩
        rw [e3, e5]
        simp only [List.length_drop, List.length_append, List.length_cons, List.length_nil]
        omega
    · rw [if_neg hge]
      simp only [List.length_append, List.length_cons, List.length_nil] at hge
      refine .inr ⟨pw, _, rfl, ⟨hinv0, ?_⟩, hpw⟩
      simp only [List.length_append, List.length_cons, List.length_nil]
      omega

/-- **C2**: `add_point` never panics on well-formed states and keeps them well-formed -/
theorem addPoint_total (w : PcW) (pw : PW) (hw : w.Inv) (hpw : pw.Inv) (vs : List Value) :
    (¬ ∃ s, w.addPoint pw vs = .panic s) ∧
    ∀ pw' w', w.addPoint pw vs = .ok (pw', w') → w'.Inv ∧ pw'.Inv := by
  rcases addPoint_spec w pw hw hpw vs with ⟨e, he⟩ | ⟨pw1, w1, he, i1, i2⟩
  · refine ⟨?_, ?_⟩
    · rintro ⟨s, hs⟩; rw [he] at hs; cases hs
    · intro _ _ h; rw [he] at h; cases h
  · refine ⟨?_, ?_⟩
    · rintro ⟨s, hs⟩; rw [he] at hs; cases hs
    · intro _ _ h; rw [he] at h; cases h; exact ⟨i1, i2⟩

/-! ## C1: `PointCloudWriter::new` -/

def newColor (proto : Prototype) : Outcome (Option ColorLimits) :=
  if proto.has .colorRed then
    match proto.get .colorRed, proto.get .colorGreen, proto.get .colorBlue with
    | some r, some g, some b =>
      .ok (some ⟨r.dt.limits.1, r.dt.limits.2, g.dt.limits.1, g.dt.limits.2, b.dt.limits.1, b.dt.limits.2⟩)
    | _, _, _ => .err "Unable to find colour record"
  else .ok none

/-- the bounds structures a new writer starts with -/
def freshPc (proto : Prototype) (cl : Option ColorLimits) : PointCloud :=
  { cartesianBounds := if proto.has .cartesianX then some {} else none
    sphericalBounds := if proto.has .sphericalAzimuth then some {} else none
    indexBounds := if proto.has .returnIndex || proto.has .columnIndex || proto.has .rowIndex
      then some {} else none
    colorLimits := cl
    intensityLimits := (proto.get .intensity).map (fun r => ⟨r.dt.limits.1, r.dt.limits.2⟩) }

def newState (guid : String) (proto : Prototype) (maxPoints sectionOffset dataOffset : Nat)
    (cl : Option ColorLimits) : PcW :=
  { guid := guid, sectionOffset := sectionOffset, header := ⟨32, dataOffset, 0⟩, prototype := proto,
    pointCount := 0, buffer := [], maxPoints := maxPoints,
    streams := List.replicate proto.length WBuf.new, pc := freshPc proto cl }

theorem PcW.new_eq (pw : PW) (exts : List (String × String)) (guid : String) (proto : Prototype)
   (h1 : validateExtensions proto exts = true) (h2 : validatePrototype proto = true)
   (h3 : maxPacketPoints proto ≠ 0) :
    PcW.new pw exts guid proto =
      (pw.writeAll (CvHeader.bytes ⟨32, 0, 0⟩) >>= fun pw1 =>
      newColor proto >>= fun cl =>
      .ok (pw1, newState guid proto (maxPacketPoints proto) pw.physicalPosition pw1.physicalPosition cl)) := by
  unfold PcW.new
  simp only [h1, h2, h3, Bool.not_true, Bool.false_eq_true, if_false]
  cases pw.writeAll (CvHeader.bytes ⟨32, 0, 0⟩) with
  | err e => rfl
  | panic e => rfl
  | ok pw1 =>
    simp only [Outcome.bind_ok]
    unfold newColor
    cases proto.has .colorRed with
    | false => rfl
    | true =>
      simp only [if_true]
      cases proto.get .colorRed <;> cases proto.get .colorGreen <;> cases proto.get .colorBlue <;> rfl

/-- `get_max_packet_points` (saturating `usize` arithmetic; zero-width points need no space) -/
theorem maxPacketPoints_eq (p : Prototype) :
    maxPacketPoints p =
      if pointBits p = 0 then 65535 else ((65535 - (506 + 3 * p.length)) * 8) / pointBits p := by
  have e : (p.map (fun r => r.dt.bitSize)).foldl (· + ·) 0 = pointBits p := sumNat_eq _
  unfold maxPacketPoints
  simp only [e]
  have : 6 + p.length * 2 + p.length + 500 = 506 + 3 * p.length := by omega
  rw [this]

/-- the capacity is zero exactly when a single point does not fit into a packet -/
theorem maxPacketPoints_eq_zero_iff (p : Prototype) :
    maxPacketPoints p = 0 ↔ (65535 - (506 + 3 * p.length)) * 8 < pointBits p := by
  rw [maxPacketPoints_eq]
  by_cases h0 : pointBits p = 0
  · simp [h0]
  · simp only [h0, if_false]
    rw [Nat.div_eq_zero_iff]
    constructor
    · rintro (h | h)
      · exact absurd h h0
      · exact h
    · intro h; exact .inr h

theorem newColor_no_panic (p : Prototype) (s : String) : newColor p ≠ .panic s := by
  unfold newColor
  split
  · split <;> simp
  · simp

/-! ### `write_all` never panics, whatever the state of the page writer -/

theorem write1_snd (w : PW) (buf : Bytes) : (w.write1 buf).2 = min buf.length (payloadSize - w.offset) := by
  unfold PW.write1
  simp only
  split <;> rfl

theorem writeAllFuel_no_panic : ∀ (fuel : Nat) (w : PW) (buf : Bytes) (s : String), buf.length < fuel →
    PW.writeAllFuel fuel w buf ≠ .panic s
  | 0, _, _, _, h => by omega
  | fuel + 1, w, [], _, _ => by simp [PW.writeAllFuel]
  | fuel + 1, w, b :: bs, s, h => by
    unfold PW.writeAllFuel
    simp only
    split
    · simp
    · next hn =>
      apply writeAllFuel_no_panic fuel
      rw [List.length_drop]
      have := write1_snd w (b :: bs)
      simp only [List.length_cons] at h this ⊢
      omega

theorem writeAll_no_panic (w : PW) (buf : Bytes) (s : String) : w.writeAll buf ≠ .panic s :=
  writeAllFuel_no_panic _ w buf s (by omega)

/-- **C1 (no panic)**: `PointCloudWriter::new` never panics (the `usize` underflow and the division
    by zero of `get_max_packet_points` are gone) -/
theorem PcW.new_never_panics (pw : PW) (exts : List (String × String)) (guid : String) (proto : Prototype) :
    ¬ ∃ s, PcW.new pw exts guid proto = .panic s := by
  rintro ⟨s, hs⟩
  cases h1 : validateExtensions proto exts with
  | false =>
    obtain ⟨e, he⟩ := PcW.new_rejects pw exts guid proto (.inl h1)
    rw [he] at hs; cases hs
  | true =>
  cases h2 : validatePrototype proto with
  | false =>
    obtain ⟨e, he⟩ := PcW.new_rejects pw exts guid proto (.inr h2)
    rw [he] at hs; cases hs
  | true =>
  by_cases h3 : maxPacketPoints proto = 0
  · unfold PcW.new at hs
    simp [h1, h2, h3] at hs
  · rw [PcW.new_eq pw exts guid proto h1 h2 h3] at hs
    rcases Outcome.bind_eq_panic hs with h | ⟨pw1, _, h⟩
    · exact writeAll_no_panic _ _ _ h
    · rcases Outcome.bind_eq_panic h with h | ⟨_, _, h⟩
      · exact newColor_no_panic _ _ h
      · cases h

/-- packet capacity facts established by `new` -/
structure PcW.Cap (w : PcW) : Prop where
  hdrFit : 0 < pointBits w.prototype → 506 + 3 * w.prototype.length ≤ 65535
  cap : w.maxPoints * pointBits w.prototype ≤ (65535 - (506 + 3 * w.prototype.length)) * 8

/-- what `new` returns when it succeeds -/
theorem PcW.new_ok (pw : PW) (exts : List (String × String)) (guid : String) (proto : Prototype)
    (pw' : PW) (w : PcW) (h : PcW.new pw exts guid proto = .ok (pw', w)) :
    validateExtensions proto exts = true ∧ validatePrototype proto = true ∧
    maxPacketPoints proto ≠ 0 ∧
    pw.writeAll (CvHeader.bytes ⟨32, 0, 0⟩) = .ok pw' ∧
    ∃ cl, newColor proto = .ok cl ∧
      w = newState guid proto (maxPacketPoints proto) pw.physicalPosition pw'.physicalPosition cl := by
  cases h1 : validateExtensions proto exts with
  | false =>
    obtain ⟨e, he⟩ := PcW.new_rejects pw exts guid proto (.inl h1)
    rw [he] at h; cases h
  | true =>
  cases h2 : validatePrototype proto with
  | false =>
    obtain ⟨e, he⟩ := PcW.new_rejects pw exts guid proto (.inr h2)
    rw [he] at h; cases h
  | true =>
  by_cases h3 : maxPacketPoints proto = 0
  · unfold PcW.new at h
    simp [h1, h2, h3] at h
  · rw [PcW.new_eq pw exts guid proto h1 h2 h3] at h
    obtain ⟨pw1, e1, h⟩ := Outcome.bind_eq_ok h
    obtain ⟨cl, e2, h⟩ := Outcome.bind_eq_ok h
    cases h
    exact ⟨rfl, rfl, h3, e1, cl, e2, rfl⟩

/-- **C1**: a writer returned by `new` can hold at least one point per packet -/
theorem PcW.new_ok_maxPoints_pos (pw : PW) (exts : List (String × String)) (guid : String)
    (proto : Prototype) (pw' : PW) (w : PcW) (h : PcW.new pw exts guid proto = .ok (pw', w)) :
    0 < w.maxPoints := by
  obtain ⟨_, _, h3, _, cl, _, rfl⟩ := PcW.new_ok pw exts guid proto pw' w h
  simp only [newState]; omega

theorem newState_inv0 (guid : String) (proto : Prototype) (mp so d : Nat) (cl : Option ColorLimits)
    (hi : ProtoI64 proto) (hmp : 0 < mp) : (newState guid proto mp so d cl).Inv := by
  refine ⟨⟨by simp [newState], ?_, ?_, by simp [newState], hmp, hi, ?_⟩, by simpa [newState] using hmp⟩
  · intro s hs
    simp only [newState] at hs
    rw [List.eq_of_mem_replicate hs]; exact WBuf.inv_new
  · intro s hs
    simp only [newState] at hs
    rw [List.eq_of_mem_replicate hs]; simp [WBuf.new, WBuf.used]
  · intro _ s hs
    simp only [newState] at hs
    rw [List.eq_of_mem_replicate hs]; simp [WBuf.new, WBuf.used]

theorem newState_cap (guid : String) (proto : Prototype) (so d : Nat) (cl : Option ColorLimits)
    (h3 : maxPacketPoints proto ≠ 0) : (newState guid proto (maxPacketPoints proto) so d cl).Cap := by
  have hz : ¬ (65535 - (506 + 3 * proto.length)) * 8 < pointBits proto :=
    fun h => h3 ((maxPacketPoints_eq_zero_iff proto).2 h)
  constructor
  · intro hp
    have hp' : 0 < pointBits proto := hp
    show 506 + 3 * proto.length ≤ 65535
    omega
  · show maxPacketPoints proto * pointBits proto ≤ (65535 - (506 + 3 * proto.length)) * 8
    rw [maxPacketPoints_eq]
    by_cases h0 : pointBits proto = 0
    · simp [h0]
    · simp only [h0, if_false]; exact Nat.div_mul_le_self _ _

/-- **C1 (invariant)**: whenever `new` succeeds on a well-formed page writer it establishes the
    writer invariant and the packet-capacity facts (the integer bounds of the prototype being `i64`) -/
theorem PcW.new_inv (pw : PW) (exts : List (String × String)) (guid : String) (proto : Prototype)
    (hpw : pw.Inv) (hi : ProtoI64 proto) (pw' : PW) (w : PcW)
    (h : PcW.new pw exts guid proto = .ok (pw', w)) :
    w.Inv ∧ w.Cap ∧ pw'.Inv ∧ w.prototype = proto ∧ w.pointCount = 0 ∧
      ∃ cl, w.pc = freshPc proto cl := by
  obtain ⟨_, _, h3, e1, cl, _, rfl⟩ := PcW.new_ok pw exts guid proto pw' w h
  obtain ⟨pw1, e1', i1, _⟩ := pw_writeAll pw (CvHeader.bytes ⟨32, 0, 0⟩) hpw
  rw [e1] at e1'; cases e1'
  exact ⟨newState_inv0 _ _ _ _ _ _ hi (by omega), newState_cap _ _ _ _ _ h3, i1, rfl, rfl, cl, rfl⟩

/-! ### when `new` fails -/

theorem get_of_has (p : Prototype) (n : RecordName) (h : p.has n = true) : ∃ r, p.get n = some r := by
  unfold Prototype.has at h
  unfold Prototype.get
  cases hf : p.find? (fun r => r.name == n) with
  | some r => exact ⟨r, rfl⟩
  | none =>
    rw [List.find?_eq_none] at hf
    rw [List.any_eq_true] at h
    obtain ⟨r, hr, hb⟩ := h
    exact absurd hb (hf r hr)

theorem newColor_ok (p : Prototype) (hv : validatePrototype p = true) : ∃ cl, newColor p = .ok cl := by
  unfold newColor
  cases hR : p.has .colorRed with
  | false => exact ⟨none, by simp⟩
  | true =>
    unfold validatePrototype at hv
    simp only [Bool.and_eq_true] at hv
    obtain ⟨⟨⟨⟨⟨⟨⟨_, hcol⟩, _⟩, _⟩, _⟩, _⟩, _⟩, _⟩ := hv
    unfold validateColor at hcol
    simp only [Bool.and_eq_true] at hcol
    have h1 := hcol.1
    have hG : p.has .colorGreen = true := by
      cases hG : p.has .colorGreen <;> cases hB : p.has .colorBlue <;>
        simp [hR, hG, hB, boolToNat] at h1 ⊢
    have hB : p.has .colorBlue = true := by
      cases hG : p.has .colorGreen <;> cases hB : p.has .colorBlue <;>
        simp [hR, hG, hB, boolToNat] at h1 ⊢
    obtain ⟨r, er⟩ := get_of_has p _ hR
    obtain ⟨g, eg⟩ := get_of_has p _ hG
    obtain ⟨b, eb⟩ := get_of_has p _ hB
    simp only [if_true, er, eg, eb]
    exact ⟨_, rfl⟩

/-- **C1 (errors)**: on a well-formed page writer `new` fails exactly when the extension or prototype
    rules are violated or not a single point fits into a data packet -/
theorem PcW.new_err_iff (pw : PW) (exts : List (String × String)) (guid : String) (proto : Prototype)
    (hpw : pw.Inv) :
    (∃ e, PcW.new pw exts guid proto = .err e) ↔
      (validateExtensions proto exts = false ∨ validatePrototype proto = false ∨
        maxPacketPoints proto = 0) := by
  cases h1 : validateExtensions proto exts with
  | false =>
    obtain ⟨e, he⟩ := PcW.new_rejects pw exts guid proto (.inl h1)
    exact ⟨fun _ => .inl rfl, fun _ => ⟨e, he⟩⟩
  | true =>
  cases h2 : validatePrototype proto with
  | false =>
    obtain ⟨e, he⟩ := PcW.new_rejects pw exts guid proto (.inr h2)
    exact ⟨fun _ => .inr (.inl rfl), fun _ => ⟨e, he⟩⟩
  | true =>
  by_cases h3 : maxPacketPoints proto = 0
  · refine ⟨fun _ => .inr (.inr h3), fun _ =>
      ⟨"Prototype is too big, a single point does not fit into a data packet", ?_⟩⟩
    unfold PcW.new
    simp [h1, h2, h3]
  · rw [PcW.new_eq pw exts guid proto h1 h2 h3]
    obtain ⟨pw1, e1, _, _⟩ := pw_writeAll pw (CvHeader.bytes ⟨32, 0, 0⟩) hpw
    obtain ⟨cl, e2⟩ := newColor_ok proto h2
    rw [e1, Outcome.bind_ok, e2, Outcome.bind_ok]
    constructor
    · rintro ⟨e, he⟩; cases he
    · rintro (h | h | h)
      · cases h
      · cases h
      · exact absurd h h3

/-- equivalently: `new` succeeds exactly for accepted prototypes of which one point fits a packet -/
theorem PcW.new_ok_iff (pw : PW) (exts : List (String × String)) (guid : String) (proto : Prototype)
    (hpw : pw.Inv) :
    (∃ r, PcW.new pw exts guid proto = .ok r) ↔
      (validateExtensions proto exts = true ∧ validatePrototype proto = true ∧
        pointBits proto ≤ (65535 - (506 + 3 * proto.length)) * 8) := by
  have herr := PcW.new_err_iff pw exts guid proto hpw
  have hpan := PcW.new_never_panics pw exts guid proto
  rw [maxPacketPoints_eq_zero_iff] at herr
  cases hn : PcW.new pw exts guid proto with
  | ok r =>
    have : ¬ ∃ e, PcW.new pw exts guid proto = .err e := by rw [hn]; rintro ⟨e, he⟩; cases he
    rw [herr] at this
    refine ⟨fun _ => ?_, fun _ => ⟨r, rfl⟩⟩
    refine ⟨?_, ?_, ?_⟩
    · cases h : validateExtensions proto exts with
      | true => rfl
      | false => exact absurd (.inl h) this
    · cases h : validatePrototype proto with
      | true => rfl
      | false => exact absurd (.inr (.inl h)) this
    · exact Nat.le_of_not_lt (fun h => this (.inr (.inr h)))
  | err e =>
    have : ∃ e, PcW.new pw exts guid proto = .err e := ⟨e, hn⟩
    rw [herr] at this
    constructor
    · rintro ⟨r, hr⟩; cases hr
    · rintro ⟨h1, h2, h3⟩
      rcases this with h | h | h
      · rw [h1] at h; cases h
      · rw [h2] at h; cases h
      · omega
  | panic s => exact absurd ⟨s, hn⟩ hpan

/-! ### regression: the prototype on which the unrepaired crate hung in `finalize` -/

/-- 5910 × `cartesianX` (doubles), `cartesianY`, `cartesianZ`: accepted by the prototype rules, but not
    even one point (378368 bits) fits into a data packet -/
def wideProto : Prototype :=
  List.replicate 5910 ⟨.cartesianX, .double none none⟩ ++
    [⟨.cartesianY, .double none none⟩, ⟨.cartesianZ, .double none none⟩]

theorem wideProto_valid : validateExtensions wideProto [] = true ∧ validatePrototype wideProto = true := by
  decide +kernel

theorem wideProto_maxPoints : maxPacketPoints wideProto = 0 := by decide +kernel

theorem w0_inv : w0.Inv := ⟨[], 0, w0_rep⟩

/-- `new` now refuses it (formerly: `max_points_per_packet = 0` and an endless loop in `finalize`) -/
theorem wideProto_rejected (pw : PW) (guid : String) :
    PcW.new pw [] guid wideProto =
      .err "Prototype is too big, a single point does not fit into a data packet" := by
  unfold PcW.new
  simp [wideProto_valid.1, wideProto_valid.2, wideProto_maxPoints]

/-! ## C3: `finalize` -/

/-- the drain loop of `finalize` with enough fuel: an error or an empty buffer — never the
    "does not terminate" outcome -/
theorem drainLoop_spec : ∀ (fuel : Nat) (w : PcW) (pw : PW), w.Inv0 → pw.Inv → w.buffer.length < fuel →
    PcW.drainLoop fuel w pw = .err "Invalid data packet length detected" ∨
    ∃ pw' w', PcW.drainLoop fuel w pw = .ok (pw', w') ∧ pw'.Inv ∧ w'.Inv0 ∧ w'.buffer = [] ∧
      w'.prototype = w.prototype ∧ w'.maxPoints = w.maxPoints ∧ w'.pc = w.pc ∧
      w'.pointCount = w.pointCount ∧ w'.guid = w.guid ∧ w'.sectionOffset = w.sectionOffset
  | 0, _, _, _, _, h => by omega
  | fuel + 1, w, pw, hw, hpw, h => by
    unfold PcW.drainLoop
    by_cases he : w.buffer.isEmpty = true
    · rw [if_pos he]
      exact .inr ⟨pw, w, rfl, hpw, hw, by simpa using he, rfl, rfl, rfl, rfl, rfl, rfl⟩
    · rw [if_neg he]
      have hne : w.buffer.length ≠ 0 := by
        intro h0; exact he (by simpa using h0)
      rcases writeBufferToDisk_spec w pw false hw hpw with ⟨e, _⟩ | ⟨pw1, w1, e, i1, i2, e3, e4, e5, e6, e7, e8, e9⟩
      · left; rw [e]; rfl
      · rw [e]; simp only [Outcome.bind_ok]
        have hmp := hw.mp
        have hlt : w1.buffer.length < fuel := by
          rw [e3, List.length_drop]; omega
        rcases drainLoop_spec fuel w1 pw1 i2 i1 hlt with e' | ⟨pw2, w2, e', j1, j2, j3, j4, j5, j6, j7, j8, j9⟩
        · exact .inl e'
        · exact .inr ⟨pw2, w2, e', j1, j2, j3, j4.trans e4, j5.trans e5, j6.trans e6, j7.trans e7,
            j8.trans e8, j9.trans e9⟩

/-- **C3 (termination)**: with `0 < maxPoints` every iteration removes at least one buffered point,
    so `buffer.length + 1` iterations suffice -/
theorem drainLoop_terminates (w : PcW) (pw : PW) (hw : w.Inv0) (hpw : pw.Inv) :
    PcW.drainLoop (w.buffer.length + 1) w pw ≠ .panic "pc_writer: finalize does not terminate" := by
  rcases drainLoop_spec (w.buffer.length + 1) w pw hw hpw (by omega) with e | ⟨_, _, e, _⟩ <;>
    (rw [e]; simp)


/-- what `finalize` pushes for the XML -/
def finalPc (w : PcW) : PointCloud :=
  { w.pc with guid := some w.guid, records := w.pointCount, fileOffset := w.sectionOffset,
              prototype := w.prototype }

/-- `finalize` on well-formed states: an error, or success with the metadata of the writer -/
theorem finalize_spec (w : PcW) (pw : PW) (hw : w.Inv0) (hpw : pw.Inv) :
    (∃ e, w.finalize pw = .err e) ∨
    ∃ pw' w' , w.finalize pw = .ok (pw', w', finalPc w) ∧ pw'.Inv := by
  unfold PcW.finalize
  rcases drainLoop_spec (w.buffer.length + 1) w pw hw hpw (by omega) with e |
      ⟨pw1, w1, e, i1, i2, _, e4, e5, e6, e7, e8, e9⟩
  · left; rw [e]; exact ⟨_, rfl⟩
  rw [e]; simp only [Outcome.bind_ok]
  rcases writeBufferToDisk_spec w1 pw1 true i2 i1 with ⟨e', _⟩ | ⟨pw2, w2, e', j1, j2, _, f4, f5, f6, f7, f8, f9⟩
  · left; rw [e']; exact ⟨_, rfl⟩
  rw [e']; simp only [Outcome.bind_ok]
  have k1 := (pw_seek pw2 w2.sectionOffset j1).1
  cases hs : pw2.physicalSeek w2.sectionOffset with
  | mk pw3 ok =>
  rw [hs] at k1
  cases ok with
  | false => left; exact ⟨_, rfl⟩
  | true =>
  simp only [Bool.not_true, Bool.false_eq_true, if_false]
  obtain ⟨pw4, e4', k2, _⟩ := pw_writeAll pw3 w2.header.bytes k1
  rw [e4']; simp only [Outcome.bind_ok]
  have k3 := (pw_seek pw4 pw2.physicalPosition k2).1
  cases hs2 : pw4.physicalSeek pw2.physicalPosition with
  | mk pw5 ok2 =>
  rw [hs2] at k3
  cases ok2 with
  | false => left; exact ⟨_, rfl⟩
  | true =>
  right
  refine ⟨pw5, { w2 with pc := { cartesianBounds := none, sphericalBounds := none, indexBounds := none } },
    ?_, k3⟩
  simp only [Bool.not_true, Bool.false_eq_true, if_false, Outcome.pure_eq, finalPc]
  rw [f4, f6, f7, f8, f9, e4, e6, e7, e8, e9]

/-- **C3**: `finalize` never panics on well-formed states -/
theorem finalize_total (w : PcW) (pw : PW) (hw : w.Inv) (hpw : pw.Inv) :
    ¬ ∃ s, w.finalize pw = .panic s := by
  rintro ⟨s, hs⟩
  rcases finalize_spec w pw hw.toInv0 hpw with ⟨e, he⟩ | ⟨_, _, he, _⟩ <;> (rw [he] at hs; cases hs)

/-! ### capacity zero: the loop of `finalize` never ends -/

theorem writePoints_zero (buf : List (List Value)) (proto : Prototype) (ss : List WBuf) :
    writePoints 0 buf proto ss = .ok (buf, ss) := by
  cases buf <;> rfl

/-- with capacity zero `write_buffer_to_disk` takes no point out of the buffer -/
theorem writeBufferToDisk_cap0 (w : PcW) (pw : PW) (lf : Bool) (h0 : w.maxPoints = 0) (hpw : pw.Inv) :
    w.writeBufferToDisk pw lf = .err "Invalid data packet length detected" ∨
    ∃ pw', w.writeBufferToDisk pw lf = .ok (pw', wbdNext w lf w.buffer w.streams) ∧ pw'.Inv := by
  rw [writeBufferToDisk_eq, h0, Nat.zero_min, writePoints_zero]
  simp only [Outcome.bind_ok]
  rcases wbdTail_spec w pw lf w.buffer w.streams hpw with ⟨e, _⟩ | h
  · exact .inl e
  · exact .inr h

theorem drainLoop_cap0 : ∀ (fuel : Nat) (w : PcW) (pw : PW), w.maxPoints = 0 → w.buffer ≠ [] → pw.Inv →
    PcW.drainLoop fuel w pw = .panic "pc_writer: finalize does not terminate" ∨
    PcW.drainLoop fuel w pw = .err "Invalid data packet length detected"
  | 0, w, pw, _, hb, _ => by
    left; unfold PcW.drainLoop
    rw [if_neg (by simpa using hb)]
  | fuel + 1, w, pw, h0, hb, hpw => by
    unfold PcW.drainLoop
    rw [if_neg (by simpa using hb)]
    rcases writeBufferToDisk_cap0 w pw false h0 hpw with e | ⟨pw1, e, i1⟩
    · right; rw [e]; rfl
    · rw [e]; simp only [Outcome.bind_ok]
      obtain ⟨_, _, _, f4, _, _, f7⟩ := wbdNext_frame w false w.buffer w.streams
      exact drainLoop_cap0 fuel _ pw1 (by rw [f4, h0]) (by rw [f7]; exact hb) i1

/-- **C3 (divergence)**: a writer with capacity zero and a buffered point never finishes `finalize`
    (`.panic "… does not terminate"` is the model's stand-in for the endless `while` loop), unless the
    loop is left through the over-long-packet error -/
theorem finalize_diverges_when_capacity_zero (w : PcW) (pw : PW) (h0 : w.maxPoints = 0)
    (hb : w.buffer ≠ []) (hpw : pw.Inv) :
    w.finalize pw = .panic "pc_writer: finalize does not terminate" ∨
    w.finalize pw = .err "Invalid data packet length detected" := by
  unfold PcW.finalize
  rcases drainLoop_cap0 (w.buffer.length + 1) w pw h0 hb hpw with e | e
  · left; rw [e]; rfl
  · right; rw [e]; rfl

theorem sizes_zero (ss : List WBuf) (h : ∀ s ∈ ss, s.fullBytes = 0) : sumNat (sizesOf false ss) = 0 := by
  rw [sumNat_eq]
  induction ss with
  | nil => rfl
  | cons a as ih =>
    simp only [sizesOf, List.map_cons, List.sum_cons, Bool.false_eq_true, if_false] at ih ⊢
    rw [h a (by simp), ih (fun s hs => h s (by simp [hs]))]

theorem drainLoop_cap0_exact : ∀ (fuel : Nat) (w : PcW) (pw : PW), w.maxPoints = 0 → w.buffer ≠ [] →
    pw.Inv → (∀ s ∈ w.streams, s.fullBytes = 0) →
    PcW.drainLoop fuel w pw = .panic "pc_writer: finalize does not terminate"
  | 0, w, pw, _, hb, _, _ => by
    unfold PcW.drainLoop
    rw [if_neg (by simpa using hb)]
  | fuel + 1, w, pw, h0, hb, hpw, hs => by
    unfold PcW.drainLoop
    rw [if_neg (by simpa using hb)]
    have hz := sizes_zero w.streams hs
    rcases writeBufferToDisk_cap0 w pw false h0 hpw with e | ⟨pw1, e, i1⟩
    · exfalso
      rw [writeBufferToDisk_eq, h0, Nat.zero_min, writePoints_zero] at e
      simp only [Outcome.bind_ok, wbdTail, hz, Nat.lt_irrefl, if_false] at e
      obtain ⟨p4, e4, _⟩ := pw_align pw hpw
      rw [e4] at e; cases e
    · rw [e]; simp only [Outcome.bind_ok]
      have hn : wbdNext w false w.buffer w.streams = w := by
        simp only [wbdNext, hz, Nat.lt_irrefl, if_false]
      rw [hn]
      exact drainLoop_cap0_exact fuel w pw1 h0 hb i1 hs

/-- exact form: when no stream holds a complete byte (e.g. nothing was written yet) -/
theorem finalize_diverges_when_capacity_zero_exact (w : PcW) (pw : PW) (h0 : w.maxPoints = 0)
    (hb : w.buffer ≠ []) (hpw : pw.Inv) (hs : ∀ s ∈ w.streams, s.fullBytes = 0) :
    w.finalize pw = .panic "pc_writer: finalize does not terminate" := by
  unfold PcW.finalize
  rw [drainLoop_cap0_exact (w.buffer.length + 1) w pw h0 hb hpw hs]
  rfl


open Spec

/-! ## C4: blobs -/

theorem p2l_l2p (c : Nat) : p2l (l2p c) = c := by unfold p2l l2p; omega

/-- a previously reported physical position is accepted by `physical_seek` -/
theorem seekOk_l2p (s : LogStream) (c : Nat) (h1 : s.data.length % 1020 = 0) (hc : c ≤ s.data.length) :
    s.seekOk (l2p c) = true := by
  unfold LogStream.seekOk LogStream.physSize l2p
  simp only [Bool.and_eq_true, decide_eq_true_eq]
  omega

theorem spec_write_cur (s : LogStream) (b : Bytes) : (s.write b).cur = s.cur + b.length := rfl

theorem spec_write_length_ge (s : LogStream) (b : Bytes) (h2 : s.cur ≤ s.data.length) :
    s.data.length ≤ (s.write b).data.length := by
  rw [spec_write_length s b h2]; omega

/-- seeking back to a reported position of a well-formed writer succeeds -/
theorem pw_seek_back (w : PW) (c : Nat) (h : w.Inv) (hc : c ≤ w.abs.data.length) :
    ∃ w', w.physicalSeek (l2p c) = (w', true) ∧ w'.Inv ∧ w'.abs = { w.abs with cur := c } := by
  obtain ⟨i, e2, e3, _⟩ := pw_seek w (l2p c) h
  have hok := seekOk_l2p w.abs c (abs_wf w h).1 hc
  cases hs : w.physicalSeek (l2p c) with
  | mk w' ok =>
    rw [hs] at i e2 e3
    simp only at i e2 e3
    rw [hok] at e2
    subst e2
    refine ⟨w', rfl, i, ?_⟩
    rw [e3, LogStream.seek, hok, if_pos rfl, p2l_l2p]

theorem blobHeaderBytes_length (n : Nat) : (blobHeaderBytes n).length = 16 := by
  simp [blobHeaderBytes, zeros_length, toLE_length]

/-- **C4**: writing a blob on a well-formed page writer always succeeds -/
theorem blobWrite_total (pw : PW) (data : Bytes) (hpw : pw.Inv) :
    ∃ pw' b, blobWrite pw data = .ok (pw', b) ∧ pw'.Inv ∧ b.offset = pw.physicalPosition ∧
      b.length = data.length := by
  unfold blobWrite
  obtain ⟨p1, e1, i1, a1⟩ := pw_writeAll pw (blobHeaderBytes 0) hpw
  obtain ⟨p2, e2, i2, a2⟩ := pw_writeAll p1 data i1
  have wf0 := abs_wf pw hpw
  have wf1 := abs_wf p1 i1
  have wf2 := abs_wf p2 i2
  have c1 : p1.abs.cur = pw.abs.cur + 16 := by rw [a1, spec_write_cur, blobHeaderBytes_length]
  have c2 : p2.abs.cur = pw.abs.cur + 16 + data.length := by rw [a2, spec_write_cur, c1]
  obtain ⟨p3, e3, i3, a3⟩ := pw_seek_back p2 pw.abs.cur i2 (by omega)
  obtain ⟨p4, e4, i4, a4⟩ := pw_writeAll p3 (blobHeaderBytes ((16 + data.length + 3) / 4 * 4)) i3
  have l4 : p2.abs.data.length ≤ p4.abs.data.length := by
    rw [a4]
    have := spec_write_length_ge p3.abs (blobHeaderBytes ((16 + data.length + 3) / 4 * 4)) (by rw [a3]; simp only; omega)
    rw [a3] at this ⊢
    exact this
  obtain ⟨p5, e5, i5, a5⟩ := pw_seek_back p4 p2.abs.cur i4 (by omega)
  obtain ⟨p6, e6, i6, a6⟩ := pw_align p5 i5
  refine ⟨p6, ⟨pw.physicalPosition, data.length⟩, ?_, i6, rfl, rfl⟩
  have hp0 := pw_position pw hpw
  have hp2 := pw_position p2 i2
  simp only [LogStream.physPos] at hp0 hp2
  simp only [e1, e2, Outcome.bind_ok, hp0, hp2, e3, e4, e5, e6, Bool.not_true, Bool.false_eq_true,
    if_false, Outcome.pure_eq]


deriving instance ReflBEq, LawfulBEq for RecordName

/-- `updateBounds` by record name -/
theorem updateBounds_eq (pc : PointCloud) (r : Record) (v : Value) :
    updateBounds pc r v =
      match r.name with
      | .cartesianX =>
        (match v.toF64 r.dt, pc.cartesianBounds with
         | none, _ => .err "to_f64 failed"
         | _, none => .err "Cannot find cartesian bounds"
         | some f, some b => .ok { pc with cartesianBounds := some { b with xMin := updMinF f b.xMin, xMax := updMaxF f b.xMax } })
      | .cartesianY =>
        (match v.toF64 r.dt, pc.cartesianBounds with
         | none, _ => .err "to_f64 failed"
         | _, none => .err "Cannot find cartesian bounds"
         | some f, some b => .ok { pc with cartesianBounds := some { b with yMin := updMinF f b.yMin, yMax := updMaxF f b.yMax } })
      | .cartesianZ =>
        (match v.toF64 r.dt, pc.cartesianBounds with
         | none, _ => .err "to_f64 failed"
         | _, none => .err "Cannot find cartesian bounds"
         | some f, some b => .ok { pc with cartesianBounds := some { b with zMin := updMinF f b.zMin, zMax := updMaxF f b.zMax } })
      | .sphericalAzimuth =>
        (match v.toF64 r.dt, pc.sphericalBounds with
         | none, _ => .err "to_f64 failed"
         | _, none => .err "Cannot find spherical bounds"
         | some f, some b => .ok { pc with sphericalBounds := some { b with azimuthStart := updMinF f b.azimuthStart, azimuthEnd := updMaxF f b.azimuthEnd } })
      | .sphericalElevation =>
        (match v.toF64 r.dt, pc.sphericalBounds with
         | none, _ => .err "to_f64 failed"
         | _, none => .err "Cannot find spherical bounds"
         | some f, some b => .ok { pc with sphericalBounds := some { b with elevationMin := updMinF f b.elevationMin, elevationMax := updMaxF f b.elevationMax } })
      | .sphericalRange =>
        (match v.toF64 r.dt, pc.sphericalBounds with
         | none, _ => .err "to_f64 failed"
         | _, none => .err "Cannot find spherical bounds"
         | some f, some b => .ok { pc with sphericalBounds := some { b with rangeMin := updMinF f b.rangeMin, rangeMax := updMaxF f b.rangeMax } })
      | .rowIndex =>
        (match v.toI64 r.dt, pc.indexBounds with
         | none, _ => .err "to_i64 failed"
         | _, none => .err "Cannot find index bounds"
         | some i, some b => .ok { pc with indexBounds := some { b with rowMin := updMinI i b.rowMin, rowMax := updMaxI i b.rowMax } })
      | .columnIndex =>
        (match v.toI64 r.dt, pc.indexBounds with
         | none, _ => .err "to_i64 failed"
         | _, none => .err "Cannot find index bounds"
         | some i, some b => .ok { pc with indexBounds := some { b with columnMin := updMinI i b.columnMin, columnMax := updMaxI i b.columnMax } })
      | .returnIndex =>
        (match v.toI64 r.dt, pc.indexBounds with
         | none, _ => .err "to_i64 failed"
         | _, none => .err "Cannot find index bounds"
         | some i, some b => .ok { pc with indexBounds := some { b with returnMin := updMinI i b.returnMin, returnMax := updMaxI i b.returnMax } })
      | _ => .ok pc := by
  unfold updateBounds
  generalize r.name = n
  cases n <;> rfl

/-! ## A3: the bounds kept by the writer are these folds -/

/-- one step of a tracked bound with update function `upd`: records named `n` contribute their value -/
def stepUpd {α : Type} (upd : α → Option α → Option α) (toV : Value → DataType → Option α) (n : RecordName)
    (r : Record) (v : Value) (c : Option α) : Option α :=
  if r.name = n then (match toV v r.dt with | some f => upd f c | none => c) else c

/-- one step of a tracked minimum (generic `update_min`; used for the index bounds) -/
def stepMin {α : Type} (lt : α → α → Bool) (toV : Value → DataType → Option α) (n : RecordName)
    (r : Record) (v : Value) (c : Option α) : Option α :=
  if r.name = n then (match toV v r.dt with | some f => updMinG lt f c | none => c) else c

def stepMax {α : Type} (lt : α → α → Bool) (toV : Value → DataType → Option α) (n : RecordName)
    (r : Record) (v : Value) (c : Option α) : Option α :=
  if r.name = n then (match toV v r.dt with | some f => updMaxG lt f c | none => c) else c

theorem stepMin_eq_stepUpd {α : Type} (lt : α → α → Bool) (toV : Value → DataType → Option α) (n : RecordName) :
    stepMin lt toV n = stepUpd (updMinG lt) toV n := rfl
theorem stepMax_eq_stepUpd {α : Type} (lt : α → α → Bool) (toV : Value → DataType → Option α) (n : RecordName) :
    stepMax lt toV n = stepUpd (updMaxG lt) toV n := rfl

/-- one step of a tracked `f64` minimum / maximum: the repaired `update_min` / `update_max`, which skip NaN -/
abbrev stepMinF := stepUpd updMinF Value.toF64
abbrev stepMaxF := stepUpd updMaxF Value.toF64

def PointCloud.xMin (pc : PointCloud) := pc.cartesianBounds.bind (·.xMin)
def PointCloud.xMax (pc : PointCloud) := pc.cartesianBounds.bind (·.xMax)
def PointCloud.yMin (pc : PointCloud) := pc.cartesianBounds.bind (·.yMin)
def PointCloud.yMax (pc : PointCloud) := pc.cartesianBounds.bind (·.yMax)
def PointCloud.zMin (pc : PointCloud) := pc.cartesianBounds.bind (·.zMin)
def PointCloud.zMax (pc : PointCloud) := pc.cartesianBounds.bind (·.zMax)
def PointCloud.rangeMin (pc : PointCloud) := pc.sphericalBounds.bind (·.rangeMin)
def PointCloud.rangeMax (pc : PointCloud) := pc.sphericalBounds.bind (·.rangeMax)
def PointCloud.elevationMin (pc : PointCloud) := pc.sphericalBounds.bind (·.elevationMin)
def PointCloud.elevationMax (pc : PointCloud) := pc.sphericalBounds.bind (·.elevationMax)
def PointCloud.azimuthStart (pc : PointCloud) := pc.sphericalBounds.bind (·.azimuthStart)
def PointCloud.azimuthEnd (pc : PointCloud) := pc.sphericalBounds.bind (·.azimuthEnd)
def PointCloud.rowMin (pc : PointCloud) := pc.indexBounds.bind (·.rowMin)
def PointCloud.rowMax (pc : PointCloud) := pc.indexBounds.bind (·.rowMax)
def PointCloud.columnMin (pc : PointCloud) := pc.indexBounds.bind (·.columnMin)
def PointCloud.columnMax (pc : PointCloud) := pc.indexBounds.bind (·.columnMax)
def PointCloud.returnMin (pc : PointCloud) := pc.indexBounds.bind (·.returnMin)
def PointCloud.returnMax (pc : PointCloud) := pc.indexBounds.bind (·.returnMax)

/-- the effect of one successful `updateBounds` on every tracked bound -/
structure FieldsStep (pc pc' : PointCloud) (r : Record) (v : Value) : Prop where
  xMin : pc'.xMin = stepMinF .cartesianX r v pc.xMin
  xMax : pc'.xMax = stepMaxF .cartesianX r v pc.xMax
  yMin : pc'.yMin = stepMinF .cartesianY r v pc.yMin
  yMax : pc'.yMax = stepMaxF .cartesianY r v pc.yMax
  zMin : pc'.zMin = stepMinF .cartesianZ r v pc.zMin
  zMax : pc'.zMax = stepMaxF .cartesianZ r v pc.zMax
  rangeMin : pc'.rangeMin = stepMinF .sphericalRange r v pc.rangeMin
  rangeMax : pc'.rangeMax = stepMaxF .sphericalRange r v pc.rangeMax
  elevationMin : pc'.elevationMin = stepMinF .sphericalElevation r v pc.elevationMin
  elevationMax : pc'.elevationMax = stepMaxF .sphericalElevation r v pc.elevationMax
  azimuthStart : pc'.azimuthStart = stepMinF .sphericalAzimuth r v pc.azimuthStart
  azimuthEnd : pc'.azimuthEnd = stepMaxF .sphericalAzimuth r v pc.azimuthEnd
  rowMin : pc'.rowMin = stepMin ltI Value.toI64 .rowIndex r v pc.rowMin
  rowMax : pc'.rowMax = stepMax ltI Value.toI64 .rowIndex r v pc.rowMax
  columnMin : pc'.columnMin = stepMin ltI Value.toI64 .columnIndex r v pc.columnMin
  columnMax : pc'.columnMax = stepMax ltI Value.toI64 .columnIndex r v pc.columnMax
  returnMin : pc'.returnMin = stepMin ltI Value.toI64 .returnIndex r v pc.returnMin
  returnMax : pc'.returnMax = stepMax ltI Value.toI64 .returnIndex r v pc.returnMax
  cart : pc'.cartesianBounds.isSome = pc.cartesianBounds.isSome
  sph : pc'.sphericalBounds.isSome = pc.sphericalBounds.isSome
  idx : pc'.indexBounds.isSome = pc.indexBounds.isSome
  color : pc'.colorLimits = pc.colorLimits
  intensity : pc'.intensityLimits = pc.intensityLimits

theorem updateBounds_fields (pc pc' : PointCloud) (r : Record) (v : Value)
    (h : updateBounds pc r v = .ok pc') : FieldsStep pc pc' r v := by
  rw [updateBounds_eq] at h
  cases hn : r.name <;> simp only [hn] at h
  all_goals first
    | (cases h
       constructor <;> simp [stepMin, stepMax, stepUpd, hn])
    | (split at h
       · cases h
       · cases h
       · next f b hf hb =>
         cases h
         constructor <;>
           simp [stepMin, stepMax, stepUpd, hn, hf, hb, PointCloud.xMin, PointCloud.xMax, PointCloud.yMin, PointCloud.yMax, PointCloud.zMin, PointCloud.zMax, PointCloud.rangeMin, PointCloud.rangeMax, PointCloud.elevationMin, PointCloud.elevationMax, PointCloud.azimuthStart, PointCloud.azimuthEnd, PointCloud.rowMin, PointCloud.rowMax, PointCloud.columnMin, PointCloud.columnMax, PointCloud.returnMin, PointCloud.returnMax, updMinI, updMaxI] <;> rfl)


/-- `get` is maintained by `updateBounds` through `step` -/
def Tracks {β : Type} (get : PointCloud → β) (step : Record → Value → β → β) : Prop :=
  ∀ pc pc' r v, updateBounds pc r v = .ok pc' → get pc' = step r v (get pc)

theorem updateAllBounds_tracks {β : Type} {get : PointCloud → β}
    {step : Record → Value → β → β} (ht : Tracks get step) :
    ∀ (rs : List Record) (vs : List Value) (pc pc' : PointCloud), updateAllBounds rs vs pc = .ok pc' →
      get pc' = (rs.zip vs).foldl (fun c rv => step rv.1 rv.2 c) (get pc)
  | [], vs, pc, pc', h => by
    simp only [updateAllBounds] at h; cases h; simp
  | r :: rs, [], pc, pc', h => by
    simp only [updateAllBounds] at h; cases h; simp
  | r :: rs, v :: vs, pc, pc', h => by
    simp only [updateAllBounds] at h
    obtain ⟨pc1, e1, h⟩ := Outcome.bind_eq_ok h
    rw [List.zip_cons_cons, List.foldl_cons, ← ht _ _ _ _ e1]
    exact updateAllBounds_tracks ht rs vs pc1 pc' h

/-- the bound updates of a sequence of accepted points -/
def foldBounds (p : Prototype) : List (List Value) → PointCloud → Outcome PointCloud
  | [], pc => .ok pc
  | pt :: pts, pc => updateAllBounds p pt pc >>= foldBounds p pts

theorem foldBounds_tracks {β : Type} {get : PointCloud → β}
    {step : Record → Value → β → β} (ht : Tracks get step) (p : Prototype) :
    ∀ (pts : List (List Value)) (pc pc' : PointCloud), foldBounds p pts pc = .ok pc' →
      get pc' = pts.foldl (fun c pt => (p.zip pt).foldl (fun c rv => step rv.1 rv.2 c) c) (get pc)
  | [], pc, pc', h => by simp only [foldBounds] at h; cases h; rfl
  | pt :: pts, pc, pc', h => by
    simp only [foldBounds] at h
    obtain ⟨pc1, e1, h⟩ := Outcome.bind_eq_ok h
    rw [List.foldl_cons, ← updateAllBounds_tracks ht p pt pc pc1 e1]
    exact foldBounds_tracks ht p pts pc1 pc' h

/-- the values one point contributes to the bound of the records named `n`
    (in prototype order; all records of that name) -/
def colVals {α : Type} (toV : Value → DataType → Option α) (n : RecordName) (p : Prototype)
    (pt : List Value) : List α :=
  (p.zip pt).filterMap (fun rv => if rv.1.name = n then toV rv.2 rv.1.dt else none)

/-- all values of the records named `n`, in the order they were added -/
def allVals {α : Type} (toV : Value → DataType → Option α) (n : RecordName) (p : Prototype)
    (pts : List (List Value)) : List α :=
  pts.flatMap (colVals toV n p)

theorem foldl_stepMin {α : Type} (lt : α → α → Bool) (toV : Value → DataType → Option α) (n : RecordName)
    (l : List (Record × Value)) : ∀ (c : Option α),
    l.foldl (fun c rv => stepMin lt toV n rv.1 rv.2 c) c =
      (l.filterMap (fun rv => if rv.1.name = n then toV rv.2 rv.1.dt else none)).foldl
        (fun c v => updMinG lt v c) c := by
  induction l with
  | nil => intro c; rfl
  | cons a as ih =>
    intro c
    rw [List.foldl_cons, ih, List.filterMap_cons]
    unfold stepMin
    by_cases hn : a.1.name = n
    · simp only [hn, if_true]
      cases toV a.2 a.1.dt <;> rfl
    · simp only [hn, if_false]

theorem foldl_stepUpd {α : Type} (upd : α → Option α → Option α) (toV : Value → DataType → Option α)
    (n : RecordName) (l : List (Record × Value)) : ∀ (c : Option α),
    l.foldl (fun c rv => stepUpd upd toV n rv.1 rv.2 c) c =
      (l.filterMap (fun rv => if rv.1.name = n then toV rv.2 rv.1.dt else none)).foldl
        (fun c v => upd v c) c := by
  induction l with
  | nil => intro c; rfl
  | cons a as ih =>
    intro c
    rw [List.foldl_cons, ih, List.filterMap_cons]
    unfold stepUpd
    by_cases hn : a.1.name = n
    · simp only [hn, if_true]
      cases toV a.2 a.1.dt <;> rfl
    · simp only [hn, if_false]

theorem stepMax_eq_flip {α : Type} (lt : α → α → Bool) (toV : Value → DataType → Option α) (n : RecordName) :
    stepMax lt toV n = stepMin (fun a b => lt b a) toV n := by
  funext r v c
  unfold stepMax stepMin
  split
  · split
    · exact updMaxG_eq_flip lt _ c
    · rfl
  · rfl

theorem foldl_flatMap' {α β : Type} (f : β → α → β) (g : List Value → List α) :
    ∀ (pts : List (List Value)) (c : β),
    (pts.flatMap g).foldl f c = pts.foldl (fun c pt => (g pt).foldl f c) c
  | [], c => rfl
  | pt :: pts, c => by
    rw [List.flatMap_cons, List.foldl_append, List.foldl_cons, foldl_flatMap' f g pts]

/-- a tracked minimum after a sequence of points is the fold of `update_min` over all values -/
theorem foldBounds_min {α : Type} {get : PointCloud → Option α} {lt : α → α → Bool}
    {toV : Value → DataType → Option α} {n : RecordName} (ht : Tracks get (stepMin lt toV n))
    (p : Prototype) (pts : List (List Value)) (pc pc' : PointCloud)
    (h : foldBounds p pts pc = .ok pc') :
    get pc' = (allVals toV n p pts).foldl (fun c v => updMinG lt v c) (get pc) := by
  rw [foldBounds_tracks ht p pts pc pc' h, allVals, foldl_flatMap']
  congr 1
  funext c pt
  exact foldl_stepMin lt toV n (p.zip pt) c

/-- a bound tracked through any update function is the fold of that function over all values -/
theorem foldBounds_upd {α : Type} {get : PointCloud → Option α} {upd : α → Option α → Option α}
    {toV : Value → DataType → Option α} {n : RecordName} (ht : Tracks get (stepUpd upd toV n))
    (p : Prototype) (pts : List (List Value)) (pc pc' : PointCloud)
    (h : foldBounds p pts pc = .ok pc') :
    get pc' = (allVals toV n p pts).foldl (fun c v => upd v c) (get pc) := by
  rw [foldBounds_tracks ht p pts pc pc' h, allVals, foldl_flatMap']
  congr 1
  funext c pt
  exact foldl_stepUpd upd toV n (p.zip pt) c

theorem foldBounds_max {α : Type} {get : PointCloud → Option α} {lt : α → α → Bool}
    {toV : Value → DataType → Option α} {n : RecordName} (ht : Tracks get (stepMax lt toV n))
    (p : Prototype) (pts : List (List Value)) (pc pc' : PointCloud)
    (h : foldBounds p pts pc = .ok pc') :
    get pc' = (allVals toV n p pts).foldl (fun c v => updMaxG lt v c) (get pc) := by
  rw [stepMax_eq_flip] at ht
  rw [foldBounds_min ht p pts pc pc' h]
  have : (fun c v => updMinG (fun a b => lt b a) v c) = (fun c v => updMaxG lt v c) := by
    funext c v; exact (updMaxG_eq_flip lt v c).symm
  rw [this]


/-! ### quantities `updateBounds` never changes (presence of the bounds structures, limits) -/

theorem foldl_const {β γ : Type} (l : List γ) (c : β) : l.foldl (fun c _ => c) c = c := by
  induction l with
  | nil => rfl
  | cons _ _ ih => exact ih

theorem updateAllBounds_keeps {β : Type} {get : PointCloud → β} (ht : Tracks get (fun _ _ c => c))
    (rs : List Record) (vs : List Value) (pc pc' : PointCloud) (h : updateAllBounds rs vs pc = .ok pc') :
    get pc' = get pc := by
  rw [updateAllBounds_tracks ht rs vs pc pc' h]; exact foldl_const _ _

theorem foldBounds_keeps {β : Type} {get : PointCloud → β} (ht : Tracks get (fun _ _ c => c))
    (p : Prototype) : ∀ (pts : List (List Value)) (pc pc' : PointCloud), foldBounds p pts pc = .ok pc' →
    get pc' = get pc
  | [], pc, pc', h => by simp only [foldBounds] at h; cases h; rfl
  | pt :: pts, pc, pc', h => by
    simp only [foldBounds] at h
    obtain ⟨pc1, e1, h⟩ := Outcome.bind_eq_ok h
    rw [foldBounds_keeps ht p pts pc1 pc' h, updateAllBounds_keeps ht p pt pc pc1 e1]

theorem keeps_cart : Tracks (fun pc => pc.cartesianBounds.isSome) (fun _ _ c => c) :=
  fun pc pc' r v h => (updateBounds_fields pc pc' r v h).cart
theorem keeps_sph : Tracks (fun pc => pc.sphericalBounds.isSome) (fun _ _ c => c) :=
  fun pc pc' r v h => (updateBounds_fields pc pc' r v h).sph
theorem keeps_idx : Tracks (fun pc => pc.indexBounds.isSome) (fun _ _ c => c) :=
  fun pc pc' r v h => (updateBounds_fields pc pc' r v h).idx
theorem keeps_color : Tracks (fun pc => pc.colorLimits) (fun _ _ c => c) :=
  fun pc pc' r v h => (updateBounds_fields pc pc' r v h).color
theorem keeps_intensity : Tracks (fun pc => pc.intensityLimits) (fun _ _ c => c) :=
  fun pc pc' r v h => (updateBounds_fields pc pc' r v h).intensity

/-! ### `updateBounds` does not fail when the bounds structures match the prototype -/

theorem toF64_of_matches (dt : DataType) (v : Value) (h : dt.matches v = true) :
    ∃ f, v.toF64 dt = some f := by
  cases dt <;> cases v <;> simp [DataType.matches] at h <;> exact ⟨_, rfl⟩

theorem toI64_of_matches (dt : DataType) (v : Value) (h : dt.matches v = true)
    (hi : isIntegerType dt = true) : ∃ i, v.toI64 dt = some i := by
  cases dt <;> cases v <;> simp [DataType.matches, isIntegerType] at h hi <;> exact ⟨_, rfl⟩

/-- the bounds structure a record needs is present (and index records have an integer type) -/
structure RecReady (pc : PointCloud) (r : Record) : Prop where
  cart : (r.name = .cartesianX ∨ r.name = .cartesianY ∨ r.name = .cartesianZ) →
    pc.cartesianBounds.isSome = true
  sph : (r.name = .sphericalAzimuth ∨ r.name = .sphericalElevation ∨ r.name = .sphericalRange) →
    pc.sphericalBounds.isSome = true
  idx : (r.name = .rowIndex ∨ r.name = .columnIndex ∨ r.name = .returnIndex) →
    pc.indexBounds.isSome = true ∧ isIntegerType r.dt = true

theorem updateBounds_ok_of (pc : PointCloud) (r : Record) (v : Value) (hm : r.dt.matches v = true)
    (hr : RecReady pc r) : ∃ pc', updateBounds pc r v = .ok pc' := by
  obtain ⟨f, hf⟩ := toF64_of_matches r.dt v hm
  rw [updateBounds_eq]
  cases hn : r.name <;> simp only []
  all_goals first
    | exact ⟨_, rfl⟩
    | (obtain ⟨b, hb⟩ := Option.isSome_iff_exists.1 (hr.cart (by simp [hn]))
       simp only [hf, hb]; exact ⟨_, rfl⟩)
    | (obtain ⟨b, hb⟩ := Option.isSome_iff_exists.1 (hr.sph (by simp [hn]))
       simp only [hf, hb]; exact ⟨_, rfl⟩)
    | (obtain ⟨h1, h2⟩ := hr.idx (by simp [hn])
       obtain ⟨b, hb⟩ := Option.isSome_iff_exists.1 h1
       obtain ⟨i, hi⟩ := toI64_of_matches r.dt v hm h2
       simp only [hi, hb]; exact ⟨_, rfl⟩)

theorem RecReady.step {pc pc' : PointCloud} {r0 : Record} {v0 : Value}
    (h : updateBounds pc r0 v0 = .ok pc') {r : Record} (hr : RecReady pc r) : RecReady pc' r := by
  have hf := updateBounds_fields pc pc' r0 v0 h
  exact ⟨fun hn => by rw [hf.cart]; exact hr.cart hn, fun hn => by rw [hf.sph]; exact hr.sph hn,
    fun hn => by rw [hf.idx]; exact hr.idx hn⟩

theorem accepts_matches (dt : DataType) (v : Value) (h : dt.accepts v = true) : dt.matches v = true := by
  simp only [DataType.accepts, Bool.and_eq_true] at h; exact h.1

theorem updateAllBounds_ok_of : ∀ (rs : List Record) (vs : List Value) (pc : PointCloud),
    checkValues rs vs = true → (∀ r ∈ rs, RecReady pc r) → ∃ pc', updateAllBounds rs vs pc = .ok pc'
  | [], _, pc, _, _ => ⟨pc, by simp [updateAllBounds]⟩
  | _ :: _, [], pc, _, _ => ⟨pc, by simp [updateAllBounds]⟩
  | r :: rs, v :: vs, pc, hc, hr => by
    simp only [checkValues, Bool.and_eq_true] at hc
    obtain ⟨pc1, e1⟩ := updateBounds_ok_of pc r v (accepts_matches _ _ hc.1) (hr r (by simp))
    obtain ⟨pc2, e2⟩ := updateAllBounds_ok_of rs vs pc1 hc.2
      (fun x hx => (hr x (by simp [hx])).step e1)
    exact ⟨pc2, by simp [updateAllBounds, e1, e2]⟩

/-- every record of the prototype finds its bounds structure -/
def ProtoReady (pc : PointCloud) (p : Prototype) : Prop := ∀ r ∈ p, RecReady pc r

theorem ProtoReady.of_isSome {pc pc' : PointCloud} {p : Prototype} (h : ProtoReady pc p)
    (h1 : pc'.cartesianBounds.isSome = pc.cartesianBounds.isSome)
    (h2 : pc'.sphericalBounds.isSome = pc.sphericalBounds.isSome)
    (h3 : pc'.indexBounds.isSome = pc.indexBounds.isSome) : ProtoReady pc' p :=
  fun r hr => ⟨fun hn => by rw [h1]; exact (h r hr).cart hn, fun hn => by rw [h2]; exact (h r hr).sph hn,
    fun hn => by rw [h3]; exact (h r hr).idx hn⟩

theorem ProtoReady.updateAll {pc pc' : PointCloud} {p : Prototype} (h : ProtoReady pc p)
    (rs : List Record) (vs : List Value) (e : updateAllBounds rs vs pc = .ok pc') : ProtoReady pc' p :=
  h.of_isSome (updateAllBounds_keeps keeps_cart rs vs pc pc' e)
    (updateAllBounds_keeps keeps_sph rs vs pc pc' e) (updateAllBounds_keeps keeps_idx rs vs pc pc' e)

theorem foldBounds_ok_of (p : Prototype) : ∀ (pts : List (List Value)) (pc : PointCloud),
    (∀ pt ∈ pts, checkValues p pt = true) → ProtoReady pc p → ∃ pc', foldBounds p pts pc = .ok pc'
  | [], pc, _, _ => ⟨pc, rfl⟩
  | pt :: pts, pc, hc, hr => by
    obtain ⟨pc1, e1⟩ := updateAllBounds_ok_of p pt pc (hc pt (by simp)) hr
    obtain ⟨pc2, e2⟩ := foldBounds_ok_of p pts pc1 (fun x hx => hc x (by simp [hx])) (hr.updateAll p pt e1)
    exact ⟨pc2, by simp [foldBounds, e1, e2]⟩


/-! ### the state created by `new` is ready -/

theorem has_iff (p : Prototype) (n : RecordName) : p.has n = true ↔ ∃ r ∈ p, r.name = n := by
  simp [Prototype.has]

theorem has_of_mem {p : Prototype} {r : Record} (h : r ∈ p) : p.has r.name = true :=
  (has_iff p r.name).2 ⟨r, h, rfl⟩

theorem validateCartesian_has (p : Prototype) (h : validateCartesian p = true) :
    (p.has .cartesianY = true → p.has .cartesianX = true) ∧
    (p.has .cartesianZ = true → p.has .cartesianX = true) := by
  unfold validateCartesian at h
  simp only [Bool.and_eq_true] at h
  have h1 := h.1
  cases hX : p.has .cartesianX <;> cases hY : p.has .cartesianY <;> cases hZ : p.has .cartesianZ <;>
    simp [hX, hY, hZ, boolToNat] at h1 ⊢

theorem validateSpherical_has (p : Prototype) (h : validateSpherical p = true) :
    (p.has .sphericalElevation = true → p.has .sphericalAzimuth = true) ∧
    (p.has .sphericalRange = true → p.has .sphericalAzimuth = true) := by
  unfold validateSpherical at h
  simp only [Bool.and_eq_true] at h
  have h1 := h.1.1.1
  cases hX : p.has .sphericalAzimuth <;> cases hY : p.has .sphericalElevation <;>
    cases hZ : p.has .sphericalRange <;> simp [hX, hY, hZ, boolToNat] at h1 ⊢

/-- index records have an integer type (what `to_i64` needs) -/
def IdxInt (p : Prototype) : Prop :=
  ∀ r ∈ p, (r.name = .rowIndex ∨ r.name = .columnIndex ∨ r.name = .returnIndex) →
    isIntegerType r.dt = true

/-- no two records have the same name -/
def NoDupNames (p : Prototype) : Prop := (p.map (fun r => r.name)).Nodup

theorem get_of_mem_nodup : ∀ (p : Prototype) (r : Record), NoDupNames p → r ∈ p → p.get r.name = some r
  | [], _, _, h => by simp at h
  | a :: as, r, hn, h => by
    unfold NoDupNames at hn
    simp only [List.map_cons, List.nodup_cons] at hn
    unfold Prototype.get
    rw [List.find?_cons]
    rcases List.mem_cons.1 h with rfl | h
    · simp
    · have hne : (a.name == r.name) = false := by
        cases hb : (a.name == r.name) with
        | false => rfl
        | true =>
          exfalso
          apply hn.1
          rw [eq_of_beq hb]
          exact List.mem_map.2 ⟨r, h, rfl⟩
      rw [hne]
      exact get_of_mem_nodup as r hn.2 h

/-- `validate_prototype` requires the integer type of every row/column/return index record
    (since the fix "a rejected point could change the bounds": of every record with such a name,
    not only the first) -/
theorem idxInt_of_valid (p : Prototype) (hv : validatePrototype p = true) : IdxInt p := by
  intro r hr hname
  unfold validatePrototype at hv
  simp only [Bool.and_eq_true] at hv
  obtain ⟨⟨⟨⟨⟨⟨_, hret⟩, hrow⟩, hcol⟩, _⟩, _⟩, _⟩ := hv
  rcases hname with h | h | h
  · have := List.all_eq_true.mp hrow r hr
    simpa [h] using this
  · have := List.all_eq_true.mp hcol r hr
    simpa [h] using this
  · unfold validateReturn at hret
    simp only [Bool.and_eq_true] at hret
    have := List.all_eq_true.mp hret.1.2 r hr
    simpa [h] using this

theorem idxInt_of_nodup (p : Prototype) (hv : validatePrototype p = true) (_hn : NoDupNames p) :
    IdxInt p := idxInt_of_valid p hv

theorem freshPc_ready (p : Prototype) (cl : Option ColorLimits) (hv : validatePrototype p = true)
    (hi : IdxInt p) : ProtoReady (freshPc p cl) p := by
  have hv' := hv
  unfold validatePrototype at hv'
  simp only [Bool.and_eq_true] at hv'
  obtain ⟨⟨⟨⟨⟨⟨⟨⟨⟨hc, hs⟩, _⟩, _⟩, _⟩, _⟩, _⟩, _⟩, _⟩, _⟩ := hv'
  have hc' := validateCartesian_has p hc
  have hs' := validateSpherical_has p hs
  intro r hr
  have hh := has_of_mem hr
  refine ⟨fun hn => ?_, fun hn => ?_, fun hn => ⟨?_, hi r hr hn⟩⟩
  · have : p.has .cartesianX = true := by
      rcases hn with h | h | h <;> rw [h] at hh
      · exact hh
      · exact hc'.1 hh
      · exact hc'.2 hh
    simp [freshPc, this]
  · have : p.has .sphericalAzimuth = true := by
      rcases hn with h | h | h <;> rw [h] at hh
      · exact hh
      · exact hs'.1 hh
      · exact hs'.2 hh
    simp [freshPc, this]
  · rcases hn with h | h | h <;> rw [h] at hh <;> simp [freshPc, hh]


/-! ### A3: the bounds after a sequence of points -/

/-- the `f64` values (bit patterns of `to_f64`) of all records named `n`, in the order added -/
abbrev fvals (n : RecordName) (p : Prototype) (pts : List (List Value)) : List UInt64 :=
  allVals Value.toF64 n p pts

/-- the `i64` values of all records named `n`, in the order added -/
abbrev ivals (n : RecordName) (p : Prototype) (pts : List (List Value)) : List Int :=
  allVals Value.toI64 n p pts

/-- every bound is the `update_min` / `update_max` fold over the values added — for the twelve float
    bounds over the values that are not NaN (`nonNaN`: a NaN is never taken as a bound, wherever it
    stands; equivalently `foldMinF`/`foldMaxF` over all values, `BoundsExact.xMinF`); the bounds
    structures are present exactly for the coordinate groups of the prototype -/
structure BoundsExact (p : Prototype) (pts : List (List Value)) (pc : PointCloud) : Prop where
  xMin : pc.xMin = foldMin fltLt (nonNaN (fvals .cartesianX p pts))
  xMax : pc.xMax = foldMax fltLt (nonNaN (fvals .cartesianX p pts))
  yMin : pc.yMin = foldMin fltLt (nonNaN (fvals .cartesianY p pts))
  yMax : pc.yMax = foldMax fltLt (nonNaN (fvals .cartesianY p pts))
  zMin : pc.zMin = foldMin fltLt (nonNaN (fvals .cartesianZ p pts))
  zMax : pc.zMax = foldMax fltLt (nonNaN (fvals .cartesianZ p pts))
  rangeMin : pc.rangeMin = foldMin fltLt (nonNaN (fvals .sphericalRange p pts))
  rangeMax : pc.rangeMax = foldMax fltLt (nonNaN (fvals .sphericalRange p pts))
  elevationMin : pc.elevationMin = foldMin fltLt (nonNaN (fvals .sphericalElevation p pts))
  elevationMax : pc.elevationMax = foldMax fltLt (nonNaN (fvals .sphericalElevation p pts))
  azimuthStart : pc.azimuthStart = foldMin fltLt (nonNaN (fvals .sphericalAzimuth p pts))
  azimuthEnd : pc.azimuthEnd = foldMax fltLt (nonNaN (fvals .sphericalAzimuth p pts))
  rowMin : pc.rowMin = foldMin ltI (ivals .rowIndex p pts)
  rowMax : pc.rowMax = foldMax ltI (ivals .rowIndex p pts)
  columnMin : pc.columnMin = foldMin ltI (ivals .columnIndex p pts)
  columnMax : pc.columnMax = foldMax ltI (ivals .columnIndex p pts)
  returnMin : pc.returnMin = foldMin ltI (ivals .returnIndex p pts)
  returnMax : pc.returnMax = foldMax ltI (ivals .returnIndex p pts)
  cart : pc.cartesianBounds.isSome = p.has .cartesianX
  sph : pc.sphericalBounds.isSome = p.has .sphericalAzimuth
  idx : pc.indexBounds.isSome = (p.has .returnIndex || p.has .columnIndex || p.has .rowIndex)

theorem freshPc_xMin (p : Prototype) (cl : Option ColorLimits) : (freshPc p cl).xMin = none := by
  unfold PointCloud.xMin freshPc; simp only; split <;> rfl
theorem freshPc_xMax (p : Prototype) (cl : Option ColorLimits) : (freshPc p cl).xMax = none := by
  unfold PointCloud.xMax freshPc; simp only; split <;> rfl
theorem freshPc_yMin (p : Prototype) (cl : Option ColorLimits) : (freshPc p cl).yMin = none := by
  unfold PointCloud.yMin freshPc; simp only; split <;> rfl
theorem freshPc_yMax (p : Prototype) (cl : Option ColorLimits) : (freshPc p cl).yMax = none := by
  unfold PointCloud.yMax freshPc; simp only; split <;> rfl
theorem freshPc_zMin (p : Prototype) (cl : Option ColorLimits) : (freshPc p cl).zMin = none := by
  unfold PointCloud.zMin freshPc; simp only; split <;> rfl
theorem freshPc_zMax (p : Prototype) (cl : Option ColorLimits) : (freshPc p cl).zMax = none := by
  unfold PointCloud.zMax freshPc; simp only; split <;> rfl
theorem freshPc_rangeMin (p : Prototype) (cl : Option ColorLimits) : (freshPc p cl).rangeMin = none := by
  unfold PointCloud.rangeMin freshPc; simp only; split <;> rfl
theorem freshPc_rangeMax (p : Prototype) (cl : Option ColorLimits) : (freshPc p cl).rangeMax = none := by
  unfold PointCloud.rangeMax freshPc; simp only; split <;> rfl
theorem freshPc_elevationMin (p : Prototype) (cl : Option ColorLimits) : (freshPc p cl).elevationMin = none := by
  unfold PointCloud.elevationMin freshPc; simp only; split <;> rfl
theorem freshPc_elevationMax (p : Prototype) (cl : Option ColorLimits) : (freshPc p cl).elevationMax = none := by
  unfold PointCloud.elevationMax freshPc; simp only; split <;> rfl
theorem freshPc_azimuthStart (p : Prototype) (cl : Option ColorLimits) : (freshPc p cl).azimuthStart = none := by
  unfold PointCloud.azimuthStart freshPc; simp only; split <;> rfl
theorem freshPc_azimuthEnd (p : Prototype) (cl : Option ColorLimits) : (freshPc p cl).azimuthEnd = none := by
  unfold PointCloud.azimuthEnd freshPc; simp only; split <;> rfl
theorem freshPc_rowMin (p : Prototype) (cl : Option ColorLimits) : (freshPc p cl).rowMin = none := by
  unfold PointCloud.rowMin freshPc; simp only; split <;> rfl
theorem freshPc_rowMax (p : Prototype) (cl : Option ColorLimits) : (freshPc p cl).rowMax = none := by
  unfold PointCloud.rowMax freshPc; simp only; split <;> rfl
theorem freshPc_columnMin (p : Prototype) (cl : Option ColorLimits) : (freshPc p cl).columnMin = none := by
  unfold PointCloud.columnMin freshPc; simp only; split <;> rfl
theorem freshPc_columnMax (p : Prototype) (cl : Option ColorLimits) : (freshPc p cl).columnMax = none := by
  unfold PointCloud.columnMax freshPc; simp only; split <;> rfl
theorem freshPc_returnMin (p : Prototype) (cl : Option ColorLimits) : (freshPc p cl).returnMin = none := by
  unfold PointCloud.returnMin freshPc; simp only; split <;> rfl
theorem freshPc_returnMax (p : Prototype) (cl : Option ColorLimits) : (freshPc p cl).returnMax = none := by
  unfold PointCloud.returnMax freshPc; simp only; split <;> rfl

/-- **A3**: folding the bound updates over any sequence of points, starting from the state created
    by `new`, yields exactly the folds of A1/A2 (all occurrences of a record name count) -/
theorem foldBounds_exact (p : Prototype) (cl : Option ColorLimits) (pts : List (List Value))
    (pc' : PointCloud) (h : foldBounds p pts (freshPc p cl) = .ok pc') : BoundsExact p pts pc' where
  xMin := by
    rw [foldBounds_upd (get := PointCloud.xMin) (fun pc pc' r v h => (updateBounds_fields pc pc' r v h).xMin) p pts _ pc' h,
      freshPc_xMin, foldl_updMinF]; rfl
  xMax := by
    rw [foldBounds_upd (get := PointCloud.xMax) (fun pc pc' r v h => (updateBounds_fields pc pc' r v h).xMax) p pts _ pc' h,
      freshPc_xMax, foldl_updMaxF]; rfl
  yMin := by
    rw [foldBounds_upd (get := PointCloud.yMin) (fun pc pc' r v h => (updateBounds_fields pc pc' r v h).yMin) p pts _ pc' h,
      freshPc_yMin, foldl_updMinF]; rfl
  yMax := by
    rw [foldBounds_upd (get := PointCloud.yMax) (fun pc pc' r v h => (updateBounds_fields pc pc' r v h).yMax) p pts _ pc' h,
      freshPc_yMax, foldl_updMaxF]; rfl
  zMin := by
    rw [foldBounds_upd (get := PointCloud.zMin) (fun pc pc' r v h => (updateBounds_fields pc pc' r v h).zMin) p pts _ pc' h,
      freshPc_zMin, foldl_updMinF]; rfl
  zMax := by
    rw [foldBounds_upd (get := PointCloud.zMax) (fun pc pc' r v h => (updateBounds_fields pc pc' r v h).zMax) p pts _ pc' h,
      freshPc_zMax, foldl_updMaxF]; rfl
  rangeMin := by
    rw [foldBounds_upd (get := PointCloud.rangeMin) (fun pc pc' r v h => (updateBounds_fields pc pc' r v h).rangeMin) p pts _ pc' h,
      freshPc_rangeMin, foldl_updMinF]; rfl
  rangeMax := by
    rw [foldBounds_upd (get := PointCloud.rangeMax) (fun pc pc' r v h => (updateBounds_fields pc pc' r v h).rangeMax) p pts _ pc' h,
      freshPc_rangeMax, foldl_updMaxF]; rfl
  elevationMin := by
    rw [foldBounds_upd (get := PointCloud.elevationMin) (fun pc pc' r v h => (updateBounds_fields pc pc' r v h).elevationMin) p pts _ pc' h,
      freshPc_elevationMin, foldl_updMinF]; rfl
  elevationMax := by
    rw [foldBounds_upd (get := PointCloud.elevationMax) (fun pc pc' r v h => (updateBounds_fields pc pc' r v h).elevationMax) p pts _ pc' h,
      freshPc_elevationMax, foldl_updMaxF]; rfl
  azimuthStart := by
    rw [foldBounds_upd (get := PointCloud.azimuthStart) (fun pc pc' r v h => (updateBounds_fields pc pc' r v h).azimuthStart) p pts _ pc' h,
      freshPc_azimuthStart, foldl_updMinF]; rfl
  azimuthEnd := by
    rw [foldBounds_upd (get := PointCloud.azimuthEnd) (fun pc pc' r v h => (updateBounds_fields pc pc' r v h).azimuthEnd) p pts _ pc' h,
      freshPc_azimuthEnd, foldl_updMaxF]; rfl
  rowMin := by
    rw [foldBounds_min (get := PointCloud.rowMin) (fun pc pc' r v h => (updateBounds_fields pc pc' r v h).rowMin) p pts _ pc' h,
      freshPc_rowMin]; rfl
  rowMax := by
    rw [foldBounds_max (get := PointCloud.rowMax) (fun pc pc' r v h => (updateBounds_fields pc pc' r v h).rowMax) p pts _ pc' h,
      freshPc_rowMax]; rfl
  columnMin := by
    rw [foldBounds_min (get := PointCloud.columnMin) (fun pc pc' r v h => (updateBounds_fields pc pc' r v h).columnMin) p pts _ pc' h,
      freshPc_columnMin]; rfl
  columnMax := by
    rw [foldBounds_max (get := PointCloud.columnMax) (fun pc pc' r v h => (updateBounds_fields pc pc' r v h).columnMax) p pts _ pc' h,
      freshPc_columnMax]; rfl
  returnMin := by
    rw [foldBounds_min (get := PointCloud.returnMin) (fun pc pc' r v h => (updateBounds_fields pc pc' r v h).returnMin) p pts _ pc' h,
      freshPc_returnMin]; rfl
  returnMax := by
    rw [foldBounds_max (get := PointCloud.returnMax) (fun pc pc' r v h => (updateBounds_fields pc pc' r v h).returnMax) p pts _ pc' h,
      freshPc_returnMax]; rfl
  cart := by
    rw [foldBounds_keeps keeps_cart p pts _ pc' h]; simp only [freshPc]; split <;> simp_all
  sph := by
    rw [foldBounds_keeps keeps_sph p pts _ pc' h]; simp only [freshPc]; split <;> simp_all
  idx := by
    rw [foldBounds_keeps keeps_idx p pts _ pc' h]; simp only [freshPc]; split <;> simp_all



/-! ### connection with the writer: `add_point` repeatedly -/

/-- add the points one after the other, stopping at the first failure -/
def addPoints : List (List Value) → PW × PcW → Outcome (PW × PcW)
  | [], st => .ok st
  | pt :: pts, st => st.2.addPoint st.1 pt >>= addPoints pts

/-- the metadata after an accepted `add_point` is the old metadata with the bounds updated -/
theorem addPoint_pc (w : PcW) (pw : PW) (vs : List Value) (pw' : PW) (w' : PcW)
    (h : w.addPoint pw vs = .ok (pw', w')) : updateAllBounds w.prototype vs w.pc = .ok w'.pc := by
  obtain ⟨h1, h2, _, _⟩ := addPoint_ok_implies w pw vs pw' w' h
  unfold PcW.addPoint at h
  simp only [h1, h2, ne_eq, not_true_eq_false, if_false, Bool.not_true, Bool.false_eq_true] at h
  obtain ⟨pc, e, h⟩ := Outcome.bind_eq_ok h
  rw [e]
  split at h
  · obtain ⟨_, _, e3, _⟩ := writeBufferToDisk_frame _ _ _ _ _ h
    rw [e3]
  · cases h; rfl

theorem addPoints_spec : ∀ (pts : List (List Value)) (pw : PW) (w : PcW) (pw' : PW) (w' : PcW),
    addPoints pts (pw, w) = .ok (pw', w') →
    foldBounds w.prototype pts w.pc = .ok w'.pc ∧ w'.prototype = w.prototype ∧
      w'.pointCount = w.pointCount + pts.length ∧
      ∀ pt ∈ pts, pt.length = w.prototype.length ∧ checkValues w.prototype pt = true
  | [], pw, w, pw', w', h => by
    simp only [addPoints] at h; cases h
    exact ⟨rfl, rfl, rfl, by simp⟩
  | pt :: pts, pw, w, pw', w', h => by
    simp only [addPoints] at h
    obtain ⟨⟨pw1, w1⟩, e1, h⟩ := Outcome.bind_eq_ok h
    obtain ⟨a1, a2, a3, a4⟩ := addPoint_ok_implies w pw pt pw1 w1 e1
    obtain ⟨b1, b2, b3, b4⟩ := addPoints_spec pts pw1 w1 pw' w' h
    refine ⟨?_, b2.trans a4, ?_, ?_⟩
    · simp only [foldBounds, addPoint_pc w pw pt pw1 w1 e1, Outcome.bind_ok]
      rw [← a4]; exact b1
    · rw [b3, a3, List.length_cons]; omega
    · intro x hx
      rcases List.mem_cons.1 hx with rfl | hx
      · exact ⟨a1, a2⟩
      · rw [← a4]; exact b4 x hx

/-- **A3 (writer)**: after `new` and any number of accepted `add_point` calls the writer's bounds are
    exactly the folds over the values added, and the point count is the number of points -/
theorem bounds_exact (pw : PW) (exts : List (String × String)) (guid : String) (proto : Prototype)
    (_hpw : pw.Inv) (pw0 : PW) (w0 : PcW) (hnew : PcW.new pw exts guid proto = .ok (pw0, w0))
    (pts : List (List Value)) (pw1 : PW) (w1 : PcW) (hadd : addPoints pts (pw0, w0) = .ok (pw1, w1)) :
    BoundsExact proto pts w1.pc ∧ w1.pointCount = pts.length ∧ w1.prototype = proto := by
  obtain ⟨_, _, _, _, cl, _, rfl⟩ := PcW.new_ok pw exts guid proto pw0 w0 hnew
  obtain ⟨h1, h2, h3, _⟩ := addPoints_spec pts pw0 _ pw1 w1 hadd
  exact ⟨foldBounds_exact proto cl pts w1.pc h1, by simpa [newState] using h3, h2⟩

/-- reading the accessors: they are the fields of the bounds structure when it is present -/
theorem xMin_of_cart (pc : PointCloud) (b : CartesianBounds) (h : pc.cartesianBounds = some b) :
    pc.xMin = b.xMin ∧ pc.xMax = b.xMax ∧ pc.yMin = b.yMin ∧ pc.yMax = b.yMax ∧
      pc.zMin = b.zMin ∧ pc.zMax = b.zMax := by
  simp [PointCloud.xMin, PointCloud.xMax, PointCloud.yMin, PointCloud.yMax, PointCloud.zMin,
    PointCloud.zMax, h]

theorem fields_of_sph (pc : PointCloud) (b : SphericalBounds) (h : pc.sphericalBounds = some b) :
    pc.rangeMin = b.rangeMin ∧ pc.rangeMax = b.rangeMax ∧ pc.elevationMin = b.elevationMin ∧
      pc.elevationMax = b.elevationMax ∧ pc.azimuthStart = b.azimuthStart ∧
      pc.azimuthEnd = b.azimuthEnd := by
  simp [PointCloud.rangeMin, PointCloud.rangeMax, PointCloud.elevationMin, PointCloud.elevationMax,
    PointCloud.azimuthStart, PointCloud.azimuthEnd, h]

theorem fields_of_idx (pc : PointCloud) (b : IndexBounds) (h : pc.indexBounds = some b) :
    pc.rowMin = b.rowMin ∧ pc.rowMax = b.rowMax ∧ pc.columnMin = b.columnMin ∧
      pc.columnMax = b.columnMax ∧ pc.returnMin = b.returnMin ∧ pc.returnMax = b.returnMax := by
  simp [PointCloud.rowMin, PointCloud.rowMax, PointCloud.columnMin, PointCloud.columnMax,
    PointCloud.returnMin, PointCloud.returnMax, h]

/-- the float bounds in the form "fold of the repaired `update_min`/`update_max` over ALL values" -/
theorem BoundsExact.xMinF {p : Prototype} {pts : List (List Value)} {pc : PointCloud}
    (h : BoundsExact p pts pc) : pc.xMin = foldMinF (fvals .cartesianX p pts) := by
  rw [h.xMin, foldMinF_eq]
theorem BoundsExact.xMaxF {p : Prototype} {pts : List (List Value)} {pc : PointCloud}
    (h : BoundsExact p pts pc) : pc.xMax = foldMaxF (fvals .cartesianX p pts) := by
  rw [h.xMax, foldMaxF_eq]

/-- example of the combined statement (A1 + A3) for one float bound.  The POINTS may contain NaNs
    anywhere (nothing is assumed about the values); the only hypothesis is that the IEEE comparison is
    a strict order on the non-NaN doubles.  As soon as one X value is not a NaN, the stored `xMin` is a
    non-NaN X value that was added and no non-NaN X value lies below it. -/
theorem xMin_is_minimum (hS : StrictOn NotNaN fltLt) (p : Prototype)
    (pts : List (List Value)) (pc : PointCloud) (h : BoundsExact p pts pc)
    (hne : nonNaN (fvals .cartesianX p pts) ≠ []) :
    ∃ m, pc.xMin = some m ∧ m ∈ fvals .cartesianX p pts ∧ fltIsNaN m = false ∧
      ∀ v ∈ fvals .cartesianX p pts, fltIsNaN v = false → fltLt v m = false := by
  rw [h.xMinF]; exact foldMinF_spec hS _ hne

theorem xMax_is_maximum (hS : StrictOn NotNaN fltLt) (p : Prototype)
    (pts : List (List Value)) (pc : PointCloud) (h : BoundsExact p pts pc)
    (hne : nonNaN (fvals .cartesianX p pts) ≠ []) :
    ∃ m, pc.xMax = some m ∧ m ∈ fvals .cartesianX p pts ∧ fltIsNaN m = false ∧
      ∀ v ∈ fvals .cartesianX p pts, fltIsNaN v = false → fltLt m v = false := by
  rw [h.xMaxF]; exact foldMaxF_spec hS _ hne

/-- when every X value is a NaN (or there is none) no X bound is stored (it used to be NaN) -/
theorem xMin_none_iff (p : Prototype) (pts : List (List Value)) (pc : PointCloud)
    (h : BoundsExact p pts pc) :
    pc.xMin = none ↔ ∀ v ∈ fvals .cartesianX p pts, fltIsNaN v = true := by
  rw [h.xMinF]; exact foldMinF_eq_none _

/-! ### no stored float bound is a NaN; NaN points do not move the bounds -/

/-- the twelve float bounds -/
def PointCloud.floatBounds (pc : PointCloud) : List (Option UInt64) :=
  [pc.xMin, pc.xMax, pc.yMin, pc.yMax, pc.zMin, pc.zMax, pc.rangeMin, pc.rangeMax,
   pc.elevationMin, pc.elevationMax, pc.azimuthStart, pc.azimuthEnd]

/-- no hypothesis on the order or on the points: none of the twelve float bounds is a NaN -/
theorem BoundsExact.no_nan {p : Prototype} {pts : List (List Value)} {pc : PointCloud}
    (h : BoundsExact p pts pc) : ∀ o ∈ pc.floatBounds, ∀ b, o = some b → fltIsNaN b = false := by
  have hmin : ∀ (vs : List UInt64) (o : Option UInt64), o = foldMin fltLt (nonNaN vs) →
      ∀ b, o = some b → fltIsNaN b = false := by
    intro vs o ho b hb
    exact (mem_nonNaN.1 (foldMin_mem _ _ b (ho.symm.trans hb))).2
  have hmax : ∀ (vs : List UInt64) (o : Option UInt64), o = foldMax fltLt (nonNaN vs) →
      ∀ b, o = some b → fltIsNaN b = false := by
    intro vs o ho b hb
    exact (mem_nonNaN.1 (foldMax_mem _ _ b (ho.symm.trans hb))).2
  intro o ho
  simp only [PointCloud.floatBounds, List.mem_cons, List.not_mem_nil, or_false] at ho
  rcases ho with rfl | rfl | rfl | rfl | rfl | rfl | rfl | rfl | rfl | rfl | rfl | rfl
  · exact hmin _ _ h.xMin
  · exact hmax _ _ h.xMax
  · exact hmin _ _ h.yMin
  · exact hmax _ _ h.yMax
  · exact hmin _ _ h.zMin
  · exact hmax _ _ h.zMax
  · exact hmin _ _ h.rangeMin
  · exact hmax _ _ h.rangeMax
  · exact hmin _ _ h.elevationMin
  · exact hmax _ _ h.elevationMax
  · exact hmin _ _ h.azimuthStart
  · exact hmax _ _ h.azimuthEnd

/-- **NaN is never a bound (writer)**: after `new` and ANY sequence of accepted `add_point` calls
    (NaN coordinates in any position, the first point included) none of the twelve float bounds
    stored in the metadata is a NaN -/
theorem nan_never_a_bound (pw : PW) (exts : List (String × String)) (guid : String) (proto : Prototype)
    (hpw : pw.Inv) (pw0 : PW) (w0 : PcW) (hnew : PcW.new pw exts guid proto = .ok (pw0, w0))
    (pts : List (List Value)) (pw1 : PW) (w1 : PcW) (hadd : addPoints pts (pw0, w0) = .ok (pw1, w1)) :
    ∀ o ∈ w1.pc.floatBounds, ∀ b, o = some b → fltIsNaN b = false :=
  (bounds_exact pw exts guid proto hpw pw0 w0 hnew pts pw1 w1 hadd).1.no_nan

/-- the same, bound by bound -/
theorem nan_never_a_bound_fields (pw : PW) (exts : List (String × String)) (guid : String) (proto : Prototype)
    (hpw : pw.Inv) (pw0 : PW) (w0 : PcW) (hnew : PcW.new pw exts guid proto = .ok (pw0, w0))
    (pts : List (List Value)) (pw1 : PW) (w1 : PcW) (hadd : addPoints pts (pw0, w0) = .ok (pw1, w1)) :
    (∀ b, w1.pc.xMin = some b → fltIsNaN b = false) ∧ (∀ b, w1.pc.xMax = some b → fltIsNaN b = false) ∧
    (∀ b, w1.pc.yMin = some b → fltIsNaN b = false) ∧ (∀ b, w1.pc.yMax = some b → fltIsNaN b = false) ∧
    (∀ b, w1.pc.zMin = some b → fltIsNaN b = false) ∧ (∀ b, w1.pc.zMax = some b → fltIsNaN b = false) ∧
    (∀ b, w1.pc.rangeMin = some b → fltIsNaN b = false) ∧ (∀ b, w1.pc.rangeMax = some b → fltIsNaN b = false) ∧
    (∀ b, w1.pc.elevationMin = some b → fltIsNaN b = false) ∧
    (∀ b, w1.pc.elevationMax = some b → fltIsNaN b = false) ∧
    (∀ b, w1.pc.azimuthStart = some b → fltIsNaN b = false) ∧
    (∀ b, w1.pc.azimuthEnd = some b → fltIsNaN b = false) := by
  have h := nan_never_a_bound pw exts guid proto hpw pw0 w0 hnew pts pw1 w1 hadd
  refine ⟨?_, ?_, ?_, ?_, ?_, ?_, ?_, ?_, ?_, ?_, ?_, ?_⟩ <;>
    exact fun b hb => h _ (by simp [PointCloud.floatBounds]) b hb

/-- the values of record `n` over a sequence with one more point in the middle -/
theorem allVals_insert {α : Type} (toV : Value → DataType → Option α) (n : RecordName) (p : Prototype)
    (pts₁ pts₂ : List (List Value)) (pt : List Value) :
    allVals toV n p (pts₁ ++ pt :: pts₂) =
      allVals toV n p pts₁ ++ colVals toV n p pt ++ allVals toV n p pts₂ := by
  simp [allVals, List.flatMap_append]

theorem allVals_append {α : Type} (toV : Value → DataType → Option α) (n : RecordName) (p : Prototype)
    (pts₁ pts₂ : List (List Value)) :
    allVals toV n p (pts₁ ++ pts₂) = allVals toV n p pts₁ ++ allVals toV n p pts₂ := by
  simp [allVals, List.flatMap_append]

/-- a point whose values for record `n` are all NaN contributes nothing to the non-NaN values of `n`,
    wherever it is inserted (any record name) -/
theorem nonNaN_fvals_insert (n : RecordName) (p : Prototype) (pts₁ pts₂ : List (List Value))
    (pt : List Value) (hnan : ∀ v ∈ colVals Value.toF64 n p pt, fltIsNaN v = true) :
    nonNaN (fvals n p (pts₁ ++ pt :: pts₂)) = nonNaN (fvals n p (pts₁ ++ pts₂)) := by
  rw [fvals, fvals, allVals_insert, allVals_append]
  exact nonNaN_insert _ _ _ hnan

/-- **the bounds do not depend on where a NaN point stands**: two accepted sequences that differ by
    one point whose X is NaN, inserted ANYWHERE (the front included), store the same `xMin` and `xMax` -/
theorem xBounds_independent_of_nan_point (p : Prototype) (pts₁ pts₂ : List (List Value)) (pt : List Value)
    (pc pc' : PointCloud) (h : BoundsExact p (pts₁ ++ pt :: pts₂) pc) (h' : BoundsExact p (pts₁ ++ pts₂) pc')
    (hnan : ∀ v ∈ colVals Value.toF64 .cartesianX p pt, fltIsNaN v = true) :
    pc.xMin = pc'.xMin ∧ pc.xMax = pc'.xMax := by
  rw [h.xMin, h'.xMin, h.xMax, h'.xMax, nonNaN_fvals_insert .cartesianX p pts₁ pts₂ pt hnan]
  exact ⟨rfl, rfl⟩

/-- the same for two writer sessions on the same prototype: the accepted sequence with a NaN-X point
    inserted anywhere and the sequence without it end with the same X bounds -/
theorem nan_point_moves_no_x_bound (pw : PW) (exts : List (String × String)) (guid : String)
    (proto : Prototype) (hpw : pw.Inv) (pw0 : PW) (w0 : PcW)
    (hnew : PcW.new pw exts guid proto = .ok (pw0, w0))
    (pts₁ pts₂ : List (List Value)) (pt : List Value) (pw1 pw1' : PW) (w1 w1' : PcW)
    (hadd : addPoints (pts₁ ++ pt :: pts₂) (pw0, w0) = .ok (pw1, w1))
    (hadd' : addPoints (pts₁ ++ pts₂) (pw0, w0) = .ok (pw1', w1'))
    (hnan : ∀ v ∈ colVals Value.toF64 .cartesianX proto pt, fltIsNaN v = true) :
    w1.pc.xMin = w1'.pc.xMin ∧ w1.pc.xMax = w1'.pc.xMax :=
  xBounds_independent_of_nan_point proto pts₁ pts₂ pt w1.pc w1'.pc
    (bounds_exact pw exts guid proto hpw pw0 w0 hnew _ pw1 w1 hadd).1
    (bounds_exact pw exts guid proto hpw pw0 w0 hnew _ pw1' w1' hadd').1 hnan

/-- more generally: the X bounds of two accepted sequences agree as soon as their non-NaN X values
    agree (e.g. after moving, adding or deleting any number of NaN points) -/
theorem xBounds_congr (p : Prototype) (pts pts' : List (List Value)) (pc pc' : PointCloud)
    (h : BoundsExact p pts pc) (h' : BoundsExact p pts' pc')
    (he : nonNaN (fvals .cartesianX p pts) = nonNaN (fvals .cartesianX p pts')) :
    pc.xMin = pc'.xMin ∧ pc.xMax = pc'.xMax := by
  rw [h.xMin, h'.xMin, h.xMax, h'.xMax, he]; exact ⟨rfl, rfl⟩

/-- example (A2 + A3) for one index bound: the stored `rowMin` is the exact integer minimum -/
theorem rowMin_is_minimum (p : Prototype) (pts : List (List Value)) (pc : PointCloud)
    (h : BoundsExact p pts pc) (hne : ivals .rowIndex p pts ≠ []) (m : Int) :
    pc.rowMin = some m ↔ m ∈ ivals .rowIndex p pts ∧ ∀ v ∈ ivals .rowIndex p pts, m ≤ v := by
  rw [h.rowMin]; exact foldMin_int _ hne m

theorem rowMax_is_maximum (p : Prototype) (pts : List (List Value)) (pc : PointCloud)
    (h : BoundsExact p pts pc) (hne : ivals .rowIndex p pts ≠ []) (m : Int) :
    pc.rowMax = some m ↔ m ∈ ivals .rowIndex p pts ∧ ∀ v ∈ ivals .rowIndex p pts, v ≤ m := by
  rw [h.rowMax]; exact foldMax_int _ hne m

/-! ### duplicate record names no longer defeat `validate_prototype`

Before the fix "a rejected point could change the bounds" the statement below was FALSE (witness:
a second `rowIndex` record of scaled-integer type; every `add_point` then failed in the bound
update, after the Cartesian bounds had been changed).  It is a theorem now. -/

def updateAllBounds_no_err_statement : Prop :=
  ∀ (p : Prototype) (pt : List Value) (cl : Option ColorLimits), validatePrototype p = true →
    checkValues p pt = true → pt.length = p.length → ∃ pc', updateAllBounds p pt (freshPc p cl) = .ok pc'

def dupProto : Prototype :=
  [⟨.cartesianX, .double none none⟩, ⟨.cartesianY, .double none none⟩, ⟨.cartesianZ, .double none none⟩,
   ⟨.rowIndex, .integer 0 10⟩, ⟨.rowIndex, .scaled 0 10 0 0⟩]

/-- the former witness is rejected by the prototype rules -/
theorem dupProto_rejected : validatePrototype dupProto = false := by decide

/-- **A3 (no error), partial**: with the bounds structures present for the prototype (`ProtoReady`,
    established by `new` for valid prototypes whose index records all have integer type, in
    particular for valid prototypes without duplicate names) the bound update of an accepted point
    succeeds and keeps that state -/
theorem updateAllBounds_no_err_partial (p : Prototype) (pt : List Value) (pc : PointCloud)
    (hc : checkValues p pt = true) (hr : ProtoReady pc p) :
    ∃ pc', updateAllBounds p pt pc = .ok pc' ∧ ProtoReady pc' p := by
  obtain ⟨pc', e⟩ := updateAllBounds_ok_of p pt pc hc hr
  exact ⟨pc', e, hr.updateAll p pt e⟩

theorem new_protoReady (pw : PW) (exts : List (String × String)) (guid : String) (proto : Prototype)
    (_hpw : pw.Inv) (pw0 : PW) (w0 : PcW) (hnew : PcW.new pw exts guid proto = .ok (pw0, w0))
    (hn : NoDupNames proto) : ProtoReady w0.pc w0.prototype := by
  obtain ⟨_, hv, _, _, cl, _, rfl⟩ := PcW.new_ok pw exts guid proto pw0 w0 hnew
  exact freshPc_ready proto cl hv (idxInt_of_nodup proto hv hn)


/-- **A3 (no error)**: an accepted point of a valid prototype never fails in the bound update -/
theorem updateAllBounds_no_err : updateAllBounds_no_err_statement := by
  intro p pt cl hv hc _
  obtain ⟨pc', e, _⟩ := updateAllBounds_no_err_partial p pt (freshPc p cl) hc
    (freshPc_ready p cl hv (idxInt_of_valid p hv))
  exact ⟨pc', e⟩

/-! ## packet capacity (stretch): with `maxPoints` from `get_max_packet_points` a packet never
    exceeds 65535 bytes, so "Invalid data packet length detected" cannot happen -/

theorem fullBytes_le_used (s : WBuf) : 8 * s.fullBytes ≤ s.used := by
  unfold WBuf.fullBytes WBuf.used
  by_cases h0 : s.lastBit = 0
  · simp [h0]
  · simp only [h0, ne_eq, not_false_eq_true, if_true, if_false]; omega

theorem sizes_le_used : ∀ (ss : List WBuf), 8 * (sizesOf false ss).sum ≤ usedSum ss
  | [] => by simp [sizesOf, usedSum]
  | s :: ss => by
    have := sizes_le_used ss
    have := fullBytes_le_used s
    simp only [sizesOf, usedSum, List.map_cons, List.sum_cons, Bool.false_eq_true, if_false] at *
    omega

theorem usedSum_le : ∀ (ss : List WBuf), (∀ s ∈ ss, s.used < 8) → usedSum ss ≤ 7 * ss.length
  | [], _ => by simp [usedSum]
  | s :: ss, h => by
    have := usedSum_le ss (fun x hx => h x (by simp [hx]))
    have := h s (by simp)
    simp only [usedSum, List.map_cons, List.sum_cons, List.length_cons] at *
    omega

theorem allBytes_le_one (s : WBuf) (hs : s.Inv) (hu : s.used < 8) : s.allBytes ≤ 1 := by
  unfold WBuf.allBytes; rw [WBuf.length_eq s hs]; omega

theorem sizes_last_le : ∀ (ss : List WBuf), (∀ s ∈ ss, s.Inv) → (∀ s ∈ ss, s.used < 8) →
    (sizesOf true ss).sum ≤ ss.length
  | [], _, _ => by simp [sizesOf]
  | s :: ss, hi, hu => by
    have := sizes_last_le ss (fun x hx => hi x (by simp [hx])) (fun x hx => hu x (by simp [hx]))
    have := allBytes_le_one s (hi s (by simp)) (hu s (by simp))
    simp only [sizesOf, List.map_cons, List.sum_cons, if_true, List.length_cons] at *
    omega

/-- **packet_capacity**: the regular flush of at most `maxPoints` points always fits -/
theorem packet_capacity (w : PcW) (pw : PW) (h : w.Inv0) (hc : w.Cap) (hpw : pw.Inv) :
    ∃ pw' w', w.writeBufferToDisk pw false = .ok (pw', w') ∧ pw'.Inv ∧ w'.Inv0 ∧
      w'.buffer = w.buffer.drop (min w.maxPoints w.buffer.length) ∧
      w'.prototype = w.prototype ∧ w'.maxPoints = w.maxPoints ∧ w'.pc = w.pc ∧
      w'.pointCount = w.pointCount ∧ w'.guid = w.guid ∧ w'.sectionOffset = w.sectionOffset := by
  rcases writeBufferToDisk_spec w pw false h hpw with ⟨_, ss, _, e2, e3, e4, hl, hpos⟩ | hok
  · exfalso
    by_cases hp : pointBits w.prototype = 0
    · -- zero-width points: the streams stay empty, nothing is ever written
      have hu : ∀ s ∈ ss, s.used = 0 := by
        apply usedSum_zero_forall
        rw [e4, hp, Nat.mul_zero, Nat.add_zero]
        exact forall_zero_usedSum _ (h.zero hp)
      have := sizes_of_used_zero false ss e3 hu
      omega
    have h1 := sizes_le_used ss
    have h2 := usedSum_le w.streams h.drained
    rw [h.slen] at h2
    have h3 := (pktLen_bounds w.prototype.length (sumNat (sizesOf false ss))).2
    rw [sumNat_eq] at h3 hl
    have h4 : min w.maxPoints w.buffer.length * pointBits w.prototype ≤
        w.maxPoints * pointBits w.prototype := Nat.mul_le_mul_right _ (Nat.min_le_left _ _)
    have h5 := hc.cap
    have h6 := hc.hdrFit (by omega)
    omega
  · exact hok

/-- the last flush (`finalize`, after the buffer was drained) always fits -/
theorem packet_capacity_last (w : PcW) (pw : PW) (h : w.Inv0) (hc : w.Cap) (hpw : pw.Inv)
    (hb : w.buffer = []) :
    ∃ pw' w', w.writeBufferToDisk pw true = .ok (pw', w') ∧ pw'.Inv ∧ w'.Inv0 ∧
      w'.buffer = [] ∧
      w'.prototype = w.prototype ∧ w'.maxPoints = w.maxPoints ∧ w'.pc = w.pc ∧
      w'.pointCount = w.pointCount ∧ w'.guid = w.guid ∧ w'.sectionOffset = w.sectionOffset := by
  rcases writeBufferToDisk_spec w pw true h hpw with ⟨_, ss, e1, _, _, _, hl, hpos⟩ | hok
  · exfalso
    rw [hb] at e1
    simp only [List.length_nil, Nat.min_zero, writePoints_zero, List.drop_nil] at e1
    cases e1
    by_cases hp : pointBits w.prototype = 0
    · have := sizes_of_used_zero true w.streams h.sinv (h.zero hp)
      omega
    have h1 := sizes_last_le w.streams h.sinv h.drained
    rw [h.slen] at h1
    have h3 := (pktLen_bounds w.prototype.length (sumNat (sizesOf true w.streams))).2
    rw [sumNat_eq] at h3 hl
    have h6 := hc.hdrFit (by omega)
    omega
  · obtain ⟨pw', w', e, i1, i2, e3, rest⟩ := hok
    refine ⟨pw', w', e, i1, i2, ?_, rest⟩
    rw [e3, hb]; simp

theorem PcW.Cap.of_eq {w w' : PcW} (h : w.Cap) (h1 : w'.prototype = w.prototype)
    (h2 : w'.maxPoints = w.maxPoints) : w'.Cap := by
  constructor
  · rw [h1]; exact h.hdrFit
  · rw [h1, h2]; exact h.cap

/-- **an accepted point is never refused**: on a well-formed writer whose capacity comes from `new`
    and whose bounds structures match the prototype, `add_point` of a point that fits the prototype
    succeeds and re-establishes everything -/
theorem addPoint_accepts (w : PcW) (pw : PW) (hw : w.Inv) (hc : w.Cap) (hr : ProtoReady w.pc w.prototype)
    (hpw : pw.Inv) (vs : List Value) (hlen : vs.length = w.prototype.length)
    (hv : checkValues w.prototype vs = true) :
    ∃ pw' w', w.addPoint pw vs = .ok (pw', w') ∧ w'.Inv ∧ w'.Cap ∧ ProtoReady w'.pc w'.prototype ∧
      pw'.Inv := by
  obtain ⟨pc, hub, hr'⟩ := updateAllBounds_no_err_partial w.prototype vs w.pc hv hr
  unfold PcW.addPoint
  simp only [hlen, hv, ne_eq, not_true_eq_false, if_false, Bool.not_true, Bool.false_eq_true, hub,
    Outcome.bind_ok]
  have hinv0 : PcW.Inv0 { w with pc := pc, buffer := w.buffer ++ [vs], pointCount := w.pointCount + 1 } :=
    ⟨hw.slen, hw.sinv, hw.drained, by
      intro pt hpt
      rcases List.mem_append.1 hpt with h | h
      · exact hw.buf pt h
      · simp at h; subst h; exact ⟨hlen, hv⟩, hw.mp, hw.i64, hw.zero⟩
  have hcap : PcW.Cap { w with pc := pc, buffer := w.buffer ++ [vs], pointCount := w.pointCount + 1 } :=
    hc.of_eq rfl rfl
  have hbl := hw.blen
  have hmp := hw.mp
  by_cases hge : (w.buffer ++ [vs]).length ≥ w.maxPoints
  · rw [if_pos hge]
    simp only [List.length_append, List.length_cons, List.length_nil] at hge
    obtain ⟨pw', w', e, i1, i2, e3, e4, e5, e6, _⟩ := packet_capacity _ pw hinv0 hcap hpw
    refine ⟨pw', w', e, ⟨i2, ?_⟩, hcap.of_eq e4 e5, ?_, i1⟩
    · rw [e3, e5]
      simp only [List.length_drop, List.length_append, List.length_cons, List.length_nil]
      omega
    · rw [e4, e6]; exact hr'
  · rw [if_neg hge]
    simp only [List.length_append, List.length_cons, List.length_nil] at hge
    refine ⟨pw, _, rfl, ⟨hinv0, ?_⟩, hcap, hr', hpw⟩
    simp only [List.length_append, List.length_cons, List.length_nil]
    omega


/-! ### capacity zero (no longer reachable from `new`, see `PcW.new_ok_maxPoints_pos`) -/

/-- with capacity zero and no complete byte in the streams `write_buffer_to_disk(false)` only aligns -/
theorem writeBufferToDisk_cap0_exact (w : PcW) (pw : PW) (h0 : w.maxPoints = 0) (hpw : pw.Inv)
    (hs : ∀ s ∈ w.streams, s.fullBytes = 0) :
    ∃ pw', w.writeBufferToDisk pw false = .ok (pw', w) ∧ pw'.Inv := by
  have hz := sizes_zero w.streams hs
  obtain ⟨p4, e4, i4, _⟩ := pw_align pw hpw
  refine ⟨p4, ?_, i4⟩
  rw [writeBufferToDisk_eq, h0, Nat.zero_min, writePoints_zero]
  simp only [Outcome.bind_ok, wbdTail, hz, Nat.lt_irrefl, if_false, e4]

/-- with capacity zero an accepted point is only ever buffered -/
theorem addPoint_cap0 (w : PcW) (pw : PW) (h0 : w.maxPoints = 0) (hpw : pw.Inv)
    (hs : ∀ s ∈ w.streams, s.fullBytes = 0) (hr : ProtoReady w.pc w.prototype)
    (vs : List Value) (hlen : vs.length = w.prototype.length) (hv : checkValues w.prototype vs = true) :
    ∃ pw' w', w.addPoint pw vs = .ok (pw', w') ∧ pw'.Inv ∧ w'.maxPoints = 0 ∧
      w'.buffer = w.buffer ++ [vs] ∧ w'.streams = w.streams := by
  obtain ⟨pc, hub, _⟩ := updateAllBounds_no_err_partial w.prototype vs w.pc hv hr
  unfold PcW.addPoint
  simp only [hlen, hv, ne_eq, not_true_eq_false, if_false, Bool.not_true, Bool.false_eq_true, hub,
    Outcome.bind_ok]
  obtain ⟨pw', e, i⟩ := writeBufferToDisk_cap0_exact
    { w with pc := pc, buffer := w.buffer ++ [vs], pointCount := w.pointCount + 1 } pw h0 hpw hs
  split
  · exact ⟨pw', _, e, i, h0, rfl, rfl⟩
  · next hlt => simp [h0] at hlt

/-! ### blob_patch (stretch): what `blobWrite` leaves in the logical stream -/

/-- rewriting an equally long prefix of what was just written, at the old cursor -/
theorem spec_patch (s : LogStream) (a a' b : Bytes) (hl : a'.length = a.length) :
    (LogStream.write { (s.write (a ++ b)) with cur := s.cur } a') =
      { (s.write (a' ++ b)) with cur := s.cur + a'.length } := by
  apply logStream_ext
  · unfold LogStream.write
    simp only [List.length_append, hl]
    generalize hB : s.data ++ zeros (max s.data.length ((s.cur + (a.length + b.length) + 1019) / 1020 * 1020)
      - s.data.length) = B
    have hBl : B.length = max s.data.length ((s.cur + (a.length + b.length) + 1019) / 1020 * 1020) := by
      rw [← hB, List.length_append, zeros_length]; omega
    have hcB : s.cur + (a.length + b.length) ≤ B.length := by rw [hBl]; omega
    have ht : (B.take s.cur).length = s.cur := by rw [List.length_take]; omega
    have hdr : (B.drop (s.cur + (a.length + b.length))).length = B.length - (s.cur + (a.length + b.length)) :=
      List.length_drop
    rw [ht, hdr]
    have hz : max (s.cur + (a.length + b.length) + (B.length - (s.cur + (a.length + b.length))))
        ((s.cur + a.length + 1019) / 1020 * 1020)
        - (s.cur + (a.length + b.length) + (B.length - (s.cur + (a.length + b.length)))) = 0 := by
      rw [hBl]; omega
    rw [hz, zeros_zero, List.append_nil]
    have e1 : (B.take s.cur ++ (a ++ b) ++ B.drop (s.cur + (a.length + b.length))).take s.cur
        = B.take s.cur := by
      rw [List.append_assoc, List.take_append_of_le_length (by omega), List.take_of_length_le (by omega)]
    have e2 : (B.take s.cur ++ (a ++ b) ++ B.drop (s.cur + (a.length + b.length))).drop (s.cur + a.length)
        = b ++ B.drop (s.cur + (a.length + b.length)) := by
      rw [List.append_assoc, List.append_assoc]
      have : s.cur + a.length = (B.take s.cur ++ a).length := by rw [List.length_append, ht]
      rw [← List.append_assoc (B.take s.cur) a, this, List.drop_left']
      rfl
    rw [e1, e2]
    simp only [List.append_assoc]
  · simp [LogStream.write]

/-- `blobWrite` on a well-formed page writer: success, the reference, and the logical stream -/
theorem blobWrite_spec (pw : PW) (data : Bytes) (hpw : pw.Inv) :
    ∃ pw', blobWrite pw data = .ok (pw', ⟨pw.physicalPosition, data.length⟩) ∧ pw'.Inv ∧
      pw'.abs = (pw.abs.write (blobHeaderBytes ((16 + data.length + 3) / 4 * 4) ++ data)).align := by
  unfold blobWrite
  obtain ⟨p1, e1, i1, a1⟩ := pw_writeAll pw (blobHeaderBytes 0) hpw
  obtain ⟨p2, e2, i2, a2⟩ := pw_writeAll p1 data i1
  have wf0 := abs_wf pw hpw
  have wf1 := abs_wf p1 i1
  have wf2 := abs_wf p2 i2
  have c1 : p1.abs.cur = pw.abs.cur + 16 := by rw [a1, spec_write_cur, blobHeaderBytes_length]
  have c2 : p2.abs.cur = pw.abs.cur + 16 + data.length := by rw [a2, spec_write_cur, c1]
  obtain ⟨p3, e3, i3, a3⟩ := pw_seek_back p2 pw.abs.cur i2 (by omega)
  obtain ⟨p4, e4, i4, a4⟩ := pw_writeAll p3 (blobHeaderBytes ((16 + data.length + 3) / 4 * 4)) i3
  have a2' : p2.abs = pw.abs.write (blobHeaderBytes 0 ++ data) := by
    rw [a2, a1, spec_write_append _ _ _ wf0.2]
  have a4' : p4.abs = { (pw.abs.write (blobHeaderBytes ((16 + data.length + 3) / 4 * 4) ++ data)) with cur := pw.abs.cur + 16 } := by
    rw [a4, a3, a2']
    have := spec_patch pw.abs (blobHeaderBytes 0) (blobHeaderBytes ((16 + data.length + 3) / 4 * 4)) data
      (by rw [blobHeaderBytes_length, blobHeaderBytes_length])
    rw [blobHeaderBytes_length] at this
    exact this
  have l4 : p2.abs.data.length ≤ p4.abs.data.length := by
    rw [a4]
    have := spec_write_length_ge p3.abs (blobHeaderBytes ((16 + data.length + 3) / 4 * 4)) (by rw [a3]; simp only; omega)
    rw [a3] at this ⊢
    exact this
  obtain ⟨p5, e5, i5, a5⟩ := pw_seek_back p4 p2.abs.cur i4 (by omega)
  have a5' : p5.abs = pw.abs.write (blobHeaderBytes ((16 + data.length + 3) / 4 * 4) ++ data) := by
    rw [a5, a4']
    apply logStream_ext
    · rfl
    · simp only [spec_write_cur, List.length_append, blobHeaderBytes_length]; omega
  obtain ⟨p6, e6, i6, a6⟩ := pw_align p5 i5
  refine ⟨p6, ?_, i6, by rw [a6, a5']⟩
  have hp0 := pw_position pw hpw
  have hp2 := pw_position p2 i2
  simp only [LogStream.physPos] at hp0 hp2
  simp only [e1, e2, Outcome.bind_ok, hp0, hp2, e3, e4, e5, e6, Bool.not_true, Bool.false_eq_true,
    if_false, Outcome.pure_eq]

/-- **blob_patch**: after `blobWrite` the logical stream is the old one with
    `blob header (with the section length: header + data, padded to 4) ++ data` written at the old
    cursor, then aligned to 4 bytes -/
theorem blob_patch (pw : PW) (data : Bytes) (hpw : pw.Inv) (pw' : PW) (b : BlobRef)
    (h : blobWrite pw data = .ok (pw', b)) :
    pw'.abs = (pw.abs.write (blobHeaderBytes ((16 + data.length + 3) / 4 * 4) ++ data)).align ∧
      b = ⟨pw.physicalPosition, data.length⟩ := by
  obtain ⟨pw'', e, _, a⟩ := blobWrite_spec pw data hpw
  rw [e] at h; cases h
  exact ⟨a, rfl⟩


open Spec

/-! ## the whole session succeeds (beyond totality): valid prototype, accepted points ⇒ every call
    returns `ok`, including the two seeks of `finalize` -/

theorem pw_writeAll_ok (w : PW) (b : Bytes) (w' : PW) (h : w.Inv) (e : w.writeAll b = .ok w') :
    w'.Inv ∧ w.abs.data.length ≤ w'.abs.data.length := by
  obtain ⟨w'', e', i, a⟩ := pw_writeAll w b h
  rw [e] at e'; cases e'
  exact ⟨i, by rw [a]; exact spec_write_length_ge _ _ (abs_wf w h).2⟩

theorem pw_align_ok (w : PW) (w' : PW) (h : w.Inv) (e : w.align = .ok w') :
    w'.Inv ∧ w.abs.data.length ≤ w'.abs.data.length := by
  obtain ⟨w'', e', i, a⟩ := pw_align w h
  rw [e] at e'; cases e'
  refine ⟨i, ?_⟩
  rw [a, LogStream.align]
  split
  · exact spec_write_length_ge _ _ (abs_wf w h).2
  · exact Nat.le_refl _

theorem wbdTail_mono (w : PcW) (pw : PW) (lf : Bool) (buf : List (List Value)) (ss : List WBuf)
    (hpw : pw.Inv) (pw' : PW) (w' : PcW) (h : wbdTail w pw lf buf ss = .ok (pw', w')) :
    pw.abs.data.length ≤ pw'.abs.data.length := by
  unfold wbdTail at h
  split at h
  · split at h
    · cases h
    · obtain ⟨hdr, _, h⟩ := Outcome.bind_eq_ok h
      obtain ⟨p1, e1, h⟩ := Outcome.bind_eq_ok h
      obtain ⟨p2, e2, h⟩ := Outcome.bind_eq_ok h
      obtain ⟨p3, e3, h⟩ := Outcome.bind_eq_ok h
      obtain ⟨p4, e4, h⟩ := Outcome.bind_eq_ok h
      cases h
      obtain ⟨i1, m1⟩ := pw_writeAll_ok pw _ p1 hpw e1
      obtain ⟨i2, m2⟩ := pw_writeAll_ok p1 _ p2 i1 e2
      obtain ⟨i3, m3⟩ := pw_writeAll_ok p2 _ p3 i2 e3
      obtain ⟨_, m4⟩ := pw_align_ok p3 pw' i3 e4
      omega
  · obtain ⟨p4, e4, h⟩ := Outcome.bind_eq_ok h
    cases h
    exact (pw_align_ok pw pw' hpw e4).2

theorem writeBufferToDisk_mono (w : PcW) (pw : PW) (lf : Bool) (hpw : pw.Inv) (pw' : PW) (w' : PcW)
    (h : w.writeBufferToDisk pw lf = .ok (pw', w')) : pw.abs.data.length ≤ pw'.abs.data.length := by
  rw [writeBufferToDisk_eq] at h
  obtain ⟨r, _, h⟩ := Outcome.bind_eq_ok h
  exact wbdTail_mono _ _ _ _ _ hpw _ _ h

/-- the section start recorded by `new` stays a position `physical_seek` accepts -/
def Sect (w : PcW) (pw : PW) : Prop := ∃ c, w.sectionOffset = l2p c ∧ c ≤ pw.abs.data.length

theorem Sect.mono {w w' : PcW} {pw pw' : PW} (h : Sect w pw) (h1 : w'.sectionOffset = w.sectionOffset)
    (h2 : pw.abs.data.length ≤ pw'.abs.data.length) : Sect w' pw' := by
  obtain ⟨c, e, hc⟩ := h
  exact ⟨c, by rw [h1, e], by omega⟩

/-- everything the session keeps true between calls -/
structure Good (w : PcW) (pw : PW) : Prop where
  inv : w.Inv
  cap : w.Cap
  ready : ProtoReady w.pc w.prototype
  pwInv : pw.Inv
  sect : Sect w pw

/-- `new` establishes `Good` for valid prototypes with `i64` bounds, distinct names, and room for
    one point per packet -/
theorem new_good (pw : PW) (exts : List (String × String)) (guid : String) (proto : Prototype)
    (hpw : pw.Inv) (hi : ProtoI64 proto) (hn : NoDupNames proto)
    (pw0 : PW) (w0 : PcW) (hnew : PcW.new pw exts guid proto = .ok (pw0, w0)) : Good w0 pw0 := by
  obtain ⟨i1, c1, i2, _⟩ := PcW.new_inv pw exts guid proto hpw hi pw0 w0 hnew
  have hr := new_protoReady pw exts guid proto hpw pw0 w0 hnew hn
  refine ⟨i1, c1, hr, i2, ?_⟩
  obtain ⟨h1, h2, _, e1, cl, _, rfl⟩ := PcW.new_ok pw exts guid proto pw0 w0 hnew
  refine ⟨pw.abs.cur, ?_, ?_⟩
  · simp only [newState]; rw [pw_position pw hpw]; rfl
  · have := (pw_writeAll_ok pw _ pw0 hpw e1).2
    have := (abs_wf pw hpw).2
    omega

theorem addPoint_good (w : PcW) (pw : PW) (hg : Good w pw) (vs : List Value)
    (hlen : vs.length = w.prototype.length) (hv : checkValues w.prototype vs = true) :
    ∃ pw' w', w.addPoint pw vs = .ok (pw', w') ∧ Good w' pw' := by
  obtain ⟨pw', w', e, i1, c1, r1, i2⟩ := addPoint_accepts w pw hg.inv hg.cap hg.ready hg.pwInv vs hlen hv
  refine ⟨pw', w', e, i1, c1, r1, i2, ?_⟩
  -- the page writer only grew, the section offset is unchanged
  unfold PcW.addPoint at e
  simp only [hlen, hv, ne_eq, not_true_eq_false, if_false, Bool.not_true, Bool.false_eq_true] at e
  obtain ⟨pc, _, e⟩ := Outcome.bind_eq_ok e
  split at e
  · obtain ⟨_, _, _, _, _, f6⟩ := writeBufferToDisk_frame _ _ _ _ _ e
    exact hg.sect.mono f6 (writeBufferToDisk_mono _ _ _ hg.pwInv _ _ e)
  · cases e; exact hg.sect.mono rfl (Nat.le_refl _)

theorem addPoints_good : ∀ (pts : List (List Value)) (w : PcW) (pw : PW), Good w pw →
    (∀ pt ∈ pts, pt.length = w.prototype.length ∧ checkValues w.prototype pt = true) →
    ∃ pw' w', addPoints pts (pw, w) = .ok (pw', w') ∧ Good w' pw'
  | [], w, pw, hg, _ => ⟨pw, w, rfl, hg⟩
  | pt :: pts, w, pw, hg, h => by
    obtain ⟨pw1, w1, e1, g1⟩ := addPoint_good w pw hg pt (h pt (by simp)).1 (h pt (by simp)).2
    have hp := (addPoint_ok_implies w pw pt pw1 w1 e1).2.2.2
    obtain ⟨pw2, w2, e2, g2⟩ := addPoints_good pts w1 pw1 g1 (by
      intro x hx; rw [hp]; exact h x (by simp [hx]))
    exact ⟨pw2, w2, by simp [addPoints, e1, e2], g2⟩

/-- the drain loop under the capacity facts: always `ok` -/
theorem drainLoop_ok : ∀ (fuel : Nat) (w : PcW) (pw : PW), w.Inv0 → w.Cap → pw.Inv → w.buffer.length < fuel →
    ∃ pw' w', PcW.drainLoop fuel w pw = .ok (pw', w') ∧ pw'.Inv ∧ w'.Inv0 ∧ w'.Cap ∧ w'.buffer = [] ∧
      w'.prototype = w.prototype ∧ w'.pc = w.pc ∧
      w'.pointCount = w.pointCount ∧ w'.guid = w.guid ∧ w'.sectionOffset = w.sectionOffset ∧
      pw.abs.data.length ≤ pw'.abs.data.length
  | 0, _, _, _, _, _, h => by omega
  | fuel + 1, w, pw, hw, hc, hpw, h => by
    unfold PcW.drainLoop
    by_cases he : w.buffer.isEmpty = true
    · rw [if_pos he]
      exact ⟨pw, w, rfl, hpw, hw, hc, by simpa using he, rfl, rfl, rfl, rfl, rfl, Nat.le_refl _⟩
    · rw [if_neg he]
      have hne : w.buffer.length ≠ 0 := by
        intro h0; exact he (by simpa using h0)
      obtain ⟨pw1, w1, e, i1, i2, e3, e4, e5, e6, e7, e8, e9⟩ := packet_capacity w pw hw hc hpw
      rw [e]; simp only [Outcome.bind_ok]
      have hmp := hw.mp
      have hlt : w1.buffer.length < fuel := by
        rw [e3, List.length_drop]; omega
      have m1 := writeBufferToDisk_mono w pw false hpw pw1 w1 e
      obtain ⟨pw2, w2, e', j1, j2, jc, j3, j4, j6, j7, j8, j9, m2⟩ :=
        drainLoop_ok fuel w1 pw1 i2 (hc.of_eq e4 e5) i1 hlt
      exact ⟨pw2, w2, e', j1, j2, jc, j3, j4.trans e4, j6.trans e6, j7.trans e7,
            j8.trans e8, j9.trans e9, by omega⟩

/-- `finalize` on a `Good` state returns `ok` with the metadata of the writer -/
theorem finalize_good (w : PcW) (pw : PW) (hg : Good w pw) :
    ∃ pw' w', w.finalize pw = .ok (pw', w', finalPc w) ∧ pw'.Inv := by
  unfold PcW.finalize
  obtain ⟨pw1, w1, e, i1, i2, ic, eb, e4, e6, e7, e8, e9, m1⟩ :=
    drainLoop_ok (w.buffer.length + 1) w pw hg.inv.toInv0 hg.cap hg.pwInv (by omega)
  rw [e]; simp only [Outcome.bind_ok]
  obtain ⟨pw2, w2, e', j1, j2, _, f4, f5, f6, f7, f8, f9⟩ := packet_capacity_last w1 pw1 i2 ic i1 eb
  have m2 := writeBufferToDisk_mono w1 pw1 true i1 pw2 w2 e'
  rw [e']; simp only [Outcome.bind_ok]
  obtain ⟨c, hc1, hc2⟩ := hg.sect
  have hso : w2.sectionOffset = l2p c := by rw [f9, e9, hc1]
  obtain ⟨pw3, e3, k1, a3⟩ := pw_seek_back pw2 c j1 (by omega)
  obtain ⟨pw4, e4', k2, a4⟩ := pw_writeAll pw3 w2.header.bytes k1
  have wf2 := abs_wf pw2 j1
  have l4 : pw2.abs.data.length ≤ pw4.abs.data.length := by
    rw [a4]
    have := spec_write_length_ge pw3.abs w2.header.bytes (by rw [a3]; simp only; omega)
    rw [a3] at this ⊢
    exact this
  obtain ⟨pw5, e5, k3, _⟩ := pw_seek_back pw4 pw2.abs.cur k2 (by omega)
  have hp2 := pw_position pw2 j1
  simp only [LogStream.physPos] at hp2
  refine ⟨pw5, { w2 with pc := { cartesianBounds := none, sphericalBounds := none, indexBounds := none } },
    ?_, k3⟩
  simp only [hso, e3, hp2, e4', e5, Outcome.bind_ok, Bool.not_true, Bool.false_eq_true, if_false,
    Outcome.pure_eq, finalPc]
  rw [← hso, f4, f6, f7, f8, f9, e4, e6, e7, e8, e9]

theorem addPoint_guid (w : PcW) (pw : PW) (vs : List Value) (pw' : PW) (w' : PcW)
    (h : w.addPoint pw vs = .ok (pw', w')) : w'.guid = w.guid := by
  obtain ⟨h1, h2, _, _⟩ := addPoint_ok_implies w pw vs pw' w' h
  unfold PcW.addPoint at h
  simp only [h1, h2, ne_eq, not_true_eq_false, if_false, Bool.not_true, Bool.false_eq_true] at h
  obtain ⟨pc, _, h⟩ := Outcome.bind_eq_ok h
  split at h
  · exact (writeBufferToDisk_frame _ _ _ _ _ h).2.2.2.2.1
  · cases h; rfl

theorem addPoints_guid : ∀ (pts : List (List Value)) (pw : PW) (w : PcW) (pw' : PW) (w' : PcW),
    addPoints pts (pw, w) = .ok (pw', w') → w'.guid = w.guid
  | [], pw, w, pw', w', h => by simp only [addPoints] at h; cases h; rfl
  | pt :: pts, pw, w, pw', w', h => by
    simp only [addPoints] at h
    obtain ⟨⟨pw1, w1⟩, e1, h⟩ := Outcome.bind_eq_ok h
    rw [addPoints_guid pts pw1 w1 pw' w' h, addPoint_guid w pw pt pw1 w1 e1]

/-- **session_ok**: for a prototype accepted by `new` (with `i64` bounds and distinct record names) every `add_point` of a fitting point and the final `finalize`
    succeed, and the metadata pushed carries exactly the bounds of Part A and the point count -/
theorem session_ok (pw : PW) (exts : List (String × String)) (guid : String) (proto : Prototype)
    (hpw : pw.Inv) (hi : ProtoI64 proto) (hn : NoDupNames proto)
    (pw0 : PW) (w0 : PcW) (hnew : PcW.new pw exts guid proto = .ok (pw0, w0))
    (pts : List (List Value))
    (hpts : ∀ pt ∈ pts, pt.length = proto.length ∧ checkValues proto pt = true) :
    ∃ pw1 w1 pw2 w2 pc, addPoints pts (pw0, w0) = .ok (pw1, w1) ∧
      w1.finalize pw1 = .ok (pw2, w2, pc) ∧ pw2.Inv ∧
      BoundsExact proto pts pc ∧ pc.records = pts.length ∧ pc.prototype = proto ∧
      pc.guid = some guid := by
  have hg := new_good pw exts guid proto hpw hi hn pw0 w0 hnew
  have hp0 : w0.prototype = proto := (PcW.new_inv pw exts guid proto hpw hi pw0 w0 hnew).2.2.2.1
  obtain ⟨pw1, w1, e1, g1⟩ := addPoints_good pts w0 pw0 hg (by rw [hp0]; exact hpts)
  obtain ⟨pw2, w2, e2, i2⟩ := finalize_good w1 pw1 g1
  obtain ⟨b1, b2, b3⟩ := bounds_exact pw exts guid proto hpw pw0 w0 hnew pts pw1 w1 e1
  have hguid : w1.guid = guid := by
    rw [addPoints_guid pts pw0 w0 pw1 w1 e1]
    obtain ⟨_, _, _, _, cl, _, rfl⟩ := PcW.new_ok pw exts guid proto pw0 w0 hnew
    rfl
  exact ⟨pw1, w1, pw2, w2, finalPc w1, e1, e2, i2, ⟨b1.1, b1.2, b1.3, b1.4, b1.5, b1.6, b1.7, b1.8, b1.9,
    b1.10, b1.11, b1.12, b1.13, b1.14, b1.15, b1.16, b1.17, b1.18, b1.19, b1.20, b1.21⟩, b2, b3, by
      simp [finalPc, hguid]⟩


end E57

/-! ## axiom audit -/
