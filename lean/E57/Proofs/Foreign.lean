/-
C18: content in a foreign XML namespace is invisible to the metadata reader
(E57/Model/Xml.lean, E57/Model/MetaRead.lean, `Reader.open` of E57/Model/Reader.lean).

* `Foreign`            an element of a namespace that is neither empty nor the E57 one, all of whose
                       descendant elements are of that kind too
* `Ins` / `InsStar`    one / any number of insertions of foreign elements (at ANY position among the
                       children of any element outside a prototype: also in front of, or in the middle
                       of, the text of a leaf), comments, PIs, or foreign attributes
* `textOf_insert_nontext`, `textOf_split_text`   `xml::text_of` (all text pieces) does not see them
* `*_ins`              every `from_node` function of the reader is invariant under one insertion
* `C18_foreign_invisible`, `Reader_open_foreign`   the capstones
* `textOf_not_shadowed_by_leading_element` (positive, replaces `textOf_shadowed_by_leading_element`),
  `nonforeign_shadows`   what delimits the property
* `recordNameOf_foreign`, `prototype_insert_foreign_record`    extension records of a prototype

Core Lean only.
-/
import E57.Model.Reader
namespace E57
open XNode
set_option linter.unusedSimpArgs false

/-! ## 1. foreign content -/

/-- a namespace URI that is neither absent, nor empty, nor the E57 namespace -/
def isForeignNs : Option String → Bool
  | some u => u != e57NsUri && u != ""
  | none => false

mutual
/-- every element at or below `n` is in a foreign namespace (text, comments and PIs are harmless) -/
def XNode.isForeign : XNode → Bool
  | .elem ns _ _ _ cs => isForeignNs ns && XNode.isForeignList cs
  | _ => true
def XNode.isForeignList : List XNode → Bool
  | [] => true
  | c :: cs => XNode.isForeign c && XNode.isForeignList cs
end

/-- `n` is an element in a foreign namespace and all elements in its subtree are foreign too -/
def Foreign (n : XNode) : Prop := n.isElement = true ∧ n.isForeign = true

instance (n : XNode) : Decidable (Foreign n) := by unfold Foreign; exact inferInstance

/-- an attribute with a namespace (the reader only ever asks for attributes without one) -/
def ForeignAttr (a : XAttr) : Prop := a.ns.isSome = true

instance (a : XAttr) : Decidable (ForeignAttr a) := by unfold ForeignAttr; exact inferInstance

theorem isForeignNs_iff (ns : Option String) :
    isForeignNs ns = true ↔ ∃ u, ns = some u ∧ u ≠ e57NsUri ∧ u ≠ "" := by
  cases ns <;> simp [isForeignNs]

/-- the shape of a foreign node -/
theorem Foreign.elim {n : XNode} (h : Foreign n) :
    ∃ u p name attrs cs, n = .elem (some u) p name attrs cs ∧ u ≠ e57NsUri ∧ u ≠ "" ∧
      XNode.isForeignList cs = true := by
  obtain ⟨h1, h2⟩ := h
  cases n with
  | elem ns p name attrs cs =>
    simp only [XNode.isForeign, Bool.and_eq_true] at h2
    obtain ⟨u, rfl, hu1, hu2⟩ := (isForeignNs_iff ns).1 h2.1
    exact ⟨u, p, name, attrs, cs, rfl, hu1, hu2, h2.2⟩
  | _ => simp [isElement] at h1

/-- no tag query of the reader matches an element of a foreign namespace, whatever its local name -/
theorem hasTagName_of_foreignNs {ns : Option String} (h : isForeignNs ns = true) (p name attrs cs x) :
    (XNode.elem ns p name attrs cs).hasTagName x = false := by
  obtain ⟨u, rfl, hu1, _⟩ := (isForeignNs_iff ns).1 h
  simp [hasTagName, hu1]

theorem Foreign.hasTagName {f : XNode} (h : Foreign f) (x : String) : f.hasTagName x = false := by
  obtain ⟨u, p, name, attrs, cs, rfl, hu1, _, _⟩ := h.elim
  simp [XNode.hasTagName, hu1]

theorem hasTagName_of_isForeign : ∀ (n : XNode), n.isForeign = true → ∀ x, n.hasTagName x = false
  | .elem ns p name attrs cs, h, x => by
    simp only [XNode.isForeign, Bool.and_eq_true] at h
    exact hasTagName_of_foreignNs h.1 ..
  | .text _, _, _ => rfl
  | .comment, _, _ => rfl
  | .pi, _, _ => rfl

theorem descendantsList_append (l r : List XNode) :
    descendantsList (l ++ r) = descendantsList l ++ descendantsList r := by
  induction l with
  | nil => simp [descendantsList]
  | cons c cs ih => simp [descendantsList, ih]

mutual
/-- nothing at or below a foreign node is ever found by a tag search -/
theorem find_descendants_foreign (x : String) :
    ∀ (n : XNode), n.isForeign = true → n.descendants.find? (fun c => c.hasTagName x) = none
  | .elem ns p name attrs cs, h => by
    have h' := h
    simp only [XNode.isForeign, Bool.and_eq_true] at h'
    rw [descendants, List.find?_cons, hasTagName_of_isForeign _ h x]
    exact find_descendantsList_foreign x cs h'.2
  | .text _, _ => by simp [descendants, hasTagName]
  | .comment, _ => by simp [descendants, hasTagName]
  | .pi, _ => by simp [descendants, hasTagName]
theorem find_descendantsList_foreign (x : String) :
    ∀ (cs : List XNode), XNode.isForeignList cs = true →
      (descendantsList cs).find? (fun c => c.hasTagName x) = none
  | [], _ => by simp [descendantsList]
  | c :: cs, h => by
    simp only [XNode.isForeignList, Bool.and_eq_true] at h
    rw [descendantsList, List.find?_append, find_descendants_foreign x c h.1,
      find_descendantsList_foreign x cs h.2]
    rfl
end

theorem Foreign.find_descendants {f : XNode} (h : Foreign f) (x : String) :
    f.descendants.find? (fun c => c.hasTagName x) = none :=
  find_descendants_foreign x f h.2

/-! ## 2. insertion of foreign content -/

/-- a comment or a processing instruction -/
def XNode.isInert : XNode → Bool
  | .comment => true
  | .pi => true
  | _ => false

/-- `f` is a comment or a processing instruction -/
def Inert (f : XNode) : Prop := f.isInert = true

instance (f : XNode) : Decidable (Inert f) := by unfold Inert; exact inferInstance

/-- `Ins t t'`: `t'` is `t` with one piece of foreign content added somewhere.

* `insElem`: a foreign element `f` is inserted among the children of ANY element, leaf elements included,
  at ANY position — also in front of, or between, the text of a `String` / `Float` / `Integer` leaf —
  except directly into a `prototype` element (there it is a new record: section 7).
  (`xml::text_of` concatenates all text pieces: `textOf_insert_nontext`.  With roxmltree's `text()`, used
  before, the position in front of a leading text node had to be excluded.)
* `insMisc`: a comment or a processing instruction is inserted anywhere, a `prototype` included.
* `splitText`: a text node is cut in two.  Together with `insElem` / `insMisc` this is the insertion of a
  foreign element, a comment or a PI in the MIDDLE of a text (`InsStar.insert_in_text`): the parser then
  reports two text nodes around the inserted node, and their concatenation is the old text.
* `addAttr`: an attribute with a namespace is added to any element, at any position.
* `child`: one of the above happens inside a child.

This is more liberal than "nothing changes at or below a prototype": foreign attributes, and foreign
elements below the record elements of a prototype, are allowed as well.

What cannot be inserted is foreign TEXT: a text node has no namespace, it is part of the content of the
element it stands in (and changes `textOf` of that element). -/
inductive Ins : XNode → XNode → Prop
  | insElem (ns p name attrs) (l : List XNode) (f : XNode) (r : List XNode) :
      (XNode.elem ns p name attrs (l ++ r)).hasTagName "prototype" = false →
      Foreign f →
      Ins (.elem ns p name attrs (l ++ r)) (.elem ns p name attrs (l ++ f :: r))
  | insMisc (ns p name attrs) (l : List XNode) (f : XNode) (r : List XNode) :
      Inert f →
      Ins (.elem ns p name attrs (l ++ r)) (.elem ns p name attrs (l ++ f :: r))
  | splitText (ns p name attrs) (l : List XNode) (a b : String) (r : List XNode) :
      Ins (.elem ns p name attrs (l ++ .text (a ++ b) :: r))
        (.elem ns p name attrs (l ++ .text a :: .text b :: r))
  | addAttr (ns p name) (al : List XAttr) (a : XAttr) (ar : List XAttr) (cs) :
      ForeignAttr a →
      Ins (.elem ns p name (al ++ ar) cs) (.elem ns p name (al ++ a :: ar) cs)
  | child (ns p name attrs) (l : List XNode) (c c' : XNode) (r : List XNode) :
      Ins c c' →
      Ins (.elem ns p name attrs (l ++ c :: r)) (.elem ns p name attrs (l ++ c' :: r))

/-- any number of insertions -/
inductive InsStar : XNode → XNode → Prop
  | refl (t) : InsStar t t
  | step {t u v} : InsStar t u → Ins u v → InsStar t v

theorem InsStar.single {t t'} (h : Ins t t') : InsStar t t' := .step (.refl t) h

theorem InsStar.trans {t u v} (h1 : InsStar t u) (h2 : InsStar u v) : InsStar t v := by
  induction h2 with
  | refl => exact h1
  | step _ h ih => exact .step ih h

/-- a foreign element inserted in the MIDDLE of a text (outside a prototype): two insertion steps -/
theorem InsStar.insert_in_text (ns p name attrs) (l : List XNode) (a b : String) (f : XNode)
    (r : List XNode)
    (hp : (XNode.elem ns p name attrs (l ++ .text (a ++ b) :: r)).hasTagName "prototype" = false)
    (hf : Foreign f) :
    InsStar (.elem ns p name attrs (l ++ .text (a ++ b) :: r))
      (.elem ns p name attrs (l ++ .text a :: f :: .text b :: r)) := by
  refine .step (.single (.splitText ns p name attrs l a b r)) ?_
  have h := Ins.insElem ns p name attrs (l ++ [.text a]) f (.text b :: r) hp hf
  simpa only [List.append_assoc, List.cons_append, List.nil_append] using h

/-- a comment or a PI inserted in the middle of a text, anywhere -/
theorem InsStar.insert_misc_in_text (ns p name attrs) (l : List XNode) (a b : String) (f : XNode)
    (r : List XNode) (hf : Inert f) :
    InsStar (.elem ns p name attrs (l ++ .text (a ++ b) :: r))
      (.elem ns p name attrs (l ++ .text a :: f :: .text b :: r)) := by
  refine .step (.single (.splitText ns p name attrs l a b r)) ?_
  have h := Ins.insMisc ns p name attrs (l ++ [.text a]) f (.text b :: r) hf
  simpa only [List.append_assoc, List.cons_append, List.nil_append] using h

/-- zero or one insertion (what relates the nodes two runs of the reader look at) -/
def InsR (t t' : XNode) : Prop := t = t' ∨ Ins t t'

theorem InsR.refl (t : XNode) : InsR t t := .inl rfl

/-- a function of a node that insertions do not affect lifts to any number of insertions -/
theorem InsStar.invariant {α} {F : XNode → α} (hF : ∀ t t', Ins t t' → F t' = F t)
    {t t'} (h : InsStar t t') : F t' = F t := by
  induction h with
  | refl => rfl
  | step _ h ih => rw [hF _ _ h, ih]

/-! ## 3. local invariance -/

theorem List.find?_insert {α} {p : α → Bool} {f : α} (hf : p f = false) (l r : List α) :
    (l ++ f :: r).find? p = (l ++ r).find? p := by
  simp [List.find?_append, hf]

theorem List.filter_insert {α} {p : α → Bool} {f : α} (hf : p f = false) (l r : List α) :
    (l ++ f :: r).filter p = (l ++ r).filter p := by
  simp [List.filter_append, hf]

section basic
variable {t t' : XNode}

theorem Ins.hasTagName (h : Ins t t') (x : String) : t'.hasTagName x = t.hasTagName x := by
  cases h <;> rfl

theorem Ins.isElement (h : Ins t t') : t'.isElement = t.isElement := by cases h <;> rfl
theorem Ins.tagNs (h : Ins t t') : t'.tagNs = t.tagNs := by cases h <;> rfl
theorem Ins.tagPrefix (h : Ins t t') : t'.tagPrefix = t.tagPrefix := by cases h <;> rfl
theorem Ins.tagLocal (h : Ins t t') : t'.tagLocal = t.tagLocal := by cases h <;> rfl

/-- `attribute("name")` ignores attributes that have a namespace -/
theorem Ins.attr (h : Ins t t') (x : String) : t'.attr x = t.attr x := by
  cases h with
  | insElem => rfl
  | insMisc => rfl
  | splitText => rfl
  | child => rfl
  | addAttr ns p name al a ar cs ha =>
    unfold ForeignAttr at ha
    have : (fun (a : XAttr) => a.ns.isNone && a.name == x) a = false := by
      cases hn : a.ns <;> simp [hn] at ha ⊢
    simp only [XNode.attr]
    rw [List.find?_insert (p := fun (a : XAttr) => a.ns.isNone && a.name == x) (f := a) this al ar]

theorem Ins.isElement_left (h : Ins t t') : t.isElement = true := by cases h <;> rfl
theorem Ins.isElement_right (h : Ins t t') : t'.isElement = true := by cases h <;> rfl

end basic

/-! ### `xml::text_of`: all the text pieces -/

/-- a text node -/
def XNode.isText : XNode → Bool
  | .text _ => true
  | _ => false

theorem isText_of_isElement {c : XNode} (h : c.isElement = true) : c.isText = false := by
  cases c <;> simp_all [XNode.isText, XNode.isElement]

theorem Foreign.not_isText {f : XNode} (h : Foreign f) : f.isText = false := isText_of_isElement h.1

theorem Inert.not_isText {f : XNode} (h : Inert f) : f.isText = false := by
  cases f <;> simp_all [Inert, XNode.isInert, XNode.isText]

theorem Inert.not_isElement {f : XNode} (h : Inert f) : f.isElement = false := by
  cases f <;> simp_all [Inert, XNode.isInert, XNode.isElement]

theorem hasTagName_of_not_isElement {c : XNode} (h : c.isElement = false) (x : String) :
    c.hasTagName x = false := by
  cases c <;> simp_all [XNode.hasTagName, XNode.isElement]

theorem Inert.find_descendants {f : XNode} (h : Inert f) (x : String) :
    f.descendants.find? (fun c => c.hasTagName x) = none := by
  cases f <;> simp_all [Inert, XNode.isInert, descendants, XNode.hasTagName]

/-- the concatenation `xml::text_of` forms of the pieces: `None` if there is no piece -/
def joinPieces : List String → Option String
  | [] => none
  | t :: ts => some (ts.foldl (· ++ ·) t)

theorem textOf_elem (ns p name attrs) (cs : List XNode) :
    (XNode.elem ns p name attrs cs).textOf = joinPieces (textPieces cs) := by
  simp only [XNode.textOf, XNode.children]
  cases textPieces cs <;> rfl

theorem textPieces_cons_nontext {c : XNode} (hc : c.isText = false) (r : List XNode) :
    textPieces (c :: r) = textPieces r := by
  cases c <;> simp_all [textPieces, XNode.isText]

theorem textPieces_append (l r : List XNode) :
    textPieces (l ++ r) = textPieces l ++ textPieces r := by
  induction l with
  | nil => rfl
  | cons c l ih => cases c <;> simp [textPieces, ih]

/-- a node that is not a text node — an element, a comment, a PI — inserted at any position among the
    children does not change the text pieces -/
theorem textPieces_insert_nontext {c : XNode} (hc : c.isText = false) (l r : List XNode) :
    textPieces (l ++ c :: r) = textPieces (l ++ r) := by
  rw [textPieces_append, textPieces_append, textPieces_cons_nontext hc]

/-- **the key fact of the repaired reader**: inserting a non-text node anywhere among the children of an
    element — in front of its text, behind it, between two pieces — does not change `textOf` -/
theorem textOf_insert_nontext (ns p name attrs) {c : XNode} (hc : c.isText = false)
    (l r : List XNode) :
    (XNode.elem ns p name attrs (l ++ c :: r)).textOf = (XNode.elem ns p name attrs (l ++ r)).textOf := by
  rw [textOf_elem, textOf_elem, textPieces_insert_nontext hc]

/-- replacing one non-text child by another one does not change `textOf` either -/
theorem textOf_replace_nontext (ns p name attrs) {c c' : XNode} (hc : c.isText = false)
    (hc' : c'.isText = false) (l r : List XNode) :
    (XNode.elem ns p name attrs (l ++ c' :: r)).textOf =
      (XNode.elem ns p name attrs (l ++ c :: r)).textOf := by
  rw [textOf_insert_nontext _ _ _ _ hc, textOf_insert_nontext _ _ _ _ hc']

theorem joinPieces_split (xs : List String) (a b : String) (ys : List String) :
    joinPieces (xs ++ a :: b :: ys) = joinPieces (xs ++ (a ++ b) :: ys) := by
  cases xs with
  | nil => rfl
  | cons x xs =>
    simp only [List.cons_append, joinPieces, List.foldl_append, List.foldl_cons, String.append_assoc]

/-- a text cut in two (what a node inserted in the middle of a text does to it): the concatenation of
    the pieces is the old text -/
theorem textOf_split_text (ns p name attrs) (l : List XNode) (a b : String) (r : List XNode) :
    (XNode.elem ns p name attrs (l ++ .text a :: .text b :: r)).textOf =
      (XNode.elem ns p name attrs (l ++ .text (a ++ b) :: r)).textOf := by
  simp only [textOf_elem, textPieces_append, textPieces, joinPieces_split]

/-- ... hence a non-text node `c` that splits a text in two leaves `textOf` unchanged -/
theorem textOf_insert_in_text (ns p name attrs) {c : XNode} (hc : c.isText = false)
    (l : List XNode) (a b : String) (r : List XNode) :
    (XNode.elem ns p name attrs (l ++ .text a :: c :: .text b :: r)).textOf =
      (XNode.elem ns p name attrs (l ++ .text (a ++ b) :: r)).textOf := by
  have h := textOf_insert_nontext ns p name attrs hc (l ++ [.text a]) (.text b :: r)
  simp only [List.append_assoc, List.cons_append, List.nil_append] at h
  rw [h, textOf_split_text]

section basic
variable {t t' : XNode}

/-- `xml::text_of` is invariant under every insertion step, at every position -/
theorem Ins.textOf (h : Ins t t') : t'.textOf = t.textOf := by
  cases h with
  | addAttr => rfl
  | insElem ns p name attrs l f r _ hf => exact textOf_insert_nontext ns p name attrs hf.not_isText l r
  | insMisc ns p name attrs l f r hf => exact textOf_insert_nontext ns p name attrs hf.not_isText l r
  | splitText ns p name attrs l a b r => exact textOf_split_text ns p name attrs l a b r
  | child ns p name attrs l c c' r hc =>
    exact textOf_replace_nontext ns p name attrs (isText_of_isElement hc.isElement_left)
      (isText_of_isElement hc.isElement_right) l r

theorem InsR.hasTagName (h : InsR t t') (x : String) : t'.hasTagName x = t.hasTagName x := by
  rcases h with rfl | h; rfl; exact h.hasTagName x
theorem InsR.attr (h : InsR t t') (x : String) : t'.attr x = t.attr x := by
  rcases h with rfl | h; rfl; exact h.attr x
theorem InsR.textOf (h : InsR t t') : t'.textOf = t.textOf := by
  rcases h with rfl | h; rfl; exact h.textOf
theorem InsR.isElement (h : InsR t t') : t'.isElement = t.isElement := by
  rcases h with rfl | h; rfl; exact h.isElement
theorem InsR.tagNs (h : InsR t t') : t'.tagNs = t.tagNs := by
  rcases h with rfl | h; rfl; exact h.tagNs
theorem InsR.tagPrefix (h : InsR t t') : t'.tagPrefix = t.tagPrefix := by
  rcases h with rfl | h; rfl; exact h.tagPrefix
theorem InsR.tagLocal (h : InsR t t') : t'.tagLocal = t.tagLocal := by
  rcases h with rfl | h; rfl; exact h.tagLocal

end basic

/-- the child predicates the reader uses: never true of a foreign element, nor of a text node, a
    comment or a PI; stable under insertion -/
structure StdPred (p : XNode → Bool) : Prop where
  foreign : ∀ f, Foreign f → p f = false
  nonelem : ∀ c, c.isElement = false → p c = false
  ins : ∀ c c', Ins c c' → p c' = p c

theorem StdPred.tag (x : String) : StdPred (fun c => c.hasTagName x) :=
  ⟨fun _ hf => hf.hasTagName x, fun _ hc => hasTagName_of_not_isElement hc x,
   fun _ _ h => h.hasTagName x⟩

theorem StdPred.tagAttr (x a : String) (v : Option String) :
    StdPred (fun n => n.hasTagName x && n.attr a == v) :=
  ⟨fun _ hf => by simp [hf.hasTagName x], fun _ hc => by simp [hasTagName_of_not_isElement hc x],
   fun _ _ h => by simp only [h.hasTagName, h.attr]⟩

theorem StdPred.elemTagAttr (x a : String) (v : Option String) :
    StdPred (fun n => n.isElement && n.hasTagName x && n.attr a == v) :=
  ⟨fun _ hf => by simp [hf.hasTagName x], fun _ hc => by simp [hc],
   fun _ _ h => by simp only [h.hasTagName, h.attr, h.isElement]⟩

/-- `children().find(p)` before and after: nothing twice, or the same child up to an insertion -/
theorem find_children_ins {p : XNode → Bool} (hp : StdPred p) {t t' : XNode} (h : InsR t t') :
    (t.children.find? p = none ∧ t'.children.find? p = none) ∨
    ∃ c c', t.children.find? p = some c ∧ t'.children.find? p = some c' ∧ InsR c c' := by
  have same : ∀ {o o' : Option XNode}, o' = o →
      (o = none ∧ o' = none) ∨ ∃ c c', o = some c ∧ o' = some c' ∧ InsR c c' := by
    intro o o' e; subst e
    cases o' with
    | none => exact .inl ⟨rfl, rfl⟩
    | some c => exact .inr ⟨c, c, rfl, rfl, .refl c⟩
  rcases h with rfl | h
  · exact same rfl
  cases h with
  | addAttr => exact same rfl
  | insElem ns q name attrs l f r _ hf =>
    exact same (List.find?_insert (hp.foreign f hf) l r)
  | insMisc ns q name attrs l f r hf =>
    exact same (List.find?_insert (hp.nonelem f hf.not_isElement) l r)
  | splitText ns q name attrs l a b r =>
    refine same ?_
    simp only [XNode.children, List.find?_append, List.find?_cons, hp.nonelem (.text _) rfl]
  | child ns q name attrs l c c' r hc =>
    simp only [XNode.children, List.find?_append, List.find?_cons, hp.ins c c' hc]
    cases hl : l.find? p with
    | some x => exact .inr ⟨x, x, by simp, by simp, .refl x⟩
    | none =>
      cases hpc : p c with
      | true => exact .inr ⟨c, c', by simp, by simp, .inr hc⟩
      | false => exact same (by simp)

theorem findChild_ins {t t' : XNode} (h : InsR t t') (tag : String) :
    (t.findChild tag = none ∧ t'.findChild tag = none) ∨
    ∃ c c', t.findChild tag = some c ∧ t'.findChild tag = some c' ∧ InsR c c' :=
  find_children_ins (StdPred.tag tag) h

/-- `children().filter(p).map(g)` for any `g` that insertions do not affect; `p` only has to reject
    foreign elements where they may be inserted (outside a `prototype`), and whatever is not an element -/
theorem filter_children_ins_gen {p : XNode → Bool} {t t' : XNode}
    (hins : ∀ c c', Ins c c' → p c' = p c)
    (hfor : t.hasTagName "prototype" = false → ∀ f, Foreign f → p f = false)
    (hne : ∀ c, c.isElement = false → p c = false)
    {β} {g : XNode → β} (hg : ∀ c c', Ins c c' → g c' = g c) (h : InsR t t') :
    (t'.children.filter p).map g = (t.children.filter p).map g := by
  rcases h with rfl | h
  · rfl
  cases h with
  | addAttr => rfl
  | insElem ns q name attrs l f r hproto hf =>
    simp only [XNode.children, List.filter_insert (hfor hproto f hf)]
  | insMisc ns q name attrs l f r hf =>
    simp only [XNode.children, List.filter_insert (hne f hf.not_isElement)]
  | splitText ns q name attrs l a b r =>
    simp only [XNode.children, List.filter_append, List.filter_cons, hne (.text _) rfl,
      Bool.false_eq_true, if_false]
  | child ns q name attrs l c c' r hc =>
    simp only [XNode.children, List.filter_append, List.filter_cons, hins c c' hc]
    cases p c <;> simp [hg c c' hc]

theorem filter_children_ins {p : XNode → Bool} (hp : StdPred p) {β} {g : XNode → β}
    (hg : ∀ c c', Ins c c' → g c' = g c) {t t' : XNode} (h : InsR t t') :
    (t'.children.filter p).map g = (t.children.filter p).map g :=
  filter_children_ins_gen hp.ins (fun _ => hp.foreign) hp.nonelem hg h

/-- `Option`'s `mapM` is "map, then succeed iff all succeed" -/
def seqOpt {α} : List (Option α) → Option (List α)
  | [] => some []
  | x :: xs => do let a ← x; let as ← seqOpt xs; pure (a :: as)

theorem mapM_eq_seqOpt {α β} (g : β → Option α) (l : List β) : l.mapM g = seqOpt (l.map g) := by
  induction l with
  | nil => simp [seqOpt]
  | cons x xs ih => simp [List.mapM_cons, seqOpt, ih]

theorem InsR.lift {α} {F : XNode → α} (hF : ∀ c c', InsR c c' → F c' = F c) :
    ∀ c c', Ins c c' → F c' = F c := fun c c' h => hF c c' (.inr h)

/-- `descendants().find(has_tag_name)`: nothing twice, or the same node up to an insertion -/
theorem findDescendant_ins {t t' : XNode} (h : Ins t t') (tag : String) :
    (t.findDescendant tag = none ∧ t'.findDescendant tag = none) ∨
    ∃ c c', t.findDescendant tag = some c ∧ t'.findDescendant tag = some c' ∧ InsR c c' := by
  have same : ∀ {o o' : Option XNode}, o' = o →
      (o = none ∧ o' = none) ∨ ∃ c c', o = some c ∧ o' = some c' ∧ InsR c c' := by
    intro o o' e; subst e
    cases o' with
    | none => exact .inl ⟨rfl, rfl⟩
    | some c => exact .inr ⟨c, c, rfl, rfl, .refl c⟩
  unfold XNode.findDescendant
  induction h with
  | addAttr ns q name al a ar cs ha =>
    simp only [descendants, List.find?_cons]
    have e : (XNode.elem ns q name (al ++ a :: ar) cs).hasTagName tag =
        (XNode.elem ns q name (al ++ ar) cs).hasTagName tag := rfl
    rw [e]
    cases (XNode.elem ns q name (al ++ ar) cs).hasTagName tag with
    | true => exact .inr ⟨_, _, rfl, rfl, .inr (.addAttr ns q name al a ar cs ha)⟩
    | false => exact same rfl
  | insElem ns q name attrs l f r hproto hf =>
    simp only [descendants, List.find?_cons]
    have e : (XNode.elem ns q name attrs (l ++ f :: r)).hasTagName tag =
        (XNode.elem ns q name attrs (l ++ r)).hasTagName tag := rfl
    rw [e]
    cases (XNode.elem ns q name attrs (l ++ r)).hasTagName tag with
    | true => exact .inr ⟨_, _, rfl, rfl, .inr (.insElem ns q name attrs l f r hproto hf)⟩
    | false =>
      refine same ?_
      simp only [descendantsList_append, descendantsList, List.find?_append, hf.find_descendants tag,
        Option.none_or]
  | insMisc ns q name attrs l f r hf =>
    simp only [descendants, List.find?_cons]
    have e : (XNode.elem ns q name attrs (l ++ f :: r)).hasTagName tag =
        (XNode.elem ns q name attrs (l ++ r)).hasTagName tag := rfl
    rw [e]
    cases (XNode.elem ns q name attrs (l ++ r)).hasTagName tag with
    | true => exact .inr ⟨_, _, rfl, rfl, .inr (.insMisc ns q name attrs l f r hf)⟩
    | false =>
      refine same ?_
      simp only [descendantsList_append, descendantsList, List.find?_append, hf.find_descendants tag,
        Option.none_or]
  | splitText ns q name attrs l a b r =>
    simp only [descendants, List.find?_cons]
    have e : (XNode.elem ns q name attrs (l ++ .text a :: .text b :: r)).hasTagName tag =
        (XNode.elem ns q name attrs (l ++ .text (a ++ b) :: r)).hasTagName tag := rfl
    rw [e]
    cases (XNode.elem ns q name attrs (l ++ .text (a ++ b) :: r)).hasTagName tag with
    | true => exact .inr ⟨_, _, rfl, rfl, .inr (.splitText ns q name attrs l a b r)⟩
    | false =>
      refine same ?_
      simp [descendantsList_append, descendantsList, descendants, List.find?_append, List.find?_cons,
        XNode.hasTagName]
  | child ns q name attrs l c c' r hc ih =>
    simp only [descendants, List.find?_cons]
    have e : (XNode.elem ns q name attrs (l ++ c' :: r)).hasTagName tag =
        (XNode.elem ns q name attrs (l ++ c :: r)).hasTagName tag := rfl
    rw [e]
    cases (XNode.elem ns q name attrs (l ++ c :: r)).hasTagName tag with
    | true => exact .inr ⟨_, _, rfl, rfl, .inr (.child ns q name attrs l c c' r hc)⟩
    | false =>
      simp only [descendantsList_append, descendantsList, List.find?_append]
      cases hl : (descendantsList l).find? (fun c => c.hasTagName tag) with
      | some x => exact .inr ⟨x, x, by simp, by simp, .refl x⟩
      | none =>
        rcases ih with ⟨h1, h2⟩ | ⟨d, d', h1, h2, hr⟩
        · exact same (by simp [h1, h2])
        · exact .inr ⟨d, d', by simp [h1], by simp [h2], hr⟩

theorem findDescendant_insR {t t' : XNode} (h : InsR t t') (tag : String) :
    (t.findDescendant tag = none ∧ t'.findDescendant tag = none) ∨
    ∃ c c', t.findDescendant tag = some c ∧ t'.findDescendant tag = some c' ∧ InsR c c' := by
  rcases h with rfl | h
  · cases hd : t.findDescendant tag with
    | none => exact .inl ⟨rfl, rfl⟩
    | some c => exact .inr ⟨c, c, rfl, rfl, .refl c⟩
  · exact findDescendant_ins h tag

/-! ### the same facts for one concrete insertion, stated directly -/

theorem findChild_insert_foreign (ns p name attrs) (l r : List XNode) {f : XNode} (hf : Foreign f)
    (x : String) :
    (XNode.elem ns p name attrs (l ++ f :: r)).findChild x =
      (XNode.elem ns p name attrs (l ++ r)).findChild x :=
  List.find?_insert (p := fun (c : XNode) => c.hasTagName x) (f := f) (hf.hasTagName x) l r

theorem find_tagAttr_insert_foreign (l r : List XNode) {f : XNode} (hf : Foreign f)
    (x a : String) (v : Option String) :
    (l ++ f :: r).find? (fun n => n.hasTagName x && n.attr a == v) =
      (l ++ r).find? (fun n => n.hasTagName x && n.attr a == v) :=
  List.find?_insert (p := fun n => n.hasTagName x && n.attr a == v)
    ((StdPred.tagAttr x a v).foreign f hf) l r

theorem vectorChildren_insert_foreign (ns p name attrs) (l r : List XNode) {f : XNode}
    (hf : Foreign f) :
    vectorChildren (.elem ns p name attrs (l ++ f :: r)) =
      vectorChildren (.elem ns p name attrs (l ++ r)) :=
  List.filter_insert
    (p := fun (n : XNode) => n.hasTagName "vectorChild" && n.attr "type" == some "Structure") (f := f)
    ((StdPred.tagAttr "vectorChild" "type" (some "Structure")).foreign f hf) l r

theorem originalGuids_filter_insert_foreign (l r : List XNode) {f : XNode} (hf : Foreign f) :
    (l ++ f :: r).filter (fun n => n.isElement && n.hasTagName "vectorChild" &&
        n.attr "type" == some "String") =
      (l ++ r).filter (fun n => n.isElement && n.hasTagName "vectorChild" &&
        n.attr "type" == some "String") :=
  List.filter_insert (p := fun n => n.isElement && n.hasTagName "vectorChild" &&
      n.attr "type" == some "String")
    ((StdPred.elemTagAttr "vectorChild" "type" (some "String")).foreign f hf) l r

theorem attr_add_foreign (ns p name) (al ar : List XAttr) {a : XAttr} (ha : ForeignAttr a) (cs)
    (x : String) :
    (XNode.elem ns p name (al ++ a :: ar) cs).attr x = (XNode.elem ns p name (al ++ ar) cs).attr x :=
  (Ins.addAttr ns p name al a ar cs ha).attr x

/-- a foreign subtree inserted anywhere among the children: `descendants().find(tag)` is unchanged
    as long as the parent itself is not the match (then it is the parent, before and after) -/
theorem descendants_find_insert_foreign (l r : List XNode) {f : XNode}
    (hf : Foreign f) (x : String) :
    (descendantsList (l ++ f :: r)).find? (fun c => c.hasTagName x) =
      (descendantsList (l ++ r)).find? (fun c => c.hasTagName x) := by
  simp only [descendantsList_append, descendantsList, List.find?_append, hf.find_descendants x,
    Option.none_or]

/-! ## 4. every reader function is invariant under an insertion -/

section readers
variable {t t' : XNode}

/-- the "find child, check `type`" prelude: same verdict, and the same child up to an insertion -/
theorem typedChild_ins (h : InsR t t') (tag e : String) :
    (typedChild t tag e = none ∧ typedChild t' tag e = none) ∨
    (typedChild t tag e = some none ∧ typedChild t' tag e = some none) ∨
    ∃ c c', typedChild t tag e = some (some c) ∧ typedChild t' tag e = some (some c') ∧
      InsR c c' := by
  unfold typedChild
  rcases findChild_ins h tag with ⟨h1, h2⟩ | ⟨c, c', h1, h2, hr⟩
  · simp [h1, h2]
  · simp only [h1, h2, hr.attr]
    cases c.attr "type" with
    | none => simp
    | some ty =>
      by_cases hty : (ty == e) = true
      · simp only [hty, if_true]; exact .inr (.inr ⟨c, c', rfl, rfl, hr⟩)
      · simp [hty]

theorem optString_ins (h : InsR t t') (tag : String) : optString t' tag = optString t tag := by
  unfold optString
  rcases typedChild_ins h tag "String" with ⟨h1, h2⟩ | ⟨h1, h2⟩ | ⟨c, c', h1, h2, hr⟩
  · simp only [Option.bind_eq_bind, Option.bind_some, Option.bind_none, h1, h2]
  · simp only [Option.bind_eq_bind, Option.bind_some, Option.bind_none, h1, h2]
  · simp only [Option.bind_eq_bind, Option.bind_some, Option.bind_none, h1, h2, hr.textOf]

theorem reqString_ins (h : InsR t t') (tag : String) : reqString t' tag = reqString t tag := by
  unfold reqString; rw [optString_ins h]

theorem optF64_ins (fp : FloatParse) (h : InsR t t') (tag : String) :
    optF64 fp t' tag = optF64 fp t tag := by
  unfold optF64
  rcases typedChild_ins h tag "Float" with ⟨h1, h2⟩ | ⟨h1, h2⟩ | ⟨c, c', h1, h2, hr⟩
  · simp only [Option.bind_eq_bind, Option.bind_some, Option.bind_none, h1, h2]
  · simp only [Option.bind_eq_bind, Option.bind_some, Option.bind_none, h1, h2]
  · simp only [Option.bind_eq_bind, Option.bind_some, Option.bind_none, h1, h2, hr.textOf]

theorem reqF64_ins (fp : FloatParse) (h : InsR t t') (tag : String) :
    reqF64 fp t' tag = reqF64 fp t tag := by
  unfold reqF64; rw [optF64_ins fp h]

theorem optI64_ins (h : InsR t t') (tag : String) : optI64 t' tag = optI64 t tag := by
  unfold optI64
  rcases typedChild_ins h tag "Integer" with ⟨h1, h2⟩ | ⟨h1, h2⟩ | ⟨c, c', h1, h2, hr⟩
  · simp only [Option.bind_eq_bind, Option.bind_some, Option.bind_none, h1, h2]
  · simp only [Option.bind_eq_bind, Option.bind_some, Option.bind_none, h1, h2]
  · simp only [Option.bind_eq_bind, Option.bind_some, Option.bind_none, h1, h2, hr.textOf]

theorem reqI64_ins (h : InsR t t') (tag : String) : reqI64 t' tag = reqI64 t tag := by
  unfold reqI64; rw [optI64_ins h]

theorem reqU32_ins (h : InsR t t') (tag : String) : reqU32 t' tag = reqU32 t tag := by
  unfold reqU32
  rcases typedChild_ins h tag "Integer" with ⟨h1, h2⟩ | ⟨h1, h2⟩ | ⟨c, c', h1, h2, hr⟩
  · simp only [Option.bind_eq_bind, Option.bind_some, Option.bind_none, h1, h2]
  · simp only [Option.bind_eq_bind, Option.bind_some, Option.bind_none, h1, h2]
  · simp only [Option.bind_eq_bind, Option.bind_some, Option.bind_none, h1, h2, hr.textOf]

theorem DateTime_fromNode_ins (fp : FloatParse) (h : InsR t t') :
    DateTime.fromNode fp t' = DateTime.fromNode fp t := by
  unfold DateTime.fromNode
  rcases find_children_ins (StdPred.tagAttr "dateTimeValue" "type" (some "Float")) h with
    ⟨h1, h2⟩ | ⟨c, c', h1, h2, hr⟩
  · simp only [Option.bind_eq_bind, Option.bind_some, Option.bind_none, h1, h2]
  · rcases find_children_ins (StdPred.tagAttr "isAtomicClockReferenced" "type" (some "Integer")) h with
      ⟨h3, h4⟩ | ⟨a, a', h3, h4, hra⟩
    · simp only [Option.bind_eq_bind, Option.bind_some, Option.bind_none, h1, h2, h3, h4, hr.textOf]
    · simp only [Option.bind_eq_bind, Option.bind_some, Option.bind_none, h1, h2, h3, h4, hr.textOf, hra.textOf]

theorem optDateTime_ins (fp : FloatParse) (h : InsR t t') (tag : String) :
    optDateTime fp t' tag = optDateTime fp t tag := by
  unfold optDateTime
  rcases typedChild_ins h tag "Structure" with ⟨h1, h2⟩ | ⟨h1, h2⟩ | ⟨c, c', h1, h2, hr⟩
  · simp only [Option.bind_eq_bind, Option.bind_some, Option.bind_none, h1, h2]
  · simp only [Option.bind_eq_bind, Option.bind_some, Option.bind_none, h1, h2]
  · simp only [Option.bind_eq_bind, Option.bind_some, Option.bind_none, h1, h2, DateTime_fromNode_ins fp hr]

theorem Transform_fromNode_ins (fp : FloatParse) (h : InsR t t') :
    Transform.fromNode fp t' = Transform.fromNode fp t := by
  unfold Transform.fromNode
  rcases findChild_ins h "translation" with ⟨h1, h2⟩ | ⟨c, c', h1, h2, hr⟩ <;>
  rcases findChild_ins h "rotation" with ⟨h3, h4⟩ | ⟨d, d', h3, h4, hrd⟩
  · simp only [Option.bind_eq_bind, Option.bind_some, Option.bind_none, h1, h2, h3, h4]
  · simp only [Option.bind_eq_bind, Option.bind_some, Option.bind_none, h1, h2, h3, h4, reqF64_ins fp hrd]
  · simp only [Option.bind_eq_bind, Option.bind_some, Option.bind_none, h1, h2, h3, h4, reqF64_ins fp hr]
  · simp only [Option.bind_eq_bind, Option.bind_some, Option.bind_none, h1, h2, h3, h4, reqF64_ins fp hr, reqF64_ins fp hrd]

theorem optTransform_ins (fp : FloatParse) (h : InsR t t') (tag : String) :
    optTransform fp t' tag = optTransform fp t tag := by
  unfold optTransform
  rcases findChild_ins h tag with ⟨h1, h2⟩ | ⟨c, c', h1, h2, hr⟩
  · simp only [Option.bind_eq_bind, Option.bind_some, Option.bind_none, h1, h2]
  · simp only [Option.bind_eq_bind, Option.bind_some, Option.bind_none, h1, h2, Transform_fromNode_ins fp hr]

/-- `optNode parent tag f` for any `f` that insertions do not affect -/
theorem optNode_ins {α} {f : XNode → Option α} (hf : ∀ c c', InsR c c' → f c' = f c)
    (h : InsR t t') (tag : String) : optNode t' tag f = optNode t tag f := by
  unfold optNode
  rcases findChild_ins h tag with ⟨h1, h2⟩ | ⟨c, c', h1, h2, hr⟩
  · simp only [Option.bind_eq_bind, Option.bind_some, Option.bind_none, h1, h2]
  · simp only [Option.bind_eq_bind, Option.bind_some, Option.bind_none, h1, h2, hf c c' hr]

theorem optAttr_ins {α} (parse : String → Option α) (h : InsR t t') (name : String) :
    optAttr parse t' name = optAttr parse t name := by
  unfold optAttr; rw [h.attr]

/-- the data type of a prototype entry only depends on attributes without namespace -/
theorem DataType_fromNode_ins (fp : FloatParse) (h : InsR t t') :
    DataType.fromNode fp t' = DataType.fromNode fp t := by
  unfold DataType.fromNode
  simp only [h.attr, optAttr_ins _ h]

theorem recordNameOf_ins (h : InsR t t') : recordNameOf t' = recordNameOf t := by
  unfold recordNameOf
  simp only [h.tagNs, h.tagPrefix, h.tagLocal]

/-- the prototype: entries are the element children; their name comes from the tag and their type
    from attributes without namespace.  (No foreign element may be inserted directly into it.) -/
theorem prototypeFromNode_ins (fp : FloatParse) (h : InsR t t')
    (hp : t.hasTagName "prototype" = true) : prototypeFromNode fp t' = prototypeFromNode fp t := by
  unfold prototypeFromNode
  rw [mapM_eq_seqOpt, mapM_eq_seqOpt]
  refine congrArg seqOpt (filter_children_ins_gen (fun c c' hc => hc.isElement) ?_ (fun _ hc => hc) ?_ h)
  · intro hn; rw [hp] at hn; cases hn
  · intro c c' hc
    simp only [DataType_fromNode_ins fp (.inr hc), recordNameOf_ins (.inr hc)]

theorem extractLimit_ins (fp : FloatParse) (h : InsR t t') (tag : String) :
    extractLimit fp t' tag = extractLimit fp t tag := by
  unfold extractLimit
  rcases findDescendant_insR h tag with ⟨h1, h2⟩ | ⟨c, c', h1, h2, hr⟩
  · simp only [h1, h2]
  · simp only [h1, h2, hr.attr, hr.textOf]

theorem IntensityLimits_fromNode_ins (fp : FloatParse) (h : InsR t t') :
    IntensityLimits.fromNode fp t' = IntensityLimits.fromNode fp t := by
  unfold IntensityLimits.fromNode; simp only [extractLimit_ins fp h]

theorem ColorLimits_fromNode_ins (fp : FloatParse) (h : InsR t t') :
    ColorLimits.fromNode fp t' = ColorLimits.fromNode fp t := by
  unfold ColorLimits.fromNode; simp only [extractLimit_ins fp h]

theorem CartesianBounds_fromNode_ins (fp : FloatParse) (h : InsR t t') :
    CartesianBounds.fromNode fp t' = CartesianBounds.fromNode fp t := by
  unfold CartesianBounds.fromNode; simp only [optF64_ins fp h]

theorem SphericalBounds_fromNode_ins (fp : FloatParse) (h : InsR t t') :
    SphericalBounds.fromNode fp t' = SphericalBounds.fromNode fp t := by
  unfold SphericalBounds.fromNode; simp only [optF64_ins fp h]

theorem IndexBounds_fromNode_ins (h : InsR t t') :
    IndexBounds.fromNode t' = IndexBounds.fromNode t := by
  unfold IndexBounds.fromNode; simp only [optI64_ins h]

theorem BlobRef_fromNode_ins (h : InsR t t') : BlobRef.fromNode t' = BlobRef.fromNode t := by
  unfold BlobRef.fromNode; simp only [h.attr]

theorem ImageBlob_fromRepNode_ins (h : InsR t t') :
    ImageBlob.fromRepNode t' = ImageBlob.fromRepNode t := by
  unfold ImageBlob.fromRepNode
  rcases findChild_ins h "jpegImage" with ⟨h1, h2⟩ | ⟨c, c', h1, h2, hr⟩
  · rcases findChild_ins h "pngImage" with ⟨h3, h4⟩ | ⟨d, d', h3, h4, hrd⟩
    · simp only [h1, h2, h3, h4]
    · simp only [h1, h2, h3, h4, BlobRef_fromNode_ins hrd]
  · simp only [h1, h2, BlobRef_fromNode_ins hr]

theorem maskOf_ins (h : InsR t t') : maskOf t' = maskOf t := by
  unfold maskOf; exact optNode_ins (fun _ _ hr => BlobRef_fromNode_ins hr) h _

theorem VisualRef_fromNode_ins (h : InsR t t') : VisualRef.fromNode t' = VisualRef.fromNode t := by
  unfold VisualRef.fromNode
  simp only [ImageBlob_fromRepNode_ins h, maskOf_ins h, reqU32_ins h]

theorem Pinhole_fromNode_ins (fp : FloatParse) (h : InsR t t') :
    Pinhole.fromNode fp t' = Pinhole.fromNode fp t := by
  unfold Pinhole.fromNode
  simp only [ImageBlob_fromRepNode_ins h, maskOf_ins h, reqU32_ins h, reqF64_ins fp h]

theorem SphericalImg_fromNode_ins (fp : FloatParse) (h : InsR t t') :
    SphericalImg.fromNode fp t' = SphericalImg.fromNode fp t := by
  unfold SphericalImg.fromNode
  simp only [ImageBlob_fromRepNode_ins h, maskOf_ins h, reqU32_ins h, optF64_ins fp h]

theorem Cylindrical_fromNode_ins (fp : FloatParse) (h : InsR t t') :
    Cylindrical.fromNode fp t' = Cylindrical.fromNode fp t := by
  unfold Cylindrical.fromNode
  simp only [ImageBlob_fromRepNode_ins h, maskOf_ins h, reqU32_ins h, reqF64_ins fp h]

theorem Projection_fromImageNode_ins (fp : FloatParse) (h : InsR t t') :
    Projection.fromImageNode fp t' = Projection.fromImageNode fp t := by
  unfold Projection.fromImageNode
  rcases findChild_ins h "pinholeRepresentation" with ⟨h1, h2⟩ | ⟨c, c', h1, h2, hr⟩
  · rcases findChild_ins h "sphericalRepresentation" with ⟨h3, h4⟩ | ⟨d, d', h3, h4, hrd⟩
    · rcases findChild_ins h "cylindricalRepresentation" with ⟨h5, h6⟩ | ⟨e, e', h5, h6, hre⟩
      · simp only [h1, h2, h3, h4, h5, h6]
      · simp only [h1, h2, h3, h4, h5, h6, Cylindrical_fromNode_ins fp hre]
    · simp only [h1, h2, h3, h4, SphericalImg_fromNode_ins fp hrd]
  · simp only [h1, h2, Pinhole_fromNode_ins fp hr]

theorem Image_fromNode_ins (fp : FloatParse) (h : InsR t t') :
    Image.fromNode fp t' = Image.fromNode fp t := by
  unfold Image.fromNode
  simp only [optString_ins h, optTransform_ins fp h, optDateTime_ins fp h,
    Projection_fromImageNode_ins fp h,
    optNode_ins (f := VisualRef.fromNode) (fun _ _ hr => VisualRef_fromNode_ins hr) h]

/-- the `originalGuids` list -/
theorem originalGuids_ins (h : InsR t t') :
    (t'.findChild "originalGuids").map (fun og =>
      (og.children.filter (fun n => n.isElement && n.hasTagName "vectorChild" &&
        n.attr "type" == some "String")).map (fun n => (n.textOf).getD "")) =
    (t.findChild "originalGuids").map (fun og =>
      (og.children.filter (fun n => n.isElement && n.hasTagName "vectorChild" &&
        n.attr "type" == some "String")).map (fun n => (n.textOf).getD "")) := by
  rcases findChild_ins h "originalGuids" with ⟨h1, h2⟩ | ⟨c, c', h1, h2, hr⟩
  · simp only [h1, h2]
  · simp only [h1, h2, Option.map_some]
    exact congrArg some (filter_children_ins (StdPred.elemTagAttr "vectorChild" "type" (some "String"))
      (fun a a' ha => by simp only [ha.textOf]) hr)

theorem PointCloud_fromNode_ins (fp : FloatParse) (h : InsR t t') :
    PointCloud.fromNode fp t' = PointCloud.fromNode fp t := by
  unfold PointCloud.fromNode
  simp only [optString_ins h, optF64_ins fp h, optDateTime_ins fp h, optTransform_ins fp h,
    originalGuids_ins h,
    optNode_ins (f := CartesianBounds.fromNode fp) (fun _ _ hr => CartesianBounds_fromNode_ins fp hr) h,
    optNode_ins (f := SphericalBounds.fromNode fp) (fun _ _ hr => SphericalBounds_fromNode_ins fp hr) h,
    optNode_ins (f := IndexBounds.fromNode) (fun _ _ hr => IndexBounds_fromNode_ins hr) h,
    optNode_ins (f := IntensityLimits.fromNode fp) (fun _ _ hr => IntensityLimits_fromNode_ins fp hr) h,
    optNode_ins (f := ColorLimits.fromNode fp) (fun _ _ hr => ColorLimits_fromNode_ins fp hr) h]
  rcases find_children_ins (StdPred.tagAttr "points" "type" (some "CompressedVector")) h with
    ⟨h1, h2⟩ | ⟨pts, pts', h1, h2, hr⟩
  · simp only [h1, h2]
  · rcases find_children_ins (StdPred.tagAttr "prototype" "type" (some "Structure")) hr with
      ⟨h3, h4⟩ | ⟨pr, pr', h3, h4, hrp⟩
    · simp only [Option.bind_eq_bind, Option.bind_some, Option.bind_none, h1, h2, h3, h4, hr.attr]
    · have hpr : pr.hasTagName "prototype" = true := by
        have := List.find?_some h3
        simp only [Bool.and_eq_true] at this
        exact this.1
      simp only [Option.bind_eq_bind, Option.bind_some, h1, h2, h3, h4, hr.attr,
        prototypeFromNode_ins fp hrp hpr]

end readers

/-! ## 5. documents; the capstone -/

/-- `vec_from_document`: the `vectorChild` structures of the container, read by an invariant `F` -/
theorem vectorChildren_mapM_ins {α} {F : XNode → Option α}
    (hF : ∀ c c', InsR c c' → F c' = F c) {c c' : XNode} (h : InsR c c') :
    (vectorChildren c').mapM F = (vectorChildren c).mapM F := by
  unfold vectorChildren
  rw [mapM_eq_seqOpt, mapM_eq_seqOpt]
  exact congrArg seqOpt
    (filter_children_ins (StdPred.tagAttr "vectorChild" "type" (some "Structure")) (InsR.lift hF) h)

theorem pointcloudsFromDocument_ins (fp : FloatParse) {d d' : XDoc} (h : InsR d.root d'.root) :
    pointcloudsFromDocument fp d' = pointcloudsFromDocument fp d := by
  unfold pointcloudsFromDocument XDoc.findDescendant
  rcases findDescendant_insR h "data3D" with ⟨h1, h2⟩ | ⟨c, c', h1, h2, hr⟩
  · simp only [h1, h2]
  · simp only [h1, h2]
    exact vectorChildren_mapM_ins (fun _ _ hc => PointCloud_fromNode_ins fp hc) hr

theorem imagesFromDocument_ins (fp : FloatParse) {d d' : XDoc} (h : InsR d.root d'.root) :
    imagesFromDocument fp d' = imagesFromDocument fp d := by
  unfold imagesFromDocument XDoc.findDescendant
  rcases findDescendant_insR h "images2D" with ⟨h1, h2⟩ | ⟨c, c', h1, h2, hr⟩
  · simp only [h1, h2]
  · simp only [h1, h2]
    exact vectorChildren_mapM_ins (fun _ _ hc => Image_fromNode_ins fp hc) hr

theorem rootFromDocument_ins (fp : FloatParse) {d d' : XDoc} (h : InsR d.root d'.root) :
    rootFromDocument fp d' = rootFromDocument fp d := by
  unfold rootFromDocument XDoc.findDescendant
  rcases findDescendant_insR h "e57Root" with ⟨h1, h2⟩ | ⟨c, c', h1, h2, hr⟩
  · simp only [h1, h2]
  · simp only [Option.bind_eq_bind, Option.bind_some, h1, h2, reqString_ins hr, reqI64_ins hr,
      optDateTime_ins fp hr, optString_ins hr]

/-- `Extension::vec_from_document` only looks at the namespace declarations of the root -/
theorem extensionsFromDocument_congr {d d' : XDoc} (h : d'.rootNamespaces = d.rootNamespaces) :
    extensionsFromDocument d' = extensionsFromDocument d := by
  unfold extensionsFromDocument; rw [h]

/-- declaring one more prefixed namespace adds exactly that one extension, in place -/
theorem extensionsFromDocument_add_ns (root root' : XNode) (l r : List (Option String × String))
    (pfx uri : String) (hu : uri ≠ e57Namespace) :
    extensionsFromDocument ⟨root', l ++ (some pfx, uri) :: r⟩ =
      extensionsFromDocument ⟨root, l⟩ ++ (pfx, uri) :: extensionsFromDocument ⟨root, r⟩ := by
  simp [extensionsFromDocument, List.filterMap_append, List.filterMap_cons, hu]

/-- a default-namespace declaration, or a second prefix for the E57 namespace, adds none -/
theorem extensionsFromDocument_add_silent (root root' : XNode) (l r : List (Option String × String))
    (pfx : Option String) (uri : String) (hu : pfx = none ∨ uri = e57Namespace) :
    extensionsFromDocument ⟨root', l ++ (pfx, uri) :: r⟩ =
      extensionsFromDocument ⟨root, l⟩ ++ extensionsFromDocument ⟨root, r⟩ := by
  rcases hu with rfl | rfl <;>
    simp [extensionsFromDocument, List.filterMap_append, List.filterMap_cons]

/-- **C18.**  If the root of `d'` is the root of `d` with any number of foreign elements, comments, PIs
    and foreign attributes inserted — foreign elements at ANY position among the children of ANY element,
    leaf elements included (in front of, behind, or in the middle of their text), only not directly inside
    a `prototype` — the reader reports the same file, point cloud and image metadata. -/
theorem C18_foreign_invisible (fp : FloatParse) (d d' : XDoc) (h : InsStar d.root d'.root) :
    rootFromDocument fp d' = rootFromDocument fp d ∧
    pointcloudsFromDocument fp d' = pointcloudsFromDocument fp d ∧
    imagesFromDocument fp d' = imagesFromDocument fp d := by
  refine ⟨?_, ?_, ?_⟩
  · exact InsStar.invariant (F := fun r => rootFromDocument fp ⟨r, []⟩)
      (fun t t' ht => rootFromDocument_ins fp (d := ⟨t, []⟩) (d' := ⟨t', []⟩) (.inr ht)) h
  · exact InsStar.invariant (F := fun r => pointcloudsFromDocument fp ⟨r, []⟩)
      (fun t t' ht => pointcloudsFromDocument_ins fp (d := ⟨t, []⟩) (d' := ⟨t', []⟩) (.inr ht)) h
  · exact InsStar.invariant (F := fun r => imagesFromDocument fp ⟨r, []⟩)
      (fun t t' ht => imagesFromDocument_ins fp (d := ⟨t, []⟩) (d' := ⟨t', []⟩) (.inr ht)) h

/-- with the same namespace declarations on the root the extension list agrees as well -/
theorem C18_foreign_invisible_ext (fp : FloatParse) (d d' : XDoc) (h : InsStar d.root d'.root)
    (hns : d'.rootNamespaces = d.rootNamespaces) :
    rootFromDocument fp d' = rootFromDocument fp d ∧
    pointcloudsFromDocument fp d' = pointcloudsFromDocument fp d ∧
    imagesFromDocument fp d' = imagesFromDocument fp d ∧
    extensionsFromDocument d' = extensionsFromDocument d :=
  let ⟨a, b, c⟩ := C18_foreign_invisible fp d d' h
  ⟨a, b, c, extensionsFromDocument_congr hns⟩

/-- the node-level readers under any number of insertions -/
theorem PointCloud_fromNode_insStar (fp : FloatParse) {t t' : XNode} (h : InsStar t t') :
    PointCloud.fromNode fp t' = PointCloud.fromNode fp t :=
  InsStar.invariant (fun _ _ ht => PointCloud_fromNode_ins fp (.inr ht)) h

theorem Image_fromNode_insStar (fp : FloatParse) {t t' : XNode} (h : InsStar t t') :
    Image.fromNode fp t' = Image.fromNode fp t :=
  InsStar.invariant (fun _ _ ht => Image_fromNode_ins fp (.inr ht)) h

/-! ### the reader as a whole -/

/-- what `E57Reader::new` got from the XML -/
theorem Reader.open_xml_spec (file : Bytes) (xo : XmlOracle) (fp : FloatParse) (rd : Reader)
    (h : Reader.open file xo fp = some rd) :
    ∃ doc, xo rd.xml = some doc ∧ rootFromDocument fp doc = some rd.root ∧
      pointcloudsFromDocument fp doc = some rd.pcs ∧ imagesFromDocument fp doc = some rd.imgs ∧
      rd.exts = extensionsFromDocument doc := by
  unfold Reader.open at h
  simp only [Option.bind_eq_bind, Option.bind_eq_some_iff, Option.pure_def, Option.some.injEq] at h
  obtain ⟨header, _, pr, _, pr0, _, ⟨pr1, xml⟩, _, doc, hd, root, hr, pcs, hp, imgs, hi, e⟩ := h
  subst e
  exact ⟨doc, hd, hr, hp, hi, rfl⟩

/-- two XML front ends whose documents differ by foreign insertions only -/
def OracleRel (xo xo' : XmlOracle) : Prop :=
  ∀ b, (xo b = none ∧ xo' b = none) ∨
    ∃ d d', xo b = some d ∧ xo' b = some d' ∧ InsStar d.root d'.root ∧
      d'.rootNamespaces = d.rootNamespaces

/-- same file, XML trees that differ by foreign insertions: the very same reader -/
theorem Reader_open_foreign (file : Bytes) (fp : FloatParse) (xo xo' : XmlOracle)
    (hx : OracleRel xo xo') : Reader.open file xo' fp = Reader.open file xo fp := by
  unfold Reader.open
  cases FileHeader.read file with
  | none => rfl
  | some header =>
    simp only [Option.bind_eq_bind, Option.bind_some]
    cases (PR.new ⟨file, 48⟩ header.pageSize).toOption with
    | none => rfl
    | some pr0 =>
      simp only [Option.bind_some]
      cases checkHeaderPage pr0 with
      | none => rfl
      | some pr =>
      simp only [Option.bind_some]
      cases extractXml pr header.xmlOffset header.xmlLength with
      | none => rfl
      | some px =>
        obtain ⟨pr2, xml⟩ := px
        simp only [Option.bind_some]
        rcases hx xml with ⟨h1, h2⟩ | ⟨d, d', h1, h2, hs, hns⟩
        · simp only [h1, h2]
        · obtain ⟨e1, e2, e3, e4⟩ := C18_foreign_invisible_ext fp d d' hs hns
          simp only [h1, h2, Option.bind_some, e1, e2, e3, e4]

/-- two files (the XML sections necessarily differ) whose trees differ by foreign insertions:
    equal file, point cloud and image metadata; points and blobs are then read from the same
    offsets with the same prototypes -/
theorem Reader_open_foreign_files (file file' : Bytes) (fp : FloatParse) (xo xo' : XmlOracle)
    (rd rd' : Reader) (h : Reader.open file xo fp = some rd) (h' : Reader.open file' xo' fp = some rd')
    (hx : ∀ d d', xo rd.xml = some d → xo' rd'.xml = some d' → InsStar d.root d'.root) :
    rd'.root = rd.root ∧ rd'.pcs = rd.pcs ∧ rd'.imgs = rd.imgs := by
  obtain ⟨d, hd, a1, a2, a3, _⟩ := Reader.open_xml_spec file xo fp rd h
  obtain ⟨d', hd', b1, b2, b3, _⟩ := Reader.open_xml_spec file' xo' fp rd' h'
  obtain ⟨e1, e2, e3⟩ := C18_foreign_invisible fp d d' (hx d d' hd hd')
  rw [e1, a1] at b1; rw [e2, a2] at b2; rw [e3, a3] at b3
  exact ⟨(Option.some.inj b1).symm, (Option.some.inj b2).symm, (Option.some.inj b3).symm⟩

/-- points and blobs: the queue reader of every point cloud and every blob read start from the same
    state, so they deliver the same values -/
theorem points_and_blobs_unchanged (file : Bytes) (fp : FloatParse) (xo xo' : XmlOracle)
    (hx : OracleRel xo xo') (rd rd' : Reader)
    (h : Reader.open file xo fp = some rd) (h' : Reader.open file xo' fp = some rd') :
    rd'.pcs = rd.pcs ∧ rd'.imgs = rd.imgs ∧
    (∀ pc, QR.new pc rd'.pr = QR.new pc rd.pr) ∧ (∀ b, blobRead rd'.pr b = blobRead rd.pr b) := by
  rw [Reader_open_foreign file fp xo xo' hx, h] at h'
  cases h'
  exact ⟨rfl, rfl, fun _ => rfl, fun _ => rfl⟩

/-! ### the relation asked for in the property is a special case

`InsStrict`: nothing changes at or below an element called `prototype`. -/

inductive InsStrict : XNode → XNode → Prop
  | insElem (ns p name attrs) (l : List XNode) (f : XNode) (r : List XNode) :
      (XNode.elem ns p name attrs (l ++ r)).hasTagName "prototype" = false →
      Foreign f →
      InsStrict (.elem ns p name attrs (l ++ r)) (.elem ns p name attrs (l ++ f :: r))
  | insMisc (ns p name attrs) (l : List XNode) (f : XNode) (r : List XNode) :
      (XNode.elem ns p name attrs (l ++ r)).hasTagName "prototype" = false →
      Inert f →
      InsStrict (.elem ns p name attrs (l ++ r)) (.elem ns p name attrs (l ++ f :: r))
  | splitText (ns p name attrs) (l : List XNode) (a b : String) (r : List XNode) :
      (XNode.elem ns p name attrs (l ++ .text (a ++ b) :: r)).hasTagName "prototype" = false →
      InsStrict (.elem ns p name attrs (l ++ .text (a ++ b) :: r))
        (.elem ns p name attrs (l ++ .text a :: .text b :: r))
  | addAttr (ns p name) (al : List XAttr) (a : XAttr) (ar : List XAttr) (cs) :
      (XNode.elem ns p name (al ++ ar) cs).hasTagName "prototype" = false →
      ForeignAttr a →
      InsStrict (.elem ns p name (al ++ ar) cs) (.elem ns p name (al ++ a :: ar) cs)
  | child (ns p name attrs) (l : List XNode) (c c' : XNode) (r : List XNode) :
      (XNode.elem ns p name attrs (l ++ c :: r)).hasTagName "prototype" = false →
      InsStrict c c' →
      InsStrict (.elem ns p name attrs (l ++ c :: r)) (.elem ns p name attrs (l ++ c' :: r))

theorem InsStrict.toIns {t t' : XNode} (h : InsStrict t t') : Ins t t' := by
  induction h with
  | insElem ns p name attrs l f r h1 h2 => exact .insElem ns p name attrs l f r h1 h2
  | insMisc ns p name attrs l f r _ h2 => exact .insMisc ns p name attrs l f r h2
  | splitText ns p name attrs l a b r _ => exact .splitText ns p name attrs l a b r
  | addAttr ns p name al a ar cs _ h2 => exact .addAttr ns p name al a ar cs h2
  | child ns p name attrs l c c' r _ _ ih => exact .child ns p name attrs l c c' r ih

/-! ## 6. what delimits the property -/

/-- an element in front of the text of a leaf does NOT hide that text (it did, from roxmltree's
    `text()`; this theorem replaces `textOf_leading_element`, which stated `… = none`) -/
theorem textOf_leading_element_ignored (ns p name attrs) (f : XNode) (hf : f.isElement = true)
    (rest : List XNode) :
    (XNode.elem ns p name attrs (f :: rest)).textOf = (XNode.elem ns p name attrs rest).textOf :=
  textOf_insert_nontext ns p name attrs (isText_of_isElement hf) [] rest

def exForeign : XNode := .elem (some "http://example.com/ext") (some "ext") "guid" [] []
def exGuid : XNode := .elem none none "guid" [⟨none, "type", "String"⟩] [.text "abc"]
/-- a foreign element in FRONT of the text of the leaf -/
def exGuidLed : XNode :=
  .elem none none "guid" [⟨none, "type", "String"⟩] [exForeign, .text "abc"]
/-- a foreign element, a comment and a PI in the MIDDLE of the text of the leaf -/
def exGuidSplit : XNode :=
  .elem none none "guid" [⟨none, "type", "String"⟩]
    [.text "a", exForeign, .text "b", .comment, .pi, .text "c"]
def exMajor : XNode := .elem none none "versionMajor" [⟨none, "type", "Integer"⟩] [.text "1"]
def exMajorLed : XNode :=
  .elem none none "versionMajor" [⟨none, "type", "Integer"⟩] [exForeign, .text "1"]

theorem exForeign_foreign : Foreign exForeign := by
  simp [Foreign, exForeign, XNode.isElement, XNode.isForeign, XNode.isForeignList, isForeignNs,
    e57NsUri]

/-- (6a) a foreign element inserted as the FIRST child of a String / Integer leaf that has text, or in
    the middle of that text, is invisible: the String and the Integer read as before.
    (This replaces `textOf_shadowed_by_leading_element`, which documented the behaviour of roxmltree's
    `text()`: `None`, hence "" and 0.  That statement is false for `xml::text_of`.) -/
theorem textOf_not_shadowed_by_leading_element :
    Foreign exForeign ∧
    exGuid.textOf = some "abc" ∧ exGuidLed.textOf = some "abc" ∧ exGuidSplit.textOf = some "abc" ∧
    optString (.elem none none "e57Root" [] [exGuid]) "guid" = some (some "abc") ∧
    optString (.elem none none "e57Root" [] [exGuidLed]) "guid" = some (some "abc") ∧
    optString (.elem none none "e57Root" [] [exGuidSplit]) "guid" = some (some "abc") ∧
    optI64 (.elem none none "e57Root" [] [exMajor]) "versionMajor" = some (some 1) ∧
    optI64 (.elem none none "e57Root" [] [exMajorLed]) "versionMajor" = some (some 1) := by
  refine ⟨exForeign_foreign, rfl, rfl, ?_, ?_, ?_, ?_, ?_, ?_⟩ <;> decide

/-- the three trees are insertions of one another -/
theorem exGuid_insStar : InsStar exGuid exGuidLed ∧ InsStar exGuid exGuidSplit := by
  refine ⟨.single (.insElem none none "guid" _ [] exForeign [.text "abc"] (by decide)
    exForeign_foreign), ?_⟩
  have s1 : InsStar exGuid
      (.elem none none "guid" [⟨none, "type", "String"⟩] [.text "a", exForeign, .text "bc"]) :=
    InsStar.insert_in_text none none "guid" _ [] "a" "bc" exForeign [] (by decide) exForeign_foreign
  have s2 := InsStar.insert_misc_in_text none none "guid" [⟨none, "type", "String"⟩]
    [.text "a", exForeign] "b" "c" .comment [] rfl
  have s3 := Ins.insMisc none none "guid" [⟨none, "type", "String"⟩]
    [.text "a", exForeign, .text "b", .comment] .pi [.text "c"] rfl
  exact .step (s1.trans s2) s3

def exEvil (ns : Option String) : XNode :=
  .elem ns none "guid" [⟨none, "type", "String"⟩] [.text "evil"]

/-- (6b) an element with a standard name that is in NO namespace or in the E57 namespace is not
    foreign, and inserted in front of the real one it is what the reader finds -/
theorem nonforeign_shadows :
    ¬ Foreign (exEvil none) ∧ ¬ Foreign (exEvil (some e57NsUri)) ∧
    optString (.elem none none "e57Root" [] [exGuid]) "guid" = some (some "abc") ∧
    optString (.elem none none "e57Root" [] [exEvil none, exGuid]) "guid" = some (some "evil") ∧
    optString (.elem none none "e57Root" [] [exEvil (some e57NsUri), exGuid]) "guid" =
      some (some "evil") := by
  refine ⟨?_, ?_, ?_, ?_, ?_⟩
  · simp [Foreign, exEvil, XNode.isForeign, isForeignNs]
  · simp [Foreign, exEvil, XNode.isForeign, isForeignNs]
  all_goals decide

/-- sanity: the relation is inhabited where it should be — the same foreign element placed IN FRONT of
    the text of the leaf, AFTER it, next to the leaf, and a foreign attribute on the leaf are all
    insertions -/
example :
    Ins exGuid exGuidLed ∧
    Ins exGuid (.elem none none "guid" [⟨none, "type", "String"⟩] [.text "abc", exForeign]) ∧
    Ins (.elem none none "e57Root" [] [exGuid]) (.elem none none "e57Root" [] [exForeign, exGuid]) ∧
    Ins exGuid (.elem none none "guid" [⟨some "http://example.com/ext", "unit", "m"⟩,
      ⟨none, "type", "String"⟩] [.text "abc"]) :=
  ⟨.insElem none none "guid" _ [] exForeign [.text "abc"] (by decide) exForeign_foreign,
   .insElem none none "guid" _ [.text "abc"] exForeign [] (by decide) exForeign_foreign,
   .insElem none none "e57Root" [] [] exForeign [exGuid] (by decide) exForeign_foreign,
   .addAttr none none "guid" [] ⟨some "http://example.com/ext", "unit", "m"⟩
      [⟨none, "type", "String"⟩] [.text "abc"] rfl⟩

/-! ## 7. extension records in a prototype -/

/-- an element of a foreign namespace is an extension record named by its prefix and local name,
    whatever that local name is (even a standard one like `cartesianX`) -/
theorem recordNameOf_foreign (u : String) (p : Option String) (name : String) (attrs cs)
    (h1 : u ≠ "") (h2 : u ≠ e57NsUri) :
    recordNameOf (.elem (some u) p name attrs cs) = .unknown (p.getD "") name := by
  have h3 : u ≠ e57Namespace := h2
  simp [recordNameOf, XNode.tagNs, XNode.tagPrefix, XNode.tagLocal, h1, h3]

theorem recordNameOf_of_foreign {f : XNode} (hf : Foreign f) :
    recordNameOf f = .unknown (f.tagPrefix.getD "") f.tagLocal := by
  obtain ⟨u, p, name, attrs, cs, rfl, hu1, hu2, _⟩ := hf.elim
  exact recordNameOf_foreign u p name attrs cs hu2 hu1

/-- elements in no namespace or in the E57 namespace are named by `RecordName.ofTag` -/
theorem recordNameOf_standard (ns p : Option String) (name : String) (attrs cs)
    (h : ns = none ∨ ns = some e57NsUri) :
    recordNameOf (.elem ns p name attrs cs) = RecordName.ofTag p name := by
  rcases h with rfl | rfl <;>
    simp [recordNameOf, XNode.tagNs, XNode.tagPrefix, XNode.tagLocal, e57Namespace, e57NsUri]

theorem mapM_length {α β} (g : β → Option α) : ∀ (l : List β) (P : List α),
    l.mapM g = some P → P.length = l.length
  | [], P, h => by simp at h; subst h; rfl
  | x :: xs, P, h => by
    simp only [List.mapM_cons, Option.bind_eq_bind, Option.bind_eq_some_iff, Option.pure_def,
      Option.some.injEq] at h
    obtain ⟨a, _, as, h2, rfl⟩ := h
    simp [mapM_length g xs as h2]

/-- inserting a foreign record `f` with a readable type into a prototype adds exactly one record,
    `unknown prefix local`, at the corresponding position, and leaves the others unchanged -/
theorem prototype_insert_foreign_record (fp : FloatParse) (ns p name attrs) (l r : List XNode)
    (f : XNode) (hf : Foreign f) (dt : DataType) (hdt : DataType.fromNode fp f = some dt)
    (P : Prototype) (hP : prototypeFromNode fp (.elem ns p name attrs (l ++ r)) = some P) :
    ∃ P1 P2, P = P1 ++ P2 ∧ P1.length = (l.filter XNode.isElement).length ∧
      prototypeFromNode fp (.elem ns p name attrs l) = some P1 ∧
      prototypeFromNode fp (.elem ns p name attrs r) = some P2 ∧
      prototypeFromNode fp (.elem ns p name attrs (l ++ f :: r)) =
        some (P1 ++ ⟨.unknown (f.tagPrefix.getD "") f.tagLocal, dt⟩ :: P2) := by
  unfold prototypeFromNode at hP ⊢
  simp only [XNode.children, List.filter_append, List.mapM_append, Option.bind_eq_bind,
    Option.bind_eq_some_iff, Option.pure_def, Option.some.injEq] at hP
  obtain ⟨P1, h1, P2, h2, rfl⟩ := hP
  refine ⟨P1, P2, rfl, mapM_length _ _ _ h1, h1, h2, ?_⟩
  simp only [XNode.children, List.filter_append, List.filter_cons, hf.1, if_true, List.mapM_append,
    List.mapM_cons, h1, h2, hdt, recordNameOf_of_foreign hf, Option.bind_eq_bind, Option.bind_some,
    Option.pure_def]

/-- ... and a foreign record without a readable `type` makes the whole prototype unreadable -/
theorem prototype_insert_foreign_record_untyped (fp : FloatParse) (ns p name attrs)
    (l r : List XNode) (f : XNode) (hf : Foreign f) (hdt : DataType.fromNode fp f = none) :
    prototypeFromNode fp (.elem ns p name attrs (l ++ f :: r)) = none := by
  unfold prototypeFromNode
  simp only [XNode.children, List.filter_append, List.filter_cons, hf.1, if_true, List.mapM_append,
    List.mapM_cons, hdt, Option.bind_eq_bind, Option.bind_none, Option.bind_fun_none]

/-! ## axioms -/


end E57
