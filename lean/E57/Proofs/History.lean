/-
C17: history independence of the read operations.

On one open reader the only mutable state is the paged reader `PR` (cursor + one-page cache +
device position).  Every read operation of the library is shown to be a function of the *file*
(device contents and geometry) and -- for the operations that do not start with a seek -- of the
cursor; the cache, the device position, and therefore everything that happened before, cannot
be observed.  Core Lean only.
-/
import E57.Model.Simple
import E57.Proofs.PagesRead
import E57.Proofs.HeaderPage
namespace E57

/-! ## 1. equivalence of paged readers -/

/-- same file, same cursor; the caches (and the device position) may differ.  Both satisfy the
    cache invariant. -/
def PR.Equiv (r1 r2 : PR) : Prop :=
  (r1.dev.data = r2.dev.data ∧ r1.pageSize = r2.pageSize ∧ r1.physSize = r2.physSize ∧
    r1.logSize = r2.logSize ∧ r1.pages = r2.pages ∧ r1.offset = r2.offset) ∧
  r1.CacheInv ∧ r2.CacheInv

/-- same file; cursor and cache may differ.  Both satisfy the cache invariant. -/
def PR.SameFileInv (r1 r2 : PR) : Prop :=
  (r1.dev.data = r2.dev.data ∧ r1.pageSize = r2.pageSize ∧ r1.physSize = r2.physSize ∧
    r1.logSize = r2.logSize ∧ r1.pages = r2.pages) ∧
  r1.CacheInv ∧ r2.CacheInv

/-- `r` is a reader state on the file of `F` (the workhorse: one fixed reference file) -/
def PR.On (F r : PR) : Prop := F.SameFile r ∧ r.CacheInv

/-- two states on the file of `F` with the same cursor -/
def PR.Rel (F r1 r2 : PR) : Prop := F.On r1 ∧ F.On r2 ∧ r1.offset = r2.offset

theorem PR.On.step {F r r' : PR} (h : F.On r) (hs : r.SameFile r') (hi : r'.CacheInv) : F.On r' :=
  ⟨h.1.trans hs, hi⟩

theorem PR.On.self {r : PR} (h : r.CacheInv) : r.On r := ⟨PR.SameFile.refl r, h⟩

theorem PR.Equiv.rel {r1 r2 : PR} (h : r1.Equiv r2) : r1.Rel r1 r2 := by
  obtain ⟨⟨a, b, c, d, e, f⟩, i1, i2⟩ := h
  exact ⟨PR.On.self i1, ⟨⟨a.symm, b.symm, c.symm, d.symm, e.symm⟩, i2⟩, f⟩

theorem PR.Rel.equiv {F r1 r2 : PR} (h : F.Rel r1 r2) : r1.Equiv r2 := by
  obtain ⟨⟨⟨a1, b1, c1, d1, e1⟩, i1⟩, ⟨⟨a2, b2, c2, d2, e2⟩, i2⟩, f⟩ := h
  exact ⟨⟨a1.trans a2.symm, b1.trans b2.symm, c1.trans c2.symm, d1.trans d2.symm,
    e1.trans e2.symm, f⟩, i1, i2⟩

theorem PR.SameFileInv.on {r1 r2 : PR} (h : r1.SameFileInv r2) : r1.On r1 ∧ r1.On r2 := by
  obtain ⟨⟨a, b, c, d, e⟩, i1, i2⟩ := h
  exact ⟨PR.On.self i1, ⟨⟨a.symm, b.symm, c.symm, d.symm, e.symm⟩, i2⟩⟩

theorem PR.On.sameFileInv {F r1 r2 : PR} (h1 : F.On r1) (h2 : F.On r2) : r1.SameFileInv r2 := by
  obtain ⟨⟨a1, b1, c1, d1, e1⟩, i1⟩ := h1
  obtain ⟨⟨a2, b2, c2, d2, e2⟩, i2⟩ := h2
  exact ⟨⟨a1.trans a2.symm, b1.trans b2.symm, c1.trans c2.symm, d1.trans d2.symm,
    e1.trans e2.symm⟩, i1, i2⟩

theorem PR.Equiv.refl {r : PR} (h : r.CacheInv) : r.Equiv r :=
  ⟨⟨rfl, rfl, rfl, rfl, rfl, rfl⟩, h, h⟩

theorem PR.Equiv.symm {r1 r2 : PR} (h : r1.Equiv r2) : r2.Equiv r1 := by
  obtain ⟨⟨a, b, c, d, e, f⟩, i1, i2⟩ := h
  exact ⟨⟨a.symm, b.symm, c.symm, d.symm, e.symm, f.symm⟩, i2, i1⟩

theorem PR.Equiv.trans {r1 r2 r3 : PR} (h : r1.Equiv r2) (h' : r2.Equiv r3) : r1.Equiv r3 := by
  obtain ⟨⟨a, b, c, d, e, f⟩, i1, _⟩ := h
  obtain ⟨⟨a', b', c', d', e', f'⟩, _, i3⟩ := h'
  exact ⟨⟨a.trans a', b.trans b', c.trans c', d.trans d', e.trans e', f.trans f'⟩, i1, i3⟩

theorem PR.SameFileInv.refl {r : PR} (h : r.CacheInv) : r.SameFileInv r :=
  ⟨⟨rfl, rfl, rfl, rfl, rfl⟩, h, h⟩

theorem PR.SameFileInv.symm {r1 r2 : PR} (h : r1.SameFileInv r2) : r2.SameFileInv r1 := by
  obtain ⟨⟨a, b, c, d, e⟩, i1, i2⟩ := h
  exact ⟨⟨a.symm, b.symm, c.symm, d.symm, e.symm⟩, i2, i1⟩

theorem PR.SameFileInv.trans {r1 r2 r3 : PR} (h : r1.SameFileInv r2) (h' : r2.SameFileInv r3) :
    r1.SameFileInv r3 := by
  obtain ⟨⟨a, b, c, d, e⟩, i1, _⟩ := h
  obtain ⟨⟨a', b', c', d', e'⟩, _, i3⟩ := h'
  exact ⟨⟨a.trans a', b.trans b', c.trans c', d.trans d', e.trans e'⟩, i1, i3⟩

theorem PR.Equiv.sameFileInv {r1 r2 : PR} (h : r1.Equiv r2) : r1.SameFileInv r2 := by
  obtain ⟨⟨a, b, c, d, e, _⟩, i1, i2⟩ := h
  exact ⟨⟨a, b, c, d, e⟩, i1, i2⟩

/-! ### one `read` call, in terms of the file only -/

/-- What one `read` does is determined by the file of `F` and the cursor: nothing at or past the
    end; the slice of the page when the page is valid; an error when it is not.  The cache of
    `r` does not enter. -/
theorem pr_read_on (F r : PR) (n : Nat) (h : F.On r) :
    (F.pages ≤ r.offset / (F.pageSize - 4) ∧ r.read n = .ok (r, [])) ∨
    (r.offset / (F.pageSize - 4) < F.pages ∧
      pageValid (devPage F.dev.data F.pageSize (r.offset / (F.pageSize - 4))) F.pageSize ∧
      ∃ r', r.read n = .ok (r',
          ((devPage F.dev.data F.pageSize (r.offset / (F.pageSize - 4))).drop
              (r.offset % (F.pageSize - 4))).take
            (min n (F.pageSize - 4 - r.offset % (F.pageSize - 4)))) ∧
        F.On r' ∧
        r'.offset = r.offset + min n (F.pageSize - 4 - r.offset % (F.pageSize - 4))) ∨
    (r.offset / (F.pageSize - 4) < F.pages ∧
      ¬ pageValid (devPage F.dev.data F.pageSize (r.offset / (F.pageSize - 4))) F.pageSize ∧
      r.read n = .err "read_page failed" ∧ F.On r.readFailState ∧
      r.readFailState.offset = r.offset) := by
  obtain ⟨⟨s1, s2, s3, s4, s5⟩, hinv⟩ := h
  have hon : F.On r := ⟨⟨s1, s2, s3, s4, s5⟩, hinv⟩
  have hfail : F.On r.readFailState ∧ r.readFailState.offset = r.offset :=
    ⟨hon.step (pr_readFail_data r).1 (pr_readFail_inv r hinv), (pr_readFail_data r).2⟩
  have hl := hinv.1.trans hinv.2.1
  rw [← s1, ← s2, ← s5]
  rcases pr_read_cases r n hinv with ⟨hp, e⟩ | ⟨hp, hv, _, _, e⟩ | ⟨hp, hv, _, e⟩ | ⟨hp, hv, _, _, e⟩
  · exact .inl ⟨hp, e⟩
  · refine .inr (.inl ⟨hp, hv, _, e, hon.step (pr_read_data r n _ _ e) (pr_read_inv r n _ _ hinv e), ?_⟩)
    rw [pr_read_offset r n _ _ hinv e, slice_length _ r.pageSize _ _ (devPage_length _ _ _ _ hl hp)]
  · refine .inr (.inl ⟨hp, hv, _, e, hon.step (pr_read_data r n _ _ e) (pr_read_inv r n _ _ hinv e), ?_⟩)
    rw [pr_read_offset r n _ _ hinv e, slice_length _ r.pageSize _ _ (devPage_length _ _ _ _ hl hp)]
  · exact .inr (.inr ⟨hp, hv, e, hfail⟩)

/-- Core lemma, in workhorse form: two states on the same file with the same cursor `read` the
    same thing -- the same bytes, or the same error -- and are again such a pair afterwards (after
    an error: their fail states). -/
theorem pr_read_rel {F r1 r2 : PR} (h : F.Rel r1 r2) (n : Nat) :
    (∃ a1 a2 bs, r1.read n = .ok (a1, bs) ∧ r2.read n = .ok (a2, bs) ∧ F.Rel a1 a2) ∨
    (∃ e, r1.read n = .err e ∧ r2.read n = .err e ∧ F.Rel r1.readFailState r2.readFailState) := by
  obtain ⟨h1, h2, ho⟩ := h
  have c1 := pr_read_on F r1 n h1
  have c2 := pr_read_on F r2 n h2
  rw [← ho] at c2
  rcases c1 with ⟨hp, e1⟩ | ⟨hp, hv, a1, e1, o1, f1⟩ | ⟨hp, hv, e1, o1, f1⟩
  · rcases c2 with ⟨_, e2⟩ | ⟨hp', _⟩ | ⟨hp', _⟩
    · exact .inl ⟨r1, r2, [], e1, e2, h1, h2, ho⟩
    · omega
    · omega
  · rcases c2 with ⟨hp', _⟩ | ⟨_, _, a2, e2, o2, f2⟩ | ⟨_, hv', _⟩
    · omega
    · exact .inl ⟨a1, a2, _, e1, e2, o1, o2, f1.trans f2.symm⟩
    · exact absurd hv hv'
  · rcases c2 with ⟨hp', _⟩ | ⟨_, hv', _⟩ | ⟨_, _, e2, o2, f2⟩
    · omega
    · exact absurd hv' hv
    · exact .inr ⟨_, e1, e2, o1, o2, f1.trans f2.symm⟩

/-- **Core lemma** `pr_read_equiv`: equivalent readers return the same `read` result (both an
    error, or both the SAME bytes) and stay equivalent -- after an error, their fail states are. -/
theorem pr_read_equiv {r1 r2 : PR} (h : r1.Equiv r2) (n : Nat) :
    (∃ a1 a2 bs, r1.read n = .ok (a1, bs) ∧ r2.read n = .ok (a2, bs) ∧ a1.Equiv a2) ∨
    (∃ e, r1.read n = .err e ∧ r2.read n = .err e ∧
      r1.readFailState.Equiv r2.readFailState) := by
  rcases pr_read_rel h.rel n with ⟨a1, a2, bs, e1, e2, hr⟩ | ⟨e, e1, e2, hr⟩
  · exact .inl ⟨a1, a2, bs, e1, e2, hr.equiv⟩
  · exact .inr ⟨e, e1, e2, hr.equiv⟩

/-- a `read` never panics (it is `ok` or `err`), so the two cases above are exhaustive -/
theorem pr_read_equiv_result {r1 r2 : PR} (h : r1.Equiv r2) (n : Nat) :
    (r1.read n).toOption.map (·.2) = (r2.read n).toOption.map (·.2) := by
  rcases pr_read_equiv h n with ⟨a1, a2, bs, e1, e2, _⟩ | ⟨e, e1, e2, _⟩ <;> rw [e1, e2] <;> rfl

/-! ### `seek_physical`, `align` -/

/-- `seek_physical` needs the same file only: the cursors before it are irrelevant -/
theorem pr_seek_on {F r1 r2 : PR} (h1 : F.On r1) (h2 : F.On r2) (p : Nat) :
    (∃ a1 a2 o, r1.seekPhysical p = .ok (a1, o) ∧ r2.seekPhysical p = .ok (a2, o) ∧ F.Rel a1 a2) ∨
    (∃ e, r1.seekPhysical p = .err e ∧ r2.seekPhysical p = .err e) := by
  have key : ∀ r, F.On r →
      (p < F.physSize → r.seekPhysical p =
        .ok ({ r with offset := p - (p / F.pageSize) * 4 }, p - (p / F.pageSize) * 4)) ∧
      (¬ p < F.physSize → r.seekPhysical p = .err "offset behind end of file") := by
    intro r hr
    obtain ⟨⟨s1, s2, s3, s4, s5⟩, i1⟩ := hr
    rw [← s2, ← s3]
    constructor
    · intro c
      have : ¬ p ≥ r.physSize := by omega
      simp only [PR.seekPhysical, this, if_false]
    · intro c
      have : p ≥ r.physSize := by omega
      simp only [PR.seekPhysical, this, if_true]
  by_cases c : p < F.physSize
  · exact .inl ⟨_, _, _, (key r1 h1).1 c, (key r2 h2).1 c, h1, h2, rfl⟩
  · exact .inr ⟨_, (key r1 h1).2 c, (key r2 h2).2 c⟩

theorem pr_seek_rel {F r1 r2 : PR} (h : F.Rel r1 r2) (p : Nat) :
    (∃ a1 a2 o, r1.seekPhysical p = .ok (a1, o) ∧ r2.seekPhysical p = .ok (a2, o) ∧ F.Rel a1 a2) ∨
    (∃ e, r1.seekPhysical p = .err e ∧ r2.seekPhysical p = .err e) :=
  pr_seek_on h.1 h.2.1 p

theorem pr_seek_equiv {r1 r2 : PR} (h : r1.Equiv r2) (p : Nat) :
    (∃ a1 a2 o, r1.seekPhysical p = .ok (a1, o) ∧ r2.seekPhysical p = .ok (a2, o) ∧ a1.Equiv a2) ∨
    (∃ e, r1.seekPhysical p = .err e ∧ r2.seekPhysical p = .err e) := by
  rcases pr_seek_rel h.rel p with ⟨a1, a2, o, e1, e2, hr⟩ | h
  · exact .inl ⟨a1, a2, o, e1, e2, hr.equiv⟩
  · exact .inr h

theorem pr_seek_history_independent {r1 r2 : PR} (h : r1.SameFileInv r2) (p : Nat) :
    (∃ a1 a2 o, r1.seekPhysical p = .ok (a1, o) ∧ r2.seekPhysical p = .ok (a2, o) ∧ a1.Equiv a2) ∨
    (∃ e, r1.seekPhysical p = .err e ∧ r2.seekPhysical p = .err e) := by
  rcases pr_seek_on h.on.1 h.on.2 p with ⟨a1, a2, o, e1, e2, hr⟩ | h
  · exact .inl ⟨a1, a2, o, e1, e2, hr.equiv⟩
  · exact .inr h

theorem pr_align_rel {F r1 r2 : PR} (h : F.Rel r1 r2) :
    (∃ a1 a2, r1.align = .ok a1 ∧ r2.align = .ok a2 ∧ F.Rel a1 a2) ∨
    (∃ e, r1.align = .err e ∧ r2.align = .err e) := by
  have key : ∀ r, F.On r →
      (r.offset % 4 ≠ 0 → r.offset + (4 - r.offset % 4) > F.logSize →
        r.align = .err "Tried to seek behind end of the file") ∧
      (r.offset % 4 ≠ 0 → ¬ r.offset + (4 - r.offset % 4) > F.logSize →
        r.align = .ok { r with offset := r.offset + (4 - r.offset % 4) }) ∧
      (¬ r.offset % 4 ≠ 0 → r.align = .ok r) := by
    intro r hr
    obtain ⟨⟨s1, s2, s3, s4, s5⟩, i1⟩ := hr
    rw [← s4]
    refine ⟨?_, ?_, ?_⟩
    · intro c c2
      unfold PR.align; dsimp only; rw [if_pos c, if_pos c2]
    · intro c c2
      unfold PR.align; dsimp only; rw [if_pos c, if_neg c2]
    · intro c
      unfold PR.align; dsimp only; rw [if_neg c]
  obtain ⟨h1, h2, ho⟩ := h
  obtain ⟨k1, k2, k3⟩ := key r1 h1
  obtain ⟨l1, l2, l3⟩ := key r2 h2
  rw [← ho] at l1 l2 l3
  by_cases c : r1.offset % 4 ≠ 0
  · by_cases c2 : r1.offset + (4 - r1.offset % 4) > F.logSize
    · exact .inr ⟨_, k1 c c2, l1 c c2⟩
    · exact .inl ⟨_, _, k2 c c2, l2 c c2, h1, h2, rfl⟩
  · exact .inl ⟨_, _, k3 c, l3 c, h1, h2, ho⟩

theorem pr_align_equiv {r1 r2 : PR} (h : r1.Equiv r2) :
    (∃ a1 a2, r1.align = .ok a1 ∧ r2.align = .ok a2 ∧ a1.Equiv a2) ∨
    (∃ e, r1.align = .err e ∧ r2.align = .err e) := by
  rcases pr_align_rel h.rel with ⟨a1, a2, e1, e2, hr⟩ | h
  · exact .inl ⟨a1, a2, e1, e2, hr.equiv⟩
  · exact .inr h

/-! ### `read_exact` -/

theorem pr_readExactFuel_rel {F : PR} (fuel : Nat) {r1 r2 : PR} (h : F.Rel r1 r2) (n : Nat)
    (acc : Bytes) :
    ∃ a1 a2 v, PR.readExactFuel fuel r1 n acc = (a1, v) ∧ PR.readExactFuel fuel r2 n acc = (a2, v) ∧
      F.Rel a1 a2 := by
  induction fuel generalizing r1 r2 n acc with
  | zero =>
    cases n with
    | zero => exact ⟨r1, r2, _, rfl, rfl, h⟩
    | succ n => exact ⟨r1, r2, _, rfl, rfl, h⟩
  | succ fuel ih =>
    cases n with
    | zero => exact ⟨r1, r2, _, rfl, rfl, h⟩
    | succ n =>
      unfold PR.readExactFuel
      rcases pr_read_rel h (n + 1) with ⟨a1, a2, bs, e1, e2, hr⟩ | ⟨e, e1, e2, hr⟩
      · rw [e1, e2]
        simp only
        by_cases c : bs.isEmpty
        · simp only [c, if_true]
          exact ⟨a1, a2, _, rfl, rfl, hr⟩
        · simp only [c]
          exact ih hr _ _
      · rw [e1, e2]
        exact ⟨_, _, _, rfl, rfl, hr⟩

theorem pr_readExact_rel {F r1 r2 : PR} (h : F.Rel r1 r2) (n : Nat) :
    ∃ a1 a2 v, r1.readExact n = (a1, v) ∧ r2.readExact n = (a2, v) ∧ F.Rel a1 a2 :=
  pr_readExactFuel_rel _ h n []

/-- `read_exact` on equivalent readers: same bytes or same failure, equivalent states left behind -/
theorem pr_readExact_equiv {r1 r2 : PR} (h : r1.Equiv r2) (n : Nat) :
    (r1.readExact n).2 = (r2.readExact n).2 ∧ (r1.readExact n).1.Equiv (r2.readExact n).1 := by
  obtain ⟨a1, a2, v, e1, e2, hr⟩ := pr_readExact_rel h.rel n
  rw [e1, e2]
  exact ⟨rfl, hr.equiv⟩

/-! ## 2. the library operations are functions of the equivalence class -/

/-- outputs of an operation `PR → PR × α` on two related states: related states, same value -/
def RelOut {α : Type} (F : PR) (x y : PR × α) : Prop := F.Rel x.1 y.1 ∧ x.2 = y.2

theorem RelOut.ex {α : Type} {F : PR} {x y : PR × α} (h : RelOut F x y) :
    ∃ a1 a2 v, x = (a1, v) ∧ y = (a2, v) ∧ F.Rel a1 a2 := by
  obtain ⟨a1, v1⟩ := x
  obtain ⟨a2, v2⟩ := y
  obtain ⟨hr, hv⟩ := h
  dsimp only at hr hv
  subst hv
  exact ⟨a1, a2, v1, rfl, rfl, hr⟩

/-- `f` respects the relation: on two states on the same file with the same cursor it returns the
    same value and leaves two such states behind -/
def Resp {α : Type} (f : PR → PR × α) : Prop :=
  ∀ F r1 r2, PR.Rel F r1 r2 → RelOut F (f r1) (f r2)

theorem Resp.equiv {α : Type} {f : PR → PR × α} (hf : Resp f) {r1 r2 : PR} (h : r1.Equiv r2) :
    (f r1).2 = (f r2).2 ∧ (f r1).1.Equiv (f r2).1 :=
  ⟨(hf r1 r1 r2 h.rel).2, (hf r1 r1 r2 h.rel).1.equiv⟩

/-- the unary consequence: the operation stays on the file and keeps the cache invariant -/
theorem Resp.on {α : Type} {f : PR → PR × α} (hf : Resp f) {F r : PR} (h : F.On r) :
    F.On (f r).1 :=
  (hf F r r ⟨h, h, rfl⟩).1.1

theorem readExact_resp (n : Nat) : Resp (fun r => r.readExact n) := by
  intro F r1 r2 h
  obtain ⟨a1, a2, v, e1, e2, hr⟩ := pr_readExact_rel h n
  show RelOut F (r1.readExact n) (r2.readExact n)
  rw [e1, e2]
  exact ⟨hr, rfl⟩

/-- both `if`s (one per side) on the same condition -/
macro "ifc " c:ident : tactic =>
  `(tactic| first | rw [if_pos $c, if_pos $c] | rw [if_neg $c, if_neg $c])

theorem readCvHeader_resp : Resp readCvHeader := by
  intro F r1 r2 h
  obtain ⟨a1, a2, v, e1, e2, hr⟩ := pr_readExact_rel h 32
  unfold readCvHeader
  rw [e1, e2]
  cases v with
  | none => exact ⟨hr, rfl⟩
  | some b =>
    dsimp only
    by_cases c1 : leVal (b.take 1) ≠ 1
    · ifc c1; exact ⟨hr, rfl⟩
    · ifc c1
      by_cases c2 : leVal ((b.drop 8).take 8) % 4 ≠ 0
      · ifc c2; exact ⟨hr, rfl⟩
      · ifc c2; exact ⟨hr, rfl⟩

theorem readCvHeader_equiv {r1 r2 : PR} (h : r1.Equiv r2) :
    (readCvHeader r1).2 = (readCvHeader r2).2 ∧ (readCvHeader r1).1.Equiv (readCvHeader r2).1 :=
  readCvHeader_resp.equiv h

theorem readPacketHeader_resp : Resp readPacketHeader := by
  intro F r1 r2 h
  obtain ⟨a1, a2, v, e1, e2, hr⟩ := pr_readExact_rel h 1
  unfold readPacketHeader
  rw [e1, e2]
  rcases v with _ | ⟨_ | ⟨t, _ | ⟨t2, tl⟩⟩⟩
  · exact ⟨hr, rfl⟩
  · exact ⟨hr, rfl⟩
  · dsimp only
    by_cases c0 : t = 0
    · ifc c0
      obtain ⟨b1, b2, w, f1, f2, hr2⟩ := pr_readExact_rel hr 15
      rw [f1, f2]
      cases w with
      | none => exact ⟨hr2, rfl⟩
      | some b =>
        dsimp only
        by_cases d1 : (b.take 1) ≠ [0]
        · ifc d1; exact ⟨hr2, rfl⟩
        · ifc d1
          by_cases d2 : (b.drop 7).any (· ≠ 0) = true
          · ifc d2; exact ⟨hr2, rfl⟩
          · ifc d2
            by_cases d3 : (leVal ((b.drop 1).take 2) + 1) % 4 ≠ 0
            · ifc d3; exact ⟨hr2, rfl⟩
            · ifc d3; exact ⟨hr2, rfl⟩
    · ifc c0
      by_cases c1 : t = 1
      · ifc c1
        obtain ⟨b1, b2, w, f1, f2, hr2⟩ := pr_readExact_rel hr 5
        rw [f1, f2]
        cases w with
        | none => exact ⟨hr2, rfl⟩
        | some b =>
          dsimp only
          by_cases d1 : (leVal ((b.drop 1).take 2) + 1) % 4 ≠ 0
          · ifc d1; exact ⟨hr2, rfl⟩
          · ifc d1
            by_cases d2 : leVal ((b.drop 3).take 2) = 0
            · ifc d2; exact ⟨hr2, rfl⟩
            · ifc d2; exact ⟨hr2, rfl⟩
      · ifc c1
        by_cases c2 : t = 2
        · ifc c2
          obtain ⟨b1, b2, w, f1, f2, hr2⟩ := pr_readExact_rel hr 3
          rw [f1, f2]
          cases w with
          | none => exact ⟨hr2, rfl⟩
          | some b =>
            dsimp only
            by_cases d1 : (b.take 1) ≠ [0]
            · ifc d1; exact ⟨hr2, rfl⟩
            · ifc d1
              by_cases d2 : (leVal ((b.drop 1).take 2) + 1) % 4 ≠ 0
              · ifc d2; exact ⟨hr2, rfl⟩
              · ifc d2; exact ⟨hr2, rfl⟩
        · ifc c2; exact ⟨hr, rfl⟩
  · exact ⟨hr, rfl⟩

theorem readPacketHeader_equiv {r1 r2 : PR} (h : r1.Equiv r2) :
    (readPacketHeader r1).2 = (readPacketHeader r2).2 ∧
    (readPacketHeader r1).1.Equiv (readPacketHeader r2).1 :=
  readPacketHeader_resp.equiv h

theorem readSizes_resp (n : Nat) (acc : List Nat) : Resp (fun r => readSizes n r acc) := by
  induction n generalizing acc with
  | zero => intro F r1 r2 h; exact ⟨h, rfl⟩
  | succ n ih =>
    intro F r1 r2 h
    obtain ⟨a1, a2, v, e1, e2, hr⟩ := pr_readExact_rel h 2
    show RelOut F (readSizes (n + 1) r1 acc) (readSizes (n + 1) r2 acc)
    unfold readSizes
    rw [e1, e2]
    cases v with
    | none => exact ⟨hr, rfl⟩
    | some b => exact ih _ F a1 a2 hr

theorem readStreams_resp (sizes : List Nat) (ss : List RBuf) (acc : List RBuf) :
    Resp (fun r => readStreams sizes ss r acc) := by
  induction sizes generalizing ss acc with
  | nil => intro F r1 r2 h; exact ⟨h, rfl⟩
  | cons sz szs ih =>
    intro F r1 r2 h
    cases ss with
    | nil => exact ⟨h, rfl⟩
    | cons s ss =>
      obtain ⟨a1, a2, v, e1, e2, hr⟩ := pr_readExact_rel h sz
      show RelOut F (readStreams (sz :: szs) (s :: ss) r1 acc) (readStreams (sz :: szs) (s :: ss) r2 acc)
      unfold readStreams
      rw [e1, e2]
      cases v with
      | none => exact ⟨hr, rfl⟩
      | some b =>
        dsimp only
        cases s.append b with
        | ok s' => exact ih _ _ F a1 a2 hr
        | err e => exact ⟨hr, rfl⟩
        | panic e => exact ⟨hr, rfl⟩

/-- the tail shared by all three packet kinds: `align`, then report -/
theorem align_tail {F a1 a2 : PR} (hr : F.Rel a1 a2) (q q' : QR) :
    RelOut F
      (match a1.align with
        | .ok r3 => (r3, q, true)
        | _ => (a1, q', false))
      (match a2.align with
        | .ok r3 => (r3, q, true)
        | _ => (a2, q', false)) := by
  rcases pr_align_rel hr with ⟨c1, c2, g1, g2, hr3⟩ | ⟨e, g1, g2⟩
  · rw [g1, g2]; exact ⟨hr3, rfl⟩
  · rw [g1, g2]; exact ⟨hr, rfl⟩

theorem QR.advance_resp (q : QR) : Resp q.advance := by
  intro F r1 r2 h
  unfold QR.advance
  by_cases cz : (q.allZeroWidth && !q.proto.isEmpty) = true
  · ifc cz; exact ⟨h, rfl⟩
  · ifc cz
    obtain ⟨a1, a2, v, e1, e2, hr⟩ := (readPacketHeader_resp F r1 r2 h).ex
    rw [e1, e2]
    rcases v with _ | ⟨len | ⟨rs, len, count⟩ | len⟩
    · exact ⟨hr, rfl⟩
    · dsimp only
      by_cases c : len < 16
      · ifc c; exact ⟨hr, rfl⟩
      · ifc c
        obtain ⟨b1, b2, w, f1, f2, hr2⟩ := pr_readExact_rel hr (len - 16)
        rw [f1, f2]
        cases w with
        | none => exact ⟨hr2, rfl⟩
        | some b => exact align_tail hr2 q q
    · dsimp only
      by_cases c : count ≠ q.streams.length
      · ifc c; exact ⟨hr, rfl⟩
      · ifc c
        obtain ⟨b1, b2, w, f1, f2, hr2⟩ := (readSizes_resp q.streams.length [] F a1 a2 hr).ex
        dsimp only at f1 f2
        rw [f1, f2]
        cases w with
        | none => exact ⟨hr2, rfl⟩
        | some sizes =>
          dsimp only
          obtain ⟨c1, c2, u, g1, g2, hr3⟩ := (readStreams_resp sizes q.streams [] F b1 b2 hr2).ex
          dsimp only at g1 g2
          rw [g1, g2]
          obtain ⟨streams, ok⟩ := u
          dsimp only
          cases ok with
          | false => exact ⟨hr3, rfl⟩
          | true =>
            simp only [Bool.not_true, Bool.false_eq_true, if_false]
            generalize parseStreams q.proto streams q.queues = ps
            cases ps with
            | none => exact ⟨hr3, rfl⟩
            | some sq =>
              obtain ⟨streams', queues'⟩ := sq
              exact align_tail hr3 _ _
    · dsimp only
      obtain ⟨b1, b2, w, f1, f2, hr2⟩ := pr_readExact_rel hr (len - 4)
      rw [f1, f2]
      cases w with
      | none => exact ⟨hr2, rfl⟩
      | some b => exact align_tail hr2 q q

/-- `advance` with the same queue reader on equivalent readers: same `ok` flag, same resulting
    queue reader, equivalent readers -/
theorem QR.advance_equiv (q : QR) {r1 r2 : PR} (h : r1.Equiv r2) :
    (q.advance r1).2 = (q.advance r2).2 ∧ (q.advance r1).1.Equiv (q.advance r2).1 :=
  (QR.advance_resp q).equiv h

theorem refill_resp (fuel : Nat) (q : QR) : Resp (refill fuel q) := by
  induction fuel generalizing q with
  | zero => intro F r1 r2 h; exact ⟨h, rfl⟩
  | succ fuel ih =>
    intro F r1 r2 h
    unfold refill
    by_cases c : q.available ≥ 1
    · ifc c; exact ⟨h, rfl⟩
    · ifc c
      obtain ⟨a1, a2, v, e1, e2, hr⟩ := (QR.advance_resp q F r1 r2 h).ex
      rw [e1, e2]
      obtain ⟨q1, ok⟩ := v
      cases ok with
      | false => exact ⟨hr, rfl⟩
      | true => exact ih q1 F a1 a2 hr

theorem refill_equiv (fuel : Nat) (q : QR) {r1 r2 : PR} (h : r1.Equiv r2) :
    (refill fuel q r1).2 = (refill fuel q r2).2 ∧ (refill fuel q r1).1.Equiv (refill fuel q r2).1 :=
  (refill_resp fuel q).equiv h

theorem refillFuel_rel {F r1 r2 : PR} (h : F.Rel r1 r2) : refillFuel r1 = refillFuel r2 := by
  unfold refillFuel
  rw [h.1.1.2.2.2.1, h.2.1.1.2.2.2.1]

theorem RawIter.next_resp (it : RawIter) : Resp it.next := by
  intro F r1 r2 h
  unfold RawIter.next
  by_cases c : it.read ≥ it.records
  · ifc c; exact ⟨h, rfl⟩
  · ifc c
    rw [refillFuel_rel h]
    obtain ⟨a1, a2, v, e1, e2, hr⟩ := (refill_resp (refillFuel r2) it.q F r1 r2 h).ex
    rw [e1, e2]
    obtain ⟨q1, ok⟩ := v
    cases ok with
    | false => exact ⟨hr, rfl⟩
    | true =>
      dsimp only
      cases q1.popPoint with
      | none => exact ⟨hr, rfl⟩
      | some pq => exact ⟨hr, rfl⟩

/-- `next` of the raw iterator: same item, same iterator state, equivalent readers -/
theorem RawIter.next_equiv (it : RawIter) {r1 r2 : PR} (h : r1.Equiv r2) :
    (it.next r1).2 = (it.next r2).2 ∧ (it.next r1).1.Equiv (it.next r2).1 :=
  (RawIter.next_resp it).equiv h

theorem SimpleIter.next_resp (it : SimpleIter) : Resp it.next := by
  intro F r1 r2 h
  unfold SimpleIter.next
  by_cases c : it.read ≥ it.pc.records
  · ifc c; exact ⟨h, rfl⟩
  · ifc c
    cases it.points with
    | cons p rest => exact ⟨h, rfl⟩
    | nil =>
      dsimp only
      rw [refillFuel_rel h]
      obtain ⟨a1, a2, v, e1, e2, hr⟩ := (refill_resp (refillFuel r2) it.q F r1 r2 h).ex
      rw [e1, e2]
      obtain ⟨q1, ok⟩ := v
      cases ok with
      | false => exact ⟨hr, rfl⟩
      | true =>
        dsimp only
        generalize popBatch it q1.available q1 [] = pb
        obtain ⟨q2, batch, ok2⟩ := pb
        dsimp only
        cases ok2 with
        | false => exact ⟨hr, rfl⟩
        | true =>
          simp only [Bool.not_true, Bool.false_eq_true, if_false]
          split <;> exact ⟨hr, rfl⟩

/-- `next` of the simple iterator: same item, same iterator state, equivalent readers -/
theorem SimpleIter.next_equiv (it : SimpleIter) {r1 r2 : PR} (h : r1.Equiv r2) :
    (it.next r1).2 = (it.next r2).2 ∧ (it.next r1).1.Equiv (it.next r2).1 :=
  (SimpleIter.next_resp it).equiv h

/-! ## 3. operations that start with a seek: the cursor before them is irrelevant too -/

/-- outputs on two states of the same file: still on the file, same value -/
def RelOutS {α : Type} (F : PR) (x y : PR × α) : Prop := F.On x.1 ∧ F.On y.1 ∧ x.2 = y.2

/-- `f` depends on the file only (neither on the cursor nor on the cache) -/
def RespS {α : Type} (f : PR → PR × α) : Prop :=
  ∀ F r1 r2, PR.On F r1 → PR.On F r2 → RelOutS F (f r1) (f r2)

theorem RelOut.toS {α : Type} {F : PR} {x y : PR × α} (h : RelOut F x y) : RelOutS F x y :=
  ⟨h.1.1, h.1.2.1, h.2⟩

theorem RespS.hist {α : Type} {f : PR → PR × α} (hf : RespS f) {r1 r2 : PR}
    (h : r1.SameFileInv r2) : (f r1).2 = (f r2).2 ∧ (f r1).1.SameFileInv (f r2).1 := by
  obtain ⟨o1, o2, e⟩ := hf r1 r1 r2 h.on.1 h.on.2
  exact ⟨e, o1.sameFileInv o2⟩

theorem RespS.on {α : Type} {f : PR → PR × α} (hf : RespS f) {F r : PR} (h : F.On r) :
    F.On (f r).1 :=
  (hf F r r h h).1

/-! ### blobs -/

/-- a leaf of the case analyses below -/
theorem relLeaf {α : Type} {F a1 a2 : PR} (hr : F.Rel a1 a2) (v : α) (P : Prop) :
    RelOutS F (a1, v) (a2, v) ∧ (P → F.Rel a1 a2) :=
  ⟨⟨hr.1, hr.2.1, rfl⟩, fun _ => hr⟩

theorem blobRead_on (b : BlobRef) {F r1 r2 : PR} (h1 : F.On r1) (h2 : F.On r2) :
    RelOutS F (blobRead r1 b) (blobRead r2 b) ∧
    (r1.offset = r2.offset → F.Rel (blobRead r1 b).1 (blobRead r2 b).1) := by
  unfold blobRead
  rcases pr_seek_on h1 h2 b.offset with ⟨a1, a2, o, e1, e2, hr⟩ | ⟨e, e1, e2⟩
  · rw [e1, e2]
    dsimp only
    obtain ⟨b1, b2, w, f1, f2, hr2⟩ := pr_readExact_rel hr 16
    rw [f1, f2]
    cases w with
    | none => exact relLeaf hr2 _ _
    | some hd =>
      dsimp only
      by_cases c1 : leVal (hd.take 1) ≠ 0
      · ifc c1; exact relLeaf hr2 _ _
      · ifc c1
        by_cases c2 : b.length > leVal ((hd.drop 8).take 8) + 16
        · ifc c2; exact relLeaf hr2 _ _
        · ifc c2
          obtain ⟨d1, d2, w2, g1, g2, hr3⟩ := pr_readExact_rel hr2 b.length
          rw [g1, g2]
          cases w2 <;> exact relLeaf hr3 _ _
  · rw [e1, e2]
    exact ⟨⟨h1, h2, rfl⟩, fun ho => ⟨h1, h2, ho⟩⟩

theorem blobRead_respS (b : BlobRef) : RespS (fun r => blobRead r b) :=
  fun _ _ _ h1 h2 => (blobRead_on b h1 h2).1

theorem blobRead_resp (b : BlobRef) : Resp (fun r => blobRead r b) :=
  fun _ _ _ h => ⟨(blobRead_on b h.1 h.2.1).2 h.2.2, (blobRead_on b h.1 h.2.1).1.2.2⟩

/-- **blobs**: whatever happened before on the two readers, `Blob::read` returns the same bytes
    or fails on both -/
theorem blobRead_history_independent (r1 r2 : PR) (b : BlobRef) (h : r1.SameFileInv r2) :
    (blobRead r1 b).2 = (blobRead r2 b).2 ∧ (blobRead r1 b).1.SameFileInv (blobRead r2 b).1 :=
  (blobRead_respS b).hist h

theorem blobRead_equiv (b : BlobRef) {r1 r2 : PR} (h : r1.Equiv r2) :
    (blobRead r1 b).2 = (blobRead r2 b).2 ∧ (blobRead r1 b).1.Equiv (blobRead r2 b).1 :=
  (blobRead_resp b).equiv h

/-! ### XML -/

/-- `extract_xml` together with the reader state it leaves behind when it fails -/
def extractXmlSt (r : PR) (offset length : Nat) : PR × Option Bytes :=
  if length > maxXmlSize then (r, none) else
  match r.seekPhysical offset with
  | .ok (r1, _) => r1.readExact length
  | _ => (r, none)

/-- `extractXmlSt` is `extractXml` (same answer; same state when it succeeds) -/
theorem extractXmlSt_spec (r : PR) (offset length : Nat) :
    (extractXml r offset length).map (·.2) = (extractXmlSt r offset length).2 ∧
    ∀ r' bs, extractXml r offset length = some (r', bs) → extractXmlSt r offset length = (r', some bs) := by
  unfold extractXml extractXmlSt
  by_cases c : length > maxXmlSize
  · rw [if_pos c, if_pos c]
    exact ⟨rfl, fun _ _ h => by cases h⟩
  · rw [if_neg c, if_neg c]
    cases r.seekPhysical offset with
    | ok x =>
      obtain ⟨r1, o⟩ := x
      dsimp only
      generalize r1.readExact length = y
      obtain ⟨r2, w⟩ := y
      cases w with
      | none => exact ⟨rfl, fun _ _ h => by cases h⟩
      | some bs => exact ⟨rfl, fun _ _ h => by cases h; rfl⟩
    | err e => exact ⟨rfl, fun _ _ h => by cases h⟩
    | panic e => exact ⟨rfl, fun _ _ h => by cases h⟩

theorem extractXmlSt_respS (offset length : Nat) : RespS (fun r => extractXmlSt r offset length) := by
  intro F r1 r2 h1 h2
  show RelOutS F (extractXmlSt r1 offset length) (extractXmlSt r2 offset length)
  unfold extractXmlSt
  by_cases c : length > maxXmlSize
  · ifc c; exact ⟨h1, h2, rfl⟩
  · ifc c
    rcases pr_seek_on h1 h2 offset with ⟨a1, a2, o, e1, e2, hr⟩ | ⟨e, e1, e2⟩
    · rw [e1, e2]
      dsimp only
      obtain ⟨b1, b2, w, f1, f2, hr2⟩ := pr_readExact_rel hr length
      rw [f1, f2]
      exact RelOut.toS ⟨hr2, rfl⟩
    · rw [e1, e2]
      exact ⟨h1, h2, rfl⟩

/-- **XML**: `extract_xml` fails on both readers or returns the same bytes on both, leaving
    equivalent readers -/
theorem extractXml_history_independent (r1 r2 : PR) (offset length : Nat)
    (h : r1.SameFileInv r2) :
    (extractXml r1 offset length = none ∧ extractXml r2 offset length = none) ∨
    (∃ a1 a2 bs, extractXml r1 offset length = some (a1, bs) ∧
      extractXml r2 offset length = some (a2, bs) ∧ a1.Equiv a2) := by
  unfold extractXml
  by_cases c : length > maxXmlSize
  · ifc c; exact .inl ⟨rfl, rfl⟩
  · ifc c
    rcases pr_seek_on h.on.1 h.on.2 offset with ⟨a1, a2, o, e1, e2, hr⟩ | ⟨e, e1, e2⟩
    · rw [e1, e2]
      dsimp only
      obtain ⟨b1, b2, w, f1, f2, hr2⟩ := pr_readExact_rel hr length
      rw [f1, f2]
      cases w with
      | none => exact .inl ⟨rfl, rfl⟩
      | some bs => exact .inr ⟨b1, b2, bs, rfl, rfl, hr2.equiv⟩
    · rw [e1, e2]
      exact .inl ⟨rfl, rfl⟩

/-- the header page check (`validate_header_page`) before `extract_xml` does not change what
    `extract_xml` returns: it only moves the cursor and fills the cache -/
theorem extractXml_after_check (r r2 : PR) (hinv : r.CacheInv) (h : checkHeaderPage r = some r2)
    (offset length : Nat) :
    (extractXml r2 offset length).map (·.2) = (extractXml r offset length).map (·.2) := by
  obtain ⟨i2, s2, -⟩ := checkHeaderPage_some r r2 hinv h
  have hs : r.SameFileInv r2 := (PR.On.self hinv).sameFileInv ((PR.On.self hinv).step s2 i2)
  rcases extractXml_history_independent r r2 offset length hs with ⟨e1, e2⟩ | ⟨a1, a2, bs, e1, e2, -⟩
  · rw [e1, e2]
  · rw [e1, e2]; rfl

theorem extractXml_equiv (offset length : Nat) {r1 r2 : PR} (h : r1.Equiv r2) :
    (extractXml r1 offset length = none ∧ extractXml r2 offset length = none) ∨
    (∃ a1 a2 bs, extractXml r1 offset length = some (a1, bs) ∧
      extractXml r2 offset length = some (a2, bs) ∧ a1.Equiv a2) :=
  extractXml_history_independent r1 r2 offset length h.sameFileInv

/-! ### creating the iterators -/

/-- `QueueReader::new` on two states of the same file: same result; when it succeeds the two
    states have the same cursor (the first packet); and so they have when they had before -/
theorem QR.new_on (pc : PointCloud) {F r1 r2 : PR} (h1 : F.On r1) (h2 : F.On r2) :
    RelOutS F (QR.new pc r1) (QR.new pc r2) ∧
    (((QR.new pc r1).2.isSome ∨ r1.offset = r2.offset) →
      F.Rel (QR.new pc r1).1 (QR.new pc r2).1) := by
  unfold QR.new
  rcases pr_seek_on h1 h2 pc.fileOffset with ⟨a1, a2, o, e1, e2, hr⟩ | ⟨e, e1, e2⟩
  · rw [e1, e2]
    dsimp only
    obtain ⟨b1, b2, w, f1, f2, hr2⟩ := (readCvHeader_resp F a1 a2 hr).ex
    rw [f1, f2]
    cases w with
    | none => exact relLeaf hr2 _ _
    | some t =>
      obtain ⟨sl, dOff, ix⟩ := t
      dsimp only
      rcases pr_seek_rel hr2 dOff with ⟨c1, c2, o', g1, g2, hr3⟩ | ⟨e, g1, g2⟩
      · rw [g1, g2]
        exact relLeaf hr3 _ _
      · rw [g1, g2]
        exact relLeaf hr2 _ _
  · rw [e1, e2]
    refine ⟨⟨h1, h2, rfl⟩, fun hs => ?_⟩
    rcases hs with hs | hs
    · cases hs
    · exact ⟨h1, h2, hs⟩

theorem QR.new_resp (pc : PointCloud) : Resp (QR.new pc) :=
  fun _ _ _ h => ⟨(QR.new_on pc h.1 h.2.1).2 (.inr h.2.2), (QR.new_on pc h.1 h.2.1).1.2.2⟩

/-- **`QueueReader::new`**: the same `Option QR` whatever happened before; the readers are on the
    same file, and equivalent when it succeeds -/
theorem QR.new_history_independent (pc : PointCloud) (r1 r2 : PR) (h : r1.SameFileInv r2) :
    (QR.new pc r1).2 = (QR.new pc r2).2 ∧ (QR.new pc r1).1.SameFileInv (QR.new pc r2).1 ∧
    ((QR.new pc r1).2.isSome → (QR.new pc r1).1.Equiv (QR.new pc r2).1) := by
  obtain ⟨⟨o1, o2, e⟩, hs⟩ := QR.new_on pc h.on.1 h.on.2
  exact ⟨e, o1.sameFileInv o2, fun x => (hs (.inl x)).equiv⟩

theorem QR.new_equiv (pc : PointCloud) {r1 r2 : PR} (h : r1.Equiv r2) :
    (QR.new pc r1).2 = (QR.new pc r2).2 ∧ (QR.new pc r1).1.Equiv (QR.new pc r2).1 :=
  (QR.new_resp pc).equiv h

/-- `PointCloudReaderRaw::new` (the driver builds the iterator this way) -/
def RawIter.new (pc : PointCloud) (r : PR) : PR × Option RawIter :=
  match QR.new pc r with
  | (r1, some q) => (r1, some ⟨q, pc.records, 0⟩)
  | (r1, none) => (r1, none)

theorem RawIter.new_on (pc : PointCloud) {F r1 r2 : PR} (h1 : F.On r1) (h2 : F.On r2) :
    RelOutS F (RawIter.new pc r1) (RawIter.new pc r2) ∧
    (((RawIter.new pc r1).2.isSome ∨ r1.offset = r2.offset) →
      F.Rel (RawIter.new pc r1).1 (RawIter.new pc r2).1) := by
  obtain ⟨⟨o1, o2, e⟩, hs⟩ := QR.new_on pc h1 h2
  unfold RawIter.new
  generalize QR.new pc r1 = x1 at o1 o2 e hs
  generalize QR.new pc r2 = x2 at o1 o2 e hs
  obtain ⟨a1, v1⟩ := x1
  obtain ⟨a2, v2⟩ := x2
  dsimp only at o1 o2 e hs
  subst e
  cases v1 with
  | none =>
    refine ⟨⟨o1, o2, rfl⟩, fun x => ?_⟩
    rcases x with x | x
    · cases x
    · exact hs (.inr x)
  | some q => exact ⟨⟨o1, o2, rfl⟩, fun _ => hs (.inl rfl)⟩

theorem SimpleIter.new_on (pc : PointCloud) {F r1 r2 : PR} (h1 : F.On r1) (h2 : F.On r2) :
    RelOutS F (SimpleIter.new pc r1) (SimpleIter.new pc r2) ∧
    (((SimpleIter.new pc r1).2.isSome ∨ r1.offset = r2.offset) →
      F.Rel (SimpleIter.new pc r1).1 (SimpleIter.new pc r2).1) := by
  obtain ⟨⟨o1, o2, e⟩, hs⟩ := QR.new_on pc h1 h2
  unfold SimpleIter.new
  generalize QR.new pc r1 = x1 at o1 o2 e hs
  generalize QR.new pc r2 = x2 at o1 o2 e hs
  obtain ⟨a1, v1⟩ := x1
  obtain ⟨a2, v2⟩ := x2
  dsimp only at o1 o2 e hs
  subst e
  cases v1 with
  | none =>
    refine ⟨⟨o1, o2, rfl⟩, fun x => ?_⟩
    rcases x with x | x
    · cases x
    · exact hs (.inr x)
  | some q => exact ⟨⟨o1, o2, rfl⟩, fun _ => hs (.inl rfl)⟩

/-- **`PointCloudReaderSimple::new`**: same iterator (or same failure) whatever happened before -/
theorem SimpleIter.new_history_independent (pc : PointCloud) (r1 r2 : PR) (h : r1.SameFileInv r2) :
    (SimpleIter.new pc r1).2 = (SimpleIter.new pc r2).2 ∧
    (SimpleIter.new pc r1).1.SameFileInv (SimpleIter.new pc r2).1 ∧
    ((SimpleIter.new pc r1).2.isSome → (SimpleIter.new pc r1).1.Equiv (SimpleIter.new pc r2).1) := by
  obtain ⟨⟨o1, o2, e⟩, hs⟩ := SimpleIter.new_on pc h.on.1 h.on.2
  exact ⟨e, o1.sameFileInv o2, fun x => (hs (.inl x)).equiv⟩

theorem SimpleIter.new_resp (pc : PointCloud) : Resp (SimpleIter.new pc) :=
  fun _ _ _ h =>
    ⟨(SimpleIter.new_on pc h.1 h.2.1).2 (.inr h.2.2), (SimpleIter.new_on pc h.1 h.2.1).1.2.2⟩

theorem SimpleIter.new_equiv (pc : PointCloud) {r1 r2 : PR} (h : r1.Equiv r2) :
    (SimpleIter.new pc r1).2 = (SimpleIter.new pc r2).2 ∧
    (SimpleIter.new pc r1).1.Equiv (SimpleIter.new pc r2).1 :=
  (SimpleIter.new_resp pc).equiv h

theorem RawIter.new_history_independent (pc : PointCloud) (r1 r2 : PR) (h : r1.SameFileInv r2) :
    (RawIter.new pc r1).2 = (RawIter.new pc r2).2 ∧
    (RawIter.new pc r1).1.SameFileInv (RawIter.new pc r2).1 ∧
    ((RawIter.new pc r1).2.isSome → (RawIter.new pc r1).1.Equiv (RawIter.new pc r2).1) := by
  obtain ⟨⟨o1, o2, e⟩, hs⟩ := RawIter.new_on pc h.on.1 h.on.2
  exact ⟨e, o1.sameFileInv o2, fun x => (hs (.inl x)).equiv⟩

/-! ### running the iterators -/

/-- the first `k` items of a raw iterator (and the reader state afterwards) -/
def rawRun : Nat → RawIter → PR → PR × List (Item (List Value))
  | 0, _, r => (r, [])
  | k + 1, it, r =>
    match it.next r with
    | (r1, it1, x) =>
      match rawRun k it1 r1 with
      | (r2, xs) => (r2, x :: xs)

/-- the first `k` items of a simple iterator -/
def simpleRun : Nat → SimpleIter → PR → PR × List (Item SPoint)
  | 0, _, r => (r, [])
  | k + 1, it, r =>
    match it.next r with
    | (r1, it1, x) =>
      match simpleRun k it1 r1 with
      | (r2, xs) => (r2, x :: xs)

theorem rawRun_resp (k : Nat) (it : RawIter) : Resp (rawRun k it) := by
  induction k generalizing it with
  | zero => intro F r1 r2 h; exact ⟨h, rfl⟩
  | succ k ih =>
    intro F r1 r2 h
    unfold rawRun
    obtain ⟨a1, a2, v, e1, e2, hr⟩ := (RawIter.next_resp it F r1 r2 h).ex
    rw [e1, e2]
    obtain ⟨it1, x⟩ := v
    dsimp only
    obtain ⟨b1, b2, xs, f1, f2, hr2⟩ := (ih it1 F a1 a2 hr).ex
    rw [f1, f2]
    exact ⟨hr2, rfl⟩

theorem simpleRun_resp (k : Nat) (it : SimpleIter) : Resp (simpleRun k it) := by
  induction k generalizing it with
  | zero => intro F r1 r2 h; exact ⟨h, rfl⟩
  | succ k ih =>
    intro F r1 r2 h
    unfold simpleRun
    obtain ⟨a1, a2, v, e1, e2, hr⟩ := (SimpleIter.next_resp it F r1 r2 h).ex
    rw [e1, e2]
    obtain ⟨it1, x⟩ := v
    dsimp only
    obtain ⟨b1, b2, xs, f1, f2, hr2⟩ := (ih it1 F a1 a2 hr).ex
    rw [f1, f2]
    exact ⟨hr2, rfl⟩

/-- the same iterator state driven on equivalent readers yields the same items -/
theorem rawRun_equiv (k : Nat) (it : RawIter) {r1 r2 : PR} (h : r1.Equiv r2) :
    (rawRun k it r1).2 = (rawRun k it r2).2 ∧ (rawRun k it r1).1.Equiv (rawRun k it r2).1 :=
  (rawRun_resp k it).equiv h

theorem simpleRun_equiv (k : Nat) (it : SimpleIter) {r1 r2 : PR} (h : r1.Equiv r2) :
    (simpleRun k it r1).2 = (simpleRun k it r2).2 ∧
    (simpleRun k it r1).1.Equiv (simpleRun k it r2).1 :=
  (simpleRun_resp k it).equiv h

/-- create a raw iterator and pull `k` items: `none` = could not be created -/
def rawOp (pc : PointCloud) (k : Nat) (r : PR) : PR × Option (List (Item (List Value))) :=
  match RawIter.new pc r with
  | (r1, some it) => ((rawRun k it r1).1, some (rawRun k it r1).2)
  | (r1, none) => (r1, none)

/-- create a simple iterator, set its options, pull `k` items -/
def simpleOp (pc : PointCloud) (opts : Options) (k : Nat) (r : PR) :
    PR × Option (List (Item SPoint)) :=
  match SimpleIter.new pc r with
  | (r1, some it) =>
    ((simpleRun k { it with opts := opts } r1).1, some (simpleRun k { it with opts := opts } r1).2)
  | (r1, none) => (r1, none)

theorem rawOp_respS (pc : PointCloud) (k : Nat) : RespS (rawOp pc k) := by
  intro F r1 r2 h1 h2
  obtain ⟨⟨o1, o2, e⟩, hs⟩ := RawIter.new_on pc h1 h2
  unfold rawOp
  generalize RawIter.new pc r1 = x1 at o1 o2 e hs
  generalize RawIter.new pc r2 = x2 at o1 o2 e hs
  obtain ⟨a1, v1⟩ := x1
  obtain ⟨a2, v2⟩ := x2
  dsimp only at o1 o2 e hs
  subst e
  cases v1 with
  | none => exact ⟨o1, o2, rfl⟩
  | some it =>
    obtain ⟨hr, hv⟩ := rawRun_resp k it F a1 a2 (hs (.inl rfl))
    exact ⟨hr.1, hr.2.1, congrArg some hv⟩

theorem simpleOp_respS (pc : PointCloud) (opts : Options) (k : Nat) : RespS (simpleOp pc opts k) := by
  intro F r1 r2 h1 h2
  obtain ⟨⟨o1, o2, e⟩, hs⟩ := SimpleIter.new_on pc h1 h2
  unfold simpleOp
  generalize SimpleIter.new pc r1 = x1 at o1 o2 e hs
  generalize SimpleIter.new pc r2 = x2 at o1 o2 e hs
  obtain ⟨a1, v1⟩ := x1
  obtain ⟨a2, v2⟩ := x2
  dsimp only at o1 o2 e hs
  subst e
  cases v1 with
  | none => exact ⟨o1, o2, rfl⟩
  | some it =>
    obtain ⟨hr, hv⟩ := simpleRun_resp k { it with opts := opts } F a1 a2 (hs (.inl rfl))
    exact ⟨hr.1, hr.2.1, congrArg some hv⟩

/-- **raw iterator**: iterators created on `r1` and on `r2` (any two states of the same open
    file) are the same iterator, and any number `k` of `next` calls yields the same list of items
    (values, errors, end marker) -/
theorem rawRun_history_independent (pc : PointCloud) (k : Nat) (r1 r2 : PR)
    (h : r1.SameFileInv r2) :
    (RawIter.new pc r1).2 = (RawIter.new pc r2).2 ∧
    (∀ it, (RawIter.new pc r1).2 = some it →
      (rawRun k it (RawIter.new pc r1).1).2 = (rawRun k it (RawIter.new pc r2).1).2 ∧
      (rawRun k it (RawIter.new pc r1).1).1.Equiv (rawRun k it (RawIter.new pc r2).1).1) ∧
    (rawOp pc k r1).2 = (rawOp pc k r2).2 ∧ (rawOp pc k r1).1.SameFileInv (rawOp pc k r2).1 := by
  obtain ⟨e, _, hs⟩ := RawIter.new_history_independent pc r1 r2 h
  refine ⟨e, fun it hit => ?_, (rawOp_respS pc k).hist h⟩
  exact rawRun_equiv k it (hs (by rw [hit]; rfl))

/-- **simple iterator**: the same, for every choice of options -/
theorem simpleRun_history_independent (pc : PointCloud) (opts : Options) (k : Nat) (r1 r2 : PR)
    (h : r1.SameFileInv r2) :
    (SimpleIter.new pc r1).2 = (SimpleIter.new pc r2).2 ∧
    (∀ it, (SimpleIter.new pc r1).2 = some it →
      (simpleRun k { it with opts := opts } (SimpleIter.new pc r1).1).2 =
        (simpleRun k { it with opts := opts } (SimpleIter.new pc r2).1).2 ∧
      (simpleRun k { it with opts := opts } (SimpleIter.new pc r1).1).1.Equiv
        (simpleRun k { it with opts := opts } (SimpleIter.new pc r2).1).1) ∧
    (simpleOp pc opts k r1).2 = (simpleOp pc opts k r2).2 ∧
    (simpleOp pc opts k r1).1.SameFileInv (simpleOp pc opts k r2).1 := by
  obtain ⟨e, _, hs⟩ := SimpleIter.new_history_independent pc r1 r2 h
  refine ⟨e, fun it hit => ?_, (simpleOp_respS pc opts k).hist h⟩
  exact simpleRun_equiv k _ (hs (by rw [hit]; rfl))

/-! ## 4. capstone: any history -/

/-- the read operations of an open reader.  An iterator mutably borrows the reader, so an
    iterator's life -- creation and any number `k` of `next` calls, up to and beyond errors and the
    end, or dropped half-way -- is one uninterrupted operation. -/
inductive ROp where
  | xml (offset length : Nat)
  | blob (b : BlobRef)
  | raw (pc : PointCloud) (k : Nat)
  | simple (pc : PointCloud) (opts : Options) (k : Nat)

/-- the observable answer of an operation -/
inductive Result where
  | bytes (o : Option Bytes)
  | rawItems (o : Option (List (Item (List Value))))
  | simpleItems (o : Option (List (Item SPoint)))

def runOp : ROp → PR → PR × Result
  | .xml off len, r => ((extractXmlSt r off len).1, .bytes (extractXmlSt r off len).2)
  | .blob b, r => ((blobRead r b).1, .bytes (blobRead r b).2)
  | .raw pc k, r => ((rawOp pc k r).1, .rawItems (rawOp pc k r).2)
  | .simple pc opts k, r => ((simpleOp pc opts k r).1, .simpleItems (simpleOp pc opts k r).2)

/-- the reader state after a history of operations (successful or not, iterators fully or
    partly consumed) -/
def runOps : List ROp → PR → PR
  | [], r => r
  | q :: h, r => runOps h (runOp q r).1

theorem runOp_respS (q : ROp) : RespS (runOp q) := by
  intro F r1 r2 h1 h2
  cases q with
  | xml off len =>
    obtain ⟨o1, o2, e⟩ := extractXmlSt_respS off len F r1 r2 h1 h2
    exact ⟨o1, o2, congrArg Result.bytes e⟩
  | blob b =>
    obtain ⟨o1, o2, e⟩ := blobRead_respS b F r1 r2 h1 h2
    exact ⟨o1, o2, congrArg Result.bytes e⟩
  | raw pc k =>
    obtain ⟨o1, o2, e⟩ := rawOp_respS pc k F r1 r2 h1 h2
    exact ⟨o1, o2, congrArg Result.rawItems e⟩
  | simple pc opts k =>
    obtain ⟨o1, o2, e⟩ := simpleOp_respS pc opts k F r1 r2 h1 h2
    exact ⟨o1, o2, congrArg Result.simpleItems e⟩

theorem runOps_on (h : List ROp) {F r : PR} (hr : F.On r) : F.On (runOps h r) := by
  induction h generalizing r with
  | nil => exact hr
  | cons q h ih => exact ih ((runOp_respS q).on hr)

/-- one operation on any two states of the same open file: same answer -/
theorem runOp_history_independent (q : ROp) (r1 r2 : PR) (h : r1.SameFileInv r2) :
    (runOp q r1).2 = (runOp q r2).2 ∧ (runOp q r1).1.SameFileInv (runOp q r2).1 :=
  (runOp_respS q).hist h

/-- **C17.**  On one open reader the answer of any read operation -- iterating a point cloud with
    either iterator, extracting a blob, fetching the XML -- after ANY history of operations
    (successful or failed, iterators consumed fully, partly, or past an error) equals the answer
    on the fresh reader. -/
theorem C17_history_independent (r0 : PR) (hinv : r0.CacheInv) (h : List ROp) (q : ROp) :
    (runOp q (runOps h r0)).2 = (runOp q r0).2 :=
  (runOp_respS q r0 _ _ (runOps_on h (PR.On.self hinv)) (PR.On.self hinv)).2.2

/-- the same for a reader just created by `PagedReader::new` -/
theorem C17_history_independent_new (dev : Dev) (ps : Nat) (r0 : PR) (hnew : PR.new dev ps = .ok r0)
    (h : List ROp) (q : ROp) : (runOp q (runOps h r0)).2 = (runOp q r0).2 :=
  C17_history_independent r0 (pr_new_inv dev ps r0 hnew) h q

/-- … and hence after any two histories -/
theorem C17_any_two_histories (r0 : PR) (hinv : r0.CacheInv) (h1 h2 : List ROp) (q : ROp) :
    (runOp q (runOps h1 r0)).2 = (runOp q (runOps h2 r0)).2 :=
  (C17_history_independent r0 hinv h1 q).trans (C17_history_independent r0 hinv h2 q).symm

/-! ### an opened `E57Reader` -/

/-- the paged reader of an opened `E57Reader` is a state of the file as `PagedReader::new` saw it -/
theorem Reader.open_pr (file : Bytes) (xo : XmlOracle) (fp : FloatParse) (rd : Reader)
    (h : Reader.open file xo fp = some rd) :
    ∃ r0, PR.new ⟨file, 48⟩ rd.header.pageSize = .ok r0 ∧ r0.SameFileInv rd.pr := by
  unfold Reader.open at h
  simp only [bind, Option.bind_eq_some_iff] at h
  obtain ⟨hd, _, r0, hnew, rc, hchk, x, hx, _, _, _, _, _, _, _, _, hrd⟩ := h
  cases hrd
  obtain ⟨r', bs⟩ := x
  have hnew' : PR.new ⟨file, 48⟩ hd.pageSize = .ok r0 := by
    cases hn : PR.new ⟨file, 48⟩ hd.pageSize with
    | ok a => rw [hn] at hnew; cases hnew; rfl
    | err e => rw [hn] at hnew; cases hnew
    | panic e => rw [hn] at hnew; cases hnew
  refine ⟨r0, hnew', ?_⟩
  have hon := PR.On.self (pr_new_inv _ _ _ hnew')
  -- the header page check leaves a state of the same file behind
  obtain ⟨ci, cs, -⟩ := checkHeaderPage_some r0 rc (pr_new_inv _ _ _ hnew') hchk
  have honc : r0.On rc := hon.step cs ci
  have : r0.On (extractXmlSt rc hd.xmlOffset hd.xmlLength).1 :=
    (extractXmlSt_respS hd.xmlOffset hd.xmlLength).on honc
  rw [(extractXmlSt_spec rc hd.xmlOffset hd.xmlLength).2 r' bs hx] at this
  exact hon.sameFileInv this

/-- **C17 for an opened `E57Reader`**: after any history of operations the answer of any read
    operation equals the answer right after opening, and the answer on the pristine paged reader
    (before even the XML section was read). -/
theorem C17_open (file : Bytes) (xo : XmlOracle) (fp : FloatParse) (rd : Reader)
    (h : Reader.open file xo fp = some rd) (hist : List ROp) (q : ROp) :
    (runOp q (runOps hist rd.pr)).2 = (runOp q rd.pr).2 ∧
    ∀ r0, PR.new ⟨file, 48⟩ rd.header.pageSize = .ok r0 →
      (runOp q (runOps hist rd.pr)).2 = (runOp q r0).2 := by
  obtain ⟨r0, hnew, hs⟩ := Reader.open_pr file xo fp rd h
  refine ⟨C17_history_independent rd.pr hs.2.2 hist q, fun r0' h' => ?_⟩
  rw [hnew] at h'
  cases h'
  exact (C17_history_independent rd.pr hs.2.2 hist q).trans
    (runOp_history_independent q r0 rd.pr hs).1.symm
/-! ## axioms used -/


end E57
