/-
Lexical lemmas about the scanners of `E57/Spec/XmlParse.lean`: what each of them does on an input of
the form `x ++ rest` when `x` is well-formed and `rest` starts with a delimiter.  Core Lean only.
-/
import E57.Spec.XmlParse
namespace E57.XmlP
open E57
set_option linter.unusedSimpArgs false
set_option linter.unusedVariables false

/-- the next character (if any) does not satisfy `p` -/
def Stops (p : Char → Bool) (rest : Str) : Prop := ∀ c r, rest = c :: r → p c = false

theorem Stops.nil (p) : Stops p [] := by intro c r h; cases h
theorem Stops.cons {p c r} (h : p c = false) : Stops p (c :: r) := by
  intro c' r' e; cases e; exact h

theorem takeWhile_append_stop {p : Char → Bool} {x rest : Str} (hx : x.all p = true) (hr : Stops p rest) :
    (x ++ rest).takeWhile p = x := by
  induction x with
  | nil =>
    cases rest with
    | nil => rfl
    | cons c r => simp [List.takeWhile, hr c r rfl]
  | cons a x ih =>
    simp only [List.all_cons, Bool.and_eq_true] at hx
    simp [List.takeWhile, hx.1, ih hx.2]

theorem dropWhile_append_stop {p : Char → Bool} {x rest : Str} (hx : x.all p = true) (hr : Stops p rest) :
    (x ++ rest).dropWhile p = rest := by
  induction x with
  | nil =>
    cases rest with
    | nil => rfl
    | cons c r => simp [List.dropWhile, hr c r rfl]
  | cons a x ih =>
    simp only [List.all_cons, Bool.and_eq_true] at hx
    simp [List.dropWhile, hx.1, ih hx.2]

theorem strip_append (p r : Str) : strip p (p ++ r) = some r := by
  induction p with
  | nil => cases r <;> rfl
  | cons a p ih => simp [strip, ih]

theorem strip_length {p s r : Str} (h : strip p s = some r) : r.length + p.length = s.length := by
  induction p generalizing s with
  | nil => cases s <;> simp_all [strip]
  | cons a p ih =>
    cases s with
    | nil => simp [strip] at h
    | cons c cs =>
      simp only [strip] at h
      split at h
      · have := ih h; simp only [List.length_cons]; omega
      · cases h

theorem scanUntil_length {t : Str} : ∀ {s a rem : Str}, scanUntil t s = some (a, rem) →
    rem.length + t.length ≤ s.length := by
  intro s
  induction s with
  | nil => intro a rem h; simp [scanUntil] at h
  | cons c cs ih =>
    intro a rem h
    simp only [scanUntil] at h
    split at h
    · rename_i rest hs
      have := strip_length hs
      simp only [Option.some.injEq, Prod.mk.injEq] at h
      obtain ⟨_, rfl⟩ := h
      omega
    · split at h
      · split at h
        · rename_i a' r' hsc
          simp only [Option.some.injEq, Prod.mk.injEq] at h
          obtain ⟨_, rfl⟩ := h
          have := ih hsc
          simp only [List.length_cons]; omega
        · cases h
      · cases h

theorem startsWith_append (p r : Str) : startsWith p (p ++ r) = true := by
  simp [startsWith, strip_append]

theorem skipSpaces_stop {s : Str} (h : Stops isSpace s) : skipSpaces s = s := by
  cases s with
  | nil => rfl
  | cons c r => simp [skipSpaces, List.dropWhile, h c r rfl]

/-! ### names -/

/-- a non-empty name without colon, by roxmltree's tables -/
def isNCNameL (s : Str) : Bool :=
  match s with
  | [] => false
  | c :: cs => isNameStartNC c && cs.all isNameCharNC

theorem isNameCharNC_ne_colon {c : Char} (h : isNameCharNC c = true) : c ≠ ':' := by
  rintro rfl; revert h; decide

theorem isNameStartNC_ne_colon {c : Char} (h : isNameStartNC c = true) : c ≠ ':' := by
  rintro rfl; revert h; decide

theorem inRanges_start_name {n : Nat} (h : inRanges n nameStartRanges = true) : inRanges n nameRanges = true := by
  simp only [inRanges, nameStartRanges, nameRanges, List.any_cons, List.any_nil, Bool.or_false, Bool.or_eq_true,
    Bool.and_eq_true, decide_eq_true_eq] at h ⊢
  omega

theorem isNameCharNC_of_start {c : Char} (h : isNameStartNC c = true) : isNameCharNC c = true := by
  unfold isNameStartNC at h
  unfold isNameCharNC
  by_cases hn : c.toNat ≤ 128
  · simp only [hn, if_true] at h ⊢
    simp only [Bool.or_eq_true] at h ⊢
    rcases h with h | h
    · exact Or.inl (Or.inl (Or.inl (Or.inl h)))
    · exact Or.inl (Or.inl (Or.inr h))
  · simp only [hn, if_false] at h ⊢
    exact inRanges_start_name h

theorem isNCNameL_all {s : Str} (h : isNCNameL s = true) : s.all isNameCharNC = true := by
  cases s with
  | nil => cases h
  | cons c cs =>
    simp only [isNCNameL, Bool.and_eq_true] at h
    simp [isNameCharNC_of_start h.1, h.2]

theorem isNCNameL_all_nameChar {s : Str} (h : isNCNameL s = true) : s.all isNameChar = true := by
  have := isNCNameL_all h
  rw [List.all_eq_true] at this ⊢
  intro c hc
  simp [isNameChar, this c hc]

theorem isNCNameL_no_colon {s : Str} (h : isNCNameL s = true) : s.all (· != ':') = true := by
  have := isNCNameL_all h
  rw [List.all_eq_true] at this ⊢
  intro c hc
  simpa using isNameCharNC_ne_colon (this c hc)

theorem isNCNameL_ne_nil {s : Str} (h : isNCNameL s = true) : s ≠ [] := by
  rintro rfl; cases h

theorem isNCNameL_startOk {s : Str} (h : isNCNameL s = true) : startOk s = true := by
  cases s with
  | nil => rfl
  | cons c cs =>
    simp only [isNCNameL, Bool.and_eq_true] at h
    simp [startOk, isNameStart, h.1]

theorem not_mem_colon {s : Str} (h : isNCNameL s = true) : ':' ∉ s := by
  have := isNCNameL_no_colon h
  rw [List.all_eq_true] at this
  intro hm
  simpa using this ':' hm

theorem contains_colon_false {s : Str} (h : isNCNameL s = true) : s.contains ':' = false := by
  apply Bool.eq_false_iff.mpr
  intro hc
  exact not_mem_colon h (by simpa using hc)

/-- an unprefixed name -/
theorem consumeQName_local {n rest : Str} (hn : isNCNameL n = true) (hr : Stops isNameChar rest) :
    consumeQName (n ++ rest) = some ([], n, rest) := by
  unfold consumeQName
  simp only [takeWhile_append_stop (isNCNameL_all_nameChar hn) hr,
    dropWhile_append_stop (isNCNameL_all_nameChar hn) hr]
  have h1 : n.dropWhile (· != ':') = [] := by
    have := dropWhile_append_stop (isNCNameL_no_colon hn) (Stops.nil _)
    simpa using this
  rw [h1]
  have hne : n.isEmpty = false := by cases n <;> simp_all [isNCNameL]
  simp [hne, isNCNameL_startOk hn]

/-- a prefixed name -/
theorem consumeQName_prefixed {p n rest : Str} (hp : isNCNameL p = true) (hn : isNCNameL n = true)
    (hr : Stops isNameChar rest) :
    consumeQName (p ++ ':' :: (n ++ rest)) = some (p, n, rest) := by
  have hall : (p ++ ':' :: n).all isNameChar = true := by
    simp [List.all_append, isNCNameL_all_nameChar hp, isNCNameL_all_nameChar hn, isNameChar]
  unfold consumeQName
  have e : p ++ ':' :: (n ++ rest) = (p ++ ':' :: n) ++ rest := by simp
  rw [e]
  simp only [takeWhile_append_stop hall hr, dropWhile_append_stop hall hr]
  have h1 : (p ++ ':' :: n).dropWhile (· != ':') = ':' :: n :=
    dropWhile_append_stop (isNCNameL_no_colon hp) (Stops.cons (by decide))
  have h2 : (p ++ ':' :: n).takeWhile (· != ':') = p :=
    takeWhile_append_stop (isNCNameL_no_colon hp) (Stops.cons (by decide))
  rw [h1, h2]
  have hne : n.isEmpty = false := by cases n <;> simp_all [isNCNameL]
  simp [not_mem_colon hn, hne, isNCNameL_startOk hn, isNCNameL_startOk hp]

/-! ### attribute values -/

theorem consumeEq_eq (r : Str) (h : Stops isSpace r) : consumeEq ('=' :: r) = some r := by
  simp [consumeEq, skipSpaces, List.dropWhile, isSpace]
  exact skipSpaces_stop h

theorem consumeValue_dq {v rest : Str} (hv : v.all (fun c => isXmlChar c && c != '"' && c != '<') = true) :
    consumeValue ('"' :: (v ++ '"' :: rest)) = some (v, rest) := by
  have h1 : v.all (fun c => c != '"' && c != '<') = true := by
    rw [List.all_eq_true] at hv ⊢
    intro c hc
    have := hv c hc
    simp only [Bool.and_eq_true] at this ⊢
    exact ⟨this.1.2, this.2⟩
  have h2 : v.all isXmlChar = true := by
    rw [List.all_eq_true] at hv ⊢
    intro c hc
    have := hv c hc
    simp only [Bool.and_eq_true] at this
    exact this.1.1
  have hs : Stops (fun c => c != '"' && c != '<') ('"' :: rest) := Stops.cons (by decide)
  simp only [consumeValue, List.cons_append]
  rw [takeWhile_append_stop h1 hs, dropWhile_append_stop h1 hs]
  simp [h2]

end E57.XmlP
