/-
Slow non-vacuity check for E57.Proofs.BlobRoundTrip, independent of its theorems: the concrete
models are run by the kernel.  The page writer gets 1010 bytes, then `blobWrite` of the 1100 bytes
`straddleData`: the 16-byte header straddles the first page boundary (logical 1010 … 1025, the
checksum bytes of page 0 in between), the data cross the second one.  The writer is flushed, the
device contents are opened with `PR.new` (all three page checksums are verified by the reader) and
`blobRead` of the returned descriptor gives back the data.  CRC-32C over three pages on both sides
is evaluated by the kernel: about 1.5 to 2 minutes.  Not imported by E57.lean.
-/
import E57.Proofs.BlobRoundTrip
namespace E57
namespace BlobRT

def straddleCheck : Bool :=
  match runConcrete [.write (List.replicate 1010 7)] w0 with
  | .ok pw =>
    match blobWrite pw straddleData with
    | .ok (pw', b) =>
      match PR.new ⟨pw'.flush.dev.data, 0⟩ 1024 with
      | .ok r0 => decide (b = ⟨1010, 1100⟩) && decide ((blobRead r0 b).2 = some straddleData)
      | _ => false
    | _ => false
  | _ => false

set_option maxRecDepth 100000 in
theorem straddleCheck_true : straddleCheck = true := by decide +kernel

end BlobRT
end E57
