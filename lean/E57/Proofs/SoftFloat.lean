/-
A soft-float model of IEEE-754 binary64 / binary32 for which the IEEE facts used by C13 are
THEOREMS.  Definitions: `E57/Model/SoftFloat.lean` (bit patterns, `Nat`/`Int`/`Rat` arithmetic,
cross-checked against the hardware `Float`/`Float32`); this file proves

  * `ilog2Q_spec`       the exponent search is correct: `2^e ≤ n/d < 2^(e+1)`
  * `rneDiv_spec`, `rneDiv_mono`   nearest-even rounding of a ratio: within 1/2, even on ties, monotone
  * `rndQ_mono`         the rounding function of a format on `ℚ` is monotone
  * `rndQ_rep`          numbers of the format (`Rep`, in particular every decoded pattern) are fixed
  * `rndQ_nearest`, `rep_rndQ`, `roundME_err`   `rndQ F x` IS round-to-nearest: it is a number of the
                        format, no number of the format is closer to `x`, it is within half a quantum,
                        and on a tie the mantissa is even
  * `roundMag_spec`, `decode_roundRat`   the bit pattern produced for a rational `q` is finite iff
                        `|rnd q| < OV = 2^(t+emax−1−emin)` (2^1024 / 2^128) and then denotes `rnd q`
  * `decode_mulB/subB/divB/castB/ofIntB`, `toU8B_spec`   exact meaning of the operations on finite
                        operands, any format
  * `rndQ_sub_ne_zero`  gradual underflow;  `half_range`  the overflow branch of `from_min_max`
  * `instIEEELikeSF64 : IEEELike SF64`   EVERY field of the class of `E57/Proofs/Normalise.lean`
                        proved, with `val := decode`, `rnd := rndQ b64`, `rnd32 := rndQ b32`
  * `C13_sf_*`          the C13 theorem family on `SF64` without any IEEE hypothesis
  * `colour_roundTrip`  (C20) the 8-bit colour table of the tools, by kernel evaluation

Everything generic is stated for an arbitrary format `F : Fmt`; the only side conditions are
`Fmt.Valid` (`1 ≤ t`, `2 ≤ emax`) and, for `half_range`, `4 ≤ emax`.

NOT proved here (validated by the differential test against the hardware only): the sign of zero
results, the choice NaN vs ∞ for the invalid operations, and `lt` on infinite operands — the
class `IEEELike` deliberately assumes nothing about them beyond "NaN/∞ in ⇒ NaN/∞ out".
-/
import E57.Model.SoftFloat
import E57.Proofs.Normalise
import Mathlib.Tactic.Positivity
import Mathlib.Tactic.NormNum
import Mathlib.Tactic.Lift
import Mathlib.Algebra.Order.Field.Power
import Mathlib.Data.Rat.Floor
import Mathlib.Algebra.Order.Floor.Semifield

namespace E57
namespace SF

/-! ## 1. powers of two -/

theorem two_zpow_pos (e : ℤ) : (0:ℚ) < 2 ^ e := zpow_pos (by norm_num) e

theorem two_zpow_ne (e : ℤ) : (2:ℚ) ^ e ≠ 0 := (two_zpow_pos e).ne'

theorem two_zpow_le {a b : ℤ} (h : a ≤ b) : (2:ℚ) ^ a ≤ 2 ^ b :=
  zpow_le_zpow_right₀ (by norm_num) h

theorem two_zpow_lt {a b : ℤ} (h : a < b) : (2:ℚ) ^ a < 2 ^ b :=
  zpow_lt_zpow_right₀ (by norm_num) h

theorem two_zpow_le_iff {a b : ℤ} : (2:ℚ) ^ a ≤ 2 ^ b ↔ a ≤ b :=
  zpow_le_zpow_iff_right₀ (by norm_num)

theorem two_zpow_lt_iff {a b : ℤ} : (2:ℚ) ^ a < 2 ^ b ↔ a < b :=
  zpow_lt_zpow_iff_right₀ (by norm_num)

theorem two_zpow_add (a b : ℤ) : (2:ℚ) ^ (a + b) = 2 ^ a * 2 ^ b := zpow_add₀ (by norm_num) a b

theorem two_zpow_sub (a b : ℤ) : (2:ℚ) ^ (a - b) = 2 ^ a / 2 ^ b := zpow_sub₀ (by norm_num) a b

theorem two_zpow_nat (k : ℕ) : (2:ℚ) ^ (k : ℤ) = ((2 ^ k : ℕ) : ℚ) := by
  rw [zpow_natCast]; norm_cast

theorem two_zpow_toNat {e : ℤ} (h : 0 ≤ e) : ((2 ^ e.toNat : ℕ) : ℚ) = (2:ℚ) ^ e := by
  rw [← two_zpow_nat, Int.toNat_of_nonneg h]

theorem two_zpow_neg_toNat {e : ℤ} (h : e ≤ 0) : ((2 ^ (-e).toNat : ℕ) : ℚ) = ((2:ℚ) ^ e)⁻¹ := by
  rw [← two_zpow_nat, Int.toNat_of_nonneg (by omega), zpow_neg]

theorem pow2_eq (e : ℤ) : pow2 e = (2:ℚ) ^ e := by
  unfold pow2
  split
  · rename_i h; exact two_zpow_toNat h
  · rename_i h
    rw [Rat.mkRat_eq_div, two_zpow_neg_toNat (by omega)]
    simp

/-! ## 2. the exponent search -/

theorem ilog2Q_bounds {n d : ℕ} (hn : 0 < n) (hd : 0 < d) :
    (2:ℚ) ^ ((n.log2 : ℤ) - d.log2 - 1) < (n:ℚ) / d ∧
    (n:ℚ) / d < 2 ^ ((n.log2 : ℤ) - d.log2 + 1) := by
  have hn1 : ((2 ^ n.log2 : ℕ) : ℚ) ≤ n := by exact_mod_cast Nat.log2_self_le hn.ne'
  have hn2 : (n : ℚ) < ((2 ^ (n.log2 + 1) : ℕ) : ℚ) := by exact_mod_cast Nat.lt_log2_self
  have hd1 : ((2 ^ d.log2 : ℕ) : ℚ) ≤ d := by exact_mod_cast Nat.log2_self_le hd.ne'
  have hd2 : (d : ℚ) < ((2 ^ (d.log2 + 1) : ℕ) : ℚ) := by exact_mod_cast Nat.lt_log2_self
  rw [← two_zpow_nat] at hn1 hn2 hd1 hd2
  have hdq : (0:ℚ) < d := by exact_mod_cast hd
  constructor
  · rw [lt_div_iff₀ hdq]
    calc (2:ℚ) ^ ((n.log2 : ℤ) - d.log2 - 1) * d
        < 2 ^ ((n.log2 : ℤ) - d.log2 - 1) * 2 ^ ((d.log2 + 1 : ℕ) : ℤ) :=
          mul_lt_mul_of_pos_left hd2 (two_zpow_pos _)
      _ = 2 ^ (n.log2 : ℤ) := by rw [← two_zpow_add]; congr 1; push_cast; ring
      _ ≤ n := hn1
  · rw [div_lt_iff₀ hdq]
    calc (n:ℚ) < 2 ^ ((n.log2 + 1 : ℕ) : ℤ) := hn2
      _ = 2 ^ ((n.log2 : ℤ) - d.log2 + 1) * 2 ^ (d.log2 : ℤ) := by
          rw [← two_zpow_add]; congr 1; push_cast; ring
      _ ≤ 2 ^ ((n.log2 : ℤ) - d.log2 + 1) * d :=
          mul_le_mul_of_nonneg_left hd1 (two_zpow_pos _).le

/-- the test made by `ilog2Q` -/
theorem ilog2Q_test {n d : ℕ} (hd : 0 < d) (e0 : ℤ) :
    (if 0 ≤ e0 then decide (d * 2 ^ e0.toNat ≤ n) else decide (d ≤ n * 2 ^ (-e0).toNat)) = true ↔
      (2:ℚ) ^ e0 ≤ (n:ℚ) / d := by
  have hdq : (0:ℚ) < d := by exact_mod_cast hd
  rw [le_div_iff₀ hdq]
  split
  · rename_i h
    rw [decide_eq_true_iff, ← two_zpow_toNat h, mul_comm]
    norm_cast
  · rename_i h
    have h' : e0 ≤ 0 := by omega
    rw [decide_eq_true_iff]
    have : (2:ℚ) ^ e0 = (((2 ^ (-e0).toNat : ℕ) : ℚ))⁻¹ := by
      rw [two_zpow_neg_toNat h', inv_inv]
    rw [this, inv_mul_le_iff₀ (by positivity)]
    rw [mul_comm]
    norm_cast

theorem ilog2Q_eq {n d : ℕ} (hd : 0 < d) :
    ilog2Q n d = if (2:ℚ) ^ ((n.log2 : ℤ) - d.log2) ≤ (n:ℚ) / d then (n.log2 : ℤ) - d.log2
      else (n.log2 : ℤ) - d.log2 - 1 := by
  have ht := ilog2Q_test (n := n) hd ((n.log2 : ℤ) - d.log2)
  unfold ilog2Q
  simp only
  generalize ((n.log2 : ℤ) - d.log2) = e0 at *
  by_cases h0 : 0 ≤ e0
  · simp only [h0, if_true, decide_eq_true_iff] at ht ⊢
    by_cases hc : d * 2 ^ e0.toNat ≤ n
    · rw [if_pos hc, if_pos (ht.mp hc)]
    · rw [if_neg hc, if_neg (fun h => hc (ht.mpr h))]
  · simp only [h0, if_false, decide_eq_true_iff] at ht ⊢
    by_cases hc : d ≤ n * 2 ^ (-e0).toNat
    · rw [if_pos hc, if_pos (ht.mp hc)]
    · rw [if_neg hc, if_neg (fun h => hc (ht.mpr h))]

/-- **correctness of the exponent search**: `2^e ≤ n/d < 2^(e+1)` -/
theorem ilog2Q_spec {n d : ℕ} (hn : 0 < n) (hd : 0 < d) :
    (2:ℚ) ^ ilog2Q n d ≤ (n:ℚ) / d ∧ (n:ℚ) / d < 2 ^ (ilog2Q n d + 1) := by
  obtain ⟨h1, h2⟩ := ilog2Q_bounds hn hd
  rw [ilog2Q_eq hd]
  generalize ((n.log2 : ℤ) - d.log2) = e0 at *
  by_cases hc : (2:ℚ) ^ e0 ≤ (n:ℚ) / d
  · rw [if_pos hc]; exact ⟨hc, h2⟩
  · rw [if_neg hc]
    refine ⟨h1.le, ?_⟩
    rw [sub_add_cancel]; exact not_le.mp hc

/-- the binade of a positive rational is unique -/
theorem binade_unique {x : ℚ} {a b : ℤ} (ha1 : (2:ℚ) ^ a ≤ x) (ha2 : x < 2 ^ (a + 1))
    (hb1 : (2:ℚ) ^ b ≤ x) (hb2 : x < 2 ^ (b + 1)) : a = b := by
  have h1 : a < b + 1 := two_zpow_lt_iff.mp (lt_of_le_of_lt ha1 hb2)
  have h2 : b < a + 1 := two_zpow_lt_iff.mp (lt_of_le_of_lt hb1 ha2)
  omega

/-! ## 3. round to nearest, ties to even -/

/-- `rneDiv n d` is within 1/2 of `n/d`, and is even when `n/d` is half-way -/
theorem rneDiv_spec (n : ℕ) {d : ℕ} (hd : 0 < d) :
    ((rneDiv n d : ℕ) : ℚ) - 1 / 2 ≤ (n:ℚ) / d ∧ (n:ℚ) / d ≤ (rneDiv n d : ℕ) + 1 / 2 ∧
    (((n:ℚ) / d = (rneDiv n d : ℕ) + 1 / 2 ∨ (n:ℚ) / d = (rneDiv n d : ℕ) - 1 / 2) →
      rneDiv n d % 2 = 0) := by
  have hdq : (0:ℚ) < d := by exact_mod_cast hd
  have hdm : d * (n / d) + n % d = n := Nat.div_add_mod n d
  have hr : n % d < d := Nat.mod_lt n hd
  have hN : (n:ℚ) = d * ((n / d : ℕ) : ℚ) + ((n % d : ℕ) : ℚ) := by exact_mod_cast hdm.symm
  have hrq : ((n % d : ℕ) : ℚ) < d := by exact_mod_cast hr
  have hr0 : (0:ℚ) ≤ ((n % d : ℕ) : ℚ) := Nat.cast_nonneg _
  unfold rneDiv
  simp only
  generalize n / d = q at *
  generalize n % d = r at *
  have hx : (n:ℚ) / d = q + (r:ℚ) / d := by rw [hN]; field_simp
  rw [hx]
  have hρ0 : (0:ℚ) ≤ (r:ℚ) / d := div_nonneg hr0 hdq.le
  by_cases h1 : 2 * r < d
  · have h1q : 2 * (r:ℚ) < d := by exact_mod_cast h1
    have hρ : (r:ℚ) / d < 1 / 2 := by rw [div_lt_iff₀ hdq]; linarith
    rw [if_pos h1]
    refine ⟨by linarith, by linarith, ?_⟩
    rintro (h | h) <;> exfalso <;> linarith
  · rw [if_neg h1]
    by_cases h2 : d < 2 * r
    · have h2q : (d:ℚ) < 2 * r := by exact_mod_cast h2
      have hρ : 1 / 2 < (r:ℚ) / d := by rw [lt_div_iff₀ hdq]; linarith
      have hρ1 : (r:ℚ) / d < 1 := by rw [div_lt_iff₀ hdq]; linarith
      rw [if_pos h2]
      push_cast
      refine ⟨by linarith, by linarith, ?_⟩
      rintro (h | h) <;> exfalso <;> linarith
    · rw [if_neg h2]
      have h3 : 2 * r = d := by omega
      have h3q : 2 * (r:ℚ) = d := by exact_mod_cast h3
      have hρ : (r:ℚ) / d = 1 / 2 := by rw [div_eq_iff hdq.ne']; linarith
      have hq2 : (q % 2 = 0) ∨ (q % 2 = 1) := by omega
      rcases hq2 with hq2 | hq2
      · rw [hq2]
        refine ⟨by push_cast; linarith, by push_cast; linarith, fun _ => by omega⟩
      · rw [hq2]
        refine ⟨by push_cast; linarith, by push_cast; linarith, fun _ => by omega⟩

/-- numbers on the integer grid below `n/d` stay below its rounding -/
theorem rneDiv_ge {n d j : ℕ} (hd : 0 < d) (h : (j:ℚ) ≤ (n:ℚ) / d) : j ≤ rneDiv n d := by
  obtain ⟨-, h2, -⟩ := rneDiv_spec n hd
  by_contra hc
  have : rneDiv n d + 1 ≤ j := by omega
  have : ((rneDiv n d : ℕ) : ℚ) + 1 ≤ j := by exact_mod_cast this
  linarith

/-- numbers on the integer grid above `n/d` stay above its rounding -/
theorem rneDiv_le {n d j : ℕ} (hd : 0 < d) (h : (n:ℚ) / d ≤ j) : rneDiv n d ≤ j := by
  obtain ⟨h1, -, -⟩ := rneDiv_spec n hd
  by_contra hc
  have : j + 1 ≤ rneDiv n d := by omega
  have : (j:ℚ) + 1 ≤ ((rneDiv n d : ℕ) : ℚ) := by exact_mod_cast this
  linarith

/-- rounding to nearest-even is monotone (across different denominators) -/
theorem rneDiv_mono {n1 d1 n2 d2 : ℕ} (hd1 : 0 < d1) (hd2 : 0 < d2)
    (h : (n1:ℚ) / d1 ≤ (n2:ℚ) / d2) : rneDiv n1 d1 ≤ rneDiv n2 d2 := by
  obtain ⟨a1, -, a3⟩ := rneDiv_spec n1 hd1
  obtain ⟨-, b2, b3⟩ := rneDiv_spec n2 hd2
  by_contra hc
  have hk : rneDiv n2 d2 + 1 ≤ rneDiv n1 d1 := by omega
  have hkq : ((rneDiv n2 d2 : ℕ) : ℚ) + 1 ≤ ((rneDiv n1 d1 : ℕ) : ℚ) := by exact_mod_cast hk
  have e1 : (n1:ℚ) / d1 = (rneDiv n1 d1 : ℕ) - 1 / 2 := by linarith
  have e2 : (n2:ℚ) / d2 = (rneDiv n2 d2 : ℕ) + 1 / 2 := by linarith
  have e3 : ((rneDiv n1 d1 : ℕ) : ℚ) = (rneDiv n2 d2 : ℕ) + 1 := by linarith
  have e3' : rneDiv n1 d1 = rneDiv n2 d2 + 1 := by exact_mod_cast e3
  have := a3 (Or.inr e1)
  have := b3 (Or.inl e2)
  omega

/-- the rounding depends on the ratio only -/
theorem rneDiv_congr {n1 d1 n2 d2 : ℕ} (hd1 : 0 < d1) (hd2 : 0 < d2)
    (h : (n1:ℚ) / d1 = (n2:ℚ) / d2) : rneDiv n1 d1 = rneDiv n2 d2 :=
  le_antisymm (rneDiv_mono hd1 hd2 h.le) (rneDiv_mono hd2 hd1 h.ge)

/-! ## 4. rounding a positive ratio to mantissa and quantum exponent -/

/-- value denoted by a mantissa / quantum-exponent pair -/
def valME (me : ℕ × ℤ) : ℚ := (me.1 : ℚ) * 2 ^ me.2

theorem roundME_snd (F : Fmt) (n d : ℕ) : (roundME F n d).2 = qexp F (ilog2Q n d) := rfl

/-- the mantissa is the nearest-even rounding of the ratio scaled by the quantum -/
theorem roundME_fst (F : Fmt) (n : ℕ) {d : ℕ} (hd : 0 < d) :
    ∃ num den : ℕ, 0 < den ∧ (num:ℚ) / den = (n:ℚ) / d / 2 ^ (qexp F (ilog2Q n d)) ∧
      (roundME F n d).1 = rneDiv num den := by
  have hdq : (0:ℚ) < d := by exact_mod_cast hd
  unfold roundME
  simp only
  generalize qexp F (ilog2Q n d) = qe
  by_cases h : 0 ≤ qe
  · refine ⟨n, d * 2 ^ qe.toNat, Nat.mul_pos hd (Nat.pos_of_ne_zero (by positivity)), ?_, by rw [if_pos h]⟩
    rw [Nat.cast_mul, two_zpow_toNat h, div_div]
  · refine ⟨n * 2 ^ (-qe).toNat, d, hd, ?_, by rw [if_neg h]⟩
    rw [Nat.cast_mul, two_zpow_neg_toNat (by omega)]
    field_simp

theorem qexp_mono (F : Fmt) {a b : ℤ} (h : a ≤ b) : qexp F a ≤ qexp F b := by
  unfold qexp; omega

theorem qexp_ge (F : Fmt) (e : ℤ) : -(F.emin : ℤ) ≤ qexp F e := by unfold qexp; omega

theorem qexp_ge' (F : Fmt) (e : ℤ) : e - F.t ≤ qexp F e := by unfold qexp; omega

theorem ilog2Q_congr {n1 d1 n2 d2 : ℕ} (hn1 : 0 < n1) (hd1 : 0 < d1) (hn2 : 0 < n2) (hd2 : 0 < d2)
    (h : (n1:ℚ) / d1 = (n2:ℚ) / d2) : ilog2Q n1 d1 = ilog2Q n2 d2 := by
  obtain ⟨a1, a2⟩ := ilog2Q_spec hn1 hd1
  obtain ⟨b1, b2⟩ := ilog2Q_spec hn2 hd2
  rw [h] at a1 a2
  exact binade_unique a1 a2 b1 b2

theorem ilog2Q_mono {n1 d1 n2 d2 : ℕ} (hn1 : 0 < n1) (hd1 : 0 < d1) (hn2 : 0 < n2) (hd2 : 0 < d2)
    (h : (n1:ℚ) / d1 ≤ (n2:ℚ) / d2) : ilog2Q n1 d1 ≤ ilog2Q n2 d2 := by
  obtain ⟨a1, -⟩ := ilog2Q_spec hn1 hd1
  obtain ⟨-, b2⟩ := ilog2Q_spec hn2 hd2
  have : ilog2Q n1 d1 < ilog2Q n2 d2 + 1 := two_zpow_lt_iff.mp (lt_of_le_of_lt (a1.trans h) b2)
  omega

/-- the result depends on the ratio only -/
theorem roundME_congr (F : Fmt) {n1 d1 n2 d2 : ℕ} (hn1 : 0 < n1) (hd1 : 0 < d1) (hn2 : 0 < n2)
    (hd2 : 0 < d2) (h : (n1:ℚ) / d1 = (n2:ℚ) / d2) : roundME F n1 d1 = roundME F n2 d2 := by
  have he := ilog2Q_congr hn1 hd1 hn2 hd2 h
  obtain ⟨u1, v1, hv1, r1, m1⟩ := roundME_fst F n1 hd1
  obtain ⟨u2, v2, hv2, r2, m2⟩ := roundME_fst F n2 hd2
  refine Prod.ext ?_ ?_
  · rw [m1, m2]
    refine rneDiv_congr hv1 hv2 ?_
    rw [r1, r2, he, h]
  · rw [roundME_snd, roundME_snd, he]

/-- grid numbers `j·2^q` of a quantum at least as coarse as the one used, above the ratio, stay
    above its rounding -/
theorem roundME_le_grid (F : Fmt) {n d : ℕ} (hd : 0 < d) {j : ℕ} {q : ℤ}
    (hq : (roundME F n d).2 ≤ q) (h : (n:ℚ) / d ≤ (j:ℚ) * 2 ^ q) :
    valME (roundME F n d) ≤ (j:ℚ) * 2 ^ q := by
  obtain ⟨u, v, hv, hr, hm⟩ := roundME_fst F n hd
  rw [roundME_snd] at hq
  unfold valME
  rw [roundME_snd, hm]
  generalize qexp F (ilog2Q n d) = qe at *
  have hpos := two_zpow_pos qe
  have hJ : (j:ℚ) * 2 ^ q = ((j * 2 ^ (q - qe).toNat : ℕ) : ℚ) * 2 ^ qe := by
    rw [Nat.cast_mul, two_zpow_toNat (by omega), mul_assoc, ← two_zpow_add]; congr 2; ring
  rw [hJ] at h ⊢
  have : rneDiv u v ≤ j * 2 ^ (q - qe).toNat := by
    apply rneDiv_le hv
    rw [hr, div_le_iff₀ hpos]; exact h
  exact mul_le_mul_of_nonneg_right (by exact_mod_cast this) hpos.le

theorem roundME_ge_grid (F : Fmt) {n d : ℕ} (hd : 0 < d) {j : ℕ} {q : ℤ}
    (hq : (roundME F n d).2 ≤ q) (h : (j:ℚ) * 2 ^ q ≤ (n:ℚ) / d) :
    (j:ℚ) * 2 ^ q ≤ valME (roundME F n d) := by
  obtain ⟨u, v, hv, hr, hm⟩ := roundME_fst F n hd
  rw [roundME_snd] at hq
  unfold valME
  rw [roundME_snd, hm]
  generalize qexp F (ilog2Q n d) = qe at *
  have hpos := two_zpow_pos qe
  have hJ : (j:ℚ) * 2 ^ q = ((j * 2 ^ (q - qe).toNat : ℕ) : ℚ) * 2 ^ qe := by
    rw [Nat.cast_mul, two_zpow_toNat (by omega), mul_assoc, ← two_zpow_add]; congr 2; ring
  rw [hJ] at h ⊢
  have : j * 2 ^ (q - qe).toNat ≤ rneDiv u v := by
    apply rneDiv_ge hv
    rw [hr, le_div_iff₀ hpos]; exact h
  exact mul_le_mul_of_nonneg_right (by exact_mod_cast this) hpos.le

/-- the numbers of the format with the exponent unbounded above: `j·2^q`, `j < 2^(t+1)`,
    `q ≥ −emin` -/
def OnGrid (F : Fmt) (c : ℚ) : Prop :=
  ∃ (j : ℕ) (q : ℤ), j < 2 ^ (F.t + 1) ∧ -(F.emin : ℤ) ≤ q ∧ c = (j:ℚ) * 2 ^ q

theorem two_pow_cast (k : ℕ) : ((2 ^ k : ℕ) : ℚ) = (2:ℚ) ^ (k : ℤ) := (two_zpow_nat k).symm

/-- a grid number above the ratio stays above its rounding -/
theorem roundME_le_of_onGrid (F : Fmt) {n d : ℕ} (hn : 0 < n) (hd : 0 < d) {c : ℚ}
    (hc : OnGrid F c) (h : (n:ℚ) / d ≤ c) : valME (roundME F n d) ≤ c := by
  obtain ⟨j, q, hj, hq, rfl⟩ := hc
  refine roundME_le_grid F hd ?_ h
  obtain ⟨e1, -⟩ := ilog2Q_spec hn hd
  have hjq : (j:ℚ) < 2 ^ ((F.t : ℤ) + 1) := by
    have : (j:ℚ) < ((2 ^ (F.t + 1) : ℕ) : ℚ) := by exact_mod_cast hj
    rw [two_pow_cast] at this; exact_mod_cast this
  have : (2:ℚ) ^ ilog2Q n d < 2 ^ ((F.t : ℤ) + 1 + q) := by
    rw [two_zpow_add]
    calc (2:ℚ) ^ ilog2Q n d ≤ (j:ℚ) * 2 ^ q := e1.trans h
      _ < _ := mul_lt_mul_of_pos_right hjq (two_zpow_pos q)
  have := two_zpow_lt_iff.mp this
  rw [roundME_snd]; unfold qexp; omega

/-- a grid number below the ratio stays below its rounding -/
theorem roundME_ge_of_onGrid (F : Fmt) {n d : ℕ} (hn : 0 < n) (hd : 0 < d) {c : ℚ}
    (hc : OnGrid F c) (h : c ≤ (n:ℚ) / d) : c ≤ valME (roundME F n d) := by
  obtain ⟨j, q, hj, hq, rfl⟩ := hc
  by_cases hle : (roundME F n d).2 ≤ q
  · exact roundME_ge_grid F hd hle h
  · obtain ⟨e1, -⟩ := ilog2Q_spec hn hd
    have hqe : (roundME F n d).2 = ilog2Q n d - F.t := by
      rw [roundME_snd] at hle ⊢; unfold qexp at hle ⊢; omega
    have hjq : (j:ℚ) < 2 ^ ((F.t : ℤ) + 1) := by
      have : (j:ℚ) < ((2 ^ (F.t + 1) : ℕ) : ℚ) := by exact_mod_cast hj
      rw [two_pow_cast] at this; exact_mod_cast this
    have h2 : (2:ℚ) ^ ilog2Q n d ≤ valME (roundME F n d) := by
      have := roundME_ge_grid F hd (j := 2 ^ F.t) (q := (roundME F n d).2) le_rfl
        (by rw [two_pow_cast, ← two_zpow_add, hqe]; convert e1 using 2; ring)
      rw [two_pow_cast, ← two_zpow_add, hqe] at this
      convert this using 2; ring
    calc (j:ℚ) * 2 ^ q ≤ 2 ^ ((F.t : ℤ) + 1) * 2 ^ q :=
          mul_le_mul_of_nonneg_right hjq.le (two_zpow_pos q).le
      _ = 2 ^ ((F.t : ℤ) + 1 + q) := (two_zpow_add _ _).symm
      _ ≤ 2 ^ ilog2Q n d := two_zpow_le (by rw [hqe] at hle; omega)
      _ ≤ _ := h2

/-- **monotonicity of rounding** on positive ratios -/
theorem roundME_mono (F : Fmt) {n1 d1 n2 d2 : ℕ} (hn1 : 0 < n1) (hd1 : 0 < d1) (hn2 : 0 < n2)
    (hd2 : 0 < d2) (h : (n1:ℚ) / d1 ≤ (n2:ℚ) / d2) :
    valME (roundME F n1 d1) ≤ valME (roundME F n2 d2) := by
  have he := ilog2Q_mono hn1 hd1 hn2 hd2 h
  have hq := qexp_mono F he
  rcases hq.lt_or_eq with hlt | heq
  · -- different quanta: `2^e₂` separates the two roundings
    obtain ⟨-, a2⟩ := ilog2Q_spec hn1 hd1
    obtain ⟨b1, -⟩ := ilog2Q_spec hn2 hd2
    have hq2 : qexp F (ilog2Q n2 d2) = ilog2Q n2 d2 - F.t := by unfold qexp at hlt ⊢; omega
    have helt : ilog2Q n1 d1 < ilog2Q n2 d2 := by unfold qexp at hlt; omega
    have hmid : (n1:ℚ) / d1 ≤ 2 ^ ilog2Q n2 d2 := a2.le.trans (two_zpow_le (by omega))
    have k1 : valME (roundME F n1 d1) ≤ 2 ^ ilog2Q n2 d2 := by
      have e : (2:ℚ) ^ ilog2Q n2 d2 =
          ((2 ^ (ilog2Q n2 d2 - qexp F (ilog2Q n1 d1)).toNat : ℕ) : ℚ) * 2 ^ qexp F (ilog2Q n1 d1) := by
        rw [two_zpow_toNat (by omega), ← two_zpow_add]; congr 1; ring
      rw [e] at hmid ⊢
      exact roundME_le_grid F hd1 (by rw [roundME_snd]) hmid
    have k2 : (2:ℚ) ^ ilog2Q n2 d2 ≤ valME (roundME F n2 d2) := by
      have e : (2:ℚ) ^ ilog2Q n2 d2 = ((2 ^ F.t : ℕ) : ℚ) * 2 ^ qexp F (ilog2Q n2 d2) := by
        rw [two_pow_cast, ← two_zpow_add, hq2]; congr 1; ring
      rw [e] at b1 ⊢
      exact roundME_ge_grid F hd2 (by rw [roundME_snd]) b1
    exact k1.trans k2
  · -- same quantum: nearest-even rounding is monotone
    obtain ⟨u1, v1, hv1, r1, m1⟩ := roundME_fst F n1 hd1
    obtain ⟨u2, v2, hv2, r2, m2⟩ := roundME_fst F n2 hd2
    unfold valME
    rw [roundME_snd, roundME_snd, m1, m2, ← heq]
    refine mul_le_mul_of_nonneg_right ?_ (two_zpow_pos _).le
    have : rneDiv u1 v1 ≤ rneDiv u2 v2 := by
      refine rneDiv_mono hv1 hv2 ?_
      rw [r1, r2, ← heq]
      exact div_le_div_of_nonneg_right h (two_zpow_pos _).le
    exact_mod_cast this

/-! ## 5. the rounding function on `ℚ` -/

/-- rounding of a positive rational -/
def rpos (F : Fmt) (x : ℚ) : ℚ := valME (roundME F x.num.natAbs x.den)

theorem natAbs_num_pos {x : ℚ} (h : 0 < x) : 0 < x.num.natAbs :=
  Int.natAbs_pos.mpr (Rat.num_pos.mpr h).ne'

theorem natAbs_num_div_den {x : ℚ} (h : 0 < x) : (x.num.natAbs : ℚ) / x.den = x := by
  have hp : 0 < x.num := Rat.num_pos.mpr h
  have e' : (x.num.natAbs : ℚ) = (x.num : ℚ) := by rw [Nat.cast_natAbs, abs_of_pos hp]
  rw [e', Rat.num_div_den]

theorem ratio_pos {n d : ℕ} (hn : 0 < n) (hd : 0 < d) : (0:ℚ) < (n:ℚ) / d :=
  div_pos (by exact_mod_cast hn) (by exact_mod_cast hd)

/-- the pair computed from any representation `n/d` denotes `rpos (n/d)` -/
theorem valME_roundME (F : Fmt) {n d : ℕ} (hn : 0 < n) (hd : 0 < d) :
    valME (roundME F n d) = rpos F ((n:ℚ) / d) := by
  have hx := ratio_pos hn hd
  unfold rpos
  rw [roundME_congr F hn hd (natAbs_num_pos hx) (Rat.den_pos _) (natAbs_num_div_den hx).symm]

theorem rpos_nonneg (F : Fmt) (x : ℚ) : 0 ≤ rpos F x := by
  unfold rpos valME; exact mul_nonneg (Nat.cast_nonneg _) (two_zpow_pos _).le

theorem rpos_mono (F : Fmt) {x y : ℚ} (hx : 0 < x) (h : x ≤ y) : rpos F x ≤ rpos F y := by
  have hy : 0 < y := lt_of_lt_of_le hx h
  unfold rpos
  refine roundME_mono F (natAbs_num_pos hx) (Rat.den_pos _) (natAbs_num_pos hy) (Rat.den_pos _) ?_
  rw [natAbs_num_div_den hx, natAbs_num_div_den hy]; exact h

theorem rpos_le_of_onGrid (F : Fmt) {x c : ℚ} (hx : 0 < x) (hc : OnGrid F c) (h : x ≤ c) :
    rpos F x ≤ c := by
  unfold rpos
  refine roundME_le_of_onGrid F (natAbs_num_pos hx) (Rat.den_pos _) hc ?_
  rw [natAbs_num_div_den hx]; exact h

theorem rpos_ge_of_onGrid (F : Fmt) {x c : ℚ} (hx : 0 < x) (hc : OnGrid F c) (h : c ≤ x) :
    c ≤ rpos F x := by
  unfold rpos
  refine roundME_ge_of_onGrid F (natAbs_num_pos hx) (Rat.den_pos _) hc ?_
  rw [natAbs_num_div_den hx]; exact h

/-- grid numbers are fixed -/
theorem rpos_onGrid (F : Fmt) {c : ℚ} (hc : OnGrid F c) (h : 0 < c) : rpos F c = c :=
  le_antisymm (rpos_le_of_onGrid F h hc le_rfl) (rpos_ge_of_onGrid F h hc le_rfl)

/-- the model's `rndQ`, case by case -/
theorem rndQ_zero (F : Fmt) : rndQ F 0 = 0 := by simp [rndQ]

theorem rndQ_pos (F : Fmt) {x : ℚ} (h : 0 < x) : rndQ F x = rpos F x := by
  have hp : 0 < x.num := Rat.num_pos.mpr h
  unfold rndQ rpos valME
  rw [if_neg hp.ne', if_neg (by omega), pow2_eq]

theorem rndQ_neg (F : Fmt) {x : ℚ} (h : x < 0) : rndQ F x = - rpos F (-x) := by
  have hp : x.num < 0 := Rat.num_neg.mpr h
  unfold rndQ rpos valME
  rw [if_neg hp.ne, if_pos hp, pow2_eq, Rat.num_neg_eq_neg_num, Int.natAbs_neg, Rat.den_neg_eq_den]

theorem rndQ_neg' (F : Fmt) (x : ℚ) : rndQ F (-x) = - rndQ F x := by
  rcases lt_trichotomy x 0 with h | h | h
  · rw [rndQ_neg F h, rndQ_pos F (by linarith : 0 < -x)]; ring
  · subst h; simp [rndQ_zero]
  · rw [rndQ_pos F h, rndQ_neg F (by linarith : -x < 0), neg_neg]

theorem rndQ_nonneg (F : Fmt) {x : ℚ} (h : 0 ≤ x) : 0 ≤ rndQ F x := by
  rcases h.lt_or_eq with h | h
  · rw [rndQ_pos F h]; exact rpos_nonneg F x
  · rw [← h, rndQ_zero]

theorem rndQ_nonpos (F : Fmt) {x : ℚ} (h : x ≤ 0) : rndQ F x ≤ 0 := by
  have := rndQ_nonneg F (by linarith : 0 ≤ -x)
  rw [rndQ_neg'] at this; linarith

/-- **rounding is monotone** -/
theorem rndQ_mono (F : Fmt) {a b : ℚ} (h : a ≤ b) : rndQ F a ≤ rndQ F b := by
  rcases lt_trichotomy a 0 with ha | ha | ha
  · rcases lt_or_ge b 0 with hb | hb
    · rw [rndQ_neg F ha, rndQ_neg F hb]
      have := rpos_mono F (by linarith : 0 < -b) (by linarith : -b ≤ -a)
      linarith
    · exact (rndQ_nonpos F ha.le).trans (rndQ_nonneg F hb)
  · subst ha; rw [rndQ_zero]; exact rndQ_nonneg F h
  · rw [rndQ_pos F ha, rndQ_pos F (lt_of_lt_of_le ha h)]
    exact rpos_mono F ha h

/-- the numbers fixed by rounding: `±` a grid number -/
def Rep (F : Fmt) (v : ℚ) : Prop := OnGrid F |v|

theorem onGrid_zero (F : Fmt) : OnGrid F 0 :=
  ⟨0, 0, Nat.pos_of_ne_zero (by positivity), by omega, by simp⟩

theorem rep_neg (F : Fmt) {v : ℚ} (h : Rep F v) : Rep F (-v) := by unfold Rep at *; rwa [abs_neg]

/-- **numbers of the format are fixed by rounding** -/
theorem rndQ_rep (F : Fmt) {v : ℚ} (h : Rep F v) : rndQ F v = v := by
  unfold Rep at h
  rcases lt_trichotomy v 0 with hv | hv | hv
  · rw [abs_of_neg hv] at h
    rw [rndQ_neg F hv, rpos_onGrid F h (by linarith)]; ring
  · subst hv; exact rndQ_zero F
  · rw [abs_of_pos hv] at h
    rw [rndQ_pos F hv, rpos_onGrid F h hv]

/-- a number of the format above `x` stays above the rounding of `x` -/
theorem rndQ_le_of_rep (F : Fmt) {x c : ℚ} (hc : Rep F c) (h : x ≤ c) : rndQ F x ≤ c := by
  have := rndQ_mono F h; rwa [rndQ_rep F hc] at this

theorem rndQ_ge_of_rep (F : Fmt) {x c : ℚ} (hc : Rep F c) (h : c ≤ x) : c ≤ rndQ F x := by
  have := rndQ_mono F h; rwa [rndQ_rep F hc] at this

/-! ### the rounding is a NEAREST number of the format, ties to the even mantissa -/

/-- half-ulp bound: the rounding of `n/d` is within half a quantum, and on a tie the mantissa is
    even -/
theorem roundME_err (F : Fmt) (n : ℕ) {d : ℕ} (hd : 0 < d) :
    |valME (roundME F n d) - (n:ℚ) / d| ≤ 2 ^ (roundME F n d).2 / 2 ∧
    (|valME (roundME F n d) - (n:ℚ) / d| = 2 ^ (roundME F n d).2 / 2 → (roundME F n d).1 % 2 = 0) := by
  obtain ⟨u, v, hv, hr, hm⟩ := roundME_fst F n hd
  obtain ⟨s1, s2, s3⟩ := rneDiv_spec u hv
  unfold valME
  rw [roundME_snd, hm]
  rw [hr] at s1 s2 s3
  generalize qexp F (ilog2Q n d) = qe at *
  have hpos := two_zpow_pos qe
  generalize (n:ℚ) / d = x at *
  have hx : x = x / 2 ^ qe * 2 ^ qe := by field_simp
  generalize x / 2 ^ qe = y at *
  generalize (2:ℚ) ^ qe = h at *
  subst hx
  have e : (rneDiv u v : ℚ) * h - y * h = ((rneDiv u v : ℚ) - y) * h := by ring
  rw [e, abs_mul, abs_of_pos hpos]
  constructor
  · have : |(rneDiv u v : ℚ) - y| ≤ 1 / 2 := by rw [abs_le]; constructor <;> linarith
    nlinarith
  · intro heq
    have h2 : |(rneDiv u v : ℚ) - y| = 1 / 2 := by
      have : |(rneDiv u v : ℚ) - y| * h = 1 / 2 * h := by rw [heq]; ring
      exact mul_right_cancel₀ hpos.ne' this
    rcases abs_eq (by norm_num : (0:ℚ) ≤ 1 / 2) |>.mp h2 with h3 | h3
    · exact s3 (Or.inr (by linarith))
    · exact s3 (Or.inl (by linarith))

/-- grid numbers at or above the binade of `n/d`, or any grid number when the quantum is the
    subnormal one, are multiples of the quantum -/
theorem onGrid_multiple (F : Fmt) {n d : ℕ} {c : ℚ} (hc : OnGrid F c)
    (h : (2:ℚ) ^ ilog2Q n d ≤ c ∨ (roundME F n d).2 = -(F.emin : ℤ)) :
    ∃ J : ℕ, c = (J:ℚ) * 2 ^ (roundME F n d).2 := by
  obtain ⟨j, q, hj, hq, rfl⟩ := hc
  have hle : (roundME F n d).2 ≤ q := by
    rcases h with h | h
    · have hjq : (j:ℚ) < 2 ^ ((F.t : ℤ) + 1) := by
        have : (j:ℚ) < ((2 ^ (F.t + 1) : ℕ) : ℚ) := by exact_mod_cast hj
        rw [two_pow_cast] at this; exact_mod_cast this
      have : (2:ℚ) ^ ilog2Q n d < 2 ^ ((F.t : ℤ) + 1 + q) := by
        rw [two_zpow_add]
        exact lt_of_le_of_lt h (mul_lt_mul_of_pos_right hjq (two_zpow_pos q))
      have := two_zpow_lt_iff.mp this
      rw [roundME_snd]; unfold qexp; omega
    · rw [h]; exact hq
  refine ⟨j * 2 ^ (q - (roundME F n d).2).toNat, ?_⟩
  rw [Nat.cast_mul, two_zpow_toNat (by omega), mul_assoc, ← two_zpow_add]; congr 2; ring

/-- **nearest**: no grid number is closer to the positive ratio than its rounding -/
theorem roundME_nearest (F : Fmt) {n d : ℕ} (hn : 0 < n) (hd : 0 < d) {c : ℚ} (hc : OnGrid F c) :
    |valME (roundME F n d) - (n:ℚ) / d| ≤ |c - (n:ℚ) / d| := by
  obtain ⟨herr, -⟩ := roundME_err F n hd
  obtain ⟨e1, -⟩ := ilog2Q_spec hn hd
  have hpos := two_zpow_pos (roundME F n d).2
  rw [abs_le] at herr
  rcases le_or_gt ((n:ℚ) / d) c with hxc | hxc
  · -- a grid number above
    have hRc := roundME_le_of_onGrid F hn hd hc hxc
    rw [abs_of_nonneg (by linarith : 0 ≤ c - (n:ℚ) / d)]
    rcases le_or_gt ((n:ℚ) / d) (valME (roundME F n d)) with hR | hR
    · rw [abs_of_nonneg (by linarith)]; linarith
    · rw [abs_of_neg (by linarith)]
      obtain ⟨J, hJ⟩ := onGrid_multiple F hc (Or.inl (e1.trans hxc))
      have hlt : valME (roundME F n d) < c := lt_of_lt_of_le hR hxc
      unfold valME at hlt hR herr ⊢
      rw [hJ] at hlt ⊢
      have : (roundME F n d).1 < J := by
        have := lt_of_mul_lt_mul_right hlt hpos.le
        exact_mod_cast this
      have : ((roundME F n d).1 : ℚ) + 1 ≤ J := by exact_mod_cast this
      nlinarith
  · -- a grid number below
    have hRc := roundME_ge_of_onGrid F hn hd hc hxc.le
    rw [abs_of_neg (by linarith : c - (n:ℚ) / d < 0)]
    rcases le_or_gt (valME (roundME F n d)) ((n:ℚ) / d) with hR | hR
    · rw [abs_of_nonpos (by linarith)]; linarith
    · rw [abs_of_pos (by linarith)]
      by_cases hmul : (2:ℚ) ^ ilog2Q n d ≤ c ∨ (roundME F n d).2 = -(F.emin : ℤ)
      · obtain ⟨J, hJ⟩ := onGrid_multiple F hc hmul
        have hlt : c < valME (roundME F n d) := lt_trans hxc hR
        unfold valME at hlt hR herr ⊢
        rw [hJ] at hlt ⊢
        have : J < (roundME F n d).1 := by
          have := lt_of_mul_lt_mul_right hlt hpos.le
          exact_mod_cast this
        have : (J : ℚ) + 1 ≤ (roundME F n d).1 := by exact_mod_cast this
        nlinarith
      · -- `c` below the binade: `2^e` is a multiple of the quantum between `c` and the ratio
        have hmul := not_or.mp hmul
        have hc2 : c < 2 ^ ilog2Q n d := not_le.mp hmul.1
        have hqe : (roundME F n d).2 = ilog2Q n d - F.t := by
          have := hmul.2
          rw [roundME_snd] at this ⊢; unfold qexp at this ⊢; omega
        have h2e : (2:ℚ) ^ ilog2Q n d = ((2 ^ F.t : ℕ) : ℚ) * 2 ^ (roundME F n d).2 := by
          rw [two_pow_cast, ← two_zpow_add, hqe]; congr 1; ring
        have hlt : (2:ℚ) ^ ilog2Q n d < valME (roundME F n d) := lt_of_le_of_lt e1 hR
        unfold valME at hlt hR herr ⊢
        rw [h2e] at hlt hc2 e1
        have : 2 ^ F.t < (roundME F n d).1 := by
          have := lt_of_mul_lt_mul_right hlt hpos.le
          exact_mod_cast this
        have : ((2 ^ F.t : ℕ) : ℚ) + 1 ≤ (roundME F n d).1 := by exact_mod_cast this
        nlinarith

/-! ## 6. bit patterns: decoding and encoding of magnitudes -/

theorem decodeMag_eq (F : Fmt) (b : ℕ) :
    decodeMag F b = (intMag F b : ℚ) * 2 ^ (-(F.emin : ℤ)) := by
  unfold decodeMag
  rw [Rat.mkRat_eq_div, zpow_neg, two_zpow_nat, div_eq_mul_inv]; norm_cast

/-- every magnitude denotes a grid number `M·2^q` -/
theorem decodeMag_form (F : Fmt) (b : ℕ) :
    ∃ (M : ℕ) (q : ℤ), M < 2 ^ (F.t + 1) ∧ -(F.emin : ℤ) ≤ q ∧
      q ≤ ((b / 2 ^ F.t - 1 : ℕ) : ℤ) - F.emin ∧ decodeMag F b = (M:ℚ) * 2 ^ q := by
  have hP : 0 < 2 ^ F.t := Nat.pos_of_ne_zero (by positivity)
  have hf : b % 2 ^ F.t < 2 ^ F.t := Nat.mod_lt _ hP
  rw [decodeMag_eq]
  unfold intMag
  simp only
  generalize b / 2 ^ F.t = E
  generalize b % 2 ^ F.t = f at *
  by_cases hE : E = 0
  · rw [if_pos hE]
    exact ⟨f, -(F.emin : ℤ), by rw [pow_succ]; omega, le_rfl, by omega, rfl⟩
  · rw [if_neg hE]
    refine ⟨2 ^ F.t + f, ((E - 1 : ℕ) : ℤ) - F.emin, by rw [pow_succ]; omega,
      by omega, le_rfl, ?_⟩
    rw [Nat.cast_mul, two_pow_cast (E - 1), mul_assoc, ← two_zpow_add]
    congr 2

theorem decodeMag_onGrid (F : Fmt) (b : ℕ) : OnGrid F (decodeMag F b) := by
  obtain ⟨M, q, h1, h2, -, h4⟩ := decodeMag_form F b
  exact ⟨M, q, h1, h2, h4⟩

theorem decodeMag_nonneg (F : Fmt) (b : ℕ) : 0 ≤ decodeMag F b := by
  rw [decodeMag_eq]; exact mul_nonneg (Nat.cast_nonneg _) (two_zpow_pos _).le

/-- the overflow threshold: `2^(t + emax − 1 − emin)` (2^1024 / 2^128) -/
def OV (F : Fmt) : ℚ := 2 ^ ((F.t : ℤ) + F.emax - 1 - F.emin)

/-- finite magnitudes are below the overflow threshold -/
theorem decodeMag_lt_OV (F : Fmt) (hF : 2 ≤ F.emax) {b : ℕ} (h : b < infMag F) :
    decodeMag F b < OV F := by
  have hP : 0 < 2 ^ F.t := Nat.pos_of_ne_zero (by positivity)
  have hE : b / 2 ^ F.t < F.emax := Nat.div_lt_of_lt_mul (by unfold infMag at h; rwa [Nat.mul_comm])
  obtain ⟨M, q, h1, h2, h3, h4⟩ := decodeMag_form F b
  have hM : (M:ℚ) < 2 ^ ((F.t : ℤ) + 1) := by
    have : (M:ℚ) < ((2 ^ (F.t + 1) : ℕ) : ℚ) := by exact_mod_cast h1
    rw [two_pow_cast] at this; exact_mod_cast this
  rw [h4]; unfold OV
  calc (M:ℚ) * 2 ^ q < 2 ^ ((F.t : ℤ) + 1) * 2 ^ q := mul_lt_mul_of_pos_right hM (two_zpow_pos q)
    _ = 2 ^ ((F.t : ℤ) + 1 + q) := (two_zpow_add _ _).symm
    _ ≤ _ := two_zpow_le (by omega)

/-- the integer denoted by the encoding of mantissa `m` with exponent field offset `k` -/
theorem intMag_encode (F : Fmt) {m k : ℕ} (h1 : m ≤ 2 ^ (F.t + 1)) (h2 : m < 2 ^ F.t → k = 0) :
    intMag F (k * 2 ^ F.t + m) = m * 2 ^ k := by
  have hP : 0 < 2 ^ F.t := Nat.pos_of_ne_zero (by positivity)
  rw [pow_succ] at h1
  unfold intMag
  simp only
  generalize 2 ^ F.t = P at *
  by_cases hm : m < P
  · have hk := h2 hm; subst hk
    rw [Nat.zero_mul, Nat.zero_add, Nat.div_eq_of_lt hm, if_pos rfl, Nat.mod_eq_of_lt hm]; simp
  · by_cases hm2 : m = P * 2
    · subst hm2
      have e : k * P + P * 2 = (k + 2) * P := by ring
      rw [e, Nat.mul_div_cancel _ hP, Nat.mul_mod_left, if_neg (by omega)]
      have : k + 2 - 1 = k + 1 := by omega
      rw [this, pow_succ]; ring
    · obtain ⟨r, rfl⟩ : ∃ r, m = P + r := ⟨m - P, by omega⟩
      have hr : r < P := by omega
      have e : k * P + (P + r) = r + (k + 1) * P := by ring
      rw [e, Nat.add_mul_div_right _ _ hP, Nat.add_mul_mod_self_right, Nat.div_eq_of_lt hr,
        Nat.mod_eq_of_lt hr, if_neg (by omega)]
      have : 0 + (k + 1) - 1 = k := by omega
      rw [this]

/-- **decoding the encoding** gives back `m·2^qe` -/
theorem decodeMag_encodeME (F : Fmt) {m : ℕ} {qe : ℤ} (hq : -(F.emin : ℤ) ≤ qe)
    (h1 : m ≤ 2 ^ (F.t + 1)) (h2 : m < 2 ^ F.t → qe = -(F.emin : ℤ)) :
    decodeMag F (encodeME F m qe) = (m:ℚ) * 2 ^ qe := by
  rw [decodeMag_eq]; unfold encodeME
  rw [intMag_encode F h1 (fun h => by rw [h2 h]; simp), Nat.cast_mul, two_pow_cast,
    Int.toNat_of_nonneg (by omega), mul_assoc, ← two_zpow_add]
  congr 2; ring

/-- an encoding that reaches the exponent field of ∞ denotes a number `≥ OV` -/
theorem OV_le_of_encodeME (F : Fmt) (hF : 1 ≤ F.emax) {m : ℕ} {qe : ℤ} (hq : -(F.emin : ℤ) ≤ qe)
    (h1 : m ≤ 2 ^ (F.t + 1)) (h2 : m < 2 ^ F.t → qe = -(F.emin : ℤ))
    (hov : infMag F ≤ encodeME F m qe) : OV F ≤ (m:ℚ) * 2 ^ qe := by
  have hP : 0 < 2 ^ F.t := Nat.pos_of_ne_zero (by positivity)
  unfold infMag encodeME at hov
  rw [pow_succ] at h1
  unfold OV
  obtain ⟨k, hk⟩ : ∃ k : ℕ, qe + F.emin = k := ⟨(qe + F.emin).toNat, by omega⟩
  rw [hk, Int.toNat_natCast] at hov
  by_cases hm : m < 2 ^ F.t
  · exfalso
    have : k = 0 := by have := h2 hm; omega
    subst this
    have : 1 * 2 ^ F.t ≤ F.emax * 2 ^ F.t := Nat.mul_le_mul_right _ hF
    omega
  · have hmq : (2:ℚ) ^ (F.t : ℤ) ≤ m := by
      rw [← two_pow_cast]; exact_mod_cast (not_lt.mp hm)
    by_cases hm2 : m = 2 ^ F.t * 2
    · have hk2 : F.emax ≤ k + 2 := by
        by_contra hc
        have : (k + 3) * 2 ^ F.t ≤ F.emax * 2 ^ F.t := Nat.mul_le_mul_right _ (by omega)
        have e : (k + 3) * 2 ^ F.t = k * 2 ^ F.t + 3 * 2 ^ F.t := by ring
        omega
      have hmq2 : (m:ℚ) = 2 ^ ((F.t : ℤ) + 1) := by
        rw [hm2]; push_cast; rw [two_zpow_add]; norm_num
      rw [hmq2, ← two_zpow_add]
      exact two_zpow_le (by omega)
    · have hk2 : F.emax ≤ k + 1 := by
        by_contra hc
        have : (k + 2) * 2 ^ F.t ≤ F.emax * 2 ^ F.t := Nat.mul_le_mul_right _ (by omega)
        have e : (k + 2) * 2 ^ F.t = k * 2 ^ F.t + 2 * 2 ^ F.t := by ring
        omega
      calc (2:ℚ) ^ ((F.t : ℤ) + F.emax - 1 - F.emin) ≤ 2 ^ ((F.t : ℤ) + qe) := two_zpow_le (by omega)
        _ = 2 ^ (F.t : ℤ) * 2 ^ qe := two_zpow_add _ _
        _ ≤ _ := mul_le_mul_of_nonneg_right hmq (two_zpow_pos _).le

/-! ## 7. the rounded magnitude -/

/-- the mantissa has at most `t+1` bits (or is `2^(t+1)`), and is normalised unless the quantum
    is the subnormal one -/
theorem roundME_bounds (F : Fmt) {n d : ℕ} (hn : 0 < n) (hd : 0 < d) :
    (roundME F n d).1 ≤ 2 ^ (F.t + 1) ∧
    ((roundME F n d).1 < 2 ^ F.t → (roundME F n d).2 = -(F.emin : ℤ)) := by
  obtain ⟨e1, e2⟩ := ilog2Q_spec hn hd
  constructor
  · have h : (n:ℚ) / d ≤ ((2 ^ (F.t + 1) : ℕ) : ℚ) * 2 ^ (roundME F n d).2 := by
      rw [two_pow_cast, ← two_zpow_add]
      refine e2.le.trans (two_zpow_le ?_)
      have := qexp_ge' F (ilog2Q n d)
      rw [roundME_snd]; push_cast; omega
    have := roundME_le_grid F hd le_rfl h
    unfold valME at this
    have := le_of_mul_le_mul_right this (two_zpow_pos _)
    exact_mod_cast this
  · intro hlt
    by_contra hne
    have hqe : (roundME F n d).2 = ilog2Q n d - F.t := by
      rw [roundME_snd] at hne ⊢; unfold qexp at hne ⊢; omega
    have h : ((2 ^ F.t : ℕ) : ℚ) * 2 ^ (roundME F n d).2 ≤ (n:ℚ) / d := by
      rw [two_pow_cast, ← two_zpow_add, hqe]; convert e1 using 2; ring
    have := roundME_ge_grid F hd le_rfl h
    unfold valME at this
    have := le_of_mul_le_mul_right this (two_zpow_pos _)
    have : 2 ^ F.t ≤ (roundME F n d).1 := by exact_mod_cast this
    omega

/-- **the rounded magnitude**: either the rounding is below the overflow threshold and the bits
    denote it, or it is not and the bits are those of ∞ -/
theorem roundMag_spec (F : Fmt) (hF : 2 ≤ F.emax) {n d : ℕ} (hn : 0 < n) (hd : 0 < d) :
    (rpos F ((n:ℚ) / d) < OV F ∧ roundMag F n d < infMag F ∧
        decodeMag F (roundMag F n d) = rpos F ((n:ℚ) / d)) ∨
    (OV F ≤ rpos F ((n:ℚ) / d) ∧ roundMag F n d = infMag F) := by
  obtain ⟨b1, b2⟩ := roundME_bounds F hn hd
  have hq : -(F.emin : ℤ) ≤ (roundME F n d).2 := by rw [roundME_snd]; exact qexp_ge F _
  have hv : (((roundME F n d).1 : ℕ) : ℚ) * 2 ^ (roundME F n d).2 = rpos F ((n:ℚ) / d) := by
    rw [← valME_roundME F hn hd]; rfl
  unfold roundMag
  simp only
  by_cases h : encodeME F (roundME F n d).1 (roundME F n d).2 < infMag F
  · left
    rw [Nat.min_eq_left h.le]
    have := decodeMag_encodeME F hq b1 b2
    rw [hv] at this
    exact ⟨by rw [← this]; exact decodeMag_lt_OV F hF h, h, this⟩
  · right
    have h' := not_lt.mp h
    rw [Nat.min_eq_right h']
    have := OV_le_of_encodeME F (by omega) hq b1 b2 h'
    rw [hv] at this
    exact ⟨this, rfl⟩

/-! ## 8. signed bit patterns -/

theorem signW_pos (F : Fmt) : 0 < signW F :=
  Nat.mul_pos (by omega) (Nat.pos_of_ne_zero (by positivity))

theorem infMag_lt_signW (F : Fmt) : infMag F < signW F := by
  unfold infMag signW
  have hP : 0 < 2 ^ F.t := Nat.pos_of_ne_zero (by positivity)
  rw [Nat.add_mul]; omega

theorem infMag_pos (F : Fmt) (hF : 2 ≤ F.emax) : 0 < infMag F :=
  Nat.mul_pos (by omega) (Nat.pos_of_ne_zero (by positivity))

theorem mag_sgn_add (F : Fmt) (s : Bool) {m : ℕ} (h : m < signW F) : mag F (sgn F s + m) = m := by
  unfold mag sgn
  cases s
  · simp [Nat.mod_eq_of_lt h]
  · simp [Nat.mod_eq_of_lt h]

theorem isNeg_sgn_add (F : Fmt) (s : Bool) {m : ℕ} (h : m < signW F) :
    isNeg F (sgn F s + m) = s := by
  have hW := signW_pos F
  unfold isNeg sgn
  cases s
  · simp [Nat.div_eq_of_lt h]
  · have : (signW F + m) / signW F = 1 := by
      rw [Nat.add_comm, Nat.add_div_right _ hW, Nat.div_eq_of_lt h]
    simp [this]

theorem decodeMag_zero (F : Fmt) : decodeMag F 0 = 0 := by
  rw [decodeMag_eq]; simp [intMag]

theorem natAbs_num_div_den_abs (q : ℚ) : (q.num.natAbs : ℚ) / q.den = |q| := by
  rcases lt_trichotomy q 0 with h | h | h
  · have := natAbs_num_div_den (by linarith : 0 < -q)
    rw [Rat.num_neg_eq_neg_num, Int.natAbs_neg, Rat.den_neg_eq_den] at this
    rw [this, abs_of_neg h]
  · subst h; simp
  · rw [natAbs_num_div_den h, abs_of_pos h]

theorem abs_rndQ (F : Fmt) (q : ℚ) (hq : q ≠ 0) : |rndQ F q| = rpos F |q| := by
  rcases lt_or_gt_of_ne hq with h | h
  · rw [rndQ_neg F h, abs_neg, abs_of_nonneg (rpos_nonneg F _), abs_of_neg h]
  · rw [rndQ_pos F h, abs_of_nonneg (rpos_nonneg F _), abs_of_pos h]

/-- **a rational rounded to a bit pattern**: the pattern is finite iff the rounding is below the
    overflow threshold, and then denotes it -/
theorem decode_roundRat (F : Fmt) (hF : 2 ≤ F.emax) (neg0 : Bool) (q : ℚ) :
    decode F (roundRat F neg0 q) = if |rndQ F q| < OV F then some (rndQ F q) else none := by
  have hI := infMag_lt_signW F
  by_cases hq : q = 0
  · subst hq
    have h0 : (0:ℚ).num = 0 := rfl
    have hOV : (0:ℚ) < OV F := two_zpow_pos _
    unfold roundRat
    rw [if_pos h0, rndQ_zero, abs_zero, if_pos hOV]
    have e : sgn F neg0 = sgn F neg0 + 0 := rfl
    unfold decode decodeS
    rw [e, mag_sgn_add F neg0 (signW_pos F), if_pos (infMag_pos F hF), decodeMag_zero]
    simp
  · have hnum : q.num ≠ 0 := fun h => hq (Rat.num_eq_zero.mp h)
    have hn : 0 < q.num.natAbs := Int.natAbs_pos.mpr hnum
    have hd : 0 < q.den := Rat.den_pos q
    have habs := natAbs_num_div_den_abs q
    unfold roundRat
    rw [if_neg hnum, abs_rndQ F q hq]
    rcases roundMag_spec F hF hn hd with ⟨h1, h2, h3⟩ | ⟨h1, h2⟩
    · rw [habs] at h1 h3
      rw [if_pos h1]
      unfold decode decodeS
      rw [mag_sgn_add F _ (h2.trans hI), isNeg_sgn_add F _ (h2.trans hI), if_pos h2, h3]
      congr 1
      rcases lt_or_gt_of_ne hq with h | h
      · have : q.num < 0 := Rat.num_neg.mpr h
        simp only [this, decide_true, if_true]
        rw [rndQ_neg F h, abs_of_neg h]
      · have : ¬ q.num < 0 := not_lt.mpr (Rat.num_pos.mpr h).le
        simp only [this, decide_false]
        rw [rndQ_pos F h, abs_of_pos h]; rfl
    · rw [habs] at h1
      rw [if_neg (not_lt.mpr h1)]
      unfold decode
      rw [mag_sgn_add F _ (h2 ▸ hI), h2, if_neg (lt_irrefl _)]

/-! ## 9. the operations on bit patterns -/

/-- the two conditions on a format used below (both hold for binary64 and binary32) -/
structure Fmt.Valid (F : Fmt) : Prop where
  t_pos : 1 ≤ F.t
  emax_ge : 2 ≤ F.emax

theorem b64_valid : b64.Valid := ⟨by decide, by decide⟩
theorem b32_valid : b32.Valid := ⟨by decide, by decide⟩

/-- bits above the sign bit are ignored -/
theorem decode_mod (F : Fmt) (n : ℕ) : decode F (n % (2 * signW F)) = decode F n := by
  unfold decode decodeS mag isNeg
  rw [Nat.mod_mul_left_mod, Nat.mod_mul_left_div_self, Nat.mod_mod]

theorem decode_some {F : Fmt} {a : ℕ} {v : ℚ} (h : decode F a = some v) :
    mag F a < infMag F ∧ v = decodeS F a := by
  unfold decode at h
  by_cases hm : mag F a < infMag F
  · rw [if_pos hm] at h; exact ⟨hm, (Option.some.inj h).symm⟩
  · rw [if_neg hm] at h; cases h

theorem decode_none {F : Fmt} {a : ℕ} (h : decode F a = none) : infMag F ≤ mag F a := by
  unfold decode at h
  by_cases hm : mag F a < infMag F
  · rw [if_pos hm] at h; cases h
  · exact not_lt.mp hm

theorem decode_of_lt {F : Fmt} {a : ℕ} (h : mag F a < infMag F) :
    decode F a = some (decodeS F a) := by unfold decode; rw [if_pos h]

theorem decode_of_ge {F : Fmt} {a : ℕ} (h : infMag F ≤ mag F a) : decode F a = none := by
  unfold decode; rw [if_neg (by omega)]

theorem abs_decodeS (F : Fmt) (a : ℕ) : |decodeS F a| = decodeMag F (mag F a) := by
  unfold decodeS
  split
  · rw [abs_neg, abs_of_nonneg (decodeMag_nonneg F _)]
  · rw [abs_of_nonneg (decodeMag_nonneg F _)]

/-- numbers of the format are fixed by rounding -/
theorem rep_decodeS (F : Fmt) (a : ℕ) : Rep F (decodeS F a) := by
  unfold Rep; rw [abs_decodeS]; exact decodeMag_onGrid F _

/-- finite numbers are below the overflow threshold in magnitude -/
theorem abs_lt_OV {F : Fmt} (hV : F.Valid) {a : ℕ} {v : ℚ} (h : decode F a = some v) :
    |v| < OV F := by
  obtain ⟨h1, rfl⟩ := decode_some h
  rw [abs_decodeS]; exact decodeMag_lt_OV F hV.emax_ge h1

theorem isNaN_false_of_some {F : Fmt} {a : ℕ} {v : ℚ} (h : decode F a = some v) :
    isNaN F a = false := by
  have := (decode_some h).1
  unfold isNaN; simp; omega

theorem isInf_false_of_some {F : Fmt} {a : ℕ} {v : ℚ} (h : decode F a = some v) :
    isInf F a = false := by
  have := (decode_some h).1
  unfold isInf; simp; omega

theorem isInf_of_none {F : Fmt} {a : ℕ} (h : decode F a = none) (hn : isNaN F a = false) :
    isInf F a = true := by
  have := decode_none h
  unfold isNaN at hn; unfold isInf
  simp at hn ⊢; omega

theorem decodeS_of_mag_zero {F : Fmt} {a : ℕ} (h : mag F a = 0) : decodeS F a = 0 := by
  unfold decodeS; rw [h, decodeMag_zero]; simp

theorem decode_qNaN {F : Fmt} (hV : F.Valid) : decode F (qNaN F) = none := by
  apply decode_of_ge
  have h1 : qNaN F < signW F := by
    unfold qNaN infMag signW
    have : 2 ^ (F.t - 1) < 2 ^ F.t := Nat.pow_lt_pow_right (by omega) (by have := hV.t_pos; omega)
    rw [Nat.add_mul]; omega
  unfold mag; rw [Nat.mod_eq_of_lt h1]; unfold qNaN; exact Nat.le_add_right _ _

theorem decode_inf (F : Fmt) (s : Bool) : decode F (sgn F s + infMag F) = none := by
  apply decode_of_ge; rw [mag_sgn_add F s (infMag_lt_signW F)]

/-- the operations on finite operands are roundings of the exact result -/
theorem mulB_finite {F : Fmt} {a b : ℕ} {va vb : ℚ} (ha : decode F a = some va)
    (hb : decode F b = some vb) :
    mulB F a b = roundRat F (isNeg F a != isNeg F b) (va * vb) := by
  unfold mulB
  rw [isNaN_false_of_some ha, isNaN_false_of_some hb, isInf_false_of_some ha,
    isInf_false_of_some hb, (decode_some ha).2, (decode_some hb).2]
  simp

theorem subB_finite {F : Fmt} {a b : ℕ} {va vb : ℚ} (ha : decode F a = some va)
    (hb : decode F b = some vb) : ∃ s, subB F a b = roundRat F s (va - vb) := by
  unfold subB
  rw [isNaN_false_of_some ha, isNaN_false_of_some hb, isInf_false_of_some ha,
    isInf_false_of_some hb, (decode_some ha).2, (decode_some hb).2]
  exact ⟨mag F a == 0 && mag F b == 0 && isNeg F a && !isNeg F b, by simp⟩

theorem divB_finite {F : Fmt} {a b : ℕ} {va vb : ℚ} (ha : decode F a = some va)
    (hb : decode F b = some vb) (hne : vb ≠ 0) :
    divB F a b = roundRat F (isNeg F a != isNeg F b) (va / vb) := by
  have hm : mag F b ≠ 0 := fun h => hne (by rw [(decode_some hb).2, decodeS_of_mag_zero h])
  unfold divB
  rw [isNaN_false_of_some ha, isNaN_false_of_some hb, isInf_false_of_some ha,
    isInf_false_of_some hb, (decode_some ha).2, (decode_some hb).2]
  simp [hm]

theorem ltB_finite {F : Fmt} {a b : ℕ} {va vb : ℚ} (ha : decode F a = some va)
    (hb : decode F b = some vb) : ltB F a b = decide (va < vb) := by
  unfold ltB
  rw [isNaN_false_of_some ha, isNaN_false_of_some hb, isInf_false_of_some ha,
    isInf_false_of_some hb, (decode_some ha).2, (decode_some hb).2]
  simp

theorem castB_finite {F G : Fmt} {a : ℕ} {va : ℚ} (ha : decode F a = some va) :
    castB F G a = roundRat G (isNeg F a) va := by
  unfold castB
  rw [isNaN_false_of_some ha, isInf_false_of_some ha, (decode_some ha).2]
  simp

/-- NaN/∞ operands give NaN/∞ results -/
theorem mulB_nonfinite {F : Fmt} (hV : F.Valid) {a : ℕ} (b : ℕ) (ha : decode F a = none) :
    decode F (mulB F a b) = none := by
  unfold mulB
  by_cases hn : (isNaN F a || isNaN F b) = true
  · rw [if_pos hn]; exact decode_qNaN hV
  · rw [if_neg hn]
    have hna : isNaN F a = false := by simp at hn; exact hn.1
    simp only [isInf_of_none ha hna, if_true]
    split
    · exact decode_qNaN hV
    · exact decode_inf F _

theorem subB_nonfinite_left {F : Fmt} (hV : F.Valid) {a : ℕ} (b : ℕ) (ha : decode F a = none) :
    decode F (subB F a b) = none := by
  unfold subB
  by_cases hn : (isNaN F a || isNaN F b) = true
  · rw [if_pos hn]; exact decode_qNaN hV
  · rw [if_neg hn]
    have hna : isNaN F a = false := by simp at hn; exact hn.1
    simp only [isInf_of_none ha hna, if_true]
    split
    · exact decode_qNaN hV
    · exact decode_inf F _

theorem subB_nonfinite_right {F : Fmt} (hV : F.Valid) (a : ℕ) {b : ℕ} (hb : decode F b = none) :
    decode F (subB F a b) = none := by
  unfold subB
  by_cases hn : (isNaN F a || isNaN F b) = true
  · rw [if_pos hn]; exact decode_qNaN hV
  · rw [if_neg hn]
    have hnb : isNaN F b = false := by simp at hn; exact hn.2
    by_cases hia : isInf F a = true
    · rw [if_pos hia]
      split
      · exact decode_qNaN hV
      · exact decode_inf F _
    · rw [if_neg hia, if_pos (isInf_of_none hb hnb)]
      exact decode_inf F _

/-- an operation that rounds the exact result `x`: value and "no spurious overflow" -/
theorem roundRat_value {F : Fmt} (hV : F.Valid) (s : Bool) (x : ℚ) {r : ℚ}
    (h : decode F (roundRat F s x) = some r) : r = rndQ F x := by
  rw [decode_roundRat F hV.emax_ge] at h
  split at h
  · exact (Option.some.inj h).symm
  · cases h

theorem roundRat_finite {F : Fmt} (hV : F.Valid) (s : Bool) (x : ℚ) {l u : ℕ} {vl vu : ℚ}
    (hl : decode F l = some vl) (hu : decode F u = some vu) (h1 : vl ≤ rndQ F x)
    (h2 : rndQ F x ≤ vu) : decode F (roundRat F s x) = some (rndQ F x) := by
  rw [decode_roundRat F hV.emax_ge, if_pos]
  have a1 := abs_lt_OV hV hl
  have a2 := abs_lt_OV hV hu
  rw [abs_lt] at a1 a2 ⊢
  constructor <;> linarith [a1.1, a1.2, a2.1, a2.2]

/-! ## 10. gradual underflow and the overflow branch -/

/-- the smallest positive number of the format, `2^-emin` -/
def minSub (F : Fmt) : ℚ := 2 ^ (-(F.emin : ℤ))

theorem minSub_pos (F : Fmt) : 0 < minSub F := two_zpow_pos _

theorem onGrid_minSub (F : Fmt) : OnGrid F (minSub F) :=
  ⟨1, -(F.emin : ℤ), Nat.one_lt_two_pow (by omega), le_rfl, by simp [minSub]⟩

theorem rep_minSub (F : Fmt) : Rep F (minSub F) := by
  unfold Rep; rw [abs_of_pos (minSub_pos F)]; exact onGrid_minSub F

/-- every number of the format is an integer multiple of the smallest one -/
theorem decodeS_int (F : Fmt) (a : ℕ) : ∃ z : ℤ, decodeS F a = (z:ℚ) * minSub F := by
  unfold decodeS minSub
  split
  · exact ⟨-(intMag F (mag F a) : ℤ), by rw [decodeMag_eq]; push_cast; ring⟩
  · exact ⟨(intMag F (mag F a) : ℤ), by rw [decodeMag_eq]; push_cast; ring⟩

/-- **gradual underflow**: the difference of two distinct numbers of the format does not round
    to zero -/
theorem rndQ_sub_ne_zero (F : Fmt) {a b : ℕ} {va vb : ℚ} (ha : decode F a = some va)
    (hb : decode F b = some vb) (hne : va ≠ vb) : rndQ F (va - vb) ≠ 0 := by
  obtain ⟨za, hza⟩ := decodeS_int F a
  obtain ⟨zb, hzb⟩ := decodeS_int F b
  rw [(decode_some ha).2, (decode_some hb).2] at hne ⊢
  rw [hza, hzb] at hne ⊢
  have hu := minSub_pos F
  have hz : za ≠ zb := fun h => hne (by rw [h])
  rcases lt_or_gt_of_ne hz with h | h
  · have h1 : (za:ℚ) + 1 ≤ zb := by exact_mod_cast h
    have : (za:ℚ) * minSub F - zb * minSub F ≤ -minSub F := by nlinarith
    have := rndQ_le_of_rep F (rep_neg F (rep_minSub F)) this
    linarith
  · have h1 : (zb:ℚ) + 1 ≤ za := by exact_mod_cast h
    have : minSub F ≤ (za:ℚ) * minSub F - zb * minSub F := by nlinarith
    have := rndQ_ge_of_rep F (rep_minSub F) this
    linarith

/-- the largest finite number of the format -/
def MAXV (F : Fmt) : ℚ := ((2 ^ (F.t + 1) - 1 : ℕ) : ℚ) * 2 ^ ((F.emax : ℤ) - 2 - F.emin)

theorem MAXV_nonneg (F : Fmt) : 0 ≤ MAXV F :=
  mul_nonneg (Nat.cast_nonneg _) (two_zpow_pos _).le

theorem two_pow_pos' (k : ℕ) : 0 < 2 ^ k := Nat.pos_of_ne_zero (by positivity)

theorem MAXV_lt_OV (F : Fmt) : MAXV F < OV F := by
  unfold MAXV OV
  have h : ((2 ^ (F.t + 1) - 1 : ℕ) : ℚ) < 2 ^ ((F.t : ℤ) + 1) := by
    have : 2 ^ (F.t + 1) - 1 < 2 ^ (F.t + 1) := by have := two_pow_pos' (F.t + 1); omega
    have : ((2 ^ (F.t + 1) - 1 : ℕ) : ℚ) < ((2 ^ (F.t + 1) : ℕ) : ℚ) := by exact_mod_cast this
    rw [two_pow_cast] at this; exact_mod_cast this
  calc _ < (2:ℚ) ^ ((F.t : ℤ) + 1) * 2 ^ ((F.emax : ℤ) - 2 - F.emin) :=
        mul_lt_mul_of_pos_right h (two_zpow_pos _)
    _ = _ := by rw [← two_zpow_add]; congr 1; ring

/-- `MAXV / 2^k` is a number of the format as long as the exponent stays in range -/
theorem rep_MAXV_div (F : Fmt) (k : ℕ) (hk : k + 2 ≤ F.emax) : Rep F (MAXV F / 2 ^ (k : ℤ)) := by
  have h0 : 0 ≤ MAXV F / 2 ^ (k : ℤ) := div_nonneg (MAXV_nonneg F) (two_zpow_pos _).le
  unfold Rep; rw [abs_of_nonneg h0]
  refine ⟨2 ^ (F.t + 1) - 1, (F.emax : ℤ) - 2 - F.emin - k,
    by have := two_pow_pos' (F.t + 1); omega, by omega, ?_⟩
  unfold MAXV; rw [mul_div_assoc, ← two_zpow_sub]

theorem rep_MAXV (F : Fmt) (hV : F.Valid) : Rep F (MAXV F) := by
  have := rep_MAXV_div F 0 (by have := hV.emax_ge; omega)
  simpa using this

/-- finite numbers are at most `MAXV` in magnitude -/
theorem abs_le_MAXV {F : Fmt} (hV : F.Valid) {a : ℕ} {v : ℚ} (h : decode F a = some v) :
    |v| ≤ MAXV F := by
  obtain ⟨h1, rfl⟩ := decode_some h
  rw [abs_decodeS]
  have hE : mag F a / 2 ^ F.t < F.emax :=
    Nat.div_lt_of_lt_mul (by unfold infMag at h1; rwa [Nat.mul_comm])
  obtain ⟨M, q, m1, m2, m3, m4⟩ := decodeMag_form F (mag F a)
  rw [m4]; unfold MAXV
  have hM : (M:ℚ) ≤ ((2 ^ (F.t + 1) - 1 : ℕ) : ℚ) := by
    have : M ≤ 2 ^ (F.t + 1) - 1 := by omega
    exact_mod_cast this
  have := hV.emax_ge
  exact mul_le_mul hM (two_zpow_le (by omega)) (two_zpow_pos _).le (Nat.cast_nonneg _)

/-- the rounding of a number bounded by a number of the format is bounded by it -/
theorem abs_rndQ_le_of_rep (F : Fmt) {x c : ℚ} (hc : Rep F c) (h : |x| ≤ c) : |rndQ F x| ≤ c := by
  rw [abs_le] at h ⊢
  exact ⟨rndQ_ge_of_rep F (rep_neg F hc) h.1, rndQ_le_of_rep F hc h.2⟩

/-- no overflow when the rounded result is at most `MAXV` in magnitude -/
theorem decode_roundRat_of_le {F : Fmt} (hV : F.Valid) (s : Bool) {x : ℚ}
    (h : |rndQ F x| ≤ MAXV F) : decode F (roundRat F s x) = some (rndQ F x) := by
  rw [decode_roundRat F hV.emax_ge, if_pos (lt_of_le_of_lt h (MAXV_lt_OV F))]

/-- **the overflow branch**: if `b − a` overflows for finite `a < b` then `b·½ − a·½` is finite
    and positive (`hp` is the pattern of `0.5`) -/
theorem half_range {F : Fmt} (hV : F.Valid) (h4 : 4 ≤ F.emax) {a b hp : ℕ} {va vb : ℚ}
    (ha : decode F a = some va) (hb : decode F b = some vb) (hh : decode F hp = some (1 / 2))
    (hlt : va < vb) (hov : decode F (subB F b a) = none) :
    ∃ r : ℚ, decode F (subB F (mulB F b hp) (mulB F a hp)) = some r ∧ 0 < r := by
  have hMa := abs_le_MAXV hV ha
  have hMb := abs_le_MAXV hV hb
  rw [abs_le] at hMa hMb
  -- the difference exceeds MAXV
  have hbig : MAXV F < vb - va := by
    by_contra hc
    have hc := not_lt.mp hc
    obtain ⟨s, hs⟩ := subB_finite hb ha
    rw [hs, decode_roundRat_of_le hV s] at hov
    · cases hov
    · exact abs_rndQ_le_of_rep F (rep_MAXV F hV) (by rw [abs_of_pos (by linarith)]; exact hc)
  -- the halves
  have hrep2 : Rep F (MAXV F / 2) := by
    have := rep_MAXV_div F 1 (by omega); simpa using this
  have hha : |rndQ F (va * (1 / 2))| ≤ MAXV F / 2 :=
    abs_rndQ_le_of_rep F hrep2 (by rw [abs_le]; constructor <;> linarith)
  have hhb : |rndQ F (vb * (1 / 2))| ≤ MAXV F / 2 :=
    abs_rndQ_le_of_rep F hrep2 (by rw [abs_le]; constructor <;> linarith)
  have hM0 := MAXV_nonneg F
  have da : decode F (mulB F a hp) = some (rndQ F (va * (1 / 2))) := by
    rw [mulB_finite ha hh]; exact decode_roundRat_of_le hV _ (by linarith)
  have db : decode F (mulB F b hp) = some (rndQ F (vb * (1 / 2))) := by
    rw [mulB_finite hb hh]; exact decode_roundRat_of_le hV _ (by linarith)
  obtain ⟨s, hs⟩ := subB_finite db da
  rw [abs_le] at hha hhb
  -- signs: `a ≤ 0 ≤ b`
  have hna : rndQ F (va * (1 / 2)) ≤ 0 := rndQ_nonpos F (by linarith)
  have hnb : 0 ≤ rndQ F (vb * (1 / 2)) := rndQ_nonneg F (by linarith)
  -- one of the halves is at least the smallest positive number
  have hu : minSub F ≤ MAXV F / 4 := by
    unfold MAXV minSub
    have h1 : (1:ℚ) ≤ ((2 ^ (F.t + 1) - 1 : ℕ) : ℚ) := by
      have : 1 ≤ 2 ^ (F.t + 1) - 1 := by
        have := Nat.one_lt_two_pow (n := F.t + 1) (by omega); omega
      exact_mod_cast this
    have h2 : (2:ℚ) ^ (-(F.emin : ℤ)) * 4 ≤ 2 ^ ((F.emax : ℤ) - 2 - F.emin) := by
      have : (4:ℚ) = 2 ^ (2:ℤ) := by norm_num
      rw [this, ← two_zpow_add]; exact two_zpow_le (by omega)
    have h3 := two_zpow_pos (-(F.emin : ℤ))
    rw [le_div_iff₀ (by norm_num)]
    nlinarith [two_zpow_pos ((F.emax : ℤ) - 2 - F.emin)]
  have hpos : minSub F ≤ rndQ F (vb * (1 / 2)) - rndQ F (va * (1 / 2)) := by
    rcases le_or_gt (MAXV F / 2) vb with h | h
    · have := rndQ_ge_of_rep F (rep_minSub F) (by linarith : minSub F ≤ vb * (1 / 2))
      linarith
    · have := rndQ_le_of_rep F (rep_neg F (rep_minSub F))
        (by linarith : va * (1 / 2) ≤ -minSub F)
      linarith
  refine ⟨rndQ F (rndQ F (vb * (1 / 2)) - rndQ F (va * (1 / 2))), ?_, ?_⟩
  · rw [hs]
    refine decode_roundRat_of_le hV s (abs_rndQ_le_of_rep F (rep_MAXV F hV) ?_)
    rw [abs_le]; constructor <;> linarith [minSub_pos F]
  · have := rndQ_ge_of_rep F (rep_minSub F) hpos
    linarith [minSub_pos F]

/-! ### round to nearest, stated for the signed rounding function -/

/-- the rounding of a positive rational is itself a grid number -/
theorem onGrid_rpos (F : Fmt) {x : ℚ} (hx : 0 < x) : OnGrid F (rpos F x) := by
  obtain ⟨b1, -⟩ := roundME_bounds F (natAbs_num_pos hx) (Rat.den_pos x)
  have hq : -(F.emin : ℤ) ≤ (roundME F x.num.natAbs x.den).2 := by
    rw [roundME_snd]; exact qexp_ge F _
  unfold rpos valME
  rcases Nat.lt_or_ge (roundME F x.num.natAbs x.den).1 (2 ^ (F.t + 1)) with h | h
  · exact ⟨_, _, h, hq, rfl⟩
  · have e : (roundME F x.num.natAbs x.den).1 = 2 ^ (F.t + 1) := le_antisymm b1 h
    refine ⟨2 ^ F.t, (roundME F x.num.natAbs x.den).2 + 1,
      Nat.pow_lt_pow_right (by omega) (by omega), by omega, ?_⟩
    rw [e, two_pow_cast, two_pow_cast, ← two_zpow_add, ← two_zpow_add]; congr 1; push_cast; ring

theorem rep_rndQ (F : Fmt) (x : ℚ) : Rep F (rndQ F x) := by
  unfold Rep
  rcases lt_trichotomy x 0 with h | h | h
  · rw [rndQ_neg F h, abs_neg, abs_of_nonneg (rpos_nonneg F _)]
    exact onGrid_rpos F (by linarith)
  · subst h; rw [rndQ_zero, abs_zero]; exact onGrid_zero F
  · rw [rndQ_pos F h, abs_of_nonneg (rpos_nonneg F _)]; exact onGrid_rpos F h

theorem rpos_nearest (F : Fmt) {x c : ℚ} (hx : 0 < x) (hc : OnGrid F c) :
    |rpos F x - x| ≤ |c - x| := by
  have := roundME_nearest F (natAbs_num_pos hx) (Rat.den_pos x) hc
  rwa [natAbs_num_div_den hx] at this

theorem onGrid_nonneg (F : Fmt) {c : ℚ} (hc : OnGrid F c) : 0 ≤ c := by
  obtain ⟨j, q, -, -, rfl⟩ := hc
  exact mul_nonneg (Nat.cast_nonneg _) (two_zpow_pos _).le

theorem rpos_nearest_rep (F : Fmt) {x c : ℚ} (hx : 0 < x) (hc : Rep F c) :
    |rpos F x - x| ≤ |c - x| := by
  rcases le_or_gt 0 c with h | h
  · unfold Rep at hc; rw [abs_of_nonneg h] at hc
    exact rpos_nearest F hx hc
  · have h0 := rpos_nearest F hx (onGrid_zero F)
    rw [zero_sub, abs_neg, abs_of_pos hx] at h0
    rw [abs_of_neg (by linarith : c - x < 0)]
    linarith

/-- **round to nearest**: `rndQ F x` is a number of the format, and no number of the format
    (exponent unbounded above) is closer to `x` -/
theorem rndQ_nearest (F : Fmt) (x : ℚ) {c : ℚ} (hc : Rep F c) : |rndQ F x - x| ≤ |c - x| := by
  rcases lt_trichotomy x 0 with h | h | h
  · rw [rndQ_neg F h]
    have := rpos_nearest_rep F (by linarith : 0 < -x) (rep_neg F hc)
    have e1 : -rpos F (-x) - x = -(rpos F (-x) - -x) := by ring
    have e2 : c - x = -(-c - -x) := by ring
    rw [e1, e2, abs_neg, abs_neg]; exact this
  · subst h; rw [rndQ_zero]; simp
  · rw [rndQ_pos F h]; exact rpos_nearest_rep F h hc

/-- results fit in the width of the format -/
theorem sgn_add_lt (F : Fmt) (s : Bool) {m : ℕ} (h : m < signW F) : sgn F s + m < 2 * signW F := by
  unfold sgn; split <;> omega

theorem roundRat_lt (F : Fmt) (s : Bool) (q : ℚ) : roundRat F s q < 2 * signW F := by
  unfold roundRat
  split
  · exact sgn_add_lt F s (signW_pos F)
  · refine sgn_add_lt F _ (lt_of_le_of_lt ?_ (infMag_lt_signW F))
    unfold roundMag; exact Nat.min_le_right _ _

theorem qNaN_lt {F : Fmt} (hV : F.Valid) : qNaN F < 2 * signW F := by
  unfold qNaN infMag signW
  have : 2 ^ (F.t - 1) < 2 ^ F.t := Nat.pow_lt_pow_right (by omega) (by have := hV.t_pos; omega)
  rw [Nat.add_mul]; omega

theorem mulB_lt {F : Fmt} (hV : F.Valid) (a b : ℕ) : mulB F a b < 2 * signW F := by
  have h1 := qNaN_lt hV
  have h2 := fun s => sgn_add_lt F s (infMag_lt_signW F)
  have h3 := fun s q => roundRat_lt F s q
  unfold mulB
  repeat' split
  all_goals first | exact h1 | exact h2 _ | exact h3 _ _

/-! ## 11. the carrier `SF64`: every IEEE hypothesis of `IEEELike` is a theorem -/

open FloatOps

/-- real-number semantics of a binary64 pattern -/
def val64 (x : SF64) : Option ℚ := decode b64 x.bits.toNat

/-- real-number semantics of a binary32 pattern -/
def val32 (u : UInt32) : Option ℚ := decode b32 u.toNat

theorem two_signW_b64 : 2 * signW b64 = 2 ^ 64 := by decide
theorem two_signW_b32 : 2 * signW b32 = 2 ^ 32 := by decide

theorem val64_ofNat (n : ℕ) : val64 ⟨UInt64.ofNat n⟩ = decode b64 n := by
  unfold val64; rw [UInt64.toNat_ofNat', ← two_signW_b64, decode_mod]

theorem val32_ofNat (n : ℕ) : val32 (UInt32.ofNat n) = decode b32 n := by
  unfold val32; rw [UInt32.toNat_ofNat', ← two_signW_b32, decode_mod]

theorem val64_mul (a b : SF64) :
    val64 (FloatOps.mul a b) = decode b64 (mulB b64 a.bits.toNat b.bits.toNat) := val64_ofNat _

theorem val64_sub (a b : SF64) :
    val64 (FloatOps.sub a b) = decode b64 (subB b64 a.bits.toNat b.bits.toNat) := val64_ofNat _

theorem val64_div (a b : SF64) :
    val64 (FloatOps.div a b) = decode b64 (divB b64 a.bits.toNat b.bits.toNat) := val64_ofNat _

theorem val64_zero : val64 (zero : SF64) = some 0 := by
  show decode b64 zeroBits.toNat = some 0
  decide +kernel

theorem val64_half : val64 (half : SF64) = some (1 / 2) := by
  show decode b64 halfBits.toNat = some (1 / 2)
  decide +kernel

theorem val64_one : val64 (one : SF64) = some 1 := by
  show decode b64 oneBits.toNat = some 1
  decide +kernel

theorem val32_one : val32 0x3F800000 = some 1 := by
  show decode b32 (0x3F800000 : UInt32).toNat = some 1
  decide +kernel

theorem val32_zero : val32 0 = some 0 := by
  show decode b32 (0 : UInt32).toNat = some 0
  decide +kernel

theorem isFinite_eq64 (x : SF64) : FloatOps.isFinite x = (val64 x).isSome := by
  show isFin b64 x.bits.toNat = (decode b64 x.bits.toNat).isSome
  unfold isFin decode
  by_cases h : mag b64 x.bits.toNat < infMag b64 <;> simp [h]

/-- the three arithmetic operations on finite operands are correctly rounded, without spurious
    overflow -/
theorem roundsTo_of_roundRat {res : SF64} {s : Bool} {x : ℚ}
    (h : val64 res = decode b64 (roundRat b64 s x)) : RoundsTo val64 (rndQ b64) res x := by
  constructor
  · intro r hr; rw [h] at hr; exact roundRat_value b64_valid s x hr
  · intro l u vl vu hl hu h1 h2
    exact ⟨_, by rw [h]; exact roundRat_finite b64_valid s x hl hu h1 h2⟩

theorem mul_spec64 {a b : SF64} {va vb : ℚ} (ha : val64 a = some va) (hb : val64 b = some vb) :
    RoundsTo val64 (rndQ b64) (FloatOps.mul a b) (va * vb) :=
  roundsTo_of_roundRat (by rw [val64_mul, mulB_finite ha hb])

theorem sub_spec64 {a b : SF64} {va vb : ℚ} (ha : val64 a = some va) (hb : val64 b = some vb) :
    RoundsTo val64 (rndQ b64) (FloatOps.sub a b) (va - vb) := by
  obtain ⟨s, hs⟩ := subB_finite ha hb
  exact roundsTo_of_roundRat (s := s) (by rw [val64_sub, hs])

theorem div_spec64 {a b : SF64} {va vb : ℚ} (ha : val64 a = some va) (hb : val64 b = some vb)
    (hne : vb ≠ 0) : RoundsTo val64 (rndQ b64) (FloatOps.div a b) (va / vb) :=
  roundsTo_of_roundRat (by rw [val64_div, divB_finite ha hb hne])

theorem lt_iff64 {a b : SF64} {va vb : ℚ} (ha : val64 a = some va) (hb : val64 b = some vb) :
    (FloatOps.lt a b = true ↔ va < vb) := by
  show ltB b64 a.bits.toNat b.bits.toNat = true ↔ va < vb
  rw [ltB_finite ha hb]; simp

theorem half_range_finite64 {a b : SF64} {va vb : ℚ} (ha : val64 a = some va)
    (hb : val64 b = some vb) (hlt : va < vb) (hov : val64 (FloatOps.sub b a) = none) :
    ∃ r : ℚ, val64 (FloatOps.sub (FloatOps.mul b half) (FloatOps.mul a half)) = some r ∧ 0 < r := by
  rw [val64_sub] at hov
  obtain ⟨r, h1, h2⟩ := half_range b64_valid (by decide) ha hb val64_half hlt hov
  refine ⟨r, ?_, h2⟩
  rw [val64_sub]
  show decode b64 (subB b64 (UInt64.ofNat (mulB b64 b.bits.toNat halfBits.toNat)).toNat
      (UInt64.ofNat (mulB b64 a.bits.toNat halfBits.toNat)).toNat) = some r
  rw [UInt64.toNat_ofNat', UInt64.toNat_ofNat', ← two_signW_b64,
    Nat.mod_eq_of_lt (mulB_lt b64_valid _ _), Nat.mod_eq_of_lt (mulB_lt b64_valid _ _)]
  exact h1

theorem one_le_MAXV_b32 : (1:ℚ) ≤ MAXV b32 := by
  have := abs_le_MAXV b32_valid (show decode b32 (0x3F800000 : UInt32).toNat = some 1 from val32_one)
  rwa [abs_one] at this

theorem rep_one_b32 : Rep b32 1 := by
  have := rep_decodeS b32 (0x3F800000 : UInt32).toNat
  rwa [← (decode_some (show decode b32 (0x3F800000 : UInt32).toNat = some 1 from val32_one)).2]
    at this

/-- `x as f32` for a finite `x` in the unit interval is the binary32 rounding of `x` -/
theorem val32_cast64 {x : SF64} {vx : ℚ} (hx : val64 x = some vx) (h0 : 0 ≤ vx) (h1 : vx ≤ 1) :
    val32 (FloatOps.toF32Bits x) = some (rndQ b32 vx) := by
  show val32 (UInt32.ofNat (castB b64 b32 x.bits.toNat)) = some (rndQ b32 vx)
  rw [val32_ofNat, castB_finite hx]
  refine decode_roundRat_of_le b32_valid _ (le_trans ?_ one_le_MAXV_b32)
  exact abs_rndQ_le_of_rep b32 rep_one_b32 (by rw [abs_of_nonneg h0]; exact h1)

/-- **the IEEE hypotheses of `E57/Proofs/Normalise.lean` hold for the soft-float carrier** -/
instance instIEEELikeSF64 : IEEELike SF64 where
  val := val64
  rnd := rndQ b64
  rnd32 := rndQ b32
  val32 := val32
  isFinite_eq := isFinite_eq64
  val_zero := val64_zero
  val_half := val64_half
  val_one := val64_one
  rnd_mono := fun h => rndQ_mono b64 h
  rnd_val := fun {x} {_} hx => by
    rw [(decode_some hx).2]; exact rndQ_rep b64 (rep_decodeS b64 _)
  mul_spec := mul_spec64
  sub_spec := sub_spec64
  div_spec := div_spec64
  mul_nonfinite := fun {a} {b} ha => by
    rw [val64_mul]; exact mulB_nonfinite b64_valid _ ha
  sub_nonfinite_left := fun {a} {b} ha => by
    rw [val64_sub]; exact subB_nonfinite_left b64_valid _ ha
  sub_nonfinite_right := fun {a} {b} hb => by
    rw [val64_sub]; exact subB_nonfinite_right b64_valid _ hb
  lt_iff := lt_iff64
  sub_rnd_ne_zero := fun ha hb hne => rndQ_sub_ne_zero b64 ha hb hne
  half_range_finite := half_range_finite64
  rnd32_mono := fun h => rndQ_mono b32 h
  rnd32_zero := rndQ_zero b32
  rnd32_one := rndQ_rep b32 rep_one_b32
  val32_cast := val32_cast64
  val32_zero := val32_zero

/-! ## 12. C13 on the soft-float carrier, no IEEE hypothesis left

`val64 x = none` means "NaN or ±∞"; `rndQ b64` / `rndQ b32` are the binary64 / binary32 roundings
(exponent unbounded above). -/

section C13sf
variable {min max v v' : SF64} {vmin vmax vv vv' : ℚ}

/-- the non-degenerate branch on `SF64` -/
abbrev NonDeg (min max : SF64) : Prop := NonDegenerate min max

theorem C13_sf_degenerate (hmin : val64 min = some vmin) (hmax : val64 max = some vmax)
    (hdeg : ¬ vmin < vmax) (v : SF64) : (RangeG.fromMinMax min max).normalize v = 0 :=
  C13_degenerate (F := SF64) hmin hmax hdeg v

theorem C13_sf_degenerate_nonfinite (h : val64 min = none ∨ val64 max = none) (v : SF64) :
    (RangeG.fromMinMax min max).normalize v = 0 :=
  C13_degenerate_nonfinite (F := SF64) h v

theorem C13_sf_degenerate_bits (h : ¬ NonDeg min max) (v : SF64) :
    (RangeG.fromMinMax min max).normalize v = 0 ∧
    val32 ((RangeG.fromMinMax min max).normalize v) = some 0 :=
  C13_degenerate_bits (F := SF64) h v

theorem C13_sf_nondegenerate_bounds (hnd : NonDeg min max) :
    ∃ vmin vmax : ℚ, val64 min = some vmin ∧ val64 max = some vmax ∧ vmin < vmax :=
  C13_nondegenerate_bounds (F := SF64) hnd

theorem C13_sf_nondegenerate_of_lt (hmin : val64 min = some vmin) (hmax : val64 max = some vmax)
    (hlt : vmin < vmax) : NonDeg min max :=
  C13_nondegenerate_of_lt (F := SF64) hmin hmax hlt

theorem C13_sf_nondegenerate_iff (hmin : val64 min = some vmin) (hmax : val64 max = some vmax) :
    NonDeg min max ↔ vmin < vmax :=
  C13_nondegenerate_iff (F := SF64) hmin hmax

theorem C13_sf_nondegenerate_iff' :
    NonDeg min max ↔
      ∃ vmin vmax : ℚ, val64 min = some vmin ∧ val64 max = some vmax ∧ vmin < vmax :=
  C13_nondegenerate_iff' (F := SF64)

theorem C13_sf_unit_interval (hnd : NonDeg min max) (hv : val64 v = some vv) :
    ∃ q : ℚ, val64 ((RangeG.fromMinMax min max).normalizeF v) = some q ∧ 0 ≤ q ∧ q ≤ 1 :=
  C13_unit_interval (F := SF64) hnd hv

theorem C13_sf_monotone (hnd : NonDeg min max) (hv : val64 v = some vv)
    (hv' : val64 v' = some vv') (hle : vv ≤ vv') :
    ∃ q q' : ℚ, val64 ((RangeG.fromMinMax min max).normalizeF v) = some q ∧
      val64 ((RangeG.fromMinMax min max).normalizeF v') = some q' ∧ q ≤ q' :=
  C13_monotone (F := SF64) hnd hv hv' hle

theorem C13_sf_endpoints_le (hnd : NonDeg min max) (hmin : val64 min = some vmin)
    (hv : val64 v = some vv) (hle : vv ≤ vmin) :
    val64 ((RangeG.fromMinMax min max).normalizeF v) = some 0 :=
  C13_endpoints_le (F := SF64) hnd hmin hv hle

theorem C13_sf_endpoints_ge (hnd : NonDeg min max) (hmax : val64 max = some vmax)
    (hv : val64 v = some vv) (hle : vmax ≤ vv) :
    val64 ((RangeG.fromMinMax min max).normalizeF v) = some 1 :=
  C13_endpoints_ge (F := SF64) hnd hmax hv hle

theorem C13_sf_endpoints (hnd : NonDeg min max) :
    val64 ((RangeG.fromMinMax min max).normalizeF min) = some 0 ∧
    val64 ((RangeG.fromMinMax min max).normalizeF max) = some 1 :=
  C13_endpoints (F := SF64) hnd

/-- for ALL finite `min < max` the minimum is delivered as 0 and the maximum as 1 -/
theorem C13_sf_endpoints_all (hmin : val64 min = some vmin) (hmax : val64 max = some vmax)
    (hlt : vmin < vmax) :
    val64 ((RangeG.fromMinMax min max).normalizeF min) = some 0 ∧
    val64 ((RangeG.fromMinMax min max).normalizeF max) = some 1 :=
  C13_endpoints_all (F := SF64) hmin hmax hlt

theorem C13_sf_formula (hnd : NonDeg min max) (hmin : val64 min = some vmin)
    (hmax : val64 max = some vmax) (hv : val64 v = some vv) :
    ∃ s : ℚ, s = (if FloatOps.isFinite (FloatOps.sub max min) = true then 1 else 1 / 2) ∧
    val64 ((RangeG.fromMinMax min max).normalizeF v) =
      some (rndQ b64 (rndQ b64 (rndQ b64 (qclamp vv vmin vmax * s) - rndQ b64 (vmin * s)) /
                    rndQ b64 (rndQ b64 (vmax * s) - rndQ b64 (vmin * s)))) :=
  C13_formula (F := SF64) hnd hmin hmax hv

theorem C13_sf_formula_unscaled (hnd : NonDeg min max)
    (hfin : FloatOps.isFinite (FloatOps.sub max min) = true)
    (hmin : val64 min = some vmin) (hmax : val64 max = some vmax) (hv : val64 v = some vv) :
    val64 ((RangeG.fromMinMax min max).normalizeF v) =
      some (rndQ b64 (rndQ b64 (qclamp vv vmin vmax - vmin) / rndQ b64 (vmax - vmin))) :=
  C13_formula_unscaled (F := SF64) hnd hfin hmin hmax hv

theorem C13_sf_unit_interval_bits (hnd : NonDeg min max) (hv : val64 v = some vv) :
    ∃ q : ℚ, val32 ((RangeG.fromMinMax min max).normalize v) = some q ∧ 0 ≤ q ∧ q ≤ 1 :=
  C13_unit_interval_bits (F := SF64) hnd hv

theorem C13_sf_monotone_bits (hnd : NonDeg min max) (hv : val64 v = some vv)
    (hv' : val64 v' = some vv') (hle : vv ≤ vv') :
    ∃ q q' : ℚ, val32 ((RangeG.fromMinMax min max).normalize v) = some q ∧
      val32 ((RangeG.fromMinMax min max).normalize v') = some q' ∧ q ≤ q' :=
  C13_monotone_bits (F := SF64) hnd hv hv' hle

theorem C13_sf_endpoints_bits (hnd : NonDeg min max) :
    val32 ((RangeG.fromMinMax min max).normalize min) = some 0 ∧
    val32 ((RangeG.fromMinMax min max).normalize max) = some 1 :=
  C13_endpoints_bits (F := SF64) hnd

theorem C13_sf_endpoints_all_bits (hmin : val64 min = some vmin) (hmax : val64 max = some vmax)
    (hlt : vmin < vmax) :
    val32 ((RangeG.fromMinMax min max).normalize min) = some 0 ∧
    val32 ((RangeG.fromMinMax min max).normalize max) = some 1 :=
  C13_endpoints_all_bits (F := SF64) hmin hmax hlt

theorem C13_sf_formula_bits (hnd : NonDeg min max) (hmin : val64 min = some vmin)
    (hmax : val64 max = some vmax) (hv : val64 v = some vv) :
    ∃ s : ℚ, s = (if FloatOps.isFinite (FloatOps.sub max min) = true then 1 else 1 / 2) ∧
    val32 ((RangeG.fromMinMax min max).normalize v) =
      some (rndQ b32 (rndQ b64 (rndQ b64 (rndQ b64 (qclamp vv vmin vmax * s) - rndQ b64 (vmin * s)) /
                    rndQ b64 (rndQ b64 (vmax * s) - rndQ b64 (vmin * s))))) :=
  C13_formula_bits (F := SF64) hnd hmin hmax hv

/-- whatever `min` and `max` are, a finite stored value is delivered as a finite f32 in `[0,1]` -/
theorem C13_sf_total (min max : SF64) (hv : val64 v = some vv) :
    ∃ q : ℚ, val32 ((RangeG.fromMinMax min max).normalize v) = some q ∧ 0 ≤ q ∧ q ≤ 1 :=
  C13_total (F := SF64) min max hv

end C13sf

/-! ## 13. exact characterisation of the operations of any format (used for binary32 too) -/

section Ops
variable {F G : Fmt} {a b : ℕ} {va vb : ℚ}

/-- `a * b` on finite operands: the rounding of the exact product, ∞ iff that reaches `OV` -/
theorem decode_mulB (hV : F.Valid) (ha : decode F a = some va) (hb : decode F b = some vb) :
    decode F (mulB F a b) =
      if |rndQ F (va * vb)| < OV F then some (rndQ F (va * vb)) else none := by
  rw [mulB_finite ha hb, decode_roundRat F hV.emax_ge]

theorem decode_subB (hV : F.Valid) (ha : decode F a = some va) (hb : decode F b = some vb) :
    decode F (subB F a b) =
      if |rndQ F (va - vb)| < OV F then some (rndQ F (va - vb)) else none := by
  obtain ⟨s, hs⟩ := subB_finite ha hb
  rw [hs, decode_roundRat F hV.emax_ge]

theorem decode_divB (hV : F.Valid) (ha : decode F a = some va) (hb : decode F b = some vb)
    (hne : vb ≠ 0) :
    decode F (divB F a b) =
      if |rndQ F (va / vb)| < OV F then some (rndQ F (va / vb)) else none := by
  rw [divB_finite ha hb hne, decode_roundRat F hV.emax_ge]

/-- conversion between formats (`as f32`) of a finite number -/
theorem decode_castB (hV : G.Valid) (ha : decode F a = some va) :
    decode G (castB F G a) = if |rndQ G va| < OV G then some (rndQ G va) else none := by
  rw [castB_finite ha, decode_roundRat G hV.emax_ge]

/-- an integer converted to the format -/
theorem decode_ofIntB (hV : F.Valid) (i : ℤ) :
    decode F (ofIntB F i) = if |rndQ F i| < OV F then some (rndQ F i) else none := by
  unfold ofIntB; exact decode_roundRat F hV.emax_ge _ _

/-- `as u8`: saturating truncation -/
theorem toU8B_spec (ha : decode F a = some va) :
    toU8B F a = if va ≤ 0 then 0 else min ⌊va⌋₊ 255 := by
  have hn := isNaN_false_of_some ha
  have hi := isInf_false_of_some ha
  obtain ⟨-, rfl⟩ := decode_some ha
  unfold toU8B
  rw [hn, hi]
  simp only [Bool.false_eq_true, if_false]
  have hm := decodeMag_nonneg F (mag F a)
  unfold decodeS
  by_cases hs : isNeg F a = true
  · rw [if_pos hs, if_pos hs, if_pos (by linarith)]
  · rw [if_neg hs, if_neg hs]
    generalize decodeMag F (mag F a) = v at *
    have h1 : ((v.num.toNat : ℕ) : ℚ) = v.num := by
      have e : ((v.num.toNat : ℕ) : ℤ) = v.num := Int.toNat_of_nonneg (Rat.num_nonneg.mpr hm)
      exact_mod_cast congrArg (Int.cast : ℤ → ℚ) e
    have h2 : v.num.toNat / v.den = ⌊v⌋₊ := by
      conv_rhs => rw [← Rat.num_div_den v, ← h1]
      rw [Nat.floor_div_eq_div]
    rw [h2]
    by_cases h0 : v ≤ 0
    · have : v = 0 := le_antisymm h0 hm
      subst this; simp
    · rw [if_neg h0]

end Ops

/-! ## 14. concrete instances (non-vacuity) and the colour table of the tools (C20) -/

/-- the roundings computed are the familiar ones: `1/3` and `0.1` in binary64 -/
example : rndQ b64 (1 / 3) = 6004799503160661 / 2 ^ 54 := by decide +kernel
example : rndQ b64 (1 / 10) = 3602879701896397 / 2 ^ 55 := by decide +kernel
example : decode b64 0x3FB999999999999A = some (3602879701896397 / 2 ^ 55) := by decide +kernel
/-- ties go to even: `1 + 2^-53` rounds down to 1, `1 + 3·2^-53` rounds up to `1 + 2^-51` -/
example : rndQ b64 (1 + 1 / 2 ^ 53) = 1 := by decide +kernel
example : rndQ b64 (1 + 3 / 2 ^ 53) = 1 + 1 / 2 ^ 51 := by decide +kernel
/-- gradual underflow: half the smallest subnormal rounds to 0, three halves of it to twice it -/
example : rndQ b64 (1 / 2 ^ 1075) = 0 := by decide +kernel
example : rndQ b64 (3 / 2 ^ 1075) = 1 / 2 ^ 1073 := by decide +kernel

/-- the formats satisfy the side conditions of the generic theorems -/
example : b64.Valid ∧ 4 ≤ b64.emax ∧ b32.Valid := ⟨b64_valid, by decide, b32_valid⟩

/-- the hypotheses of `half_range` / `half_range_finite` are satisfiable: the range
    `[-MAX, MAX]` overflows, and the theorem then delivers the finite positive halved range -/
example : ∃ a b : SF64, ∃ va vb : ℚ, val64 a = some va ∧ val64 b = some vb ∧ va < vb ∧
    val64 (FloatOps.sub b a) = none ∧
    ∃ r, val64 (FloatOps.sub (FloatOps.mul b half) (FloatOps.mul a half)) = some r ∧ 0 < r := by
  have ha : val64 ⟨0xFFEFFFFFFFFFFFFF⟩ = some (-((2 ^ 53 - 1) * 2 ^ 971)) := by decide +kernel
  have hb : val64 ⟨0x7FEFFFFFFFFFFFFF⟩ = some ((2 ^ 53 - 1) * 2 ^ 971) := by decide +kernel
  have hov : val64 (FloatOps.sub (⟨0x7FEFFFFFFFFFFFFF⟩ : SF64) ⟨0xFFEFFFFFFFFFFFFF⟩) = none := by
    decide +kernel
  exact ⟨_, _, _, _, ha, hb, by norm_num, hov, half_range_finite64 ha hb (by norm_num) hov⟩

/-- the hypotheses of the `C13_sf_*` theorems are satisfiable: the colour range `[0, 255]` is
    non-degenerate and `128` is a finite stored value -/
example : NonDeg ⟨ofInt 0⟩ ⟨ofInt 255⟩ ∧ val64 ⟨ofInt 128⟩ = some 128 := by
  have h0 : val64 ⟨ofInt 0⟩ = some 0 := by decide +kernel
  have h255 : val64 ⟨ofInt 255⟩ = some 255 := by decide +kernel
  exact ⟨C13_sf_nondegenerate_of_lt h0 h255 (by norm_num), by decide +kernel⟩

/-- a degenerate and a non-finite range -/
example : ¬ NonDeg ⟨ofInt 5⟩ ⟨ofInt 5⟩ := by
  have h5 : val64 ⟨ofInt 5⟩ = some 5 := by decide +kernel
  rw [C13_sf_nondegenerate_iff h5 h5]; exact lt_irrefl _

example : val64 ⟨0x7FF0000000000000⟩ = none ∧ val64 ⟨0x7FF8000000000000⟩ = none := by
  constructor <;> decide +kernel

/-- the whole colour table, checked by the kernel -/
theorem colour_table_all :
    (List.range 256).all (fun c => colourRoundTrip c == c) = true := by decide +kernel

/-- **C20, colour table**: an 8-bit colour stored as Integer with limits 0..255, normalised by
    the simple iterator (`RangeG.normalize` on the soft binary64, cast to binary32) and converted
    back by e57-to-xyz (`* 255.0f32`, `as u8`) is unchanged -/
theorem colour_roundTrip {c : ℕ} (h : c < 256) : colourRoundTrip c = c := by
  have := List.all_eq_true.mp colour_table_all c (List.mem_range.mpr h)
  exact beq_iff_eq.mp this

/-- integers below `2^53` in magnitude are converted exactly -/
theorem val64_ofInt_small {i : ℤ} (h : i.natAbs < 2 ^ 53) : val64 ⟨ofInt i⟩ = some (i:ℚ) := by
  have habs : |(i:ℚ)| = (i.natAbs : ℚ) := by rw [Nat.cast_natAbs]; push_cast; rfl
  have hrep : Rep b64 (i:ℚ) := by
    unfold Rep; rw [habs]
    exact ⟨i.natAbs, 0, h, by decide, by simp⟩
  have hfix : rndQ b64 (i:ℚ) = i := rndQ_rep b64 hrep
  show val64 ⟨UInt64.ofNat (ofIntB b64 i)⟩ = some (i:ℚ)
  rw [val64_ofNat]
  unfold ofIntB
  have hle : |rndQ b64 ((i:ℤ):ℚ)| ≤ MAXV b64 := by
    rw [hfix, habs]
    have h1 : (i.natAbs : ℚ) ≤ ((2 ^ (b64.t + 1) - 1 : ℕ) : ℚ) := by
      have : i.natAbs ≤ 2 ^ (b64.t + 1) - 1 := by
        show i.natAbs ≤ 2 ^ 53 - 1
        omega
      exact_mod_cast this
    have h2 : (1:ℚ) ≤ 2 ^ ((b64.emax : ℤ) - 2 - b64.emin) := by
      have := two_zpow_le (a := 0) (b := (b64.emax : ℤ) - 2 - b64.emin) (by decide)
      simpa using this
    unfold MAXV
    calc (i.natAbs : ℚ) = i.natAbs * 1 := (mul_one _).symm
      _ ≤ _ := mul_le_mul h1 h2 zero_le_one (Nat.cast_nonneg _)
  rw [decode_roundRat_of_le b64_valid false hle, hfix]

/-- what the table entry is made of: the normalised colour `c` is the finite binary32 number
    `rnd32 (rnd64 (c / 255))` -/
theorem colour_normalised {c : ℕ} (h : c < 256) :
    val32 ((RangeG.fromMinMax (⟨ofInt 0⟩ : SF64) ⟨ofInt 255⟩).normalize ⟨ofInt c⟩) =
      some (rndQ b32 (rndQ b64 ((c:ℚ) / 255))) := by
  have h0 : val64 ⟨ofInt 0⟩ = some 0 := by decide +kernel
  have h255 : val64 ⟨ofInt 255⟩ = some 255 := by decide +kernel
  have hc : val64 ⟨ofInt c⟩ = some (c:ℚ) := by
    have := val64_ofInt_small (i := (c:ℤ)) (by simp; omega)
    simpa using this
  have hnd := C13_sf_nondegenerate_of_lt h0 h255 (by norm_num)
  have hfin : FloatOps.isFinite (FloatOps.sub (⟨ofInt 255⟩ : SF64) ⟨ofInt 0⟩) = true := by
    decide +kernel
  obtain ⟨s, hs, hval⟩ := C13_sf_formula_bits hnd h0 h255 hc
  rw [if_pos hfin] at hs
  subst hs
  rw [hval]
  simp only [mul_one]
  have r0 : rndQ b64 0 = 0 := rndQ_zero b64
  have r255 : rndQ b64 255 = 255 := IEEELike.rnd_val (F := SF64) h255
  have hcl : qclamp (c:ℚ) 0 255 = c := by
    have h1 : ¬ (c:ℚ) < 0 := not_lt.mpr (Nat.cast_nonneg c)
    have h2 : ¬ (255:ℚ) < c := by
      have : (c:ℚ) ≤ 255 := by exact_mod_cast (by omega : c ≤ 255)
      exact not_lt.mpr this
    unfold qclamp; rw [if_neg h1, if_neg h2]
  have rc : rndQ b64 (c:ℚ) = c := IEEELike.rnd_val (F := SF64) hc
  rw [hcl, r0, r255, rc, sub_zero, sub_zero, r255, rc]

end SF
end E57
