/-
Whole-session round trip (capstone for C19 / C02 / C01 / C06): everything a session of writer calls stored
is what the reader finds in the finished file.   Namespace `E57.Session`.

Pieces composed: `Interrupt.Reach` (all writer calls), `LayoutWrite` (`Lay`, `SectionLayout`), `RoundTrip`
(`read_back`), `BlobRT` (`blob_window`, `blobRead_holds`), `MT` (`C04_document_roundtrip`), `LayoutRead`
(`At`/`Holds` reads of the paged reader).

  1  `Ext a b` — "only at or behind the cursor": the order on logical streams under which windows in front of
       the cursor survive (`Ext.window`); `ext_write`, `ext_align`
  2  the ghost list: `Entry` (blob | cloud, each with its window `[start, start+len)`), `Entry.Present`,
       `Stored g st` (all entries present, behind byte 48, in front of the cursor, pairwise disjoint:
       `Stored.disjoint`), `Stored.mono`, `Stored.snoc`
  3  `TopInv`, `blob_step`, `imageBlobs_step`
  4  `layout_of_finalize` — `writer_layout` for a run whose `add_point`s are interleaved with setters
  5  `GCur`, **`Sess e c ops g`** — `Reach` annotated with the ghost list; `Sess.reach` (a `Sess` is a `Reach`),
       **`reach_sess`** (every `Reach` has an annotation: `Sess` covers ALL sessions)
  5b an untracked point-cloud writer (any use, also after its `finalize`): `wbd_appends`, `addPoint_appends`,
       `drain_appends`, `finalize_untracked`
  6  **`sess_inv`** — the bookkeeping invariant `SInv` holds in every state of every session
  7  `sess_meta` — `MT.ExtsOk e.exts`, `cloudsOf g` is a sublist of `e.pcs`, prototypes use registered
       extensions only (hence `NoImagesShadow`)
  8  `finalStream`, `finalize_exact` — `EW.finalize` with the XML text and the header fields identified
  9  `final_facts` (true header at 0, XML where the header says, windows untouched), `stored_final`,
       `utf8_length`, `serializeRoot_nonempty`, `image_take48`
  10 `open_image` — `Reader.open` on the image of a stream with a true header
  11 `Entry.ReadBack`, `entry_read_back` — per-item read back
  12 **(a) `stored_windows_survive`**, **(b) `open_finalized(_tr)`**, `reach_open_finalized` (for plain `Reach`),
       **(c)+(d) `session_roundtrip(_tr)`**; helpers that discharge parts of `okpc` from the session:
       `sess_prototypeOK` (record names), `tracked_cloud_offsets` (file offset fits `u64`, record count)
  12b `readEntry`, `Entry.content`, `session_reads`, **`copy_idempotent`**, `copy_deterministic`
  13 non-vacuity: `Ex.ex_sess` (new, one blob of 1100 bytes, one cloud with two points, every call `Ok`),
       `Ex.session_instance` (plain `finalize`; all hypotheses discharged except the two size bounds:
       XML at most 10 MiB — needed for `finalize` to succeed at all — and file below 2^64 bytes),
       `Ex.closed_instance` (same session, transformer with known output: NO hypothesis left, the blob and
       the two points are read back from the device bytes), `Ex.sizes_instance` (the empty session)

Hypotheses of `session_roundtrip` and why they are there
  * `Sess e .top ops g` — any sequence of successful writer calls, no sub-writer left open; the ghost list `g`
    is chosen by the annotation: every blob is recorded; a point cloud is recorded when its writer was created
    by `pcNew` (needs `ProtoI64 proto`: integer bounds are `i64` values — a type invariant of the Rust `Record`,
    not of the model's `Int`), was not "forgotten" (`pcForget`) and was not used after its `finalize`.
    `NoDupNames` is NOT needed.
  * `e'.pw.dev.data.length < 2^64` — offsets and lengths are stored as `u64`.
  * NOT needed any more: `(utf8 xml).length ≤ maxXmlSize` — the reader refuses an XML section above 10 MiB
    (`MAX_XML_SIZE`); since the fix of `finalize_customized_xml` the writer refuses such XML too
    (`finalize_xml_le`), so the bound follows from `EW.finalize … = .ok e'`.
  * `xo (utf8 xml) = MT.rootDoc …` — the external parser returns the tree of the text (obligation C of C04).
  * `hcr`, `okpc`, `okimg` — the float-text / integer-range side conditions of C04 on the metadata values.
  Derived from the session (not assumed): `ExtsOk`, `NoImagesShadow`, XML non-empty, all window facts, the
  "room" hypothesis of C01 for sections without packets (the XML follows).

Findings / remarks
  * (FIXED in the crate, formerly hypothesis `hmax`) The writer produced files the reader of the same crate
    refuses: nothing bounded the XML size on the writer side, `extract_xml` rejects `xml_length > 10 MiB`.
    `finalize` now fails with "XML section too large" above 10 MiB; `finalize_xml_le`.
  * `PointCloudWriter::finalize(&mut self)` does not consume the writer, `Reach` therefore allows calls on it
    afterwards.  In the crate `add_point` then always fails ("Cannot find cartesian/spherical bounds": `finalize`
    took the bounds and no setter restores them; every valid prototype has Cartesian or spherical records), a
    second `finalize` pushes a second, emptied metadata entry for the same section.  The model's `Reach.pcSet`
    is more liberal than the crate's setters (it replaces the whole metadata record, bounds included); with the
    bounds restored a point added after `finalize` is written behind the last-flush padding and the second
    entry reads it back wrongly: `(7, 0, 5)` comes back as `(448, 0, -5)` for the prototype of `LayoutEx`
    (`Reuse.reuse_after_finalize_statement_false` in E57/Proofs/SessionExample.lean, kernel-evaluated witness).
    Hence: a tracked cloud ends with its `finalize` (`GCur.pcDone`); any other use goes through
    the untracked constructors, for which everything else (blobs, other clouds, metadata) is still proved.
  * `Reader.open` needs a non-empty XML section when the cursor is at the very end of the stream
    (`seek_physical` rejects the physical size); `serializeRoot` never returns an empty text
    (`serializeRoot_nonempty`), a custom transformer could.
  * The non-vacuity instance keeps the two size bounds as hypotheses: the XML text goes through
    `cdataEscape = String.replace`, which the kernel does not evaluate (cf. `MT.FormatNameUnescaped`);
    `Ex.closed_instance` / `Ex.sizes_instance` discharge them for a transformer with a known output.
Core Lean only.
-/
import E57.Proofs.RoundTrip
import E57.Proofs.BlobRoundTrip
import E57.Proofs.MetaRoundTrip
import E57.Proofs.Interrupted
namespace E57
namespace Session
open Spec

/-! # Part 1 — "only at or behind the cursor": the extension order on logical streams -/

/-- `b` extends `a`: the cursor did not move back and everything in front of the old cursor is kept -/
structure Ext (a b : LogStream) : Prop where
  cur : a.cur ≤ b.cur
  pre : b.data.take a.cur = a.data.take a.cur

theorem Ext.refl (a : LogStream) : Ext a a := ⟨Nat.le_refl _, rfl⟩

theorem Ext.trans {a b c : LogStream} (h1 : Ext a b) (h2 : Ext b c) : Ext a c := by
  refine ⟨Nat.le_trans h1.cur h2.cur, ?_⟩
  have e : ∀ l : Bytes, l.take a.cur = (l.take b.cur).take a.cur := by
    intro l; rw [List.take_take, Nat.min_eq_left h1.cur]
  rw [e c.data, h2.pre, ← e b.data, h1.pre]

/-- a window in front of the old cursor is unchanged -/
theorem Ext.window {a b : LogStream} (h : Ext a b) (s n : Nat) (hle : s + n ≤ a.cur) :
    (b.data.drop s).take n = (a.data.drop s).take n := by
  have e : ∀ l : Bytes, (l.drop s).take n = ((l.take a.cur).drop s).take n := by
    intro l
    rw [List.drop_take, List.take_take, Nat.min_eq_left (by omega)]
  rw [e b.data, h.pre, ← e a.data]

theorem ext_write (st : LogStream) (b : Bytes) (h2 : st.cur ≤ st.data.length) : Ext st (st.write b) :=
  ⟨by rw [spec_write_cur]; omega, write_take st b h2⟩

theorem ext_align (st : LogStream) (h2 : st.cur ≤ st.data.length) : Ext st st.align := by
  unfold LogStream.align
  split
  · exact ext_write st _ h2
  · exact Ext.refl st

/-! # Part 2 — the ghost list of stored items -/

/-- a finished item of the session with its window `[start, start + len)` in the logical stream -/
inductive Entry where
  /-- a blob (also the blobs of images): descriptor, content, logical offset of its section header -/
  | blob (ref : BlobRef) (data : Bytes) (s : Nat)
  /-- a finished point cloud: the metadata pushed by `finalize`, the points added, in order, the window
      of its compressed-vector section -/
  | cloud (pc : PointCloud) (pts : List (List Value)) (s n : Nat)

def Entry.start : Entry → Nat
  | .blob _ _ s => s
  | .cloud _ _ s _ => s

def Entry.len : Entry → Nat
  | .blob _ data _ => 16 + data.length
  | .cloud _ _ _ n => n

/-- the metadata of the point clouds among the items, in order -/
def cloudsOf : List Entry → List PointCloud
  | [] => []
  | .blob _ _ _ :: g => cloudsOf g
  | .cloud pc _ _ _ :: g => pc :: cloudsOf g

theorem cloudsOf_append (a b : List Entry) : cloudsOf (a ++ b) = cloudsOf a ++ cloudsOf b := by
  induction a with
  | nil => rfl
  | cons x xs ih => cases x <;> simp [cloudsOf, ih]

theorem mem_cloudsOf {pc : PointCloud} {pts : List (List Value)} {s n : Nat} :
    ∀ {g : List Entry}, Entry.cloud pc pts s n ∈ g → pc ∈ cloudsOf g
  | [], h => by cases h
  | .blob _ _ _ :: g, h => by
    rcases List.mem_cons.mp h with h | h
    · cases h
    · exact mem_cloudsOf (g := g) h
  | .cloud pc' _ _ _ :: g, h => by
    rcases List.mem_cons.mp h with h | h
    · cases h; exact List.mem_cons_self
    · exact List.mem_cons_of_mem _ (mem_cloudsOf (g := g) h)

/-- the item is present in the logical stream `data`:
    a blob: the section `header ++ data` lies at `s`, the descriptor is `⟨l2p s, |data|⟩`;
    a cloud: the window holds the section some writer run laid out (`SectionLayout`), for a prototype
    accepted by `new` and points accepted by `add_point` -/
def Entry.Present (data : Bytes) : Entry → Prop
  | .blob ref d s => ref = ⟨l2p s, d.length⟩ ∧ (data.drop s).take (16 + d.length) = BlobRT.blobBytes d
  | .cloud pc pts s n =>
    ∃ (pwB pw2 : PW) (guid : String) (proto : Prototype) (packets : List PacketSpec),
      SectionLayout pwB pw2 pc guid proto pts packets ∧ pwB.abs.cur = s ∧
      RoundTrip.sectionLen proto packets = n ∧ s % 4 = 0 ∧
      validatePrototype proto = true ∧ ProtoI64 proto ∧
      (∀ pt ∈ pts, pt.length = proto.length ∧ checkValues proto pt = true) ∧
      (data.drop s).take n = RoundTrip.sectionWindow pwB pw2 proto packets

theorem Entry.Present.congr {d1 d2 : Bytes} {it : Entry}
    (h : (d2.drop it.start).take it.len = (d1.drop it.start).take it.len) (hp : it.Present d1) :
    it.Present d2 := by
  cases it with
  | blob ref d s => exact ⟨hp.1, h.trans hp.2⟩
  | cloud pc pts s n =>
    obtain ⟨pwB, pw2, guid, proto, packets, L, h1, h2, h3, h4, h5, h6, h7⟩ := hp
    exact ⟨pwB, pw2, guid, proto, packets, L, h1, h2, h3, h4, h5, h6, h.trans h7⟩

/-- **the bookkeeping invariant**: every stored item is still present in the current logical stream,
    lies behind the 48-byte file header and in front of the cursor; the windows are pairwise disjoint
    (in the order of creation) -/
structure Stored (g : List Entry) (st : LogStream) : Prop where
  present : ∀ it ∈ g, it.Present st.data
  placed : ∀ it ∈ g, 48 ≤ it.start ∧ it.start + it.len ≤ st.cur
  sorted : g.Pairwise (fun a b => a.start + a.len ≤ b.start)

theorem Stored.nil (st : LogStream) : Stored [] st :=
  ⟨fun _ h => (nomatch h), fun _ h => (nomatch h), List.Pairwise.nil⟩

/-- operations that only write at or behind the cursor keep all stored items -/
theorem Stored.mono {g : List Entry} {a b : LogStream} (h : Stored g a) (he : Ext a b) : Stored g b := by
  refine ⟨?_, ?_, h.sorted⟩
  · intro it hit
    exact (h.present it hit).congr (he.window _ _ (h.placed it hit).2)
  · intro it hit
    have := h.placed it hit
    have := he.cur
    omega

/-- a new item behind all the old ones -/
theorem Stored.snoc {g : List Entry} {a b : LogStream} (h : Stored g a) (he : Ext a b) (it : Entry)
    (hs : a.cur ≤ it.start) (h48 : 48 ≤ it.start) (hend : it.start + it.len ≤ b.cur)
    (hp : it.Present b.data) : Stored (g ++ [it]) b := by
  have hb := h.mono he
  refine ⟨?_, ?_, ?_⟩
  · intro x hx
    rcases List.mem_append.mp hx with hx | hx
    · exact hb.present x hx
    · simp only [List.mem_singleton] at hx; subst hx; exact hp
  · intro x hx
    rcases List.mem_append.mp hx with hx | hx
    · exact hb.placed x hx
    · simp only [List.mem_singleton] at hx; subst hx; exact ⟨h48, hend⟩
  · rw [List.pairwise_append]
    refine ⟨h.sorted, List.pairwise_singleton _ _, ?_⟩
    intro x hx y hy
    simp only [List.mem_singleton] at hy; subst hy
    have := (h.placed x hx).2
    omega

/-- the windows of the stored items are pairwise disjoint -/
theorem Stored.disjoint {g : List Entry} {st : LogStream} (h : Stored g st) :
    g.Pairwise (fun a b => a.start + a.len ≤ b.start ∨ b.start + b.len ≤ a.start) :=
  h.sorted.imp (fun h => .inl h)

/-! # Part 3 — the invariant of the page writer between the public calls -/

/-- the page writer is well-formed, its cursor 4-byte aligned and behind the file header, and every
    stored item is present -/
structure TopInv (pw : PW) (g : List Entry) : Prop where
  inv : pw.Inv
  al : pw.abs.cur % 4 = 0
  h48 : 48 ≤ pw.abs.cur
  stored : Stored g pw.abs

/-- one `Blob::write` -/
theorem blob_step {pw pw' : PW} {data : Bytes} {b : BlobRef} {g : List Entry} (hi : TopInv pw g)
    (h : blobWrite pw data = .ok (pw', b)) : TopInv pw' (g ++ [.blob b data pw.abs.cur]) := by
  obtain ⟨w1, w2, w3, w4, inv', a'⟩ := BlobRT.blob_window pw data hi.inv pw' b h
  have wf := abs_wf pw hi.inv
  have wf1 : (pw.abs.write (BlobRT.blobBytes data)).cur ≤ (pw.abs.write (BlobRT.blobBytes data)).data.length :=
    (RoundTrip.write_wf pw.abs _ wf.2).1
  have he : Ext pw.abs pw'.abs := by
    rw [a']
    exact (ext_write pw.abs _ wf.2).trans (ext_align _ wf1)
  have hal := (RoundTrip.align_cur (pw.abs.write (BlobRT.blobBytes data))).1
  refine ⟨inv', by rw [a']; exact hal, by have := hi.h48; omega, ?_⟩
  refine hi.stored.snoc he _ (Nat.le_refl _) hi.h48 ?_ ⟨w2, w1⟩
  show pw.abs.cur + (16 + data.length) ≤ pw'.abs.cur
  omega

/-- the ghost items of `write_blob` of the image writer: the image blob, then the optional mask blob -/
def imageBlobItems (pw : PW) (data : Bytes) (mask : Option Bytes) : List Entry :=
  match blobWrite pw data with
  | .ok (pw1, b) =>
    .blob b data pw.abs.cur ::
      (match mask with
       | none => []
       | some m =>
         match blobWrite pw1 m with
         | .ok (_, mb) => [.blob mb m pw1.abs.cur]
         | _ => [])
  | _ => []

/-- the image blob and the optional mask blob -/
theorem imageBlobs_step {pw pw' : PW} {fmt : ImageFormat} {data : Bytes} {mask : Option Bytes}
    {r : ImageBlob × Option BlobRef} {g : List Entry} (hi : TopInv pw g)
    (h : writeImageBlobs pw fmt data mask = .ok (pw', r)) :
    TopInv pw' (g ++ imageBlobItems pw data mask) ∧
      (∃ s, Entry.blob r.1.data data s ∈ imageBlobItems pw data mask) ∧
      (∀ m, mask = some m → ∃ mb s, r.2 = some mb ∧ Entry.blob mb m s ∈ imageBlobItems pw data mask) := by
  unfold writeImageBlobs at h
  obtain ⟨⟨p1, b1⟩, e1, h⟩ := Outcome.bind_eq_ok h
  have s1 := blob_step hi e1
  cases mask with
  | none =>
    cases h
    simp only [imageBlobItems, e1]
    exact ⟨s1, ⟨pw.abs.cur, by simp⟩, by intro m hm; cases hm⟩
  | some m =>
    simp only at h
    obtain ⟨⟨p2, b2⟩, e2, h⟩ := Outcome.bind_eq_ok h
    cases h
    have s2 := blob_step s1 e2
    simp only [imageBlobItems, e1, e2]
    refine ⟨by simpa [List.append_assoc] using s2, ⟨pw.abs.cur, by simp⟩, ?_⟩
    intro m' hm; cases hm
    exact ⟨b2, p1.abs.cur, rfl, by simp⟩

/-! # Part 4 — a point-cloud writer between `new` and `finalize` -/

/-- the section a finished writer run leaves, from the layout invariant `Lay` of `LayoutWrite.lean`
    (the statement of `writer_layout` for a run whose `add_point` calls are interleaved with metadata
    setters) -/
theorem layout_of_finalize {pwB : PW} {proto : Prototype} {pts : List (List Value)} {pk : List (List Bytes)}
    {w : PcW} {pw : PW} (hbI : pwB.Inv) (hal : pwB.abs.cur % 4 = 0) (h : Lay proto pwB.abs pts pk w pw)
    (guid : String) (hcount : w.pointCount = pts.length) (hguid : w.guid = guid)
    (pw' : PW) (w' : PcW) (pc : PointCloud) (hfin : w.finalize pw = .ok (pw', w', pc)) :
    SectionLayout pwB pw' pc guid proto pts ((pk ++ finalizeChunks w pw).map toSpecPacket) := by
  obtain ⟨wf1, wf2⟩ := abs_wf pwB hbI
  have hb : BaseOk pwB.abs := ⟨wf1, wf2, hal⟩
  have hi : ProtoI64 proto := by have := h.io.inv0.i64; rw [h.io.proto_eq] at this; exact this
  obtain ⟨f1, f2, f3, f4, f5, f6, f7, f8⟩ := finalize_lay hb h pw' w' pc hfin
  generalize pk ++ finalizeChunks w pw = pk2 at f2 f3 f4 ⊢
  have hlen : ∀ cs ∈ pk2, cs.length = proto.length := fun cs hcs => (f3 cs hcs).1
  have hsum := pkBytes_length proto.length pk2 hlen
  have henc := encodeSection_cv proto pts pk2 pwB.abs.cur hlen f4
  have hwin : (pw'.abs.data.drop pwB.abs.cur).take (32 + (pkBytes proto.length pk2).length)
      = CvHeader.bytes ⟨32 + (pkBytes proto.length pk2).length, l2p (pwB.abs.cur + 32), 0⟩
        ++ pkBytes proto.length pk2 := by
    have := write_window pwB.abs (CvHeader.bytes ⟨32 + (pkBytes proto.length pk2).length,
      l2p (pwB.abs.cur + 32), 0⟩ ++ pkBytes proto.length pk2) wf2
    rw [List.length_append, cvHeader_length] at this
    rw [f2]; exact this
  refine ⟨f1, ?_, ?_, by rw [f2]; exact write_take _ _ wf2, ?_, ?_, f5, by rw [f6, hcount], f8,
    by rw [f7, hguid], legal_of_chunks proto pts pk2 f3 f4, ?_⟩
  · rw [← hsum, hwin, henc, cvHeader_drop]
  · intro hne
    rw [← hsum, hwin, henc]
    cases pk2 with
    | nil => exact absurd rfl hne
    | cons _ _ => rfl
  · rw [← hsum, f2, spec_write_cur, List.length_append, cvHeader_length]; omega
  · obtain ⟨k, hk⟩ := write_after pwB.abs (CvHeader.bytes ⟨32 + (pkBytes proto.length pk2).length,
      l2p (pwB.abs.cur + 32), 0⟩ ++ pkBytes proto.length pk2) wf2
    rw [List.length_append, cvHeader_length, ← Nat.add_assoc] at hk
    exact ⟨k, by rw [← hsum, f2]; exact hk⟩
  · intro hz
    rw [no_packets_of_zero_width proto hi pts pk2 hz f3 f4]; rfl

/-! # Part 5 — sessions with their ghost state -/

/-- the sub-writer currently borrowed from the `E57Writer`, with its ghost state:
    for a point-cloud writer the page writer `pwB` at the time of `add_pointcloud`, the GUID and prototype
    it was created with, the points accepted so far and the chunk lists of the packets written so far -/
inductive GCur where
  | top
  | pc (w : PcW) (pwB : PW) (guid : String) (proto : Prototype) (pts : List (List Value))
      (pk : List (List Bytes))
  /-- a tracked point-cloud writer after its `finalize` -/
  | pcDone (w : PcW)
  /-- an untracked point-cloud writer (any use, also after `finalize`); `s` = logical offset of its section -/
  | pcU (w : PcW) (s : Nat)
  | img (w : ImgW)

/-- forgetting the ghost state -/
def GCur.cur : GCur → Interrupt.Cur
  | .top => .top
  | .pc w _ _ _ _ _ => .pc w
  | .pcDone w => .pc w
  | .pcU w _ => .pc w
  | .img w => .img w

open Interrupt in
/-- `Sess e c ops g`: `Interrupt.Reach e c.cur ops` annotated with the ghost list `g` of the items finished so
    far (blobs, blobs of images, point clouds with the points added).  The constructors are those of
    `Reach`; for a TRACKED point-cloud writer (constructor `pcNew`):
    * `pcNew` asks for `ProtoI64 proto` (integer bounds of the prototype are `i64` values: a type invariant
      of the Rust `Record`, not of the model's `Int`);
    * after `PointCloudWriter::finalize` the writer is only dropped (or has metadata set, which has no
      effect any more).  Every other use — also of a writer after its `finalize`, which `Reach` allows because
      `finalize(&mut self)` does not consume it — goes through the untracked constructors `pcNewU`, `pcForget`,
      `pcU*` (see the remarks in the file header); `reach_sess`: every `Reach` has an annotation. -/
inductive Sess : EW → GCur → List WOp → List Entry → Prop
  | new {dev : Dev} {guid lib : String} {e : EW} :
      EW.new dev guid lib = .ok e → Sess e .top [WOp.write hdr0] []
  | ext {e e' : EW} {l : List WOp} {g : List Entry} {ns url : String} :
      Sess e .top l g → e.registerExtension ns url = .ok e' → Sess e' .top l g
  | setRoot {e : EW} {l : List WOp} {g : List Entry} (r : Root) :
      Sess e .top l g → Sess { e with root := r } .top l g
  | blob {e e' : EW} {l : List WOp} {g : List Entry} {data : Bytes} {b : BlobRef} :
      Sess e .top l g → e.addBlob data = .ok (e', b) →
      Sess e' .top (l ++ blobOps e.pw data) (g ++ [.blob b data e.pw.abs.cur])
  | pcNew {e : EW} {l : List WOp} {g : List Entry} {guid : String} {proto : Prototype} {pw : PW} {w : PcW} :
      Sess e .top l g → ProtoI64 proto → PcW.new e.pw e.exts guid proto = .ok (pw, w) →
      Sess { e with pw := pw } (.pc w e.pw guid proto [] []) (l ++ pcNewOps) g
  | pcSet {e : EW} {l : List WOp} {g : List Entry} {w : PcW} {pwB : PW} {guid : String} {proto : Prototype}
      {pts : List (List Value)} {pk : List (List Bytes)} (pc : PointCloud) :
      Sess e (.pc w pwB guid proto pts pk) l g → Sess e (.pc { w with pc := pc } pwB guid proto pts pk) l g
  | pcPoint {e : EW} {l : List WOp} {g : List Entry} {w w' : PcW} {pwB : PW} {guid : String}
      {proto : Prototype} {pts : List (List Value)} {pk : List (List Bytes)} {vs : List Value} {pw : PW} :
      Sess e (.pc w pwB guid proto pts pk) l g → w.addPoint e.pw vs = .ok (pw, w') →
      Sess { e with pw := pw } (.pc w' pwB guid proto (pts ++ [vs]) (pk ++ addPointChunks w vs))
        (l ++ addPointOps w vs) g
  | pcEnd {e : EW} {l : List WOp} {g : List Entry} {w w' : PcW} {pwB : PW} {guid : String}
      {proto : Prototype} {pts : List (List Value)} {pk : List (List Bytes)} {pw : PW} {pc : PointCloud} :
      Sess e (.pc w pwB guid proto pts pk) l g → w.finalize e.pw = .ok (pw, w', pc) →
      Sess { e with pw := pw, pcs := e.pcs ++ [pc] } (.pcDone w') (l ++ pcFinOps w e.pw)
        (g ++ [.cloud pc pts pwB.abs.cur
          (RoundTrip.sectionLen proto ((pk ++ finalizeChunks w e.pw).map toSpecPacket))])
  | pcDrop {e : EW} {l : List WOp} {g : List Entry} {w : PcW} {pwB : PW} {guid : String} {proto : Prototype}
      {pts : List (List Value)} {pk : List (List Bytes)} :
      Sess e (.pc w pwB guid proto pts pk) l g → Sess e .top l g
  | pcDoneSet {e : EW} {l : List WOp} {g : List Entry} {w : PcW} (pc : PointCloud) :
      Sess e (.pcDone w) l g → Sess e (.pcDone { w with pc := pc }) l g
  | pcDoneDrop {e : EW} {l : List WOp} {g : List Entry} {w : PcW} :
      Sess e (.pcDone w) l g → Sess e .top l g
  /-- `add_pointcloud` without tracking (no hypothesis on the prototype) -/
  | pcNewU {e : EW} {l : List WOp} {g : List Entry} {guid : String} {proto : Prototype} {pw : PW} {w : PcW} :
      Sess e .top l g → PcW.new e.pw e.exts guid proto = .ok (pw, w) →
      Sess { e with pw := pw } (.pcU w e.pw.abs.cur) (l ++ pcNewOps) g
  /-- ghost step: stop tracking an open point-cloud writer (no call of the crate corresponds to it) -/
  | pcForget {e : EW} {l : List WOp} {g : List Entry} {w : PcW} {pwB : PW} {guid : String} {proto : Prototype}
      {pts : List (List Value)} {pk : List (List Bytes)} :
      Sess e (.pc w pwB guid proto pts pk) l g → Sess e (.pcU w pwB.abs.cur) l g
  | pcUSet {e : EW} {l : List WOp} {g : List Entry} {w : PcW} {s : Nat} (pc : PointCloud) :
      Sess e (.pcU w s) l g → Sess e (.pcU { w with pc := pc } s) l g
  | pcUPoint {e : EW} {l : List WOp} {g : List Entry} {w w' : PcW} {s : Nat} {vs : List Value} {pw : PW} :
      Sess e (.pcU w s) l g → w.addPoint e.pw vs = .ok (pw, w') →
      Sess { e with pw := pw } (.pcU w' s) (l ++ addPointOps w vs) g
  /-- `finalize` of an untracked writer (possibly not the first one): the metadata is pushed, no item is
      recorded -/
  | pcUEnd {e : EW} {l : List WOp} {g : List Entry} {w w' : PcW} {s : Nat} {pw : PW} {pc : PointCloud} :
      Sess e (.pcU w s) l g → w.finalize e.pw = .ok (pw, w', pc) →
      Sess { e with pw := pw, pcs := e.pcs ++ [pc] } (.pcU w' s) (l ++ pcFinOps w e.pw) g
  | pcUDrop {e : EW} {l : List WOp} {g : List Entry} {w : PcW} {s : Nat} :
      Sess e (.pcU w s) l g → Sess e .top l g
  | imgNew {e : EW} {l : List WOp} {g : List Entry} (guid : String) :
      Sess e .top l g → Sess e (.img (ImgW.new guid)) l g
  | imgSet {e : EW} {l : List WOp} {g : List Entry} {w : ImgW} (w' : ImgW) :
      Sess e (.img w) l g → Sess e (.img w') l g
  | imgVis {e : EW} {l : List WOp} {g : List Entry} {w w' : ImgW} {fmt : ImageFormat} {data : Bytes}
      {width height : Nat} {mask : Option Bytes} {pw : PW} :
      Sess e (.img w) l g → w.addVisualReference e.pw fmt data width height mask = .ok (pw, w') →
      Sess { e with pw := pw } (.img w') (l ++ imageBlobsOps e.pw data mask)
        (g ++ imageBlobItems e.pw data mask)
  | imgProj {e : EW} {l : List WOp} {g : List Entry} {w w' : ImgW} {fmt : ImageFormat} {data : Bytes}
      {mask : Option Bytes} {mk : ImageBlob → Option BlobRef → Projection} {pw : PW} :
      Sess e (.img w) l g → w.addProjection e.pw fmt data mask mk = .ok (pw, w') →
      Sess { e with pw := pw } (.img w') (l ++ imageBlobsOps e.pw data mask)
        (g ++ imageBlobItems e.pw data mask)
  | imgEnd {e : EW} {l : List WOp} {g : List Entry} {w : ImgW} {img : Image} :
      Sess e (.img w) l g → w.finalize = .ok img → Sess { e with imgs := e.imgs ++ [img] } (.img w) l g
  | imgDrop {e : EW} {l : List WOp} {g : List Entry} {w : ImgW} : Sess e (.img w) l g → Sess e .top l g

/-- a ghost-annotated session is a session -/
theorem Sess.reach {e : EW} {c : GCur} {l : List WOp} {g : List Entry} (h : Sess e c l g) :
    Interrupt.Reach e c.cur l := by
  induction h with
  | new hn => exact .new hn
  | ext _ he ih => exact .ext ih he
  | setRoot r _ ih => exact .setRoot r ih
  | blob _ hb ih => exact .blob ih hb
  | pcNew _ _ hn ih => exact .pcNew ih hn
  | pcSet pc _ ih => exact .pcSet pc ih
  | pcPoint _ hp ih => exact .pcPoint ih hp
  | pcEnd _ hf ih => exact .pcEnd ih hf
  | pcDrop _ ih => exact .pcDrop ih
  | pcDoneSet pc _ ih => exact .pcSet pc ih
  | pcDoneDrop _ ih => exact .pcDrop ih
  | pcNewU _ hn ih => exact .pcNew ih hn
  | pcForget _ ih => exact ih
  | pcUSet pc _ ih => exact .pcSet pc ih
  | pcUPoint _ hp ih => exact .pcPoint ih hp
  | pcUEnd _ hf ih => exact .pcEnd ih hf
  | pcUDrop _ ih => exact .pcDrop ih
  | imgNew guid _ ih => exact .imgNew guid ih
  | imgSet w' _ ih => exact .imgSet w' ih
  | imgVis _ hv ih => exact .imgVis ih hv
  | imgProj _ hv ih => exact .imgProj ih hv
  | imgEnd _ hf ih => exact .imgEnd ih hf
  | imgDrop _ ih => exact .imgDrop ih

/-! ### every session has a ghost annotation -/

/-- ghost states without a tracked point-cloud writer -/
def GCur.plain : GCur → Prop
  | .pc _ _ _ _ _ _ => False
  | .pcDone _ => False
  | _ => True

theorem GCur.eq_top {gc : GCur} (h : gc.cur = .top) : gc = .top := by
  cases gc <;> first | rfl | cases h

theorem GCur.eq_img {gc : GCur} {w : ImgW} (h : gc.cur = .img w) : gc = .img w := by
  cases gc <;> first | (cases h; rfl) | cases h

theorem GCur.eq_pcU {gc : GCur} {w : PcW} (hp : gc.plain) (h : gc.cur = .pc w) : ∃ s, gc = .pcU w s := by
  cases gc with
  | pcU w' s => cases h; exact ⟨s, rfl⟩
  | pc _ _ _ _ _ _ => exact absurd hp id
  | pcDone _ => exact absurd hp id
  | top => cases h
  | img _ => cases h

/-- **`Sess` covers all of `Reach`**: every session of successful writer calls (in the sense of
    `Interrupt.Reach`, including any use of a point-cloud writer after its `finalize`) carries a ghost
    annotation — here the one that tracks no point cloud at all (blobs only).  Which clouds are tracked is a
    free choice of the annotation: `pcNew` (needs `ProtoI64`) tracks, `pcNewU` does not, `pcForget` stops
    tracking. -/
theorem reach_sess {e : EW} {c : Interrupt.Cur} {l : List WOp} (h : Interrupt.Reach e c l) :
    ∃ gc g, gc.cur = c ∧ gc.plain ∧ Sess e gc l g := by
  induction h with
  | new hn => exact ⟨.top, [], rfl, trivial, .new hn⟩
  | ext _ he ih =>
    obtain ⟨gc, g, hc, _, hs⟩ := ih
    cases GCur.eq_top hc
    exact ⟨.top, g, rfl, trivial, .ext hs he⟩
  | setRoot r _ ih =>
    obtain ⟨gc, g, hc, _, hs⟩ := ih
    cases GCur.eq_top hc
    exact ⟨.top, g, rfl, trivial, .setRoot r hs⟩
  | blob _ hb ih =>
    obtain ⟨gc, g, hc, _, hs⟩ := ih
    cases GCur.eq_top hc
    exact ⟨.top, _, rfl, trivial, .blob hs hb⟩
  | pcNew _ hn ih =>
    obtain ⟨gc, g, hc, _, hs⟩ := ih
    cases GCur.eq_top hc
    exact ⟨.pcU _ _, g, rfl, trivial, .pcNewU hs hn⟩
  | pcSet pc _ ih =>
    obtain ⟨gc, g, hc, hp, hs⟩ := ih
    obtain ⟨s, rfl⟩ := GCur.eq_pcU hp hc
    exact ⟨.pcU _ s, g, rfl, trivial, .pcUSet pc hs⟩
  | pcPoint _ hp' ih =>
    obtain ⟨gc, g, hc, hp, hs⟩ := ih
    obtain ⟨s, rfl⟩ := GCur.eq_pcU hp hc
    exact ⟨.pcU _ s, g, rfl, trivial, .pcUPoint hs hp'⟩
  | pcEnd _ hf ih =>
    obtain ⟨gc, g, hc, hp, hs⟩ := ih
    obtain ⟨s, rfl⟩ := GCur.eq_pcU hp hc
    exact ⟨.pcU _ s, g, rfl, trivial, .pcUEnd hs hf⟩
  | pcDrop _ ih =>
    obtain ⟨gc, g, hc, hp, hs⟩ := ih
    obtain ⟨s, rfl⟩ := GCur.eq_pcU hp hc
    exact ⟨.top, g, rfl, trivial, .pcUDrop hs⟩
  | imgNew guid _ ih =>
    obtain ⟨gc, g, hc, _, hs⟩ := ih
    cases GCur.eq_top hc
    exact ⟨.img _, g, rfl, trivial, .imgNew guid hs⟩
  | imgSet w' _ ih =>
    obtain ⟨gc, g, hc, _, hs⟩ := ih
    cases GCur.eq_img hc
    exact ⟨.img w', g, rfl, trivial, .imgSet w' hs⟩
  | imgVis _ hv ih =>
    obtain ⟨gc, g, hc, _, hs⟩ := ih
    cases GCur.eq_img hc
    exact ⟨.img _, _, rfl, trivial, .imgVis hs hv⟩
  | imgProj _ hv ih =>
    obtain ⟨gc, g, hc, _, hs⟩ := ih
    cases GCur.eq_img hc
    exact ⟨.img _, _, rfl, trivial, .imgProj hs hv⟩
  | imgEnd _ hf ih =>
    obtain ⟨gc, g, hc, _, hs⟩ := ih
    cases GCur.eq_img hc
    exact ⟨.img _, g, rfl, trivial, .imgEnd hs hf⟩
  | imgDrop _ ih =>
    obtain ⟨gc, g, hc, _, hs⟩ := ih
    cases GCur.eq_img hc
    exact ⟨.top, g, rfl, trivial, .imgDrop hs⟩

/-! # Part 5b — an untracked point-cloud writer only appends, except for its own header -/

theorem Ext.take_le {a b : LogStream} (h : Ext a b) {s : Nat} (hs : s ≤ a.cur) :
    b.data.take s = a.data.take s := by
  have e : ∀ l : Bytes, l.take s = (l.take a.cur).take s := by
    intro l; rw [List.take_take, Nat.min_eq_left hs]
  rw [e b.data, h.pre, ← e a.data]

theorem writeAll_appends {pw pw' : PW} {b : Bytes} (hpw : pw.Inv) (h : pw.writeAll b = .ok pw') :
    pw'.Inv ∧ Ext pw.abs pw'.abs := by
  obtain ⟨p, e, i, a⟩ := pw_writeAll pw b hpw
  rw [h] at e; cases e
  exact ⟨i, by rw [a]; exact ext_write _ _ (abs_wf pw hpw).2⟩

theorem align_appends {pw pw' : PW} (hpw : pw.Inv) (h : pw.align = .ok pw') :
    pw'.Inv ∧ Ext pw.abs pw'.abs ∧ pw'.abs.cur % 4 = 0 := by
  obtain ⟨p, e, i, a⟩ := pw_align pw hpw
  rw [h] at e; cases e
  exact ⟨i, by rw [a]; exact ext_align _ (abs_wf pw hpw).2, by rw [a]; exact (RoundTrip.align_cur _).1⟩

/-- one `write_buffer_to_disk`: at most one packet at the cursor, then alignment -/
theorem wbd_appends {w w' : PcW} {pw pw' : PW} {lf : Bool} (hpw : pw.Inv)
    (h : w.writeBufferToDisk pw lf = .ok (pw', w')) :
    pw'.Inv ∧ Ext pw.abs pw'.abs ∧ pw'.abs.cur % 4 = 0 := by
  rw [writeBufferToDisk_eq] at h
  obtain ⟨r, _, h⟩ := Outcome.bind_eq_ok h
  unfold wbdTail at h
  split at h
  · split at h
    · cases h
    · obtain ⟨hdr, _, h⟩ := Outcome.bind_eq_ok h
      obtain ⟨p1, e1, h⟩ := Outcome.bind_eq_ok h
      obtain ⟨p2, e2, h⟩ := Outcome.bind_eq_ok h
      obtain ⟨p3, e3, h⟩ := Outcome.bind_eq_ok h
      obtain ⟨p4, e4, h⟩ := Outcome.bind_eq_ok h
      cases h
      obtain ⟨i1, x1⟩ := writeAll_appends hpw e1
      obtain ⟨i2, x2⟩ := writeAll_appends i1 e2
      obtain ⟨i3, x3⟩ := writeAll_appends i2 e3
      obtain ⟨i4, x4, a4⟩ := align_appends i3 e4
      exact ⟨i4, ((x1.trans x2).trans x3).trans x4, a4⟩
  · obtain ⟨p4, e4, h⟩ := Outcome.bind_eq_ok h
    cases h
    exact align_appends hpw e4

theorem addPoint_appends {w w' : PcW} {pw pw' : PW} {vs : List Value} (hpw : pw.Inv)
    (hal : pw.abs.cur % 4 = 0) (h : w.addPoint pw vs = .ok (pw', w')) :
    pw'.Inv ∧ Ext pw.abs pw'.abs ∧ pw'.abs.cur % 4 = 0 ∧ w'.sectionOffset = w.sectionOffset ∧
      w'.prototype = w.prototype := by
  have hso := (Interrupt.addPoint_ops w pw vs pw' w' h).2
  have hpr := (addPoint_ok_implies w pw vs pw' w' h).2.2.2
  unfold PcW.addPoint at h
  by_cases h1 : vs.length ≠ w.prototype.length
  · simp [h1] at h
  · cases h2 : checkValues w.prototype vs with
    | false => simp [h1, h2] at h
    | true =>
      simp only [h1, h2, if_false, Bool.not_true] at h
      obtain ⟨pc, e, h⟩ := Outcome.bind_eq_ok h
      split at h
      · obtain ⟨a1, a2, a3⟩ := wbd_appends hpw h
        exact ⟨a1, a2, a3, hso, hpr⟩
      · cases h
        exact ⟨hpw, Ext.refl _, hal, hso, hpr⟩

theorem drain_appends : ∀ (fuel : Nat) (w : PcW) (pw : PW) (pw' : PW) (w' : PcW), pw.Inv →
    pw.abs.cur % 4 = 0 → PcW.drainLoop fuel w pw = .ok (pw', w') →
    pw'.Inv ∧ Ext pw.abs pw'.abs ∧ pw'.abs.cur % 4 = 0 ∧ w'.sectionOffset = w.sectionOffset ∧
      w'.prototype = w.prototype
  | 0, w, pw, pw', w', hpw, hal, h => by
    unfold PcW.drainLoop at h
    split at h
    · cases h; exact ⟨hpw, Ext.refl _, hal, rfl, rfl⟩
    · cases h
  | fuel + 1, w, pw, pw', w', hpw, hal, h => by
    unfold PcW.drainLoop at h
    split at h
    · cases h; exact ⟨hpw, Ext.refl _, hal, rfl, rfl⟩
    · obtain ⟨⟨pw1, w1⟩, e1, h⟩ := Outcome.bind_eq_ok h
      obtain ⟨a1, a2, a3⟩ := wbd_appends hpw e1
      obtain ⟨f1, _, _, _, _, f6⟩ := writeBufferToDisk_frame _ _ _ _ _ e1
      obtain ⟨b1, b2, b3, b4, b5⟩ := drain_appends fuel w1 pw1 pw' w' a1 a3 h
      exact ⟨b1, a2.trans b2, b3, b4.trans f6, b5.trans f1⟩

/-- `PointCloudWriter::finalize` of a writer whose section starts at logical offset `s` (32 header bytes in
    front of the cursor): packets are appended, then only `[s, s+32)` is rewritten; everything in front of
    `s` is kept and the cursor ends behind what was appended -/
theorem finalize_untracked {w w' : PcW} {pw pw' : PW} {pc : PointCloud} {s : Nat} (hpw : pw.Inv)
    (hal : pw.abs.cur % 4 = 0) (hso : w.sectionOffset = l2p s) (hs : s + 32 ≤ pw.abs.cur)
    (h : w.finalize pw = .ok (pw', w', pc)) :
    pw'.Inv ∧ pw'.abs.cur % 4 = 0 ∧ pw.abs.cur ≤ pw'.abs.cur ∧
      pw'.abs.data.take s = pw.abs.data.take s ∧ w'.sectionOffset = l2p s ∧
      pc.prototype = w.prototype ∧ w'.prototype = w.prototype := by
  unfold PcW.finalize at h
  obtain ⟨⟨pw1, w1⟩, e1, h⟩ := Outcome.bind_eq_ok h
  obtain ⟨⟨pw2, w2⟩, e2, h⟩ := Outcome.bind_eq_ok h
  obtain ⟨a1, a2, a3, a4, a5⟩ := drain_appends _ w pw pw1 w1 hpw hal e1
  obtain ⟨b1, b2, b3⟩ := wbd_appends a1 e2
  obtain ⟨f1, _, _, _, _, f6⟩ := writeBufferToDisk_frame _ _ _ _ _ e2
  have x12 := a2.trans b2
  have wf2 := abs_wf pw2 b1
  have hc2 : pw.abs.cur ≤ pw2.abs.cur := x12.cur
  have hso2 : w2.sectionOffset = l2p s := by rw [f6, a4, hso]
  obtain ⟨p3, e3, i3, x3⟩ := pw_seek_back pw2 s b1 (by omega)
  obtain ⟨p4, e4, i4, x4⟩ := pw_writeAll p3 w2.header.bytes i3
  have l4 : pw2.abs.data.length ≤ p4.abs.data.length := by
    rw [x4]
    have := spec_write_length_ge p3.abs w2.header.bytes (by rw [x3]; simp only; omega)
    rw [x3] at this ⊢
    exact this
  obtain ⟨p5, e5, i5, x5⟩ := pw_seek_back p4 pw2.abs.cur i4 (by omega)
  have hp2 := pw_position pw2 b1
  simp only [LogStream.physPos] at hp2
  simp only [hso2, e3, hp2, e4, e5, Outcome.bind_ok, Bool.not_true, Bool.false_eq_true, if_false,
    Outcome.pure_eq] at h
  cases h
  refine ⟨i5, by rw [x5]; exact b3, by rw [x5]; exact hc2, ?_, rfl, by show w2.prototype = _; rw [f1, a5],
    by show w2.prototype = _; rw [f1, a5]⟩
  rw [x5, x4, x3]
  show (LogStream.write { pw2.abs with cur := s } w2.header.bytes).data.take s = _
  have := write_take { pw2.abs with cur := s } w2.header.bytes (by show s ≤ pw2.abs.data.length; omega)
  rw [this]
  show pw2.abs.data.take s = pw.abs.data.take s
  exact x12.take_le (by omega)

/-! # Part 6 — the session invariant -/

/-- the invariant while a point-cloud writer is open: the stored items are present in the stream `pwB.abs`
    the writer started from, and the layout invariant `Lay` of `LayoutWrite.lean` describes everything written
    since (provisional header and packets at the old cursor) -/
structure PcInv (e : EW) (w : PcW) (pwB : PW) (guid : String) (proto : Prototype)
    (pts : List (List Value)) (pk : List (List Bytes)) (g : List Entry) : Prop where
  base : TopInv pwB g
  lay : Lay proto pwB.abs pts pk w e.pw
  count : w.pointCount = pts.length
  guid : w.guid = guid
  valid : validatePrototype proto = true
  fit : ∀ pt ∈ pts, pt.length = proto.length ∧ checkValues proto pt = true

/-- the invariant while an untracked point-cloud writer is open: its section starts at `s`, behind every
    stored item; everything in front of `s` is kept -/
structure UInv (e : EW) (w : PcW) (s : Nat) (g : List Entry) : Prop where
  inv : e.pw.Inv
  al : e.pw.abs.cur % 4 = 0
  h48 : 48 ≤ s
  room : s + 32 ≤ e.pw.abs.cur
  so : w.sectionOffset = l2p s
  stored : Stored g ⟨e.pw.abs.data, s⟩

def SInv (e : EW) : GCur → List Entry → Prop
  | .pc w pwB guid proto pts pk, g => PcInv e w pwB guid proto pts pk g
  | .pcU w s, g => UInv e w s g
  | _, g => TopInv e.pw g

theorem baseOk_of_top {pw : PW} {g : List Entry} (h : TopInv pw g) : BaseOk pw.abs :=
  ⟨(abs_wf pw h.inv).1, (abs_wf pw h.inv).2, h.al⟩

/-- an unfinished section (provisional header, some packets) lies behind every stored item -/
theorem PcInv.top {e : EW} {w : PcW} {pwB : PW} {guid : String} {proto : Prototype}
    {pts : List (List Value)} {pk : List (List Bytes)} {g : List Entry}
    (h : PcInv e w pwB guid proto pts pk g) : TopInv e.pw g := by
  have hb := baseOk_of_top h.base
  have hc := h.lay.io.cur
  have hm := pkBytes_mod4 proto.length pk
  have he : Ext pwB.abs e.pw.abs := by
    rw [h.lay.io.abs]; exact ext_write _ _ hb.wf2
  refine ⟨h.lay.io.pwInv, ?_, ?_, h.base.stored.mono he⟩
  · have := hb.al; omega
  · have := h.base.h48; omega

theorem registerExtension_pw (e e' : EW) (ns url : String) (h : e.registerExtension ns url = .ok e') :
    e'.pw = e.pw ∧ e'.pcs = e.pcs ∧ e'.imgs = e.imgs ∧ e'.root = e.root := by
  unfold EW.registerExtension at h
  repeat' split at h
  all_goals first
    | (injection h with h; subst h; exact ⟨rfl, rfl, rfl, rfl⟩)
    | cases h

theorem w1_top : TopInv Interrupt.w1 [] := by
  obtain ⟨w', e, hi, ha⟩ := pw_writeAll w0 Interrupt.hdr0 w0_inv
  rw [Interrupt.w0_write_hdr0] at e
  cases e
  have h0 : w0.abs = LogStream.init := by rw [w0_rep.abs_eq]; rfl
  rw [h0] at ha
  have hc : Interrupt.w1.abs.cur = 48 := by
    rw [ha]; show 0 + Interrupt.hdr0.length = 48; rw [Interrupt.hdr0_length]
  exact ⟨hi, by rw [hc], by rw [hc]; exact Nat.le_refl _, Stored.nil _⟩

/-- **the session invariant holds in every state of a session** -/
theorem sess_inv {e : EW} {c : GCur} {l : List WOp} {g : List Entry} (h : Sess e c l g) : SInv e c g := by
  induction h with
  | new hn =>
    obtain ⟨_, hpw⟩ := Interrupt.ew_new _ _ _ _ hn
    show TopInv _ _
    rw [hpw]; exact w1_top
  | ext _ he ih =>
    show TopInv _ _
    rw [(registerExtension_pw _ _ _ _ he).1]; exact ih
  | setRoot r _ ih => exact ih
  | @blob e e' l g data b _ hb ih =>
    unfold EW.addBlob at hb
    obtain ⟨⟨pw, b'⟩, e1, hb⟩ := Outcome.bind_eq_ok hb
    cases hb
    exact blob_step ih e1
  | @pcNew e l g guid proto pw w _ hi hn ih =>
    have ih : TopInv e.pw g := ih
    obtain ⟨l0, c0, g0, _, _⟩ := new_lay e.pw e.exts guid proto ih.inv hi pw w hn
    have hv := (PcW.new_ok e.pw e.exts guid proto pw w hn).2.1
    exact ⟨ih, l0, by rw [c0]; rfl, g0, hv, by intro pt hpt; cases hpt⟩
  | @pcSet e l g w pwB guid proto pts pk pc _ ih =>
    have ih : PcInv e w pwB guid proto pts pk g := ih
    have hi := ih.lay.io
    have h0 := hi.inv0
    exact ⟨ih.base,
      ⟨⟨hi.proto_eq, ⟨h0.slen, h0.sinv, h0.drained, h0.buf, h0.mp, h0.i64, h0.zero⟩, hi.pwInv, hi.abs,
        hi.hdr, hi.so, hi.legal⟩, ih.lay.content⟩, ih.count, ih.guid, ih.valid, ih.fit⟩
  | @pcPoint e l g w w' pwB guid proto pts pk vs pw _ hp ih =>
    have ih : PcInv e w pwB guid proto pts pk g := ih
    have hb := baseOk_of_top ih.base
    obtain ⟨l1, l2, _, l4⟩ := addPoint_lay hb ih.lay vs pw w' hp
    obtain ⟨a1, a2, _, _⟩ := addPoint_ok_implies w e.pw vs pw w' hp
    rw [ih.lay.io.proto_eq] at a1 a2
    refine ⟨ih.base, l1, by rw [l2, ih.count]; simp, l4.trans ih.guid, ih.valid, ?_⟩
    intro pt hpt
    rcases List.mem_append.mp hpt with hpt | hpt
    · exact ih.fit pt hpt
    · simp only [List.mem_singleton] at hpt; subst hpt; exact ⟨a1, a2⟩
  | @pcEnd e l g w w' pwB guid proto pts pk pw pc _ hf ih =>
    have ih : PcInv e w pwB guid proto pts pk g := ih
    have hb := baseOk_of_top ih.base
    have L := layout_of_finalize ih.base.inv ih.base.al ih.lay guid ih.count ih.guid pw w' pc hf
    have hi : ProtoI64 proto := by have := ih.lay.io.inv0.i64; rw [ih.lay.io.proto_eq] at this; exact this
    obtain ⟨f1, f2, -⟩ := finalize_lay hb ih.lay pw w' pc hf
    have hm := pkBytes_mod4 proto.length (pk ++ finalizeChunks w e.pw)
    have hc : pw.abs.cur = pwB.abs.cur + 32 + (pkBytes proto.length (pk ++ finalizeChunks w e.pw)).length := by
      rw [f2, spec_write_cur, List.length_append, cvHeader_length]; omega
    have hcl := L.cursor
    have he : Ext pwB.abs pw.abs := ⟨by omega, L.before⟩
    show TopInv pw _
    refine ⟨f1, by have := hb.al; omega, by have := ih.base.h48; omega, ?_⟩
    refine ih.base.stored.snoc he _ (Nat.le_refl _) ih.base.h48 ?_ ?_
    · show pwB.abs.cur + RoundTrip.sectionLen proto _ ≤ pw.abs.cur
      unfold RoundTrip.sectionLen; omega
    · exact ⟨pwB, pw, guid, proto, _, L, rfl, rfl, hb.al, ih.valid, hi, ih.fit, rfl⟩
  | pcDrop _ ih => exact PcInv.top ih
  | pcDoneSet pc _ ih => exact ih
  | pcDoneDrop _ ih => exact ih
  | @pcNewU e l g guid proto pw w _ hn ih =>
    have ih : TopInv e.pw g := ih
    obtain ⟨_, hso⟩ := Interrupt.pcNew_ops _ _ _ _ _ _ hn
    obtain ⟨_, _, _, e1, _⟩ := PcW.new_ok e.pw e.exts guid proto pw w hn
    obtain ⟨p, e1', i1, a1⟩ := pw_writeAll e.pw (CvHeader.bytes ⟨32, 0, 0⟩) ih.inv
    rw [e1] at e1'; cases e1'
    have wf := abs_wf e.pw ih.inv
    have hc : pw.abs.cur = e.pw.abs.cur + 32 := by rw [a1, spec_write_cur, cvHeader_length]
    have hpos := pw_position e.pw ih.inv
    simp only [LogStream.physPos] at hpos
    refine ⟨i1, by have := ih.al; show pw.abs.cur % 4 = 0; omega, ih.h48,
      by show e.pw.abs.cur + 32 ≤ pw.abs.cur; omega, by rw [hso, hpos], ?_⟩
    exact ih.stored.mono ⟨Nat.le_refl _, by show pw.abs.data.take _ = _; rw [a1]; exact write_take _ _ wf.2⟩
  | @pcForget e l g w pwB guid proto pts pk _ ih =>
    have ih : PcInv e w pwB guid proto pts pk g := ih
    have hb := baseOk_of_top ih.base
    have hc := ih.lay.io.cur
    have hm := pkBytes_mod4 proto.length pk
    refine ⟨ih.lay.io.pwInv, by have := hb.al; omega, ih.base.h48, by omega, ih.lay.io.so, ?_⟩
    exact ih.base.stored.mono ⟨Nat.le_refl _, by rw [ih.lay.io.abs]; exact write_take _ _ hb.wf2⟩
  | @pcUSet e l g w s pc _ ih =>
    have ih : UInv e w s g := ih
    exact ⟨ih.inv, ih.al, ih.h48, ih.room, ih.so, ih.stored⟩
  | @pcUPoint e l g w w' s vs pw _ hp ih =>
    have ih : UInv e w s g := ih
    obtain ⟨a1, a2, a3, a4, _⟩ := addPoint_appends ih.inv ih.al hp
    have hr := ih.room
    refine ⟨a1, a3, ih.h48, by have := a2.cur; show s + 32 ≤ pw.abs.cur; omega, a4.trans ih.so, ?_⟩
    exact ih.stored.mono ⟨Nat.le_refl _, a2.take_le (by show s ≤ e.pw.abs.cur; omega)⟩
  | @pcUEnd e l g w w' s pw pc _ hf ih =>
    have ih : UInv e w s g := ih
    obtain ⟨a1, a2, a3, a4, a5, _⟩ := finalize_untracked ih.inv ih.al ih.so ih.room hf
    have hr := ih.room
    refine ⟨a1, a2, ih.h48, by show s + 32 ≤ pw.abs.cur; omega, a5, ?_⟩
    exact ih.stored.mono ⟨Nat.le_refl _, a4⟩
  | @pcUDrop e l g w s _ ih =>
    have ih : UInv e w s g := ih
    have hr := ih.room
    have h48 := ih.h48
    exact ⟨ih.inv, ih.al, by omega, ih.stored.mono ⟨by show s ≤ e.pw.abs.cur; omega, rfl⟩⟩
  | imgNew guid _ ih => exact ih
  | imgSet w' _ ih => exact ih
  | @imgVis e l g w w' fmt data width height mask pw _ hv ih =>
    unfold ImgW.addVisualReference at hv
    obtain ⟨⟨pw1, r⟩, e1, hv⟩ := Outcome.bind_eq_ok hv
    cases hv
    exact (imageBlobs_step (g := g) ih e1).1
  | @imgProj e l g w w' fmt data mask mk pw _ hv ih =>
    unfold ImgW.addProjection at hv
    split at hv
    · cases hv
    · obtain ⟨⟨pw1, r⟩, e1, hv⟩ := Outcome.bind_eq_ok hv
      cases hv
      exact (imageBlobs_step (g := g) ih e1).1
  | imgEnd _ _ ih => exact ih
  | imgDrop _ ih => exact ih

/-! # Part 7 — document-level bookkeeping: extensions, the list of point clouds -/

theorem registerExtension_exts (e e' : EW) (ns url : String) (h : e.registerExtension ns url = .ok e') :
    e'.exts = e.exts ++ [(ns, url)] := by
  unfold EW.registerExtension at h
  repeat' split at h
  all_goals first
    | (injection h with h; subst h; rfl)
    | cases h

theorem validateExtensions_mono (p : Prototype) (exts : List (String × String)) (x : String × String)
    (h : validateExtensions p exts = true) : validateExtensions p (exts ++ [x]) = true := by
  unfold validateExtensions at h ⊢
  rw [List.all_eq_true] at h ⊢
  intro r hr
  have := h r hr
  cases hn : r.name with
  | unknown ns name =>
    simp only [hn, Bool.and_eq_true, List.any_append, Bool.or_eq_true] at this ⊢
    exact ⟨this.1, .inl this.2⟩
  | _ => rfl

theorem registerExtension_url (e e' : EW) (ns url : String) (h : e.registerExtension ns url = .ok e') :
    url ≠ MT.xmlNsUri := by
  unfold EW.registerExtension at h
  split at h
  · cases h
  · split at h
    · cases h
    · split at h
      · cases h
      · rename_i hx
        intro hu
        apply hx
        rw [hu]
        rfl

/-- the prototype of the open point-cloud writer only uses registered extensions -/
def GCur.protoOk (exts : List (String × String)) : GCur → Prop
  | .pc _ _ _ proto _ _ => validateExtensions proto exts = true
  | .pcU w _ => validateExtensions w.prototype exts = true
  | _ => True

/-- the document-level part of the session invariant -/
structure MetaInv (e : EW) (c : GCur) (g : List Entry) : Prop where
  /-- the writer's extension list satisfies the invariant `MT.ExtsOk` (C04) -/
  exts : MT.ExtsOk e.exts = true
  /-- the point clouds of the ghost list are among the metadata pushed for the XML, in the same order
      (all of it when no untracked writer was finalized) -/
  pcs : (cloudsOf g).Sublist e.pcs
  /-- every prototype only uses registered extensions -/
  vext : ∀ pc ∈ e.pcs, validateExtensions pc.prototype e.exts = true
  /-- no extension is bound to the namespace of the `xml:` prefix -/
  xmlns : ∀ x ∈ e.exts, x.2 ≠ MT.xmlNsUri
  cur : c.protoOk e.exts

theorem cloudsOf_imageBlobItems (pw : PW) (data : Bytes) (mask : Option Bytes) :
    cloudsOf (imageBlobItems pw data mask) = [] := by
  unfold imageBlobItems; repeat' split
  all_goals rfl

theorem sess_meta {e : EW} {c : GCur} {l : List WOp} {g : List Entry} (h : Sess e c l g) : MetaInv e c g := by
  induction h with
  | new hn =>
    unfold EW.new at hn
    obtain ⟨p0, e0, hn⟩ := Outcome.bind_eq_ok hn
    obtain ⟨p1, e1, hn⟩ := Outcome.bind_eq_ok hn
    cases hn
    exact ⟨rfl, List.Sublist.refl _, (by intro pc hpc; cases hpc), (by intro x hx; cases hx), trivial⟩
  | ext _ he ih =>
    obtain ⟨_, h2, _, _⟩ := registerExtension_pw _ _ _ _ he
    have h3 := registerExtension_exts _ _ _ _ he
    refine ⟨MT.registerExtension_keeps_ExtsOk _ _ _ _ he ih.exts, by rw [h2]; exact ih.pcs, ?_, ?_, trivial⟩
    · intro pc hpc
      rw [h2] at hpc
      rw [h3]; exact validateExtensions_mono _ _ _ (ih.vext pc hpc)
    · intro x hx
      rw [h3] at hx
      rcases List.mem_append.mp hx with hx | hx
      · exact ih.xmlns x hx
      · simp only [List.mem_singleton] at hx; subst hx
        exact registerExtension_url _ _ _ _ he
  | setRoot r _ ih => exact ⟨ih.exts, ih.pcs, ih.vext, ih.xmlns, trivial⟩
  | @blob e e' l g data b _ hb ih =>
    unfold EW.addBlob at hb
    obtain ⟨⟨pw, b'⟩, e1, hb⟩ := Outcome.bind_eq_ok hb
    cases hb
    exact ⟨ih.exts, by rw [cloudsOf_append]; simpa [cloudsOf] using ih.pcs, ih.vext, ih.xmlns, trivial⟩
  | @pcNew e l g guid proto pw w _ hi hn ih =>
    exact ⟨ih.exts, ih.pcs, ih.vext, ih.xmlns, (PcW.new_ok e.pw e.exts guid proto pw w hn).1⟩
  | pcSet pc _ ih => exact ⟨ih.exts, ih.pcs, ih.vext, ih.xmlns, ih.cur⟩
  | pcPoint _ hp ih => exact ⟨ih.exts, ih.pcs, ih.vext, ih.xmlns, ih.cur⟩
  | @pcEnd e l g w w' pwB guid proto pts pk pw pc hs hf ih =>
    have hi : PcInv e w pwB guid proto pts pk g := sess_inv hs
    obtain ⟨-, -, -, -, -, -, -, f8⟩ := finalize_lay (baseOk_of_top hi.base) hi.lay pw w' pc hf
    refine ⟨ih.exts, ?_, ?_, ih.xmlns, trivial⟩
    · rw [cloudsOf_append]
      exact List.Sublist.append ih.pcs (List.Sublist.refl _)
    · intro pc' hpc'
      rcases List.mem_append.mp hpc' with h1 | h1
      · exact ih.vext pc' h1
      · simp only [List.mem_singleton] at h1; subst h1
        rw [f8]; exact ih.cur
  | pcDrop _ ih => exact ⟨ih.exts, ih.pcs, ih.vext, ih.xmlns, trivial⟩
  | pcDoneSet pc _ ih => exact ⟨ih.exts, ih.pcs, ih.vext, ih.xmlns, trivial⟩
  | pcDoneDrop _ ih => exact ⟨ih.exts, ih.pcs, ih.vext, ih.xmlns, trivial⟩
  | @pcNewU e l g guid proto pw w _ hn ih =>
    obtain ⟨hv, _, _, _, cl, _, rfl⟩ := PcW.new_ok e.pw e.exts guid proto pw w hn
    exact ⟨ih.exts, ih.pcs, ih.vext, ih.xmlns, hv⟩
  | @pcForget e l g w pwB guid proto pts pk hs ih =>
    have hi : PcInv e w pwB guid proto pts pk g := sess_inv hs
    refine ⟨ih.exts, ih.pcs, ih.vext, ih.xmlns, ?_⟩
    show validateExtensions w.prototype e.exts = true
    rw [hi.lay.io.proto_eq]; exact ih.cur
  | pcUSet pc _ ih => exact ⟨ih.exts, ih.pcs, ih.vext, ih.xmlns, ih.cur⟩
  | @pcUPoint e l g w w' s vs pw _ hp ih =>
    refine ⟨ih.exts, ih.pcs, ih.vext, ih.xmlns, ?_⟩
    show validateExtensions w'.prototype e.exts = true
    rw [(addPoint_ok_implies w e.pw vs pw w' hp).2.2.2]; exact ih.cur
  | @pcUEnd e l g w w' s pw pc hs hf ih =>
    have hi : UInv e w s g := sess_inv hs
    obtain ⟨_, _, _, _, _, a6, a7⟩ := finalize_untracked hi.inv hi.al hi.so hi.room hf
    have hc : validateExtensions w.prototype e.exts = true := ih.cur
    refine ⟨ih.exts, List.Sublist.trans ih.pcs (List.sublist_append_left _ _), ?_, ih.xmlns, ?_⟩
    · intro pc' hpc'
      rcases List.mem_append.mp hpc' with h1 | h1
      · exact ih.vext pc' h1
      · simp only [List.mem_singleton] at h1; subst h1
        rw [a6]; exact hc
    · show validateExtensions w'.prototype e.exts = true
      rw [a7]; exact hc
  | pcUDrop _ ih => exact ⟨ih.exts, ih.pcs, ih.vext, ih.xmlns, trivial⟩
  | imgNew guid _ ih => exact ⟨ih.exts, ih.pcs, ih.vext, ih.xmlns, trivial⟩
  | imgSet w' _ ih => exact ⟨ih.exts, ih.pcs, ih.vext, ih.xmlns, trivial⟩
  | @imgVis e l g w w' fmt data width height mask pw _ hv ih =>
    refine ⟨ih.exts, ?_, ih.vext, ih.xmlns, trivial⟩
    rw [cloudsOf_append, cloudsOf_imageBlobItems, List.append_nil]; exact ih.pcs
  | @imgProj e l g w w' fmt data mask mk pw _ hv ih =>
    refine ⟨ih.exts, ?_, ih.vext, ih.xmlns, trivial⟩
    rw [cloudsOf_append, cloudsOf_imageBlobItems, List.append_nil]; exact ih.pcs
  | imgEnd _ _ ih => exact ⟨ih.exts, ih.pcs, ih.vext, ih.xmlns, trivial⟩
  | imgDrop _ ih => exact ⟨ih.exts, ih.pcs, ih.vext, ih.xmlns, trivial⟩

/-- the record-name part of `MT.PointCloud.OK` follows from the session: for every point cloud pushed, the
    prototype condition of C04 reduces to the conditions on the data types (float text of the stored
    minima / maxima / scale / offset, `i64` integer bounds) -/
theorem sess_prototypeOK {e : EW} {c : GCur} {l : List WOp} {g : List Entry} (h : Sess e c l g)
    (ft : FloatText) (fp : FloatParse) (pc : PointCloud) (hpc : pc ∈ e.pcs)
    (hdt : ∀ r ∈ pc.prototype, MT.DataTypeOK ft fp r.dt) : MT.PrototypeOK ft fp e.exts pc.prototype :=
  MT.PrototypeOK_of_validate ft fp (sess_meta h).exts (sess_meta h).xmlns pc.prototype
    ((sess_meta h).vext pc hpc) hdt

/-! # Part 8 — the top-level `finalize`, exactly -/

/-- the logical stream `finalize_customized_xml` leaves: the XML at the cursor, alignment, the real file
    header (physical length, physical XML offset, XML length) at offset 0, the cursor behind the XML -/
def finalStream (st : LogStream) (xml : Bytes) : LogStream :=
  { (LogStream.write { (st.write xml).align with cur := 0 }
      (fileHeaderBytes (st.write xml).align.physSize (l2p st.cur) xml.length)) with
    cur := (st.write xml).align.cur }

/-- **the writer refuses XML its own reader would refuse**: after a successful `finalize` the XML section
    (whatever the transformer returned) is at most `MAX_XML_SIZE` = 10 MiB -/
theorem finalize_xml_le (ft : FloatText) (e e' : EW) (tr : String → Option String)
    (h : EW.finalize ft e tr = .ok e') :
    ∀ x0 x, serializeRoot ft e.root e.pcs e.imgs e.exts = some x0 → tr x0 = some x →
      (utf8 x).length ≤ maxXmlSize := by
  intro x0 x hs ht
  unfold EW.finalize at h
  rw [hs] at h
  dsimp only at h
  split at h
  · cases h
  rw [ht] at h
  dsimp only at h
  split at h
  · cases h
  · unfold maxXmlSize; omega

/-- **the writer refuses strings XML cannot carry**: after a successful `finalize` the serialised document
    consists of XML characters only -/
theorem finalize_xml_chars (ft : FloatText) (e e' : EW) (tr : String → Option String)
    (h : EW.finalize ft e tr = .ok e') :
    ∀ x0, serializeRoot ft e.root e.pcs e.imgs e.exts = some x0 → x0.toList.all xmlChar = true := by
  intro x0 hs
  unfold EW.finalize at h
  rw [hs] at h
  dsimp only at h
  split at h
  · cases h
  · rename_i hc
    simpa using hc

/-- `ew_finalize_abs` with the XML text and the header fields identified -/
theorem finalize_exact (ft : FloatText) (e e' : EW) (tr : String → Option String)
    (hpw : e.pw.Inv) (h : EW.finalize ft e tr = .ok e') :
    ∃ (xml0 xml : String), serializeRoot ft e.root e.pcs e.imgs e.exts = some xml0 ∧ tr xml0 = some xml ∧
      e'.pw.Inv ∧ e'.pw.abs = finalStream e.pw.abs (utf8 xml) ∧
      e'.pw.dev.data = image e'.pw.abs.data := by
  unfold EW.finalize at h
  cases hs : serializeRoot ft e.root e.pcs e.imgs e.exts with
  | none => rw [hs] at h; cases h
  | some xml0 =>
    rw [hs] at h
    dsimp only at h
    split at h
    · cases h
    cases ht : tr xml0 with
    | none => rw [ht] at h; cases h
    | some xml =>
      rw [ht] at h
      dsimp only at h
      split at h
      · cases h
      obtain ⟨p1, e1, h⟩ := Outcome.bind_eq_ok h
      obtain ⟨p1a, e1a, h⟩ := Outcome.bind_eq_ok h
      obtain ⟨p1', f1, i1, a1⟩ := pw_writeAll e.pw (utf8 xml) hpw
      rw [e1] at f1; cases f1
      obtain ⟨p1a', f1a, i1a, a1a⟩ := pw_align p1 i1
      rw [e1a] at f1a; cases f1a
      have wfa := abs_wf p1a i1a
      have hpos := pw_position p1a i1a
      simp only [LogStream.physPos] at hpos
      have hpos0 := pw_position e.pw hpw
      simp only [LogStream.physPos] at hpos0
      obtain ⟨i2, a2, s2, _⟩ := pw_size p1a i1a
      generalize hps : p1a.physicalSize = psz at h i2 a2 s2
      obtain ⟨p2, sz⟩ := psz
      simp only [] at h i2 a2 s2
      obtain ⟨p3, e3, i3, a3⟩ := pw_seek_back p2 0 i2 (Nat.zero_le _)
      have hl0 : l2p 0 = 0 := rfl
      rw [hl0] at e3
      rw [e3] at h
      simp only [Bool.not_true, Bool.false_eq_true, if_false] at h
      obtain ⟨p4, e4, h⟩ := Outcome.bind_eq_ok h
      obtain ⟨p4', f4, i4, a4⟩ := pw_writeAll p3 (fileHeaderBytes sz (e.pw.physicalPosition) (utf8 xml).length) i3
      rw [e4] at f4; cases f4
      have hlen : p1a.abs.cur ≤ p4.abs.data.length := by
        have h3 : p3.abs.cur ≤ p3.abs.data.length := by rw [a3]; exact Nat.zero_le _
        have := spec_write_length_ge p3.abs (fileHeaderBytes sz (e.pw.physicalPosition) (utf8 xml).length) h3
        rw [a4]
        have h5 : p3.abs.data.length = p1a.abs.data.length := by rw [a3, a2]
        omega
      obtain ⟨p5, e5, i5, a5⟩ := pw_seek_back p4 p1a.abs.cur i4 hlen
      rw [hpos, e5] at h
      simp only [Bool.not_true, Bool.false_eq_true, if_false] at h
      cases h
      obtain ⟨i6, a6, d6⟩ := pw_flush p5 i5
      refine ⟨xml0, xml, rfl, ht, i6, ?_, ?_⟩
      · show p5.flush.abs = _
        rw [a6, a5, a4, a3, a2, a1a, a1, s2, hpos0, a1a, a1]
        rfl
      · show p5.flush.dev.data = image p5.flush.abs.data
        rw [a6]; exact d6

/-! # Part 9 — the final stream: header, XML and every stored window -/

theorem align_wf (st : LogStream) (h2 : st.cur ≤ st.data.length) :
    st.align.cur ≤ st.align.data.length ∧ st.data.length ≤ st.align.data.length := by
  unfold LogStream.align
  split
  · exact RoundTrip.write_wf st _ h2
  · exact ⟨h2, Nat.le_refl _⟩

structure FinalFacts (st : LogStream) (xml : Bytes) : Prop where
  /-- the first 48 bytes are the real header -/
  header : (finalStream st xml).data.take 48
    = fileHeaderBytes (1024 * ((finalStream st xml).data.length / 1020)) (l2p st.cur) xml.length
  /-- the XML lies where the header says -/
  xmlAt : ((finalStream st xml).data.drop st.cur).take xml.length = xml
  xmlEnd : st.cur + xml.length ≤ (finalStream st xml).data.length
  /-- the header write does not extend the stream -/
  len : (finalStream st xml).data.length = (st.write xml).align.data.length
  /-- every window behind the header and in front of the old cursor is untouched -/
  window : ∀ s n, 48 ≤ s → s + n ≤ st.cur →
    ((finalStream st xml).data.drop s).take n = (st.data.drop s).take n

theorem final_facts (st : LogStream) (xml : Bytes) (wf1 : st.data.length % 1020 = 0)
    (wf2 : st.cur ≤ st.data.length) (h48 : 48 ≤ st.cur) : FinalFacts st xml := by
  obtain ⟨a1, a2⟩ := RoundTrip.write_wf st xml wf2
  obtain ⟨b1, b2⟩ := align_wf (st.write xml) a1
  have e1 := ext_write st xml wf2
  have e2 := ext_align (st.write xml) a1
  have hc1 : (st.write xml).cur = st.cur + xml.length := rfl
  have hl1 : (st.write xml).data.length % 1020 = 0 := by
    rw [spec_write_length st xml wf2]; omega
  have hl2 : (st.write xml).align.data.length % 1020 = 0 := by
    unfold LogStream.align
    split
    · rw [spec_write_length _ _ a1]; omega
    · exact hl1
  generalize hst2 : (st.write xml).align = st2 at b1 b2 e2 hl2
  have hF : (finalStream st xml).data
      = (LogStream.write { st2 with cur := 0 } (fileHeaderBytes st2.physSize (l2p st.cur) xml.length)).data := by
    unfold finalStream; rw [hst2]
  have hh : (fileHeaderBytes st2.physSize (l2p st.cur) xml.length).length = 48 := RoundTrip.fileHeader_length _ _ _
  have hz : ({ st2 with cur := 0 } : LogStream).cur ≤ ({ st2 with cur := 0 } : LogStream).data.length :=
    Nat.zero_le _
  have hlen : (finalStream st xml).data.length = st2.data.length := by
    rw [hF, spec_write_length _ _ hz, hh]
    show max st2.data.length ((0 + 48 + 1019) / 1020 * 1020) = st2.data.length
    have : 48 ≤ st2.data.length := by omega
    omega
  have hwin : ∀ s n, 48 ≤ s → s + n ≤ st2.data.length →
      ((finalStream st xml).data.drop s).take n = (st2.data.drop s).take n := by
    intro s n hs hn
    rw [hF]
    exact RoundTrip.write_window_stable { st2 with cur := 0 } _ s n hz hn (.inl (by rw [hh]; show 0 + 48 ≤ s; omega))
  refine ⟨?_, ?_, by rw [hlen]; omega, by rw [hlen, hst2], ?_⟩
  · rw [hlen, hF]
    have := write_window { st2 with cur := 0 } (fileHeaderBytes st2.physSize (l2p st.cur) xml.length) hz
    rw [hh] at this
    exact this
  · rw [hwin st.cur xml.length h48 (by omega), e2.window st.cur xml.length (by omega)]
    exact write_window st xml wf2
  · intro s n hs hn
    rw [hwin s n hs (by omega), e2.window s n (by omega), e1.window s n hn]

/-- every stored item is present in the final stream -/
theorem stored_final {g : List Entry} {st : LogStream} (h : Stored g st) (xml : Bytes)
    (wf1 : st.data.length % 1020 = 0) (wf2 : st.cur ≤ st.data.length) (h48 : 48 ≤ st.cur) :
    ∀ it ∈ g, it.Present (finalStream st xml).data := by
  intro it hit
  have hp := h.placed it hit
  exact (h.present it hit).congr ((final_facts st xml wf1 wf2 h48).window _ _ hp.1 hp.2)

theorem loop_length (bs : ByteArray) : ∀ (n i : Nat) (r : List UInt8), bs.size - i = n →
    (ByteArray.toList.loop bs i r).length = r.length + n := by
  intro n
  induction n with
  | zero =>
    intro i r h
    rw [ByteArray.toList.loop]
    have : ¬ i < bs.size := by omega
    simp [this]
  | succ n ih =>
    intro i r h
    rw [ByteArray.toList.loop]
    have : i < bs.size := by omega
    simp only [this, if_true]
    rw [ih (i + 1) _ (by omega)]
    simp; omega

theorem utf8_length (s : String) : (utf8 s).length = s.utf8ByteSize := by
  unfold utf8 ByteArray.toList
  rw [loop_length _ _ 0 [] rfl]
  simp [String.toUTF8]

/-- the XML text `serializeRoot` produces is never empty -/
theorem serializeRoot_nonempty (ft : FloatText) (root : Root) (pcs : List PointCloud) (imgs : List Image)
    (exts : List (String × String)) (xml : String)
    (h : serializeRoot ft root pcs imgs exts = some xml) : 0 < (utf8 xml).length := by
  unfold serializeRoot at h
  split at h
  · cases h
  · injection h with h
    subst h
    rw [utf8_length]
    simp only [String.utf8ByteSize_append]
    have : ("<?xml version=\"1.0\" encoding=\"UTF-8\"?>\n" : String).utf8ByteSize = 39 := by decide
    omega

theorem image_take48 (d : Bytes) (hd : d.length % 1020 = 0) (hne : d ≠ []) :
    (image d).take 48 = d.take 48 := by
  have hpos : 0 < d.length := List.length_pos_iff.mpr hne
  rw [image_eq_imgFuel, imgFuel_succ _ d hne, List.append_assoc,
    List.take_append_of_le_length (by rw [List.length_take]; omega), List.take_take]
  rfl

/-! # Part 10 — `Reader.open` on the image of a stream with a true header -/

/-- `E57Reader::new` on the paged image of a logical stream `D` that starts with the file header
    `(L, l2p c, |X|)` and carries the non-empty XML section `X` (at most 10 MiB) at logical offset `c`:
    header parse, page reader, `extract_xml` succeed; what follows is the external XML front end applied
    to exactly `X` and the document readers.  The reader `pr` it keeps is healthy. -/
theorem open_image (D X : Bytes) (L c : Nat) (hd : D.length % 1020 = 0) (hphys : l2p D.length < 2 ^ 64)
    (hL : L < 2 ^ 64) (hhdr : D.take 48 = fileHeaderBytes L (l2p c) X.length)
    (hX : (D.drop c).take X.length = X) (hend : c + X.length ≤ D.length)
    (hpos : 0 < X.length) (hmax : X.length ≤ maxXmlSize) :
    ∃ pr, BlobRT.Healthy D pr ∧ ∀ (xo : XmlOracle) (fp : FloatParse),
      Reader.open (image D) xo fp = (do
        let doc ← xo X
        let root ← rootFromDocument fp doc
        let pcs ← pointcloudsFromDocument fp doc
        let imgs ← imagesFromDocument fp doc
        pure ⟨pr, ⟨L, l2p c, X.length, 1024⟩, X, root, pcs, imgs, extensionsFromDocument doc⟩) := by
  have hne : D ≠ [] := by
    intro h; rw [h] at hend; simp only [List.length_nil] at hend; omega
  have hXne : X ≠ [] := by
    intro h; rw [h] at hpos; simp at hpos
  have hDl : 1020 ≤ D.length := by
    have : 0 < D.length := List.length_pos_iff.mpr hne
    omega
  have hil := image_length D hd
  have h48 : (image D).take 48 = fileHeaderBytes L (l2p c) X.length := by
    rw [image_take48 D hd hne, hhdr]
  have hread := Interrupt.read_hdr (image D) L (l2p c) X.length (by rw [hil]; omega) h48
  have hlc : l2p c < 2 ^ 64 := by
    have := RoundTrip.l2p_mono c D.length (by omega); omega
  have hxl : X.length < 2 ^ 64 := by unfold l2p at hphys; omega
  rw [Nat.mod_eq_of_lt hL, Nat.mod_eq_of_lt hlc, Nat.mod_eq_of_lt hxl] at hread
  obtain ⟨r0, er, ho, _, _⟩ := pr_new_image D 48 hd hne
  obtain ⟨d1, d2, _⟩ := pr_new_data _ _ _ er
  -- the header page check passes: every page of an image is valid
  obtain ⟨rc, hchk, oc, ic, _, pc, dc⟩ :=
    checkHeaderPage_image D r0 hd hne (pr_new_inv _ _ _ er) d2 d1
  have hat0 : Layout.At D rc 48 := ⟨ic, pc, dc, oc⟩
  obtain ⟨r1, e1, a1⟩ := Layout.seek_at hd c hat0 (by omega)
  obtain ⟨r2, e2, a2⟩ := Layout.readExact_holds hd X a1 (Layout.Holds.of_slice D c X hX hXne)
  have hext : extractXml rc (l2p c) X.length = some (r2, X) := by
    unfold extractXml
    rw [if_neg (Nat.not_lt.mpr hmax), e1]
    simp only [e2]
  refine ⟨r2, BlobRT.healthy_of_at a2, ?_⟩
  intro xo fp
  unfold Reader.open
  simp only [hread, er, Outcome.toOption, hchk, hext, Option.bind_eq_bind, Option.bind_some]

/-! # Part 11 — reading the items back -/

/-- what reading a stored item back means, for a reader `r0`:
    a blob: `Blob::read` of the descriptor returns exactly the bytes written (and the reader stays healthy
    over the stream `D`);
    a cloud: `QueueReader::new` on the metadata as the XML stores it succeeds and the raw iterator yields
    the points added, in order, then `done` -/
def Entry.ReadBack (D : Bytes) (r0 : PR) : Entry → Prop
  | .blob ref data _ => (blobRead r0 ref).2 = some data ∧ BlobRT.Healthy D (blobRead r0 ref).1
  | .cloud pc pts _ _ =>
    ∃ r1 q, QR.new (MT.PointCloud.stored pc) r0 = (r1, some q) ∧
      RawIter.run (pts.length + 1) ⟨q, (MT.PointCloud.stored pc).records, 0⟩ r1
        = pts.map E57.Item.value ++ [E57.Item.done]

/-- **per-item read back**: an item present in a complete paged stream `D` (something follows it) is
    read back by every healthy reader over the image of `D`, in any cache state, at any position -/
theorem entry_read_back (D : Bytes) (hd : D.length % 1020 = 0) (hphys : l2p D.length < 2 ^ 64)
    (r0 : PR) (hr : BlobRT.Healthy D r0) (it : Entry) (hp : it.Present D)
    (hroom : it.start + it.len < D.length) : it.ReadBack D r0 := by
  cases it with
  | blob ref data s =>
    obtain ⟨href, hwin⟩ := hp
    have hl := BlobRT.blobBytes_length data
    have hX : Layout.Holds D s (BlobRT.blobBytes data) := by
      apply Layout.Holds.of_slice
      · rw [hl]; exact hwin
      · intro h; rw [h] at hl; simp only [List.length_nil] at hl; omega
    have hle := hX.le
    rw [hl] at hle
    have h64 : BlobRT.secLen data.length < 2 ^ 64 := by
      unfold l2p at hphys; unfold BlobRT.secLen; omega
    obtain ⟨r', er, a⟩ := BlobRT.blobRead_holds hd hr s (blobHeaderBytes (BlobRT.secLen data.length)) data
      (blobHeaderBytes_length _) (BlobRT.blobHeader_id _)
      (by rw [BlobRT.blobHeader_len, Nat.mod_eq_of_lt h64]; unfold BlobRT.secLen; omega) hX
    show (blobRead r0 ref).2 = some data ∧ BlobRT.Healthy D (blobRead r0 ref).1
    rw [href, er]
    exact ⟨rfl, BlobRT.healthy_of_at a⟩
  | cloud pc pts s n =>
    obtain ⟨pwB, pw2, guid, proto, packets, L, h1, h2, h3, h4, h5, h6, h7⟩ := hp
    subst h1
    have hn32 : 32 ≤ n := by rw [← h2]; unfold RoundTrip.sectionLen; omega
    have hc : RoundTrip.Contains D r0 pwB.abs.cur (RoundTrip.sectionLen proto packets)
        (RoundTrip.sectionWindow pwB pw2 proto packets) :=
      ⟨hd, hphys, by rw [h2]; exact h7, hr.1, hr.2.1, hr.2.2⟩
    have := RoundTrip.read_back pwB pw2 pc guid proto pts packets L h3 h4 h5 h6 D r0 hc
      (fun _ => by
        have : pwB.abs.cur + n < D.length := hroom
        omega)
    exact this

/-! # Part 12 — the whole session -/

/-- **(a) the stored windows survive `finalize`**: after any session and the top-level `finalize`, the
    device holds the paged image of a complete logical stream in which every item of the ghost list is
    present, strictly in front of the end of the stream -/
theorem stored_windows_survive {e e' : EW} {ops : List WOp} {g : List Entry} (ft : FloatText)
    (tr : String → Option String) (hS : Sess e .top ops g) (hfin : EW.finalize ft e tr = .ok e') :
    e'.pw.Inv ∧ e'.pw.dev.data = image e'.pw.abs.data ∧ e'.pw.abs.data.length % 1020 = 0 ∧
      (∀ it ∈ g, it.Present e'.pw.abs.data ∧ 48 ≤ it.start ∧ it.start + it.len ≤ e.pw.abs.cur) ∧
      e.pw.abs.cur ≤ e'.pw.abs.data.length ∧
      g.Pairwise (fun a b => a.start + a.len ≤ b.start ∨ b.start + b.len ≤ a.start) := by
  have hT : TopInv e.pw g := sess_inv hS
  obtain ⟨xml0, xml, hs, ht, i', a', d'⟩ := finalize_exact ft e e' tr hT.inv hfin
  have wf := abs_wf e.pw hT.inv
  have ff := final_facts e.pw.abs (utf8 xml) wf.1 wf.2 hT.h48
  refine ⟨i', d', (abs_wf e'.pw i').1, ?_, by rw [a']; have := ff.xmlEnd; omega, hT.stored.disjoint⟩
  intro it hit
  rw [a']
  exact ⟨stored_final hT.stored (utf8 xml) wf.1 wf.2 hT.h48 it hit, hT.stored.placed it hit⟩

/-- the offset part of `MT.PointCloud.OK` follows from the session for every tracked cloud: the section
    offset stored in the XML is the physical image of the window start, and fits `u64` when the file does;
    the record count is the number of points added -/
theorem tracked_cloud_offsets {e e' : EW} {ops : List WOp} {g : List Entry} (ft : FloatText)
    (tr : String → Option String) (hS : Sess e .top ops g) (hfin : EW.finalize ft e tr = .ok e')
    (hsz : e'.pw.dev.data.length < 2 ^ 64) (pc : PointCloud) (pts : List (List Value)) (s n : Nat)
    (hin : Entry.cloud pc pts s n ∈ g) :
    pc.fileOffset = l2p s ∧ pc.fileOffset ≤ 18446744073709551615 ∧ pc.records = pts.length ∧
      pc ∈ e.pcs := by
  obtain ⟨i', d', hl', hall, hcur, -⟩ := stored_windows_survive ft tr hS hfin
  obtain ⟨⟨pwB, pw2, guid, proto, packets, L, h1, -⟩, _, hend⟩ := hall _ hin
  have hend : s + n ≤ e.pw.abs.cur := hend
  rw [d', image_length _ hl'] at hsz
  have h5 := RoundTrip.l2p_mono s e'.pw.abs.data.length (by omega)
  have h6 : l2p e'.pw.abs.data.length = 1024 * (e'.pw.abs.data.length / 1020) := by unfold l2p; omega
  refine ⟨by rw [L.fileOffset, h1], by rw [L.fileOffset, h1]; omega, L.records, ?_⟩
  exact (sess_meta hS).pcs.subset (mem_cloudsOf hin)

/-- the fields of the root element the reader reports are those of the writer -/
def RootSame (r : RootRead) (root : Root) : Prop :=
  r.format = "ASTM E57 3D Imaging Data File" ∧ r.guid = root.guid ∧ r.major = 1 ∧
    r.libraryVersion = root.libraryVersion ∧ r.creation = root.creation ∧
    r.coordinateMetadata = root.coordinateMetadata

/-- **(b) `open_finalized`, any XML transformer**: `E57Reader::new` on the finished file succeeds (the
    transformed XML must be non-empty; that it is at most 10 MiB, the reader's limit, follows from the success
    of `finalize`: `finalize_xml_le`); what it passes to the external
    XML front end is exactly the UTF-8 text `finalize` wrote; if the front end returns for it the tree of
    the writer's document (obligation C of C04; for a customised XML: the customisation does not change the
    E57 part of the tree) the document-level metadata is the writer's -/
theorem open_finalized_tr {e e' : EW} {ops : List WOp} {g : List Entry} (ft : FloatText) (fp : FloatParse)
    (xo : XmlOracle) (tr : String → Option String) (hS : Sess e .top ops g)
    (hfin : EW.finalize ft e tr = .ok e')
    (hsz : e'.pw.dev.data.length < 2 ^ 64)
    (hxml : ∀ x0 x, serializeRoot ft e.root e.pcs e.imgs e.exts = some x0 → tr x0 = some x →
      0 < (utf8 x).length)
    (horacle : ∀ x0 x, serializeRoot ft e.root e.pcs e.imgs e.exts = some x0 → tr x0 = some x →
      xo (utf8 x) = MT.rootDoc ft e.root e.pcs e.imgs e.exts)
    (hcr : ∀ d, e.root.creation = some d → MT.F64OK ft fp d.gpsTime)
    (okpc : ∀ pc ∈ e.pcs, MT.PointCloud.OK ft fp e.exts pc)
    (okimg : ∀ i ∈ e.imgs, MT.Image.OK ft fp i) :
    ∃ rd x0 xml, Reader.open e'.pw.dev.data xo fp = some rd ∧
      serializeRoot ft e.root e.pcs e.imgs e.exts = some x0 ∧ tr x0 = some xml ∧ rd.xml = utf8 xml ∧
      rd.header = ⟨e'.pw.dev.data.length, l2p e.pw.abs.cur, (utf8 xml).length, 1024⟩ ∧
      RootSame rd.root e.root ∧
      rd.pcs = e.pcs.map MT.PointCloud.stored ∧ rd.imgs = e.imgs ∧ rd.exts = e.exts ∧
      BlobRT.Healthy e'.pw.abs.data rd.pr := by
  have hT : TopInv e.pw g := sess_inv hS
  have hM := sess_meta hS
  obtain ⟨xml0, xml, hs, ht, i', a', d'⟩ := finalize_exact ft e e' _ hT.inv hfin
  have wf := abs_wf e.pw hT.inv
  have wf' := abs_wf e'.pw i'
  have ff := final_facts e.pw.abs (utf8 xml) wf.1 wf.2 hT.h48
  have ffh := ff.header
  have ffx := ff.xmlAt
  have ffe := ff.xmlEnd
  rw [← a'] at ffh ffx ffe
  have hil := image_length e'.pw.abs.data wf'.1
  have hphys : l2p e'.pw.abs.data.length < 2 ^ 64 := by
    rw [d', hil] at hsz; unfold l2p; omega
  have hL : 1024 * (e'.pw.abs.data.length / 1020) < 2 ^ 64 := by rw [d', hil] at hsz; exact hsz
  obtain ⟨pr, hpr, hopen⟩ := open_image e'.pw.abs.data (utf8 xml) _ e.pw.abs.cur wf'.1 hphys hL
    ffh ffx ffe (hxml xml0 xml hs ht) (finalize_xml_le ft e e' tr hfin xml0 xml hs ht)
  have hdocS : (MT.rootDoc ft e.root e.pcs e.imgs e.exts).isSome = true := by
    rw [MT.rootDoc_isSome_iff, hs]; rfl
  obtain ⟨doc, hdoc⟩ := Option.isSome_iff_exists.mp hdocS
  have hsh := MT.NoImagesShadow_of_validate ft hM.exts e.pcs hM.vext
  obtain ⟨⟨r, c1, c1'⟩, c2, c3, c4⟩ :=
    MT.C04_document_roundtrip ft fp e.root e.pcs e.imgs e.exts doc hdoc hM.exts hcr okpc hsh okimg
  refine ⟨⟨pr, ⟨1024 * (e'.pw.abs.data.length / 1020), l2p e.pw.abs.cur, (utf8 xml).length, 1024⟩,
    utf8 xml, r, e.pcs.map MT.PointCloud.stored, e.imgs, extensionsFromDocument doc⟩, xml0, xml, ?_, hs, ht,
    rfl, ?_, c1', rfl, rfl, c4, hpr⟩
  · rw [d', hopen xo fp, horacle xml0 xml hs ht, hdoc]
    simp only [Option.bind_eq_bind, Option.bind_some, c1, c2, c3]
    rfl
  · rw [d', hil]

/-- **(d) the whole-session round trip, any XML transformer.**  After any ghost-annotated session
    `Sess e .top ops g` (no sub-writer left open) and a successful `finalize`, on the ideal device:
    `E57Reader::new` opens the device bytes; root fields, point-cloud metadata (as the XML stores it, in
    order), images and extensions are the writer's; and for EVERY healthy reader `r0` over the file (in
    particular the reader `rd.pr` kept by `rd`, and every state reached from it by reading blobs)
    * every blob of the ghost list (those of `add_blob` and those of the images) is read back byte-exactly,
    * every tracked point cloud is decoded by `QueueReader::new` + the raw iterator into exactly the
      points added, in order, then `done`. -/
theorem session_roundtrip_tr {e e' : EW} {ops : List WOp} {g : List Entry} (ft : FloatText) (fp : FloatParse)
    (xo : XmlOracle) (tr : String → Option String) (hS : Sess e .top ops g)
    (hfin : EW.finalize ft e tr = .ok e')
    (hsz : e'.pw.dev.data.length < 2 ^ 64)
    (hxml : ∀ x0 x, serializeRoot ft e.root e.pcs e.imgs e.exts = some x0 → tr x0 = some x →
      0 < (utf8 x).length)
    (horacle : ∀ x0 x, serializeRoot ft e.root e.pcs e.imgs e.exts = some x0 → tr x0 = some x →
      xo (utf8 x) = MT.rootDoc ft e.root e.pcs e.imgs e.exts)
    (hcr : ∀ d, e.root.creation = some d → MT.F64OK ft fp d.gpsTime)
    (okpc : ∀ pc ∈ e.pcs, MT.PointCloud.OK ft fp e.exts pc)
    (okimg : ∀ i ∈ e.imgs, MT.Image.OK ft fp i) :
    ∃ rd, Reader.open e'.pw.dev.data xo fp = some rd ∧
      RootSame rd.root e.root ∧
      rd.pcs = e.pcs.map MT.PointCloud.stored ∧ (cloudsOf g).Sublist e.pcs ∧
      rd.imgs = e.imgs ∧ rd.exts = e.exts ∧
      BlobRT.Healthy e'.pw.abs.data rd.pr ∧
      (∀ r0, BlobRT.Healthy e'.pw.abs.data r0 → ∀ ref data s, Entry.blob ref data s ∈ g →
        (blobRead r0 ref).2 = some data ∧ BlobRT.Healthy e'.pw.abs.data (blobRead r0 ref).1) ∧
      (∀ r0, BlobRT.Healthy e'.pw.abs.data r0 → ∀ pc pts s n, Entry.cloud pc pts s n ∈ g →
        ∃ r1 q, QR.new (MT.PointCloud.stored pc) r0 = (r1, some q) ∧
          RawIter.run (pts.length + 1) ⟨q, (MT.PointCloud.stored pc).records, 0⟩ r1
            = pts.map E57.Item.value ++ [E57.Item.done]) := by
  obtain ⟨rd, x0, xml, ho, hs, ht, _, _, hroot, hpcs, himgs, hexts, hpr⟩ :=
    open_finalized_tr ft fp xo tr hS hfin hsz hxml horacle hcr okpc okimg
  have hT : TopInv e.pw g := sess_inv hS
  have hM := sess_meta hS
  obtain ⟨xml0, xml', hs', ht', i', a', d'⟩ := finalize_exact ft e e' _ hT.inv hfin
  rw [hs] at hs'; cases hs'
  rw [ht] at ht'; cases ht'
  have wf := abs_wf e.pw hT.inv
  have wf' := abs_wf e'.pw i'
  have ff := final_facts e.pw.abs (utf8 xml) wf.1 wf.2 hT.h48
  have ffe := ff.xmlEnd
  rw [← a'] at ffe
  have hpos := hxml x0 xml hs ht
  have hphys : l2p e'.pw.abs.data.length < 2 ^ 64 := by
    rw [d', image_length e'.pw.abs.data wf'.1] at hsz; unfold l2p; omega
  have hall : ∀ r0, BlobRT.Healthy e'.pw.abs.data r0 → ∀ it ∈ g, it.ReadBack e'.pw.abs.data r0 := by
    intro r0 hr0 it hit
    have hp := stored_final hT.stored (utf8 xml) wf.1 wf.2 hT.h48 it hit
    rw [← a'] at hp
    have hpl := (hT.stored.placed it hit).2
    exact entry_read_back _ wf'.1 hphys r0 hr0 it hp (by omega)
  refine ⟨rd, ho, hroot, hpcs, hM.pcs, himgs, hexts, hpr, ?_, ?_⟩
  · intro r0 hr0 ref data s hin
    exact hall r0 hr0 _ hin
  · intro r0 hr0 pc pts s n hin
    exact hall r0 hr0 _ hin

/-- **(b)** for the plain `finalize` (identity transformer): the XML is never empty -/
theorem open_finalized {e e' : EW} {ops : List WOp} {g : List Entry} (ft : FloatText) (fp : FloatParse)
    (xo : XmlOracle) (hS : Sess e .top ops g)
    (hfin : EW.finalize ft e (fun x => some x) = .ok e')
    (hsz : e'.pw.dev.data.length < 2 ^ 64)
    (horacle : ∀ xml, serializeRoot ft e.root e.pcs e.imgs e.exts = some xml →
      xo (utf8 xml) = MT.rootDoc ft e.root e.pcs e.imgs e.exts)
    (hcr : ∀ d, e.root.creation = some d → MT.F64OK ft fp d.gpsTime)
    (okpc : ∀ pc ∈ e.pcs, MT.PointCloud.OK ft fp e.exts pc)
    (okimg : ∀ i ∈ e.imgs, MT.Image.OK ft fp i) :
    ∃ rd xml, Reader.open e'.pw.dev.data xo fp = some rd ∧
      serializeRoot ft e.root e.pcs e.imgs e.exts = some xml ∧ rd.xml = utf8 xml ∧
      rd.header = ⟨e'.pw.dev.data.length, l2p e.pw.abs.cur, (utf8 xml).length, 1024⟩ ∧
      RootSame rd.root e.root ∧
      rd.pcs = e.pcs.map MT.PointCloud.stored ∧ rd.imgs = e.imgs ∧ rd.exts = e.exts ∧
      BlobRT.Healthy e'.pw.abs.data rd.pr := by
  obtain ⟨rd, x0, xml, h1, h2, h3, h4⟩ := open_finalized_tr ft fp xo (fun x => some x) hS hfin hsz
    (by intro x0 x h1 h2; cases h2; exact serializeRoot_nonempty ft _ _ _ _ x0 h1)
    (by intro x0 x h1 h2; cases h2; exact horacle x0 h1) hcr okpc okimg
  cases h3
  exact ⟨rd, x0, h1, h2, h4⟩

/-- **(d) the whole-session round trip** (plain `finalize`).  Hypotheses besides the session itself:
    the file is smaller than 2^64 bytes (offsets are `u64`), the external XML parser returns the tree
    `MT.rootDoc` of the text (obligation C), and the float/integer side conditions of C04 on the metadata
    values (`hcr`, `okpc`, `okimg`).  `ExtsOk`, `NoImagesShadow`, the non-emptiness of the XML and its size
    limit (at most 10 MiB, `finalize_xml_le`) are derived from the session. -/
theorem session_roundtrip {e e' : EW} {ops : List WOp} {g : List Entry} (ft : FloatText) (fp : FloatParse)
    (xo : XmlOracle) (hS : Sess e .top ops g)
    (hfin : EW.finalize ft e (fun x => some x) = .ok e')
    (hsz : e'.pw.dev.data.length < 2 ^ 64)
    (horacle : ∀ xml, serializeRoot ft e.root e.pcs e.imgs e.exts = some xml →
      xo (utf8 xml) = MT.rootDoc ft e.root e.pcs e.imgs e.exts)
    (hcr : ∀ d, e.root.creation = some d → MT.F64OK ft fp d.gpsTime)
    (okpc : ∀ pc ∈ e.pcs, MT.PointCloud.OK ft fp e.exts pc)
    (okimg : ∀ i ∈ e.imgs, MT.Image.OK ft fp i) :
    ∃ rd, Reader.open e'.pw.dev.data xo fp = some rd ∧
      RootSame rd.root e.root ∧
      rd.pcs = e.pcs.map MT.PointCloud.stored ∧ (cloudsOf g).Sublist e.pcs ∧
      rd.imgs = e.imgs ∧ rd.exts = e.exts ∧
      BlobRT.Healthy e'.pw.abs.data rd.pr ∧
      (∀ r0, BlobRT.Healthy e'.pw.abs.data r0 → ∀ ref data s, Entry.blob ref data s ∈ g →
        (blobRead r0 ref).2 = some data ∧ BlobRT.Healthy e'.pw.abs.data (blobRead r0 ref).1) ∧
      (∀ r0, BlobRT.Healthy e'.pw.abs.data r0 → ∀ pc pts s n, Entry.cloud pc pts s n ∈ g →
        ∃ r1 q, QR.new (MT.PointCloud.stored pc) r0 = (r1, some q) ∧
          RawIter.run (pts.length + 1) ⟨q, (MT.PointCloud.stored pc).records, 0⟩ r1
            = pts.map E57.Item.value ++ [E57.Item.done]) :=
  session_roundtrip_tr ft fp xo (fun x => some x) hS hfin hsz
    (by intro x0 x h1 h2; cases h2; exact serializeRoot_nonempty ft _ _ _ _ x0 h1)
    (by intro x0 x h1 h2; cases h2; exact horacle x0 h1) hcr okpc okimg

/-- **(b) for `Reach`**: the document-level round trip needs no ghost annotation — for ANY sequence of
    successful writer calls (`Interrupt.Reach`, no sub-writer left open) followed by `finalize` -/
theorem reach_open_finalized {e e' : EW} {ops : List WOp} (ft : FloatText) (fp : FloatParse)
    (xo : XmlOracle) (hR : Interrupt.Reach e .top ops)
    (hfin : EW.finalize ft e (fun x => some x) = .ok e')
    (hsz : e'.pw.dev.data.length < 2 ^ 64)
    (horacle : ∀ xml, serializeRoot ft e.root e.pcs e.imgs e.exts = some xml →
      xo (utf8 xml) = MT.rootDoc ft e.root e.pcs e.imgs e.exts)
    (hcr : ∀ d, e.root.creation = some d → MT.F64OK ft fp d.gpsTime)
    (okpc : ∀ pc ∈ e.pcs, MT.PointCloud.OK ft fp e.exts pc)
    (okimg : ∀ i ∈ e.imgs, MT.Image.OK ft fp i) :
    ∃ rd xml, Reader.open e'.pw.dev.data xo fp = some rd ∧
      serializeRoot ft e.root e.pcs e.imgs e.exts = some xml ∧ rd.xml = utf8 xml ∧
      rd.header = ⟨e'.pw.dev.data.length, l2p e.pw.abs.cur, (utf8 xml).length, 1024⟩ ∧
      RootSame rd.root e.root ∧
      rd.pcs = e.pcs.map MT.PointCloud.stored ∧ rd.imgs = e.imgs ∧ rd.exts = e.exts ∧
      BlobRT.Healthy e'.pw.abs.data rd.pr := by
  obtain ⟨gc, g, hc, _, hs⟩ := reach_sess hR
  cases GCur.eq_top hc
  exact open_finalized ft fp xo hs hfin hsz horacle hcr okpc okimg

/-! # Part 12b — copying a file -/

/-- what the reader returns for a stored item: the blob bytes, or the items of the raw iterator -/
def readEntry (r0 : PR) : Entry → Option (Bytes ⊕ List (E57.Item (List Value)))
  | .blob ref _ _ => (blobRead r0 ref).2.map .inl
  | .cloud pc pts _ _ =>
    match QR.new (MT.PointCloud.stored pc) r0 with
    | (r1, some q) => some (.inr (RawIter.run (pts.length + 1) ⟨q, (MT.PointCloud.stored pc).records, 0⟩ r1))
    | _ => none

/-- what was given to the writer for a stored item (no offsets, no metadata): the blob bytes, or the points
    in order followed by `done` -/
def Entry.content : Entry → Bytes ⊕ List (E57.Item (List Value))
  | .blob _ data _ => .inl data
  | .cloud _ pts _ _ => .inr (pts.map E57.Item.value ++ [E57.Item.done])

/-- `session_roundtrip_tr` in functional form: reading the items of the ghost list from the finished file, in
    order, with the reader `E57Reader::new` returns (every read starting from that reader), gives exactly the
    content handed to the writer -/
theorem session_reads {e e' : EW} {ops : List WOp} {g : List Entry} (ft : FloatText) (fp : FloatParse)
    (xo : XmlOracle) (tr : String → Option String) (hS : Sess e .top ops g)
    (hfin : EW.finalize ft e tr = .ok e')
    (hsz : e'.pw.dev.data.length < 2 ^ 64)
    (hxml : ∀ x0 x, serializeRoot ft e.root e.pcs e.imgs e.exts = some x0 → tr x0 = some x →
      0 < (utf8 x).length)
    (horacle : ∀ x0 x, serializeRoot ft e.root e.pcs e.imgs e.exts = some x0 → tr x0 = some x →
      xo (utf8 x) = MT.rootDoc ft e.root e.pcs e.imgs e.exts)
    (hcr : ∀ d, e.root.creation = some d → MT.F64OK ft fp d.gpsTime)
    (okpc : ∀ pc ∈ e.pcs, MT.PointCloud.OK ft fp e.exts pc)
    (okimg : ∀ i ∈ e.imgs, MT.Image.OK ft fp i) :
    ∃ rd, Reader.open e'.pw.dev.data xo fp = some rd ∧ RootSame rd.root e.root ∧ rd.exts = e.exts ∧
      g.map (readEntry rd.pr) = g.map (fun it => some it.content) := by
  obtain ⟨rd, ho, hroot, _, _, _, hexts, hpr, hblob, hcloud⟩ :=
    session_roundtrip_tr ft fp xo tr hS hfin hsz hxml horacle hcr okpc okimg
  refine ⟨rd, ho, hroot, hexts, ?_⟩
  apply List.map_congr_left
  intro it hit
  cases it with
  | blob ref data s =>
    show (blobRead rd.pr ref).2.map Sum.inl = _
    rw [(hblob rd.pr hpr ref data s hit).1]
    rfl
  | cloud pc pts s n =>
    obtain ⟨r1, q, e1, e2⟩ := hcloud rd.pr hpr pc pts s n hit
    simp only [readEntry, e1, e2, Entry.content]

/-- **copying**: two finished sessions — a file and a copy of it, written by any two call sequences (other
    interleaving, other page positions, abandoned sub-writers, other metadata) — that were handed the same
    contents in the same order are read back identically, item by item.  In particular copying a copy returns
    the same content again (`copy_idempotent` on the level of contents).
    On the level of bytes there is nothing to prove in a functional model: the writer functions are functions,
    so the same calls with the same arguments on the same (empty) device produce the same device bytes
    (`copy_deterministic`). -/
theorem copy_idempotent {e1 e1' e2 e2' : EW} {ops1 ops2 : List WOp} {g1 g2 : List Entry}
    (ft : FloatText) (fp : FloatParse) (xo1 xo2 : XmlOracle) (tr1 tr2 : String → Option String)
    (hS1 : Sess e1 .top ops1 g1) (hS2 : Sess e2 .top ops2 g2)
    (hfin1 : EW.finalize ft e1 tr1 = .ok e1') (hfin2 : EW.finalize ft e2 tr2 = .ok e2')
    (hsame : g1.map Entry.content = g2.map Entry.content)
    (hroot : e1.root = e2.root) (hexts : e1.exts = e2.exts)
    (hsz1 : e1'.pw.dev.data.length < 2 ^ 64) (hsz2 : e2'.pw.dev.data.length < 2 ^ 64)
    (hxml1 : ∀ x0 x, serializeRoot ft e1.root e1.pcs e1.imgs e1.exts = some x0 → tr1 x0 = some x →
      0 < (utf8 x).length)
    (hxml2 : ∀ x0 x, serializeRoot ft e2.root e2.pcs e2.imgs e2.exts = some x0 → tr2 x0 = some x →
      0 < (utf8 x).length)
    (horacle1 : ∀ x0 x, serializeRoot ft e1.root e1.pcs e1.imgs e1.exts = some x0 → tr1 x0 = some x →
      xo1 (utf8 x) = MT.rootDoc ft e1.root e1.pcs e1.imgs e1.exts)
    (horacle2 : ∀ x0 x, serializeRoot ft e2.root e2.pcs e2.imgs e2.exts = some x0 → tr2 x0 = some x →
      xo2 (utf8 x) = MT.rootDoc ft e2.root e2.pcs e2.imgs e2.exts)
    (hcr : ∀ d, e1.root.creation = some d → MT.F64OK ft fp d.gpsTime)
    (okpc1 : ∀ pc ∈ e1.pcs, MT.PointCloud.OK ft fp e1.exts pc)
    (okpc2 : ∀ pc ∈ e2.pcs, MT.PointCloud.OK ft fp e2.exts pc)
    (okimg1 : ∀ i ∈ e1.imgs, MT.Image.OK ft fp i) (okimg2 : ∀ i ∈ e2.imgs, MT.Image.OK ft fp i) :
    ∃ rd1 rd2, Reader.open e1'.pw.dev.data xo1 fp = some rd1 ∧ Reader.open e2'.pw.dev.data xo2 fp = some rd2 ∧
      g1.map (readEntry rd1.pr) = g2.map (readEntry rd2.pr) ∧
      rd1.exts = rd2.exts ∧ rd1.root.guid = rd2.root.guid ∧ rd1.root.creation = rd2.root.creation ∧
      rd1.root.coordinateMetadata = rd2.root.coordinateMetadata ∧
      rd1.root.libraryVersion = rd2.root.libraryVersion := by
  obtain ⟨rd1, o1, r1, x1, c1⟩ :=
    session_reads ft fp xo1 tr1 hS1 hfin1 hsz1 hxml1 horacle1 hcr okpc1 okimg1
  obtain ⟨rd2, o2, r2, x2, c2⟩ :=
    session_reads ft fp xo2 tr2 hS2 hfin2 hsz2 hxml2 horacle2 (by rw [← hroot]; exact hcr) okpc2 okimg2
  refine ⟨rd1, rd2, o1, o2, ?_, by rw [x1, x2, hexts], ?_, ?_, ?_, ?_⟩
  · rw [c1, c2]
    have h := congrArg (List.map some) hsame
    simpa [List.map_map, Function.comp_def] using h
  · rw [r1.2.1, r2.2.1, hroot]
  · rw [r1.2.2.2.2.1, r2.2.2.2.2.1, hroot]
  · rw [r1.2.2.2.2.2, r2.2.2.2.2.2, hroot]
  · rw [r1.2.2.2.1, r2.2.2.2.1, hroot]

/-- determinism: the writer is a function of its calls; equal states before `finalize` give equal device
    bytes after it -/
theorem copy_deterministic (ft : FloatText) (tr : String → Option String) (e1 e2 e1' e2' : EW)
    (h : e1 = e2) (h1 : EW.finalize ft e1 tr = .ok e1') (h2 : EW.finalize ft e2 tr = .ok e2') :
    e1'.pw.dev.data = e2'.pw.dev.data := by
  subst h
  rw [h1] at h2
  cases h2
  rfl

/-! # Part 13 — non-vacuity: one blob, one cloud with two points, `finalize` -/

namespace Ex
open Interrupt LayoutEx

/-- the metadata the example sets before `finalize`: the bounds are present (as the prototype demands) but
    carry no value, so that no float text is involved -/
def pcClean : PointCloud := { cartesianBounds := some {} }

theorem good_setPc {w : PcW} {pw : PW} (hg : Good w pw) (pc : PointCloud)
    (hr : ProtoReady pc w.prototype) : Good { w with pc := pc } pw :=
  ⟨⟨⟨hg.inv.slen, hg.inv.sinv, hg.inv.drained, hg.inv.buf, hg.inv.mp, hg.inv.i64, hg.inv.zero⟩, hg.inv.blen⟩,
    ⟨hg.cap.hdrFit, hg.cap.cap⟩, hr, hg.pwInv, hg.sect⟩

theorem pcClean_ready : ProtoReady pcClean proto := by
  intro r hr
  simp only [proto, List.mem_cons, List.not_mem_nil, or_false] at hr
  rcases hr with rfl | rfl | rfl <;>
    exact ⟨fun _ => rfl, fun h => (by rcases h with h | h | h <;> cases h),
      fun h => (by rcases h with h | h | h <;> cases h)⟩

theorem wbdChunksCore_le (mp : Nat) (buf : List (List Value)) (pr : Prototype) (ss : List WBuf) (lf : Bool) :
    (wbdChunksCore mp buf pr ss lf).length ≤ 1 := by
  unfold wbdChunksCore
  split
  · split <;> simp
  · simp

theorem addPointChunks_le (w : PcW) (vs : List Value) : (addPointChunks w vs).length ≤ 1 := by
  unfold addPointChunks
  split
  · exact wbdChunksCore_le _ _ _ _ _
  · simp

theorem drainChunks_le : ∀ (fuel : Nat) (w : PcW) (pw : PW), (drainChunks fuel w pw).length ≤ fuel
  | 0, _, _ => by simp [drainChunks]
  | fuel + 1, w, pw => by
    unfold drainChunks
    split
    · simp
    · split
      · rename_i st _
        have h1 : (wbdChunks w false).length ≤ 1 := wbdChunksCore_le _ _ _ _ _
        have h2 := drainChunks_le fuel st.2 st.1
        rw [List.length_append]; omega
      · simp

theorem finalizeChunks_le (w : PcW) (pw : PW) : (finalizeChunks w pw).length ≤ w.buffer.length + 2 := by
  unfold finalizeChunks
  split
  · rename_i st _
    have h1 := drainChunks_le (w.buffer.length + 1) w pw
    have h2 : (wbdChunks st.2 true).length ≤ 1 := wbdChunksCore_le _ _ _ _ _
    rw [List.length_append]; omega
  · simp

theorem pkBytes_le (n : Nat) : ∀ (pk : List (List Bytes)), (∀ cs ∈ pk, (pktBytes n cs).length ≤ 65535) →
    (pkBytes n pk).length ≤ 65535 * pk.length
  | [], _ => by simp [pkBytes]
  | cs :: pk, h => by
    have ih := pkBytes_le n pk (fun x hx => h x (by simp [hx]))
    have h1 := h cs (by simp)
    simp only [pkBytes, List.map_cons, List.flatten_cons, List.length_append, List.length_cons] at ih ⊢
    omega

/-- a crude bound on the stream after `PointCloudWriter::finalize`: every packet has at most 65535 bytes, and
    `finalize` writes at most one packet per buffered point plus two -/
theorem finalize_size {proto : Prototype} {base : LogStream} {pts : List (List Value)} {pk : List (List Bytes)}
    {w : PcW} {pw : PW} (hb : BaseOk base) (h : Lay proto base pts pk w pw) (pw' : PW) (w' : PcW)
    (pc : PointCloud) (hf : w.finalize pw = .ok (pw', w', pc)) :
    pw'.abs.data.length
      ≤ max base.data.length (base.cur + 32 + 65535 * (pk.length + (w.buffer.length + 2)) + 1019) := by
  obtain ⟨f1, f2, f3, -⟩ := finalize_lay hb h pw' w' pc hf
  have hpk := pkBytes_le proto.length _ (fun cs hcs => (f3 cs hcs).2.1)
  have h3 := finalizeChunks_le w pw
  rw [List.length_append] at hpk
  rw [f2, spec_write_length _ _ hb.wf2, List.length_append, cvHeader_length]
  have : 65535 * (pk.length + (finalizeChunks w pw).length) ≤ 65535 * (pk.length + (w.buffer.length + 2)) :=
    Nat.mul_le_mul_left _ (by omega)
  omega

/-- the example session: `E57Writer::new`, `add_blob` of 1100 bytes, `add_pointcloud` with the prototype of
    `LayoutEx`, two `add_point`s, metadata set, `PointCloudWriter::finalize`, drop.  Every call returns `Ok`; the
    run is a `Sess` whose ghost list is [the blob, the cloud with its two points]; the stream stays small. -/
theorem ex_sess :
    ∃ (e : EW) (ops : List WOp) (b : BlobRef) (pc : PointCloud) (s1 s2 n : Nat),
      Sess e .top ops [.blob b exData s1, .cloud pc pts s2 n] ∧
      e.root = exE0.root ∧ e.pcs = [pc] ∧ e.imgs = [] ∧ e.exts = [] ∧
      e.pw.abs.data.length ≤ 400000 ∧
      (∀ ft fp, pc.fileOffset ≤ 18446744073709551615 → MT.PointCloud.OK ft fp [] pc) := by
  have S0 : Sess exE0 .top [WOp.write hdr0] [] := Sess.new ex_new
  obtain ⟨pwb, b, hb, ib, _⟩ := blobWrite_total w1 exData w1_safe.inv
  have hadd : exE0.addBlob exData = .ok ({ exE0 with pw := pwb }, b) := by
    unfold EW.addBlob
    have : exE0.pw = w1 := rfl
    rw [this]
    simp only [hb, Outcome.bind_ok, Outcome.pure_eq]
  have S1 := Sess.blob S0 hadd
  obtain ⟨⟨pw0, w0'⟩, hnew⟩ := (PcW.new_ok_iff pwb [] "pc" proto ib).2 ⟨by decide, by decide, by decide⟩
  have S2 := Sess.pcNew S1 proto_i64 hnew
  have hg0 := new_good pwb [] "pc" proto ib proto_i64 (by unfold NoDupNames; decide) pw0 w0' hnew
  have hp0 : w0'.prototype = proto := (PcW.new_inv pwb [] "pc" proto ib proto_i64 pw0 w0' hnew).2.2.2.1
  obtain ⟨pw1', w1', ha1, hg1⟩ := addPoint_good w0' pw0 hg0 [.integer 1000, .single 0x3f800000, .integer (-5)]
    (by rw [hp0]; rfl) (by rw [hp0]; decide)
  have hp1 : w1'.prototype = proto := ((addPoint_ok_implies _ _ _ _ _ ha1).2.2.2).trans hp0
  have S3 := Sess.pcPoint S2 ha1
  obtain ⟨pw2', w2', ha2, hg2⟩ := addPoint_good w1' pw1' hg1 [.integer 7, .single 0, .integer 5]
    (by rw [hp1]; rfl) (by rw [hp1]; decide)
  have hp2 : w2'.prototype = proto := ((addPoint_ok_implies _ _ _ _ _ ha2).2.2.2).trans hp1
  have S4 := Sess.pcPoint S3 ha2
  have S5 := Sess.pcSet pcClean S4
  have hg3 := good_setPc hg2 pcClean (by rw [hp2]; exact pcClean_ready)
  obtain ⟨pw3', w3', hf, _⟩ := finalize_good _ pw2' hg3
  have S6 := Sess.pcEnd S5 hf
  have S7 := Sess.pcDoneDrop S6
  -- sizes
  have hI5 : PcInv _ { w2' with pc := pcClean } pwb "pc" proto _
      ([] ++ addPointChunks w0' [.integer 1000, .single 0x3f800000, .integer (-5)]
        ++ addPointChunks w1' [.integer 7, .single 0, .integer 5]) _ := sess_inv S5
  have hk : ([] ++ addPointChunks w0' [.integer 1000, .single 0x3f800000, .integer (-5)]
        ++ addPointChunks w1' [.integer 7, .single 0, .integer 5]).length ≤ 2 := by
    have h1 := addPointChunks_le w0' [.integer 1000, .single 0x3f800000, .integer (-5)]
    have h2 := addPointChunks_le w1' [.integer 7, .single 0, .integer 5]
    simp only [List.length_append, List.length_nil]
    omega
  have hbl := BlobRT.blob_length_le w1 exData w1_safe.inv pwb b hb
  have hl1 : w1.abs.data.length = 1020 := by
    obtain ⟨w', e, hi, ha⟩ := pw_writeAll w0 hdr0 w0_inv
    rw [w0_write_hdr0] at e
    cases e
    have h0 : w0.abs = LogStream.init := by rw [w0_rep.abs_eq]; rfl
    rw [ha, h0, spec_write_length _ _ (Nat.le_refl _), hdr0_length]
    rfl
  have hxl : exData.length = 1100 := by unfold exData; rw [List.length_replicate]
  have wfb := abs_wf pwb ib
  have hbuf0 : w2'.buffer.length ≤ 2 := by
    obtain ⟨mv, hmv, -⟩ := hI5.lay.content
    have := congrArg List.length hmv
    simp only [List.length_append, List.length_cons, List.length_nil] at this
    omega
  have hbuf : ({ w2' with pc := pcClean } : PcW).buffer.length ≤ 2 := hbuf0
  have hsize := finalize_size (baseOk_of_top hI5.base) hI5.lay pw3' w3' _ hf
  have hlen : pw3'.abs.data.length ≤ 400000 := by
    generalize ({ w2' with pc := pcClean } : PcW).buffer.length = B at hsize hbuf
    generalize ([] ++ addPointChunks w0' [.integer 1000, .single 0x3f800000, .integer (-5)]
        ++ addPointChunks w1' [.integer 7, .single 0, .integer 5]).length = K at hsize hk
    have hm : 65535 * (K + (B + 2)) ≤ 65535 * (2 + (2 + 2)) := Nat.mul_le_mul_left _ (by omega)
    have : pwb.abs.cur ≤ pwb.abs.data.length := wfb.2
    omega
  refine ⟨_, _, b, _, _, _, _, S7, rfl, rfl, rfl, rfl, hlen, ?_⟩
  intro ft fp hfo
  have hT' : TopInv pw3' _ := sess_inv S7
  obtain ⟨pwB, pwE, guid, proto', packets, L, -⟩ :=
    hT'.stored.present _ (List.mem_append_right _ (List.mem_singleton.mpr rfl))
  exact {
    fileOffset := hfo
    records := by
      have := L.records
      rw [this]; decide
    prototype := by
      intro r hr
      have hr' : r ∈ proto := by
        have : (finalPc { w2' with pc := pcClean }).prototype = proto := hp2
        rw [this] at hr; exact hr
      simp only [proto, List.mem_cons, List.not_mem_nil, or_false] at hr'
      rcases hr' with rfl | rfl | rfl
      · exact ⟨trivial, (show MT.InI64 0 ∧ MT.InI64 1000 ∧ (0 : Int) ≤ 1000 from
          ⟨by decide, by decide, by decide⟩)⟩
      · exact ⟨trivial, (show (∀ v, (none : Option UInt32) = some v → MT.F32OK ft fp v) ∧
            (∀ v, (none : Option UInt32) = some v → MT.F32OK ft fp v) from
          ⟨fun v h => (nomatch h), fun v h => (nomatch h)⟩)⟩
      · exact ⟨trivial, (show MT.InI64 (-5) ∧ MT.InI64 5 ∧ (-5 : Int) ≤ 5 from
          ⟨by decide, by decide, by decide⟩)⟩
    cartesian := by
      intro bb hbb o ho v hv
      have : bb = {} := by
        have h : (finalPc { w2' with pc := pcClean }).cartesianBounds = some {} := rfl
        rw [h] at hbb; cases hbb; rfl
      subst this
      simp only [MT.CartesianBounds.floats, List.mem_cons, List.not_mem_nil, or_false] at ho
      rcases ho with rfl | rfl | rfl | rfl | rfl | rfl <;> cases hv
    spherical := by intro bb hbb; cases hbb
    index := by intro bb hbb; cases hbb
    intensity := by intro bb hbb; cases hbb
    color := by intro bb hbb; cases hbb
    transform := by intro bb hbb; cases hbb
    acquisitionStart := by intro bb hbb; cases hbb
    acquisitionEnd := by intro bb hbb; cases hbb
    temperature := by intro bb hbb; cases hbb
    humidity := by intro bb hbb; cases hbb
    atmosphericPressure := by intro bb hbb; cases hbb }

theorem ex_serialize (ft : FloatText) (e : EW) (h : e.root = exE0.root) :
    ∃ x0, serializeRoot ft e.root e.pcs e.imgs e.exts = some x0 := by
  unfold serializeRoot
  have : e.root.guid.isEmpty = false := by rw [h]; decide
  rw [this]
  exact ⟨_, rfl⟩

/-- **the hypotheses of `session_roundtrip` are satisfiable by a non-trivial session** (`ex_sess` followed by
    the top-level `finalize`): all hypotheses of `session_roundtrip` hold for it — for every float text `ft`,
    parser `fp`, with the XML front end `xo` returning the tree of the document — except that the XML is at
    most 10 MiB (without which `finalize` itself refuses) and that the file is below 2^64 bytes, which are
    kept as hypotheses: the XML text goes through `cdataEscape` = `String.replace`, which does not
    evaluate in the kernel (cf. `MT.FormatNameUnescaped`); `closed_instance` below discharges them for a
    transformer with a known output.  Under them `finalize` succeeds and the theorem yields: the blob and
    the two points are read back from the device bytes. -/
theorem session_instance (ft : FloatText) (fp : FloatParse) :
    ∃ (e : EW) (ops : List WOp) (b : BlobRef) (pc : PointCloud) (s1 s2 n : Nat) (xo : XmlOracle),
      Sess e .top ops [.blob b exData s1, .cloud pc pts s2 n] ∧
      (∀ xml, serializeRoot ft e.root e.pcs e.imgs e.exts = some xml →
        xo (utf8 xml) = MT.rootDoc ft e.root e.pcs e.imgs e.exts) ∧
      (∀ d, e.root.creation = some d → MT.F64OK ft fp d.gpsTime) ∧
      (∀ i ∈ e.imgs, MT.Image.OK ft fp i) ∧
      ((∀ xml, serializeRoot ft e.root e.pcs e.imgs e.exts = some xml → (utf8 xml).length ≤ maxXmlSize) →
       (∀ xml, serializeRoot ft e.root e.pcs e.imgs e.exts = some xml → xml.toList.all xmlChar = true) →
        ∃ e', EW.finalize ft e (fun x => some x) = .ok e' ∧
        (e'.pw.dev.data.length < 2 ^ 64 → ∀ pc ∈ e.pcs, MT.PointCloud.OK ft fp e.exts pc) ∧
        (e'.pw.dev.data.length < 2 ^ 64 →
          ∃ rd, Reader.open e'.pw.dev.data xo fp = some rd ∧ rd.pcs = [MT.PointCloud.stored pc] ∧
            (blobRead rd.pr b).2 = some exData ∧
            ∃ r1 q, QR.new (MT.PointCloud.stored pc) rd.pr = (r1, some q) ∧
              RawIter.run 3 ⟨q, (MT.PointCloud.stored pc).records, 0⟩ r1
                = [.value [.integer 1000, .single 0x3f800000, .integer (-5)],
                   .value [.integer 7, .single 0, .integer 5], .done])) := by
  obtain ⟨e, ops, b, pc, s1, s2, n, hS, hroot, hpcs, himgs, hexts, hlen, hok⟩ := ex_sess
  obtain ⟨x0, hx0⟩ := ex_serialize ft e hroot
  have hcr : ∀ d, e.root.creation = some d → MT.F64OK ft fp d.gpsTime := by
    intro d h; rw [hroot] at h; cases h
  have himg : ∀ i ∈ e.imgs, MT.Image.OK ft fp i := by
    intro i hi; rw [himgs] at hi; cases hi
  refine ⟨e, ops, b, pc, s1, s2, n, fun _ => MT.rootDoc ft e.root e.pcs e.imgs e.exts, hS,
    fun _ _ => rfl, hcr, himg, ?_⟩
  intro hmax hchars
  obtain ⟨e', he'⟩ := BlobRT.finalize_ok ft e (fun x => some x) (sess_inv hS : TopInv e.pw _).inv x0 x0 hx0
    (hchars x0 hx0) rfl (hmax x0 hx0)
  have hokpc : e'.pw.dev.data.length < 2 ^ 64 → ∀ pc' ∈ e.pcs, MT.PointCloud.OK ft fp e.exts pc' := by
    intro hsz pc' hpc'
    rw [hpcs] at hpc'
    simp only [List.mem_singleton] at hpc'
    subst hpc'
    rw [hexts]
    exact hok ft fp (tracked_cloud_offsets ft _ hS he' hsz pc' pts s2 n (by simp)).2.1
  refine ⟨e', he', hokpc, ?_⟩
  intro hsz
  obtain ⟨rd, ho, _, hpcs', _, _, _, hpr, hblob, hcloud⟩ :=
    session_roundtrip ft fp (fun _ => MT.rootDoc ft e.root e.pcs e.imgs e.exts) hS he' hsz
      (fun _ _ => rfl) hcr (hokpc hsz) himg
  refine ⟨rd, ho, by rw [hpcs', hpcs]; rfl, (hblob rd.pr hpr b exData s1 (by simp)).1, ?_⟩
  exact hcloud rd.pr hpr pc pts s2 n (by simp)

/-- **every hypothesis of `session_roundtrip_tr`, the size bounds included, holds for the example session**
    closed by `finalize_customized_xml` with a transformer that replaces the XML by the 4 bytes `<x/>` (whose
    length the kernel can compute; the front end `xo` still returns the tree of the writer's document): the
    theorem then yields — the one remaining hypothesis being that the float texts `ft` prints into this session's
    document are made of characters XML can carry, so that `finalize` does not refuse it — that `E57Reader::new` opens the device bytes and
    the blob and the two points are read back. -/
theorem closed_instance (ft : FloatText) (fp : FloatParse)
    (hchars : ∀ (e : EW) ops b pc s1 s2 n, Sess e .top ops [.blob b exData s1, .cloud pc pts s2 n] →
      ∀ x0, serializeRoot ft e.root e.pcs e.imgs e.exts = some x0 → x0.toList.all xmlChar = true) :
    ∃ (e e' : EW) (ops : List WOp) (b : BlobRef) (pc : PointCloud) (s1 s2 n : Nat) (xo : XmlOracle)
      (tr : String → Option String) (rd : Reader),
      Sess e .top ops [.blob b exData s1, .cloud pc pts s2 n] ∧ EW.finalize ft e tr = .ok e' ∧
      e'.pw.dev.data.length < 2 ^ 64 ∧
      Reader.open e'.pw.dev.data xo fp = some rd ∧ rd.pcs = [MT.PointCloud.stored pc] ∧
      (blobRead rd.pr b).2 = some exData ∧
      ∃ r1 q, QR.new (MT.PointCloud.stored pc) rd.pr = (r1, some q) ∧
        RawIter.run 3 ⟨q, (MT.PointCloud.stored pc).records, 0⟩ r1
          = [.value [.integer 1000, .single 0x3f800000, .integer (-5)],
             .value [.integer 7, .single 0, .integer 5], .done] := by
  obtain ⟨e, ops, b, pc, s1, s2, n, hS, hroot, hpcs, himgs, hexts, hlen, hok⟩ := ex_sess
  obtain ⟨x0, hx0⟩ := ex_serialize ft e hroot
  have hT : TopInv e.pw _ := sess_inv hS
  obtain ⟨e', he'⟩ := BlobRT.finalize_ok ft e (fun _ => some "<x/>") hT.inv x0 "<x/>" hx0
    (hchars e ops b pc s1 s2 n hS x0 hx0) rfl (by decide +kernel)
  have hx : (utf8 "<x/>").length = 4 := by rw [utf8_length]; decide
  have hsz : e'.pw.dev.data.length < 2 ^ 64 := by
    obtain ⟨y0, y, hy0, hy, i', a', d'⟩ := finalize_exact ft e e' _ hT.inv he'
    cases hy
    have wf := abs_wf e.pw hT.inv
    have ff := final_facts e.pw.abs (utf8 "<x/>") wf.1 wf.2 hT.h48
    have h1 := ff.len
    obtain ⟨a1, a2⟩ := RoundTrip.write_wf e.pw.abs (utf8 "<x/>") wf.2
    have h2 : (e.pw.abs.write (utf8 "<x/>")).align.data.length ≤ 400000 + 2040 := by
      unfold LogStream.align
      split
      · rw [spec_write_length _ _ a1, spec_write_length _ _ wf.2, spec_write_cur, zeros_length, hx]
        have := wf.2
        omega
      · rw [spec_write_length _ _ wf.2, hx]
        have := wf.2
        omega
    rw [d', image_length _ (abs_wf e'.pw i').1, a', h1]
    omega
  have hcr : ∀ d, e.root.creation = some d → MT.F64OK ft fp d.gpsTime := by
    intro d h; rw [hroot] at h; cases h
  have himg : ∀ i ∈ e.imgs, MT.Image.OK ft fp i := by
    intro i hi; rw [himgs] at hi; cases hi
  have hokpc : ∀ pc' ∈ e.pcs, MT.PointCloud.OK ft fp e.exts pc' := by
    intro pc' hpc'
    rw [hpcs] at hpc'
    simp only [List.mem_singleton] at hpc'
    subst hpc'
    rw [hexts]
    exact hok ft fp (tracked_cloud_offsets ft _ hS he' hsz pc' pts s2 n (by simp)).2.1
  obtain ⟨rd, ho, _, hpcs', _, _, _, hpr, hblob, hcloud⟩ :=
    session_roundtrip_tr ft fp (fun _ => MT.rootDoc ft e.root e.pcs e.imgs e.exts) (fun _ => some "<x/>")
      hS he' hsz
      (by intro y0 y _ hy; cases hy; rw [hx]; decide)
      (fun _ _ _ _ => rfl) hcr hokpc himg
  exact ⟨e, e', ops, b, pc, s1, s2, n, _, _, rd, hS, he', hsz, ho, by rw [hpcs', hpcs]; rfl,
    (hblob rd.pr hpr b exData s1 (by simp)).1, hcloud rd.pr hpr pc pts s2 n (by simp)⟩

/-- **all hypotheses of `session_roundtrip_tr`, the size bounds included, are jointly satisfiable**: the
    session consisting of `E57Writer::new` alone, closed by `finalize_customized_xml` with a transformer that
    replaces the XML by the 4 bytes `<x/>` (whose length the kernel can compute): the file has 1024 bytes. -/
theorem sizes_instance (ft : FloatText) (fp : FloatParse) :
    ∃ (e e' : EW) (ops : List WOp) (xo : XmlOracle) (tr : String → Option String),
      Sess e .top ops [] ∧ EW.finalize ft e tr = .ok e' ∧
      e'.pw.dev.data.length < 2 ^ 64 ∧
      (∀ x0 x, serializeRoot ft e.root e.pcs e.imgs e.exts = some x0 → tr x0 = some x →
        0 < (utf8 x).length) ∧
      (∀ x0 x, serializeRoot ft e.root e.pcs e.imgs e.exts = some x0 → tr x0 = some x →
        xo (utf8 x) = MT.rootDoc ft e.root e.pcs e.imgs e.exts) ∧
      (∀ d, e.root.creation = some d → MT.F64OK ft fp d.gpsTime) ∧
      (∀ pc ∈ e.pcs, MT.PointCloud.OK ft fp e.exts pc) ∧
      (∀ i ∈ e.imgs, MT.Image.OK ft fp i) := by
  have S0 : Sess exE0 .top [WOp.write hdr0] [] := Sess.new ex_new
  have hT : TopInv w1 [] := w1_top
  have hs : ∃ x0, serializeRoot ft exE0.root [] [] [] = some x0 := by
    unfold serializeRoot
    have : exE0.root.guid.isEmpty = false := by decide
    rw [this]
    exact ⟨_, rfl⟩
  obtain ⟨x0, hx0⟩ := hs
  obtain ⟨e', he'⟩ := BlobRT.finalize_ok ft exE0 (fun _ => some "<x/>") hT.inv x0 "<x/>" hx0
    (Interrupt.exE0_chars ft x0 hx0) rfl (by decide +kernel)
  have hx : (utf8 "<x/>").length = 4 := by rw [utf8_length]; decide
  refine ⟨exE0, e', _, fun _ => MT.rootDoc ft exE0.root [] [] [], fun _ => some "<x/>", S0, he', ?_,
    ?_, fun _ _ _ _ => rfl, (by intro d h; cases h), (by intro pc h; cases h), (by intro i h; cases h)⟩
  · obtain ⟨y0, y, hy0, hy, i', a', d'⟩ := finalize_exact ft exE0 e' _ hT.inv he'
    cases hy
    have wf := abs_wf w1 hT.inv
    have hc : w1.abs.cur = 48 := by
      have := hT.h48
      obtain ⟨w', e, hi, ha⟩ := pw_writeAll w0 hdr0 w0_inv
      rw [w0_write_hdr0] at e
      cases e
      have h0 : w0.abs = LogStream.init := by rw [w0_rep.abs_eq]; rfl
      rw [ha, h0]; show 0 + hdr0.length = 48; rw [hdr0_length]
    have hl : w1.abs.data.length = 1020 := by
      obtain ⟨w', e, hi, ha⟩ := pw_writeAll w0 hdr0 w0_inv
      rw [w0_write_hdr0] at e
      cases e
      have h0 : w0.abs = LogStream.init := by rw [w0_rep.abs_eq]; rfl
      rw [ha, h0, spec_write_length _ _ (Nat.le_refl _), hdr0_length]
      rfl
    have ff := final_facts w1.abs (utf8 "<x/>") wf.1 wf.2 hT.h48
    have hlen := ff.len
    have hw : (w1.abs.write (utf8 "<x/>")).data.length = 1020 := by
      rw [spec_write_length _ _ wf.2, hl, hc, hx]; decide
    have hal : (w1.abs.write (utf8 "<x/>")).align = w1.abs.write (utf8 "<x/>") := by
      unfold LogStream.align
      rw [if_neg]
      rw [spec_write_cur, hc, hx]; decide
    rw [hal, hw] at hlen
    have e1 : exE0.pw = w1 := rfl
    rw [d', image_length _ (abs_wf e'.pw i').1, a', e1, hlen]
    decide
  · intro y0 y _ hy
    cases hy
    rw [hx]
    decide

end Ex

end Session
end E57
