/-
Proofs about the model of src/paged_reader.rs (`PR` in E57/Model/Pages.lean), for all devices and
all histories.  Core Lean only.
-/
import E57.Model.Pages
import E57.Spec.LogStream
import E57.Proofs.Bytes
namespace E57

/-! ## definitions -/

/-- page `p` of a device with page size `ps` -/
def devPage (d : Bytes) (ps p : Nat) : Bytes := (d.drop (p * ps)).take ps

/-- the last four bytes of the page are the checksum of the bytes before them -/
def pageValid (pg : Bytes) (ps : Nat) : Prop := pg.drop (ps - 4) = crcBytes (pg.take (ps - 4))

instance (pg : Bytes) (ps : Nat) : Decidable (pageValid pg ps) := by
  unfold pageValid; infer_instance

def PR.CacheInv (r : PR) : Prop :=
  r.dev.data.length = r.physSize ∧ r.physSize = r.pages * r.pageSize ∧ 4 < r.pageSize ∧
  0 < r.pages ∧ r.logSize = r.pages * (r.pageSize - 4) ∧ r.page.length = r.pageSize ∧
  ∀ p, r.pageNum = some p →
    p < r.pages ∧ r.page = devPage r.dev.data r.pageSize p ∧ pageValid r.page r.pageSize

/-! ## basic facts -/

theorem crcBytes_length (p : Bytes) : (crcBytes p).length = 4 := by
  simp [crcBytes, toBE32, toLE_length]

theorem devPage_length (d : Bytes) (ps p pages : Nat) (hlen : d.length = pages * ps)
    (hp : p < pages) : (devPage d ps p).length = ps := by
  have h : (p + 1) * ps ≤ pages * ps := Nat.mul_le_mul_right ps hp
  rw [Nat.add_mul] at h
  simp only [devPage, List.length_take, List.length_drop]
  omega

/-- `read_page` on a device whose size is a whole number of pages -/
theorem pr_readPage_eq (r : PR) (p : Nat) (hlen : r.dev.data.length = r.pages * r.pageSize)
    (hp : p < r.pages) :
    r.readPage p =
      if pageValid (devPage r.dev.data r.pageSize p) r.pageSize then
        ({ r with dev := ⟨r.dev.data, p * r.pageSize + r.pageSize⟩,
                  page := devPage r.dev.data r.pageSize p, pageNum := some p }, true)
      else
        ({ r with dev := ⟨r.dev.data, p * r.pageSize + r.pageSize⟩,
                  page := devPage r.dev.data r.pageSize p, pageNum := none }, false) := by
  have hl := devPage_length r.dev.data r.pageSize p r.pages hlen hp
  unfold devPage at hl
  have hnp : ¬ p ≥ r.pages := by omega
  simp only [PR.readPage, hnp, if_false, Dev.read, Dev.seekStart, hl, Nat.lt_irrefl, pageValid,
    devPage]
  split <;> simp_all

/-! ## `read` by cases -/

theorem pr_read_past (r : PR) (n : Nat) (h : r.pages ≤ r.offset / (r.pageSize - 4)) :
    r.read n = .ok (r, []) := by
  simp [PR.read, h]

theorem pr_read_cached (r : PR) (n : Nat) (h : r.offset / (r.pageSize - 4) < r.pages)
    (hc : r.pageNum = some (r.offset / (r.pageSize - 4))) :
    r.read n = .ok ({ r with
                      offset := r.offset + min n (r.pageSize - 4 - r.offset % (r.pageSize - 4)) },
                    (r.page.drop (r.offset % (r.pageSize - 4))).take
                        (min n (r.pageSize - 4 - r.offset % (r.pageSize - 4)))) := by
  have h' : ¬ r.offset / (r.pageSize - 4) ≥ r.pages := by omega
  simp [PR.read, h', hc]

theorem pr_read_uncached (r : PR) (n : Nat) (h : r.offset / (r.pageSize - 4) < r.pages)
    (hc : r.pageNum ≠ some (r.offset / (r.pageSize - 4))) :
    r.read n =
      if (r.readPage (r.offset / (r.pageSize - 4))).2 then
        let r1 := (r.readPage (r.offset / (r.pageSize - 4))).1
        .ok ({ r1 with
                offset := r1.offset + min n (r1.pageSize - 4 - r1.offset % (r1.pageSize - 4)) },
              (r1.page.drop (r1.offset % (r1.pageSize - 4))).take
                        (min n (r1.pageSize - 4 - r1.offset % (r1.pageSize - 4))))
      else .err "read_page failed" := by
  have h' : ¬ r.offset / (r.pageSize - 4) ≥ r.pages := by omega
  simp only [PR.read, h', if_false, hc, ne_eq, not_false_eq_true, if_true]
  cases hrp : r.readPage (r.offset / (r.pageSize - 4)) with
  | mk r1 ok => cases ok <;> simp

/-- the three possible behaviours of one `read` call under the invariant -/
theorem pr_read_cases (r : PR) (n : Nat) (hinv : r.CacheInv) :
    let ds := r.pageSize - 4
    let p := r.offset / ds
    let pg := devPage r.dev.data r.pageSize p
    let m := min n (ds - r.offset % ds)
    (r.pages ≤ p ∧ r.read n = .ok (r, [])) ∨
    (p < r.pages ∧ pageValid pg r.pageSize ∧ r.pageNum = some p ∧ r.page = pg ∧
      r.read n = .ok ({ r with offset := r.offset + m }, (pg.drop (r.offset % ds)).take m)) ∨
    (p < r.pages ∧ pageValid pg r.pageSize ∧ r.pageNum ≠ some p ∧
      r.read n = .ok ({ r with dev := ⟨r.dev.data, p * r.pageSize + r.pageSize⟩, page := pg,
                                                  pageNum := some p, offset := r.offset + m },
                      (pg.drop (r.offset % ds)).take m)) ∨
    (p < r.pages ∧ ¬ pageValid pg r.pageSize ∧ r.pageNum ≠ some p ∧
      (r.readPage p) = ({ r with dev := ⟨r.dev.data, p * r.pageSize + r.pageSize⟩, page := pg,
                                                      pageNum := none }, false) ∧
      r.read n = .err "read_page failed") := by
  intro ds p pg m
  obtain ⟨h1, h2, h3, h4, h5, h6, h7⟩ := hinv
  by_cases hp : r.pages ≤ p
  · exact .inl ⟨hp, pr_read_past r n hp⟩
  · have hp' : p < r.pages := by omega
    right
    by_cases hc : r.pageNum = some p
    · obtain ⟨_, e, v⟩ := h7 p hc
      left
      have v' : pageValid pg r.pageSize := by rw [e] at v; exact v
      refine ⟨hp', v', hc, e, ?_⟩
      rw [pr_read_cached r n hp' hc, e]
    · right
      have hrp := pr_readPage_eq r p (h1.trans h2) hp'
      have hru := pr_read_uncached r n hp' hc
      by_cases hv : pageValid pg r.pageSize
      · left
        rw [if_pos hv] at hrp
        refine ⟨hp', hv, hc, ?_⟩
        rw [hru, hrp]
        rfl
      · right
        rw [if_neg hv] at hrp
        refine ⟨hp', hv, hc, hrp, ?_⟩
        rw [hru, hrp]
        rfl

/-! ## A. the cache invariant -/

/-- everything but the cursor, the device position and the page cache is unchanged -/
def PR.SameFile (r r' : PR) : Prop :=
  r'.dev.data = r.dev.data ∧ r'.pageSize = r.pageSize ∧ r'.physSize = r.physSize ∧
  r'.logSize = r.logSize ∧ r'.pages = r.pages

theorem PR.SameFile.refl (r : PR) : r.SameFile r := ⟨rfl, rfl, rfl, rfl, rfl⟩

theorem PR.SameFile.trans {a b c : PR} (h1 : a.SameFile b) (h2 : b.SameFile c) : a.SameFile c := by
  obtain ⟨a1, a2, a3, a4, a5⟩ := h1
  obtain ⟨b1, b2, b3, b4, b5⟩ := h2
  exact ⟨b1.trans a1, b2.trans a2, b3.trans a3, b4.trans a4, b5.trans a5⟩

theorem pr_new_ok (dev : Dev) (ps : Nat) (r : PR) (h : PR.new dev ps = .ok r) :
    ps ≤ 1048576 ∧ 4 < ps ∧ dev.data.length ≠ 0 ∧ dev.data.length % ps = 0 ∧
    r = ⟨⟨dev.data, dev.data.length⟩, ps, dev.data.length, (dev.data.length / ps) * (ps - 4),
         dev.data.length / ps, 0, none, zeros ps⟩ := by
  simp only [PR.new, Dev.seekEnd] at h
  by_cases h1 : ps > 1048576
  · simp [h1] at h
  by_cases h2 : ps ≤ 4
  · simp [h1, h2] at h
  by_cases h3 : dev.data.length = 0
  · simp [h1, h2, h3] at h
  by_cases h4 : dev.data.length % ps ≠ 0
  · simp [h1, h2, h3, h4] at h
  simp only [h1, h2, h3, h4, if_false] at h
  cases h
  exact ⟨by omega, by omega, h3, by omega, rfl⟩

theorem pr_new_inv (dev : Dev) (ps : Nat) (r : PR) : PR.new dev ps = .ok r → r.CacheInv := by
  intro h
  obtain ⟨h1, h2, h3, h4, rfl⟩ := pr_new_ok dev ps r h
  have h6 := Nat.div_add_mod dev.data.length ps
  have h7 : 0 < dev.data.length / ps := by
    apply Nat.div_pos
    · exact Nat.le_of_dvd (by omega) (Nat.dvd_of_mod_eq_zero h4)
    · omega
  refine ⟨rfl, ?_, h2, h7, rfl, by simp [zeros], by intro p hp; cases hp⟩
  simp only
  rw [Nat.mul_comm]; omega

theorem pr_new_data (dev : Dev) (ps : Nat) (r : PR) (h : PR.new dev ps = .ok r) :
    r.dev.data = dev.data ∧ r.pageSize = ps ∧ r.offset = 0 := by
  obtain ⟨h1, h2, h3, h4, rfl⟩ := pr_new_ok dev ps r h
  exact ⟨rfl, rfl, rfl⟩

theorem pr_cacheInv_offset (r : PR) (o : Nat) (h : r.CacheInv) : ({ r with offset := o }).CacheInv := h

theorem pr_seek_data (r : PR) (p : Nat) (r' : PR) (o : Nat) (h : r.seekPhysical p = .ok (r', o)) :
    r' = { r with offset := o } := by
  unfold PR.seekPhysical at h
  split at h
  · cases h
  · cases h; rfl

theorem pr_seek_inv (r : PR) (p : Nat) (r' : PR) (o : Nat) :
    r.CacheInv → r.seekPhysical p = .ok (r', o) → r'.CacheInv := by
  intro hinv h
  rw [pr_seek_data r p r' o h]
  exact hinv

theorem pr_align_data (r : PR) (r' : PR) (h : r.align = .ok r') :
    ∃ o, r' = { r with offset := o } := by
  unfold PR.align at h
  simp only at h
  split at h
  · split at h
    · cases h
    · cases h; exact ⟨_, rfl⟩
  · cases h; exact ⟨_, rfl⟩

theorem pr_align_inv (r : PR) (r' : PR) : r.CacheInv → r.align = .ok r' → r'.CacheInv := by
  intro hinv h
  obtain ⟨o, rfl⟩ := pr_align_data r r' h
  exact hinv

theorem pr_readPage_unfold (r : PR) (p : Nat) :
    r.readPage p =
      if p ≥ r.pages then (r, false)
      else
        let bs := (r.dev.data.drop (p * r.pageSize)).take r.pageSize
        let dev2 : Dev := ⟨r.dev.data, p * r.pageSize + bs.length⟩
        if bs.length < r.pageSize then
          ({ r with dev := dev2, page := bs ++ r.page.drop bs.length, pageNum := none }, false)
        else if bs.drop (r.pageSize - 4) ≠ crcBytes (bs.take (r.pageSize - 4)) then
          ({ r with dev := dev2, page := bs, pageNum := none }, false)
        else ({ r with dev := dev2, page := bs, pageNum := some p }, true) := rfl

theorem pr_readPage_data (r : PR) (p : Nat) :
    r.SameFile (r.readPage p).1 ∧ (r.readPage p).1.offset = r.offset := by
  unfold PR.SameFile
  rw [pr_readPage_unfold]
  split
  · exact ⟨⟨rfl, rfl, rfl, rfl, rfl⟩, rfl⟩
  · dsimp only
    split
    · exact ⟨⟨rfl, rfl, rfl, rfl, rfl⟩, rfl⟩
    · split <;> exact ⟨⟨rfl, rfl, rfl, rfl, rfl⟩, rfl⟩

theorem pr_readPage_inv (r : PR) (p : Nat) : r.CacheInv → (r.readPage p).1.CacheInv := by
  intro hinv
  by_cases hp : p < r.pages
  · obtain ⟨h1, h2, h3, h4, h5, h6, h7⟩ := hinv
    have hl := devPage_length r.dev.data r.pageSize p r.pages (h1.trans h2) hp
    rw [pr_readPage_eq r p (h1.trans h2) hp]
    split
    · rename_i hv
      refine ⟨h1, h2, h3, h4, h5, hl, ?_⟩
      intro q hq
      cases hq
      exact ⟨hp, rfl, hv⟩
    · refine ⟨h1, h2, h3, h4, h5, hl, ?_⟩
      intro q hq
      cases hq
  · have : p ≥ r.pages := by omega
    simp only [PR.readPage, this, if_true]
    exact hinv

/-- a successful `read_page p` means page `p` of the device is valid and is now the cache -/
theorem pr_readPage_true (r : PR) (p : Nat) (hinv : r.CacheInv) (h : (r.readPage p).2 = true) :
    p < r.pages ∧ pageValid (devPage r.dev.data r.pageSize p) r.pageSize ∧
    (r.readPage p).1.pageNum = some p ∧
    (r.readPage p).1.page = devPage r.dev.data r.pageSize p := by
  obtain ⟨h1, h2, h3, h4, h5, h6, h7⟩ := hinv
  by_cases hp : p < r.pages
  · rw [pr_readPage_eq r p (h1.trans h2) hp] at h ⊢
    split at h
    · rename_i hv
      rw [if_pos hv]
      exact ⟨hp, hv, rfl, rfl⟩
    · cases h
  · have : p ≥ r.pages := by omega
    simp [PR.readPage, this] at h

theorem pr_read_data (r : PR) (n : Nat) (r' : PR) (bs : Bytes) (h : r.read n = .ok (r', bs)) :
    r.SameFile r' := by
  by_cases hp : r.pages ≤ r.offset / (r.pageSize - 4)
  · rw [pr_read_past r n hp] at h
    cases h
    exact PR.SameFile.refl r
  · have hp' : r.offset / (r.pageSize - 4) < r.pages := by omega
    by_cases hc : r.pageNum = some (r.offset / (r.pageSize - 4))
    · rw [pr_read_cached r n hp' hc] at h
      cases h
      exact ⟨rfl, rfl, rfl, rfl, rfl⟩
    · rw [pr_read_uncached r n hp' hc] at h
      split at h
      · cases h
        exact (pr_readPage_data r _).1
      · cases h

/-- slice length inside a page -/
theorem slice_length (pg : Bytes) (ps o n : Nat) (hl : pg.length = ps) :
    ((pg.drop o).take (min n (ps - 4 - o))).length = min n (ps - 4 - o) := by
  simp only [List.length_take, List.length_drop]
  omega

theorem pr_read_inv (r : PR) (n : Nat) (r' : PR) (bs : Bytes) :
    r.CacheInv → r.read n = .ok (r', bs) → r'.CacheInv := by
  intro hinv h
  have hinv' := hinv
  obtain ⟨h1, h2, h3, h4, h5, h6, h7⟩ := hinv
  rcases pr_read_cases r n hinv' with ⟨_, e⟩ | ⟨_, _, _, _, e⟩ | ⟨hp, hv, _, e⟩ | ⟨_, _, _, _, e⟩
  · rw [e] at h; cases h; exact hinv'
  · rw [e] at h; cases h; exact hinv'
  · rw [e] at h; cases h
    refine ⟨h1, h2, h3, h4, h5, devPage_length _ _ _ _ (h1.trans h2) hp, ?_⟩
    intro q hq
    cases hq
    exact ⟨hp, rfl, hv⟩
  · rw [e] at h; cases h

theorem pr_read_offset (r : PR) (n : Nat) (r' : PR) (bs : Bytes) :
    r.CacheInv → r.read n = .ok (r', bs) → r'.offset = r.offset + bs.length := by
  intro hinv h
  have hinv' := hinv
  obtain ⟨h1, h2, h3, h4, h5, h6, h7⟩ := hinv
  rcases pr_read_cases r n hinv' with ⟨_, e⟩ | ⟨hp, _, _, _, e⟩ | ⟨hp, hv, _, e⟩ | ⟨_, _, _, _, e⟩
  · rw [e] at h; cases h; rfl
  · rw [e] at h; cases h
    rw [slice_length _ r.pageSize _ _ (devPage_length _ _ _ _ (h1.trans h2) hp)]
  · rw [e] at h; cases h
    rw [slice_length _ r.pageSize _ _ (devPage_length _ _ _ _ (h1.trans h2) hp)]
  · rw [e] at h; cases h

theorem pr_readFail_data (r : PR) : r.SameFile r.readFailState ∧ r.readFailState.offset = r.offset := by
  unfold PR.readFailState
  dsimp only
  split
  · exact ⟨PR.SameFile.refl r, rfl⟩
  · split
    · exact pr_readPage_data r _
    · exact ⟨PR.SameFile.refl r, rfl⟩

theorem pr_readFail_inv (r : PR) : r.CacheInv → r.readFailState.CacheInv := by
  intro hinv
  unfold PR.readFailState
  dsimp only
  split
  · exact hinv
  · split
    · exact pr_readPage_inv r _ hinv
    · exact hinv

theorem pr_readExactFuel_inv (fuel : Nat) (r : PR) (n : Nat) (acc : Bytes) :
    r.CacheInv → (PR.readExactFuel fuel r n acc).1.CacheInv := by
  induction fuel generalizing r n acc with
  | zero =>
    intro hinv
    cases n <;> exact hinv
  | succ fuel ih =>
    intro hinv
    cases n with
    | zero => exact hinv
    | succ n =>
      unfold PR.readExactFuel
      split
      · rename_i r' bs e
        split
        · exact pr_read_inv r _ r' bs hinv e
        · exact ih _ _ _ (pr_read_inv r _ r' bs hinv e)
      · exact pr_readFail_inv r hinv

theorem pr_readExact_inv (r : PR) (n : Nat) : r.CacheInv → (r.readExact n).1.CacheInv :=
  pr_readExactFuel_inv _ r n []

theorem pr_readExactFuel_data (fuel : Nat) (r : PR) (n : Nat) (acc : Bytes) :
    r.SameFile (PR.readExactFuel fuel r n acc).1 := by
  induction fuel generalizing r n acc with
  | zero => cases n <;> exact PR.SameFile.refl r
  | succ fuel ih =>
    cases n with
    | zero => exact PR.SameFile.refl r
    | succ n =>
      unfold PR.readExactFuel
      split
      · rename_i r' bs e
        split
        · exact pr_read_data r _ r' bs e
        · exact (pr_read_data r _ r' bs e).trans (ih _ _ _)
      · exact (pr_readFail_data r).1

theorem pr_readExact_data (r : PR) (n : Nat) : r.SameFile (r.readExact n).1 :=
  pr_readExactFuel_data _ r n []

/-! ### checksum soundness -/

/-- a successful `read` that is not at the end of the file: the page is valid, the bytes are its slice -/
theorem pr_read_ok (r : PR) (n : Nat) (r' : PR) (bs : Bytes) (hinv : r.CacheInv)
    (h : r.read n = .ok (r', bs)) (hp : r.offset / (r.pageSize - 4) < r.pages) :
    pageValid (devPage r.dev.data r.pageSize (r.offset / (r.pageSize - 4))) r.pageSize ∧
    bs = ((devPage r.dev.data r.pageSize (r.offset / (r.pageSize - 4))).drop
            (r.offset % (r.pageSize - 4))).take
          (min n (r.pageSize - 4 - r.offset % (r.pageSize - 4))) := by
  rcases pr_read_cases r n hinv with ⟨hp', _⟩ | ⟨_, hv, _, _, e⟩ | ⟨_, hv, _, e⟩ | ⟨_, _, _, _, e⟩
  · omega
  · rw [e] at h; cases h; exact ⟨hv, rfl⟩
  · rw [e] at h; cases h; exact ⟨hv, rfl⟩
  · rw [e] at h; cases h

theorem pr_read_sound (r : PR) (n : Nat) (r' : PR) (bs : Bytes) :
    r.CacheInv → r.read n = .ok (r', bs) → bs ≠ [] →
    let p := r.offset / (r.pageSize - 4)
    pageValid (devPage r.dev.data r.pageSize p) r.pageSize ∧
    bs = ((devPage r.dev.data r.pageSize p).drop (r.offset % (r.pageSize - 4))).take
          (min n (r.pageSize - 4 - r.offset % (r.pageSize - 4))) := by
  intro hinv h hne p
  by_cases hp : p < r.pages
  · exact pr_read_ok r n r' bs hinv h hp
  · rw [pr_read_past r n (by omega)] at h
    cases h
    exact absurd rfl hne

theorem pr_read_invalid_fails (r : PR) (n : Nat) :
    r.CacheInv →
    let p := r.offset / (r.pageSize - 4)
    p < r.pages → ¬ pageValid (devPage r.dev.data r.pageSize p) r.pageSize →
    ∃ e, r.read n = .err e := by
  intro hinv p hp hv
  rcases pr_read_cases r n hinv with ⟨hp', _⟩ | ⟨_, hv', _⟩ | ⟨_, hv', _⟩ | ⟨_, _, _, _, e⟩
  · omega
  · exact absurd hv' hv
  · exact absurd hv' hv
  · exact ⟨_, e⟩

/-- After a failing `read` on an invalid page the reader is stuck: no page is cached, the cursor
    and the device contents are unchanged, the invariant holds, and every further `read` fails
    again (for every buffer size). -/
theorem pr_stuck_after_crc_error (r : PR) (n : Nat) :
    r.CacheInv →
    let p := r.offset / (r.pageSize - 4)
    p < r.pages → ¬ pageValid (devPage r.dev.data r.pageSize p) r.pageSize →
    r.readFailState.pageNum = none ∧ r.readFailState.CacheInv ∧
    r.readFailState.offset = r.offset ∧ r.SameFile r.readFailState ∧
    (∃ e, r.readFailState.read n = .err e) ∧
    r.readFailState.readFailState.offset = r.offset ∧
    r.readFailState.readFailState.pageNum = none := by
  intro hinv p hp hv
  have hfi := pr_readFail_inv r hinv
  obtain ⟨hsf, hoff⟩ := pr_readFail_data r
  have hnone : ∀ r : PR, r.CacheInv → r.offset / (r.pageSize - 4) < r.pages →
      ¬ pageValid (devPage r.dev.data r.pageSize (r.offset / (r.pageSize - 4))) r.pageSize →
      r.readFailState.pageNum = none := by
    intro r hinv hp hv
    rcases pr_read_cases r 0 hinv with ⟨hp', _⟩ | ⟨_, hv', _⟩ | ⟨_, hv', _⟩ | ⟨_, _, hc, e, _⟩
    · omega
    · exact absurd hv' hv
    · exact absurd hv' hv
    · have hp' : ¬ r.offset / (r.pageSize - 4) ≥ r.pages := by omega
      simp only [PR.readFailState, hp', if_false, ne_eq, hc, not_false_eq_true, if_true, e]
  obtain ⟨d1, d2, d3, d4, d5⟩ := hsf
  have hp2 : r.readFailState.offset / (r.readFailState.pageSize - 4) < r.readFailState.pages := by
    rw [hoff, d2, d5]; exact hp
  have hv2 : ¬ pageValid (devPage r.readFailState.dev.data r.readFailState.pageSize
      (r.readFailState.offset / (r.readFailState.pageSize - 4))) r.readFailState.pageSize := by
    rw [hoff, d2, d1]; exact hv
  refine ⟨hnone r hinv hp hv, hfi, hoff, ⟨d1, d2, d3, d4, d5⟩,
    pr_read_invalid_fails r.readFailState n hfi hp2 hv2, ?_, hnone _ hfi hp2 hv2⟩
  rw [(pr_readFail_data r.readFailState).2, hoff]

/-- Corruption that invalidates every page it touches is never observed as data: the reader of
    the damaged device `r2` fails, or returns exactly what the reader of the undamaged device
    returns. -/
theorem pr_read_err_or_same (r r2 : PR) (n : Nat)
    (hinv : r.CacheInv) (hinv2 : r2.CacheInv)
    (hps : r2.pageSize = r.pageSize) (hpages : r2.pages = r.pages) (hoff : r2.offset = r.offset)
    (hdiff : ∀ p, p < r.pages → devPage r.dev.data r.pageSize p ≠ devPage r2.dev.data r.pageSize p →
      ¬ pageValid (devPage r2.dev.data r.pageSize p) r.pageSize) :
    ∀ r2' bs, r2.read n = .ok (r2', bs) →
      ∃ r', r.read n = .ok (r', bs) ∧ r'.offset = r2'.offset := by
  intro r2' bs h2
  have ho2 := pr_read_offset r2 n r2' bs hinv2 h2
  by_cases hp : r.offset / (r.pageSize - 4) < r.pages
  · have hp2 : r2.offset / (r2.pageSize - 4) < r2.pages := by rw [hoff, hps, hpages]; exact hp
    obtain ⟨hv2, hbs⟩ := pr_read_ok r2 n r2' bs hinv2 h2 hp2
    rw [hoff, hps] at hv2 hbs
    have heq : devPage r.dev.data r.pageSize (r.offset / (r.pageSize - 4)) =
        devPage r2.dev.data r.pageSize (r.offset / (r.pageSize - 4)) :=
      Decidable.byContradiction fun hne => hdiff _ hp hne hv2
    rw [← heq] at hv2 hbs
    rcases pr_read_cases r n hinv with ⟨hp', _⟩ | ⟨_, _, _, _, e⟩ | ⟨_, _, _, e⟩ | ⟨_, hv', _⟩
    · omega
    · refine ⟨_, hbs ▸ e, ?_⟩
      rw [ho2, hoff, hbs, pr_read_offset r n _ _ hinv e]
    · refine ⟨_, hbs ▸ e, ?_⟩
      rw [ho2, hoff, hbs, pr_read_offset r n _ _ hinv e]
    · exact absurd hv2 hv'
  · have hp' : r.pages ≤ r.offset / (r.pageSize - 4) := by omega
    have hp2 : r2.pages ≤ r2.offset / (r2.pageSize - 4) := by rw [hoff, hps, hpages]; exact hp'
    rw [pr_read_past r2 n hp2] at h2
    cases h2
    exact ⟨r, pr_read_past r n hp', hoff.symm⟩

/-! ## B. reading a well-formed file returns the logical stream -/

theorem drop_append_len {α} (X Y : List α) (n k : Nat) (h : X.length = n) :
    (X ++ Y).drop (n + k) = Y.drop k := by
  subst h
  rw [← List.drop_drop, List.drop_left]

theorem take_append_len {α} (X Y : List α) (n : Nat) (h : X.length = n) :
    (X ++ Y).take n = X := by
  subst h
  exact List.take_left

/-- `Spec.image` with explicit fuel -/
def imgFuel (fuel : Nat) (d : Bytes) : Bytes :=
  ((Spec.chunkPayloads fuel d).map (fun p => p ++ crcBytes p)).flatten

theorem image_eq_imgFuel (d : Bytes) : Spec.image d = imgFuel (d.length + 1) d := rfl

theorem imgFuel_succ (fuel : Nat) (d : Bytes) (hne : d ≠ []) :
    imgFuel (fuel + 1) d =
      (d.take 1020 ++ crcBytes (d.take 1020)) ++ imgFuel fuel (d.drop 1020) := by
  cases d with
  | nil => exact absurd rfl hne
  | cons x xs => simp [imgFuel, Spec.chunkPayloads]

theorem imgFuel_length (fuel : Nat) (d : Bytes) (hd : d.length % 1020 = 0)
    (hf : d.length / 1020 ≤ fuel) : (imgFuel fuel d).length = 1024 * (d.length / 1020) := by
  induction fuel generalizing d with
  | zero =>
    have : d.length = 0 := by omega
    have : d = [] := List.length_eq_zero_iff.mp this
    subst this
    simp [imgFuel, Spec.chunkPayloads]
  | succ fuel ih =>
    by_cases hne : d = []
    · subst hne; simp [imgFuel, Spec.chunkPayloads]
    · have hpos : 0 < d.length := List.length_pos_iff.mpr hne
      rw [imgFuel_succ fuel d hne]
      have hl : (d.drop 1020).length = d.length - 1020 := by simp
      have := ih (d.drop 1020) (by omega) (by omega)
      simp only [List.length_append, List.length_take, crcBytes_length, this, hl]
      omega

theorem imgFuel_page (fuel : Nat) (d : Bytes) (p : Nat) (hd : d.length % 1020 = 0)
    (hf : d.length / 1020 ≤ fuel) (hp : p < d.length / 1020) :
    devPage (imgFuel fuel d) 1024 p =
      (d.drop (1020 * p)).take 1020 ++ crcBytes ((d.drop (1020 * p)).take 1020) := by
  induction fuel generalizing d p with
  | zero => omega
  | succ fuel ih =>
    have hne : d ≠ [] := by
      intro h; subst h; simp at hp
    rw [imgFuel_succ fuel d hne]
    have hA : (d.take 1020 ++ crcBytes (d.take 1020)).length = 1024 := by
      simp only [List.length_append, List.length_take, crcBytes_length]; omega
    cases p with
    | zero =>
      simp only [devPage, Nat.zero_mul, List.drop_zero, Nat.mul_zero]
      rw [List.take_append_of_le_length (by omega), List.take_of_length_le (by omega)]
    | succ q =>
      have hl : (d.drop 1020).length = d.length - 1020 := by simp
      have := ih (d.drop 1020) q (by omega) (by omega) (by omega)
      unfold devPage at this ⊢
      have e1 : (q + 1) * 1024 = 1024 + q * 1024 := by omega
      rw [e1, drop_append_len _ _ 1024 _ hA, this, List.drop_drop]
      have e2 : 1020 + 1020 * q = 1020 * (q + 1) := by omega
      rw [e2]

theorem image_length (d : Bytes) (hd : d.length % 1020 = 0) :
    (Spec.image d).length = 1024 * (d.length / 1020) :=
  imgFuel_length _ d hd (by omega)

theorem devPage_image (d : Bytes) (hd : d.length % 1020 = 0) (p : Nat) (h : p < d.length / 1020) :
    devPage (Spec.image d) 1024 p =
      (d.drop (1020 * p)).take 1020 ++ crcBytes ((d.drop (1020 * p)).take 1020) :=
  imgFuel_page _ d p hd (by omega) h

theorem image_page_valid (d : Bytes) (hd : d.length % 1020 = 0) (p : Nat) (h : p < d.length / 1020) :
    pageValid (devPage (Spec.image d) 1024 p) 1024 := by
  rw [devPage_image d hd p h]
  have hl : ((d.drop (1020 * p)).take 1020).length = 1020 := by
    have : 1020 * (p + 1) ≤ 1020 * (d.length / 1020) := Nat.mul_le_mul_left 1020 h
    simp only [List.length_take, List.length_drop]; omega
  show List.drop 1020 _ = crcBytes (List.take 1020 _)
  rw [take_append_len _ _ 1020 hl]
  have := drop_append_len ((d.drop (1020 * p)).take 1020)
    (crcBytes ((d.drop (1020 * p)).take 1020)) 1020 0 hl
  simpa using this

theorem page_slice {α} (X C : List α) (o m : Nat) (hX : 1020 ≤ X.length) (hm : o + m ≤ 1020) :
    ((X.take 1020 ++ C).drop o).take m = (X.drop o).take m := by
  have hl : (X.take 1020).length = 1020 := by simp; omega
  rw [List.drop_append_of_le_length (by omega), List.take_append_of_le_length (by simp; omega),
    List.drop_take, List.take_take]
  congr 1
  omega

/-- the reader's page count on an image -/
theorem pr_image_pages (d : Bytes) (r : PR) (hd : d.length % 1020 = 0) (hinv : r.CacheInv)
    (hps : r.pageSize = 1024) (hdata : r.dev.data = Spec.image d) : r.pages = d.length / 1020 := by
  obtain ⟨h1, h2, -⟩ := hinv
  have := image_length d hd
  rw [← hdata, h1, h2, hps] at this
  omega

/-- One `read` on a well-formed file: never an error; the bytes are the logical stream at the
    cursor, short at page ends; at or past the end it returns nothing and changes nothing. -/
theorem pr_reads_stream_read (d : Bytes) (r : PR) (n : Nat)
    (hd : d.length % 1020 = 0) (hinv : r.CacheInv) (hps : r.pageSize = 1024)
    (hdata : r.dev.data = Spec.image d) :
    ∃ r' bs, r.read n = .ok (r', bs) ∧ r'.offset = r.offset + bs.length ∧ r'.CacheInv ∧
      r.SameFile r' ∧
      (r.offset < d.length → bs = (d.drop r.offset).take (min n (1020 - r.offset % 1020))) ∧
      (d.length ≤ r.offset → bs = [] ∧ r' = r) := by
  have hpages := pr_image_pages d r hd hinv hps hdata
  have key : ∃ r' bs, r.read n = .ok (r', bs) ∧
      (r.offset < d.length → bs = (d.drop r.offset).take (min n (1020 - r.offset % 1020))) ∧
      (d.length ≤ r.offset → bs = [] ∧ r' = r) := by
    by_cases ho : r.offset < d.length
    · have hp : r.offset / (r.pageSize - 4) < r.pages := by rw [hps, hpages]; omega
      have hv := image_page_valid d hd (r.offset / 1020) (by omega)
      have hpg := devPage_image d hd (r.offset / 1020) (by omega)
      have hsl : ∀ bs, bs = ((devPage r.dev.data r.pageSize (r.offset / (r.pageSize - 4))).drop
            (r.offset % (r.pageSize - 4))).take
              (min n (r.pageSize - 4 - r.offset % (r.pageSize - 4))) →
          bs = (d.drop r.offset).take (min n (1020 - r.offset % 1020)) := by
        intro bs e
        rw [e, hps, hdata, hpg]
        show List.take (min n (1020 - r.offset % 1020)) (List.drop (r.offset % 1020) _) = _
        rw [page_slice _ _ _ _ (by simp; omega) (by omega), List.drop_drop]
        congr 2
        omega
      rcases pr_read_cases r n hinv with ⟨hp', _⟩ | ⟨_, _, _, _, e⟩ | ⟨_, _, _, e⟩ | ⟨_, hv', _⟩
      · omega
      · exact ⟨_, _, e, fun _ => hsl _ rfl, fun h => by omega⟩
      · exact ⟨_, _, e, fun _ => hsl _ rfl, fun h => by omega⟩
      · rw [hps, hdata] at hv'
        exact absurd hv hv'
    · have hp : r.pages ≤ r.offset / (r.pageSize - 4) := by rw [hps, hpages]; omega
      exact ⟨r, [], pr_read_past r n hp, fun h => absurd h ho, fun _ => ⟨rfl, rfl⟩⟩
  obtain ⟨r', bs, e, k1, k2⟩ := key
  exact ⟨r', bs, e, pr_read_offset r n r' bs hinv e, pr_read_inv r n r' bs hinv e,
    pr_read_data r n r' bs e, k1, k2⟩

theorem take_eq_take_length {α} (X : List α) (m : Nat) : X.take m = X.take (X.take m).length := by
  rw [List.length_take]
  by_cases h : m ≤ X.length
  · rw [Nat.min_eq_left h]
  · rw [Nat.min_eq_right (by omega), List.take_of_length_le (by omega), List.take_of_length_le (by omega)]

theorem pr_readExactFuel_zero (fuel : Nat) (r : PR) (acc : Bytes) :
    PR.readExactFuel fuel r 0 acc = (r, some acc) := by
  cases fuel <;> rfl

theorem pr_readExactFuel_stream (d : Bytes) (hd : d.length % 1020 = 0) (fuel : Nat) (r : PR)
    (n : Nat) (acc : Bytes) (hinv : r.CacheInv) (hps : r.pageSize = 1024)
    (hdata : r.dev.data = Spec.image d) (hf : n ≤ fuel) :
    (r.offset + n ≤ d.length →
      ∃ r', PR.readExactFuel fuel r n acc = (r', some (acc ++ (d.drop r.offset).take n)) ∧
        r'.offset = r.offset + n) ∧
    (d.length < r.offset + n → 0 < n → (PR.readExactFuel fuel r n acc).2 = none) := by
  induction fuel generalizing r n acc with
  | zero =>
    have : n = 0 := by omega
    subst this
    refine ⟨fun _ => ⟨r, ?_, rfl⟩, fun _ h => absurd h (by omega)⟩
    simp [pr_readExactFuel_zero]
  | succ fuel ih =>
    cases n with
    | zero =>
      refine ⟨fun _ => ⟨r, ?_, rfl⟩, fun _ h => absurd h (by omega)⟩
      simp [pr_readExactFuel_zero]
    | succ n =>
      obtain ⟨r', bs, e, hoff, hinv', hsf, k1, k2⟩ := pr_reads_stream_read d r (n + 1) hd hinv hps hdata
      obtain ⟨s1, s2, -⟩ := hsf
      have hstep : PR.readExactFuel (fuel + 1) r (n + 1) acc =
          if bs.isEmpty then (r', none)
          else PR.readExactFuel fuel r' (n + 1 - bs.length) (acc ++ bs) := by
        rw [PR.readExactFuel, e]
      rw [hstep]
      by_cases ho : r.offset < d.length
      · have hbs := k1 ho
        have hm1 : 1 ≤ min (n + 1) (1020 - r.offset % 1020) := by omega
        have hm2 : min (n + 1) (1020 - r.offset % 1020) ≤ n + 1 := by omega
        generalize min (n + 1) (1020 - r.offset % 1020) = m at hbs hm1 hm2
        have hlen : bs.length = min m (d.length - r.offset) := by
          rw [hbs]; simp
        have hl1 : bs.length ≤ n + 1 := by
          rw [hlen]; exact Nat.le_trans (Nat.min_le_left _ _) hm2
        have hpos : 0 < bs.length := by
          rw [hlen]; exact Nat.lt_min.mpr ⟨hm1, by omega⟩
        have hl2 : bs.length ≤ d.length - r.offset := by
          rw [hlen]; exact Nat.min_le_right _ _
        clear hlen
        have hne : bs.isEmpty = false := by
          cases bs with
          | nil => simp at hpos
          | cons _ _ => rfl
        rw [hne]
        simp only [Bool.false_eq_true, if_false]
        have hbs' : bs = (d.drop r.offset).take bs.length := by
          have := take_eq_take_length (d.drop r.offset) m
          rw [← hbs] at this
          exact this
        have hf' : n + 1 - bs.length ≤ fuel := by omega
        have hn : n + 1 = bs.length + (n + 1 - bs.length) := by omega
        have a1 : r.offset + (n + 1) ≤ d.length → r'.offset + (n + 1 - bs.length) ≤ d.length := by
          omega
        have a2 : r'.offset + (n + 1 - bs.length) = r.offset + (n + 1) := by omega
        have a3 : d.length < r.offset + (n + 1) → d.length < r'.offset + (n + 1 - bs.length) ∧
            0 < n + 1 - bs.length := by omega
        obtain ⟨i1, i2⟩ := ih r' (n + 1 - bs.length) (acc ++ bs) hinv' (s2.trans hps)
          (s1.trans hdata) hf'
        constructor
        · intro hle
          obtain ⟨r'', e2, o2⟩ := i1 (a1 hle)
          refine ⟨r'', ?_, o2.trans a2⟩
          rw [e2, hoff, List.append_assoc]
          congr 3
          conv => rhs; rw [hn, List.take_add, List.drop_drop, ← hbs']
        · intro hlt _
          exact i2 (a3 hlt).1 (a3 hlt).2
      · obtain ⟨hb, hr⟩ := k2 (by omega)
        subst hb
        constructor
        · intro h; omega
        · intro _ _; rfl

/-- `read_exact(n)` on a well-formed file: exactly the next `n` bytes of the logical stream
    (crossing page boundaries), or failure when fewer than `n > 0` bytes are left. -/
theorem pr_reads_stream_exact_partial (d : Bytes) (r : PR) (n : Nat)
    (hd : d.length % 1020 = 0) (hinv : r.CacheInv) (hps : r.pageSize = 1024)
    (hdata : r.dev.data = Spec.image d) :
    (r.offset + n ≤ d.length →
      ∃ r', r.readExact n = (r', some ((d.drop r.offset).take n)) ∧ r'.offset = r.offset + n ∧
        r'.CacheInv ∧ r.SameFile r') ∧
    (d.length < r.offset + n → 0 < n → (r.readExact n).2 = none) ∧
    (n = 0 → r.readExact n = (r, some [])) := by
  obtain ⟨k1, k2⟩ := pr_readExactFuel_stream d hd (n + 1) r n [] hinv hps hdata (by omega)
  refine ⟨fun h => ?_, k2, fun h => by subst h; rfl⟩
  obtain ⟨r', e, o⟩ := k1 h
  have e' : r.readExact n = (r', some ((d.drop r.offset).take n)) := by
    rw [PR.readExact, e, List.nil_append]
  refine ⟨r', e', o, ?_, ?_⟩
  · have := pr_readExact_inv r n hinv
    rw [e'] at this; exact this
  · have := pr_readExact_data r n
    rw [e'] at this; exact this

/-- The statement as first proposed (`none` whenever `offset + n > length`) … -/
def pr_reads_stream_exact_statement : Prop :=
  ∀ (d : Bytes) (r : PR) (n : Nat), d.length % 1020 = 0 → d ≠ [] → r.CacheInv →
    r.pageSize = 1024 → r.dev.data = Spec.image d →
    (r.offset + n ≤ d.length →
      ∃ r', r.readExact n = (r', some ((d.drop r.offset).take n)) ∧ r'.offset = r.offset + n) ∧
    (d.length < r.offset + n → (r.readExact n).2 = none)

/-- … is false: `read_exact(0)` succeeds wherever the cursor is, also past the end of the
    logical stream (reachable: `seek_physical(phys_size - 1)` lands in the checksum bytes of the
    last page, logical offset `log_size + 3`). -/
theorem pr_reads_stream_exact_statement_false : ¬ pr_reads_stream_exact_statement := by
  intro h
  obtain ⟨d, hl⟩ : ∃ d : Bytes, d.length = 1020 :=
    ⟨zeros 1020, by simp only [zeros, List.length_replicate]⟩
  obtain ⟨z, hz⟩ : ∃ z : Bytes, z.length = 1024 :=
    ⟨zeros 1024, by simp only [zeros, List.length_replicate]⟩
  have hne : d ≠ [] := by
    intro e; rw [e] at hl; simp at hl
  have hil : (Spec.image d).length = 1024 := by rw [image_length d (by omega), hl]
  have hinv : PR.CacheInv ⟨⟨Spec.image d, 0⟩, 1024, 1024, 1020, 1, 1021, none, z⟩ :=
    ⟨hil, by show (1024 : Nat) = 1 * 1024; omega, by show 4 < 1024; omega,
      by show 0 < 1; omega, by show (1020 : Nat) = 1 * (1024 - 4); omega, hz,
      fun p hp => by cases hp⟩
  have := (h d _ 0 (by omega) hne hinv rfl rfl).2 (by rw [hl]; show 1020 < 1021 + 0; omega)
  cases this

/-! ### `seek_physical` -/

theorem pr_seek_translate (r : PR) (p : Nat) :
    ((∃ r' o, r.seekPhysical p = .ok (r', o)) ↔ p < r.physSize) ∧
    (∀ r' o, r.seekPhysical p = .ok (r', o) →
      o = p - (p / r.pageSize) * 4 ∧ r' = { r with offset := o } ∧
      (r.pageSize = 1024 → o = Spec.p2l p)) := by
  constructor
  · constructor
    · rintro ⟨r', o, h⟩
      unfold PR.seekPhysical at h
      split at h
      · cases h
      · omega
    · intro h
      have : ¬ p ≥ r.physSize := by omega
      exact ⟨{ r with offset := p - (p / r.pageSize) * 4 }, p - (p / r.pageSize) * 4,
        by simp only [PR.seekPhysical, this, if_false]⟩
  · intro r' o h
    have hd := pr_seek_data r p r' o h
    unfold PR.seekPhysical at h
    split at h
    · cases h
    · cases h
      refine ⟨rfl, hd, ?_⟩
      intro hps
      simp only [Spec.p2l, hps]
      omega

/-- a seek that is accepted and not inside checksum bytes lands inside the logical stream -/
theorem pr_seek_in_range (r : PR) (p : Nat) (r' : PR) (o : Nat) (hinv : r.CacheInv)
    (h : r.seekPhysical p = .ok (r', o)) (hpay : p % r.pageSize < r.pageSize - 4) :
    o < r.logSize ∧ o / (r.pageSize - 4) = p / r.pageSize ∧
    o % (r.pageSize - 4) = p % r.pageSize := by
  obtain ⟨h1, h2, h3, h4, h5, -⟩ := hinv
  obtain ⟨ho, -, -⟩ := (pr_seek_translate r p).2 r' o h
  have hlt : p < r.physSize := (pr_seek_translate r p).1.1 ⟨r', o, h⟩
  have hq : p / r.pageSize < r.pages := by
    rw [h2] at hlt
    exact Nat.div_lt_of_lt_mul (by rw [Nat.mul_comm]; exact hlt)
  have hdm := Nat.div_add_mod p r.pageSize
  -- o = (ps - 4) * q + rem
  have ho' : o = (r.pageSize - 4) * (p / r.pageSize) + p % r.pageSize := by
    have e : r.pageSize * (p / r.pageSize) = (r.pageSize - 4) * (p / r.pageSize) + 4 * (p / r.pageSize) := by
      rw [← Nat.add_mul]; congr 1; omega
    omega
  have hds : 0 < r.pageSize - 4 := by omega
  refine ⟨?_, ?_, ?_⟩
  · rw [h5, ho']
    have : (r.pageSize - 4) * (p / r.pageSize + 1) ≤ (r.pageSize - 4) * r.pages :=
      Nat.mul_le_mul_left _ hq
    rw [Nat.mul_add, Nat.mul_one] at this
    rw [Nat.mul_comm r.pages]
    omega
  · rw [ho', Nat.add_comm, Nat.add_mul_div_left _ _ hds, Nat.div_eq_of_lt hpay, Nat.zero_add]
  · rw [ho', Nat.add_comm, Nat.add_mul_mod_self_left, Nat.mod_eq_of_lt hpay]

/-! ## all histories -/

/-- reader states reachable from `PagedReader::new(dev, ps)` by any sequence of operations,
    successful or failing (failing `seek_physical`/`align` leave the reader untouched) -/
inductive PR.Reach (dev : Dev) (ps : Nat) : PR → Prop
  | new (r : PR) : PR.new dev ps = .ok r → PR.Reach dev ps r
  | seek (r : PR) (p : Nat) (r' : PR) (o : Nat) :
      PR.Reach dev ps r → r.seekPhysical p = .ok (r', o) → PR.Reach dev ps r'
  | align (r r' : PR) : PR.Reach dev ps r → r.align = .ok r' → PR.Reach dev ps r'
  | read (r : PR) (n : Nat) (r' : PR) (bs : Bytes) :
      PR.Reach dev ps r → r.read n = .ok (r', bs) → PR.Reach dev ps r'
  | readFail (r : PR) : PR.Reach dev ps r → PR.Reach dev ps r.readFailState
  | readExact (r : PR) (n : Nat) : PR.Reach dev ps r → PR.Reach dev ps (r.readExact n).1

theorem pr_reach_inv (dev : Dev) (ps : Nat) (r : PR) (h : PR.Reach dev ps r) :
    r.CacheInv ∧ r.dev.data = dev.data ∧ r.pageSize = ps := by
  induction h with
  | new r h => exact ⟨pr_new_inv dev ps r h, (pr_new_data dev ps r h).1, (pr_new_data dev ps r h).2.1⟩
  | seek r p r' o _ h ih =>
    refine ⟨pr_seek_inv r p r' o ih.1 h, ?_⟩
    rw [pr_seek_data r p r' o h]; exact ih.2
  | align r r' _ h ih =>
    refine ⟨pr_align_inv r r' ih.1 h, ?_⟩
    obtain ⟨o, rfl⟩ := pr_align_data r r' h; exact ih.2
  | read r n r' bs _ h ih =>
    obtain ⟨s1, s2, -⟩ := pr_read_data r n r' bs h
    exact ⟨pr_read_inv r n r' bs ih.1 h, s1.trans ih.2.1, s2.trans ih.2.2⟩
  | readFail r _ ih =>
    obtain ⟨s1, s2, -⟩ := (pr_readFail_data r).1
    exact ⟨pr_readFail_inv r ih.1, s1.trans ih.2.1, s2.trans ih.2.2⟩
  | readExact r n _ ih =>
    obtain ⟨s1, s2, -⟩ := pr_readExact_data r n
    exact ⟨pr_readExact_inv r n ih.1, s1.trans ih.2.1, s2.trans ih.2.2⟩

/-- Checksum soundness over all histories: whatever happened before (seeks, aligns, successful
    and failed reads), every non-empty `read` result is the payload slice of a page of the
    original device whose stored CRC matches. -/
theorem pr_reach_read_sound (dev : Dev) (ps : Nat) (r : PR) (n : Nat) (r' : PR) (bs : Bytes)
    (hr : PR.Reach dev ps r) (h : r.read n = .ok (r', bs)) (hne : bs ≠ []) :
    pageValid (devPage dev.data ps (r.offset / (ps - 4))) ps ∧
    bs = ((devPage dev.data ps (r.offset / (ps - 4))).drop (r.offset % (ps - 4))).take
          (min n (ps - 4 - r.offset % (ps - 4))) := by
  obtain ⟨hinv, hd, hps⟩ := pr_reach_inv dev ps r hr
  have := pr_read_sound r n r' bs hinv h hne
  rw [hd, hps] at this
  exact this

/-- and a `read` positioned on a page whose checksum does not match fails, in every reachable state -/
theorem pr_reach_invalid_fails (dev : Dev) (ps : Nat) (r : PR) (n : Nat)
    (hr : PR.Reach dev ps r) (hp : r.offset / (ps - 4) < r.pages)
    (hv : ¬ pageValid (devPage dev.data ps (r.offset / (ps - 4))) ps) :
    ∃ e, r.read n = .err e := by
  obtain ⟨hinv, hd, hps⟩ := pr_reach_inv dev ps r hr
  apply pr_read_invalid_fails r n hinv
  · rw [hps]; exact hp
  · rw [hd, hps]; exact hv

/-- `PagedReader::new` accepts every image of a non-empty stream -/
theorem pr_new_image (d : Bytes) (pos : Nat) (hd : d.length % 1020 = 0) (hne : d ≠ []) :
    ∃ r, PR.new ⟨Spec.image d, pos⟩ 1024 = .ok r ∧ r.offset = 0 ∧ r.logSize = d.length ∧
      r.physSize = 1024 * (d.length / 1020) := by
  have hl := image_length d hd
  have hpos : 0 < d.length := List.length_pos_iff.mpr hne
  have h3 : (Spec.image d).length ≠ 0 := by omega
  have h4 : (Spec.image d).length % 1024 = 0 := by omega
  refine ⟨⟨⟨Spec.image d, (Spec.image d).length⟩, 1024, (Spec.image d).length,
    ((Spec.image d).length / 1024) * (1024 - 4), (Spec.image d).length / 1024, 0, none,
    zeros 1024⟩, ?_, rfl, ?_, hl⟩
  · simp [PR.new, Dev.seekEnd, h3, h4]
  · show (Spec.image d).length / 1024 * (1024 - 4) = d.length
    omega

/-- Page layer, all histories: in every state reachable from opening the image of `d`, `read`
    and `read_exact` return the logical stream at the cursor. -/
theorem pr_reach_reads_stream (d : Bytes) (pos : Nat) (r : PR) (n : Nat)
    (hd : d.length % 1020 = 0) (hr : PR.Reach ⟨Spec.image d, pos⟩ 1024 r) :
    (∃ r' bs, r.read n = .ok (r', bs) ∧ r'.offset = r.offset + bs.length ∧
      (r.offset < d.length → bs = (d.drop r.offset).take (min n (1020 - r.offset % 1020))) ∧
      (d.length ≤ r.offset → bs = [] ∧ r' = r)) ∧
    (r.offset + n ≤ d.length →
      ∃ r', r.readExact n = (r', some ((d.drop r.offset).take n)) ∧ r'.offset = r.offset + n) ∧
    (d.length < r.offset + n → 0 < n → (r.readExact n).2 = none) := by
  obtain ⟨hinv, hdata, hps⟩ := pr_reach_inv _ _ r hr
  obtain ⟨r', bs, e, o, -, -, k1, k2⟩ := pr_reads_stream_read d r n hd hinv hps hdata
  obtain ⟨x1, x2, -⟩ := pr_reads_stream_exact_partial d r n hd hinv hps hdata
  refine ⟨⟨r', bs, e, o, k1, k2⟩, fun h => ?_, x2⟩
  obtain ⟨r'', e', o', -⟩ := x1 h
  exact ⟨r'', e', o'⟩

/-! ## axioms used -/



end E57
