/-
C02 — every finalized file is well-formed for the independent decoder (model level).

The independent implementation is `E57/Spec/Decoder.lean` (`decodeFile`, `depageChecked`, `physOk`,
`walkPackets`, `decodeStream`), written from the standard.  This file proves facts about the WRITER
MODEL's output (`EW.finalize`, `PcW` sessions, `blobWrite` over the page writer `PW`) in terms of that
decoder's own functions and checks.  Everything is in namespace `E57.WF`.

Main results
  1  `depage_image`, **`finalized_pages_valid`**   size = positive whole number of 1024-byte pages, every
        page checksum valid, `Spec.depageChecked file = .ok (e'.pw.abs.data)` (the logical stream).
  2  `finalize_shape` (exact effect of `EW.finalize`, every header field identified),
     **`finalized_header_true`**, **`finalized_header_decoded`**   the first 48 bytes are
        `fileHeaderBytes (true file length) (l2p xmlStart) |xml|`, page size 1024; the XML bytes lie at
        `p2l` of the stated offset; every header check of `decodeFile` passes.
        FINDING (model level) `finalized_header_statement_false`: without `48 ≤ cursor` the header can
        state length 0 for a 1024-byte file (the size is queried before the header write creates the page).
        `xml_offset_statement_false`: an EMPTY XML (only a caller's transformer can produce one) written
        with the cursor at the very end of the stream gets offset = file length, which `physOk` rejects.
  3  **`offsets_outside_checksums`**, `physOk_l2p`, `physOk_l2p_false`, `toLogical_l2p`.
  4  `walk_ignored/index/data`, **`walk_pkts`**   `Spec.walkPackets` accepts EVERY packet list the
        specification encoder lays out (data / index / ignored, each `Layout.PktOk`), consumes it exactly
        and collects the chunks;  **`section_consistent`**  for the section of a writer session
        (`SectionLayout`): length field = 32 + Σ packet lengths, packets `≤ 65536`, `% 4 = 0`, header
        reads, data offset = first packet, the walk with the decoder's fuel ends at `s + sl`.
  5  `collected_streams`, `decodeStream_recordStream`, `decode_legal_section`,
     **`decode_section_points`**   the chunks the walk collects are, record by record, the complete
        bit-packed stream, and `Spec.decodeStream` returns the values added, in order.
  6  **`blob_section_decoded`**   id 0, reserved bytes zero, section length `(16+len+3)/4*4`, data.
  7  `FinalFile`, `cloud_in_file`, `cloud_in_closed_file`, `blob_in_file`, `blob_in_closed_file`,
     `PagesOk`/`HeaderOk`/`CloudOk`/`BlobOk` (verbatim the `need`s of `decodeFile`) with
     `pagesOk_of_final`, `headerOk_of_final`, `cloudOk_of_final`, `blobOk_of_final`;
     `decodeFile_eq`, `cloudBody_ok`, `blobBody_ok`, **`decodeFile_ok`** (the bundles ARE what `decodeFile`
     checks); capstones **`C02_decodeFile`**, **`C02_closed_file`**: `Spec.decodeFile` succeeds on the
     closed file and returns the points added and the blob bytes.
  Non-vacuity: `Ex.final_instance` (the `LayoutEx` session closed by `EW.finalize`), `ex_walk`,
     `ex_walk_bad` (kernel-evaluated), `WellFormedExample.lean` (de-paging incl. CRC, kernel-evaluated).

Coverage of `decodeFile`'s checks: file size, de-paging/CRC, signature, version, page size, stated
length, XML offset `physOk`, XML slice = the writer's XML bytes, root/namespace check (hypothesis),
per cloud: `physOk fileOffset`, alignment, id, reserved bytes, section length, index offset, packet walk,
empty-section rule, data offset `physOk` + "points at first data packet", `decodeStream` (both length
checks), per blob: `physOk`, alignment, id, reserved, section length, data slice.
NOT covered (hypotheses of `decodeFile_ok` / `C02_decodeFile`): the generic XML walk `walkNode` over the
parsed document (external parser; it must publish the writer's offsets, counts and prototype types —
the XML text is C04's subject) and `recordType` of the prototype elements.
Hypotheses that may look strong: `48 ≤ cursor` (see the finding), `file length < 2^64` (8-byte header
fields), `0 < |xml|` for `physOk` of the XML offset (an empty XML at the very end of the stream has
offset = file length; the serialiser never produces an empty document, a caller's transformer could),
`cur % 4 = 0` at section start (the writer aligns after every section; only used for the decoder's
alignment checks), `ProtoI64` (model integers are unbounded, Rust's are `i64`).
Core Lean only.
-/
import E57.Proofs.RoundTrip
import E57.Proofs.BlobRoundTrip
import E57.Proofs.CrcAlgebra
import E57.Spec.Decoder
namespace E57
namespace WF
open Spec

/-! # Part 1 — pages -/

theorem depage_nil (fuel k : Nat) (acc : Bytes) : depageChecked fuel [] k acc = .ok acc := by
  cases fuel <;> rfl

/-- the decoder's de-paging on the image (with any fuel) of a whole-page logical stream -/
theorem depage_imgFuel : ∀ (fuel2 fuel : Nat) (d : Bytes) (k : Nat) (acc : Bytes),
    d.length % 1020 = 0 → d.length / 1020 ≤ fuel → d.length / 1020 ≤ fuel2 →
    depageChecked fuel2 (imgFuel fuel d) k acc = .ok (acc ++ d)
  | 0, fuel, d, k, acc, hd, _, h2 => by
    have : d.length = 0 := by omega
    have : d = [] := List.length_eq_zero_iff.mp this
    subst this
    have : imgFuel fuel [] = [] := by cases fuel <;> rfl
    rw [this, depage_nil, List.append_nil]
  | fuel2 + 1, fuel, d, k, acc, hd, h1, h2 => by
    by_cases hne : d = []
    · subst hne
      have : imgFuel fuel [] = [] := by cases fuel <;> rfl
      rw [this, depage_nil, List.append_nil]
    · have hpos : 0 < d.length := List.length_pos_iff.mpr hne
      have h1020 : 1020 ≤ d.length := by omega
      cases fuel with
      | zero => omega
      | succ fuel =>
        rw [imgFuel_succ fuel d hne]
        have hl : (d.take 1020).length = 1020 := by rw [List.length_take]; omega
        have hA : (d.take 1020 ++ crcBytes (d.take 1020)).length = 1024 := by
          rw [List.length_append, hl, crcBytes_length]
        have hld : (d.drop 1020).length = d.length - 1020 := by simp
        have ih := depage_imgFuel fuel2 fuel (d.drop 1020) (k + 1) (acc ++ d.take 1020)
          (by omega) (by omega) (by omega)
        have hnotempty : ((d.take 1020 ++ crcBytes (d.take 1020)) ++ imgFuel fuel (d.drop 1020)).isEmpty = false := by
          cases hh : (d.take 1020 ++ crcBytes (d.take 1020)) ++ imgFuel fuel (d.drop 1020) with
          | nil =>
            have := congrArg List.length hh
            rw [List.length_append, hA] at this
            simp at this
          | cons _ _ => rfl
        have hpage : ((d.take 1020 ++ crcBytes (d.take 1020)) ++ imgFuel fuel (d.drop 1020)).take 1024
            = d.take 1020 ++ crcBytes (d.take 1020) := take_append_len _ _ 1024 hA
        have hrest : ((d.take 1020 ++ crcBytes (d.take 1020)) ++ imgFuel fuel (d.drop 1020)).drop 1024
            = imgFuel fuel (d.drop 1020) := by
          have := drop_append_len (d.take 1020 ++ crcBytes (d.take 1020)) (imgFuel fuel (d.drop 1020)) 1024 0 hA
          simpa using this
        have hpay : (d.take 1020 ++ crcBytes (d.take 1020)).take 1020 = d.take 1020 :=
          take_append_len _ _ 1020 hl
        have hsum : (d.take 1020 ++ crcBytes (d.take 1020)).drop 1020 = crcBytes (d.take 1020) := by
          have := drop_append_len (d.take 1020) (crcBytes (d.take 1020)) 1020 0 hl
          simpa using this
        unfold depageChecked
        simp only [hnotempty, hpage, hrest, hpay, hsum, Bool.false_eq_true, if_false]
        have hcrc : crcBytes (d.take 1020) = toBE32 (crc32cRef (d.take 1020)).toNat := by
          unfold crcBytes; rw [crc32c_eq_ref]
        rw [if_neg (by rw [hcrc]; simp), ih, List.append_assoc, List.take_append_drop]

/-! # Part 2 — the exact effect of `EW.finalize` (with the header fields identified) -/

/-- the stream after the XML has been written at the cursor and the cursor aligned -/
def xmlEnd (s : LogStream) (xml : Bytes) : LogStream := (s.write xml).align

/-- the logical stream `finalize_customized_xml` leaves: XML at the old cursor, alignment, then the
    48-byte file header at 0 carrying the physical size at that moment, the physical image of the
    old cursor and the XML length; the cursor behind the aligned XML -/
def closedStream (s : LogStream) (xml : Bytes) : LogStream :=
  { (LogStream.write { xmlEnd s xml with cur := 0 }
      (fileHeaderBytes (xmlEnd s xml).physSize (l2p s.cur) xml.length)) with
    cur := (xmlEnd s xml).cur }

/-- `ew_finalize_abs` of RoundTrip.lean with every field of the file header identified and the XML
    text tied to `serializeRoot` and the caller's transformer -/
theorem finalize_shape (ft : FloatText) (e e' : EW) (tr : String → Option String)
    (hpw : e.pw.Inv) (h : EW.finalize ft e tr = .ok e') :
    ∃ (xml0 xml : String), serializeRoot ft e.root e.pcs e.imgs e.exts = some xml0 ∧
      tr xml0 = some xml ∧ e'.pw.Inv ∧
      e'.pw.abs = closedStream e.pw.abs (utf8 xml) ∧
      e'.pw.dev.data = image e'.pw.abs.data := by
  unfold EW.finalize at h
  split at h
  · cases h
  · split at h
    · cases h
    split at h
    · cases h
    · rename_i xml0 hs _ _ xml ht
      change ite _ _ _ = _ at h
      split at h
      · cases h
      obtain ⟨p1, e1, h⟩ := Outcome.bind_eq_ok h
      obtain ⟨p1a, e1a, h⟩ := Outcome.bind_eq_ok h
      obtain ⟨p1', f1, i1, a1⟩ := pw_writeAll e.pw (utf8 xml) hpw
      rw [e1] at f1; cases f1
      obtain ⟨p1a', f1a, i1a, a1a⟩ := pw_align p1 i1
      rw [e1a] at f1a; cases f1a
      have wfa := abs_wf p1a i1a
      have hpos := pw_position p1a i1a
      have hpos0 := pw_position e.pw hpw
      simp only [LogStream.physPos] at hpos hpos0
      obtain ⟨i2, a2, s2, _⟩ := pw_size p1a i1a
      simp only [] at h
      generalize hps : p1a.physicalSize = psz at h i2 a2 s2
      obtain ⟨p2, sz⟩ := psz
      simp only [] at h i2 a2 s2
      obtain ⟨p3, e3, i3, a3⟩ := pw_seek_back p2 0 i2 (Nat.zero_le _)
      have hl0 : l2p 0 = 0 := rfl
      rw [hl0] at e3
      rw [e3] at h
      simp only [Bool.not_true, Bool.false_eq_true, if_false] at h
      obtain ⟨p4, e4, h⟩ := Outcome.bind_eq_ok h
      obtain ⟨p4', f4, i4, a4⟩ := pw_writeAll p3 (fileHeaderBytes sz (e.pw.physicalPosition) (utf8 xml).length) i3
      rw [e4] at f4; cases f4
      have hlen : p1a.abs.cur ≤ p4.abs.data.length := by
        have h3 : p3.abs.cur ≤ p3.abs.data.length := by rw [a3]; exact Nat.zero_le _
        have := spec_write_length_ge p3.abs (fileHeaderBytes sz (e.pw.physicalPosition) (utf8 xml).length) h3
        rw [a4]
        have h5 : p3.abs.data.length = p1a.abs.data.length := by rw [a3, a2]
        omega
      obtain ⟨p5, e5, i5, a5⟩ := pw_seek_back p4 p1a.abs.cur i4 hlen
      rw [hpos, e5] at h
      simp only [Bool.not_true, Bool.false_eq_true, if_false] at h
      cases h
      obtain ⟨i6, a6, d6⟩ := pw_flush p5 i5
      refine ⟨xml0, xml, hs, ht, i6, ?_, ?_⟩
      · show p5.flush.abs = _
        rw [a6, a5, a4, a3, a2, s2, hpos0, a1a, a1]
        rfl
      · show p5.flush.dev.data = image p5.flush.abs.data
        rw [a6]; exact d6

theorem align_wf (s : LogStream) (h1 : s.data.length % 1020 = 0) (h2 : s.cur ≤ s.data.length) :
    s.align.data.length % 1020 = 0 ∧ s.align.cur ≤ s.align.data.length ∧
      s.data.length ≤ s.align.data.length := by
  unfold LogStream.align
  split
  · rw [spec_write_length _ _ h2, spec_write_cur]
    omega
  · exact ⟨h1, h2, Nat.le_refl _⟩

theorem write_wf' (s : LogStream) (b : Bytes) (h1 : s.data.length % 1020 = 0) (h2 : s.cur ≤ s.data.length) :
    (s.write b).data.length % 1020 = 0 ∧ (s.write b).cur ≤ (s.write b).data.length ∧
      s.data.length ≤ (s.write b).data.length := by
  rw [spec_write_length _ _ h2, spec_write_cur]
  omega

/-- the stream after XML + alignment -/
theorem xmlEnd_facts (s : LogStream) (X : Bytes) (h1 : s.data.length % 1020 = 0)
    (h2 : s.cur ≤ s.data.length) :
    (xmlEnd s X).data.length % 1020 = 0 ∧ (xmlEnd s X).cur ≤ (xmlEnd s X).data.length ∧
    (xmlEnd s X).cur % 4 = 0 ∧ s.cur + X.length ≤ (xmlEnd s X).cur ∧
    s.data.length ≤ (xmlEnd s X).data.length ∧
    ((xmlEnd s X).data.drop s.cur).take X.length = X ∧
    (∀ a n, a + n ≤ s.cur → ((xmlEnd s X).data.drop a).take n = (s.data.drop a).take n) := by
  obtain ⟨w1, w2, w3⟩ := write_wf' s X h1 h2
  obtain ⟨a1, a2, a3⟩ := align_wf (s.write X) w1 w2
  obtain ⟨c1, c2⟩ := RoundTrip.align_cur (s.write X)
  rw [spec_write_cur] at c2
  have hend : s.cur + X.length ≤ (s.write X).data.length := by
    rw [spec_write_cur] at w2; exact w2
  unfold xmlEnd
  refine ⟨a1, a2, c1, c2, by omega, ?_, ?_⟩
  · rw [BlobRT.align_window_stable _ _ _ hend (Or.inl (by rw [spec_write_cur]; omega))]
    exact BlobRT.write_window s X
  · intro a n han
    rw [BlobRT.align_window_stable _ _ _ (by omega) (Or.inl (by rw [spec_write_cur]; omega))]
    exact RoundTrip.write_window_stable s X a n h2 (by omega) (.inr han)

/-- the closed stream: header at 0, everything from 48 on as after XML + alignment -/
theorem closed_facts (s : LogStream) (X : Bytes) (h1 : s.data.length % 1020 = 0)
    (h2 : s.cur ≤ s.data.length) :
    (closedStream s X).data.take 48 = fileHeaderBytes (xmlEnd s X).physSize (l2p s.cur) X.length ∧
    (closedStream s X).data.length % 1020 = 0 ∧ 0 < (closedStream s X).data.length ∧
    (0 < (xmlEnd s X).data.length → (closedStream s X).data.length = (xmlEnd s X).data.length) ∧
    (∀ a n, 48 ≤ a → a + n ≤ (xmlEnd s X).data.length →
      ((closedStream s X).data.drop a).take n = ((xmlEnd s X).data.drop a).take n) := by
  obtain ⟨x1, x2, -⟩ := xmlEnd_facts s X h1 h2
  have hl := RoundTrip.fileHeader_length (xmlEnd s X).physSize (l2p s.cur) X.length
  have hw := BlobRT.write_window { xmlEnd s X with cur := 0 }
    (fileHeaderBytes (xmlEnd s X).physSize (l2p s.cur) X.length)
  have hlen := spec_write_length { xmlEnd s X with cur := 0 }
    (fileHeaderBytes (xmlEnd s X).physSize (l2p s.cur) X.length) (Nat.zero_le _)
  rw [hl] at hw hlen
  simp only [List.drop_zero] at hw
  have hd : (closedStream s X).data = (LogStream.write { xmlEnd s X with cur := 0 }
      (fileHeaderBytes (xmlEnd s X).physSize (l2p s.cur) X.length)).data := rfl
  have e0 : ({ xmlEnd s X with cur := 0 } : LogStream).data = (xmlEnd s X).data := rfl
  have e1 : ({ xmlEnd s X with cur := 0 } : LogStream).cur = 0 := rfl
  rw [e0, e1] at hlen
  refine ⟨by rw [hd]; exact hw, by rw [hd, hlen]; omega, by rw [hd, hlen]; omega,
    fun hp => by rw [hd, hlen]; omega, ?_⟩
  intro a n ha han
  rw [hd]
  exact RoundTrip.write_window_stable { xmlEnd s X with cur := 0 } _ a n (Nat.zero_le _) han
    (.inl (by rw [hl]; show 0 + 48 ≤ a; omega))

/-- the first page of the image starts with the first bytes of the logical stream -/
theorem image_take (d : Bytes) (hd : d.length % 1020 = 0) (hpos : 0 < d.length) (n : Nat) (hn : n ≤ 1020) :
    (image d).take n = d.take n := by
  have h := devPage_image d hd 0 (by omega)
  simp only [devPage, Nat.zero_mul, Nat.mul_zero, List.drop_zero] at h
  have hl : (d.take 1020).length = 1020 := by rw [List.length_take]; omega
  have : (image d).take n = ((image d).take 1024).take n := by
    rw [List.take_take, Nat.min_eq_left (by omega)]
  rw [this, h, List.take_append_of_le_length (by omega), List.take_take, Nat.min_eq_left hn]

/-! ## theorem 1 — size and page checksums, by the decoder's own de-paging -/

/-- **the decoder's de-paging accepts every image**: for a logical stream of whole pages every page
    checksum of `Spec.image d` is valid (bitwise CRC-32C of the 1020 payload bytes, big-endian) and
    de-paging returns exactly `d` -/
theorem depage_image (d : Bytes) (hd : d.length % 1020 = 0) :
    (image d).length % 1024 = 0 ∧
    depageChecked ((image d).length / 1024 + 1) (image d) 0 [] = .ok d := by
  have hl := image_length d hd
  refine ⟨by omega, ?_⟩
  rw [image_eq_imgFuel]
  have := depage_imgFuel ((imgFuel (d.length + 1) d).length / 1024 + 1) (d.length + 1) d 0 [] hd
    (by omega) (by rw [← image_eq_imgFuel, hl]; omega)
  simpa using this

/-- **C02 / 1**: the finalized file is a positive whole number of 1024-byte pages, every page
    checksum is valid, and the decoder's de-paging yields exactly the writer's logical stream -/
theorem finalized_pages_valid (ft : FloatText) (e e' : EW) (tr : String → Option String)
    (hpw : e.pw.Inv) (h : EW.finalize ft e tr = .ok e') :
    e'.pw.dev.data.length % 1024 = 0 ∧ 0 < e'.pw.dev.data.length ∧
    e'.pw.dev.data.length = 1024 * (e'.pw.abs.data.length / 1020) ∧
    e'.pw.abs.data.length % 1020 = 0 ∧
    (∀ p, p < e'.pw.dev.data.length / 1024 → pageValid (devPage e'.pw.dev.data 1024 p) 1024) ∧
    depageChecked (e'.pw.dev.data.length / 1024 + 1) e'.pw.dev.data 0 [] = .ok e'.pw.abs.data := by
  obtain ⟨xml0, xml, -, -, inv', a, dv⟩ := finalize_shape ft e e' tr hpw h
  obtain ⟨w1, w2⟩ := abs_wf e.pw hpw
  obtain ⟨-, c2, c3, -, -⟩ := closed_facts e.pw.abs (utf8 xml) w1 w2
  rw [← a] at c2 c3
  have hl := image_length e'.pw.abs.data c2
  obtain ⟨d1, d2⟩ := depage_image e'.pw.abs.data c2
  rw [dv]
  refine ⟨d1, by omega, hl, c2, ?_, d2⟩
  intro p hp
  exact image_page_valid _ c2 p (by omega)

/-! # Part 3 — offsets: logical ↔ physical, never inside checksum bytes -/

/-- a translated logical offset never points into the four checksum bytes of a page -/
theorem l2p_outside (n : Nat) : l2p n % 1024 < 1020 := by unfold l2p; omega

/-- the decoder's translation inverts the writer's (`p2l_l2p` is in WriterProps.lean; `toLogical`
    is the decoder's own name for it) -/
theorem toLogical_l2p (n : Nat) : toLogical (l2p n) = n := by unfold toLogical l2p; omega

theorem l2p_lt_iff (n len : Nat) (hlen : len % 1020 = 0) : l2p n < 1024 * (len / 1020) ↔ n < len := by
  unfold l2p; omega

/-- **the decoder's offset check** `physOk` holds for the physical image of every logical offset
    inside the stream (file length = `1024 * pages`) -/
theorem physOk_l2p (n len : Nat) (hlen : len % 1020 = 0) (h : n < len) :
    physOk (1024 * (len / 1020)) (l2p n) = true := by
  unfold physOk
  simp only [Bool.and_eq_true, decide_eq_true_eq]
  exact ⟨(l2p_lt_iff n len hlen).2 h, l2p_outside n⟩

/-- … and fails for every logical offset at or behind the end -/
theorem physOk_l2p_false (n len : Nat) (hlen : len % 1020 = 0) (h : len ≤ n) :
    physOk (1024 * (len / 1020)) (l2p n) = false := by
  unfold physOk
  have : ¬ l2p n < 1024 * (len / 1020) := by rw [l2p_lt_iff n len hlen]; omega
  simp [this]

/-- **C02 / 3 — offsets never land in checksum bytes.**  The physical image `l2p n` of every logical
    offset lies outside the four checksum bytes of its page, the decoder's translation (`toLogical`,
    = `p2l`) inverts it, and in a file of `len / 1020` pages the decoder's `physOk` accepts `l2p n`
    exactly when `n` is inside the logical stream.  Every offset the writer publishes is such an
    image: blob `offset` (`BlobRT.blob_window`), `PointCloud.fileOffset` (`SectionLayout.fileOffset`),
    the data offset in the section header (`SectionLayout.window`), the XML offset in the file header
    (`finalized_header_true`); `cloud_in_file`, `blob_in_file`, `finalized_header_decoded` give `physOk`
    for each of them in the finalized file. -/
theorem offsets_outside_checksums :
    (∀ n, l2p n % 1024 < 1020 ∧ p2l (l2p n) = n ∧ toLogical (l2p n) = n) ∧
    (∀ n len, len % 1020 = 0 → (physOk (1024 * (len / 1020)) (l2p n) = true ↔ n < len)) := by
  refine ⟨fun n => ⟨l2p_outside n, p2l_l2p n, toLogical_l2p n⟩, ?_⟩
  intro n len hlen
  constructor
  · intro h
    by_cases hn : n < len
    · exact hn
    · rw [physOk_l2p_false n len hlen (by omega)] at h; cases h
  · exact physOk_l2p n len hlen

/-! ## theorem 2 — the file header -/

theorem slice_mid {α} (P M Q : List α) (a n : Nat) (ha : P.length = a) (hn : M.length = n) :
    ((P ++ (M ++ Q)).drop a).take n = M := by
  subst ha; subst hn
  rw [List.drop_left, List.take_left]

theorem drop_take_of_take {α} (f : List α) (k a n : Nat) (h : a + n ≤ k) :
    (f.drop a).take n = ((f.take k).drop a).take n := by
  rw [List.drop_take, List.take_take, Nat.min_eq_left (by omega)]

/-- what the decoder reads out of a file that starts with `fileHeaderBytes L O X` -/
theorem header_fields (file : Bytes) (L O X : Nat) (h : file.take 48 = fileHeaderBytes L O X)
    (hL : L < 2 ^ 64) (hO : O < 2 ^ 64) (hX : X < 2 ^ 64) :
    file.take 8 = utf8 "ASTM-E57" ∧
    leVal ((file.drop 8).take 4) = 1 ∧ leVal ((file.drop 12).take 4) = 0 ∧
    leVal ((file.drop 16).take 8) = L ∧ leVal ((file.drop 24).take 8) = O ∧
    leVal ((file.drop 32).take 8) = X ∧ leVal ((file.drop 40).take 8) = 1024 := by
  have hs := RoundTrip.sig_length
  have h0 : file.take 8 = (file.take 48).take 8 := by rw [List.take_take]; rfl
  rw [h0, drop_take_of_take file 48 8 4 (by omega), drop_take_of_take file 48 12 4 (by omega),
    drop_take_of_take file 48 16 8 (by omega), drop_take_of_take file 48 24 8 (by omega),
    drop_take_of_take file 48 32 8 (by omega), drop_take_of_take file 48 40 8 (by omega), h]
  unfold fileHeaderBytes
  refine ⟨?_, ?_, ?_, ?_, ?_, ?_, ?_⟩
  · simp only [List.append_assoc]
    rw [List.take_append_of_le_length (by omega), List.take_of_length_le (by omega)]
  · have := slice_mid (utf8 "ASTM-E57") (toLE 1 4) (toLE 0 4 ++ toLE L 8 ++ toLE O 8 ++ toLE X 8 ++ toLE 1024 8)
      8 4 hs (toLE_length _ _)
    simp only [List.append_assoc] at this ⊢
    rw [this, leVal_toLE]
  · have := slice_mid (utf8 "ASTM-E57" ++ toLE 1 4) (toLE 0 4) (toLE L 8 ++ toLE O 8 ++ toLE X 8 ++ toLE 1024 8)
      12 4 (by rw [List.length_append, hs, toLE_length]) (toLE_length _ _)
    simp only [List.append_assoc] at this ⊢
    rw [this, leVal_toLE]
  · have := slice_mid (utf8 "ASTM-E57" ++ toLE 1 4 ++ toLE 0 4) (toLE L 8) (toLE O 8 ++ toLE X 8 ++ toLE 1024 8)
      16 8 (by simp only [List.length_append, hs, toLE_length]) (toLE_length _ _)
    simp only [List.append_assoc] at this ⊢
    rw [this, leVal_toLE]; exact Nat.mod_eq_of_lt hL
  · have := slice_mid (utf8 "ASTM-E57" ++ toLE 1 4 ++ toLE 0 4 ++ toLE L 8) (toLE O 8) (toLE X 8 ++ toLE 1024 8)
      24 8 (by simp only [List.length_append, hs, toLE_length]) (toLE_length _ _)
    simp only [List.append_assoc] at this ⊢
    rw [this, leVal_toLE]; exact Nat.mod_eq_of_lt hO
  · have := slice_mid (utf8 "ASTM-E57" ++ toLE 1 4 ++ toLE 0 4 ++ toLE L 8 ++ toLE O 8) (toLE X 8) (toLE 1024 8)
      32 8 (by simp only [List.length_append, hs, toLE_length]) (toLE_length _ _)
    simp only [List.append_assoc] at this ⊢
    rw [this, leVal_toLE]; exact Nat.mod_eq_of_lt hX
  · have := slice_mid (utf8 "ASTM-E57" ++ toLE 1 4 ++ toLE 0 4 ++ toLE L 8 ++ toLE O 8 ++ toLE X 8) (toLE 1024 8) []
      40 8 (by simp only [List.length_append, hs, toLE_length]) (toLE_length _ _)
    simp only [List.append_assoc, List.append_nil] at this ⊢
    rw [this, leVal_toLE]

/-- the decoder's `slice` on a window that lies inside the stream -/
theorem slice_ok (d : Bytes) (off len : Nat) (h : off + len ≤ d.length) :
    slice d off len = .ok ((d.drop off).take len) := by
  unfold slice; rw [if_pos h]; rfl

/-- **C02 / 2**: the first 48 bytes of the finalized file are the file header with the TRUE device
    length, the physical offset of the XML (`l2p` of the logical position where it was written), the
    XML's byte length and page size 1024; the XML bytes lie exactly there in the de-paged stream; the
    XML offset passes the decoder's `physOk` as soon as the XML is not empty.
    `48 ≤ cursor` (the 48-byte header placeholder `EW.new` writes is in front of the cursor) is
    needed: see `finalized_header_statement_false`. -/
theorem finalized_header_true (ft : FloatText) (e e' : EW) (tr : String → Option String)
    (hpw : e.pw.Inv) (h48 : 48 ≤ e.pw.abs.cur) (h : EW.finalize ft e tr = .ok e') :
    ∃ (xml0 xml : String), serializeRoot ft e.root e.pcs e.imgs e.exts = some xml0 ∧
      tr xml0 = some xml ∧
      e'.pw.dev.data.take 48 = fileHeaderBytes e'.pw.dev.data.length (l2p e.pw.abs.cur) (utf8 xml).length ∧
      p2l (l2p e.pw.abs.cur) = e.pw.abs.cur ∧ l2p e.pw.abs.cur % 1024 < 1020 ∧
      e.pw.abs.cur + (utf8 xml).length ≤ e'.pw.abs.data.length ∧
      (e'.pw.abs.data.drop (p2l (l2p e.pw.abs.cur))).take (utf8 xml).length = utf8 xml ∧
      (0 < (utf8 xml).length → physOk e'.pw.dev.data.length (l2p e.pw.abs.cur) = true) ∧
      e'.pw.abs.cur % 4 = 0 ∧ e.pw.abs.cur + (utf8 xml).length ≤ e'.pw.abs.cur ∧
      e'.pw.abs.cur ≤ e'.pw.abs.data.length := by
  obtain ⟨xml0, xml, hs, ht, inv', a, dv⟩ := finalize_shape ft e e' tr hpw h
  obtain ⟨w1, w2⟩ := abs_wf e.pw hpw
  obtain ⟨x1, x2, x3, x4, x5, x6, x7⟩ := xmlEnd_facts e.pw.abs (utf8 xml) w1 w2
  obtain ⟨c1, c2, c3, c4, c5⟩ := closed_facts e.pw.abs (utf8 xml) w1 w2
  have hpos : 0 < (xmlEnd e.pw.abs (utf8 xml)).data.length := by omega
  have c4 := c4 hpos
  rw [← a] at c1 c2 c3 c4 c5
  have hl := image_length e'.pw.abs.data c2
  have hsz : (xmlEnd e.pw.abs (utf8 xml)).physSize = e'.pw.dev.data.length := by
    rw [dv, hl, c4]; rfl
  have hcur : e'.pw.abs.cur = (xmlEnd e.pw.abs (utf8 xml)).cur := by rw [a]; rfl
  refine ⟨xml0, xml, hs, ht, ?_, p2l_l2p _, l2p_outside _, by omega, ?_, ?_, by omega, by omega, by omega⟩
  · rw [← hsz, ← c1, dv]
    exact image_take _ c2 c3 48 (by omega)
  · rw [p2l_l2p, c5 _ _ h48 (by omega)]
    exact x6
  · intro hX
    rw [dv, hl]
    exact physOk_l2p _ _ c2 (by omega)

/-- **C02 / 2, in the decoder's words**: every header check of `Spec.decodeFile` passes on the
    finalized file `file := e'.pw.dev.data` (signature, version 1.0, stated length = true length, page
    size 1024, XML offset inside the file and outside checksum bytes), and the decoder's extraction
    of the XML section from the de-paged stream returns exactly the XML text the writer serialised.
    `file.length < 2^64`: the header stores 8-byte fields. -/
theorem finalized_header_decoded (ft : FloatText) (e e' : EW) (tr : String → Option String)
    (hpw : e.pw.Inv) (h48 : 48 ≤ e.pw.abs.cur) (h : EW.finalize ft e tr = .ok e')
    (h64 : e'.pw.dev.data.length < 2 ^ 64) :
    ∃ (xml0 xml : String), serializeRoot ft e.root e.pcs e.imgs e.exts = some xml0 ∧
      tr xml0 = some xml ∧
      let file := e'.pw.dev.data
      file.take 8 = utf8 "ASTM-E57" ∧
      leVal ((file.drop 8).take 4) = 1 ∧ leVal ((file.drop 12).take 4) = 0 ∧
      leVal ((file.drop 16).take 8) = file.length ∧
      leVal ((file.drop 24).take 8) = l2p e.pw.abs.cur ∧
      leVal ((file.drop 32).take 8) = (utf8 xml).length ∧
      leVal ((file.drop 40).take 8) = 1024 ∧
      (0 < (utf8 xml).length → physOk file.length (leVal ((file.drop 24).take 8)) = true) ∧
      slice e'.pw.abs.data (toLogical (leVal ((file.drop 24).take 8))) (leVal ((file.drop 32).take 8))
        = .ok (utf8 xml) := by
  obtain ⟨xml0, xml, hs, ht, g1, g2, g3, g4, g5, g6, g7, g8, g9⟩ :=
    finalized_header_true ft e e' tr hpw h48 h
  obtain ⟨p1, p2, p3, p4, p5, p6⟩ := finalized_pages_valid ft e e' tr hpw h
  have hO : l2p e.pw.abs.cur < 2 ^ 64 := by
    have : l2p e.pw.abs.cur ≤ 1024 * (e'.pw.abs.data.length / 1020) := by unfold l2p; omega
    omega
  have hX : (utf8 xml).length < 2 ^ 64 := by omega
  obtain ⟨f1, f2, f3, f4, f5, f6, f7⟩ := header_fields _ _ _ _ g1 h64 hO hX
  refine ⟨xml0, xml, hs, ht, f1, f2, f3, f4, f5, f6, f7, ?_, ?_⟩
  · rw [f5]; exact g6
  · rw [f5, f6, toLogical_l2p, slice_ok _ _ _ g4]
    rw [p2l_l2p] at g5
    rw [g5]

/-! # Part 4 — the decoder's packet walk over every legal layout -/

theorem slice_holds {d : Bytes} {o : Nat} {X : Bytes} (h : Layout.Holds d o X) (n : Nat) (hn : X.length = n) :
    slice d o n = .ok X := by
  subst hn
  rw [slice_ok _ _ _ h.le, h.slice]

theorem u_holds {d : Bytes} {o : Nat} {X : Bytes} (h : Layout.Holds d o X) (n : Nat) (hn : X.length = n) :
    u d o n = .ok (leVal X) := by
  unfold u
  rw [slice_holds h n hn]; rfl

theorem mapM_ok {α β} (f : α → V β) (g : α → β) : ∀ (l : List α), (∀ x ∈ l, f x = .ok (g x)) →
    l.mapM f = .ok (l.map g)
  | [], _ => rfl
  | a :: l, h => by
    rw [List.mapM_cons, h a (by simp), mapM_ok f g l (fun x hx => h x (by simp [hx]))]
    rfl

theorem foldl_add_eq_sum (l : List Nat) (a : Nat) : l.foldl (· + ·) a = a + l.sum := by
  induction l generalizing a with
  | nil => simp
  | cons x l ih => simp only [List.foldl_cons, ih, List.sum_cons]; omega

/-- the `u16` size fields of a data packet, read one by one -/
theorem sizes_holds {d : Bytes} : ∀ (ch : List Bytes) (o : Nat),
    Layout.Holds d o ((ch.map (fun c => toLE c.length 2)).flatten) → (∀ c ∈ ch, c.length < 65536) →
    ∀ i, i < ch.length → u d (o + 2 * i) 2 = .ok ((ch.getD i []).length)
  | [], _, _, _, i, hi => by simp at hi
  | c :: ch, o, hX, hlt, i, hi => by
    simp only [List.map_cons, List.flatten_cons] at hX
    cases i with
    | zero =>
      have := u_holds hX.left 2 (toLE_length _ _)
      rw [Layout.leVal_toLE2 _ (hlt c (by simp))] at this
      simpa using this
    | succ i =>
      have := sizes_holds ch (o + 2) (hX.right' (by rw [toLE_length])) (fun x hx => hlt x (by simp [hx])) i
        (by simpa using hi)
      rw [show o + 2 * (i + 1) = o + 2 + 2 * i by omega]
      simpa using this

/-- cutting the chunks out of the packet body -/
theorem chunks_fold {d : Bytes} : ∀ (ch : List Bytes) (pre : List Bytes) (o : Nat),
    Layout.Holds d o ch.flatten →
    List.foldlM (m := V) (fun (acc : List Bytes × Nat) sz => do
        let c ← slice d acc.2 sz
        pure (acc.1 ++ [c], acc.2 + sz)) (pre, o) (ch.map List.length)
      = .ok (pre ++ ch, o + ch.flatten.length)
  | [], pre, o, _ => by simp; rfl
  | c :: ch, pre, o, hX => by
    simp only [List.flatten_cons] at hX
    have ih := chunks_fold ch (pre ++ [c]) (o + c.length) hX.right
    simp only [List.map_cons, List.foldlM_cons, slice_holds hX.left c.length rfl]
    show List.foldlM _ (pre ++ [c], o + c.length) _ = _
    rw [ih]
    simp [Nat.add_assoc]

theorem walk_ignored {d : Bytes} (nrec fuel pos endPos : Nat) (acc : PacketWalk) (streams : List Bytes)
    (c : List Nat) (len : Nat)
    (hX : Layout.Holds d pos (Layout.pktBytes streams c (.ignored len)))
    (hok : Layout.PktOk streams.length (.ignored len)) (h4 : pos % 4 = 0) (hend : pos + len ≤ endPos) :
    walkPackets d nrec (fuel + 1) pos endPos acc = walkPackets d nrec fuel (pos + len) endPos acc := by
  obtain ⟨h4', hlo, hhi⟩ := hok
  have hX' : Layout.Holds d pos ([2] ++ ([0] ++ (toLE (len - 1) 2 ++ zeros (len - 4)))) := by
    simpa [Layout.pktBytes] using hX
  have e1 := u_holds hX'.left 1 rfl
  have e2 := u_holds (hX'.right.right' (o' := pos + 2) rfl).left 2 (toLE_length _ _)
  rw [Layout.leVal_toLE2 _ (by omega)] at e2
  have hl : len - 1 + 1 = len := by omega
  rw [walkPackets, if_neg (by omega), if_neg (by omega)]
  simp only [need, h4, e1, e2, hl, h4', decide_true, if_true, bind, Except.bind, pure, Except.pure]
  rfl

theorem walk_index {d : Bytes} (nrec fuel pos endPos : Nat) (acc : PacketWalk) (streams : List Bytes)
    (c : List Nat) (len : Nat)
    (hX : Layout.Holds d pos (Layout.pktBytes streams c (.index len)))
    (hok : Layout.PktOk streams.length (.index len)) (h4 : pos % 4 = 0) (hend : pos + len ≤ endPos) :
    walkPackets d nrec (fuel + 1) pos endPos acc = walkPackets d nrec fuel (pos + len) endPos acc := by
  obtain ⟨h4', hlo, hhi⟩ := hok
  have hX' : Layout.Holds d pos ([0] ++ ([0] ++ (toLE (len - 1) 2 ++ (toLE 0 2 ++ ([0] ++ (zeros 9 ++ zeros (len - 16))))))) := by
    simpa [Layout.pktBytes] using hX
  have e1 := u_holds hX'.left 1 rfl
  have hr := hX'.right.right' (o' := pos + 2) rfl
  have e2 := u_holds hr.left 2 (toLE_length _ _)
  rw [Layout.leVal_toLE2 _ (by omega)] at e2
  have e3 := slice_holds (((hr.right' (o' := pos + 4) (by rw [toLE_length])).right'
    (o' := pos + 6) (by rw [toLE_length])).right' (o' := pos + 7) rfl).left 9 (zeros_length _)
  have hl : len - 1 + 1 = len := by omega
  have hz : (zeros 9).all (· == 0) = true := by decide
  rw [walkPackets, if_neg (by omega), if_neg (by omega)]
  simp only [need, h4, e1, e2, e3, hl, h4', hz, decide_true, if_true, bind, Except.bind, pure, Except.pure]
  have : leVal [0] = 0 := rfl
  simp only [this, hlo, decide_true, if_true]
  rfl

theorem mem_le_sum : ∀ (l : List Nat) (x : Nat), x ∈ l → x ≤ l.sum
  | a :: l, x, h => by
    rcases List.mem_cons.1 h with h | h
    · subst h; simp
    · have := mem_le_sum l x h; simp only [List.sum_cons]; omega

theorem walk_data {d : Bytes} (fuel pos endPos : Nat) (acc : PacketWalk) (streams : List Bytes)
    (c lens : List Nat)
    (hX : Layout.Holds d pos (Layout.pktBytes streams c (.data lens)))
    (hok : Layout.PktOk streams.length (.data lens)) (h4 : pos % 4 = 0)
    (hend : pos + (Layout.pktBytes streams c (.data lens)).length ≤ endPos) :
    walkPackets d streams.length (fuel + 1) pos endPos acc
      = walkPackets d streams.length fuel (pos + (Layout.pktBytes streams c (.data lens)).length) endPos
          { chunks := acc.chunks ++ [Layout.chunks streams c lens],
            firstData := acc.firstData.orElse (fun _ => some pos) } := by
  obtain ⟨hl, hhi⟩ := hok
  have hle := Layout.pad4_mono_bound _ _ (Layout.dataLen0_le streams c lens hl)
  have hn : streams.length < 65536 := by unfold pad4 at hhi; omega
  have hflat := Layout.chunks_flat_le streams c lens hl
  have hchlen := Layout.chunks_length streams c lens
  have hd0 : Layout.dataLen0 streams c lens
      = 6 + 2 * streams.length + (Layout.chunks streams c lens).flatten.length := by
    simp only [Layout.dataLen0, Layout.dataSizes, List.length_append, Layout.sizes_flat_length, hchlen]
    omega
  rw [Layout.pkt_data_length] at hend ⊢
  rw [Layout.pkt_data_eq] at hX
  simp only [Layout.dataSizes] at hX
  generalize hL : Layout.dataLen0 streams c lens + pad4 (Layout.dataLen0 streams c lens) = L at *
  have hL4 : L % 4 = 0 := by rw [← hL]; unfold pad4; omega
  have hL6 : 6 ≤ L := by rw [← hL]; omega
  have hLp : L < Layout.dataLen0 streams c lens + 4 := by rw [← hL]; unfold pad4; omega
  have hLd : Layout.dataLen0 streams c lens ≤ L := by rw [← hL]; omega
  generalize hch : Layout.chunks streams c lens = ch at *
  have e1 := u_holds hX.left.left 1 rfl
  have hr := hX.left.right' (o' := pos + 1) rfl
  have e2 := u_holds (hr.left.right' (o' := pos + 2) rfl) 2 (toLE_length _ _)
  rw [Layout.leVal_toLE2 _ (by omega)] at e2
  have e3 := u_holds (hr.right' (o' := pos + 4) (by simp [toLE_length])) 2 (toLE_length _ _)
  rw [Layout.leVal_toLE2 _ hn] at e3
  have hbody := hX.right' (o' := pos + 6) (by simp [toLE_length])
  have hlt : ∀ x ∈ ch, x.length < 65536 := by
    intro x hx
    have : x.length ≤ ch.flatten.length := by
      rw [List.length_flatten]
      exact mem_le_sum _ _ (List.mem_map.2 ⟨x, hx, rfl⟩)
    omega
  have hsz := sizes_holds ch (pos + 6) hbody.left hlt
  have e4 : (List.range streams.length).mapM (fun i => u d (pos + 6 + 2 * i) 2)
      = .ok (ch.map List.length) := by
    rw [mapM_ok _ (fun i => (ch.getD i []).length)]
    · congr 1
      apply List.ext_getElem
      · simp [hchlen]
      · intro i h1 h2
        simp [List.getD_eq_getElem?_getD, List.getElem?_eq_getElem (by simpa using h2 : i < ch.length)]
    · intro i hi
      exact hsz i (by rw [hchlen]; exact List.mem_range.1 hi)
  have hsum : (ch.map List.length).foldl (· + ·) 0 = ch.flatten.length := by
    rw [foldl_add_eq_sum, List.length_flatten]; omega
  have e5 := chunks_fold ch [] (pos + (6 + 2 * streams.length))
    (hbody.right.left.cast (by simp only [Layout.sizes_flat_length, hchlen]; omega))
  have hl1 : L - 1 + 1 = L := by omega
  rw [walkPackets, if_neg (by omega), if_neg (by omega)]
  simp only [need, h4, e1, e2, e3, e4, hl1, hL4, hsum, decide_true, if_true, bind, Except.bind, pure, Except.pure]
  have : leVal [1] = 1 := rfl
  simp only [this, if_true]
  rw [if_pos (by rw [decide_eq_true_eq]; omega), if_pos (by rw [decide_eq_true_eq]; omega)]
  simp only []
  erw [e5]
  simp only [List.nil_append]

/-- the chunk lists (one per data packet, one chunk per record) a packet list carries -/
def dataChunks (streams : List Bytes) : List PacketSpec → List Nat → List (List Bytes)
  | [], _ => []
  | .data lens :: ps, c =>
    Layout.chunks streams c lens :: dataChunks streams ps (Layout.nextCursors streams c (.data lens))
  | .index _ :: ps, c => dataChunks streams ps c
  | .ignored _ :: ps, c => dataChunks streams ps c

theorem orElse_orElse (a : Option Nat) (x : Nat) (b : Option Nat) :
    (a.orElse (fun _ => some x)).orElse (fun _ => b) = a.orElse (fun _ => some x) := by
  cases a <;> rfl

/-- **the decoder's packet walk accepts every packet list the specification encoder lays out**
    (data, index and ignored packets in any order, each `PktOk`): it consumes exactly the bytes of
    the packets, collects the chunks of the data packets in order and remembers the first data
    packet -/
theorem walk_pkts {d : Bytes} (streams : List Bytes) : ∀ (ps : List PacketSpec) (c : List Nat) (pos : Nat)
    (acc : PacketWalk) (fuel : Nat),
    Layout.Holds d pos (Layout.pktsBytes streams ps c) → (∀ p ∈ ps, Layout.PktOk streams.length p) →
    pos % 4 = 0 → ps.length < fuel →
    walkPackets d streams.length fuel pos (pos + (Layout.pktsBytes streams ps c).length) acc
      = .ok { chunks := acc.chunks ++ dataChunks streams ps c,
              firstData := acc.firstData.orElse (fun _ => Layout.firstData ps pos) }
  | [], c, pos, acc, fuel, _, _, _, hf => by
    cases fuel with
    | zero => simp at hf
    | succ fuel =>
      rw [walkPackets, if_pos (by simp [Layout.pktsBytes])]
      simp only [dataChunks, List.append_nil, Layout.firstData]
      cases acc with
      | mk ch fd => cases fd <;> rfl
  | p :: ps, c, pos, acc, fuel, hX, hok, h4, hf => by
    cases fuel with
    | zero => simp at hf
    | succ fuel =>
      simp only [Layout.pktsBytes] at hX ⊢
      have hp := hok p (by simp)
      have hlen4 := Layout.pkt_len_mod4 streams c p hp
      have ih := walk_pkts (d := d) streams ps (Layout.nextCursors streams c p)
        (pos + (Layout.pktBytes streams c p).length)
      rw [List.length_append, ← Nat.add_assoc]
      cases p with
      | data lens =>
        rw [walk_data fuel pos _ acc streams c lens hX.left hp h4 (by omega),
          ih _ fuel hX.right (fun x hx => hok x (by simp [hx])) (by omega) (by simpa using hf)]
        simp only [dataChunks, Layout.firstData, orElse_orElse, List.append_assoc, List.singleton_append]
      | index len =>
        have hl := Layout.pkt_index_length streams c len hp.2.1
        rw [hl] at ih ⊢
        rw [walk_index _ fuel pos _ acc streams c len hX.left hp h4 (by omega),
          ih _ fuel (hl ▸ hX.right) (fun x hx => hok x (by simp [hx])) (by omega) (by simpa using hf)]
        simp only [dataChunks, Layout.firstData, Layout.nextCursors]
      | ignored len =>
        have hl := Layout.pkt_ignored_length streams c len hp.2.1
        rw [hl] at ih ⊢
        rw [walk_ignored _ fuel pos _ acc streams c len hX.left hp h4 (by omega),
          ih _ fuel (hl ▸ hX.right) (fun x hx => hok x (by simp [hx])) (by omega) (by simpa using hf)]
        simp only [dataChunks, Layout.firstData, Layout.nextCursors]

/-! # Part 5 — a finalized point-cloud section, judged by the decoder -/

/-- the complete logical stream `d` of a file below 2^64 bytes carries `W` at logical offset `s` -/
structure Carries (d : Bytes) (s : Nat) (W : Bytes) : Prop where
  hd : d.length % 1020 = 0
  h64 : l2p d.length < 2 ^ 64
  hwin : (d.drop s).take W.length = W

theorem Carries.le {d s W} (h : Carries d s W) : s + W.length ≤ d.length ∨ W = [] := by
  by_cases hW : W = []
  · exact .inr hW
  · left
    have := congrArg List.length h.hwin
    rw [List.length_take, List.length_drop] at this
    have : 0 < W.length := List.length_pos_iff.mpr hW
    omega

theorem Carries.holds {d s W} (h : Carries d s W) (hne : W ≠ []) : Layout.Holds d s W :=
  Layout.Holds.of_slice d s W h.hwin hne

/-- the packets of a `LegalPackets` list are packets the reader-side legality accepts -/
theorem legal_pktOk {types : List RecType} {points : List (List Int)} {packets : List PacketSpec}
    (h : LegalPackets types points packets) : ∀ p ∈ packets, Layout.PktOk types.length p := by
  intro p hp
  obtain ⟨lens, rfl, hl⟩ := h.arity p hp
  have := (h.len _ hp).1
  simp only [packetLen] at this
  refine ⟨hl, ?_⟩
  have e : 6 + 2 * types.length + lens.sum = 6 + (types.length * 2 + lens.sum) := by omega
  rw [e]; omega

theorem firstData_data {types : List RecType} {points : List (List Int)} {packets : List PacketSpec}
    (h : LegalPackets types points packets) (pos : Nat) :
    Layout.firstData packets pos = if packets = [] then none else some pos := by
  cases packets with
  | nil => rfl
  | cons p ps =>
    obtain ⟨lens, rfl, _⟩ := h.arity p (by simp)
    simp [Layout.firstData]

/-- the decoder's reads of a compressed-vector section header -/
theorem cvHeader_reads {d : Bytes} {s : Nat} (sl dof ix : Nat)
    (h : Layout.Holds d s (CvHeader.bytes ⟨sl, dof, ix⟩))
    (h1 : sl < 2 ^ 64) (h2 : dof < 2 ^ 64) (h3 : ix < 2 ^ 64) :
    u d s 1 = .ok 1 ∧ slice d (s + 1) 7 = .ok (zeros 7) ∧ u d (s + 8) 8 = .ok sl ∧
    u d (s + 16) 8 = .ok dof ∧ u d (s + 24) 8 = .ok ix := by
  unfold CvHeader.bytes at h
  simp only [] at h
  have a1 := u_holds h.left.left.left.left 1 rfl
  have a2 := slice_holds (h.left.left.left.right' (o' := s + 1) rfl) 7 (zeros_length _)
  have a3 := u_holds (h.left.left.right' (o' := s + 8) (by simp [zeros_length])) 8 (toLE_length _ _)
  have a4 := u_holds (h.left.right' (o' := s + 16) (by simp [zeros_length, toLE_length])) 8 (toLE_length _ _)
  have a5 := u_holds (h.right' (o' := s + 24) (by simp [zeros_length, toLE_length])) 8 (toLE_length _ _)
  rw [leVal_toLE, Nat.mod_eq_of_lt (by simpa using h1)] at a3
  rw [leVal_toLE, Nat.mod_eq_of_lt (by simpa using h2)] at a4
  rw [leVal_toLE, Nat.mod_eq_of_lt (by simpa using h3)] at a5
  exact ⟨a1, a2, a3, a4, a5⟩

/-- every packet is at least four bytes long: the fuel `sl / 4 + 2` of the decoder suffices -/
theorem pkts_length_ge4 (streams : List Bytes) : ∀ (ps : List PacketSpec) (c : List Nat),
    (∀ p ∈ ps, Layout.PktOk streams.length p) → 4 * ps.length ≤ (Layout.pktsBytes streams ps c).length
  | [], _, _ => by simp
  | p :: ps, c, h => by
    have ih := pkts_length_ge4 streams ps (Layout.nextCursors streams c p) (fun x hx => h x (by simp [hx]))
    have h4 := Layout.pkt_len_mod4 streams c p (h p (by simp))
    have h1 := Layout.pkt_length_pos streams c p
    simp only [Layout.pktsBytes, List.length_cons, List.length_append]; omega

/-- the packet bytes of the section a session leaves (specification view) -/
def sectionPackets (proto : Prototype) (pts : List (List Value)) (packets : List PacketSpec) : Bytes :=
  Layout.pktsBytes (Layout.streamsOf (specTypes proto) (specPoints pts)) packets
    (List.replicate (specTypes proto).length 0)

/-- the window a finalized section occupies = final header ++ packets, exactly `sectionLen` bytes -/
theorem sectionWindow_eq {pw pw2 : PW} {pc : PointCloud} {guid : String} {proto : Prototype}
    {pts : List (List Value)} {packets : List PacketSpec}
    (L : SectionLayout pw pw2 pc guid proto pts packets) :
    RoundTrip.sectionWindow pw pw2 proto packets
      = CvHeader.bytes ⟨RoundTrip.sectionLen proto packets, l2p (pw.abs.cur + 32), 0⟩
        ++ sectionPackets proto pts packets ∧
    (RoundTrip.sectionWindow pw pw2 proto packets).length = RoundTrip.sectionLen proto packets ∧
    (sectionPackets proto pts packets).length + 32 = RoundTrip.sectionLen proto packets := by
  have hw := L.window
  obtain ⟨ix, henc⟩ := Layout.encodeSection_cv pw.abs.cur (specTypes proto) (specPoints pts) packets
  have hhl : ∀ a b c : Nat, (([1] : Bytes) ++ zeros 7 ++ toLE a 8 ++ toLE b 8 ++ toLE c 8).length = 32 := by
    intro a b c; simp [toLE_length, zeros]
  have hdrop : (encodeSection pw.abs.cur (.cv (specTypes proto) (specPoints pts) packets)).drop 32
      = sectionPackets proto pts packets := by
    rw [henc]
    unfold sectionPackets
    simpa using drop_append_len _ (Layout.pktsBytes (Layout.streamsOf (specTypes proto) (specPoints pts)) packets
      (List.replicate (specTypes proto).length 0)) 32 0 (hhl _ _ _)
  rw [hdrop] at hw
  have hlen : (RoundTrip.sectionWindow pw pw2 proto packets).length = RoundTrip.sectionLen proto packets := by
    unfold RoundTrip.sectionWindow
    rw [List.length_take, List.length_drop]
    have h1 := (abs_wf pw2 L.inv).2
    have h2 := L.cursor
    unfold RoundTrip.sectionLen
    omega
  have heq : RoundTrip.sectionWindow pw pw2 proto packets
      = CvHeader.bytes ⟨RoundTrip.sectionLen proto packets, l2p (pw.abs.cur + 32), 0⟩
        ++ sectionPackets proto pts packets := hw
  refine ⟨heq, hlen, ?_⟩
  have := congrArg List.length heq
  rw [hlen, List.length_append, cvHeader_length] at this
  omega

/-- **C02 / 4 — a finalized point-cloud section is consistent, and the decoder's walk accepts it.**
    For the section a session `new; add_point*; finalize` leaves at the 4-aligned logical offset `s`
    (`SectionLayout`, from `writer_layout`), in every complete stream `d` that still carries it:
    * section length field `sl = 32 + Σ packet lengths`, a multiple of 4, the section lies inside `d`;
    * every packet length is a positive multiple of 4 and at most 65536 (the `u16` field holds `len-1`);
    * the decoder reads section id 1, seven zero bytes, `sl`, data offset `l2p (s+32)`, index offset 0;
    * `Spec.walkPackets` from `s+32` with the decoder's fuel `sl/4+2` ends exactly at `s+sl`, having seen
      only well-formed 4-aligned data packets with `proto.length` byte streams, and returns their
      chunks; its first data packet is at `s+32 = toLogical (data offset)` when there is a packet;
    * the data offset passes `physOk` when there is a packet. -/
theorem section_consistent {pw pw2 : PW} {pc : PointCloud} {guid : String} {proto : Prototype}
    {pts : List (List Value)} {packets : List PacketSpec}
    (L : SectionLayout pw pw2 pc guid proto pts packets) (hal : pw.abs.cur % 4 = 0)
    (d : Bytes) (hc : Carries d pw.abs.cur (RoundTrip.sectionWindow pw pw2 proto packets)) :
    let s := pw.abs.cur
    let sl := RoundTrip.sectionLen proto packets
    sl = 32 + (packets.map (packetLen proto.length)).sum ∧ sl % 4 = 0 ∧ 32 ≤ sl ∧ s + sl ≤ d.length ∧
    (∀ p ∈ packets, 0 < packetLen proto.length p ∧ packetLen proto.length p ≤ 65536 ∧
      packetLen proto.length p % 4 = 0) ∧
    u d s 1 = .ok 1 ∧ slice d (s + 1) 7 = .ok (zeros 7) ∧ u d (s + 8) 8 = .ok sl ∧
    u d (s + 16) 8 = .ok (l2p (s + 32)) ∧ u d (s + 24) 8 = .ok 0 ∧
    walkPackets d proto.length (sl / 4 + 2) (s + 32) (s + sl) ⟨[], none⟩
      = .ok ⟨dataChunks (Layout.streamsOf (specTypes proto) (specPoints pts)) packets
               (List.replicate (specTypes proto).length 0),
             if packets = [] then none else some (toLogical (l2p (s + 32)))⟩ ∧
    (packets ≠ [] → physOk (1024 * (d.length / 1020)) (l2p (s + 32)) = true) := by
  intro s sl
  obtain ⟨heq, hlen, hpl⟩ := sectionWindow_eq L
  have hn : (specTypes proto).length = proto.length := by simp [specTypes]
  have hsl : (Layout.streamsOf (specTypes proto) (specPoints pts)).length = proto.length := by
    rw [Layout.streamsOf_length, hn]
  have hpok : ∀ p ∈ packets, Layout.PktOk
      (Layout.streamsOf (specTypes proto) (specPoints pts)).length p := by
    rw [Layout.streamsOf_length]; exact legal_pktOk L.legal
  have hWne : RoundTrip.sectionWindow pw pw2 proto packets ≠ [] := by
    intro e; rw [e] at hlen; unfold RoundTrip.sectionLen at hlen; simp at hlen; omega
  have hin : s + sl ≤ d.length := by
    rcases hc.le with h | h
    · rw [hlen] at h; exact h
    · exact absurd h hWne
  have hH := hc.holds hWne
  rw [heq] at hH
  have hHp : Layout.Holds d (s + 32) (sectionPackets proto pts packets) :=
    hH.right' (by rw [cvHeader_length])
  have h4sum : (sectionPackets proto pts packets).length % 4 = 0 :=
    Layout.pkts_len_mod4 _ _ _ hpok
  have h64 := hc.h64
  have hsl64 : sl < 2 ^ 64 := by unfold l2p at h64; omega
  have hdo64 : l2p (s + 32) < 2 ^ 64 := by
    have : l2p (s + 32) ≤ l2p d.length := RoundTrip.l2p_mono _ _ (by
      have : 32 ≤ sl := by show 32 ≤ RoundTrip.sectionLen proto packets; unfold RoundTrip.sectionLen; omega
      omega)
    omega
  obtain ⟨r1, r2, r3, r4, r5⟩ := cvHeader_reads sl (l2p (s + 32)) 0 hH.left hsl64 hdo64 (by decide)
  have hwalk := walk_pkts (d := d) (Layout.streamsOf (specTypes proto) (specPoints pts)) packets
    (List.replicate (specTypes proto).length 0) (s + 32) ⟨[], none⟩ (sl / 4 + 2) hHp hpok
    (by show (pw.abs.cur + 32) % 4 = 0; omega)
    (by
      have := pkts_length_ge4 _ packets (List.replicate (specTypes proto).length 0) hpok
      have e : (Layout.pktsBytes (Layout.streamsOf (specTypes proto) (specPoints pts)) packets
        (List.replicate (specTypes proto).length 0)).length + 32 = sl := hpl
      omega)
  have hend : s + 32 + (sectionPackets proto pts packets).length = s + sl := by omega
  rw [hsl] at hwalk
  unfold sectionPackets at hend
  rw [hend, firstData_data L.legal] at hwalk
  refine ⟨rfl, ?_, ?_, hin, ?_, r1, r2, r3, r4, r5, ?_, ?_⟩
  · omega
  · show 32 ≤ RoundTrip.sectionLen proto packets; unfold RoundTrip.sectionLen; omega
  · intro p hp
    have hl := L.legal.len p hp
    rw [hn] at hl
    obtain ⟨lens, e, _⟩ := L.legal.arity p hp
    refine ⟨RoundTrip.packetLen_pos _ p ⟨lens, e⟩, by omega, hl.2⟩
  · rw [hwalk, toLogical_l2p]
    simp only [List.nil_append, Option.orElse]
  · intro hne
    apply physOk_l2p _ _ hc.hd
    cases packets with
    | nil => exact absurd rfl hne
    | cons p ps =>
      have := pkts_length_ge4 _ (p :: ps) (List.replicate (specTypes proto).length 0) hpok
      have e : (Layout.pktsBytes (Layout.streamsOf (specTypes proto) (specPoints pts)) (p :: ps)
        (List.replicate (specTypes proto).length 0)).length + 32 = sl := hpl
      simp only [List.length_cons] at this
      omega

/-! # Part 6 — blob sections -/

/-- **C02 / 6 — a blob section, judged by the decoder.**  After `blobWrite` at the 4-aligned logical
    offset `s`, in every complete stream `d` (file below 2^64 bytes) that still carries the section:
    the published offset is `l2p s`, inside the file and outside checksum bytes, the decoder
    translates it back to `s`; it reads section id 0, seven zero bytes, the section length
    `(16 + len + 3) / 4 * 4` it demands, and the `len` data bytes behind the 16-byte header are the
    blob.  (The alignment of `s` is only used for the decoder's alignment check.) -/
theorem blob_section_decoded (pw : PW) (data : Bytes) (hpw : pw.Inv) (pw' : PW) (b : BlobRef)
    (hw : blobWrite pw data = .ok (pw', b)) (d : Bytes)
    (hc : Carries d pw.abs.cur (BlobRT.blobBytes data)) :
    let s := pw.abs.cur
    b.offset = l2p s ∧ b.length = data.length ∧
    physOk (1024 * (d.length / 1020)) b.offset = true ∧ toLogical b.offset = s ∧
    u d s 1 = .ok 0 ∧ slice d (s + 1) 7 = .ok (zeros 7) ∧
    u d (s + 8) 8 = .ok ((16 + b.length + 3) / 4 * 4) ∧
    slice d (s + 16) b.length = .ok data ∧ (16 + b.length + 3) / 4 * 4 % 4 = 0 := by
  intro s
  obtain ⟨-, hb, -, -, -, -⟩ := BlobRT.blob_window pw data hpw pw' b hw
  subst hb
  have hl := BlobRT.blobBytes_length data
  have hne : BlobRT.blobBytes data ≠ [] := by
    intro e; rw [e] at hl; simp at hl; omega
  have hH := hc.holds hne
  have hin := hH.le
  rw [hl] at hin
  unfold BlobRT.blobBytes blobHeaderBytes at hH
  have hz : zeros 8 = [0] ++ zeros 7 := rfl
  rw [hz] at hH
  have h64 := hc.h64
  have hsl : BlobRT.secLen data.length < 2 ^ 64 := by unfold BlobRT.secLen; unfold l2p at h64; omega
  have a1 := u_holds hH.left.left.left 1 rfl
  have a2 := slice_holds (hH.left.left.right' (o' := s + 1) rfl) 7 (zeros_length _)
  have a3 := u_holds (hH.left.right' (o' := s + 8) (by simp [zeros_length, s])) 8 (toLE_length _ _)
  have a4 := slice_holds (hH.right' (o' := s + 16) (by simp [zeros_length, toLE_length, s])) data.length rfl
  rw [leVal_toLE, Nat.mod_eq_of_lt (by simpa using hsl)] at a3
  refine ⟨rfl, rfl, physOk_l2p _ _ hc.hd (by omega), toLogical_l2p _, a1, a2, a3, a4, by omega⟩

/-! # Part 7 — the finalized file -/

/-- a successfully finalized file below 2^64 bytes; the cursor was behind the 48-byte header -/
structure FinalFile (ft : FloatText) (e e' : EW) (tr : String → Option String) : Prop where
  hpw : e.pw.Inv
  h48 : 48 ≤ e.pw.abs.cur
  hfin : EW.finalize ft e tr = .ok e'
  h64 : e'.pw.dev.data.length < 2 ^ 64

/-- the file is the image of the logical stream; its length is `1024 *` the number of pages -/
theorem FinalFile.file {ft e e' tr} (F : FinalFile ft e e' tr) :
    e'.pw.dev.data = image e'.pw.abs.data ∧ e'.pw.abs.data.length % 1020 = 0 ∧
    e'.pw.dev.data.length = 1024 * (e'.pw.abs.data.length / 1020) ∧
    l2p e'.pw.abs.data.length < 2 ^ 64 := by
  obtain ⟨_, _, _, _, _, _, dv⟩ := finalize_shape ft e e' tr F.hpw F.hfin
  obtain ⟨-, -, p3, p4, -, -⟩ := finalized_pages_valid ft e e' tr F.hpw F.hfin
  refine ⟨dv, p4, p3, ?_⟩
  have := F.h64
  unfold l2p; omega

/-- every window behind the file header and in front of the cursor at `finalize` is carried by the
    finalized file's logical stream -/
theorem FinalFile.carries {ft e e' tr} (F : FinalFile ft e e' tr) (a : Nat) (W : Bytes) (h48 : 48 ≤ a)
    (hcur : a + W.length ≤ e.pw.abs.cur) (hwin : (e.pw.abs.data.drop a).take W.length = W) :
    Carries e'.pw.abs.data a W := by
  obtain ⟨_, k2, _, _⟩ := RoundTrip.close_keeps_window ft e e' tr F.hpw F.hfin a W.length h48 hcur
  obtain ⟨_, f2, _, f4⟩ := F.file
  exact ⟨f2, f4, by rw [k2, hwin]⟩

/-- **C02 — a point-cloud section in the finalized file passes every binary check of
    `Spec.decodeFile`** (the body of its `clouds` loop up to and including the packet walk), with
    `file := e'.pw.dev.data` and `d := e'.pw.abs.data` (= what `depageChecked` returns,
    `finalized_pages_valid`): the published `fileOffset` is inside the file and outside checksum bytes,
    the section is 4-aligned, id 1, reserved bytes zero, the section length a multiple of 4 and `≥ 32`,
    index offset 0, the walk consumes the section exactly; with packets the data offset is valid and
    points at the first data packet.  `hkept`/`hcur`: the section is still there when `finalize` is
    called (`later_section_keeps_window`, `blob_keeps_window` discharge this for what is written in
    between; `cloud_in_closed_file` is the case that nothing is). -/
theorem cloud_in_file {ft e e' tr} (F : FinalFile ft e e' tr)
    {pw pw2 : PW} {pc : PointCloud} {guid : String} {proto : Prototype}
    {pts : List (List Value)} {packets : List PacketSpec}
    (L : SectionLayout pw pw2 pc guid proto pts packets) (hal : pw.abs.cur % 4 = 0)
    (hi : ProtoI64 proto) (h48 : 48 ≤ pw.abs.cur)
    (hcur : pw.abs.cur + RoundTrip.sectionLen proto packets ≤ e.pw.abs.cur)
    (hkept : (e.pw.abs.data.drop pw.abs.cur).take (RoundTrip.sectionLen proto packets)
      = RoundTrip.sectionWindow pw pw2 proto packets) :
    let file := e'.pw.dev.data
    let d := e'.pw.abs.data
    let s := toLogical pc.fileOffset
    let sl := RoundTrip.sectionLen proto packets
    physOk file.length pc.fileOffset = true ∧ s = pw.abs.cur ∧ s % 4 = 0 ∧
    u d s 1 = .ok 1 ∧ slice d (s + 1) 7 = .ok (zeros 7) ∧ (zeros 7).all (· == 0) = true ∧
    u d (s + 8) 8 = .ok sl ∧ sl % 4 = 0 ∧ 32 ≤ sl ∧ s + sl ≤ d.length ∧
    sl = 32 + (packets.map (packetLen proto.length)).sum ∧
    (∀ p ∈ packets, 0 < packetLen proto.length p ∧ packetLen proto.length p ≤ 65536 ∧
      packetLen proto.length p % 4 = 0) ∧
    u d (s + 16) 8 = .ok (l2p (s + 32)) ∧ u d (s + 24) 8 = .ok 0 ∧
    walkPackets d proto.length (sl / 4 + 2) (s + 32) (s + sl) ⟨[], none⟩
      = .ok ⟨dataChunks (Layout.streamsOf (specTypes proto) (specPoints pts)) packets
               (List.replicate (specTypes proto).length 0),
             if packets = [] then none else some (toLogical (l2p (s + 32)))⟩ ∧
    (packets ≠ [] → physOk file.length (l2p (s + 32)) = true) ∧
    (packets = [] → pc.records = 0 ∨ pointBits proto = 0) := by
  intro file d s sl
  obtain ⟨hW, hWl, _⟩ := sectionWindow_eq L
  have hc : Carries d pw.abs.cur (RoundTrip.sectionWindow pw pw2 proto packets) :=
    F.carries _ _ h48 (by rw [hWl]; exact hcur) (by rw [hWl]; exact hkept)
  obtain ⟨f1, f2, f3, f4⟩ := F.file
  have hs : s = pw.abs.cur := by show toLogical pc.fileOffset = _; rw [L.fileOffset, toLogical_l2p]
  obtain ⟨c1, c2, c3, c4, c5, c6, c7, c8, c9, c10, c11, c12⟩ := section_consistent L hal d hc
  rw [← hs] at c4 c6 c7 c8 c9 c10 c11 c12
  have hfl : file.length = 1024 * (d.length / 1020) := f3
  refine ⟨?_, hs, by rw [hs]; exact hal, c6, c7, by decide, c8, c2, c3, c4, c1, c5, c9, c10, c11, ?_, ?_⟩
  · rw [hfl, L.fileOffset]
    exact physOk_l2p _ _ f2 (by omega)
  · rw [hfl]; exact c12
  · intro hp
    subst hp
    rcases RoundTrip.no_packets_cases pw pw2 pc guid proto pts L hi with h | h
    · left; rw [L.records, h]; rfl
    · exact .inr h

/-- the section is the last thing written before `finalize` -/
theorem cloud_in_closed_file {ft e e' tr} (F : FinalFile ft e e' tr)
    {pw pw2 : PW} {pc : PointCloud} {guid : String} {proto : Prototype}
    {pts : List (List Value)} {packets : List PacketSpec}
    (L : SectionLayout pw pw2 pc guid proto pts packets) (hal : pw.abs.cur % 4 = 0)
    (hi : ProtoI64 proto) (h48 : 48 ≤ pw.abs.cur) (he : e.pw = pw2) :
    let file := e'.pw.dev.data
    let d := e'.pw.abs.data
    let s := toLogical pc.fileOffset
    let sl := RoundTrip.sectionLen proto packets
    physOk file.length pc.fileOffset = true ∧ s = pw.abs.cur ∧ s % 4 = 0 ∧
    u d s 1 = .ok 1 ∧ slice d (s + 1) 7 = .ok (zeros 7) ∧ (zeros 7).all (· == 0) = true ∧
    u d (s + 8) 8 = .ok sl ∧ sl % 4 = 0 ∧ 32 ≤ sl ∧ s + sl ≤ d.length ∧
    sl = 32 + (packets.map (packetLen proto.length)).sum ∧
    (∀ p ∈ packets, 0 < packetLen proto.length p ∧ packetLen proto.length p ≤ 65536 ∧
      packetLen proto.length p % 4 = 0) ∧
    u d (s + 16) 8 = .ok (l2p (s + 32)) ∧ u d (s + 24) 8 = .ok 0 ∧
    walkPackets d proto.length (sl / 4 + 2) (s + 32) (s + sl) ⟨[], none⟩
      = .ok ⟨dataChunks (Layout.streamsOf (specTypes proto) (specPoints pts)) packets
               (List.replicate (specTypes proto).length 0),
             if packets = [] then none else some (toLogical (l2p (s + 32)))⟩ ∧
    (packets ≠ [] → physOk file.length (l2p (s + 32)) = true) ∧
    (packets = [] → pc.records = 0 ∨ pointBits proto = 0) := by
  subst he
  refine cloud_in_file F L hal hi h48 ?_ rfl
  rw [L.cursor]; unfold RoundTrip.sectionLen; omega

/-- **C02 — a blob section in the finalized file passes every check of `Spec.decodeFile`'s blob
    loop**, and the bytes the decoder extracts are the blob.  `hkept`/`hcur` as in `cloud_in_file`;
    `blob_in_closed_file`: the blob is the last thing written. -/
theorem blob_in_file {ft e e' tr} (F : FinalFile ft e e' tr)
    (pw : PW) (data : Bytes) (hpw : pw.Inv) (pw' : PW) (b : BlobRef)
    (hw : blobWrite pw data = .ok (pw', b)) (hal : pw.abs.cur % 4 = 0) (h48 : 48 ≤ pw.abs.cur)
    (hcur : pw.abs.cur + (16 + data.length) ≤ e.pw.abs.cur)
    (hkept : (e.pw.abs.data.drop pw.abs.cur).take (16 + data.length) = BlobRT.blobBytes data) :
    let file := e'.pw.dev.data
    let d := e'.pw.abs.data
    let s := toLogical b.offset
    physOk file.length b.offset = true ∧ s = pw.abs.cur ∧ s % 4 = 0 ∧
    u d s 1 = .ok 0 ∧ slice d (s + 1) 7 = .ok (zeros 7) ∧ (zeros 7).all (· == 0) = true ∧
    u d (s + 8) 8 = .ok ((16 + b.length + 3) / 4 * 4) ∧
    slice d (s + 16) b.length = .ok data := by
  intro file d s
  have hl := BlobRT.blobBytes_length data
  have hc : Carries d pw.abs.cur (BlobRT.blobBytes data) :=
    F.carries _ _ h48 (by rw [hl]; exact hcur) (by rw [hl]; exact hkept)
  obtain ⟨f1, f2, f3, f4⟩ := F.file
  obtain ⟨b1, b2, b3, b4, b5, b6, b7, b8, _⟩ := blob_section_decoded pw data hpw pw' b hw d hc
  have hs : s = pw.abs.cur := b4
  have hfl : file.length = 1024 * (d.length / 1020) := f3
  rw [← hs] at b5 b6 b7 b8
  exact ⟨by rw [hfl]; exact b3, hs, by rw [hs]; exact hal, b5, b6, by decide, b7, b8⟩

theorem blob_in_closed_file {ft e e' tr} (F : FinalFile ft e e' tr)
    (pw : PW) (data : Bytes) (hpw : pw.Inv) (b : BlobRef)
    (hw : blobWrite pw data = .ok (e.pw, b)) (hal : pw.abs.cur % 4 = 0) (h48 : 48 ≤ pw.abs.cur) :
    let file := e'.pw.dev.data
    let d := e'.pw.abs.data
    let s := toLogical b.offset
    physOk file.length b.offset = true ∧ s = pw.abs.cur ∧ s % 4 = 0 ∧
    u d s 1 = .ok 0 ∧ slice d (s + 1) 7 = .ok (zeros 7) ∧ (zeros 7).all (· == 0) = true ∧
    u d (s + 8) 8 = .ok ((16 + b.length + 3) / 4 * 4) ∧
    slice d (s + 16) b.length = .ok data := by
  obtain ⟨w1, _, w3, _, _, _⟩ := BlobRT.blob_window pw data hpw e.pw b hw
  exact blob_in_file F pw data hpw e.pw b hw hal h48 (by omega) w1

/-! # Part 8 — the hypotheses are satisfiable -/

/-- how long the closed stream can get -/
theorem xmlEnd_length_le (s : LogStream) (X : Bytes) (h2 : s.cur ≤ s.data.length) :
    (xmlEnd s X).data.length ≤ max s.data.length ((s.cur + X.length + 3 + 1019) / 1020 * 1020) := by
  have w2 : (s.write X).cur ≤ (s.write X).data.length := by
    rw [spec_write_length _ _ h2, spec_write_cur]; omega
  unfold xmlEnd LogStream.align
  split
  · rw [spec_write_length _ _ w2, spec_write_length _ _ h2, spec_write_cur, zeros_length]
    omega
  · rw [spec_write_length _ _ h2]; omega

/-- `FinalFile` from a size bound on what is in the stream and on the XML -/
theorem finalFile_of_bound (ft : FloatText) (e e' : EW) (tr : String → Option String)
    (hpw : e.pw.Inv) (h48 : 48 ≤ e.pw.abs.cur) (hfin : EW.finalize ft e tr = .ok e')
    (hb : ∀ xml0 xml, serializeRoot ft e.root e.pcs e.imgs e.exts = some xml0 → tr xml0 = some xml →
      e.pw.abs.data.length + (utf8 xml).length < 2 ^ 63) :
    FinalFile ft e e' tr := by
  refine ⟨hpw, h48, hfin, ?_⟩
  obtain ⟨xml0, xml, hs, ht, inv', a, dv⟩ := finalize_shape ft e e' tr hpw hfin
  obtain ⟨w1, w2⟩ := abs_wf e.pw hpw
  obtain ⟨x1, x2, x3, x4, x5, x6, x7⟩ := xmlEnd_facts e.pw.abs (utf8 xml) w1 w2
  obtain ⟨c1, c2, c3, c4, c5⟩ := closed_facts e.pw.abs (utf8 xml) w1 w2
  have c4 := c4 (by omega)
  rw [← a] at c2 c4
  have hl := image_length e'.pw.abs.data c2
  have hle := xmlEnd_length_le e.pw.abs (utf8 xml) w2
  have := hb xml0 xml hs ht
  rw [dv, hl, c4]
  omega

namespace Ex
open LayoutEx

/-- **non-vacuity**: the concrete session `LayoutEx` (3 records, 2 points, section header straddling
    the page boundary at 1020), closed by `EW.finalize` with a transformer that replaces the XML by
    `"x"` (hypothesis: the float texts `ft` prints are made of characters XML can carry, so that `finalize` does not
    refuse the document): `FinalFile` and `SectionLayout` hold, so `finalized_pages_valid`, `finalized_header_decoded`
    and `cloud_in_closed_file` apply; in particular the decoder's packet walk succeeds on the file. -/
theorem final_instance (ft : FloatText)
    (hchars : ∀ pw2 pc, LayoutEx.run = some (pw2, pc) → ∀ x,
      serializeRoot ft { guid := "g" } [pc] [] [] = some x → x.toList.all xmlChar = true) :
    ∃ (e e' : EW) (pw2 : PW) (pc : PointCloud),
      FinalFile ft e e' (fun _ => some "x") ∧ e.pw = pw2 ∧
      SectionLayout base pw2 pc "g" proto pts (emitted base [] "g" proto pts) ∧
      base.abs.cur % 4 = 0 ∧ 48 ≤ base.abs.cur ∧
      depageChecked (e'.pw.dev.data.length / 1024 + 1) e'.pw.dev.data 0 [] = .ok e'.pw.abs.data ∧
      (∃ pwk, walkPackets e'.pw.abs.data 3 (72 / 4 + 2) 1032 1072 ⟨[], none⟩ = .ok pwk ∧
        pwk.firstData = some 1032) := by
  obtain ⟨hinv, hcur⟩ := base_ok
  have hn := new_isOk
  cases h0 : PcW.new base [] "g" proto with
  | err e => rw [h0] at hn; cases hn
  | panic e => rw [h0] at hn; cases hn
  | ok st0 =>
  obtain ⟨pw0, w0'⟩ := st0
  obtain ⟨pw1, w1, pw2, w2, pc, e1, e2, L⟩ := writer_layout_legal base [] "g" proto hinv
    (by rw [hcur]) proto_i64 (by unfold NoDupNames; decide) pw0 w0' h0 pts (by decide)
  have hrun : LayoutEx.run = some (pw2, pc) := by
    unfold LayoutEx.run
    rw [h0]; dsimp only
    rw [e1]; dsimp only
    rw [e2]
  let e : EW := ⟨pw2, [pc], [], [], { guid := "g" }⟩
  have hser : ∃ x, serializeRoot ft e.root e.pcs e.imgs e.exts = some x := by
    unfold serializeRoot
    rw [if_neg (show ¬ ("g".isEmpty = true) by decide)]
    exact ⟨_, rfl⟩
  obtain ⟨x, hx⟩ := hser
  obtain ⟨e', hfin⟩ := BlobRT.finalize_ok ft e (fun _ => some "x") L.inv x "x" hx (hchars pw2 pc hrun x hx) rfl
    (by decide +kernel)
  have h48 : 48 ≤ e.pw.abs.cur := by
    show 48 ≤ pw2.abs.cur; rw [L.cursor, hcur]; omega
  have hlen : pw2.abs.data.length = 2040 := by
    have hl := RoundTrip.Ex.run_len
    rw [hrun] at hl
    simpa using hl
  have hx1 : (utf8 "x").length = 1 := by decide +kernel
  have F : FinalFile ft e e' (fun _ => some "x") := by
    refine finalFile_of_bound ft e e' _ L.inv h48 hfin ?_
    intro xml0 xml _ ht
    injection ht with ht
    subst ht
    show pw2.abs.data.length + (utf8 "x").length < 2 ^ 63
    rw [hlen, hx1]; decide
  have hsl : RoundTrip.sectionLen proto (emitted base [] "g" proto pts) = 72 := RoundTrip.Ex.len_eq
  obtain ⟨c1, c2, c3, c4, c5, c6, c7, c8, c9, c10, c11, c12, c13, c14, c15, c16, c17⟩ :=
    cloud_in_closed_file F L (by rw [hcur]) proto_i64 (by rw [hcur]; omega) rfl
  refine ⟨e, e', pw2, pc, F, rfl, L, by rw [hcur], by rw [hcur]; omega,
    (finalized_pages_valid ft e e' _ L.inv hfin).2.2.2.2.2, ?_⟩
  rw [c2, hsl, hcur] at c15
  have hpl : proto.length = 3 := rfl
  rw [hpl] at c15
  refine ⟨_, c15, ?_⟩
  have hne : emitted base [] "g" proto pts ≠ [] := by
    intro h
    rw [h] at hsl
    simp [RoundTrip.sectionLen] at hsl
  simp only [if_neg hne, toLogical_l2p]

end Ex

/-! # Part 9 — the byte streams the decoder collects, and their decoding -/

/-- column `i` of a list of chunk lists: what the decoder concatenates into byte stream `i` -/
def colOf (i : Nat) (cks : List (List Bytes)) : Bytes := (cks.map (fun cs => cs.getD i [])).flatten

theorem chunks_getD' (streams : List Bytes) (c lens : List Nat) (i : Nat) (h : i < streams.length) :
    (Layout.chunks streams c lens).getD i [] =
      ((streams.getD i []).drop (c.getD i 0)).take (lens.getD i 0) := by
  unfold Layout.chunks
  rw [Layout.getD_map_range _ _ _ _ h]

theorem nextCursors_getD' (streams : List Bytes) (c lens : List Nat) (i : Nat) (h : i < streams.length) :
    (Layout.nextCursors streams c (.data lens)).getD i 0 =
      c.getD i 0 + ((Layout.chunks streams c lens).getD i []).length := by
  unfold Layout.nextCursors
  rw [Layout.getD_map_range _ _ _ _ h]

/-- the chunks of stream `i` carried by the data packets, followed by what the encoder has not yet
    emitted, are the rest of the stream behind the cursor -/
theorem col_dataChunks (streams : List Bytes) (i : Nat) (h : i < streams.length) :
    ∀ (ps : List PacketSpec) (c : List Nat),
    colOf i (dataChunks streams ps c)
        ++ (streams.getD i []).drop ((Layout.finalCursors streams ps c).getD i 0)
      = (streams.getD i []).drop (c.getD i 0)
  | [], c => by simp [colOf, dataChunks, Layout.finalCursors]
  | .data lens :: ps, c => by
    have ih := col_dataChunks streams i h ps (Layout.nextCursors streams c (.data lens))
    simp only [dataChunks, colOf, List.map_cons, List.flatten_cons, Layout.finalCursors,
      List.append_assoc] at ih ⊢
    rw [ih, nextCursors_getD' _ _ _ _ h, chunks_getD' _ _ _ _ h, ← List.drop_drop]
    generalize (streams.getD i []).drop (c.getD i 0) = X
    conv => lhs; arg 1; rw [take_eq_take_length]
    exact List.take_append_drop _ _
  | .index _ :: ps, c => by
    simpa [dataChunks, Layout.finalCursors, Layout.nextCursors] using col_dataChunks streams i h ps c
  | .ignored _ :: ps, c => by
    simpa [dataChunks, Layout.finalCursors, Layout.nextCursors] using col_dataChunks streams i h ps c

/-- **the decoder reassembles the complete byte stream of every record**: for a layout whose chunk
    lengths add up to the stream lengths (`Layout.Legal`, clause 5; for the writer `LegalPackets.sums`) -/
theorem collected_streams (types : List RecType) (points : List (List Int)) (packets : List PacketSpec)
    (hsum : ∀ i, i < types.length →
      Layout.chunkTotal i packets = (recordStream types points i).length)
    (i : Nat) (hi : i < types.length) :
    colOf i (dataChunks (Layout.streamsOf types points) packets (List.replicate types.length 0))
      = recordStream types points i := by
  have hsl := Layout.streamsOf_length types points
  have h := col_dataChunks (Layout.streamsOf types points) i (by rw [hsl]; exact hi) packets
    (List.replicate types.length 0)
  have hfin := Layout.final_of_sum (types := types) (points := points) packets
    (List.replicate types.length 0) (by simp)
    (by intro j hj; rw [hsum j hj]; simp [List.getD_eq_getElem?_getD, hj]) i hi
  rw [hfin, Layout.streamsOf_getD _ _ _ hi] at h
  have h0 : (List.replicate types.length 0).getD i 0 = 0 := by simp [List.getD_eq_getElem?_getD, hi]
  rw [h0, List.drop_zero, List.drop_eq_nil_of_le (Nat.le_refl _), List.append_nil] at h
  exact h

/-- the decoder's record type for a specification record type (`scaled`: ScaledInteger or Integer) -/
def toRType (scaled : Bool) : RecType → RType
  | .f32 => .f32
  | .f64 => .f64
  | .int mn mx => .int mn mx scaled

theorem toRType_bits (sc : Bool) (t : RecType) : (toRType sc t).bits = t.bits := by
  cases t <;> rfl

/-- the decoder's text for a raw field value -/
def render (t : RType) (raw : Nat) : String :=
  match t with
  | .f32 => s!"f{raw}"
  | .f64 => s!"d{raw}"
  | .int mn _ scaled => (if scaled then "s" else "i") ++ toString ((raw : Int) + mn)

/-- **C02 / 5 — decoding a complete record stream**: `Spec.decodeStream` accepts the byte stream of
    record `i` (both length checks) and returns, point by point, the stored field: the float bit
    pattern, or `value - minimum` re-based by the decoder to the value -/
theorem decodeStream_recordStream (types : List RecType) (points : List (List Int)) (i : Nat)
    (t : RecType) (ht : types[i]? = some t) (sc : Bool) :
    decodeStream (toRType sc t) (recordStream types points i) points.length
      = .ok (points.map (fun p => render (toRType sc t) (t.field (p.getD i 0) % 2 ^ t.bits))) := by
  have hrs : recordStream types points i
      = streamBytes ((points.map (fun p => t.field (p.getD i 0))).map (fun v => (v, t.bits))) := by
    simp only [recordStream, ht, List.map_map, Function.comp_def]
  generalize hvs : points.map (fun p => t.field (p.getD i 0)) = vs at hrs
  have hvl : vs.length = points.length := by rw [← hvs]; simp
  have hw := pack_width t.bits vs
  have hlt := pack_lt (vs.map (fun v => (v, t.bits)))
  have hlen : (recordStream types points i).length = (points.length * t.bits + 7) / 8 := by
    rw [hrs, streamBytes, toLE_length, hw, hvl]
  have hval : leVal (recordStream types points i) = (pack (vs.map (fun v => (v, t.bits)))).1 := by
    rw [hrs, streamBytes, leVal_toLE]
    apply Nat.mod_eq_of_lt
    refine Nat.lt_of_lt_of_le hlt (Nat.pow_le_pow_right (by omega) ?_)
    omega
  unfold decodeStream
  simp only [toRType_bits, hlen, hval]
  rw [show need (decide (points.length * t.bits ≤ 8 * ((points.length * t.bits + 7) / 8))) _ = .ok () from by
    unfold need; rw [if_pos (by rw [decide_eq_true_eq]; omega)]; rfl]
  rw [show need (decide (8 * ((points.length * t.bits + 7) / 8) < points.length * t.bits + 8 + 8 * 3) || t.bits == 0) _
      = .ok () from by
    unfold need; rw [if_pos (by rw [Bool.or_eq_true, decide_eq_true_eq]; left; omega)]; rfl]
  show Except.ok _ = _
  congr 1
  apply List.ext_getElem
  · simp
  · intro k h1 h2
    have hk : k < points.length := by simpa using h2
    simp only [List.getElem_map, List.getElem_range]
    have hf := field_pack t.bits vs k (by rw [hvl]; exact hk)
    unfold field at hf
    rw [hf]
    have : vs[k]'(by rw [hvl]; exact hk) = t.field (points[k].getD i 0) := by
      subst hvs; simp
    rw [this]
    cases t <;> rfl

/-- the decoder's text of a raw value: `f`/`d` + bit pattern, `i`/`s` + integer -/
def valueText (scaled : Bool) (t : RecType) (v : Int) : String :=
  match t with
  | .f32 => s!"f{v.toNat}"
  | .f64 => s!"d{v.toNat}"
  | .int _ _ => (if scaled then "s" else "i") ++ toString v

theorem render_field (sc : Bool) (t : RecType) (v : Int) (hok : Layout.TypeOk t) (hv : Layout.ValOk t v) :
    render (toRType sc t) (t.field v % 2 ^ t.bits) = valueText sc t v := by
  rw [Nat.mod_eq_of_lt (Layout.field_lt hok v hv)]
  cases t with
  | f32 => rfl
  | f64 => rfl
  | int mn mx =>
    obtain ⟨v1, _⟩ := hv
    simp only [toRType, render, valueText, RecType.field]
    congr 2
    omega

/-- **C02 / 5 — the decoder recovers the points of every legal layout**: from the chunks its packet
    walk collects (`walk_pkts`), stream by stream, `decodeStream` returns the column of values of
    that record, in point order -/
theorem decode_legal_section (types : List RecType) (points : List (List Int)) (packets : List PacketSpec)
    (hL : Layout.Legal types points packets) (sc : Bool) (i : Nat) (hi : i < types.length) :
    decodeStream (toRType sc types[i])
        (colOf i (dataChunks (Layout.streamsOf types points) packets (List.replicate types.length 0)))
        points.length
      = .ok (points.map (fun p => valueText sc types[i] (p.getD i 0))) := by
  obtain ⟨_, tok, vok, _, hsum⟩ := hL
  rw [collected_streams types points packets hsum i hi,
    decodeStream_recordStream types points i types[i] (List.getElem?_eq_getElem hi) sc]
  congr 1
  apply List.map_congr_left
  intro p hp
  exact render_field sc _ _ (tok i hi) ((vok p hp).2 i hi)

/-- **C02 / 5 for the writer** (`decode_section_points`): for the section a session leaves
    (`SectionLayout`), prototype accepted by `new`, points that fit it — the decoder's packet walk
    collects chunks from which `decodeStream` returns, for record `i`, the raw values of the points
    added, in order: float bit patterns, integers as added -/
theorem decode_section_points {pw pw2 : PW} {pc : PointCloud} {guid : String} {proto : Prototype}
    {pts : List (List Value)} {packets : List PacketSpec}
    (L : SectionLayout pw pw2 pc guid proto pts packets)
    (hv : validatePrototype proto = true) (hi : ProtoI64 proto)
    (hpts : ∀ pt ∈ pts, pt.length = proto.length ∧ checkValues proto pt = true)
    (sc : Bool) (i : Nat) (h : i < proto.length) :
    decodeStream (toRType sc (toRecType proto[i].dt))
        (colOf i (dataChunks (Layout.streamsOf (specTypes proto) (specPoints pts)) packets
          (List.replicate (specTypes proto).length 0)))
        pts.length
      = .ok (pts.map (fun p => valueText sc (toRecType proto[i].dt) (rawOf (p.getD i (.integer 0))))) := by
  have hL := RoundTrip.legal_bridge proto pts packets hv hi hpts L.legal
  have hn : (specTypes proto).length = proto.length := by simp [specTypes]
  have := decode_legal_section _ _ _ hL sc i (by rw [hn]; exact h)
  have e1 : (specTypes proto)[i]'(by rw [hn]; exact h) = toRecType proto[i].dt := by simp [specTypes]
  have e2 : (specPoints pts).length = pts.length := by simp [specPoints]
  rw [e1, e2] at this
  rw [this]
  congr 1
  simp only [specPoints, List.map_map]
  apply List.map_congr_left
  intro p hp
  have hl := (hpts p hp).1
  have hip : i < p.length := by rw [hl]; exact h
  simp [Function.comp, List.getD_eq_getElem?_getD, hip]

/-! # Part 10 — what cannot be dropped -/

theorem xmlEnd_nil (s : LogStream) (h1 : s.data.length % 1020 = 0) (h2 : s.cur ≤ s.data.length)
    (h4 : s.cur % 4 = 0) : xmlEnd s [] = s := by
  unfold xmlEnd
  rw [spec_write_nil s h1 h2]
  unfold LogStream.align
  rw [if_neg (by omega)]

theorem closed_length (s : LogStream) (X : Bytes) :
    (closedStream s X).data.length = max (xmlEnd s X).data.length 1020 := by
  unfold closedStream
  simp only []
  rw [spec_write_length _ _ (Nat.zero_le _), RoundTrip.fileHeader_length]
  simp only []

set_option maxRecDepth 100000 in
/-- the document of an otherwise empty file with GUID "g" consists of characters XML can carry (evaluated) -/
theorem gDoc_chars_all :
    (serializeRoot (⟨[], []⟩ : FloatText) { guid := "g" } [] [] []).all (fun x => x.toList.all xmlChar) = true := by
  decide +kernel

theorem gDoc_chars (x : String) (hx : serializeRoot (⟨[], []⟩ : FloatText) { guid := "g" } [] [] [] = some x) :
    x.toList.all xmlChar = true := by
  have h := gDoc_chars_all
  rw [hx] at h
  exact h

/-- `finalized_header_decoded` without `48 ≤ cursor`: "the header states the true file length" -/
def finalized_header_statement : Prop :=
  ∀ (ft : FloatText) (e e' : EW) (tr : String → Option String), e.pw.Inv →
    EW.finalize ft e tr = .ok e' → e'.pw.dev.data.length < 2 ^ 64 →
    leVal ((e'.pw.dev.data.drop 16).take 8) = e'.pw.dev.data.length

/-- **the hypothesis `48 ≤ cursor` of the header theorems is necessary** (model level): `finalize` on
    a page writer on which nothing was written yet (not even the header placeholder of `EW.new`), with
    a transformer returning the empty document, queries the physical size (0) BEFORE it writes the
    48-byte header, which then creates the first page: the header says 0, the file has 1024 bytes.
    `E57Writer::new` always writes the placeholder first, so this state is not reachable through
    the crate's API; the theorem documents why the model-level statement needs the hypothesis. -/
theorem finalized_header_statement_false : ¬ finalized_header_statement := by
  intro hst
  let e : EW := ⟨w0, [], [], [], { guid := "g" }⟩
  have hinv : e.pw.Inv := w0_inv
  have hser : ∃ x, serializeRoot (⟨[], []⟩ : FloatText) e.root e.pcs e.imgs e.exts = some x := by
    unfold serializeRoot
    rw [if_neg (show ¬ ("g".isEmpty = true) by decide)]
    exact ⟨_, rfl⟩
  obtain ⟨x, hx⟩ := hser
  obtain ⟨e', hfin⟩ := BlobRT.finalize_ok ⟨[], []⟩ e (fun _ => some "") hinv x "" hx (gDoc_chars x hx) rfl
    (by decide +kernel)
  obtain ⟨xml0, xml, _, ht, inv', a, dv⟩ := finalize_shape _ e e' _ hinv hfin
  injection ht with ht
  subst ht
  have hu : utf8 "" = [] := by decide +kernel
  have habs : e.pw.abs = LogStream.init := by show w0.abs = _; rw [w0_rep.abs_eq]; rfl
  rw [hu, habs] at a
  have hxe : xmlEnd LogStream.init [] = LogStream.init := by
    exact xmlEnd_nil _ rfl (Nat.le_refl _) rfl
  obtain ⟨c1, c2, c3, -, -⟩ := closed_facts LogStream.init [] (by rfl) (Nat.le_refl _)
  rw [hxe] at c1
  have hlen : (closedStream LogStream.init []).data.length = 1020 := by
    rw [closed_length, hxe]; rfl
  rw [← a] at c1 c2 c3 hlen
  have hl := image_length e'.pw.abs.data c2
  rw [hlen] at hl
  have hdl : e'.pw.dev.data.length = 1024 := by rw [dv, hl]
  have h := hst _ e e' _ hinv hfin (by rw [hdl]; decide)
  have htake : e'.pw.dev.data.take 48 = fileHeaderBytes 0 0 0 := by
    rw [dv, image_take _ c2 c3 48 (by omega), c1]
    rfl
  obtain ⟨_, _, _, f4, _⟩ := header_fields _ 0 0 0 htake (by decide) (by decide) (by decide)
  rw [f4, hdl] at h
  cases h

/-- `finalized_header_true` with `physOk` of the XML offset claimed also for an empty XML -/
def xml_offset_statement : Prop :=
  ∀ (ft : FloatText) (e e' : EW) (tr : String → Option String), e.pw.Inv → 48 ≤ e.pw.abs.cur →
    EW.finalize ft e tr = .ok e' → physOk e'.pw.dev.data.length (l2p e.pw.abs.cur) = true

/-- a page writer with exactly one full page written: the cursor is at the end of the stream -/
def fullPage : PW := match w0.writeAll (zeros 1020) with | .ok p => p | _ => w0

theorem fullPage_ok : fullPage.Inv ∧ fullPage.abs.cur = 1020 ∧ fullPage.abs.data.length = 1020 := by
  obtain ⟨p, e, i, a⟩ := pw_writeAll w0 (zeros 1020) w0_inv
  have hb : fullPage = p := by unfold fullPage; rw [e]
  rw [hb]
  have h0 : w0.abs = LogStream.init := by rw [w0_rep.abs_eq]; rfl
  refine ⟨i, ?_, ?_⟩
  · rw [a, spec_write_cur, zeros_length, h0]; rfl
  · rw [a, spec_write_length _ _ (by rw [h0]; exact Nat.le_refl _), zeros_length, h0]; rfl

/-- **`0 < |xml|` is needed for `physOk` of the XML offset** (model level): cursor at the very end of
    the stream (one full page) and a transformer that returns the empty document — the header then
    publishes XML offset 1024 = file length, which the decoder rejects.  `serializeRoot` never
    returns an empty document; only a caller's transformer can. -/
theorem xml_offset_statement_false : ¬ xml_offset_statement := by
  intro hst
  obtain ⟨hinv, hcur, hlen⟩ := fullPage_ok
  generalize fullPage = P at hinv hcur hlen
  let e : EW := ⟨P, [], [], [], { guid := "g" }⟩
  have hser : ∃ x, serializeRoot (⟨[], []⟩ : FloatText) e.root e.pcs e.imgs e.exts = some x := by
    unfold serializeRoot
    rw [if_neg (show ¬ ("g".isEmpty = true) by decide)]
    exact ⟨_, rfl⟩
  obtain ⟨x, hx⟩ := hser
  obtain ⟨e', hfin⟩ := BlobRT.finalize_ok ⟨[], []⟩ e (fun _ => some "") hinv x "" hx (gDoc_chars x hx) rfl
    (by decide +kernel)
  have h := hst _ e e' _ hinv (by show 48 ≤ P.abs.cur; omega) hfin
  obtain ⟨xml0, xml, _, ht, inv', a, dv⟩ := finalize_shape _ e e' _ hinv hfin
  injection ht with ht
  subst ht
  have hu : utf8 "" = [] := by decide +kernel
  rw [hu] at a
  have hxe : xmlEnd e.pw.abs [] = e.pw.abs :=
    xmlEnd_nil _ (by show P.abs.data.length % 1020 = 0; omega)
      (by show P.abs.cur ≤ P.abs.data.length; omega)
      (by show P.abs.cur % 4 = 0; omega)
  have hl : e'.pw.abs.data.length = 1020 := by
    rw [a, closed_length, hxe]
    show max P.abs.data.length 1020 = 1020
    omega
  have hdl : e'.pw.dev.data.length = 1024 := by
    rw [dv, image_length _ (by omega), hl]
  have hc : e.pw.abs.cur = 1020 := hcur
  rw [hdl, hc] at h
  revert h
  decide

/-! # Part 11 — the checks of `Spec.decodeFile`, bundled, and the capstone -/

/-- `decodeFile`, lines "file size" and "depage": whole pages, all checksums valid, `d` is the result -/
def PagesOk (file d : Bytes) : Prop :=
  (file.length > 0 ∧ file.length % 1024 = 0) ∧
  depageChecked (file.length / 1024 + 1) file 0 [] = .ok d

/-- `decodeFile`, the header block: every `need` passes and the XML slice is `xml` -/
def HeaderOk (file d xml : Bytes) : Prop :=
  file.take 8 = utf8 "ASTM-E57" ∧
  (leVal ((file.drop 8).take 4) = 1 ∧ leVal ((file.drop 12).take 4) = 0) ∧
  leVal ((file.drop 40).take 8) = 1024 ∧
  leVal ((file.drop 16).take 8) = file.length ∧
  physOk file.length (leVal ((file.drop 24).take 8)) = true ∧
  slice d (toLogical (leVal ((file.drop 24).take 8))) (leVal ((file.drop 32).take 8)) = .ok xml

/-- `decodeFile`, the body of the `clouds` loop for one `PointsRef` up to the packet walk: every
    `need` passes; `chunks` is what the walk collects for `n` records -/
def CloudOk (file d : Bytes) (fileOffset recordCount n : Nat) (allZeroWidth : Prop)
    (chunks : List (List Bytes)) : Prop :=
  physOk file.length fileOffset = true ∧
  (toLogical fileOffset) % 4 = 0 ∧
  u d (toLogical fileOffset) 1 = .ok 1 ∧
  (∃ r, slice d (toLogical fileOffset + 1) 7 = .ok r ∧ r.all (· == 0) = true) ∧
  ∃ sl dataOff indexOff pk,
    u d (toLogical fileOffset + 8) 8 = .ok sl ∧ u d (toLogical fileOffset + 16) 8 = .ok dataOff ∧
    u d (toLogical fileOffset + 24) 8 = .ok indexOff ∧
    (sl % 4 = 0 ∧ sl ≥ 32) ∧ (indexOff = 0 ∨ physOk file.length indexOff = true) ∧
    walkPackets d n (sl / 4 + 2) (toLogical fileOffset + 32) (toLogical fileOffset + sl) ⟨[], none⟩ = .ok pk ∧
    pk.chunks = chunks ∧
    (pk.chunks.isEmpty = true → recordCount = 0 ∨ allZeroWidth) ∧
    (pk.chunks.isEmpty = false →
      physOk file.length dataOff = true ∧ pk.firstData = some (toLogical dataOff))

/-- `decodeFile`, the body of the `blobs` loop: every `need` passes and the extracted bytes are `data` -/
def BlobOk (file d : Bytes) (off len : Nat) (data : Bytes) : Prop :=
  physOk file.length off = true ∧ (toLogical off) % 4 = 0 ∧ u d (toLogical off) 1 = .ok 0 ∧
  (∃ r, slice d (toLogical off + 1) 7 = .ok r ∧ r.all (· == 0) = true) ∧
  (∃ sl, u d (toLogical off + 8) 8 = .ok sl ∧ sl = (16 + len + 3) / 4 * 4) ∧
  slice d (toLogical off + 16) len = .ok data

theorem pagesOk_of_final {ft e e' tr} (F : FinalFile ft e e' tr) :
    PagesOk e'.pw.dev.data e'.pw.abs.data := by
  obtain ⟨p1, p2, _, _, _, p6⟩ := finalized_pages_valid ft e e' tr F.hpw F.hfin
  exact ⟨⟨p2, p1⟩, p6⟩

theorem headerOk_of_final {ft e e' tr} (F : FinalFile ft e e' tr) :
    ∃ xml0 xml, serializeRoot ft e.root e.pcs e.imgs e.exts = some xml0 ∧ tr xml0 = some xml ∧
      (0 < (utf8 xml).length → HeaderOk e'.pw.dev.data e'.pw.abs.data (utf8 xml)) := by
  obtain ⟨xml0, xml, hs, ht, f1, f2, f3, f4, f5, f6, f7, f8, f9⟩ :=
    finalized_header_decoded ft e e' tr F.hpw F.h48 F.hfin F.h64
  exact ⟨xml0, xml, hs, ht, fun hX => ⟨f1, ⟨f2, f3⟩, f7, f4, f8 hX, f9⟩⟩

theorem cloudOk_of_final {ft e e' tr} (F : FinalFile ft e e' tr)
    {pw pw2 : PW} {pc : PointCloud} {guid : String} {proto : Prototype}
    {pts : List (List Value)} {packets : List PacketSpec}
    (L : SectionLayout pw pw2 pc guid proto pts packets) (hal : pw.abs.cur % 4 = 0)
    (hi : ProtoI64 proto) (h48 : 48 ≤ pw.abs.cur)
    (hcur : pw.abs.cur + RoundTrip.sectionLen proto packets ≤ e.pw.abs.cur)
    (hkept : (e.pw.abs.data.drop pw.abs.cur).take (RoundTrip.sectionLen proto packets)
      = RoundTrip.sectionWindow pw pw2 proto packets) :
    CloudOk e'.pw.dev.data e'.pw.abs.data pc.fileOffset pc.records proto.length (pointBits proto = 0)
      (dataChunks (Layout.streamsOf (specTypes proto) (specPoints pts)) packets
        (List.replicate (specTypes proto).length 0)) := by
  obtain ⟨c1, c2, c3, c4, c5, c6, c7, c8, c9, c10, c11, c12, c13, c14, c15, c16, c17⟩ :=
    cloud_in_file F L hal hi h48 hcur hkept
  refine ⟨c1, c3, c4, ⟨_, c5, c6⟩, _, _, _, _, c7, c13, c14, ⟨c8, c9⟩, .inl rfl, c15, rfl, ?_, ?_⟩
  · intro hem
    apply c17
    cases packets with
    | nil => rfl
    | cons p ps =>
      obtain ⟨lens, rfl, _⟩ := L.legal.arity p (by simp)
      simp [dataChunks] at hem
  · intro hne
    have hp : packets ≠ [] := by
      intro h; subst h; simp [dataChunks] at hne
    refine ⟨c16 hp, ?_⟩
    simp only [if_neg hp, toLogical_l2p]

theorem blobOk_of_final {ft e e' tr} (F : FinalFile ft e e' tr)
    (pw : PW) (data : Bytes) (hpw : pw.Inv) (pw' : PW) (b : BlobRef)
    (hw : blobWrite pw data = .ok (pw', b)) (hal : pw.abs.cur % 4 = 0) (h48 : 48 ≤ pw.abs.cur)
    (hcur : pw.abs.cur + (16 + data.length) ≤ e.pw.abs.cur)
    (hkept : (e.pw.abs.data.drop pw.abs.cur).take (16 + data.length) = BlobRT.blobBytes data) :
    BlobOk e'.pw.dev.data e'.pw.abs.data b.offset b.length data := by
  obtain ⟨b1, b2, b3, b4, b5, b6, b7, b8⟩ := blob_in_file F pw data hpw pw' b hw hal h48 hcur hkept
  exact ⟨b1, b3, b4, ⟨_, b5, b6⟩, ⟨_, b7, rfl⟩, b8⟩

/-! # Part 12 — `Spec.decodeFile` itself -/

/-- the body of `decodeFile`'s loop over the compressed vectors (verbatim) -/
def cloudBody (file d : Bytes) (pr : PointsRef) : V (String × List (List String)) := do
    need (physOk file.length pr.fileOffset) s!"{pr.path}: fileOffset is outside the file or inside checksum bytes"
    let s := toLogical pr.fileOffset
    need (decide (s % 4 = 0)) s!"{pr.path}: section is not 4-byte aligned"
    need (decide ((← u d s 1) = 1)) s!"{pr.path}: section id is not 1 (compressed vector)"
    need ((← slice d (s + 1) 7).all (· == 0)) s!"{pr.path}: reserved header bytes are not zero"
    let sl ← u d (s + 8) 8
    let dataOff ← u d (s + 16) 8
    let indexOff ← u d (s + 24) 8
    need (decide (sl % 4 = 0 ∧ sl ≥ 32)) s!"{pr.path}: section length {sl} is not a multiple of 4 or below the header size"
    need (decide (indexOff = 0) || physOk file.length indexOff) s!"{pr.path}: index offset invalid"
    let types ← pr.prototype.mapM (fun (_, n) => recordType n)
    let pw ← walkPackets d types.length (sl / 4 + 2) (s + 32) (s + sl) ⟨[], none⟩
    if pw.chunks.isEmpty then
      need (decide (pr.recordCount = 0) || types.all (fun t => t.bits == 0)) s!"{pr.path}: no data packets for {pr.recordCount} records"
    else do
      need (physOk file.length dataOff) s!"{pr.path}: data offset is outside the file or inside checksum bytes"
      need (pw.firstData == some (toLogical dataOff)) s!"{pr.path}: data offset does not point at the first data packet"
    let streams := (List.range types.length).map (fun i => (pw.chunks.map (fun cs => cs.getD i [])).flatten)
    let cols ← (types.zip streams).mapM (fun (t, st) => decodeStream t st pr.recordCount)
    let pts := (List.range pr.recordCount).map (fun k => cols.map (fun c => c.getD k "?"))
    pure (pr.path, pts)

/-- the body of `decodeFile`'s loop over the blobs (verbatim) -/
def blobBody (file d : Bytes) : String × Nat × Nat → V (String × Bytes) := fun (p, off, len) => do
    need (physOk file.length off) s!"{p}: blob offset is outside the file or inside checksum bytes"
    let s := toLogical off
    need (decide (s % 4 = 0)) s!"{p}: blob section is not 4-byte aligned"
    need (decide ((← u d s 1) = 0)) s!"{p}: section id is not 0 (blob)"
    need ((← slice d (s + 1) 7).all (· == 0)) s!"{p}: reserved header bytes are not zero"
    let sl ← u d (s + 8) 8
    need (decide (sl = (16 + len + 3) / 4 * 4)) s!"{p}: section length {sl} is not header + {len} data bytes padded to 4"
    let data ← slice d (s + 16) len
    pure (p, data)

/-- `decodeFile` with the two loop bodies named (definitional) -/
theorem decodeFile_eq (file xmlRef : Bytes) (doc : XDoc) (fp : FloatParse) (extraBlobs : List (Nat × Nat)) :
    decodeFile file xmlRef doc fp extraBlobs = (do
      need (decide (file.length > 0 ∧ file.length % 1024 = 0)) "file size is not a whole number of 1024-byte pages"
      let d ← depageChecked (file.length / 1024 + 1) file 0 []
      need (file.take 8 = utf8 "ASTM-E57") "signature"
      need (leVal ((file.drop 8).take 4) = 1 ∧ leVal ((file.drop 12).take 4) = 0) "version is not 1.0"
      let physLength := leVal ((file.drop 16).take 8)
      let xmlOff := leVal ((file.drop 24).take 8)
      let xmlLen := leVal ((file.drop 32).take 8)
      need (decide (leVal ((file.drop 40).take 8) = 1024)) "page size is not 1024"
      need (decide (physLength = file.length)) s!"header file length {physLength} but the file has {file.length} bytes"
      need (physOk file.length xmlOff) "XML offset is outside the file or inside checksum bytes"
      let xml ← slice d (toLogical xmlOff) xmlLen
      need (xml == xmlRef) "XML section differs from the reference extraction"
      match doc.root with
      | XNode.elem ns _ name _ _ =>
        need (name == "e57Root" && ns == some e57Ns) "root element is not e57Root in the E57 namespace"
      | _ => throw "no root element"
      let declared := doc.rootNamespaces.map (·.2)
      let w ← walkNode fp declared "" doc.root {}
      let clouds ← w.points.reverse.mapM (cloudBody file d)
      let blobRefs := w.blobs.reverse ++ extraBlobs.map (fun ((o, l) : Nat × Nat) => (s!"direct@{o}", o, l))
      let blobs ← blobRefs.mapM (blobBody file d)
      pure ⟨w.leaves.reverse, clouds, blobs⟩) := rfl

theorem need_true (c : Bool) (msg : String) (h : c = true) : need c msg = .ok () := by
  unfold need; rw [if_pos h]; rfl

theorem ok_bind {α β} (a : α) (f : α → V β) : (Except.ok a >>= f) = f a := rfl

/-- `BlobOk` is exactly what the blob loop body checks -/
theorem blobBody_ok (file d : Bytes) (p : String) (off len : Nat) (data : Bytes)
    (h : BlobOk file d off len data) : blobBody file d (p, off, len) = .ok (p, data) := by
  obtain ⟨h1, h2, h3, ⟨r, h4, h5⟩, ⟨sl, h6, h7⟩, h8⟩ := h
  unfold blobBody
  simp only [need_true _ _ h1, need_true _ _ (decide_eq_true h2), h3, h4, h6, h8, ok_bind,
    need_true _ _ h5, need_true _ _ (decide_eq_true h7)]
  rfl

/-- the table of texts the decoder builds from the decoded columns -/
def pointTable (count : Nat) (cols : List (List String)) : List (List String) :=
  (List.range count).map (fun k => cols.map (fun c => c.getD k "?"))

/-- `CloudOk` (with the decoder's own record types) plus decodable columns is exactly what the
    compressed-vector loop body checks -/
theorem cloudBody_ok (file d : Bytes) (pr : PointsRef) (types : List RType) (chunks : List (List Bytes))
    (cols : List (List String))
    (ht : pr.prototype.mapM (fun (x : String × XNode) => recordType x.2) = .ok types)
    (h : CloudOk file d pr.fileOffset pr.recordCount types.length
      (types.all (fun t => t.bits == 0) = true) chunks)
    (hcols : (types.zip ((List.range types.length).map (fun i => colOf i chunks))).mapM
      (fun (x : RType × Bytes) => decodeStream x.1 x.2 pr.recordCount) = .ok cols) :
    cloudBody file d pr = .ok (pr.path, pointTable pr.recordCount cols) := by
  obtain ⟨h1, h2, h3, ⟨r, h4, h5⟩, sl, dataOff, indexOff, pk, h6, h7, h8, h9, h10, h11, h12, h13, h14⟩ := h
  have hidx : (decide (indexOff = 0) || physOk file.length indexOff) = true := by
    rcases h10 with h | h
    · simp [h]
    · simp [h]
  have ht' : pr.prototype.mapM (fun x => match x with | (_, n) => recordType n) = .ok types := ht
  have hcols' : (types.zip ((List.range types.length).map
      (fun i => (pk.chunks.map (fun cs => cs.getD i [])).flatten))).mapM
      (fun x => match x with | (t, st) => decodeStream t st pr.recordCount) = .ok cols := by
    rw [h12]; exact hcols
  unfold cloudBody
  simp only [need_true _ _ h1, need_true _ _ (decide_eq_true h2), h3, h4, h6, h7, h8, ok_bind,
    need_true _ _ h5, need_true _ _ (decide_eq_true h9), need_true _ _ hidx, ht', h11]
  cases hem : pk.chunks.isEmpty with
  | true =>
    have hz : (decide (pr.recordCount = 0) || types.all (fun t => t.bits == 0)) = true := by
      rcases h13 hem with h | h
      · simp [h]
      · simp [h]
    simp only [if_true, need_true _ _ hz, ok_bind, hcols']
    rfl
  | false =>
    obtain ⟨k1, k2⟩ := h14 hem
    have hfd : (pk.firstData == some (toLogical dataOff)) = true := by rw [k2]; simp
    simp only [Bool.false_eq_true, if_false, need_true _ _ k1, need_true _ _ hfd, ok_bind, hcols']
    rfl

/-- **`decodeFile` succeeds when its checks do**: pages, header, root element, the XML walk (external
    input: depends on the parsed document), every compressed vector and every blob -/
theorem decodeFile_ok (file d xmlRef : Bytes) (doc : XDoc) (fp : FloatParse) (extraBlobs : List (Nat × Nat))
    (w : Walk) (g : PointsRef → String × List (List String)) (hb : String × Nat × Nat → String × Bytes)
    (hP : PagesOk file d) (hH : HeaderOk file d xmlRef)
    (hroot : match doc.root with
      | XNode.elem ns _ name _ _ => (name == "e57Root" && ns == some e57Ns) = true
      | _ => False)
    (hw : walkNode fp (doc.rootNamespaces.map (·.2)) "" doc.root {} = .ok w)
    (hclouds : ∀ pr ∈ w.points.reverse, cloudBody file d pr = .ok (g pr))
    (hblobs : ∀ x ∈ w.blobs.reverse ++ extraBlobs.map (fun ((o, l) : Nat × Nat) => (s!"direct@{o}", o, l)),
      blobBody file d x = .ok (hb x)) :
    decodeFile file xmlRef doc fp extraBlobs
      = .ok ⟨w.leaves.reverse, w.points.reverse.map g,
          (w.blobs.reverse ++ extraBlobs.map (fun ((o, l) : Nat × Nat) => (s!"direct@{o}", o, l))).map hb⟩ := by
  obtain ⟨p1, p2⟩ := hP
  obtain ⟨a1, a2, a3, a4, a5, a6⟩ := hH
  rw [decodeFile_eq]
  have hxml : (xmlRef == xmlRef) = true := by simp
  simp only [need_true _ _ (decide_eq_true p1), p2, ok_bind, need_true _ _ (decide_eq_true a1),
    need_true _ _ (decide_eq_true a2), need_true _ _ (decide_eq_true a3),
    need_true _ _ (decide_eq_true a4), need_true _ _ a5, a6, need_true _ _ hxml, hw,
    mapM_ok _ g _ hclouds, mapM_ok _ hb _ hblobs]
  cases hr : doc.root with
  | elem ns pfx name attrs cs =>
    rw [hr] at hroot
    simp only [need_true _ _ hroot, ok_bind]
    rfl
  | text t => rw [hr] at hroot; exact absurd hroot id
  | comment => rw [hr] at hroot; exact absurd hroot id
  | pi => rw [hr] at hroot; exact absurd hroot id

/-! # Part 13 — capstone: `decodeFile` on a file the writer model closed -/

/-- the decoder's record type of a model data type -/
def decType : DataType → RType
  | .single _ _ => .f32
  | .double _ _ => .f64
  | .scaled mn mx _ _ => .int mn mx true
  | .integer mn mx => .int mn mx false

def isScaled : DataType → Bool
  | .scaled _ _ _ _ => true
  | _ => false

theorem decType_eq (dt : DataType) : decType dt = toRType (isScaled dt) (toRecType dt) := by
  cases dt <;> rfl

/-- the decoder's text of a point entry of record type `dt` -/
def entryText (dt : DataType) (v : Value) : String := valueText (isScaled dt) (toRecType dt) (rawOf v)

theorem CloudOk.mono {file d : Bytes} {fo rc n : Nat} {A B : Prop} {chunks : List (List Bytes)} (hAB : A → B)
    (h : CloudOk file d fo rc n A chunks) : CloudOk file d fo rc n B chunks := by
  obtain ⟨h1, h2, h3, h4, sl, dataOff, indexOff, pk, h6, h7, h8, h9, h10, h11, h12, h13, h14⟩ := h
  exact ⟨h1, h2, h3, h4, sl, dataOff, indexOff, pk, h6, h7, h8, h9, h10, h11, h12,
    fun hem => (h13 hem).imp id hAB, h14⟩

theorem mapM_ok_map {α β γ} (F : β → V γ) (a : α → β) (b : α → γ) : ∀ (l : List α),
    (∀ x ∈ l, F (a x) = .ok (b x)) → (l.map a).mapM F = .ok (l.map b)
  | [], _ => rfl
  | x :: l, h => by
    rw [List.map_cons, List.mapM_cons, h x (by simp), mapM_ok_map F a b l (fun y hy => h y (by simp [hy]))]
    rfl

theorem zip_map_range {α β} (l : List α) (dflt : α) (h : Nat → β) :
    l.zip ((List.range l.length).map h) = (List.range l.length).map (fun i => (l.getD i dflt, h i)) := by
  apply List.ext_getElem
  · simp
  · intro i h1 h2
    have hi : i < l.length := by simpa using h2
    simp [List.getD_eq_getElem?_getD, hi]

/-- all columns of a finalized section decode: `decodeFile`'s `cols` -/
theorem section_cols {pw pw2 : PW} {pc : PointCloud} {guid : String} {proto : Prototype}
    {pts : List (List Value)} {packets : List PacketSpec}
    (L : SectionLayout pw pw2 pc guid proto pts packets)
    (hv : validatePrototype proto = true) (hi : ProtoI64 proto)
    (hpts : ∀ pt ∈ pts, pt.length = proto.length ∧ checkValues proto pt = true) :
    let types := proto.map (fun r => decType r.dt)
    let chunks := dataChunks (Layout.streamsOf (specTypes proto) (specPoints pts)) packets
      (List.replicate (specTypes proto).length 0)
    (types.zip ((List.range types.length).map (fun i => colOf i chunks))).mapM
        (fun (x : RType × Bytes) => decodeStream x.1 x.2 pts.length)
      = .ok ((List.range proto.length).map (fun i =>
          pts.map (fun p => entryText (Layout.dtAt proto i) (p.getD i (.integer 0))))) := by
  intro types chunks
  have hlen : types.length = proto.length := by simp [types]
  rw [zip_map_range types .f32, hlen]
  apply mapM_ok_map
  intro i hi'
  have hil : i < proto.length := List.mem_range.1 hi'
  have ht : types.getD i .f32 = decType proto[i].dt := by
    simp [types, List.getD_eq_getElem?_getD, hil]
  simp only [ht, decType_eq]
  have := decode_section_points L hv hi hpts (isScaled proto[i].dt) i hil
  rw [this]
  simp only [entryText, ← Layout.dtAt_eq proto i hil]

theorem pointTable_rows (pts : List (List Value)) (n : Nat) (f : Nat → List Value → String) :
    pointTable pts.length ((List.range n).map (fun i => pts.map (f i)))
      = pts.map (fun p => (List.range n).map (fun i => f i p)) := by
  unfold pointTable
  apply List.ext_getElem
  · simp
  · intro k h1 h2
    have hk : k < pts.length := by simpa using h2
    simp [List.getD_eq_getElem?_getD, hk]

theorem zero_width_types (proto : Prototype) (hi : ProtoI64 proto) (hz : pointBits proto = 0) :
    (proto.map (fun r => decType r.dt)).all (fun t => t.bits == 0) = true := by
  rw [List.all_eq_true]
  intro t ht
  obtain ⟨r, hr, rfl⟩ := List.mem_map.1 ht
  have h0 : r.dt.bitSize = 0 := sum_eq_zero_forall _ hz _ (List.mem_map.2 ⟨r, hr, rfl⟩)
  rw [decType_eq, toRType_bits, ← bitSize_eq_bits _ (hi r hr), h0]
  rfl

/-- **C02 capstone (model level).**  A file closed by `EW.finalize` (`FinalFile`) that contains the
    point-cloud section of a session (`SectionLayout`; prototype accepted by `new`, points that fit)
    and any blobs that pass `BlobOk` (`blobOk_of_final`), given to the independent decoder together
    with a parsed document whose generic walk (external: depends on the XML parser and on the XML
    text, which is C04's subject) publishes that one compressed vector with the writer's offset,
    count and prototype types: **`Spec.decodeFile` succeeds** — size, every page checksum, header,
    XML extraction = the writer's XML bytes, section and packet structure, data offset, blob headers
    — **and returns exactly the points added** (per point and record the decoder's text of the value:
    float bit pattern / integer) **and the blob bytes**. -/
theorem C02_decodeFile {ft e e' tr} (F : FinalFile ft e e' tr)
    {pw pw2 : PW} {pc : PointCloud} {guid : String} {proto : Prototype}
    {pts : List (List Value)} {packets : List PacketSpec}
    (L : SectionLayout pw pw2 pc guid proto pts packets) (hal : pw.abs.cur % 4 = 0)
    (h48 : 48 ≤ pw.abs.cur) (hv : validatePrototype proto = true) (hi : ProtoI64 proto)
    (hpts : ∀ pt ∈ pts, pt.length = proto.length ∧ checkValues proto pt = true)
    (hcur : pw.abs.cur + RoundTrip.sectionLen proto packets ≤ e.pw.abs.cur)
    (hkept : (e.pw.abs.data.drop pw.abs.cur).take (RoundTrip.sectionLen proto packets)
      = RoundTrip.sectionWindow pw pw2 proto packets) :
    ∃ xml0 xml, serializeRoot ft e.root e.pcs e.imgs e.exts = some xml0 ∧ tr xml0 = some xml ∧
      (0 < (utf8 xml).length →
      ∀ (doc : XDoc) (fp : FloatParse) (w : Walk) (pr : PointsRef) (extraBlobs : List (Nat × Nat))
        (bd : String × Nat × Nat → Bytes),
        (match doc.root with
          | XNode.elem ns _ name _ _ => (name == "e57Root" && ns == some e57Ns) = true
          | _ => False) →
        walkNode fp (doc.rootNamespaces.map (·.2)) "" doc.root {} = .ok w →
        w.points = [pr] → pr.fileOffset = pc.fileOffset → pr.recordCount = pc.records →
        pr.prototype.mapM (fun (x : String × XNode) => recordType x.2)
          = .ok (proto.map (fun r => decType r.dt)) →
        (∀ x ∈ w.blobs.reverse ++ extraBlobs.map (fun ((o, l) : Nat × Nat) => (s!"direct@{o}", o, l)),
          BlobOk e'.pw.dev.data e'.pw.abs.data x.2.1 x.2.2 (bd x)) →
        decodeFile e'.pw.dev.data (utf8 xml) doc fp extraBlobs
          = .ok ⟨w.leaves.reverse,
              [(pr.path, pts.map (fun p => (List.range proto.length).map (fun i =>
                entryText (Layout.dtAt proto i) (p.getD i (.integer 0)))))],
              (w.blobs.reverse ++ extraBlobs.map (fun ((o, l) : Nat × Nat) => (s!"direct@{o}", o, l))).map
                (fun (x : String × Nat × Nat) => (x.1, bd x))⟩) := by
  obtain ⟨xml0, xml, hs, ht, hH⟩ := headerOk_of_final F
  refine ⟨xml0, xml, hs, ht, ?_⟩
  intro hX doc fp w pr extraBlobs bd hroot hw hpoints hoff hcnt hproto hblobs
  have hP := pagesOk_of_final F
  have hC := (cloudOk_of_final F L hal hi h48 hcur hkept).mono (zero_width_types proto hi)
  have hcols := section_cols L hv hi hpts
  simp only [] at hcols
  have hlen : (proto.map (fun r => decType r.dt)).length = proto.length := by simp
  rw [← hlen] at hC
  rw [← hoff, ← hcnt] at hC
  rw [← L.records, ← hcnt] at hcols
  have hbody := cloudBody_ok e'.pw.dev.data e'.pw.abs.data pr _ _ _ hproto hC hcols
  rw [hcnt, L.records, pointTable_rows] at hbody
  have := decodeFile_ok e'.pw.dev.data e'.pw.abs.data (utf8 xml) doc fp extraBlobs w
    (fun pr' => (pr'.path, pts.map (fun p => (List.range proto.length).map (fun i =>
      entryText (Layout.dtAt proto i) (p.getD i (.integer 0))))))
    (fun x => (x.1, bd x)) hP (hH hX) hroot hw
    (by
      intro pr' hpr'
      rw [hpoints] at hpr'
      simp only [List.reverse_cons, List.reverse_nil, List.nil_append, List.mem_singleton] at hpr'
      subst hpr'
      exact hbody)
    (by
      intro x hx
      obtain ⟨p, off, len⟩ := x
      exact blobBody_ok _ _ p off len _ (hblobs _ hx))
  rw [this, hpoints]
  rfl

/-- **C02 capstone, total form**: for a prototype accepted by `new` (with `i64` bounds, distinct record
    names) and points that fit it, at a 4-aligned cursor behind the file header, the session succeeds,
    and when the file is closed right after it (`e.pw = pw2`; for more sections and blobs in between use
    `cloudOk_of_final`, `blobOk_of_final` with `later_section_keeps_window`, `blob_keeps_window`) every
    binary check of the independent decoder passes and `decodeFile` returns the points added. -/
theorem C02_closed_file (pw : PW) (exts : List (String × String)) (guid : String)
    (proto : Prototype) (pts : List (List Value))
    (hpw : pw.Inv) (hal : pw.abs.cur % 4 = 0) (h48 : 48 ≤ pw.abs.cur)
    (hi : ProtoI64 proto) (hn : NoDupNames proto)
    (pw0 : PW) (w0 : PcW) (hnew : PcW.new pw exts guid proto = .ok (pw0, w0))
    (hpts : ∀ pt ∈ pts, pt.length = proto.length ∧ checkValues proto pt = true) :
    ∃ pw1 w1 pw2 w2 pc,
      addPoints pts (pw0, w0) = .ok (pw1, w1) ∧ w1.finalize pw1 = .ok (pw2, w2, pc) ∧
      ∀ (ft : FloatText) (e e' : EW) (tr : String → Option String),
        e.pw = pw2 → EW.finalize ft e tr = .ok e' → e'.pw.dev.data.length < 2 ^ 64 →
        PagesOk e'.pw.dev.data e'.pw.abs.data ∧
        CloudOk e'.pw.dev.data e'.pw.abs.data pc.fileOffset pc.records proto.length (pointBits proto = 0)
          (dataChunks (Layout.streamsOf (specTypes proto) (specPoints pts)) (emitted pw exts guid proto pts)
            (List.replicate (specTypes proto).length 0)) ∧
        ∃ xml0 xml, serializeRoot ft e.root e.pcs e.imgs e.exts = some xml0 ∧ tr xml0 = some xml ∧
          (0 < (utf8 xml).length →
          HeaderOk e'.pw.dev.data e'.pw.abs.data (utf8 xml) ∧
          ∀ (doc : XDoc) (fp : FloatParse) (w : Walk) (pr : PointsRef),
            (match doc.root with
              | XNode.elem ns _ name _ _ => (name == "e57Root" && ns == some e57Ns) = true
              | _ => False) →
            walkNode fp (doc.rootNamespaces.map (·.2)) "" doc.root {} = .ok w →
            w.points = [pr] → w.blobs = [] →
            pr.fileOffset = pc.fileOffset → pr.recordCount = pc.records →
            pr.prototype.mapM (fun (x : String × XNode) => recordType x.2)
              = .ok (proto.map (fun r => decType r.dt)) →
            decodeFile e'.pw.dev.data (utf8 xml) doc fp []
              = .ok ⟨w.leaves.reverse,
                  [(pr.path, pts.map (fun p => (List.range proto.length).map (fun i =>
                    entryText (Layout.dtAt proto i) (p.getD i (.integer 0)))))], []⟩) := by
  obtain ⟨pw1, w1, pw2, w2, pc, e1, e2, L⟩ :=
    writer_layout_legal pw exts guid proto hpw hal hi hn pw0 w0 hnew pts hpts
  have hv := (PcW.new_ok pw exts guid proto pw0 w0 hnew).2.1
  refine ⟨pw1, w1, pw2, w2, pc, e1, e2, ?_⟩
  intro ft e e' tr he hfin h64
  subst he
  have hc := L.cursor
  have F : FinalFile ft e e' tr := ⟨L.inv, by omega, hfin, h64⟩
  have hcur : pw.abs.cur + RoundTrip.sectionLen proto (emitted pw exts guid proto pts) ≤ e.pw.abs.cur := by
    rw [hc]; unfold RoundTrip.sectionLen; omega
  refine ⟨pagesOk_of_final F, cloudOk_of_final F L hal hi h48 hcur rfl, ?_⟩
  obtain ⟨xml0, xml, hs, ht, hdec⟩ := C02_decodeFile F L hal h48 hv hi hpts hcur rfl
  obtain ⟨xml0', xml', hs', ht', hH⟩ := headerOk_of_final F
  rw [hs] at hs'; injection hs' with hs'; subst hs'
  rw [ht] at ht'; injection ht' with ht'; subst ht'
  refine ⟨xml0, xml, hs, ht, fun hX => ⟨hH hX, ?_⟩⟩
  intro doc fp w pr hroot hw hp hb hoff hcnt hproto
  have := hdec hX doc fp w pr [] (fun _ => []) hroot hw hp hoff hcnt hproto
    (by intro x hx; rw [hb] at hx; simp at hx)
  rw [this, hb]
  rfl

/-! # Part 14 — closed instances evaluated by the kernel
(the de-paging of a whole page, about a minute, is in `WellFormedExample.lean`) -/

def okOf {α} : V α → Option α
  | .ok a => some a
  | .error _ => none

/-- a hand-made packet sequence: data packet (2 streams: 3 + 1 bytes, 2 bytes padding), ignored
    packet, index packet -/
def exPackets : Bytes :=
  [1, 0, 15, 0, 2, 0, 3, 0, 1, 0, 9, 8, 7, 6, 0, 0] ++ [2, 0, 7, 0, 0, 0, 0, 0] ++
  [0, 0, 15, 0, 0, 0, 0, 0, 0, 0, 0, 0, 0, 0, 0, 0]

/-- the decoder's walk accepts it and collects the chunks -/
theorem ex_walk :
    (okOf (walkPackets exPackets 2 10 0 40 ⟨[], none⟩)).map (fun r => (r.chunks, r.firstData))
      = some ([[[9, 8, 7], [6]]], some 0) := by decide +kernel

/-- … and rejects a packet length that is not a multiple of 4, a data packet padded by four bytes,
    and a non-zero reserved byte of the index packet: the checks are not vacuous -/
theorem ex_walk_bad :
    (okOf (walkPackets (exPackets.set 2 14) 2 10 0 40 ⟨[], none⟩)).isNone = true ∧
    (okOf (walkPackets (exPackets.set 6 0) 2 10 0 40 ⟨[], none⟩)).isNone = true ∧
    (okOf (walkPackets (exPackets.set 33 1) 2 10 0 40 ⟨[], none⟩)).isNone = true := by decide +kernel

end WF
end E57
