/-
The "external XML parser" hypotheses, closed.

`Reader.open file xo fp` takes the XML front end as a parameter `xo : XmlOracle`, and the capstones of
`Session.lean` / `Interrupted.lean` carry hypotheses on it (`horacle`, `RejectsEmpty`).  Here the front end is a
concrete Lean function

    leanXo = (bytes ↦ UTF-8 decoding ↦ XmlP.parseDocument)

and the hypotheses are THEOREMS about it:
  * `decode_utf8`            decodeUtf8 (utf8 s) = some s                      (String::from_utf8 ∘ as_bytes = Some)
  * `leanXo_serialize`       `horacle` of Session.lean holds for `leanXo` under `XmlP.InputOK`
  * `leanXo_rejects_empty`   `RejectsEmpty leanXo fp`
  * `sess_exts`, `inputOK_of_sess`   `XmlP.InputOK` from the session invariant + `TextOK`
  * `strings_of_xmlChars`, `textOK_of_finalize`   the strings are XML strings BECAUSE `finalize` succeeded
    (converse of `XmlP.serializeRoot_xmlChars`); only `XmlP.FloatTextSafe ft` remains a hypothesis
  * closed corollaries: `session_roundtrip_closed`, `open_finalized_closed`, `reach_open_finalized_closed`,
    `open_rejects_unfinalized_closed`, `crash_image_rejected_closed`, `killed_rejected_closed`,
    `dropped_rejected_closed`, …
Core Lean only.
-/
import E57.Proofs.XmlBridge
import E57.Proofs.Session
import E57.Proofs.Interrupted
import E57.Proofs.WellFormed
namespace E57.Closed
open E57

/-! ## 1. the concrete front end -/

theorem toList_loop (bs : ByteArray) (i : Nat) (r : List UInt8) :
    ByteArray.toList.loop bs i r = r.reverse ++ bs.data.toList.drop i := by
  fun_induction ByteArray.toList.loop bs i r with
  | case1 i r h ih =>
    rw [ih]
    have hl : i < bs.data.toList.length := by
      rw [Array.length_toList]; exact h
    rw [List.drop_eq_getElem_cons hl]
    have : bs.get! i = bs.data.toList[i] := by
      show bs.data[i]! = _
      rw [getElem!_pos bs.data i (by rw [Array.length_toList] at hl; exact hl)]
      rfl
    rw [this]; simp
  | case2 i r h =>
    have : bs.data.toList.length ≤ i := by
      rw [Array.length_toList]; exact Nat.le_of_not_lt h
    rw [List.drop_eq_nil_of_le this]; simp

/-- core's `ByteArray.toList` (a loop) is the list of the underlying array -/
theorem toList_eq (bs : ByteArray) : bs.toList = bs.data.toList := by
  unfold ByteArray.toList
  rw [toList_loop bs 0 []]; simp

theorem toByteArray_toList (bs : ByteArray) : bs.toList.toByteArray = bs := by
  rw [toList_eq]
  cases bs with
  | mk d =>
    have := @List.toList_data_toByteArray d.toList
    generalize d.toList.toByteArray = x at this
    cases x with
    | mk d' =>
      congr 1
      exact Array.toList_inj.mp this

/-- `String::from_utf8`: bytes → text, `none` when the bytes are not valid UTF-8 (core's validator
    `ByteArray.IsValidUTF8`, the invariant of `String` itself) -/
def decodeUtf8 (b : Bytes) : Option String := String.fromUTF8? b.toByteArray

/-- decoding inverts the model's encoder `utf8` on every string -/
theorem decode_utf8 (s : String) : decodeUtf8 (utf8 s) = some s := by
  unfold decodeUtf8 utf8
  rw [toByteArray_toList]
  simp [String.fromUTF8?, s.isValidUTF8, String.fromUTF8]

theorem utf8_empty : utf8 "" = [] := by
  unfold utf8; rw [toList_eq]; rfl

theorem decode_nil : decodeUtf8 [] = some "" := by
  rw [← utf8_empty]; exact decode_utf8 ""

/-- the front end of `E57Reader::new` as a Lean function: `String::from_utf8` then the verified parser
    `XmlP.parseDocument` (roxmltree + the tree dump of the harness) -/
def leanXo : XmlOracle := fun b => (decodeUtf8 b).bind XmlP.parseDocument

theorem leanXo_utf8 (s : String) : leanXo (utf8 s) = XmlP.parseDocument s := by
  unfold leanXo; rw [decode_utf8]; rfl

/-! ## 2. the oracle hypotheses are theorems -/

/-- **`horacle` holds for `leanXo`**: the front end applied to the UTF-8 bytes of the text the writer emits is
    the tree `MT.rootDoc` of the writer's document -/
theorem leanXo_serialize (ft : FloatText) (root : Root) (pcs : List PointCloud) (imgs : List Image)
    (exts : List (String × String)) (h : XmlP.InputOK ft root pcs imgs exts) (xml : String)
    (hx : serializeRoot ft root pcs imgs exts = some xml) :
    leanXo (utf8 xml) = MT.rootDoc ft root pcs imgs exts := by
  rw [leanXo_utf8, ← XmlP.C04_text_roundtrip ft root pcs imgs exts h, hx]
  rfl

/-- the parser refuses the empty text (no root element) -/
theorem parseDocument_empty : XmlP.parseDocument "" = none := by decide +kernel

theorem leanXo_nil : leanXo [] = none := by
  show (decodeUtf8 []).bind XmlP.parseDocument = none
  rw [decode_nil]; exact parseDocument_empty

/-- **`RejectsEmpty` holds for `leanXo`**, for every float parser -/
theorem leanXo_rejects_empty (fp : FloatParse) : Interrupt.RejectsEmpty leanXo fp :=
  Interrupt.rejectsEmpty_of_none leanXo fp leanXo_nil

/-! ## 3. `XmlP.InputOK` from the session -/

open E57.Session E57.Spec


/-- what `register_extension` checks, beyond `MT.ExtsOk`, of every extension it accepts -/
def ExtsChecked (exts : List (String × String)) : Prop :=
  ∀ x ∈ exts, validName x.1 = true ∧ x.2 ≠ XmlP.xmlNsUri ∧ x.2 ≠ XmlP.xmlnsNsUri

theorem registerExtension_checked (e e' : EW) (ns url : String) (h : e.registerExtension ns url = .ok e') :
    validName ns = true ∧ url ≠ XmlP.xmlNsUri ∧ url ≠ XmlP.xmlnsNsUri := by
  unfold EW.registerExtension at h
  split at h
  · cases h
  · rename_i hv
    split at h
    · cases h
    · split at h
      · cases h
      · rename_i hx
        simp only [Bool.or_eq_true, beq_iff_eq, not_or] at hx
        refine ⟨by simpa using hv, hx.1, hx.2⟩

theorem sess_exts {e : EW} {c : GCur} {l : List WOp} {g : List Entry} (h : Sess e c l g) :
    ExtsChecked e.exts := by
  induction h with
  | new hn =>
    unfold EW.new at hn
    obtain ⟨p0, e0, hn⟩ := Outcome.bind_eq_ok hn
    obtain ⟨p1, e1, hn⟩ := Outcome.bind_eq_ok hn
    cases hn
    intro x hx; cases hx
  | ext _ he ih =>
    rw [registerExtension_exts _ _ _ _ he]
    intro x hx
    rcases List.mem_append.mp hx with hx | hx
    · exact ih x hx
    · simp only [List.mem_singleton] at hx; subst hx
      exact registerExtension_checked _ _ _ _ he
  | blob _ hb ih =>
    unfold EW.addBlob at hb
    obtain ⟨⟨pw, b'⟩, e1, hb⟩ := Outcome.bind_eq_ok hb
    cases hb
    exact ih
  | _ => assumption
/-- what `XmlP.InputOK` needs beyond the session invariant: a property of the float printer (`floats`) and that
    the STRINGS handed to the writer consist of XML characters.  The string part follows from the success of
    `finalize` (`textOK_of_finalize` below), so that the closed theorems only assume `floats`. -/
structure TextOK (ft : FloatText) (e : EW) : Prop where
  floats : XmlP.FloatTextSafe ft
  urls : ∀ x ∈ e.exts, XmlP.XmlStr x.2
  rootStr : ∀ s ∈ XmlP.rootStrings e.root, XmlP.XmlStr s
  pcStr : ∀ pc ∈ e.pcs, ∀ s ∈ XmlP.pcStrings pc, XmlP.XmlStr s
  imgStr : ∀ i ∈ e.imgs, ∀ s ∈ XmlP.imgStrings i, XmlP.XmlStr s

theorem inputOK_of_sess {e : EW} {c : GCur} {l : List WOp} {g : List Entry} (ft : FloatText)
    (hS : Sess e c l g) (ht : TextOK ft e) : XmlP.InputOK ft e.root e.pcs e.imgs e.exts where
  floats := ht.floats
  extsOk := {
    ok := (sess_meta hS).exts
    names := fun x hx => XmlP.XmlNameOK_of_validName (sess_exts hS x hx).1
    urls := fun x hx => ⟨ht.urls x hx, (sess_exts hS x hx).2⟩ }
  rootStr := ht.rootStr
  pcStr := ht.pcStr
  imgStr := ht.imgStr
  protos := (sess_meta hS).vext
  starts := by
    intro pc hpc r hr ns nm hn
    have hv := List.all_eq_true.mp ((sess_meta hS).vext pc hpc) r hr
    rw [hn] at hv
    simp only [Bool.and_eq_true] at hv
    obtain ⟨_, c1, cs1, h1, h1'⟩ := XmlP.XmlNameOK_of_validName hv.1.1
    obtain ⟨_, c2, cs2, h2, h2'⟩ := XmlP.XmlNameOK_of_validName hv.1.2
    exact ⟨⟨c1, cs1, h1, h1'⟩, ⟨c2, cs2, h2, h2'⟩⟩


/-! ## 3b. the strings: the converse of `serializeRoot_xmlChars` -/

section Strings
open E57.XmlP

theorem cdataEsc_chars : ∀ (n : Nat) (s : Str), s.length ≤ n → (cdataEscL s).all isXmlChar = true →
    s.all isXmlChar = true
  | 0, [], _, _ => rfl
  | _ + 1, [], _, _ => rfl
  | n + 1, c :: r, hl, h => by
    rw [cdataEscL_cons] at h
    simp only [List.length_cons] at hl
    split at h
    · rename_i hc
      subst hc
      simp only [List.all_append, Bool.and_eq_true] at h
      simp only [List.all_cons, Bool.and_eq_true]
      exact ⟨by decide, cdataEsc_chars n r (by omega) h.2.2.2⟩
    · split at h
      · rename_i _ hc
        obtain ⟨rfl, ht⟩ := hc
        match r, ht with
        | a :: b :: r', ht =>
          simp only [List.take_succ_cons, List.take_zero, List.cons.injEq, and_true] at ht
          obtain ⟨rfl, rfl⟩ := ht
          simp only [List.all_append, List.all_cons, Bool.and_eq_true, List.drop_succ_cons, List.drop_zero] at h
          simp only [List.all_cons, Bool.and_eq_true]
          simp only [List.length_cons] at hl
          exact ⟨by decide, by decide, by decide, cdataEsc_chars n r' (by omega) h.2.2.2.2⟩
      · simp only [List.all_cons, Bool.and_eq_true] at h ⊢
        exact ⟨h.1, cdataEsc_chars n r (by omega) h.2⟩

theorem attrEsc_chars (u : Str) (h : (attrEscL u).all isXmlChar = true) : u.all isXmlChar = true := by
  induction u with
  | nil => rfl
  | cons c cs ih =>
    simp only [attrEscL, List.all_append, Bool.and_eq_true] at h
    simp only [List.all_cons, Bool.and_eq_true]
    refine ⟨?_, ih h.2⟩
    cases hs : attrSpecial c with
    | false =>
      rw [attrEscChar_plain hs] at h
      simpa using h.1
    | true =>
      rcases attrSpecial_cases hs with rfl | rfl | rfl | rfl | rfl | rfl <;> decide

mutual
/-- every text node of the tree consists of XML characters -/
def textsOk : XNode → Bool
  | .elem _ _ _ _ cs => textsOkL cs
  | .text s => s.toList.all isXmlChar
  | .comment => true
  | .pi => true
def textsOkL : List XNode → Bool
  | [] => true
  | c :: cs => textsOk c && textsOkL cs
end

mutual
theorem render_texts (cd : Bool) : ∀ t : XNode, (renderL cd t).all isXmlChar = true → textsOk t = true
  | .elem _ pfx name attrs [], _ => by simp [textsOk, textsOkL]
  | .elem _ pfx name attrs (c :: cs), h => by
    rw [renderL] at h
    simp only [List.all_cons, List.all_append, Bool.and_eq_true] at h
    rw [textsOk]
    exact renderList_texts _ (c :: cs) h.2.2.2.2.1
  | .text s, h => by
    rw [renderL] at h
    rw [textsOk]
    cases cd with
    | false => simpa using h
    | true =>
      simp only [if_true, List.all_append, Bool.and_eq_true] at h
      exact cdataEsc_chars _ _ (Nat.le_refl _) h.2.1
  | .comment, _ => rfl
  | .pi, _ => rfl
theorem renderList_texts (cd : Bool) : ∀ ts : List XNode, (renderListL cd ts).all isXmlChar = true →
    textsOkL ts = true
  | [], _ => rfl
  | c :: cs, h => by
    rw [renderListL] at h
    simp only [List.all_append, Bool.and_eq_true] at h
    rw [textsOkL, render_texts cd c h.1, renderList_texts cd cs h.2]
    rfl
end

theorem nsDecls_chars (exts : List (String × String)) (h : (nsDeclsL exts).all isXmlChar = true) :
    ∀ e ∈ exts, e.2.toList.all isXmlChar = true := by
  induction exts with
  | nil => intro e he; cases he
  | cons x xs ih =>
    simp only [nsDeclsL, List.flatMap_cons, List.all_append, Bool.and_eq_true, nsDeclL, List.all_cons] at h ih
    intro e he
    rcases List.mem_cons.mp he with rfl | he
    · exact attrEsc_chars _ h.1.1.2.2.2.2.2.1
    · exact ih ⟨h.1.2, h.2⟩ e he

theorem renderDoc_texts (exts : List (String × String)) (ns pfx : Option String) (name : String)
    (attrs : List XAttr) (cs : List XNode)
    (h : (renderDocL exts (.elem ns pfx name attrs cs)).all isXmlChar = true) :
    textsOkL cs = true ∧ ∀ e ∈ exts, e.2.toList.all isXmlChar = true := by
  rw [renderDocL] at h
  simp only [List.all_append, List.all_cons, Bool.and_eq_true] at h
  exact ⟨renderList_texts _ _ h.2.2.2.2.2.2.2.1, nsDecls_chars exts h.2.2.2.2.2.1⟩


theorem textsOkL_append (a b : List XNode) : textsOkL (a ++ b) = (textsOkL a && textsOkL b) := by
  induction a with
  | nil => simp [textsOkL]
  | cons x xs ih => simp [textsOkL, ih, Bool.and_assoc]

theorem textsOkL_sep (ks : List XNode) : textsOkL (MT.sep ks) = textsOkL ks := by
  induction ks with
  | nil => rfl
  | cons k ks ih =>
    rw [MT.sep, textsOkL, textsOkL, ih, textsOkL]
    have : textsOk MT.nl = true := by decide
    rw [this, Bool.true_and]

theorem textsOkL_lines (ks : List XNode) : textsOkL (MT.lines ks) = textsOkL ks := by
  rw [MT.lines, textsOkL, textsOkL_sep]
  have : textsOk MT.nl = true := by decide
  rw [this, Bool.true_and]

theorem textsOk_structT (p0 : Option String) (tag : String) (kids : List XNode) :
    textsOk (MT.structT p0 tag kids) = textsOkL kids := by
  rw [MT.structT, MT.el, textsOk, textsOkL_lines]

theorem textsOk_vectorT (p0 : Option String) (tag : String) (kids : List XNode) :
    textsOk (MT.vectorT p0 tag kids) = textsOkL kids := by
  rw [MT.vectorT, MT.el, textsOk, textsOkL_lines]

theorem textsOk_string (p0 : Option String) (tag v : String) :
    textsOk (MT.genStringTree p0 tag v) = v.toList.all isXmlChar := by
  simp [MT.genStringTree, MT.el, textsOk, textsOkL]

theorem textsOkL_optT {α} (o : Option α) (f : α → XNode) (h : textsOkL (MT.optT o f) = true) :
    ∀ a, o = some a → textsOk (f a) = true := by
  intro a ha; subst ha
  simpa [MT.optT, textsOkL] using h

theorem textsOkL_map {α} (l : List α) (f : α → XNode) (h : textsOkL (l.map f) = true) :
    ∀ a ∈ l, textsOk (f a) = true := by
  induction l with
  | nil => intro a ha; cases ha
  | cons x xs ih =>
    simp only [List.map_cons, textsOkL, Bool.and_eq_true] at h
    intro a ha
    rcases List.mem_cons.mp ha with rfl | ha
    · exact h.1
    · exact ih h.2 a ha

theorem pc_texts (ft : FloatText) (exts : List (String × String)) (pc : PointCloud)
    (h : textsOk (MT.PointCloud.tree ft exts pc) = true) : ∀ s ∈ pcStrings pc, XmlStr s := by
  rw [MT.PointCloud.tree, textsOk_structT] at h
  simp only [textsOkL_append, Bool.and_eq_true] at h
  obtain ⟨⟨⟨⟨⟨⟨⟨⟨⟨⟨⟨⟨⟨⟨⟨⟨⟨⟨⟨⟨⟨g, og⟩, _⟩, _⟩, _⟩, _⟩, _⟩, nm⟩, de⟩, sv⟩, sm⟩, ss⟩, sw⟩, sf⟩, sh⟩, _⟩, _⟩, _⟩, _⟩, _⟩, _⟩, _⟩ := h
  intro s hs
  simp only [pcStrings, List.mem_append, Option.mem_toList] at hs
  have key : ∀ (o : Option String) (tag : String), textsOkL (MT.optT o (MT.genStringTree (MT.e57Prefix exts) tag)) = true →
      o = some s → XmlStr s := by
    intro o tag h1 h2
    have := textsOkL_optT o _ h1 s h2
    rwa [textsOk_string] at this
  rcases hs with ((((((((hs | hs) | hs) | hs) | hs) | hs) | hs) | hs) | hs) | hs
  · exact key _ _ g hs
  · exact key _ _ nm hs
  · exact key _ _ de hs
  · exact key _ _ sv hs
  · exact key _ _ sm hs
  · exact key _ _ ss hs
  · exact key _ _ sh hs
  · exact key _ _ sw hs
  · exact key _ _ sf hs
  · cases ho : pc.originalGuids with
    | none => rw [ho] at hs; simp at hs
    | some gs =>
      rw [ho] at hs
      simp only [Option.getD_some] at hs
      have h1 := textsOkL_optT _ _ og gs ho
      rw [MT.originalGuidsTree, MT.el, textsOk, textsOkL_lines] at h1
      have := textsOkL_map gs _ h1 s hs
      rwa [textsOk_string] at this


theorem img_texts (ft : FloatText) (p0 : Option String) (i : Image)
    (h : textsOk (MT.Image.tree ft p0 i) = true) : ∀ s ∈ imgStrings i, XmlStr s := by
  rw [MT.Image.tree, textsOk_structT] at h
  simp only [textsOkL_append, Bool.and_eq_true] at h
  obtain ⟨⟨⟨⟨⟨⟨⟨⟨⟨⟨g, _⟩, _⟩, _⟩, pg⟩, nm⟩, de⟩, _⟩, sv⟩, sm⟩, ss⟩ := h
  intro s hs
  simp only [imgStrings, List.mem_append, Option.mem_toList] at hs
  have key : ∀ (o : Option String) (tag : String), textsOkL (MT.optT o (MT.genStringTree p0 tag)) = true →
      o = some s → XmlStr s := by
    intro o tag h1 h2
    have := textsOkL_optT o _ h1 s h2
    rwa [textsOk_string] at this
  rcases hs with (((((hs | hs) | hs) | hs) | hs) | hs) | hs
  · exact key _ _ g hs
  · exact key _ _ pg hs
  · exact key _ _ nm hs
  · exact key _ _ de hs
  · exact key _ _ sv hs
  · exact key _ _ sm hs
  · exact key _ _ ss hs

theorem root_texts (ft : FloatText) (root : Root) (pcs : List PointCloud) (imgs : List Image)
    (exts : List (String × String)) (h : textsOk (MT.rootTree ft root pcs imgs exts) = true) :
    (∀ s ∈ rootStrings root, XmlStr s) ∧ (∀ pc ∈ pcs, ∀ s ∈ pcStrings pc, XmlStr s) ∧
      (∀ i ∈ imgs, ∀ s ∈ imgStrings i, XmlStr s) := by
  rw [MT.rootTree, textsOk_structT] at h
  simp only [textsOkL_append, Bool.and_eq_true, textsOkL, textsOk_string, textsOk_vectorT, Bool.and_true] at h
  obtain ⟨⟨⟨⟨⟨_, g, _⟩, cm⟩, lv⟩, _⟩, hp, hi⟩ := h
  refine ⟨?_, ?_, ?_⟩
  · intro s hs
    simp only [rootStrings, List.mem_append, List.mem_singleton, Option.mem_toList] at hs
    rcases hs with (rfl | hs) | hs
    · exact g
    · have := textsOkL_optT _ _ cm s hs
      rwa [textsOk_string] at this
    · have := textsOkL_optT _ _ lv s hs
      rwa [textsOk_string] at this
  · intro pc hpc
    exact pc_texts ft exts pc (textsOkL_map pcs _ hp pc hpc)
  · intro i hi'
    exact img_texts ft _ i (textsOkL_map imgs _ hi i hi')

/-- **the converse of `XmlP.serializeRoot_xmlChars`**: if the text the writer emits consists of XML characters
    (what `finalize` checks), then so does every string handed to the writer — escaping only ever replaces XML
    characters -/
theorem strings_of_xmlChars (ft : FloatText) (root : Root) (pcs : List PointCloud) (imgs : List Image)
    (exts : List (String × String)) (hok : MT.ExtsOk exts = true) (hx : ∀ e ∈ exts, e.2 ≠ MT.xmlNsUri)
    (hv : ∀ pc ∈ pcs, validateExtensions pc.prototype exts = true) (xml : String)
    (hs : serializeRoot ft root pcs imgs exts = some xml) (hc : xml.toList.all isXmlChar = true) :
    (∀ e ∈ exts, XmlStr e.2) ∧ (∀ s ∈ rootStrings root, XmlStr s) ∧
      (∀ pc ∈ pcs, ∀ s ∈ pcStrings pc, XmlStr s) ∧ (∀ i ∈ imgs, ∀ s ∈ imgStrings i, XmlStr s) := by
  have hg : root.guid.isEmpty = false := by
    cases hh : root.guid.isEmpty
    · rfl
    · simp [serializeRoot, hh] at hs
  have htxt := MT.document_text ft root pcs imgs exts hg hok hx hv XmlP.formatNameUnescaped
  rw [hs] at htxt
  simp only [Option.some.injEq] at htxt
  rw [← htxt, renderDoc_toList] at hc
  have hr : MT.rootTree ft root pcs imgs exts = MT.structT (MT.e57Prefix exts) "e57Root" _ := rfl
  have hk := hc
  rw [hr, MT.structT, MT.el] at hk
  obtain ⟨h1, h2⟩ := renderDoc_texts exts _ _ _ _ _ hk
  have h3 : textsOk (MT.rootTree ft root pcs imgs exts) = true := by
    rw [hr, MT.structT, MT.el, textsOk]; exact h1
  exact ⟨h2, root_texts ft root pcs imgs exts h3⟩

end Strings

/-- **`TextOK` from the success of `finalize`**: `finalize` refuses a document that contains a character XML cannot
    carry, so after a successful `finalize` of a session every string handed to the writer is an XML string; what
    remains is the property of the float printer -/
theorem textOK_of_finalize {e e' : EW} {c : GCur} {l : List WOp} {g : List Entry} (ft : FloatText)
    (tr : String → Option String) (hS : Sess e c l g) (hft : XmlP.FloatTextSafe ft)
    (hfin : EW.finalize ft e tr = .ok e') : TextOK ft e := by
  have hM := sess_meta hS
  unfold EW.finalize at hfin
  cases hs : serializeRoot ft e.root e.pcs e.imgs e.exts with
  | none => rw [hs] at hfin; cases hfin
  | some xml0 =>
    rw [hs] at hfin
    dsimp only at hfin
    split at hfin
    · cases hfin
    · rename_i hc
      have hc' : xml0.toList.all XmlP.isXmlChar = true := by
        rw [← XmlP.all_xmlChar_iff]; simpa using hc
      obtain ⟨h1, h2, h3, h4⟩ := strings_of_xmlChars ft e.root e.pcs e.imgs e.exts hM.exts hM.xmlns hM.vext xml0 hs hc'
      exact ⟨hft, h1, h2, h3, h4⟩

/-! ## 4. closed corollaries of `Session.lean` -/

/-- `horacle` for the state of a session -/
theorem sess_oracle {e : EW} {c : GCur} {l : List WOp} {g : List Entry} (ft : FloatText)
    (hS : Sess e c l g) (ht : TextOK ft e) :
    ∀ xml, serializeRoot ft e.root e.pcs e.imgs e.exts = some xml →
      leanXo (utf8 xml) = MT.rootDoc ft e.root e.pcs e.imgs e.exts :=
  leanXo_serialize ft _ _ _ _ (inputOK_of_sess ft hS ht)

/-- **`Session.open_finalized`, closed**: the reader with the Lean front end (UTF-8 decoding + the verified
    parser) opens the finished file and reports the writer's document-level metadata.  No hypothesis on an
    external parser is left; in its place `XmlP.FloatTextSafe ft` (the float printer prints non-empty texts over
    `[0-9a-zA-Z+.-]`: a property of Rust's float formatting, not of the session).  Everything else of
    `XmlP.InputOK` is derived: `ExtsOk`, the extension name and URL checks, `validateExtensions`, the name-start
    condition from the session (`sess_meta`, `sess_exts`); that all strings consist of XML characters from the
    success of `finalize` (`textOK_of_finalize`). -/
theorem open_finalized_closed {e e' : EW} {ops : List WOp} {g : List Entry} (ft : FloatText) (fp : FloatParse)
    (hS : Sess e .top ops g)
    (hfin : EW.finalize ft e (fun x => some x) = .ok e')
    (hsz : e'.pw.dev.data.length < 2 ^ 64)
    (hft : XmlP.FloatTextSafe ft)
    (hcr : ∀ d, e.root.creation = some d → MT.F64OK ft fp d.gpsTime)
    (okpc : ∀ pc ∈ e.pcs, MT.PointCloud.OK ft fp e.exts pc)
    (okimg : ∀ i ∈ e.imgs, MT.Image.OK ft fp i) :
    ∃ rd xml, Reader.open e'.pw.dev.data leanXo fp = some rd ∧
      serializeRoot ft e.root e.pcs e.imgs e.exts = some xml ∧ rd.xml = utf8 xml ∧
      rd.header = ⟨e'.pw.dev.data.length, l2p e.pw.abs.cur, (utf8 xml).length, 1024⟩ ∧
      RootSame rd.root e.root ∧
      rd.pcs = e.pcs.map MT.PointCloud.stored ∧ rd.imgs = e.imgs ∧ rd.exts = e.exts ∧
      BlobRT.Healthy e'.pw.abs.data rd.pr :=
  open_finalized ft fp leanXo hS hfin hsz (sess_oracle ft hS (textOK_of_finalize ft _ hS hft hfin)) hcr okpc okimg

/-- **`Session.session_roundtrip`, closed**: the whole-session round trip with `xo := leanXo`.  Hypotheses: the
    session, the success of `finalize`, the file is smaller than 2^64 bytes, `XmlP.FloatTextSafe ft` (a property
    of the float printer; it cannot come from the session), and the float/integer side conditions of C04 on the
    metadata values (`hcr`, `okpc`, `okimg`, unchanged from `session_roundtrip`).  The parser hypothesis
    `horacle` is gone, and nothing is assumed about the strings: `finalize` checked them. -/
theorem session_roundtrip_closed {e e' : EW} {ops : List WOp} {g : List Entry} (ft : FloatText) (fp : FloatParse)
    (hS : Sess e .top ops g)
    (hfin : EW.finalize ft e (fun x => some x) = .ok e')
    (hsz : e'.pw.dev.data.length < 2 ^ 64)
    (hft : XmlP.FloatTextSafe ft)
    (hcr : ∀ d, e.root.creation = some d → MT.F64OK ft fp d.gpsTime)
    (okpc : ∀ pc ∈ e.pcs, MT.PointCloud.OK ft fp e.exts pc)
    (okimg : ∀ i ∈ e.imgs, MT.Image.OK ft fp i) :
    ∃ rd, Reader.open e'.pw.dev.data leanXo fp = some rd ∧
      RootSame rd.root e.root ∧
      rd.pcs = e.pcs.map MT.PointCloud.stored ∧ (cloudsOf g).Sublist e.pcs ∧
      rd.imgs = e.imgs ∧ rd.exts = e.exts ∧
      BlobRT.Healthy e'.pw.abs.data rd.pr ∧
      (∀ r0, BlobRT.Healthy e'.pw.abs.data r0 → ∀ ref data s, Entry.blob ref data s ∈ g →
        (blobRead r0 ref).2 = some data ∧ BlobRT.Healthy e'.pw.abs.data (blobRead r0 ref).1) ∧
      (∀ r0, BlobRT.Healthy e'.pw.abs.data r0 → ∀ pc pts s n, Entry.cloud pc pts s n ∈ g →
        ∃ r1 q, QR.new (MT.PointCloud.stored pc) r0 = (r1, some q) ∧
          RawIter.run (pts.length + 1) ⟨q, (MT.PointCloud.stored pc).records, 0⟩ r1
            = pts.map E57.Item.value ++ [E57.Item.done]) :=
  session_roundtrip ft fp leanXo hS hfin hsz (sess_oracle ft hS (textOK_of_finalize ft _ hS hft hfin)) hcr okpc okimg

/-- **`Session.reach_open_finalized`, closed**: for ANY sequence of successful writer calls (no ghost annotation)
    followed by `finalize` -/
theorem reach_open_finalized_closed {e e' : EW} {ops : List WOp} (ft : FloatText) (fp : FloatParse)
    (hR : Interrupt.Reach e .top ops)
    (hfin : EW.finalize ft e (fun x => some x) = .ok e')
    (hsz : e'.pw.dev.data.length < 2 ^ 64)
    (hft : XmlP.FloatTextSafe ft)
    (hcr : ∀ d, e.root.creation = some d → MT.F64OK ft fp d.gpsTime)
    (okpc : ∀ pc ∈ e.pcs, MT.PointCloud.OK ft fp e.exts pc)
    (okimg : ∀ i ∈ e.imgs, MT.Image.OK ft fp i) :
    ∃ rd xml, Reader.open e'.pw.dev.data leanXo fp = some rd ∧
      serializeRoot ft e.root e.pcs e.imgs e.exts = some xml ∧ rd.xml = utf8 xml ∧
      rd.header = ⟨e'.pw.dev.data.length, l2p e.pw.abs.cur, (utf8 xml).length, 1024⟩ ∧
      RootSame rd.root e.root ∧
      rd.pcs = e.pcs.map MT.PointCloud.stored ∧ rd.imgs = e.imgs ∧ rd.exts = e.exts ∧
      BlobRT.Healthy e'.pw.abs.data rd.pr := by
  obtain ⟨gc, g, hc, _, hs⟩ := reach_sess hR
  exact reach_open_finalized ft fp leanXo hR hfin hsz (sess_oracle ft hs (textOK_of_finalize ft _ hs hft hfin)) hcr okpc okimg

/-! ## 5. closed corollaries of `Interrupted.lean` -/

open Interrupt in
/-- **`Interrupt.open_rejects_unfinalized`, closed**: a content without parsable header, or whose header
    announces an empty XML section, is rejected by the reader with the Lean front end — unconditionally -/
theorem open_rejects_unfinalized_closed (d : Bytes) (fp : FloatParse) (hd : Unfinal d) :
    Reader.open d leanXo fp = none :=
  open_rejects_unfinalized d leanXo fp (leanXo_rejects_empty fp) hd

open Interrupt in
/-- **`Interrupt.crash_image_rejected`, closed**: every prefix image of a session without `finalize` is rejected -/
theorem crash_image_rejected_closed {e : EW} {c : Cur} {l : List WOp} (h : Reach e c l)
    (fp : FloatParse) (k cut : Nat) :
    Reader.open (crashImage (runLog l w0) [] k cut) leanXo fp = none :=
  crash_image_rejected h leanXo fp (leanXo_rejects_empty fp) k cut

open Interrupt in
/-- **`Interrupt.killed_rejected`, closed** -/
theorem killed_rejected_closed {e : EW} {c : Cur} {l : List WOp} (h : Reach e c l) (fp : FloatParse) :
    Reader.open e.pw.dev.data leanXo fp = none :=
  killed_rejected h leanXo fp (leanXo_rejects_empty fp)

open Interrupt in
/-- **`Interrupt.dropped_rejected`, closed** -/
theorem dropped_rejected_closed {e : EW} {c : Cur} {l : List WOp} (h : Reach e c l) (fp : FloatParse) :
    Reader.open e.pw.flush.dev.data leanXo fp = none ∧
    ∀ k cut, Reader.open (crashImage (flushLog e.pw) e.pw.dev.data k cut) leanXo fp = none :=
  dropped_rejected h leanXo fp (leanXo_rejects_empty fp)

open Interrupt in
/-- **`Interrupt.torn_header_rejected`, closed** -/
theorem torn_header_rejected_closed (old : Bytes) (L O X c : Nat) (fp : FloatParse)
    (hl : 1024 ≤ old.length) (h0 : old.take 48 = hdr0)
    (hne : tornHeader old L O X c ≠ devWrite old (0, newPage0 old L O X))
    (hc : c ≤ 32 ∨ 40 ≤ c ∨ ¬ pageValid (devPage (tornHeader old L O X c) 1024 0) 1024) :
    Reader.open (tornHeader old L O X c) leanXo fp = none :=
  torn_header_rejected old L O X c leanXo fp (leanXo_rejects_empty fp) hl h0 hne hc

open Interrupt in
/-- **`Interrupt.open_unfinalized_iff`, closed**: with the Lean front end the right-hand side is true, so the
    flushed image of an unfinalized session is rejected -/
theorem open_unfinalized_closed (d : Bytes) (fp : FloatParse)
    (h48 : d.take 48 = hdr0) (hpos : 0 < d.length) (hm : d.length % 1024 = 0)
    (hv0 : pageValid (devPage d 1024 0) 1024) :
    Reader.open d leanXo fp = none :=
  (open_unfinalized_iff d leanXo fp h48 hpos hm hv0).mpr (leanXo_rejects_empty fp)


/-! ## 4b. customised XML (`finalize_customized_xml` with a transformer) -/

/-- the customisation `tr` does not change what the VERIFIED parser sees: the transformed text parses to the
    same document as the writer's own text.  (A property of the caller's transformer stated with the Lean
    parser; nothing external.) -/
def TrKeepsTree (ft : FloatText) (e : EW) (tr : String → Option String) : Prop :=
  ∀ x0 x, serializeRoot ft e.root e.pcs e.imgs e.exts = some x0 → tr x0 = some x →
    XmlP.parseDocument x = XmlP.parseDocument x0

theorem trKeepsTree_id (ft : FloatText) (e : EW) : TrKeepsTree ft e (fun x => some x) := by
  intro x0 x _ h; cases h; rfl

/-- `horacle` of the transformer theorems, and the non-emptiness of the transformed XML, for `leanXo` -/
theorem sess_oracle_tr {e : EW} {c : GCur} {l : List WOp} {g : List Entry} (ft : FloatText)
    (tr : String → Option String) (hS : Sess e c l g) (ht : TextOK ft e) (hk : TrKeepsTree ft e tr) :
    (∀ x0 x, serializeRoot ft e.root e.pcs e.imgs e.exts = some x0 → tr x0 = some x →
      leanXo (utf8 x) = MT.rootDoc ft e.root e.pcs e.imgs e.exts) ∧
    (∀ x0 x, serializeRoot ft e.root e.pcs e.imgs e.exts = some x0 → tr x0 = some x →
      0 < (utf8 x).length) := by
  have key : ∀ x0 x, serializeRoot ft e.root e.pcs e.imgs e.exts = some x0 → tr x0 = some x →
      leanXo (utf8 x) = MT.rootDoc ft e.root e.pcs e.imgs e.exts := by
    intro x0 x h1 h2
    rw [leanXo_utf8, hk x0 x h1 h2, ← leanXo_utf8]
    exact sess_oracle ft hS ht x0 h1
  refine ⟨key, ?_⟩
  intro x0 x h1 h2
  have hsome : (MT.rootDoc ft e.root e.pcs e.imgs e.exts).isSome = true := by
    rw [MT.rootDoc_isSome_iff, h1]; rfl
  cases hl : utf8 x with
  | cons b bs => simp
  | nil =>
    have := key x0 x h1 h2
    rw [hl, leanXo_nil] at this
    rw [← this] at hsome
    cases hsome

/-- **`Session.session_roundtrip_tr`, closed**: any XML transformer that keeps the parsed tree -/
theorem session_roundtrip_tr_closed {e e' : EW} {ops : List WOp} {g : List Entry} (ft : FloatText)
    (fp : FloatParse) (tr : String → Option String) (hS : Sess e .top ops g)
    (hfin : EW.finalize ft e tr = .ok e')
    (hsz : e'.pw.dev.data.length < 2 ^ 64)
    (hft : XmlP.FloatTextSafe ft) (htr : TrKeepsTree ft e tr)
    (hcr : ∀ d, e.root.creation = some d → MT.F64OK ft fp d.gpsTime)
    (okpc : ∀ pc ∈ e.pcs, MT.PointCloud.OK ft fp e.exts pc)
    (okimg : ∀ i ∈ e.imgs, MT.Image.OK ft fp i) :
    ∃ rd, Reader.open e'.pw.dev.data leanXo fp = some rd ∧
      RootSame rd.root e.root ∧
      rd.pcs = e.pcs.map MT.PointCloud.stored ∧ (cloudsOf g).Sublist e.pcs ∧
      rd.imgs = e.imgs ∧ rd.exts = e.exts ∧
      BlobRT.Healthy e'.pw.abs.data rd.pr ∧
      (∀ r0, BlobRT.Healthy e'.pw.abs.data r0 → ∀ ref data s, Entry.blob ref data s ∈ g →
        (blobRead r0 ref).2 = some data ∧ BlobRT.Healthy e'.pw.abs.data (blobRead r0 ref).1) ∧
      (∀ r0, BlobRT.Healthy e'.pw.abs.data r0 → ∀ pc pts s n, Entry.cloud pc pts s n ∈ g →
        ∃ r1 q, QR.new (MT.PointCloud.stored pc) r0 = (r1, some q) ∧
          RawIter.run (pts.length + 1) ⟨q, (MT.PointCloud.stored pc).records, 0⟩ r1
            = pts.map E57.Item.value ++ [E57.Item.done]) :=
  session_roundtrip_tr ft fp leanXo tr hS hfin hsz (sess_oracle_tr ft tr hS (textOK_of_finalize ft tr hS hft hfin) htr).2
    (sess_oracle_tr ft tr hS (textOK_of_finalize ft tr hS hft hfin) htr).1 hcr okpc okimg

/-- **`Session.open_finalized_tr`, closed** -/
theorem open_finalized_tr_closed {e e' : EW} {ops : List WOp} {g : List Entry} (ft : FloatText) (fp : FloatParse)
    (tr : String → Option String) (hS : Sess e .top ops g)
    (hfin : EW.finalize ft e tr = .ok e')
    (hsz : e'.pw.dev.data.length < 2 ^ 64)
    (hft : XmlP.FloatTextSafe ft) (htr : TrKeepsTree ft e tr)
    (hcr : ∀ d, e.root.creation = some d → MT.F64OK ft fp d.gpsTime)
    (okpc : ∀ pc ∈ e.pcs, MT.PointCloud.OK ft fp e.exts pc)
    (okimg : ∀ i ∈ e.imgs, MT.Image.OK ft fp i) :
    ∃ rd x0 xml, Reader.open e'.pw.dev.data leanXo fp = some rd ∧
      serializeRoot ft e.root e.pcs e.imgs e.exts = some x0 ∧ tr x0 = some xml ∧ rd.xml = utf8 xml ∧
      rd.header = ⟨e'.pw.dev.data.length, l2p e.pw.abs.cur, (utf8 xml).length, 1024⟩ ∧
      RootSame rd.root e.root ∧
      rd.pcs = e.pcs.map MT.PointCloud.stored ∧ rd.imgs = e.imgs ∧ rd.exts = e.exts ∧
      BlobRT.Healthy e'.pw.abs.data rd.pr :=
  open_finalized_tr ft fp leanXo tr hS hfin hsz (sess_oracle_tr ft tr hS (textOK_of_finalize ft tr hS hft hfin) htr).2
    (sess_oracle_tr ft tr hS (textOK_of_finalize ft tr hS hft hfin) htr).1 hcr okpc okimg

/-- **`Session.session_reads`, closed**: reading the items of the ghost list from the finished file with the reader
    `E57Reader::new` returns gives exactly the content handed to the writer -/
theorem session_reads_closed {e e' : EW} {ops : List WOp} {g : List Entry} (ft : FloatText) (fp : FloatParse)
    (tr : String → Option String) (hS : Sess e .top ops g)
    (hfin : EW.finalize ft e tr = .ok e')
    (hsz : e'.pw.dev.data.length < 2 ^ 64)
    (hft : XmlP.FloatTextSafe ft) (htr : TrKeepsTree ft e tr)
    (hcr : ∀ d, e.root.creation = some d → MT.F64OK ft fp d.gpsTime)
    (okpc : ∀ pc ∈ e.pcs, MT.PointCloud.OK ft fp e.exts pc)
    (okimg : ∀ i ∈ e.imgs, MT.Image.OK ft fp i) :
    ∃ rd, Reader.open e'.pw.dev.data leanXo fp = some rd ∧ RootSame rd.root e.root ∧ rd.exts = e.exts ∧
      g.map (readEntry rd.pr) = g.map (fun it => some it.content) :=
  session_reads ft fp leanXo tr hS hfin hsz (sess_oracle_tr ft tr hS (textOK_of_finalize ft tr hS hft hfin) htr).2
    (sess_oracle_tr ft tr hS (textOK_of_finalize ft tr hS hft hfin) htr).1 hcr okpc okimg

/-- **`Session.copy_idempotent`, closed**: a file and a copy of it, both read with the Lean front end -/
theorem copy_idempotent_closed {e1 e1' e2 e2' : EW} {ops1 ops2 : List WOp} {g1 g2 : List Entry}
    (ft : FloatText) (fp : FloatParse) (tr1 tr2 : String → Option String)
    (hS1 : Sess e1 .top ops1 g1) (hS2 : Sess e2 .top ops2 g2)
    (hfin1 : EW.finalize ft e1 tr1 = .ok e1') (hfin2 : EW.finalize ft e2 tr2 = .ok e2')
    (hsame : g1.map Entry.content = g2.map Entry.content)
    (hroot : e1.root = e2.root) (hexts : e1.exts = e2.exts)
    (hsz1 : e1'.pw.dev.data.length < 2 ^ 64) (hsz2 : e2'.pw.dev.data.length < 2 ^ 64)
    (hft : XmlP.FloatTextSafe ft)
    (htr1 : TrKeepsTree ft e1 tr1) (htr2 : TrKeepsTree ft e2 tr2)
    (hcr : ∀ d, e1.root.creation = some d → MT.F64OK ft fp d.gpsTime)
    (okpc1 : ∀ pc ∈ e1.pcs, MT.PointCloud.OK ft fp e1.exts pc)
    (okpc2 : ∀ pc ∈ e2.pcs, MT.PointCloud.OK ft fp e2.exts pc)
    (okimg1 : ∀ i ∈ e1.imgs, MT.Image.OK ft fp i) (okimg2 : ∀ i ∈ e2.imgs, MT.Image.OK ft fp i) :
    ∃ rd1 rd2, Reader.open e1'.pw.dev.data leanXo fp = some rd1 ∧
      Reader.open e2'.pw.dev.data leanXo fp = some rd2 ∧
      g1.map (readEntry rd1.pr) = g2.map (readEntry rd2.pr) ∧
      rd1.exts = rd2.exts ∧ rd1.root.guid = rd2.root.guid ∧ rd1.root.creation = rd2.root.creation ∧
      rd1.root.coordinateMetadata = rd2.root.coordinateMetadata ∧
      rd1.root.libraryVersion = rd2.root.libraryVersion :=
  copy_idempotent ft fp leanXo leanXo tr1 tr2 hS1 hS2 hfin1 hfin2 hsame hroot hexts hsz1 hsz2
    (sess_oracle_tr ft tr1 hS1 (textOK_of_finalize ft tr1 hS1 hft hfin1) htr1).2 (sess_oracle_tr ft tr2 hS2 (textOK_of_finalize ft tr2 hS2 hft hfin2) htr2).2
    (sess_oracle_tr ft tr1 hS1 (textOK_of_finalize ft tr1 hS1 hft hfin1) htr1).1 (sess_oracle_tr ft tr2 hS2 (textOK_of_finalize ft tr2 hS2 hft hfin2) htr2).1
    hcr okpc1 okpc2 okimg1 okimg2

open Interrupt in
/-- **`Interrupt.finalize_crash`, closed**: the crash images of `finalize` itself, read with the Lean front end -/
theorem finalize_crash_closed {e : EW} {c : Cur} {l : List WOp} (h : Reach e c l)
    (ft : FloatText) (tr : String → Option String) (e' : EW) (hf : EW.finalize ft e tr = .ok e')
    (fp : FloatParse) :
    ∃ (xml : String) (L L' : Log) (old : Bytes),
      runConcrete (l ++ finalizeOps e.pw (utf8 xml)) w0 = .ok e'.pw ∧
      runLog (l ++ finalizeOps e.pw (utf8 xml)) w0 =
        L ++ (0, newPage0 old old.length e.pw.physicalPosition (utf8 xml).length) :: L' ∧
      applyWrites L [] = old ∧ old.take 48 = hdr0 ∧ 1024 ≤ old.length ∧
      e'.pw.dev.data = devWrite old (0, newPage0 old old.length e.pw.physicalPosition (utf8 xml).length) ∧
      (∀ k cut, k < L.length →
        Reader.open (crashImage (runLog (l ++ finalizeOps e.pw (utf8 xml)) w0) [] k cut) leanXo fp = none) ∧
      (∀ cut, crashImage (runLog (l ++ finalizeOps e.pw (utf8 xml)) w0) [] L.length cut =
        tornHeader old old.length e.pw.physicalPosition (utf8 xml).length cut) ∧
      (∀ k cut, L.length < k →
        crashImage (runLog (l ++ finalizeOps e.pw (utf8 xml)) w0) [] k cut = e'.pw.dev.data) :=
  finalize_crash h ft tr e' hf leanXo fp (leanXo_rejects_empty fp)

/-! ## 5b. C02 on the closed file -/

/-- the root check of the independent decoder passes on the writer's document -/
theorem rootDoc_root (ft : FloatText) (root : Root) (pcs : List PointCloud) (imgs : List Image)
    (exts : List (String × String)) (doc : XDoc) (h : MT.rootDoc ft root pcs imgs exts = some doc) :
    (match doc.root with
      | XNode.elem ns _ name _ _ => (name == "e57Root" && ns == some e57Ns) = true
      | _ => False) := by
  unfold MT.rootDoc at h
  split at h
  · cases h
  · cases h
    show ("e57Root" == "e57Root" && some XNode.e57NsUri == some e57Ns) = true
    decide

open WF in
/-- **`WF.C02_closed_file`, with the parser closed** (plain `finalize`): the document handed to the independent
    decoder is no longer arbitrary — it is the one the Lean front end returns for the XML section of the file,
    and it is the tree `MT.rootDoc` of the writer's document; the root-element check is discharged.  `e` is any
    writer state whose page writer is the one left by the section (not necessarily a session), so `XmlP.InputOK`
    is a hypothesis here.  What remains about the XML is the WALK of the decoder over this known document
    (`walkNode … = .ok w` with the one points reference): the walk is not analysed in `WellFormed.lean`. -/
theorem C02_closed_file_closed (pw : PW) (exts : List (String × String)) (guid : String)
    (proto : Prototype) (pts : List (List Value))
    (hpw : pw.Inv) (hal : pw.abs.cur % 4 = 0) (h48 : 48 ≤ pw.abs.cur)
    (hi : ProtoI64 proto) (hn : NoDupNames proto)
    (pw0 : PW) (w0 : PcW) (hnew : PcW.new pw exts guid proto = .ok (pw0, w0))
    (hpts : ∀ pt ∈ pts, pt.length = proto.length ∧ checkValues proto pt = true) :
    ∃ pw1 w1 pw2 w2 pc,
      addPoints pts (pw0, w0) = .ok (pw1, w1) ∧ w1.finalize pw1 = .ok (pw2, w2, pc) ∧
      ∀ (ft : FloatText) (e e' : EW),
        e.pw = pw2 → EW.finalize ft e (fun x => some x) = .ok e' → e'.pw.dev.data.length < 2 ^ 64 →
        XmlP.InputOK ft e.root e.pcs e.imgs e.exts →
        PagesOk e'.pw.dev.data e'.pw.abs.data ∧
        CloudOk e'.pw.dev.data e'.pw.abs.data pc.fileOffset pc.records proto.length (pointBits proto = 0)
          (dataChunks (Layout.streamsOf (specTypes proto) (specPoints pts)) (emitted pw exts guid proto pts)
            (List.replicate (specTypes proto).length 0)) ∧
        ∃ xml doc, serializeRoot ft e.root e.pcs e.imgs e.exts = some xml ∧
          leanXo (utf8 xml) = some doc ∧ MT.rootDoc ft e.root e.pcs e.imgs e.exts = some doc ∧
          HeaderOk e'.pw.dev.data e'.pw.abs.data (utf8 xml) ∧
          ∀ (fp : FloatParse) (w : Walk) (pr : PointsRef),
            walkNode fp (doc.rootNamespaces.map (·.2)) "" doc.root {} = .ok w →
            w.points = [pr] → w.blobs = [] →
            pr.fileOffset = pc.fileOffset → pr.recordCount = pc.records →
            pr.prototype.mapM (fun (x : String × XNode) => recordType x.2)
              = .ok (proto.map (fun r => decType r.dt)) →
            decodeFile e'.pw.dev.data (utf8 xml) doc fp []
              = .ok ⟨w.leaves.reverse,
                  [(pr.path, pts.map (fun p => (List.range proto.length).map (fun i =>
                    entryText (Layout.dtAt proto i) (p.getD i (.integer 0)))))], []⟩ := by
  obtain ⟨pw1, w1, pw2, w2, pc, e1, e2, h⟩ :=
    C02_closed_file pw exts guid proto pts hpw hal h48 hi hn pw0 w0 hnew hpts
  refine ⟨pw1, w1, pw2, w2, pc, e1, e2, ?_⟩
  intro ft e e' he hfin hsz hin
  obtain ⟨p1, p2, xml0, xml, hs, ht, rest⟩ := h ft e e' (fun x => some x) he hfin hsz
  cases ht
  obtain ⟨hH, hdec⟩ := rest (serializeRoot_nonempty ft _ _ _ _ xml0 hs)
  have hor := leanXo_serialize ft _ _ _ _ hin xml0 hs
  have hsome : (MT.rootDoc ft e.root e.pcs e.imgs e.exts).isSome = true := by
    rw [MT.rootDoc_isSome_iff, hs]; rfl
  obtain ⟨doc, hdoc⟩ := Option.isSome_iff_exists.mp hsome
  refine ⟨p1, p2, xml0, doc, hs, hor.trans hdoc, hdoc, hH, ?_⟩
  intro fp w pr hw hp hb ho hc hm
  exact hdec doc fp w pr (rootDoc_root ft _ _ _ _ doc hdoc) hw hp hb ho hc hm

/-! ## 6. non-vacuity -/

namespace Ex
open E57.Interrupt E57.Session.Ex

/-- the example: `E57Writer::new`, one registered extension, root metadata with a string full of
    characters that need escaping -/
def exRoot : Root := { guid := "g", libraryVersion := some "l", coordinateMetadata := some "a<b&c]]>d\r\n\"'" }
def exExts : List (String × String) := [("ext", "http://x.y/z?a&b")]
def exE : EW := { exE0 with exts := exExts, root := exRoot }

theorem ex_valid : validName "ext" = true := by decide +kernel

theorem ex_register : exE0.registerExtension "ext" "http://x.y/z?a&b" = .ok { exE0 with exts := exExts } := by
  unfold EW.registerExtension
  rw [ex_valid]
  have h1 : exE0.exts = [] := rfl
  rw [h1]
  have h2 : ("http://x.y/z?a&b" == "http://www.w3.org/XML/1998/namespace" ||
    "http://x.y/z?a&b" == "http://www.w3.org/2000/xmlns/") = false := by decide
  simp only [h2, Bool.not_true, Bool.false_eq_true, if_false, List.any_nil]
  rfl

theorem ex_sess : Sess exE .top [WOp.write hdr0] [] :=
  Sess.setRoot exRoot (Sess.ext (Sess.new ex_new) ex_register)


set_option maxRecDepth 100000 in
/-- the XML of the example has at most 10 MiB (evaluated by the kernel) -/
theorem ex_small :
    (serializeRoot MT.Example.ft exRoot [] [] exExts).all (fun x => x.utf8ByteSize ≤ 10485760) = true := by
  decide +kernel

/-- the input hypotheses `TextOK` hold for the example -/
theorem ex_textOK : TextOK MT.Example.ft exE where
  floats := XmlP.FloatTextSafe_of_table _ (by decide) (by decide)
  urls := by decide
  rootStr := by decide
  pcStr := by intro pc h; cases h
  imgStr := by intro i h; cases h

/-- **non-vacuity of `session_roundtrip_closed`**: for the example session (`new`, `register_extension`, root
    metadata) with the float tables of `MT.Example`, EVERY hypothesis of the closed theorem holds — `finalize`
    succeeds, the file is below 2^64 bytes, `TextOK` — and the reader with the Lean front end opens the device
    bytes and reports the root fields and the extension.  No hypothesis is left. -/
theorem closed_instance :
    ∃ e' rd, EW.finalize MT.Example.ft exE (fun x => some x) = .ok e' ∧
      e'.pw.dev.data.length < 2 ^ 64 ∧ TextOK MT.Example.ft exE ∧
      Reader.open e'.pw.dev.data leanXo MT.Example.fp = some rd ∧
      RootSame rd.root exRoot ∧ rd.pcs = [] ∧ rd.imgs = [] ∧ rd.exts = exExts := by
  have hS := ex_sess
  have hT : TopInv exE.pw [] := sess_inv hS
  have hIn := inputOK_of_sess MT.Example.ft hS ex_textOK
  have hs : ∃ x0, serializeRoot MT.Example.ft exRoot [] [] exExts = some x0 := by
    unfold serializeRoot
    have : exRoot.guid.isEmpty = false := by decide
    rw [this]
    exact ⟨_, rfl⟩
  obtain ⟨x0, hx0⟩ := hs
  have hsmall : (utf8 x0).length ≤ 1024 * 1024 * 10 := by
    have := ex_small
    rw [hx0] at this
    rw [utf8_length]
    simpa using this
  obtain ⟨e', he'⟩ := BlobRT.finalize_ok MT.Example.ft exE (fun x => some x) hT.inv x0 x0 hx0
    (XmlP.finalize_chars_pass _ _ _ _ _ hIn x0 hx0) rfl hsmall
  have hsz : e'.pw.dev.data.length < 2 ^ 64 := by
    obtain ⟨y0, y, hy0, hy, i', a', d'⟩ := finalize_exact MT.Example.ft exE e' _ hT.inv he'
    cases hy
    have hxy : y0 = x0 := by
      have : some y0 = some x0 := hy0.symm.trans hx0
      cases this; rfl
    subst hxy
    have wf := abs_wf exE.pw hT.inv
    have ff := final_facts exE.pw.abs (utf8 y0) wf.1 wf.2 hT.h48
    have h1 := ff.len
    obtain ⟨a1, a2⟩ := RoundTrip.write_wf exE.pw.abs (utf8 y0) wf.2
    have hl : exE.pw.abs.data.length = 1020 := by
      show w1.abs.data.length = 1020
      obtain ⟨w', e, hi, ha⟩ := pw_writeAll w0 hdr0 w0_inv
      rw [w0_write_hdr0] at e
      cases e
      have h0 : w0.abs = LogStream.init := by rw [w0_rep.abs_eq]; rfl
      rw [ha, h0, spec_write_length _ _ (Nat.le_refl _), hdr0_length]
      rfl
    have h2 : (exE.pw.abs.write (utf8 y0)).align.data.length ≤ 1020 + 10485760 + 2040 := by
      unfold LogStream.align
      split
      · rw [spec_write_length _ _ a1, spec_write_length _ _ wf.2, spec_write_cur, zeros_length]
        have := wf.2
        omega
      · rw [spec_write_length _ _ wf.2]
        have := wf.2
        omega
    rw [d', image_length _ (abs_wf e'.pw i').1, a', h1]
    omega
  obtain ⟨rd, ho, hroot, hpcs, _, himgs, hexts, _⟩ :=
    session_roundtrip_closed MT.Example.ft MT.Example.fp hS he' hsz ex_textOK.floats
      (by intro d h; cases h) (by intro pc h; cases h) (by intro i h; cases h)
  exact ⟨e', rd, he', hsz, ex_textOK, ho, hroot, hpcs, himgs, hexts⟩

end Ex
end E57.Closed
