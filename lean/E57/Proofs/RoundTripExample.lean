/-
Slow non-vacuity check for E57.Proofs.RoundTrip (C01): the whole pipeline evaluated by the kernel on
the concrete session `LayoutEx` (3 records: 10-bit integer, f32, 4-bit integer; 2 points; the
32-byte section header straddles the page boundary at 1020): `PcW.new`, two `add_point`s,
`finalize`, `flush`; `PagedReader::new` on the DEVICE BYTES the page writer produced (checksums
included, verified by the reader), `QueueReader::new` from the metadata `finalize` pushed, three
calls of the raw iterator: the two points, bit-identical and in order, then `done`.
CRC-32C over 1020-byte pages is evaluated several times: about 65 s, 6-7 GB.  Not imported by E57.lean.
-/
import E57.Proofs.RoundTrip
namespace E57
namespace RoundTrip
namespace Ex

def exCheck : Bool :=
  match LayoutEx.run with
  | some (pw2, pc) =>
    match PR.new ⟨pw2.flush.dev.data, 0⟩ 1024 with
    | .ok r0 =>
      match QR.new pc r0 with
      | (r1, some q) =>
        match RawIter.run 3 ⟨q, pc.records, 0⟩ r1 with
        | [.value a, .value b, .done] =>
          a == [.integer 1000, .single 0x3f800000, .integer (-5)] &&
          b == [.integer 7, .single 0, .integer 5] &&
          [a, b] == LayoutEx.pts
        | _ => false
      | _ => false
    | _ => false
  | none => false

set_option maxRecDepth 100000 in
theorem exCheck_true : exCheck = true := by decide +kernel

end Ex
end RoundTrip
end E57
