/-
C08 / C09 for the reader model (E57/Model/Reader.lean): bit buffers never reach a panic site,
the queue reader never fails because of a bit buffer, every step of an iterator is bounded by the
bytes of the file, an iterator yields at most `records` points, opening and blob reads are bounded.
Records of zero bit size are constants of the prototype and are not queued (`constOf`): the values one
`advance` adds to all queues together are linear in the bytes of the packet
(`advance_queue_growth_linear`), and the queue of such a record stays empty (`reader_constants_unqueued`).
Core Lean only.
-/
import E57.Model.Reader
import E57.Proofs.BitsRead
import E57.Proofs.PagesRead
import E57.Proofs.HeaderPage
import E57.Props.C12
namespace E57

/-! ## A. bit buffers never hit a panic site -/

/-- the cursor lies inside the bytes held -/
def RBuf.WF (r : RBuf) : Prop := r.offset ≤ r.buffer.length * 8

/-- bits still available (the value `available()` returns under `WF`) -/
def RBuf.avail (r : RBuf) : Nat := r.buffer.length * 8 - r.offset

theorem RBuf.wf_rep (r : RBuf) (h : r.WF) : r.Rep r.buffer r.offset := by
  unfold RBuf.WF at h
  exact ⟨0, by omega, by omega, by simp, by simp, by omega⟩

theorem RBuf.rep_wf (r : RBuf) (S : Bytes) (P : Nat) (h : r.Rep S P) : r.WF := by
  obtain ⟨c, h1, h2, hb, ho, h3⟩ := h
  have hlen : r.buffer.length = S.length - c := by rw [hb]; simp
  unfold RBuf.WF; omega

/-- `WF` is exactly "represents some abstract stream state" -/
theorem RBuf.wf_iff_rep (r : RBuf) : r.WF ↔ ∃ S P, r.Rep S P :=
  ⟨fun h => ⟨_, _, r.wf_rep h⟩, fun ⟨S, P, h⟩ => r.rep_wf S P h⟩

theorem RBuf.wf_new : RBuf.new.WF := by simp [RBuf.WF, RBuf.new]

/-- A1 `append`: always `.ok`, keeps `WF`, adds exactly `8 * |data|` available bits and holds at
    most the bytes held before plus `|data|` -/
theorem RBuf.append_wf (r : RBuf) (d : Bytes) (h : r.WF) :
    ∃ r', r.append d = .ok r' ∧ r'.WF ∧
      r'.buffer.length = r.buffer.length - r.offset / 8 + d.length ∧
      r'.avail = r.avail + 8 * d.length := by
  unfold RBuf.WF at h
  have hc : ¬ (r.offset / 8 > r.buffer.length) := by omega
  refine ⟨⟨r.buffer.drop (r.offset / 8) ++ d, r.offset - r.offset / 8 * 8⟩, ?_, ?_, ?_, ?_⟩
  · simp [RBuf.append, hc]
  · simp only [RBuf.WF, List.length_append, List.length_drop]; omega
  · simp only [List.length_append, List.length_drop]
  · simp only [RBuf.avail, List.length_append, List.length_drop]; omega

theorem RBuf.available_wf (r : RBuf) (h : r.WF) : r.available = .ok r.avail := by
  unfold RBuf.WF at h
  have hn : ¬ (r.offset > r.buffer.length * 8) := by omega
  simp [RBuf.available, hn, RBuf.avail]

/-- A1 `extract`: for widths ≤ 64 the result is `.ok`; `none` (state unchanged) exactly when too
    few bits remain, otherwise the cursor advances by `bits` -/
theorem RBuf.extract_wf (r : RBuf) (bits : Nat) (h : r.WF) (hw : bits ≤ 64) :
    (r.avail < bits ∧ r.extract bits = .ok (none, r)) ∨
    (bits ≤ r.avail ∧ ∃ v, r.extract bits = .ok (some v, ⟨r.buffer, r.offset + bits⟩) ∧ v < 2 ^ 64) := by
  have hav := r.available_wf h
  unfold RBuf.WF at h
  by_cases hlt : r.avail < bits
  · left
    exact ⟨hlt, by simp [RBuf.extract, hav, hlt]⟩
  · right
    have hge : bits ≤ r.avail := by omega
    unfold RBuf.avail at hge
    have hdl : ¬ ((r.offset + bits + 7) / 8 - r.offset / 8 > 16) := by omega
    have hend : ¬ ((r.offset + bits + 7) / 8 > r.buffer.length) := by omega
    refine ⟨by unfold RBuf.avail; omega,
      (leVal ((r.buffer.drop (r.offset / 8)).take ((r.offset + bits + 7) / 8 - r.offset / 8))
              >>> (r.offset % 8)) % 2 ^ 64, ?_, Nat.mod_lt _ (Nat.two_pow_pos _)⟩
    simp only [RBuf.extract, hav, hlt, hdl, hend, if_false]

theorem RBuf.extract_wf' (r : RBuf) (bits : Nat) (h : r.WF) (hw : bits ≤ 64) :
    ∃ o r', r.extract bits = .ok (o, r') ∧ r'.WF := by
  rcases r.extract_wf bits h hw with ⟨_, e⟩ | ⟨hge, v, e, _⟩
  · exact ⟨none, r, e, h⟩
  · refine ⟨some v, _, e, ?_⟩
    unfold RBuf.WF RBuf.avail at *
    simp only; omega

theorem RBuf.extract_no_panic (r : RBuf) (bits : Nat) (h : r.WF) (hw : bits ≤ 64) :
    (r.extract bits).isOk = true := by
  obtain ⟨o, r', e, _⟩ := r.extract_wf' bits h hw
  rw [e]; rfl

/-- A1 the integer unpack loop, ANY fuel: `.ok`, `WF` kept, `k` values produced and `k * bits`
    bits consumed; with enough fuel fewer than `bits` bits remain -/
theorem unpackIntsLoop_wf (bits : Nat) (min : Int) (hb0 : 0 < bits) (hb : bits ≤ 64) :
    ∀ (fuel : Nat) (r : RBuf) (acc : List Int), r.WF →
      ∃ vs r' k, unpackIntsLoop bits min fuel r acc = .ok (vs, r') ∧ r'.WF ∧
        r'.buffer = r.buffer ∧ r'.offset = r.offset + k * bits ∧ vs.length = acc.length + k ∧
        (r.avail / bits < fuel → r'.avail < bits) := by
  intro fuel
  induction fuel with
  | zero =>
    intro r acc h
    exact ⟨acc.reverse, r, 0, rfl, h, rfl, by simp, by simp, fun h => absurd h (Nat.not_lt_zero _)⟩
  | succ fuel ih =>
    intro r acc h
    rcases r.extract_wf bits h hb with ⟨hlt, e⟩ | ⟨hge, v, e, _⟩
    · refine ⟨acc.reverse, r, 0, ?_, h, rfl, by simp, by simp, fun _ => hlt⟩
      rw [unpackIntsLoop, e]
    · have hwf' : RBuf.WF ⟨r.buffer, r.offset + bits⟩ := by
        unfold RBuf.WF RBuf.avail at *; simp only; omega
      obtain ⟨vs, r', k, hrun, hwf, hbuf, hoff, hlen, hrem⟩ :=
        ih ⟨r.buffer, r.offset + bits⟩
          (u64ToI64 (i64ToU64 (((v % 2 ^ bits : Nat) : Int) + min)) :: acc) hwf'
      refine ⟨vs, r', k + 1, ?_, hwf, hbuf, ?_, ?_, ?_⟩
      · rw [unpackIntsLoop, e]; exact hrun
      · rw [hoff, Nat.succ_mul]; simp only; omega
      · rw [hlen]; simp; omega
      · intro hf
        apply hrem
        have hk : r.avail / bits = (RBuf.avail ⟨r.buffer, r.offset + bits⟩) / bits + 1 := by
          have : r.avail = RBuf.avail ⟨r.buffer, r.offset + bits⟩ + bits := by
            unfold RBuf.avail at *; simp only; omega
          rw [this, Nat.add_div_right _ hb0]
        omega

theorem unpackFixedLoop_wf (bits : Nat) (hb0 : 0 < bits) (hb : bits ≤ 64) :
    ∀ (fuel : Nat) (r : RBuf) (acc : List Nat), r.WF →
      ∃ vs r' k, unpackFixedLoop bits fuel r acc = .ok (vs, r') ∧ r'.WF ∧
        r'.buffer = r.buffer ∧ r'.offset = r.offset + k * bits ∧ vs.length = acc.length + k ∧
        (r.avail / bits < fuel → r'.avail < bits) := by
  intro fuel
  induction fuel with
  | zero =>
    intro r acc h
    exact ⟨acc.reverse, r, 0, rfl, h, rfl, by simp, by simp, fun h => absurd h (Nat.not_lt_zero _)⟩
  | succ fuel ih =>
    intro r acc h
    rcases r.extract_wf bits h hb with ⟨hlt, e⟩ | ⟨hge, v, e, _⟩
    · refine ⟨acc.reverse, r, 0, ?_, h, rfl, by simp, by simp, fun _ => hlt⟩
      rw [unpackFixedLoop, e]
    · have hwf' : RBuf.WF ⟨r.buffer, r.offset + bits⟩ := by
        unfold RBuf.WF RBuf.avail at *; simp only; omega
      obtain ⟨vs, r', k, hrun, hwf, hbuf, hoff, hlen, hrem⟩ :=
        ih ⟨r.buffer, r.offset + bits⟩ ((v % 2 ^ bits) :: acc) hwf'
      refine ⟨vs, r', k + 1, ?_, hwf, hbuf, ?_, ?_, ?_⟩
      · rw [unpackFixedLoop, e]; exact hrun
      · rw [hoff, Nat.succ_mul]; simp only; omega
      · rw [hlen]; simp; omega
      · intro hf
        apply hrem
        have hk : r.avail / bits = (RBuf.avail ⟨r.buffer, r.offset + bits⟩) / bits + 1 := by
          have : r.avail = RBuf.avail ⟨r.buffer, r.offset + bits⟩ + bits := by
            unfold RBuf.avail at *; simp only; omega
          rw [this, Nat.add_div_right _ hb0]
        omega

/-- arithmetic core of A2: `k` fields of `bits` bits were taken from `A` available bits and fewer
    than `bits` remain -/
theorem count_eq_div (A k bits : Nat) (h1 : k * bits ≤ A) (h2 : A - k * bits < bits) :
    k = A / bits := by
  have hb : 0 < bits := by omega
  exact (Nat.div_eq_of_lt_le h1 (by rw [Nat.succ_mul]; omega)).symm

theorem avail_div_le (r : RBuf) (bits : Nat) : r.avail / bits ≤ 8 * r.buffer.length := by
  have := Nat.div_le_self r.avail bits
  unfold RBuf.avail at *; omega

/-- the width `unpackInts` computes is `integerBits`, positive and at most 64 -/
theorem unpack_bits (min max : Int) (hlt : min < max) (hmin : inI64 min = true)
    (hmax : inI64 max = true) :
    (max - min).toNat.log2 + 1 = integerBits min max ∧ 0 < integerBits min max ∧
      integerBits min max ≤ 64 := by
  have hr : max - min > 0 := by omega
  have e : integerBits min max = (max - min).toNat.log2 + 1 := by simp [integerBits, hlt]
  exact ⟨e.symm, by omega, C12.integerBits_le_64 min max (by omega) hmin hmax⟩

/-- A1 + A2 for `unpackInts` -/
theorem unpackInts_wf (r : RBuf) (min max : Int) (h : r.WF) (hlt : min < max)
    (hmin : inI64 min = true) (hmax : inI64 max = true) :
    ∃ vs r', unpackInts r min max = .ok (vs, r') ∧ r'.WF ∧ r'.buffer = r.buffer ∧
      vs.length = r.avail / integerBits min max ∧
      r'.offset = r.offset + vs.length * integerBits min max ∧
      r'.avail < integerBits min max := by
  obtain ⟨eb, hb0, hb⟩ := unpack_bits min max hlt hmin hmax
  have hr : ¬ (max - min ≤ 0) := by omega
  obtain ⟨vs, r', k, hrun, hwf, hbuf, hoff, hlen, hrem⟩ :=
    unpackIntsLoop_wf (integerBits min max) min hb0 hb (r.buffer.length * 8 + 1) r [] h
  have hfuel : r.avail / integerBits min max < r.buffer.length * 8 + 1 := by
    have := avail_div_le r (integerBits min max); omega
  have hrem' := hrem hfuel
  have hk : k = r.avail / integerBits min max := by
    apply count_eq_div
    · unfold RBuf.WF at hwf; unfold RBuf.avail; rw [hbuf] at hwf; omega
    · unfold RBuf.avail at hrem' ⊢; rw [hbuf] at hrem'; omega
  simp only [List.length_nil, Nat.zero_add] at hlen
  refine ⟨vs, r', ?_, hwf, hbuf, by omega, by rw [hlen]; exact hoff, hrem'⟩
  simp only [unpackInts, hr, if_false, eb]
  exact hrun

/-- A1 + A2 for `unpackFixed` (used with 32 and 64) -/
theorem unpackFixed_wf (bits : Nat) (r : RBuf) (h : r.WF) (hb0 : 0 < bits) (hb : bits ≤ 64) :
    ∃ vs r', unpackFixed bits r = .ok (vs, r') ∧ r'.WF ∧ r'.buffer = r.buffer ∧
      vs.length = r.avail / bits ∧ r'.offset = r.offset + vs.length * bits ∧ r'.avail < bits := by
  obtain ⟨vs, r', k, hrun, hwf, hbuf, hoff, hlen, hrem⟩ :=
    unpackFixedLoop_wf bits hb0 hb (r.buffer.length * 8 + 1) r [] h
  have hfuel : r.avail / bits < r.buffer.length * 8 + 1 := by
    have := avail_div_le r bits; omega
  have hrem' := hrem hfuel
  have hk : k = r.avail / bits := by
    apply count_eq_div
    · unfold RBuf.WF at hwf; unfold RBuf.avail; rw [hbuf] at hwf; omega
    · unfold RBuf.avail at hrem' ⊢; rw [hbuf] at hrem'; omega
  simp only [List.length_nil, Nat.zero_add] at hlen
  exact ⟨vs, r', hrun, hwf, hbuf, by omega, by rw [hlen]; exact hoff, hrem'⟩

theorem unpackFixed32_wf (r : RBuf) (h : r.WF) :
    ∃ vs r', unpackFixed 32 r = .ok (vs, r') ∧ r'.WF ∧ r'.buffer = r.buffer ∧
      vs.length = r.avail / 32 ∧ r'.offset = r.offset + vs.length * 32 ∧ r'.avail < 32 :=
  unpackFixed_wf 32 r h (by decide) (by decide)

theorem unpackFixed64_wf (r : RBuf) (h : r.WF) :
    ∃ vs r', unpackFixed 64 r = .ok (vs, r') ∧ r'.WF ∧ r'.buffer = r.buffer ∧
      vs.length = r.avail / 64 ∧ r'.offset = r.offset + vs.length * 64 ∧ r'.avail < 64 :=
  unpackFixed_wf 64 r h (by decide) (by decide)

/-- A2: one `unpackInts` call yields at most `avail / bits ≤ 8 * bytes held` values and leaves
    fewer than `bits` bits -/
theorem unpack_bounded (r : RBuf) (min max : Int) (h : r.WF) (hlt : min < max)
    (hmin : inI64 min = true) (hmax : inI64 max = true) (vs : List Int) (r' : RBuf)
    (hrun : unpackInts r min max = .ok (vs, r')) :
    vs.length ≤ (r.buffer.length * 8 - r.offset) / integerBits min max ∧
    (r.buffer.length * 8 - r.offset) / integerBits min max ≤ 8 * r.buffer.length ∧
    r'.buffer.length * 8 - r'.offset < integerBits min max ∧
    r'.available = .ok (r'.buffer.length * 8 - r'.offset) := by
  obtain ⟨vs0, r0, e, hwf, _, hlen, _, hrem⟩ := unpackInts_wf r min max h hlt hmin hmax
  rw [e] at hrun; cases hrun
  exact ⟨Nat.le_of_eq hlen, avail_div_le r _, hrem, r'.available_wf hwf⟩

theorem unpackFixed_bounded (bits : Nat) (r : RBuf) (h : r.WF) (hb0 : 0 < bits) (hb : bits ≤ 64)
    (vs : List Nat) (r' : RBuf) (hrun : unpackFixed bits r = .ok (vs, r')) :
    vs.length ≤ (r.buffer.length * 8 - r.offset) / bits ∧
    (r.buffer.length * 8 - r.offset) / bits ≤ 8 * r.buffer.length ∧
    r'.buffer.length * 8 - r'.offset < bits ∧
    r'.available = .ok (r'.buffer.length * 8 - r'.offset) := by
  obtain ⟨vs0, r0, e, hwf, _, hlen, _, hrem⟩ := unpackFixed_wf bits r h hb0 hb
  rw [e] at hrun; cases hrun
  exact ⟨Nat.le_of_eq hlen, avail_div_le r _, hrem, r'.available_wf hwf⟩

/-- the guard `bitSize = 0` in `parseStream` is necessary: on a degenerate range `unpackInts`
    itself is a panic site (`ilog2` of a non-positive number) -/
theorem unpackInts_degenerate_panics (r : RBuf) (min max : Int) (h : max ≤ min) :
    unpackInts r min max = .panic "bitpack: ilog2 of non-positive range" := by
  have : max - min ≤ 0 := by omega
  simp only [unpackInts, this, if_true]

/-! ## page layer: how far one operation moves the cursor -/

theorem pr_read_length_le (r : PR) (n : Nat) (r' : PR) (bs : Bytes) (h : r.read n = .ok (r', bs)) :
    bs.length ≤ n := by
  by_cases hp : r.pages ≤ r.offset / (r.pageSize - 4)
  · rw [pr_read_past r n hp] at h
    cases h; simp
  · have hp' : r.offset / (r.pageSize - 4) < r.pages := by omega
    by_cases hc : r.pageNum = some (r.offset / (r.pageSize - 4))
    · rw [pr_read_cached r n hp' hc] at h
      cases h
      simp only [List.length_take]; omega
    · rw [pr_read_uncached r n hp' hc] at h
      split at h
      · cases h
        simp only [List.length_take]; omega
      · cases h

/-- the cursor lies inside the logical file -/
def PR.InLog (r : PR) : Prop := r.offset ≤ r.logSize

/-- a successful `read` never leaves the logical file, and a non-empty one lands inside it -/
theorem pr_read_inLog (r : PR) (n : Nat) (r' : PR) (bs : Bytes) (hinv : r.CacheInv)
    (h : r.read n = .ok (r', bs)) :
    r'.logSize = r.logSize ∧ (r.InLog → r'.InLog) ∧ (bs ≠ [] → r'.InLog) := by
  have hsf := pr_read_data r n r' bs h
  have hlog : r'.logSize = r.logSize := hsf.2.2.2.1
  obtain ⟨h1, h2, h3, h4, h5, h6, h7⟩ := hinv
  have key : ∀ m, r.offset / (r.pageSize - 4) < r.pages →
      m ≤ r.pageSize - 4 - r.offset % (r.pageSize - 4) → r.offset + m ≤ r.logSize := by
    intro m hp hm
    have e := Nat.div_add_mod r.offset (r.pageSize - 4)
    have hml := Nat.mod_lt r.offset (show 0 < r.pageSize - 4 by omega)
    have h8 : (r.offset / (r.pageSize - 4) + 1) * (r.pageSize - 4) ≤ r.pages * (r.pageSize - 4) :=
      Nat.mul_le_mul_right _ hp
    rw [Nat.add_mul, Nat.mul_comm] at h8
    omega
  unfold PR.InLog
  rw [hlog]
  rcases pr_read_cases r n ⟨h1, h2, h3, h4, h5, h6, h7⟩ with
    ⟨_, e⟩ | ⟨hp, _, _, _, e⟩ | ⟨hp, hv, _, e⟩ | ⟨_, _, _, _, e⟩
  · rw [e] at h; cases h
    exact ⟨rfl, id, fun hne => absurd rfl hne⟩
  · rw [e] at h; cases h
    have := key _ hp (Nat.min_le_right n _)
    exact ⟨rfl, fun _ => this, fun _ => this⟩
  · rw [e] at h; cases h
    have := key _ hp (Nat.min_le_right n _)
    exact ⟨rfl, fun _ => this, fun _ => this⟩
  · rw [e] at h; cases h

/-- `read_exact`: the cursor only moves forward, by at most `n`; on success by exactly `n`, the
    bytes returned are `n` more than the accumulator, and the cursor is inside the logical file -/
theorem pr_readExactFuel_offset (fuel : Nat) :
    ∀ (r : PR) (n : Nat) (acc : Bytes) (r' : PR) (o : Option Bytes),
      r.CacheInv → PR.readExactFuel fuel r n acc = (r', o) →
      r.offset ≤ r'.offset ∧ r'.offset ≤ r.offset + n ∧ r'.logSize = r.logSize ∧
      (r.InLog → r'.InLog) ∧
      (∀ bs, o = some bs → r'.offset = r.offset + n ∧ bs.length = acc.length + n ∧
         (0 < n → r'.InLog)) := by
  induction fuel with
  | zero =>
    intro r n acc r' o hinv h
    cases n with
    | zero =>
      simp only [PR.readExactFuel] at h
      cases h
      exact ⟨Nat.le_refl _, Nat.le_refl _, rfl, id, fun bs hb => by cases hb; simp⟩
    | succ n =>
      simp only [PR.readExactFuel] at h
      cases h
      exact ⟨Nat.le_refl _, by omega, rfl, id, fun bs hb => by cases hb⟩
  | succ fuel ih =>
    intro r n acc r' o hinv h
    cases n with
    | zero =>
      simp only [PR.readExactFuel] at h
      cases h
      exact ⟨Nat.le_refl _, Nat.le_refl _, rfl, id, fun bs hb => by cases hb; simp⟩
    | succ n =>
      unfold PR.readExactFuel at h
      split at h
      · rename_i r1 bs e
        have hoff := pr_read_offset r _ r1 bs hinv e
        have hle := pr_read_length_le r _ r1 bs e
        obtain ⟨hlog, hkeep, hne⟩ := pr_read_inLog r _ r1 bs hinv e
        split at h
        · rename_i hemp
          cases h
          have : bs = [] := by simpa using hemp
          subst this
          simp only [List.length_nil, Nat.add_zero] at hoff
          exact ⟨by omega, by omega, hlog, hkeep, fun bs hb => by cases hb⟩
        · rename_i hemp
          have hbs : bs ≠ [] := by simpa using hemp
          have hpos : 0 < bs.length := List.length_pos_iff.mpr hbs
          obtain ⟨a1, a2, a3, a4, a5⟩ := ih r1 _ _ r' o (pr_read_inv r _ r1 bs hinv e) h
          have hin1 : r1.InLog := hne hbs
          have hin' : r'.InLog := a4 hin1
          refine ⟨by omega, by omega, a3.trans hlog, fun _ => hin', ?_⟩
          intro b hb
          obtain ⟨b1, b2, _⟩ := a5 b hb
          refine ⟨by omega, ?_, fun _ => hin'⟩
          rw [b2, List.length_append]; omega
      · cases h
        have := pr_readFail_data r
        exact ⟨by omega, by omega, this.1.2.2.2.1, fun hi => by unfold PR.InLog at *; rw [this.2, this.1.2.2.2.1]; exact hi,
          fun bs hb => by cases hb⟩

/-- outside the logical file nothing can be read: the cursor stays where it is -/
theorem pr_read_stuck (r : PR) (n : Nat) (hinv : r.CacheInv) (hn : ¬ r.InLog) :
    r.read n = .ok (r, []) := by
  obtain ⟨h1, h2, h3, h4, h5, h6, h7⟩ := hinv
  apply pr_read_past
  unfold PR.InLog at hn
  rw [Nat.le_div_iff_mul_le (by omega)]
  omega

theorem pr_readExactFuel_stuck (fuel : Nat) (r : PR) (n : Nat) (acc : Bytes) (hinv : r.CacheInv)
    (hn : ¬ r.InLog) : (PR.readExactFuel fuel r n acc).1.offset = r.offset := by
  cases fuel with
  | zero => cases n <;> rfl
  | succ fuel =>
    cases n with
    | zero => rfl
    | succ n =>
      unfold PR.readExactFuel
      rw [pr_read_stuck r _ hinv hn]
      rfl

/-- one page-layer step: invariant kept, same file, cursor moved forward by `lo … hi` bytes and
    not out of the logical file -/
def PR.Adv (r r' : PR) (lo hi : Nat) : Prop :=
  r'.CacheInv ∧ r.SameFile r' ∧ r.offset + lo ≤ r'.offset ∧ r'.offset ≤ r.offset + hi ∧
  (r.InLog → r'.InLog) ∧ (¬ r.InLog → r'.offset = r.offset)

theorem PR.Adv.refl (r : PR) (h : r.CacheInv) : r.Adv r 0 0 :=
  ⟨h, PR.SameFile.refl r, Nat.le_refl _, Nat.le_refl _, id, fun _ => rfl⟩

theorem PR.Adv.logSize {a b : PR} {l h : Nat} (x : a.Adv b l h) : b.logSize = a.logSize :=
  x.2.1.2.2.2.1

theorem PR.Adv.inLog {a b : PR} {l h : Nat} (x : a.Adv b l h) : a.InLog → b.InLog := x.2.2.2.2.1

theorem PR.Adv.stuck {a b : PR} {l h : Nat} (x : a.Adv b l h) : ¬ a.InLog → b.offset = a.offset :=
  x.2.2.2.2.2

theorem PR.Adv.trans {a b c : PR} {l1 h1 l2 h2 : Nat} (x : a.Adv b l1 h1) (y : b.Adv c l2 h2) :
    a.Adv c (l1 + l2) (h1 + h2) := by
  have hl := x.logSize
  obtain ⟨_, x2, x3, x4, x5, x6⟩ := x
  obtain ⟨y1, y2, y3, y4, y5, y6⟩ := y
  refine ⟨y1, x2.trans y2, by omega, by omega, fun h => y5 (x5 h), ?_⟩
  intro hn
  have e := x6 hn
  have : ¬ b.InLog := by unfold PR.InLog at *; rw [hl, e]; exact hn
  rw [y6 this, e]

theorem PR.Adv.weaken {a b : PR} {l1 h1 l2 h2 : Nat} (x : a.Adv b l1 h1) (hl : l2 ≤ l1)
    (hh : h1 ≤ h2) : a.Adv b l2 h2 := by
  obtain ⟨x1, x2, x3, x4, x5⟩ := x
  exact ⟨x1, x2, by omega, by omega, x5⟩

theorem PR.Adv.tighten {a b : PR} {l1 h1 : Nat} (x : a.Adv b l1 h1) (l2 h2 : Nat)
    (hl : a.offset + l2 ≤ b.offset) (hh : b.offset ≤ a.offset + h2) : a.Adv b l2 h2 := by
  obtain ⟨x1, x2, x3, x4, x5⟩ := x
  exact ⟨x1, x2, hl, hh, x5⟩

/-- `read_exact(n)` under the invariant -/
theorem pr_readExact_spec (r : PR) (n : Nat) (r' : PR) (o : Option Bytes) (hinv : r.CacheInv)
    (h : r.readExact n = (r', o)) :
    r.Adv r' 0 n ∧
    (∀ bs, o = some bs → r'.offset = r.offset + n ∧ bs.length = n ∧ (0 < n → r'.InLog)) := by
  obtain ⟨a1, a2, _, a4, a5⟩ := pr_readExactFuel_offset (n + 1) r n [] r' o hinv h
  have hi := pr_readExact_inv r n hinv
  have hd := pr_readExact_data r n
  rw [h] at hi hd
  refine ⟨⟨hi, hd, by omega, a2, a4, fun hn => ?_⟩, ?_⟩
  · have := pr_readExactFuel_stuck (n + 1) r n [] hinv hn
    unfold PR.readExact at h
    rw [h] at this
    exact this
  intro bs hb
  obtain ⟨b1, b2, b3⟩ := a5 bs hb
  exact ⟨b1, by simpa using b2, b3⟩

/-- requested in the task: a successful `read_exact(n)` consumes exactly `n` bytes -/
theorem pr_readExact_offset (r : PR) (n : Nat) (r' : PR) (bs : Bytes) (hinv : r.CacheInv)
    (h : r.readExact n = (r', some bs)) : r'.offset = r.offset + n :=
  ((pr_readExact_spec r n r' _ hinv h).2 bs rfl).1

theorem pr_readExact_length (r : PR) (n : Nat) (r' : PR) (bs : Bytes) (hinv : r.CacheInv)
    (h : r.readExact n = (r', some bs)) : bs.length = n :=
  ((pr_readExact_spec r n r' _ hinv h).2 bs rfl).2.1

/-- a successful non-empty `read_exact` ends inside the logical file: it fails if the file ends earlier -/
theorem pr_readExact_inLog (r : PR) (n : Nat) (r' : PR) (bs : Bytes) (hinv : r.CacheInv)
    (h : r.readExact n = (r', some bs)) (hn : 0 < n) : r.offset + n ≤ r.logSize := by
  obtain ⟨hadv, hs⟩ := pr_readExact_spec r n r' _ hinv h
  obtain ⟨e, _, hin⟩ := hs bs rfl
  have := hin hn
  unfold PR.InLog at this
  rw [hadv.logSize, e] at this
  exact this

theorem pr_align_spec (r r' : PR) (hinv : r.CacheInv) (h : r.align = .ok r') :
    r.Adv r' 0 3 ∧ r'.offset % 4 = 0 := by
  unfold PR.align at h
  simp only at h
  split at h
  · split at h
    · cases h
    · rename_i hm hle
      cases h
      refine ⟨⟨hinv, ⟨rfl, rfl, rfl, rfl, rfl⟩, by simp, by simp only; omega, ?_, ?_⟩, by simp only; omega⟩
      · intro _
        unfold PR.InLog
        simp only; omega
      · intro hn
        unfold PR.InLog at hn
        omega
  · rename_i hm
    cases h
    exact ⟨(PR.Adv.refl r hinv).weaken (Nat.le_refl _) (by omega), by omega⟩

theorem pr_seek_spec (r : PR) (p : Nat) (r' : PR) (o : Nat) (hinv : r.CacheInv)
    (h : r.seekPhysical p = .ok (r', o)) :
    r'.CacheInv ∧ r.SameFile r' ∧ r'.offset = o ∧ o = p - p / r.pageSize * 4 ∧ p < r.physSize := by
  have hd := pr_seek_data r p r' o h
  subst hd
  refine ⟨hinv, ⟨rfl, rfl, rfl, rfl, rfl⟩, rfl, ?_⟩
  unfold PR.seekPhysical at h
  split at h
  · cases h
  · rename_i hlt
    simp only [Outcome.ok.injEq, Prod.mk.injEq] at h
    exact ⟨h.2.symm, by omega⟩

/-! ## B1. the queue reader never fails because of a bit buffer -/

/-- what `RecordDataType::from_node` and the XML integer parser guarantee for a prototype entry -/
def DataType.RangeOk : DataType → Prop
  | .integer min max => min ≤ max ∧ inI64 min = true ∧ inI64 max = true
  | .scaled min max _ _ => min ≤ max ∧ inI64 min = true ∧ inI64 max = true
  | _ => True

def Prototype.RangeOk (p : Prototype) : Prop := ∀ rec ∈ p, rec.dt.RangeOk

def QR.WF (q : QR) : Prop :=
  q.streams.length = q.proto.length ∧ q.queues.length = q.proto.length ∧
  (∀ s ∈ q.streams, s.WF) ∧ Prototype.RangeOk q.proto

theorem bitSize_le_64 (dt : DataType) (h : dt.RangeOk) : dt.bitSize ≤ 64 := by
  cases dt with
  | single _ _ => simp [DataType.bitSize]
  | double _ _ => simp [DataType.bitSize]
  | scaled min max _ _ => exact C12.integerBits_le_64 min max h.1 h.2.1 h.2.2
  | integer min max => exact C12.integerBits_le_64 min max h.1 h.2.1 h.2.2

theorem lt_of_integerBits_ne_zero (min max : Int) (h : integerBits min max ≠ 0) : min < max := by
  by_cases hr : min < max
  · exact hr
  · exfalso; apply h
    have : ¬ (max - min > 0) := by omega
    unfold integerBits
    simp only [this, if_false]

/-- queue length after `parseStream`: a record of zero bit size is not queued -/
def newLen (dt : DataType) (s : RBuf) (q : List Value) : Nat :=
  if dt.bitSize = 0 then q.length else q.length + s.avail / dt.bitSize

/-- `parseStream` never takes its "unpack failed" branch on a well-formed buffer -/
theorem parseStream_spec (dt : DataType) (s : RBuf) (q : List Value) (hs : s.WF)
    (hr : dt.RangeOk) :
    ∃ s' q', parseStream dt s q = some (s', q') ∧ s'.WF ∧ s'.buffer = s.buffer ∧
      q'.length = newLen dt s q ∧
      (dt.bitSize ≠ 0 → s'.avail < dt.bitSize) ∧ (dt.bitSize = 0 → s' = s ∧ q' = q) := by
  cases dt with
  | single a b =>
    obtain ⟨vs, s', e, hwf, hbuf, hlen, _, hrem⟩ := unpackFixed32_wf s hs
    refine ⟨s', q ++ vs.map (fun v => Value.single (UInt32.ofNat v)), by simp only [parseStream, e],
      hwf, hbuf, ?_, fun _ => hrem, fun h => by cases h⟩
    simp [newLen, DataType.bitSize, hlen]
  | double a b =>
    obtain ⟨vs, s', e, hwf, hbuf, hlen, _, hrem⟩ := unpackFixed64_wf s hs
    refine ⟨s', q ++ vs.map (fun v => Value.double (UInt64.ofNat v)), by simp only [parseStream, e],
      hwf, hbuf, ?_, fun _ => hrem, fun h => by cases h⟩
    simp [newLen, DataType.bitSize, hlen]
  | scaled min max sc off =>
    by_cases hz : integerBits min max = 0
    · refine ⟨s, q,
        by simp only [parseStream, DataType.bitSize, hz, if_true], hs, rfl, ?_,
        fun h => absurd hz h, fun _ => ⟨rfl, rfl⟩⟩
      simp [newLen, DataType.bitSize, hz]
    · obtain ⟨vs, s', e, hwf, hbuf, hlen, _, hrem⟩ :=
        unpackInts_wf s min max hs (lt_of_integerBits_ne_zero min max hz) hr.2.1 hr.2.2
      refine ⟨s', q ++ vs.map Value.scaled,
        by simp only [parseStream, DataType.bitSize, hz, if_false, e], hwf, hbuf, ?_,
        fun _ => hrem, fun h => absurd h hz⟩
      simp [newLen, DataType.bitSize, hz, hlen]
  | integer min max =>
    by_cases hz : integerBits min max = 0
    · refine ⟨s, q,
        by simp only [parseStream, DataType.bitSize, hz, if_true], hs, rfl, ?_,
        fun h => absurd hz h, fun _ => ⟨rfl, rfl⟩⟩
      simp [newLen, DataType.bitSize, hz]
    · obtain ⟨vs, s', e, hwf, hbuf, hlen, _, hrem⟩ :=
        unpackInts_wf s min max hs (lt_of_integerBits_ne_zero min max hz) hr.2.1 hr.2.2
      refine ⟨s', q ++ vs.map Value.integer,
        by simp only [parseStream, DataType.bitSize, hz, if_false, e], hwf, hbuf, ?_,
        fun _ => hrem, fun h => absurd h hz⟩
      simp [newLen, DataType.bitSize, hz, hlen]

theorem parseStream_no_panic (dt : DataType) (s : RBuf) (q : List Value) (hs : s.WF)
    (hr : dt.RangeOk) : (parseStream dt s q).isSome = true := by
  obtain ⟨s', q', e, _⟩ := parseStream_spec dt s q hs hr
  rw [e]; rfl

/-- queue lengths after `parseStreams` -/
def newLens : List Record → List RBuf → List (List Value) → List Nat
  | r :: rs, s :: ss, q :: qs => newLen r.dt s q :: newLens rs ss qs
  | _, _, _ => []

theorem parseStreams_spec :
    ∀ (p : List Record) (ss : List RBuf) (qs : List (List Value)),
      ss.length = p.length → qs.length = p.length → (∀ s ∈ ss, s.WF) → Prototype.RangeOk p →
      ∃ ss' qs', parseStreams p ss qs = some (ss', qs') ∧ ss'.length = p.length ∧
        qs'.length = p.length ∧ (∀ s ∈ ss', s.WF) ∧
        ss'.map (·.buffer) = ss.map (·.buffer) ∧ qs'.map List.length = newLens p ss qs := by
  intro p
  induction p with
  | nil =>
    intro ss qs hl1 _ _ _
    have : ss = [] := by simpa using hl1
    subst this
    exact ⟨[], [], by simp [parseStreams], rfl, rfl, by simp, rfl, by simp [newLens]⟩
  | cons rec p ih =>
    intro ss qs hl1 hl2 hwf hr
    cases ss with
    | nil => simp at hl1
    | cons s ss =>
      cases qs with
      | nil => simp at hl2
      | cons q qs =>
        obtain ⟨s', q', e, hwf', hbuf, hlen, _, _⟩ :=
          parseStream_spec rec.dt s q (hwf s (by simp)) (hr rec (by simp))
        obtain ⟨ss', qs', e2, l1, l2, hwf2, hb2, hlen2⟩ :=
          ih ss qs (by simpa using hl1) (by simpa using hl2)
            (fun x hx => hwf x (by simp [hx])) (fun x hx => hr x (by simp [hx]))
        refine ⟨s' :: ss', q' :: qs', ?_, by simp [l1], by simp [l2], ?_, ?_, ?_⟩
        · simp [parseStreams, e, e2]
        · intro x hx
          rcases List.mem_cons.mp hx with rfl | hx
          · exact hwf'
          · exact hwf2 x hx
        · simp [hbuf, hb2]
        · simp [newLens, hlen, hlen2]

/-! ### reading the stream sizes and the streams -/

theorem leVal_two_le (b : Bytes) (h : b.length = 2) : leVal b ≤ 65535 := by
  have := leVal_lt b
  rw [h] at this
  have e : (2 : Nat) ^ (8 * 2) = 65536 := by decide
  omega

theorem readSizes_spec :
    ∀ (n : Nat) (r : PR) (acc : List Nat) (r' : PR) (o : Option (List Nat)),
      r.CacheInv → readSizes n r acc = (r', o) →
      r.Adv r' 0 (2 * n) ∧
      (∀ szs, o = some szs → r'.offset = r.offset + 2 * n ∧ szs.length = acc.length + n ∧
        ((∀ x ∈ acc, x ≤ 65535) → ∀ x ∈ szs, x ≤ 65535) ∧ (0 < n → r'.InLog)) := by
  intro n
  induction n with
  | zero =>
    intro r acc r' o hinv h
    simp only [readSizes] at h
    cases h
    exact ⟨PR.Adv.refl r hinv, fun szs hs => by
      cases hs
      exact ⟨rfl, by simp, fun ha x hx => ha x (by simpa using hx), fun h => absurd h (by omega)⟩⟩
  | succ n ih =>
    intro r acc r' o hinv h
    unfold readSizes at h
    split at h
    · rename_i r1 b e
      obtain ⟨hadv, hs⟩ := pr_readExact_spec r 2 r1 _ hinv e
      obtain ⟨e1, e2, e3⟩ := hs b rfl
      obtain ⟨hadv2, hs2⟩ := ih r1 _ r' o hadv.1 h
      refine ⟨(hadv.trans hadv2).weaken (by omega) (by omega), ?_⟩
      intro szs hsz
      obtain ⟨f1, f2, f3, _⟩ := hs2 szs hsz
      refine ⟨by omega, by rw [f2]; simp; omega, ?_, fun _ => hadv2.inLog (e3 (by omega))⟩
      intro ha
      apply f3
      intro x hx
      rcases List.mem_cons.mp hx with rfl | hx
      · exact leVal_two_le b e2
      · exact ha x hx
    · rename_i r1 e
      cases h
      obtain ⟨hadv, _⟩ := pr_readExact_spec r 2 r' _ hinv e
      exact ⟨hadv.weaken (by omega) (by omega), fun szs hs => by cases hs⟩

/-- the page-layer shadow of `readStreams`: read the chunks, forget the bytes -/
def readAll : List Nat → PR → PR × Bool
  | [], r => (r, true)
  | sz :: szs, r =>
    match r.readExact sz with
    | (r1, some _) => readAll szs r1
    | (r1, none) => (r1, false)

def held (ss : List RBuf) : Nat := (ss.map (fun s => s.buffer.length)).sum

theorem held_append (a b : List RBuf) : held (a ++ b) = held a + held b := by
  simp [held]

theorem held_reverse (a : List RBuf) : held a.reverse = held a := by
  simp [held]

theorem held_cons (s : RBuf) (a : List RBuf) : held (s :: a) = s.buffer.length + held a := by
  simp [held]

/-- `readStreams`: success and reader state are those of the page-layer shadow (no bit-buffer
    failure), every stream stays well formed, the bytes appended are exactly the bytes read -/
theorem readStreams_spec :
    ∀ (sizes : List Nat) (ss : List RBuf) (r : PR) (acc : List RBuf) (r' : PR) (ss' : List RBuf)
      (ok : Bool),
      r.CacheInv → (∀ s ∈ ss, s.WF) → (∀ s ∈ acc, s.WF) → sizes.length = ss.length →
      readStreams sizes ss r acc = (r', ss', ok) →
      (r', ok) = readAll sizes r ∧
      r.Adv r' 0 sizes.sum ∧ ss'.length = acc.length + ss.length ∧ (∀ s ∈ ss', s.WF) ∧
      held ss' + r.offset ≤ held acc + held ss + r'.offset ∧
      (ok = true → r'.offset = r.offset + sizes.sum) := by
  intro sizes
  induction sizes with
  | nil =>
    intro ss r acc r' ss' ok hinv hwf hacc hl h
    have : ss = [] := by
      cases ss with
      | nil => rfl
      | cons => simp at hl
    subst this
    simp only [readStreams] at h
    cases h
    refine ⟨rfl, PR.Adv.refl r hinv, by simp, ?_, ?_, fun _ => rfl⟩
    · intro s hs
      exact hacc s (by simpa using hs)
    · simp [held]
  | cons sz sizes ih =>
    intro ss r acc r' ss' ok hinv hwf hacc hl h
    cases ss with
    | nil => simp at hl
    | cons s ss =>
      unfold readStreams at h
      split at h
      · rename_i r1 b e
        obtain ⟨hadv, hs⟩ := pr_readExact_spec r sz r1 _ hinv e
        obtain ⟨e1, e2, _⟩ := hs b rfl
        obtain ⟨s1, ea, hwf1, hlen1, _⟩ := s.append_wf b (hwf s (by simp))
        rw [ea] at h
        simp only at h
        obtain ⟨g1, g2, g3, g4, g5, g6⟩ := ih ss r1 (s1 :: acc) r' ss' ok hadv.1
          (fun x hx => hwf x (by simp [hx]))
          (fun x hx => by
            rcases List.mem_cons.mp hx with rfl | hx
            · exact hwf1
            · exact hacc x hx)
          (by simpa using hl) h
        refine ⟨?_, ?_, ?_, g4, ?_, ?_⟩
        · rw [g1]; simp only [readAll, e]
        · have := hadv.trans g2
          simp only [List.sum_cons]
          exact this.weaken (by omega) (by omega)
        · rw [g3]; simp; omega
        · rw [held_cons] at g5 ⊢
          omega
        · intro hok
          rw [g6 hok, e1]; simp only [List.sum_cons]; omega
      · rename_i r1 e
        cases h
        obtain ⟨hadv, _⟩ := pr_readExact_spec r sz r' _ hinv e
        refine ⟨by simp only [readAll, e], hadv.weaken (by omega) (by simp only [List.sum_cons]; omega),
          by simp, ?_, ?_, fun h => by cases h⟩
        · intro x hx
          rcases List.mem_append.mp hx with hx | hx
          · exact hacc x (by simpa using hx)
          · exact hwf x hx
        · rw [held_append, held_reverse]
          have := hadv.2.2.1
          omega

/-! ### packet headers -/

/-- bytes of the header itself -/
def PacketHeader.hdrLen : PacketHeader → Nat
  | .index _ => 16
  | .data _ _ _ => 6
  | .ignored _ => 4

/-- declared packet length -/
def PacketHeader.len : PacketHeader → Nat
  | .index l => l
  | .data _ l _ => l
  | .ignored l => l

theorem leVal_take2_le (l : Bytes) : leVal (l.take 2) ≤ 65535 := by
  have h := leVal_lt (l.take 2)
  have hl : (l.take 2).length ≤ 2 := by simp only [List.length_take]; omega
  have : 2 ^ (8 * (l.take 2).length) ≤ 2 ^ 16 := Nat.pow_le_pow_right (by omega) (by omega)
  have e : (2 : Nat) ^ 16 = 65536 := by decide
  omega

/-- `PacketHeader::read`: at most 16 bytes are consumed; a header that is accepted consumed exactly
    its own size (≥ 4), lies inside the logical file and declares a length ≤ 65536 divisible by 4 -/
theorem readPacketHeader_spec (r r1 : PR) (o : Option PacketHeader) (hinv : r.CacheInv)
    (h : readPacketHeader r = (r1, o)) :
    r.Adv r1 0 16 ∧
    (∀ ph, o = some ph → r1.offset = r.offset + ph.hdrLen ∧ r1.InLog ∧ ph.len ≤ 65536 ∧
      ph.len % 4 = 0) := by
  unfold readPacketHeader at h
  split at h
  · rename_i ra t e0
    obtain ⟨a0, s0⟩ := pr_readExact_spec r 1 ra _ hinv e0
    obtain ⟨o0, _, i0⟩ := s0 _ rfl
    have i0 := i0 (by omega)
    split at h
    · -- index packet
      split at h
      · rename_i rb b e1
        obtain ⟨a1, s1⟩ := pr_readExact_spec ra 15 rb _ a0.1 e1
        obtain ⟨o1, _, _⟩ := s1 _ rfl
        have hadv := (a0.trans a1).weaken (Nat.le_refl _) (show 1 + 15 ≤ 16 by omega)
        have hb := leVal_take2_le (b.drop 1)
        dsimp only at h
        split at h
        · cases h; exact ⟨hadv, fun ph hp => by cases hp⟩
        · split at h
          · cases h; exact ⟨hadv, fun ph hp => by cases hp⟩
          · split at h
            · cases h; exact ⟨hadv, fun ph hp => by cases hp⟩
            · rename_i hm
              cases h
              refine ⟨hadv, fun ph hp => ?_⟩
              cases hp
              exact ⟨by simp only [PacketHeader.hdrLen]; omega, a1.inLog i0,
                by simp only [PacketHeader.len]; omega, by simp only [PacketHeader.len]; omega⟩
      · rename_i rb e1
        cases h
        obtain ⟨a1, _⟩ := pr_readExact_spec ra 15 r1 _ a0.1 e1
        exact ⟨(a0.trans a1).weaken (Nat.le_refl _) (by omega), fun ph hp => by cases hp⟩
    · split at h
      · -- data packet
        split at h
        · rename_i rb b e1
          obtain ⟨a1, s1⟩ := pr_readExact_spec ra 5 rb _ a0.1 e1
          obtain ⟨o1, _, _⟩ := s1 _ rfl
          have hadv := (a0.trans a1).weaken (Nat.le_refl _) (show 1 + 5 ≤ 16 by omega)
          have hb := leVal_take2_le (b.drop 1)
          dsimp only at h
          split at h
          · cases h; exact ⟨hadv, fun ph hp => by cases hp⟩
          · split at h
            · cases h; exact ⟨hadv, fun ph hp => by cases hp⟩
            · rename_i hm _
              cases h
              refine ⟨hadv, fun ph hp => ?_⟩
              cases hp
              exact ⟨by simp only [PacketHeader.hdrLen]; omega, a1.inLog i0,
                by simp only [PacketHeader.len]; omega, by simp only [PacketHeader.len]; omega⟩
        · rename_i rb e1
          cases h
          obtain ⟨a1, _⟩ := pr_readExact_spec ra 5 r1 _ a0.1 e1
          exact ⟨(a0.trans a1).weaken (Nat.le_refl _) (by omega), fun ph hp => by cases hp⟩
      · split at h
        · -- ignored packet
          split at h
          · rename_i rb b e1
            obtain ⟨a1, s1⟩ := pr_readExact_spec ra 3 rb _ a0.1 e1
            obtain ⟨o1, _, _⟩ := s1 _ rfl
            have hadv := (a0.trans a1).weaken (Nat.le_refl _) (show 1 + 3 ≤ 16 by omega)
            have hb := leVal_take2_le (b.drop 1)
            dsimp only at h
            split at h
            · cases h; exact ⟨hadv, fun ph hp => by cases hp⟩
            · split at h
              · cases h; exact ⟨hadv, fun ph hp => by cases hp⟩
              · rename_i hm
                cases h
                refine ⟨hadv, fun ph hp => ?_⟩
                cases hp
                exact ⟨by simp only [PacketHeader.hdrLen]; omega, a1.inLog i0,
                  by simp only [PacketHeader.len]; omega, by simp only [PacketHeader.len]; omega⟩
          · rename_i rb e1
            cases h
            obtain ⟨a1, _⟩ := pr_readExact_spec ra 3 r1 _ a0.1 e1
            exact ⟨(a0.trans a1).weaken (Nat.le_refl _) (by omega), fun ph hp => by cases hp⟩
        · cases h
          exact ⟨a0.weaken (Nat.le_refl _) (by omega), fun ph hp => by cases hp⟩
  · rename_i oo _ hre
    cases h
    obtain ⟨a0, _⟩ := pr_readExact_spec r 1 r1 _ hinv hre
    exact ⟨a0.weaken (Nat.le_refl _) (by omega), fun ph hp => by cases hp⟩

/-! ### `advance`, decomposed -/

/-- rest of `advance` for an index / ignored packet: skip `k` payload bytes and realign -/
def skipPacket (q : QR) (r1 : PR) (k : Nat) : PR × QR × Bool :=
  match r1.readExact k with
  | (r2, some _) => match r2.align with
    | .ok r3 => (r3, q, true)
    | _ => (r2, q, false)
  | (r2, none) => (r2, q, false)

/-- rest of `advance` for a data packet whose stream count matches -/
def dataPacket (q : QR) (r1 : PR) : PR × QR × Bool :=
  match readSizes q.streams.length r1 [] with
  | (r2, none) => (r2, q, false)
  | (r2, some sizes) =>
    let (r3, streams, ok) := readStreams sizes q.streams r2 []
    let q1 := { q with streams := streams }
    if !ok then (r3, q1, false) else
    match parseStreams q.proto streams q.queues with
    | none => (r3, q1, false)
    | some (streams', queues') =>
      let q2 := { q1 with streams := streams', queues := queues' }
      match r3.align with
      | .ok r4 => (r4, q2, true)
      | _ => (r3, q2, false)

/-- the degenerate branch: every record has width 0 (and there is at least one record) -/
def QR.zw (q : QR) : Bool := q.allZeroWidth && !q.proto.isEmpty

theorem advance_eq (q : QR) (r : PR) :
    q.advance r =
      if q.zw then
        (r, { q with queues := (q.proto.zip q.queues).map (fun (rec, qu) => qu ++ [zeroValue rec.dt]) }, true)
      else
      match readPacketHeader r with
      | (r1, none) => (r1, q, false)
      | (r1, some (.index len)) => if len < 16 then (r1, q, false) else skipPacket q r1 (len - 16)
      | (r1, some (.ignored len)) => skipPacket q r1 (len - 4)
      | (r1, some (.data _ _ count)) =>
        if count ≠ q.streams.length then (r1, q, false) else dataPacket q r1 := by
  unfold QR.advance QR.zw
  split
  · rfl
  · generalize readPacketHeader r = x
    obtain ⟨r1, o⟩ := x
    cases o with
    | none => rfl
    | some ph => cases ph <;> rfl

/-! page-layer shadows: what `advance` does to the file, with no bit buffer in sight -/

def skipIO (r1 : PR) (k : Nat) : PR × Bool :=
  match r1.readExact k with
  | (r2, some _) => match r2.align with
    | .ok r3 => (r3, true)
    | _ => (r2, false)
  | (r2, none) => (r2, false)

def dataIO (n : Nat) (r1 : PR) : PR × Bool :=
  match readSizes n r1 [] with
  | (r2, none) => (r2, false)
  | (r2, some sizes) =>
    match readAll sizes r2 with
    | (r3, false) => (r3, false)
    | (r3, true) => match r3.align with
      | .ok r4 => (r4, true)
      | _ => (r3, false)

/-- `advance` as seen from the page layer: `zw` = degenerate branch, `n` = number of streams.
    The only reasons for `false` are a failed `read_exact`, a failed `align`, a rejected packet
    header, an index packet shorter than its header, or a wrong stream count. -/
def advanceIO (zw : Bool) (n : Nat) (r : PR) : PR × Bool :=
  if zw then (r, true) else
  match readPacketHeader r with
  | (r1, none) => (r1, false)
  | (r1, some (.index len)) => if len < 16 then (r1, false) else skipIO r1 (len - 16)
  | (r1, some (.ignored len)) => skipIO r1 (len - 4)
  | (r1, some (.data _ _ count)) => if count ≠ n then (r1, false) else dataIO n r1

theorem skipPacket_spec (q : QR) (r1 : PR) (k : Nat) (r' : PR) (q' : QR) (ok : Bool)
    (hinv : r1.CacheInv) (h : skipPacket q r1 k = (r', q', ok)) :
    q' = q ∧ r1.Adv r' 0 (k + 3) ∧ (r', ok) = skipIO r1 k ∧ (ok = true → r1.offset + k ≤ r'.offset) := by
  unfold skipPacket at h
  unfold skipIO
  split at h
  · rename_i r2 b e
    obtain ⟨a, s⟩ := pr_readExact_spec r1 k r2 _ hinv e
    obtain ⟨o1, _, _⟩ := s b rfl
    split at h
    · rename_i r3 ea
      cases h
      obtain ⟨a2, _⟩ := pr_align_spec r2 r' a.1 ea
      have := a.trans a2
      exact ⟨rfl, this.weaken (by omega) (by omega), rfl, fun _ => by
        have := a2.2.2.1; omega⟩
    · rename_i hna
      cases h
      refine ⟨rfl, a.weaken (by omega) (by omega), ?_, fun h => by cases h⟩
      cases hal : r'.align with
      | ok r3 => exact absurd hal (hna r3)
      | err _ => rfl
      | panic _ => rfl
  · rename_i r2 e
    cases h
    obtain ⟨a, _⟩ := pr_readExact_spec r1 k r' _ hinv e
    exact ⟨rfl, a.weaken (by omega) (by omega), rfl, fun h => by cases h⟩

theorem sum_le_mul (l : List Nat) (c : Nat) (h : ∀ x ∈ l, x ≤ c) : l.sum ≤ c * l.length := by
  induction l with
  | nil => simp
  | cons a l ih =>
    have h1 := h a (by simp)
    have h2 := ih (fun x hx => h x (by simp [hx]))
    simp only [List.sum_cons, List.length_cons, Nat.mul_succ]
    omega

/-- what a data packet whose streams were all read and unpacked did (B2) — accepted, or rejected only by
    the final `align`: the `sizes` read from the packet, the streams `streams1` after the appends and
    before unpacking -/
structure DataStep (q q' : QR) (r1 r' : PR) (sizes : List Nat) (streams1 : List RBuf) : Prop where
  sizes_len : sizes.length = q.streams.length
  sizes_le : ∀ x ∈ sizes, x ≤ 65535
  consumed_ge : r1.offset + 2 * q.streams.length + sizes.sum ≤ r'.offset
  consumed_le : r'.offset ≤ r1.offset + 2 * q.streams.length + sizes.sum + 3
  streams1_len : streams1.length = q.streams.length
  streams1_wf : ∀ s ∈ streams1, s.WF
  held1 : held streams1 ≤ held q.streams + sizes.sum
  buffers : q'.streams.map (·.buffer) = streams1.map (·.buffer)
  queues : q'.queues.map List.length = newLens q.proto streams1 q.queues

theorem dataPacket_spec (q : QR) (r1 r' : PR) (q' : QR) (ok : Bool) (hq : q.WF)
    (hinv : r1.CacheInv) (h : dataPacket q r1 = (r', q', ok)) :
    q'.WF ∧ q'.proto = q.proto ∧
    r1.Adv r' 0 (65537 * q.streams.length + 3) ∧
    (r', ok) = dataIO q.streams.length r1 ∧
    held q'.streams + r1.offset ≤ held q.streams + r'.offset ∧
    ((ok = true ∨ q'.queues ≠ q.queues) → ∃ sizes streams1, DataStep q q' r1 r' sizes streams1) := by
  obtain ⟨hl1, hl2, hwf, hro⟩ := hq
  unfold dataPacket at h
  unfold dataIO
  split at h
  · rename_i r2 e
    cases h
    obtain ⟨a, _⟩ := readSizes_spec _ r1 [] r' _ hinv e
    refine ⟨⟨hl1, hl2, hwf, hro⟩, rfl, a.weaken (by omega) (by omega), rfl, ?_, fun h => h.elim (fun h => by cases h) (fun h => absurd rfl h)⟩
    have := a.2.2.1; omega
  · rename_i r2 sizes e
    obtain ⟨a, s⟩ := readSizes_spec _ r1 [] r2 _ hinv e
    obtain ⟨o1, sl, sle, _⟩ := s sizes rfl
    have sl : sizes.length = q.streams.length := by simpa using sl
    have sle : ∀ x ∈ sizes, x ≤ 65535 := sle (by simp)
    have hsum := sum_le_mul sizes 65535 sle
    rw [sl] at hsum
    cases hrs : readStreams sizes q.streams r2 [] with
    | mk r3 rest =>
      obtain ⟨streams1, ok1⟩ := rest
      rw [hrs] at h
      dsimp only at h
      obtain ⟨g1, g2, g3, g4, g5, g6⟩ :=
        readStreams_spec sizes q.streams r2 [] r3 streams1 ok1 a.1 hwf (by simp) sl hrs
      have g3 : streams1.length = q.streams.length := by simpa using g3
      have g5 : held streams1 + r2.offset ≤ held q.streams + r3.offset := by
        simpa [held] using g5
      have a12 := (a.trans g2).weaken (Nat.le_refl _)
        (show 2 * q.streams.length + sizes.sum ≤ 65537 * q.streams.length + 3 by omega)
      have hm1 := a.2.2.1
      rw [← g1]
      cases ok1 with
      | false =>
        simp only [Bool.not_false, if_true] at h
        cases h
        refine ⟨⟨by simp only; omega, hl2, g4, hro⟩, rfl, a12, rfl, by simp only; omega,
          fun h => h.elim (fun h => by cases h) (fun h => absurd rfl h)⟩
      | true =>
        simp only [Bool.not_true, Bool.false_eq_true, if_false] at h
        have g6 := g6 rfl
        obtain ⟨ss', qs', e2, l1, l2, hwf2, hb2, hlen2⟩ :=
          parseStreams_spec q.proto streams1 q.queues (by omega) hl2 g4 hro
        rw [e2] at h
        dsimp only at h
        have hheld : held ss' = held streams1 := by
          have := congrArg (fun l => (l.map List.length).sum) hb2
          simpa [held, List.map_map, Function.comp_def] using this
        have hds : ∀ r4 : PR, r3.offset ≤ r4.offset → r4.offset ≤ r3.offset + 3 →
            DataStep q ⟨q.proto, ss', qs'⟩ r1 r4 sizes streams1 :=
          fun r4 h1 h2 => ⟨sl, sle, by omega, by omega, g3, g4, by omega, hb2, hlen2⟩
        split at h
        · rename_i r4 ea
          cases h
          obtain ⟨a3, _⟩ := pr_align_spec r3 r' (a.trans g2).1 ea
          have a123 := (a12.trans a3)
          refine ⟨⟨by simp only; omega, by simp only; omega, hwf2, hro⟩, rfl,
            ((a.trans g2).trans a3).weaken (Nat.le_refl _) (by omega), ?_, ?_, fun _ => ⟨sizes, streams1,
              hds r' (by have := a3.2.2.1; omega) a3.2.2.2.1⟩⟩
          · simp only [ea]
          · have := a3.2.2.1
            simp only; omega
        · rename_i hna
          cases h
          refine ⟨⟨by simp only; omega, by simp only; omega, hwf2, hro⟩, rfl, a12, ?_,
            by simp only; omega, fun _ => ⟨sizes, streams1, hds _ (Nat.le_refl _) (by omega)⟩⟩
          cases hal : r'.align with
          | ok r4 => exact absurd hal (hna r4)
          | err _ => simp only [hal]
          | panic _ => simp only [hal]

/-! ### B1/B2/B3: `QR.new` and `QR.advance` -/

theorem readCvHeader_spec (r r1 : PR) (o : Option (Nat × Nat × Nat)) (hinv : r.CacheInv)
    (h : readCvHeader r = (r1, o)) : r.Adv r1 0 32 := by
  unfold readCvHeader at h
  split at h
  · rename_i r2 b e
    obtain ⟨a, _⟩ := pr_readExact_spec r 32 r2 _ hinv e
    dsimp only at h
    split at h
    · cases h; exact a
    · split at h
      · cases h; exact a
      · cases h; exact a
  · rename_i r2 e
    cases h
    exact (pr_readExact_spec r 32 r1 _ hinv e).1

/-- `QueueReader::new` establishes `QR.WF` (given the prototype condition) and keeps the page invariant -/
theorem QR.new_wf (pc : PointCloud) (r r' : PR) (o : Option QR) (hinv : r.CacheInv)
    (h : QR.new pc r = (r', o)) :
    r'.CacheInv ∧ r.SameFile r' ∧
    ∀ q, o = some q → pc.prototype.RangeOk → q.WF ∧ q.proto = pc.prototype ∧ held q.streams = 0 := by
  unfold QR.new at h
  split at h
  · rename_i r1 o1 e1
    obtain ⟨i1, f1, _⟩ := pr_seek_spec r _ r1 o1 hinv e1
    split at h
    · rename_i r2 sl dOff ix e2
      have a2 := readCvHeader_spec r1 r2 _ i1 e2
      split at h
      · rename_i r3 o3 e3
        obtain ⟨i3, f3, _⟩ := pr_seek_spec r2 _ r3 o3 a2.1 e3
        cases h
        refine ⟨i3, (f1.trans a2.2.1).trans f3, ?_⟩
        intro q hq hp
        cases hq
        refine ⟨⟨by simp, by simp, ?_, hp⟩, rfl, ?_⟩
        · intro s hs
          rw [List.eq_of_mem_replicate hs]
          exact RBuf.wf_new
        · simp [held, RBuf.new]
      · cases h
        exact ⟨a2.1, f1.trans a2.2.1, fun q hq => by cases hq⟩
    · rename_i r2 e2
      have a2 := readCvHeader_spec r1 r2 _ i1 e2
      cases h
      exact ⟨a2.1, f1.trans a2.2.1, fun q hq => by cases hq⟩
  · cases h
    exact ⟨hinv, PR.SameFile.refl r, fun q hq => by cases hq⟩

/-- queues after the degenerate branch of `advance` -/
def zwQueues (q : QR) : List (List Value) :=
  (q.proto.zip q.queues).map (fun (rec, qu) => qu ++ [zeroValue rec.dt])

theorem zwQueues_lengths (p : List Record) (qs : List (List Value)) (h : qs.length = p.length) :
    ((p.zip qs).map (fun (x : Record × List Value) => x.2 ++ [zeroValue x.1.dt])).map List.length
      = qs.map (fun l => l.length + 1) := by
  induction p generalizing qs with
  | nil =>
    have : qs = [] := by simpa using h
    subst this; rfl
  | cons rec p ih =>
    cases qs with
    | nil => simp at h
    | cons a qs =>
      simp only [List.zip_cons_cons, List.map_cons, List.length_append, List.length_cons,
        List.length_nil, Nat.zero_add, List.cons.injEq, true_and]
      exact ih qs (by simpa using h)

/-- the master statement about one `advance` call -/
theorem advance_spec (q : QR) (r r' : PR) (q' : QR) (ok : Bool) (hq : q.WF) (hinv : r.CacheInv)
    (h : q.advance r = (r', q', ok)) :
    q'.WF ∧ q'.proto = q.proto ∧
    r.Adv r' 0 (65539 + 65537 * q.proto.length) ∧
    (r', ok) = advanceIO q.zw q.streams.length r ∧
    held q'.streams + r.offset ≤ held q.streams + r'.offset ∧
    (q.zw = false → ok = true → r.offset + 4 ≤ r'.offset ∧ r'.InLog) ∧
    (q.zw = true → r' = r ∧ ok = true ∧ q'.streams = q.streams ∧
      q'.queues.map List.length = q.queues.map (fun l => l.length + 1)) := by
  have hq' := hq
  obtain ⟨hl1, hl2, hwf, hro⟩ := hq
  rw [advance_eq] at h
  unfold advanceIO
  by_cases hz : q.zw = true
  · simp only [hz, if_true] at h ⊢
    cases h
    refine ⟨⟨hl1, ?_, hwf, hro⟩, rfl, (PR.Adv.refl r hinv).weaken (Nat.le_refl _) (by omega), rfl,
      Nat.le_refl _, (fun h => by cases h), fun _ => ⟨rfl, rfl, rfl, zwQueues_lengths _ _ hl2⟩⟩
    simp only [List.length_map, List.length_zip]; omega
  · have hz : q.zw = false := by simpa using hz
    simp only [hz, Bool.false_eq_true, if_false] at h ⊢
    cases hph : readPacketHeader r with
    | mk r1 o =>
      rw [hph] at h
      obtain ⟨a, s⟩ := readPacketHeader_spec r r1 o hinv hph
      have am := a.2.2.1
      cases o with
      | none =>
        dsimp only at h ⊢
        cases h
        exact ⟨hq', rfl, a.weaken (Nat.le_refl _) (by omega), rfl, by omega, (fun _ h => by cases h),
          fun h => by cases h⟩
      | some ph =>
        obtain ⟨o1, i1, hlen, hmod⟩ := s ph rfl
        cases ph with
        | index len =>
          simp only [PacketHeader.hdrLen, PacketHeader.len] at o1 hlen hmod
          have a := a.tighten 16 16 (by omega) (by omega)
          dsimp only at h ⊢
          by_cases hlt : len < 16
          · simp only [hlt, if_true] at h ⊢
            cases h
            exact ⟨hq', rfl, a.weaken (by omega) (by omega), rfl, by omega,
              (fun _ h => by cases h), (fun h => by cases h)⟩
          · simp only [hlt, if_false] at h ⊢
            obtain ⟨e1, a2, e2, g⟩ := skipPacket_spec q r1 _ r' q' ok a.1 h
            subst e1
            have am2 := a2.2.2.1
            exact ⟨hq', rfl, (a.trans a2).weaken (by omega) (by omega), e2, by omega,
              (fun _ _ => ⟨by omega, a2.inLog i1⟩), (fun h => by cases h)⟩
        | ignored len =>
          simp only [PacketHeader.hdrLen, PacketHeader.len] at o1 hlen hmod
          have a := a.tighten 4 4 (by omega) (by omega)
          dsimp only at h ⊢
          obtain ⟨e1, a2, e2, g⟩ := skipPacket_spec q r1 _ r' q' ok a.1 h
          subst e1
          have am2 := a2.2.2.1
          exact ⟨hq', rfl, (a.trans a2).weaken (by omega) (by omega), e2, by omega,
            (fun _ _ => ⟨by omega, a2.inLog i1⟩), (fun h => by cases h)⟩
        | data rs len count =>
          simp only [PacketHeader.hdrLen, PacketHeader.len] at o1 hlen hmod
          have a := a.tighten 6 6 (by omega) (by omega)
          dsimp only at h ⊢
          by_cases hc : count = q.streams.length
          · simp only [hc, ne_eq, not_true_eq_false, if_false] at h ⊢
            obtain ⟨w, pe, a2, e2, hh, _⟩ := dataPacket_spec q r1 r' q' ok hq' a.1 h
            have am2 := a2.2.2.1
            exact ⟨w, pe, (a.trans a2).weaken (by omega) (by omega), e2, by omega,
              (fun _ _ => ⟨by omega, a2.inLog i1⟩), (fun h => by cases h)⟩
          · simp only [hc, ne_eq, not_false_eq_true, if_true] at h ⊢
            cases h
            exact ⟨hq', rfl, a.weaken (by omega) (by omega), rfl, by omega,
              (fun _ h => by cases h), (fun h => by cases h)⟩

/-- B1: `advance` keeps `QR.WF` and the page invariant in all three result cases -/
theorem advance_wf (q : QR) (r r' : PR) (q' : QR) (ok : Bool) (hq : q.WF) (hinv : r.CacheInv)
    (h : q.advance r = (r', q', ok)) : q'.WF ∧ r'.CacheInv ∧ r.SameFile r' :=
  let s := advance_spec q r r' q' ok hq hinv h
  ⟨s.1, s.2.2.1.1, s.2.2.1.2.1⟩

/-- B1 (`advance_no_panic`): under `WF` the reader state and the success flag of `advance` are
    those of the page-layer shadow `advanceIO`, in which no bit buffer occurs.  So `ok = false`
    is caused only by a failed page-layer `read_exact`/`align`, a rejected packet header, an index
    packet shorter than its header, or a stream count different from the prototype's. -/
theorem advance_no_panic (q : QR) (r : PR) (hq : q.WF) (hinv : r.CacheInv) :
    ((q.advance r).1, (q.advance r).2.2) = advanceIO q.zw q.proto.length r := by
  have := (advance_spec q r (q.advance r).1 (q.advance r).2.1 (q.advance r).2.2 hq hinv rfl).2.2.2.1
  rw [hq.1] at this
  exact this

/-- the failure causes spelled out -/
theorem advance_false_cause (q : QR) (r r' : PR) (q' : QR) (hq : q.WF) (hinv : r.CacheInv)
    (h : q.advance r = (r', q', false)) :
    q.zw = false ∧
    ((readPacketHeader r).2 = none ∨
     (∃ r1 len, readPacketHeader r = (r1, some (.index len)) ∧
        (len < 16 ∨ (skipIO r1 (len - 16)).2 = false)) ∨
     (∃ r1 len, readPacketHeader r = (r1, some (.ignored len)) ∧ (skipIO r1 (len - 4)).2 = false) ∨
     (∃ r1 rs len count, readPacketHeader r = (r1, some (.data rs len count)) ∧
        (count ≠ q.proto.length ∨ (dataIO q.proto.length r1).2 = false))) := by
  have hs := (advance_spec q r r' q' false hq hinv h).2.2.2.1
  rw [hq.1] at hs
  unfold advanceIO at hs
  by_cases hz : q.zw = true
  · simp [hz] at hs
  · have hz : q.zw = false := by simpa using hz
    refine ⟨hz, ?_⟩
    simp only [hz, Bool.false_eq_true, if_false] at hs
    cases hph : readPacketHeader r with
    | mk r1 o =>
      rw [hph] at hs
      cases o with
      | none => left; rfl
      | some ph =>
        right
        cases ph with
        | index len =>
          left
          refine ⟨r1, len, rfl, ?_⟩
          dsimp only at hs
          by_cases hlt : len < 16
          · exact .inl hlt
          · simp only [hlt, if_false] at hs
            right; rw [← hs]
        | ignored len =>
          right; left
          refine ⟨r1, len, rfl, ?_⟩
          dsimp only at hs
          rw [← hs]
        | data rs len count =>
          right; right
          refine ⟨r1, rs, len, count, rfl, ?_⟩
          dsimp only at hs
          by_cases hc : count = q.proto.length
          · simp only [hc, ne_eq, not_true_eq_false, if_false] at hs
            right; rw [← hs]
          · exact .inl hc

/-- B3 (`advance_progress`): a successful `advance` outside the degenerate branch consumes at least
    4 bytes and ends inside the logical file -/
theorem advance_progress (q : QR) (r r' : PR) (q' : QR) (hq : q.WF) (hinv : r.CacheInv)
    (hz : q.zw = false) (h : q.advance r = (r', q', true)) :
    r.offset + 4 ≤ r'.offset ∧ r'.offset ≤ r'.logSize ∧ r'.logSize = r.logSize := by
  have s := advance_spec q r r' q' true hq hinv h
  obtain ⟨h1, h2⟩ := s.2.2.2.2.2.1 hz rfl
  exact ⟨h1, h2, s.2.2.1.logSize⟩

/-- B2 (i): one `advance` moves the cursor forward by at most `65539 + 65537 * n` bytes
    (`n` = number of records); this bounds the bytes it requests from the page layer -/
theorem advance_bytes_requested (q : QR) (r r' : PR) (q' : QR) (ok : Bool) (hq : q.WF)
    (hinv : r.CacheInv) (h : q.advance r = (r', q', ok)) :
    r.offset ≤ r'.offset ∧ r'.offset ≤ r.offset + (65539 + 65537 * q.proto.length) := by
  have s := (advance_spec q r r' q' ok hq hinv h).2.2.1
  have := s.2.2.1
  exact ⟨by omega, s.2.2.2.1⟩

/-- C09 memory: the bytes held by the stream buffers grow by at most the bytes consumed -/
theorem advance_held (q : QR) (r r' : PR) (q' : QR) (ok : Bool) (hq : q.WF) (hinv : r.CacheInv)
    (h : q.advance r = (r', q', ok)) :
    held q'.streams + r.offset ≤ held q.streams + r'.offset :=
  (advance_spec q r r' q' ok hq hinv h).2.2.2.2.1

/-- B2 (i) `advance_bytes_consumed`: a data packet that was accepted consumed its 6 header bytes,
    `2 n` size bytes and every stream byte it appended (then ≤ 3 alignment bytes) -/
theorem advance_bytes_consumed (q : QR) (r r' r1 : PR) (q' : QR) (rs : Bool) (len count : Nat)
    (hq : q.WF) (hinv : r.CacheInv) (hz : q.zw = false)
    (hph : readPacketHeader r = (r1, some (.data rs len count)))
    (h : q.advance r = (r', q', true)) :
    count = q.proto.length ∧ r1.offset = r.offset + 6 ∧
    ∃ sizes streams1, DataStep q q' r1 r' sizes streams1 ∧
      r.offset + 6 + 2 * q.proto.length + sizes.sum ≤ r'.offset ∧
      r'.offset ≤ r.offset + 6 + 2 * q.proto.length + sizes.sum + 3 ∧
      sizes.sum ≤ 65535 * q.proto.length := by
  obtain ⟨a, s⟩ := readPacketHeader_spec r r1 _ hinv hph
  obtain ⟨o1, _, _, _⟩ := s _ rfl
  simp only [PacketHeader.hdrLen] at o1
  rw [advance_eq] at h
  simp only [hz, Bool.false_eq_true, if_false, hph] at h
  by_cases hc : count = q.streams.length
  · simp only [hc, ne_eq, not_true_eq_false, if_false] at h
    obtain ⟨_, _, _, _, _, g⟩ := dataPacket_spec q r1 r' q' true hq a.1 h
    obtain ⟨sizes, streams1, ds⟩ := g (.inl rfl)
    have c1 := ds.consumed_ge
    have c2 := ds.consumed_le
    have c3 := sum_le_mul sizes 65535 ds.sizes_le
    rw [ds.sizes_len] at c3
    rw [hq.1] at c1 c2 c3 hc
    exact ⟨hc, o1, sizes, streams1, ds, by omega, by omega, c3⟩
  · simp [hc] at h

/-! ### B2 (ii): queue growth — linear in the bytes of the packet -/

def maxLen (qs : List (List Value)) : Nat := (qs.map List.length).foldr max 0

theorem le_maxLen (qs : List (List Value)) (l : List Value) (h : l ∈ qs) : l.length ≤ maxLen qs := by
  induction qs with
  | nil => cases h
  | cons a qs ih =>
    simp only [maxLen, List.map_cons, List.foldr_cons]
    rcases List.mem_cons.mp h with rfl | h
    · exact Nat.le_max_left _ _
    · exact Nat.le_trans (ih h) (Nat.le_max_right _ _)

theorem maxLen_cons (a : List Value) (qs : List (List Value)) :
    maxLen (a :: qs) = max a.length (maxLen qs) := rfl

/-- number of values queued in total -/
def totalLen (qs : List (List Value)) : Nat := (qs.map List.length).sum

theorem totalLen_cons (a : List Value) (qs : List (List Value)) :
    totalLen (a :: qs) = a.length + totalLen qs := by simp [totalLen]

/-- a sized record gains exactly `avail / bits ≤ 8 * bytes held` values -/
theorem newLen_sized (dt : DataType) (s : RBuf) (q : List Value) (h : dt.bitSize ≠ 0) :
    newLen dt s q = q.length + s.avail / dt.bitSize ∧
    s.avail / dt.bitSize ≤ 8 * s.buffer.length := by
  exact ⟨by simp only [newLen, h, if_false], avail_div_le s _⟩

/-- a record of zero bit size gains nothing (it is not queued at all) -/
theorem newLen_zero (dt : DataType) (s : RBuf) (q : List Value) (h : dt.bitSize = 0) :
    newLen dt s q = q.length := by
  simp only [newLen, h, if_true]

/-- whatever the width: at most 8 values per byte held by the record's own stream -/
theorem newLen_le (dt : DataType) (s : RBuf) (q : List Value) :
    newLen dt s q ≤ q.length + 8 * s.buffer.length := by
  by_cases hz : dt.bitSize = 0
  · rw [newLen_zero _ _ _ hz]; omega
  · obtain ⟨e, hle⟩ := newLen_sized dt s q hz
    rw [e]; omega

/-- lengths of the queues after `parseStreams`: bounded by the longest queue before plus 8 values
    per byte held -/
theorem newLens_le (p : List Record) :
    ∀ (ss : List RBuf) (qs : List (List Value)) (B : Nat),
      (∀ l ∈ qs, l.length ≤ B) →
      ∀ x ∈ newLens p ss qs, x ≤ B + 8 * held ss := by
  induction p with
  | nil => intro ss qs B _ x hx; simp [newLens] at hx
  | cons rec p ih =>
    intro ss qs B hB x hx
    cases ss with
    | nil => simp [newLens] at hx
    | cons s ss =>
      cases qs with
      | nil => simp [newLens] at hx
      | cons q qs =>
        simp only [newLens, List.mem_cons] at hx
        rw [held_cons]
        have hq := hB q (by simp)
        rcases hx with rfl | hx
        · have := newLen_le rec.dt s q; omega
        · have := ih ss qs B (fun l hl => hB l (by simp [hl])) x hx
          omega

/-- all queues together after `parseStreams`: the values queued before plus at most 8 per byte held -/
theorem newLens_sum_le (p : List Record) :
    ∀ (ss : List RBuf) (qs : List (List Value)),
      (newLens p ss qs).sum ≤ totalLen qs + 8 * held ss := by
  induction p with
  | nil => intro ss qs; simp [newLens]
  | cons rec p ih =>
    intro ss qs
    cases ss with
    | nil => simp [newLens]
    | cons s ss =>
      cases qs with
      | nil => simp [newLens]
      | cons q qs =>
        simp only [newLens, List.sum_cons]
        rw [held_cons, totalLen_cons]
        have := newLen_le rec.dt s q
        have := ih ss qs
        omega

/-- B2 (ii): after a data packet every queue is at most the longest old queue plus
    `8 * (bytes held before + bytes appended by this packet)` long -/
theorem advance_queue_growth (q q' : QR) (r1 r' : PR) (sizes : List Nat) (streams1 : List RBuf)
    (ds : DataStep q q' r1 r' sizes streams1) :
    ∀ l ∈ q'.queues, l.length ≤ maxLen q.queues + 8 * (held q.streams + sizes.sum) := by
  intro l hl
  have hmem : l.length ∈ q'.queues.map List.length := List.mem_map.mpr ⟨l, hl, rfl⟩
  rw [ds.queues] at hmem
  have := newLens_le q.proto streams1 q.queues (maxLen q.queues) (fun l hl => le_maxLen _ l hl)
    _ hmem
  have := ds.held1
  omega

/-- B2 (ii), the linear bound for a data packet: ALL queues TOGETHER gain at most
    `8 * (bytes held before + bytes appended by this packet)` values.  (Before records of zero bit
    size became constants, each of them was topped up to the length of the shortest sized queue:
    the gain was `#zero-width records × values`, a product.) -/
theorem advance_queue_growth_data (q q' : QR) (r1 r' : PR) (sizes : List Nat) (streams1 : List RBuf)
    (ds : DataStep q q' r1 r' sizes streams1) :
    totalLen q'.queues ≤ totalLen q.queues + 8 * (held q.streams + sizes.sum) := by
  have := newLens_sum_le q.proto streams1 q.queues
  rw [← ds.queues] at this
  have := ds.held1
  unfold totalLen at *
  omega

theorem totalLen_map_succ (qs : List (List Value)) :
    (qs.map (fun l => l.length + 1)).sum = totalLen qs + qs.length := by
  induction qs with
  | nil => rfl
  | cons a qs ih => simp only [List.map_cons, List.sum_cons, totalLen_cons, List.length_cons, ih]; omega

/-- **B2 (ii), the memory bound of one `advance` is linear** (whatever it returns, whatever the bytes):
    the number of values added to all queues together is
    * at most the number of records (one synthesised point) for a cloud whose records all have zero
      bit size — no byte is read;
    * otherwise at most `8 × (bytes held by the stream buffers before + bytes consumed by this call)`;
      the bytes consumed include the packet's stream bytes, and an index / ignored / rejected packet
      adds nothing.
    There is no `#zero-width records × values` term any more: records of zero bit size are constants
    of the prototype and are not queued. -/
theorem advance_queue_growth_linear (q : QR) (r r' : PR) (q' : QR) (ok : Bool) (hq : q.WF)
    (hinv : r.CacheInv) (h : q.advance r = (r', q', ok)) :
    totalLen q'.queues ≤ totalLen q.queues +
      (if q.zw then q.proto.length else 8 * (held q.streams + (r'.offset - r.offset))) := by
  by_cases hz : q.zw = true
  · obtain ⟨_, _, _, e4⟩ := (advance_spec q r r' q' ok hq hinv h).2.2.2.2.2.2 hz
    simp only [hz, if_true]
    have := totalLen_map_succ q.queues
    rw [← e4, hq.2.1] at this
    unfold totalLen at *
    omega
  · have hz : q.zw = false := by simpa using hz
    simp only [hz, Bool.false_eq_true, if_false]
    rw [advance_eq] at h
    simp only [hz, Bool.false_eq_true, if_false] at h
    cases hph : readPacketHeader r with
    | mk r1 o =>
      rw [hph] at h
      obtain ⟨a, s⟩ := readPacketHeader_spec r r1 o hinv hph
      have am := a.2.2.1
      cases o with
      | none => dsimp only at h; cases h; omega
      | some ph =>
        cases ph with
        | index len =>
          dsimp only at h
          by_cases hlt : len < 16
          · simp only [hlt, if_true] at h
            cases h; omega
          · simp only [hlt, if_false] at h
            obtain ⟨e1, _⟩ := skipPacket_spec q r1 _ r' q' ok a.1 h
            subst e1; omega
        | ignored len =>
          dsimp only at h
          obtain ⟨e1, _⟩ := skipPacket_spec q r1 _ r' q' ok a.1 h
          subst e1; omega
        | data rs len count =>
          dsimp only at h
          by_cases hc : count = q.streams.length
          · simp only [hc, ne_eq, not_true_eq_false, if_false] at h
            obtain ⟨_, _, _, _, _, g⟩ := dataPacket_spec q r1 r' q' ok hq a.1 h
            by_cases hqq : q'.queues = q.queues
            · rw [hqq]; omega
            · obtain ⟨sizes, streams1, ds⟩ := g (.inr hqq)
              have := advance_queue_growth_data q q' r1 r' sizes streams1 ds
              have := ds.consumed_ge
              omega
          · simp only [hc, ne_eq, not_false_eq_true, if_true] at h
            cases h; omega

/-- the records of zero bit size gain nothing in a data packet: `parseStreams` returns their queues
    as they are (`none` at an index = no such record) -/
theorem parseStreams_constant_untouched :
    ∀ (p : List Record) (ss : List RBuf) (qs : List (List Value)) (ss' : List RBuf)
      (qs' : List (List Value)), parseStreams p ss qs = some (ss', qs') →
      ∀ (i : Nat) (rec : Record), p[i]? = some rec → rec.dt.bitSize = 0 →
        qs'[i]? = qs[i]? ∧ ss'[i]? = ss[i]? := by
  intro p
  induction p with
  | nil => intro ss qs ss' qs' _ i rec hi; simp at hi
  | cons r0 p ih =>
    intro ss qs ss' qs' h i rec hi hz
    cases ss with
    | nil => simp [parseStreams] at h
    | cons s ss =>
      cases qs with
      | nil => simp [parseStreams] at h
      | cons q qs =>
        simp only [parseStreams, bind, Option.bind] at h
        cases e1 : parseStream r0.dt s q with
        | none => rw [e1] at h; cases h
        | some sq =>
          obtain ⟨s1, q1⟩ := sq
          rw [e1] at h
          dsimp only at h
          cases e2 : parseStreams p ss qs with
          | none => rw [e2] at h; cases h
          | some sqs =>
            obtain ⟨ss1, qs1⟩ := sqs
            rw [e2] at h
            simp only [pure, Option.some.injEq, Prod.mk.injEq] at h
            obtain ⟨rfl, rfl⟩ := h
            cases i with
            | zero =>
              simp only [List.getElem?_cons_zero, Option.some.injEq] at hi
              subst hi
              have : parseStream r0.dt s q = some (s, q) := by
                unfold parseStream
                cases hdt : r0.dt with
                | single a b => rw [hdt] at hz; simp [DataType.bitSize] at hz
                | double a b => rw [hdt] at hz; simp [DataType.bitSize] at hz
                | scaled mn mx sc off => rw [hdt] at hz; simp only [hz, if_true]
                | integer mn mx => rw [hdt] at hz; simp only [hz, if_true]
              rw [this] at e1
              simp only [Option.some.injEq, Prod.mk.injEq] at e1
              obtain ⟨rfl, rfl⟩ := e1
              exact ⟨rfl, rfl⟩
            | succ i =>
              simp only [List.getElem?_cons_succ] at hi ⊢
              exact ih ss qs ss1 qs1 e2 i rec hi hz

/-! ## B3. `refill` terminates with progress; its fuel is never the reason for failure -/

theorem refill_succ (fuel : Nat) (q : QR) (r : PR) :
    refill (fuel + 1) q r =
      if q.available ≥ 1 then (r, q, true) else
      match q.advance r with
      | (r1, q1, true) => refill fuel q1 r1
      | (r1, q1, false) => (r1, q1, false) := rfl

theorem minList_ge (l : List Nat) (c : Nat) (h : ∀ x ∈ l, c ≤ x) (hne : l ≠ []) :
    ∃ m, minList l = some m ∧ c ≤ m := by
  induction l with
  | nil => exact absurd rfl hne
  | cons a l ih =>
    have ha := h a (by simp)
    by_cases hl : l = []
    · subst hl; exact ⟨a, rfl, ha⟩
    · obtain ⟨m, e, hm⟩ := ih (fun x hx => h x (by simp [hx])) hl
      exact ⟨min a m, by simp only [minList, e], by omega⟩

/-- a record is a constant of the prototype exactly when its bit size is zero -/
theorem constOf_isSome (dt : DataType) : (constOf dt).isSome = (dt.bitSize == 0) := by
  cases dt with
  | single a b => simp [constOf, DataType.bitSize]
  | double a b => simp [constOf, DataType.bitSize]
  | scaled min max sc off =>
    by_cases hz : integerBits min max = 0 <;> simp [constOf, DataType.bitSize, hz]
  | integer min max =>
    by_cases hz : integerBits min max = 0 <;> simp [constOf, DataType.bitSize, hz]

/-- the degenerate branch of `advance` is taken exactly for the all-constant clouds of `available`/`popPoint` -/
theorem QR.zw_eq_allConstant (q : QR) : q.zw = q.allConstant := by
  unfold QR.zw QR.allConstant QR.allZeroWidth
  simp only [constOf_isSome]
  exact Bool.and_comm _ _

/-- in the degenerate branch one `advance` makes a point available immediately -/
theorem advance_zw_available (q : QR) (r r' : PR) (q' : QR) (ok : Bool) (hq : q.WF)
    (hinv : r.CacheInv) (hz : q.zw = true) (h : q.advance r = (r', q', ok)) :
    r' = r ∧ ok = true ∧ q'.available ≥ 1 := by
  have hsp := advance_spec q r r' q' ok hq hinv h
  obtain ⟨e1, e2, _, e4⟩ := hsp.2.2.2.2.2.2 hz
  refine ⟨e1, e2, ?_⟩
  have hne : q.proto ≠ [] := by
    intro hp
    simp [QR.zw, hp] at hz
  have hq0 : q.queues ≠ [] := by
    intro hp
    have h2 := hq.2.1
    rw [hp] at h2
    exact hne (List.length_eq_zero_iff.mp h2.symm)
  have hqne : q.queues.map (fun l => l.length + 1) ≠ [] := by
    intro hp
    exact hq0 (by simpa using hp)
  obtain ⟨m, em, hm⟩ := minList_ge _ 1 (by
    intro x hx
    obtain ⟨l, _, rfl⟩ := List.mem_map.mp hx
    omega) hqne
  have hac : q'.allConstant = true := by
    rw [← QR.zw_eq_allConstant]
    unfold QR.zw QR.allZeroWidth at hz ⊢
    rw [hsp.2.1]; exact hz
  have hq'0 : q'.queues.isEmpty = false := by
    cases hqq : q'.queues with
    | nil => rw [hqq] at e4; exact absurd e4.symm hqne
    | cons a l => rfl
  unfold QR.available QR.countedLengths
  rw [hq'0, hac]
  simp only [Bool.false_eq_true, if_false, if_true]
  rw [e4, em]
  exact hm

/-- an upper bound on the number of `advance` calls one `refill` can make -/
def refillMeasure (r : PR) : Nat := (r.logSize - r.offset) / 4 + 2

theorem refillMeasure_le_fuel (r : PR) : refillMeasure r ≤ refillFuel r := by
  have := Nat.div_le_self (r.logSize - r.offset) 4
  unfold refillMeasure refillFuel; omega

theorem refillMeasure_decreases (r r' : PR) (h1 : r.offset + 4 ≤ r'.offset)
    (h2 : r'.offset ≤ r'.logSize) (h3 : r'.logSize = r.logSize) :
    refillMeasure r' + 1 ≤ refillMeasure r := by
  unfold refillMeasure
  rw [h3] at h2 ⊢
  have : r.logSize - r.offset = (r.logSize - r'.offset) + (r'.offset - r.offset - 4) + 4 := by omega
  rw [this]
  have := Nat.div_le_div_right (c := 4) (Nat.le_add_right (r.logSize - r'.offset) (r'.offset - r.offset - 4))
  have e := Nat.add_div_right (r.logSize - r'.offset + (r'.offset - r.offset - 4)) (show 0 < 4 by omega)
  omega

/-- more fuel than the measure changes nothing -/
theorem refill_fuel_step : ∀ (fuel : Nat) (q : QR) (r : PR), r.CacheInv → q.WF →
    refillMeasure r ≤ fuel → refill (fuel + 1) q r = refill fuel q r := by
  intro fuel
  induction fuel with
  | zero =>
    intro q r _ _ h
    unfold refillMeasure at h; omega
  | succ fuel ih =>
    intro q r hinv hq hm
    rw [refill_succ (fuel + 1), refill_succ fuel]
    by_cases hav : q.available ≥ 1
    · simp only [hav, if_true]
    · simp only [hav, if_false]
      cases hadv : q.advance r with
      | mk r1 rest =>
        obtain ⟨q1, ok⟩ := rest
        cases ok with
        | false => rfl
        | true =>
          dsimp only
          obtain ⟨hq1, hinv1, _⟩ := advance_wf q r r1 q1 true hq hinv hadv
          by_cases hz : q.zw = true
          · obtain ⟨e1, _, hav1⟩ := advance_zw_available q r r1 q1 true hq hinv hz hadv
            cases fuel with
            | zero => unfold refillMeasure at hm; omega
            | succ f =>
              rw [refill_succ (f + 1), refill_succ f]
              simp only [hav1, if_true]
          · have hz : q.zw = false := by simpa using hz
            obtain ⟨p1, p2, p3⟩ := advance_progress q r r1 q1 hq hinv hz hadv
            have := refillMeasure_decreases r r1 p1 p2 p3
            exact ih q1 r1 hinv1 hq1 (by omega)

/-- B3 (`refill_fuel_irrelevant`): for every fuel ≥ `refillFuel r` the result of `refill` is the same -/
theorem refill_fuel_irrelevant (q : QR) (r : PR) (hinv : r.CacheInv) (hq : q.WF) (fuel : Nat)
    (h : refillFuel r ≤ fuel) : refill fuel q r = refill (refillFuel r) q r := by
  induction h with
  | refl => rfl
  | step hle ih =>
    rw [refill_fuel_step _ q r hinv hq (Nat.le_trans (refillMeasure_le_fuel r) hle)]
    exact ih

/-- invariants across `refill` -/
theorem refill_spec : ∀ (fuel : Nat) (q : QR) (r r' : PR) (q' : QR) (ok : Bool),
    r.CacheInv → q.WF → refill fuel q r = (r', q', ok) →
    q'.WF ∧ q'.proto = q.proto ∧ r'.CacheInv ∧ r.SameFile r' ∧ r.offset ≤ r'.offset ∧
    held q'.streams + r.offset ≤ held q.streams + r'.offset ∧
    (ok = true → q'.available ≥ 1) := by
  intro fuel
  induction fuel with
  | zero =>
    intro q r r' q' ok hinv hq h
    simp only [refill] at h
    cases h
    exact ⟨hq, rfl, hinv, PR.SameFile.refl r, Nat.le_refl _, Nat.le_refl _, fun h => by cases h⟩
  | succ fuel ih =>
    intro q r r' q' ok hinv hq h
    rw [refill_succ] at h
    by_cases hav : q.available ≥ 1
    · simp only [hav, if_true] at h
      cases h
      exact ⟨hq, rfl, hinv, PR.SameFile.refl r, Nat.le_refl _, Nat.le_refl _, fun _ => hav⟩
    · simp only [hav, if_false] at h
      cases hadv : q.advance r with
      | mk r1 rest =>
        obtain ⟨q1, ok1⟩ := rest
        rw [hadv] at h
        have s := advance_spec q r r1 q1 ok1 hq hinv hadv
        have hoff := s.2.2.1.2.2.1
        have hheld := s.2.2.2.2.1
        cases ok1 with
        | false =>
          dsimp only at h
          cases h
          exact ⟨s.1, s.2.1, s.2.2.1.1, s.2.2.1.2.1, by omega, hheld, fun h => by cases h⟩
        | true =>
          dsimp only at h
          obtain ⟨t1, t2, t3, t4, t5, t6, t7⟩ := ih q1 r1 r' q' ok s.2.2.1.1 s.1 h
          exact ⟨t1, t2.trans s.2.1, t3, s.2.2.1.2.1.trans t4, by omega, by omega, t7⟩

/-- `refill` with enough fuel reports `false` only because its last `advance` did -/
theorem refill_false_cause : ∀ (fuel : Nat) (q : QR) (r r' : PR) (q' : QR),
    r.CacheInv → q.WF → refillMeasure r ≤ fuel → refill fuel q r = (r', q', false) →
    ∃ (q0 : QR) (r0 : PR), q0.WF ∧ r0.CacheInv ∧ q0.available = 0 ∧ q0.advance r0 = (r', q', false) := by
  intro fuel
  induction fuel with
  | zero =>
    intro q r r' q' _ _ hm _
    unfold refillMeasure at hm; omega
  | succ fuel ih =>
    intro q r r' q' hinv hq hm h
    rw [refill_succ] at h
    by_cases hav : q.available ≥ 1
    · simp only [hav, if_true] at h
      cases h
    · simp only [hav, if_false] at h
      cases hadv : q.advance r with
      | mk r1 rest =>
        obtain ⟨q1, ok1⟩ := rest
        rw [hadv] at h
        cases ok1 with
        | false =>
          dsimp only at h
          cases h
          exact ⟨q, r, hq, hinv, by omega, hadv⟩
        | true =>
          dsimp only at h
          obtain ⟨hq1, hinv1, _⟩ := advance_wf q r r1 q1 true hq hinv hadv
          by_cases hz : q.zw = true
          · obtain ⟨e1, _, hav1⟩ := advance_zw_available q r r1 q1 true hq hinv hz hadv
            cases fuel with
            | zero => unfold refillMeasure at hm; omega
            | succ f =>
              rw [refill_succ] at h
              simp only [hav1, if_true] at h
              cases h
          · have hz : q.zw = false := by simpa using hz
            obtain ⟨p1, p2, p3⟩ := advance_progress q r r1 q1 hq hinv hz hadv
            have := refillMeasure_decreases r r1 p1 p2 p3
            exact ih q1 r1 r' q' hinv1 hq1 (by omega) h

/-- B3 (`refill_fuel_sufficient`): the iterator's fuel never runs out spuriously -/
theorem refill_fuel_sufficient (q : QR) (r r' : PR) (q' : QR) (hinv : r.CacheInv) (hq : q.WF)
    (h : refill (refillFuel r) q r = (r', q', false)) :
    ∃ (q0 : QR) (r0 : PR), q0.WF ∧ r0.CacheInv ∧ q0.available = 0 ∧ q0.advance r0 = (r', q', false) :=
  refill_false_cause _ q r r' q' hinv hq (refillMeasure_le_fuel r) h

/-- number of `advance` calls made by `refill` -/
def refillCalls : Nat → QR → PR → Nat
  | 0, _, _ => 0
  | fuel + 1, q, r =>
    if q.available ≥ 1 then 0 else
    match q.advance r with
    | (r1, q1, true) => refillCalls fuel q1 r1 + 1
    | (_, _, false) => 1

/-- C09 time: one `refill` makes at most `(logSize - offset) / 4 + 2` calls of `advance`, whatever the fuel -/
theorem refillCalls_le : ∀ (fuel : Nat) (q : QR) (r : PR), r.CacheInv → q.WF →
    refillCalls fuel q r ≤ refillMeasure r := by
  intro fuel
  induction fuel with
  | zero => intro q r _ _; simp [refillCalls]
  | succ fuel ih =>
    intro q r hinv hq
    unfold refillCalls
    by_cases hav : q.available ≥ 1
    · simp only [hav, if_true]; omega
    · simp only [hav, if_false]
      cases hadv : q.advance r with
      | mk r1 rest =>
        obtain ⟨q1, ok1⟩ := rest
        cases ok1 with
        | false => dsimp only; unfold refillMeasure; omega
        | true =>
          dsimp only
          obtain ⟨hq1, hinv1, _⟩ := advance_wf q r r1 q1 true hq hinv hadv
          by_cases hz : q.zw = true
          · obtain ⟨e1, _, hav1⟩ := advance_zw_available q r r1 q1 true hq hinv hz hadv
            have : refillCalls fuel q1 r1 = 0 := by
              cases fuel with
              | zero => rfl
              | succ f => unfold refillCalls; simp only [hav1, if_true]
            rw [this]; unfold refillMeasure; omega
          · have hz : q.zw = false := by simpa using hz
            obtain ⟨p1, p2, p3⟩ := advance_progress q r r1 q1 hq hinv hz hadv
            have := refillMeasure_decreases r r1 p1 p2 p3
            have := ih q1 r1 hinv1 hq1
            omega

/-- B3 summary -/
theorem refill_terminates_with_progress (q : QR) (r : PR) (hinv : r.CacheInv) (hq : q.WF) :
    (∀ fuel, refillFuel r ≤ fuel → refill fuel q r = refill (refillFuel r) q r) ∧
    (∀ fuel, refillCalls fuel q r ≤ (r.logSize - r.offset) / 4 + 2) ∧
    (∀ r' q', refill (refillFuel r) q r = (r', q', false) →
      ∃ (q0 : QR) (r0 : PR), q0.WF ∧ r0.CacheInv ∧ q0.available = 0 ∧ q0.advance r0 = (r', q', false)) :=
  ⟨refill_fuel_irrelevant q r hinv hq, fun fuel => refillCalls_le fuel q r hinv hq,
   fun r' q' h => refill_fuel_sufficient q r r' q' hinv hq h⟩

/-! ## B4. an iterator yields at most `records` points -/

theorem popPoint_wf (q : QR) (p : List Value) (q2 : QR) (hq : q.WF) (h : q.popPoint = some (p, q2)) :
    q2.WF ∧ q2.proto = q.proto ∧ q2.streams = q.streams ∧ p.length = q.proto.length := by
  obtain ⟨h1, h2, h3, h4⟩ := hq
  unfold QR.popPoint at h
  split at h
  · split at h
    · cases h
    · cases h
      exact ⟨⟨h1, by simpa using h2, h3, h4⟩, rfl, rfl, by simpa using h2⟩
  · dsimp only at h
    split at h
    · cases h
    · cases h
      have hl : (q.proto.zip q.queues).length = q.proto.length := by
        simp only [List.length_zip]; omega
      exact ⟨⟨h1, by simpa using hl, h3, h4⟩, rfl, rfl, by simpa using hl⟩

theorem RawIter.next_spec (it : RawIter) (r r' : PR) (it' : RawIter) (item : Item (List Value))
    (h : it.next r = (r', it', item)) :
    it'.records = it.records ∧
    (∀ p, item = .value p → it.read < it.records ∧ it'.read = it.read + 1) ∧
    ((∀ p, item ≠ .value p) → it'.read = it.read) ∧
    (it.read ≥ it.records → r' = r ∧ it' = it ∧ item = .done) := by
  unfold RawIter.next at h
  by_cases hge : it.read ≥ it.records
  · simp only [hge, if_true] at h
    cases h
    exact ⟨rfl, (fun p hp => by cases hp), fun _ => rfl, fun _ => ⟨rfl, rfl, rfl⟩⟩
  · simp only [hge, if_false] at h
    split at h
    · cases h
      exact ⟨rfl, (fun p hp => by cases hp), fun _ => rfl, fun h => absurd h hge⟩
    · split at h
      · cases h
        exact ⟨rfl, fun p hp => ⟨by omega, rfl⟩, fun hn => absurd rfl (hn _), fun h => absurd h hge⟩
      · cases h
        exact ⟨rfl, (fun p hp => by cases hp), fun _ => rfl, fun h => absurd h hge⟩

/-- the invariants of the queue reader and of the page reader survive every `next`, whatever it returns -/
theorem RawIter.next_inv (it : RawIter) (r r' : PR) (it' : RawIter) (item : Item (List Value))
    (hq : it.q.WF) (hinv : r.CacheInv) (h : it.next r = (r', it', item)) :
    it'.q.WF ∧ it'.q.proto = it.q.proto ∧ r'.CacheInv ∧ r.SameFile r' ∧ r.offset ≤ r'.offset ∧
    held it'.q.streams + r.offset ≤ held it.q.streams + r'.offset ∧
    (∀ p, item = .value p → p.length = it.q.proto.length) := by
  unfold RawIter.next at h
  by_cases hge : it.read ≥ it.records
  · simp only [hge, if_true] at h
    cases h
    exact ⟨hq, rfl, hinv, PR.SameFile.refl r, Nat.le_refl _, Nat.le_refl _, fun p hp => by cases hp⟩
  · simp only [hge, if_false] at h
    split at h
    · rename_i r1 q1 e
      cases h
      obtain ⟨t1, t2, t3, t4, t5, t6, _⟩ := refill_spec _ it.q r r' q1 false hinv hq e
      exact ⟨t1, t2, t3, t4, t5, t6, fun p hp => by cases hp⟩
    · rename_i r1 q1 e
      obtain ⟨t1, t2, t3, t4, t5, t6, _⟩ := refill_spec _ it.q r r1 q1 true hinv hq e
      split at h
      · rename_i p q2 ep
        cases h
        obtain ⟨w, pe, se, pl⟩ := popPoint_wf q1 p q2 t1 ep
        refine ⟨w, pe.trans t2, t3, t4, t5, by simp only; rw [se]; exact t6, ?_⟩
        intro p' hp
        cases hp
        rw [pl, t2]
      · cases h
        exact ⟨t1, t2, t3, t4, t5, t6, fun p hp => by cases hp⟩

/-- `n` consecutive calls of `next` (the caller may go on after an error) -/
def RawIter.run : Nat → RawIter → PR → List (Item (List Value))
  | 0, _, _ => []
  | n + 1, it, r =>
    match it.next r with
    | (r', it', item) => item :: RawIter.run n it' r'

def Item.isValue {α} : Item α → Bool
  | .value _ => true
  | _ => false

def Item.isDone {α} : Item α → Bool
  | .done => true
  | _ => false

/-- B4 (`raw_count`): however often `next` is called, at most `records - read` points come out -/
theorem raw_count : ∀ (n : Nat) (it : RawIter) (r : PR),
    (RawIter.run n it r).countP Item.isValue ≤ it.records - it.read := by
  intro n
  induction n with
  | zero => intro it r; simp [RawIter.run]
  | succ n ih =>
    intro it r
    cases hnx : it.next r with
    | mk r' rest =>
      obtain ⟨it', item⟩ := rest
      obtain ⟨s1, s2, s3, _⟩ := RawIter.next_spec it r r' it' item hnx
      have := ih it' r'
      simp only [RawIter.run, hnx, List.countP_cons]
      cases item with
      | value p =>
        obtain ⟨a, b⟩ := s2 p rfl
        simp only [Item.isValue, if_true]
        omega
      | done =>
        have := s3 (fun p hp => by cases hp)
        simp only [Item.isValue, Bool.false_eq_true, if_false]
        omega
      | error =>
        have := s3 (fun p hp => by cases hp)
        simp only [Item.isValue, Bool.false_eq_true, if_false]
        omega

/-- B4: once `read ≥ records` the iterator answers `done` forever (and touches nothing) -/
theorem raw_done_forever : ∀ (n : Nat) (it : RawIter) (r : PR), it.read ≥ it.records →
    RawIter.run n it r = List.replicate n .done := by
  intro n
  induction n with
  | zero => intro it r _; rfl
  | succ n ih =>
    intro it r h
    cases hnx : it.next r with
    | mk r' rest =>
      obtain ⟨it', item⟩ := rest
      obtain ⟨e1, e2, e3⟩ := (RawIter.next_spec it r r' it' item hnx).2.2.2 h
      simp only [RawIter.run, hnx, List.replicate_succ]
      rw [e1, e2, e3, ih it r h]

/-- a fresh iterator (`read = 0`) yields at most `records` points -/
theorem raw_count_fresh (n : Nat) (q : QR) (records : Nat) (r : PR) :
    (RawIter.run n ⟨q, records, 0⟩ r).countP Item.isValue ≤ records := by
  simpa using raw_count n ⟨q, records, 0⟩ r

/-! ## C. opening a file and reading blobs -/

/-- the length of what `read_exact` returns needs no invariant at all -/
theorem pr_readExactFuel_length (fuel : Nat) :
    ∀ (r : PR) (n : Nat) (acc : Bytes) (r' : PR) (bs : Bytes),
      PR.readExactFuel fuel r n acc = (r', some bs) → bs.length = acc.length + n := by
  induction fuel with
  | zero =>
    intro r n acc r' bs h
    cases n with
    | zero => simp only [PR.readExactFuel] at h; cases h; rfl
    | succ n => simp only [PR.readExactFuel] at h; cases h
  | succ fuel ih =>
    intro r n acc r' bs h
    cases n with
    | zero => simp only [PR.readExactFuel] at h; cases h; rfl
    | succ n =>
      unfold PR.readExactFuel at h
      split at h
      · rename_i r1 b e
        have hle := pr_read_length_le r _ r1 b e
        split at h
        · cases h
        · have := ih _ _ _ _ _ h
          rw [this, List.length_append]; omega
      · cases h

theorem pr_readExact_length' (r : PR) (n : Nat) (r' : PR) (bs : Bytes)
    (h : r.readExact n = (r', some bs)) : bs.length = n := by
  simpa using pr_readExactFuel_length (n + 1) r n [] r' bs h

theorem FileHeader.read_spec (file : Bytes) (hd : FileHeader) (h : FileHeader.read file = some hd) :
    hd.pageSize = 1024 ∧ 48 ≤ file.length := by
  unfold FileHeader.read at h
  split at h
  · cases h
  · rename_i hlen
    dsimp only at h
    split at h
    · cases h
    · split at h
      · cases h
      · split at h
        · cases h
        · split at h
          · cases h
          · rename_i hps
            cases h
            exact ⟨by simpa using hps, by omega⟩

/-- C1: `extract_xml` refuses more than 10 MiB -/
theorem extractXml_too_long (r : PR) (offset length : Nat) (h : length > maxXmlSize) :
    extractXml r offset length = none := by
  simp [extractXml, h]

/-- C1: a successful `extract_xml` returned exactly `length ≤ maxXmlSize` bytes and consumed exactly
    that many bytes after the seek -/
theorem extractXml_spec (r : PR) (offset length : Nat) (r' : PR) (bs : Bytes) (hinv : r.CacheInv)
    (h : extractXml r offset length = some (r', bs)) :
    length ≤ maxXmlSize ∧ bs.length = length ∧ r'.CacheInv ∧ r.SameFile r' ∧
    r'.offset = (offset - offset / r.pageSize * 4) + length ∧ offset < r.physSize := by
  unfold extractXml at h
  split at h
  · cases h
  · rename_i hle
    split at h
    · rename_i r1 o1 e1
      obtain ⟨i1, f1, eo, eo2, hlt⟩ := pr_seek_spec r offset r1 o1 hinv e1
      split at h
      · rename_i r2 b e2
        cases h
        obtain ⟨a, s⟩ := pr_readExact_spec r1 length r' _ i1 e2
        obtain ⟨t1, t2, _⟩ := s bs rfl
        exact ⟨by omega, t2, a.1, f1.trans a.2.1, by omega, hlt⟩
      · cases h
    · cases h

/-- C1: `E57Reader::new` holds the XML (≤ 10 MiB) and one page buffer of 1024 bytes; the page
    reader it leaves behind satisfies the cache invariant over the unchanged file -/
theorem Reader.open_spec (file : Bytes) (xo : XmlOracle) (fp : FloatParse) (rd : Reader)
    (h : Reader.open file xo fp = some rd) :
    rd.header.pageSize = 1024 ∧ rd.pr.pageSize = 1024 ∧ rd.pr.page.length = 1024 ∧
    rd.xml.length = rd.header.xmlLength ∧ rd.xml.length ≤ maxXmlSize ∧
    rd.pr.CacheInv ∧ rd.pr.dev.data = file ∧ FileHeader.read file = some rd.header := by
  unfold Reader.open at h
  cases hh : FileHeader.read file with
  | none => simp [hh] at h
  | some header =>
    obtain ⟨hps, _⟩ := FileHeader.read_spec file header hh
    cases hp : PR.new ⟨file, 48⟩ header.pageSize with
    | err e => simp [hh, hp, Outcome.toOption] at h
    | panic e => simp [hh, hp, Outcome.toOption] at h
    | ok pr00 =>
      have i00 := pr_new_inv _ _ pr00 hp
      obtain ⟨d00, p00, _⟩ := pr_new_data _ _ pr00 hp
      cases hc : checkHeaderPage pr00 with
      | none => simp [hh, hp, hc, Outcome.toOption] at h
      | some pr =>
      obtain ⟨i0, s0, -⟩ := checkHeaderPage_some pr00 pr i00 hc
      have d0 : pr.dev.data = file := s0.1.trans d00
      have p0 : pr.pageSize = header.pageSize := s0.2.1.trans p00
      cases hx : extractXml pr header.xmlOffset header.xmlLength with
      | none => simp [hh, hp, hc, hx, Outcome.toOption] at h
      | some res =>
        obtain ⟨pr1, xml⟩ := res
        obtain ⟨x1, x2, x3, x4, _⟩ := extractXml_spec pr _ _ pr1 xml i0 hx
        simp only [hh, hp, hc, hx, Outcome.toOption, Option.bind_eq_bind, Option.bind_some,
          Option.bind_eq_some_iff, Option.pure_def, Option.some.injEq] at h
        obtain ⟨doc, _, root, _, pcs, _, imgs, _, e⟩ := h
        subst e
        obtain ⟨y1, y2, y3, y4, y5⟩ := x4
        refine ⟨hps, by simp only; rw [y2, p0, hps], ?_, x2, by simp only; omega, x3,
          by simp only; rw [y1, d0], rfl⟩
        have := x3.2.2.2.2.2.1
        simp only; rw [this, y2, p0, hps]

/-- C2: `Blob::read` returns exactly `length` bytes or an error — no invariant needed -/
theorem blobRead_exact_or_error (r : PR) (b : BlobRef) (d : Bytes)
    (h : (blobRead r b).2 = some d) : d.length = b.length := by
  unfold blobRead at h
  split at h
  · split at h
    · dsimp only at h
      split at h
      · cases h
      · split at h
        · cases h
        · split at h
          · rename_i r3 d' e
            cases h
            exact pr_readExact_length' _ _ _ _ e
          · cases h
    · cases h
  · cases h

/-- C2: `Blob::read` consumes at most `16 + length` bytes after the seek, exactly that many when it
    succeeds, and it fails when the logical file ends earlier -/
theorem blobRead_spec (r : PR) (b : BlobRef) (r' : PR) (o : Option Bytes) (hinv : r.CacheInv)
    (h : blobRead r b = (r', o)) :
    r'.CacheInv ∧ r.SameFile r' ∧
    (∀ r1 start, r.seekPhysical b.offset = .ok (r1, start) →
      start ≤ r'.offset ∧ r'.offset ≤ start + 16 + b.length ∧
      (∀ d, o = some d → d.length = b.length ∧ r'.offset = start + 16 + b.length ∧
        start + 16 + b.length ≤ r.logSize) ∧
      (r.logSize < start + 16 + b.length → o = none)) := by
  have key : r'.CacheInv ∧ r.SameFile r' ∧
      (∀ r1 start, r.seekPhysical b.offset = .ok (r1, start) →
        start ≤ r'.offset ∧ r'.offset ≤ start + 16 + b.length ∧
        (∀ d, o = some d → d.length = b.length ∧ r'.offset = start + 16 + b.length ∧
          start + 16 + b.length ≤ r.logSize)) := by
    unfold blobRead at h
    split at h
    · rename_i r1 o1 e1
      obtain ⟨i1, f1, eo, _, _⟩ := pr_seek_spec r _ r1 o1 hinv e1
      split at h
      · rename_i r2 hd e2
        obtain ⟨a2, s2⟩ := pr_readExact_spec r1 16 r2 _ i1 e2
        obtain ⟨u1, _, u3⟩ := s2 hd rfl
        have u3 := u3 (by omega)
        have hl2 : r2.logSize = r.logSize := a2.logSize.trans f1.2.2.2.1
        dsimp only at h
        have fail : ∀ (rr : PR), rr = r2 → (r2, (none : Option Bytes)) = (r', o) →
            r'.CacheInv ∧ r.SameFile r' ∧
            (∀ r1 start, r.seekPhysical b.offset = .ok (r1, start) →
              start ≤ r'.offset ∧ r'.offset ≤ start + 16 + b.length ∧
              (∀ d, o = some d → d.length = b.length ∧ r'.offset = start + 16 + b.length ∧
                start + 16 + b.length ≤ r.logSize)) := by
          intro _ _ hh
          cases hh
          refine ⟨a2.1, f1.trans a2.2.1, ?_⟩
          intro r1' start es
          rw [e1] at es; cases es
          exact ⟨by omega, by omega, fun d hd => by cases hd⟩
        split at h
        · exact fail r2 rfl h
        · split at h
          · exact fail r2 rfl h
          · split at h
            · rename_i r3 d e3
              cases h
              obtain ⟨a3, s3⟩ := pr_readExact_spec r2 b.length r' _ a2.1 e3
              obtain ⟨v1, v2, _⟩ := s3 d rfl
              have hin : r'.InLog := a3.inLog u3
              unfold PR.InLog at hin
              rw [a3.logSize, hl2] at hin
              refine ⟨a3.1, (f1.trans a2.2.1).trans a3.2.1, ?_⟩
              intro r1' start es
              rw [e1] at es; cases es
              exact ⟨by omega, by omega, fun d' hd' => by cases hd'; exact ⟨v2, by omega, by omega⟩⟩
            · rename_i r3 e3
              cases h
              obtain ⟨a3, _⟩ := pr_readExact_spec r2 b.length r' _ a2.1 e3
              have := a3.2.2.1
              have := a3.2.2.2.1
              refine ⟨a3.1, (f1.trans a2.2.1).trans a3.2.1, ?_⟩
              intro r1' start es
              rw [e1] at es; cases es
              exact ⟨by omega, by omega, fun d hd => by cases hd⟩
      · rename_i r2 e2
        cases h
        obtain ⟨a2, _⟩ := pr_readExact_spec r1 16 r' _ i1 e2
        have := a2.2.2.1
        have := a2.2.2.2.1
        refine ⟨a2.1, f1.trans a2.2.1, ?_⟩
        intro r1' start es
        rw [e1] at es; cases es
        exact ⟨by omega, by omega, fun d hd => by cases hd⟩
    · rename_i hno
      cases h
      refine ⟨hinv, PR.SameFile.refl r, ?_⟩
      intro r1 start es
      exact absurd es (hno r1 start)
  obtain ⟨k1, k2, k3⟩ := key
  refine ⟨k1, k2, ?_⟩
  intro r1 start es
  obtain ⟨m1, m2, m3⟩ := k3 r1 start es
  refine ⟨m1, m2, m3, ?_⟩
  intro hlt
  cases o with
  | none => rfl
  | some d =>
    have := (m3 d rfl).2.2
    omega

/-! ## the prototype condition is established by the metadata reader

`QR.WF` asks every Integer / ScaledInteger record for `min ≤ max` inside the `i64` range.  The
model of `RecordDataType::from_node` (E57/Model/MetaRead.lean) guarantees it, so every point
cloud of an opened reader satisfies it. -/

theorem parseI64_inI64 (s : String) (v : Int) (h : parseI64 s = some v) : inI64 v = true := by
  rw [inI64_iff]
  unfold parseI64 at h
  split at h
  · simp only [Option.bind_eq_bind, Option.bind_eq_some_iff] at h
    obtain ⟨n, _, h⟩ := h
    split at h
    · cases h; omega
    · cases h
  · simp only [Option.bind_eq_bind, Option.bind_eq_some_iff] at h
    obtain ⟨n, _, h⟩ := h
    split at h
    · cases h; omega
    · cases h
  · simp only [Option.bind_eq_bind, Option.bind_eq_some_iff] at h
    obtain ⟨n, _, h⟩ := h
    split at h
    · cases h; omega
    · cases h

theorem optAttr_parseI64_getD (node : XNode) (name : String) (o : Option Int) (d : Int)
    (hd : inI64 d = true) (h : optAttr parseI64 node name = some o) : inI64 (o.getD d) = true := by
  unfold optAttr at h
  split at h
  · rename_i v _
    cases hp : parseI64 v with
    | none => simp [hp] at h
    | some x =>
      simp only [hp, Option.map_some, Option.some.injEq] at h
      subst h
      exact parseI64_inI64 v x hp
  · cases h
    exact hd

theorem DataType.fromNode_rangeOk (fp : FloatParse) (node : XNode) (dt : DataType)
    (h : DataType.fromNode fp node = some dt) : dt.RangeOk := by
  unfold DataType.fromNode at h
  simp only [Option.bind_eq_bind, Option.bind_eq_some_iff] at h
  obtain ⟨ty, _, h⟩ := h
  split at h
  · split at h
    · simp only [Option.bind_eq_some_iff, Option.pure_def, Option.some.injEq] at h
      obtain ⟨_, _, _, _, h⟩ := h
      subst h; trivial
    · split at h
      · simp only [Option.bind_eq_some_iff, Option.pure_def, Option.some.injEq] at h
        obtain ⟨_, _, _, _, h⟩ := h
        subst h; trivial
      · cases h
  · split at h
    · simp only [Option.bind_eq_some_iff] at h
      obtain ⟨omin, hmin, omax, hmax, h⟩ := h
      split at h
      · cases h
      · rename_i hlt
        simp only [Option.pure_def, Option.some.injEq] at h
        subst h
        exact ⟨by omega, optAttr_parseI64_getD node _ omin _ (by decide) hmin,
          optAttr_parseI64_getD node _ omax _ (by decide) hmax⟩
    · split at h
      · simp only [Option.bind_eq_some_iff] at h
        obtain ⟨omin, hmin, omax, hmax, h⟩ := h
        split at h
        · cases h
        · rename_i hlt
          simp only [Option.bind_eq_some_iff, Option.pure_def, Option.some.injEq] at h
          obtain ⟨_, _, _, _, h⟩ := h
          subst h
          exact ⟨by omega, optAttr_parseI64_getD node _ omin _ (by decide) hmin,
            optAttr_parseI64_getD node _ omax _ (by decide) hmax⟩
      · cases h

theorem mapM_option_forall {α β} (f : α → Option β) (P : β → Prop)
    (hf : ∀ a b, f a = some b → P b) :
    ∀ (l : List α) (out : List β), l.mapM f = some out → ∀ b ∈ out, P b := by
  intro l
  induction l with
  | nil =>
    intro out h b hb
    simp only [List.mapM_nil, Option.pure_def, Option.some.injEq] at h
    subst h; cases hb
  | cons a l ih =>
    intro out h b hb
    simp only [List.mapM_cons, Option.bind_eq_bind, Option.bind_eq_some_iff, Option.pure_def,
      Option.some.injEq] at h
    obtain ⟨x, hx, xs, hxs, h⟩ := h
    subst h
    rcases List.mem_cons.mp hb with rfl | hb
    · exact hf a _ hx
    · exact ih xs hxs b hb

theorem prototypeFromNode_rangeOk (fp : FloatParse) (proto : XNode) (p : Prototype)
    (h : prototypeFromNode fp proto = some p) : Prototype.RangeOk p := by
  unfold prototypeFromNode at h
  refine mapM_option_forall _ (fun r => r.dt.RangeOk) ?_ _ p h
  intro n rec hr
  simp only [Option.bind_eq_bind, Option.bind_eq_some_iff, Option.pure_def, Option.some.injEq] at hr
  obtain ⟨dt, hdt, hr⟩ := hr
  subst hr
  exact DataType.fromNode_rangeOk fp n dt hdt

theorem PointCloud.fromNode_rangeOk (fp : FloatParse) (node : XNode) (pc : PointCloud)
    (h : PointCloud.fromNode fp node = some pc) : Prototype.RangeOk pc.prototype := by
  unfold PointCloud.fromNode at h
  simp only [Option.bind_eq_bind, Option.bind_eq_some_iff, Option.pure_def, Option.some.injEq] at h
  obtain ⟨_, _, _, _, _, _, _, _, _, _, _, _, _, _, _, _, _, _, _, _, _, _, _, _, h⟩ := h
  obtain ⟨_, _, _, _, _, _, h⟩ := h
  obtain ⟨_, _, _, _, _, _, _, _, _, _, protoTag, _, proto, hproto, h⟩ := h
  obtain ⟨_, _, _, _, _, _, _, _, _, _, h⟩ := h
  subst h
  exact prototypeFromNode_rangeOk fp protoTag proto hproto

theorem pointcloudsFromDocument_rangeOk (fp : FloatParse) (d : XDoc) (pcs : List PointCloud)
    (h : pointcloudsFromDocument fp d = some pcs) : ∀ pc ∈ pcs, Prototype.RangeOk pc.prototype := by
  unfold pointcloudsFromDocument at h
  split at h
  · exact mapM_option_forall _ (fun pc => Prototype.RangeOk pc.prototype)
      (fun n pc hn => PointCloud.fromNode_rangeOk fp n pc hn) _ pcs h
  · cases h
    intro pc hpc; cases hpc

/-- every point cloud of an opened reader satisfies the prototype condition of `QR.WF` -/
theorem Reader.open_rangeOk (file : Bytes) (xo : XmlOracle) (fp : FloatParse) (rd : Reader)
    (h : Reader.open file xo fp = some rd) : ∀ pc ∈ rd.pcs, Prototype.RangeOk pc.prototype := by
  unfold Reader.open at h
  simp only [Option.bind_eq_bind, Option.bind_eq_some_iff, Option.pure_def, Option.some.injEq] at h
  obtain ⟨_, _, _, _, _, _, _, _, doc, _, _, _, pcs, hpcs, _, _, h⟩ := h
  subst h
  exact pointcloudsFromDocument_rangeOk fp doc pcs hpcs

/-! ## all histories of an iterator over an opened file -/

theorem PR.Adv.offset_le {a b : PR} {l h : Nat} (x : a.Adv b l h) :
    b.offset ≤ max a.offset a.logSize := by
  by_cases hin : a.InLog
  · have := x.inLog hin
    unfold PR.InLog at this
    rw [x.logSize] at this
    omega
  · have := x.stuck hin
    omega

theorem advance_offset_le (q : QR) (r r' : PR) (q' : QR) (ok : Bool) (hq : q.WF) (hinv : r.CacheInv)
    (h : q.advance r = (r', q', ok)) : r'.offset ≤ max r.offset r.logSize :=
  (advance_spec q r r' q' ok hq hinv h).2.2.1.offset_le

theorem refill_offset_le : ∀ (fuel : Nat) (q : QR) (r r' : PR) (q' : QR) (ok : Bool),
    r.CacheInv → q.WF → refill fuel q r = (r', q', ok) → r'.offset ≤ max r.offset r.logSize := by
  intro fuel
  induction fuel with
  | zero =>
    intro q r r' q' ok _ _ h
    simp only [refill] at h
    cases h; omega
  | succ fuel ih =>
    intro q r r' q' ok hinv hq h
    rw [refill_succ] at h
    by_cases hav : q.available ≥ 1
    · simp only [hav, if_true] at h
      cases h; omega
    · simp only [hav, if_false] at h
      cases hadv : q.advance r with
      | mk r1 rest =>
        obtain ⟨q1, ok1⟩ := rest
        rw [hadv] at h
        have s := advance_spec q r r1 q1 ok1 hq hinv hadv
        have h1 := s.2.2.1.offset_le
        cases ok1 with
        | false => dsimp only at h; cases h; exact h1
        | true =>
          dsimp only at h
          have h2 := ih q1 r1 r' q' ok s.2.2.1.1 s.1 h
          rw [s.2.2.1.logSize] at h2
          omega

theorem RawIter.next_offset_le (it : RawIter) (r r' : PR) (it' : RawIter) (item : Item (List Value))
    (hq : it.q.WF) (hinv : r.CacheInv) (h : it.next r = (r', it', item)) :
    r'.offset ≤ max r.offset r.logSize := by
  unfold RawIter.next at h
  by_cases hge : it.read ≥ it.records
  · simp only [hge, if_true] at h
    cases h; omega
  · simp only [hge, if_false] at h
    split at h
    · rename_i r1 q1 e
      cases h
      exact refill_offset_le _ it.q r r' q1 false hinv hq e
    · rename_i r1 q1 e
      have := refill_offset_le _ it.q r r1 q1 true hinv hq e
      split at h <;> (cases h; exact this)

/-- state after `n` calls of `next` (errors included: the caller may go on) -/
def RawIter.after : Nat → RawIter → PR → RawIter × PR
  | 0, it, r => (it, r)
  | n + 1, it, r =>
    match it.next r with
    | (r', it', _) => RawIter.after n it' r'

theorem RawIter.after_inv : ∀ (n : Nat) (it : RawIter) (r : PR), it.q.WF → r.CacheInv →
    (RawIter.after n it r).1.q.WF ∧ (RawIter.after n it r).1.records = it.records ∧
    (RawIter.after n it r).2.CacheInv ∧ r.SameFile (RawIter.after n it r).2 ∧
    r.offset ≤ (RawIter.after n it r).2.offset ∧
    (RawIter.after n it r).2.offset ≤ max r.offset r.logSize ∧
    held (RawIter.after n it r).1.q.streams + r.offset
      ≤ held it.q.streams + (RawIter.after n it r).2.offset := by
  intro n
  induction n with
  | zero =>
    intro it r hq hinv
    exact ⟨hq, rfl, hinv, PR.SameFile.refl r, Nat.le_refl _, by simp only [RawIter.after]; omega,
      Nat.le_refl _⟩
  | succ n ih =>
    intro it r hq hinv
    cases hnx : it.next r with
    | mk r' rest =>
      obtain ⟨it', item⟩ := rest
      obtain ⟨t1, _, t3, t4, t5, t6, _⟩ := RawIter.next_inv it r r' it' item hq hinv hnx
      have t7 := RawIter.next_offset_le it r r' it' item hq hinv hnx
      have t8 := (RawIter.next_spec it r r' it' item hnx).1
      obtain ⟨u1, u2, u3, u4, u5, u6, u7⟩ := ih it' r' t1 t3
      have hl : r'.logSize = r.logSize := t4.2.2.2.1
      simp only [RawIter.after, hnx]
      rw [hl] at u6
      exact ⟨u1, u2.trans t8, u3, t4.trans u4, by omega, by omega, by omega⟩

/-- C08/C09 end to end.  For ANY bytes `file`, any XML front end and float parser: if the reader
    opens and a queue reader is created for one of its point clouds, then after any number of
    `next` calls (whatever they returned)
    * the bit buffers and the page cache are well formed (so the next call cannot reach a panic
      site of `bs_read`/`bitpack`, by `advance_no_panic` / `parseStream_no_panic`),
    * the stream buffers together hold no more bytes than the file has,
    * the iterator has yielded at most `records` points. -/
theorem reader_total (file : Bytes) (xo : XmlOracle) (fp : FloatParse) (rd : Reader)
    (hopen : Reader.open file xo fp = some rd) (pc : PointCloud) (hpc : pc ∈ rd.pcs)
    (r0 : PR) (q : QR) (hnew : QR.new pc rd.pr = (r0, some q)) (n : Nat) :
    let it0 : RawIter := ⟨q, pc.records, 0⟩
    (RawIter.after n it0 r0).1.q.WF ∧ (RawIter.after n it0 r0).2.CacheInv ∧
    (RawIter.after n it0 r0).2.dev.data = file ∧ (RawIter.after n it0 r0).2.pageSize = 1024 ∧
    held (RawIter.after n it0 r0).1.q.streams ≤ file.length ∧
    (RawIter.run n it0 r0).countP Item.isValue ≤ pc.records := by
  intro it0
  obtain ⟨_, o2, _, _, _, o6, o7, _⟩ := Reader.open_spec file xo fp rd hopen
  have hro := Reader.open_rangeOk file xo fp rd hopen pc hpc
  obtain ⟨n1, n2, n3⟩ := QR.new_wf pc rd.pr r0 _ o6 hnew
  obtain ⟨hqwf, _, hheld⟩ := n3 q rfl hro
  obtain ⟨a1, _, a3, a4, a5, a6, a7⟩ := RawIter.after_inv n it0 r0 hqwf n1
  have sf := n2.trans a4
  refine ⟨a1, a3, by rw [sf.1, o7], by rw [sf.2.1, o2], ?_, raw_count_fresh n q pc.records r0⟩
  -- memory: held ≤ bytes consumed ≤ logSize ≤ file size
  have hh : held it0.q.streams = 0 := hheld
  rw [hh] at a7
  obtain ⟨c1, c2, c3, c4, c5, _⟩ := n1
  have hlen : r0.logSize ≤ file.length := by
    have : r0.dev.data = file := by rw [n2.1, o7]
    rw [← this, c1, c2, c5]
    exact Nat.mul_le_mul_left _ (by omega)
  omega

/-! ## small corollaries named in the task -/

/-- B2 (ii), degenerate branch: exactly one value is appended to every queue, no byte is read -/
theorem advance_allZeroWidth (q : QR) (r r' : PR) (q' : QR) (ok : Bool) (hq : q.WF)
    (hinv : r.CacheInv) (hz : q.zw = true) (h : q.advance r = (r', q', ok)) :
    r' = r ∧ ok = true ∧ q'.streams = q.streams ∧
    q'.queues.map List.length = q.queues.map (fun l => l.length + 1) ∧ q'.available ≥ 1 := by
  obtain ⟨e1, e2, e3, e4⟩ := (advance_spec q r r' q' ok hq hinv h).2.2.2.2.2.2 hz
  exact ⟨e1, e2, e3, e4, (advance_zw_available q r r' q' ok hq hinv hz h).2.2⟩

/-- C09 memory, sized records: what `parseStream` leaves in a buffer is less than one value
    (< 64 bits), so the next `append` holds at most 8 old bytes plus the new chunk -/
theorem RBuf.append_small (r : RBuf) (d : Bytes) (h : r.WF) (hs : r.avail < 64) (r' : RBuf)
    (e : r.append d = .ok r') : r'.buffer.length ≤ 8 + d.length := by
  obtain ⟨r0, e0, _, hlen, _⟩ := r.append_wf d h
  rw [e0] at e; cases e
  unfold RBuf.WF at h; unfold RBuf.avail at hs
  omega

theorem parseStream_residue (dt : DataType) (s : RBuf) (q : List Value) (hs : s.WF)
    (hr : dt.RangeOk) (hz : dt.bitSize ≠ 0) (s' : RBuf) (q' : List Value)
    (h : parseStream dt s q = some (s', q')) : s'.WF ∧ s'.avail < 64 := by
  obtain ⟨s0, q0, e, hwf, _, _, hrem, _⟩ := parseStream_spec dt s q hs hr
  rw [e] at h; cases h
  have := bitSize_le_64 dt hr
  have := hrem hz
  exact ⟨hwf, by omega⟩

/-! ## records of zero bit size occupy no queue memory -/

/-- unless the cloud is all-constant, the queue of every record of zero bit size is empty -/
def QR.ConstEmpty (q : QR) : Prop :=
  q.zw = false → ∀ rec qu, (rec, qu) ∈ q.proto.zip q.queues → rec.dt.bitSize = 0 → qu = []

theorem parseStream_zero_id (dt : DataType) (s : RBuf) (q : List Value) (hz : dt.bitSize = 0) :
    parseStream dt s q = some (s, q) := by
  unfold parseStream
  cases dt with
  | single a b => simp [DataType.bitSize] at hz
  | double a b => simp [DataType.bitSize] at hz
  | scaled mn mx sc off => simp only [hz, if_true]
  | integer mn mx => simp only [hz, if_true]

/-- zip form of `parseStreams_constant_untouched` -/
theorem parseStreams_constant_mem :
    ∀ (p : List Record) (ss : List RBuf) (qs : List (List Value)) (ss' : List RBuf)
      (qs' : List (List Value)), parseStreams p ss qs = some (ss', qs') →
      ∀ rec qu, (rec, qu) ∈ p.zip qs' → rec.dt.bitSize = 0 → (rec, qu) ∈ p.zip qs := by
  intro p
  induction p with
  | nil => intro ss qs ss' qs' _ rec qu hm; simp at hm
  | cons r0 p ih =>
    intro ss qs ss' qs' h rec qu hm hz
    cases ss with
    | nil => simp [parseStreams] at h
    | cons s ss =>
      cases qs with
      | nil => simp [parseStreams] at h
      | cons q qs =>
        simp only [parseStreams, bind, Option.bind] at h
        cases e1 : parseStream r0.dt s q with
        | none => rw [e1] at h; cases h
        | some sq =>
          obtain ⟨s1, q1⟩ := sq
          rw [e1] at h
          dsimp only at h
          cases e2 : parseStreams p ss qs with
          | none => rw [e2] at h; cases h
          | some sqs =>
            obtain ⟨ss1, qs1⟩ := sqs
            rw [e2] at h
            simp only [pure, Option.some.injEq, Prod.mk.injEq] at h
            obtain ⟨rfl, rfl⟩ := h
            simp only [List.zip_cons_cons, List.mem_cons] at hm ⊢
            rcases hm with hm | hm
            · left
              simp only [Prod.mk.injEq] at hm
              obtain ⟨rfl, rfl⟩ := hm
              rw [parseStream_zero_id _ _ _ hz] at e1
              simp only [Option.some.injEq, Prod.mk.injEq] at e1
              rw [e1.2]
            · right; exact ih ss qs ss1 qs1 e2 rec qu hm hz

theorem skipPacket_q (q : QR) (r1 : PR) (k : Nat) : (skipPacket q r1 k).2.1 = q := by
  unfold skipPacket
  split
  · split <;> rfl
  · rfl

/-- a data packet leaves the queues alone or replaces them by what `parseStreams` returns -/
theorem dataPacket_queues (q : QR) (r1 : PR) :
    (dataPacket q r1).2.1.proto = q.proto ∧
    ((dataPacket q r1).2.1.queues = q.queues ∨
      ∃ st ss', parseStreams q.proto st q.queues = some (ss', (dataPacket q r1).2.1.queues)) := by
  unfold dataPacket
  split
  · exact ⟨rfl, .inl rfl⟩
  · rename_i r2 sizes e
    cases hrs : readStreams sizes q.streams r2 [] with
    | mk r3 rest =>
      obtain ⟨streams1, ok1⟩ := rest
      dsimp only
      cases ok1 with
      | false => exact ⟨rfl, .inl rfl⟩
      | true =>
        simp only [Bool.not_true, Bool.false_eq_true, if_false]
        cases hps : parseStreams q.proto streams1 q.queues with
        | none => exact ⟨rfl, .inl rfl⟩
        | some sq =>
          obtain ⟨ss', qs'⟩ := sq
          dsimp only
          split <;> exact ⟨rfl, .inr ⟨streams1, ss', hps⟩⟩

theorem QR.zw_congr {q q' : QR} (h : q'.proto = q.proto) : q'.zw = q.zw := by
  unfold QR.zw QR.allZeroWidth; rw [h]

/-- `advance` never queues a value for a record of zero bit size (unless the cloud is all-constant) -/
theorem advance_constEmpty (q : QR) (r : PR) (h : q.ConstEmpty) : (q.advance r).2.1.ConstEmpty := by
  rw [advance_eq]
  by_cases hz : q.zw = true
  · simp only [hz, if_true]
    intro hz'
    have hz'' : q.zw = false := hz'
    rw [hz] at hz''; cases hz''
  · have hz : q.zw = false := by simpa using hz
    simp only [hz, Bool.false_eq_true, if_false]
    cases hph : readPacketHeader r with
    | mk r1 o =>
      cases o with
      | none => exact h
      | some ph =>
        cases ph with
        | index len =>
          dsimp only
          split
          · exact h
          · rw [skipPacket_q]; exact h
        | ignored len => dsimp only; rw [skipPacket_q]; exact h
        | data rs len count =>
          dsimp only
          split
          · exact h
          · obtain ⟨hp, hq⟩ := dataPacket_queues q r1
            intro hz' rec qu hm hb
            rw [hp] at hm
            rcases hq with hq | ⟨st, ss', hps⟩
            · rw [hq] at hm; exact h hz rec qu hm hb
            · exact h hz rec qu (parseStreams_constant_mem _ _ _ _ _ hps rec qu hm hb) hb

theorem rt_mem_zip_zip_map {α β} (f : α × β → β) (xs : List α) (ys : List β) (a : α) (b : β)
    (h : (a, b) ∈ xs.zip ((xs.zip ys).map f)) : ∃ y, (a, y) ∈ xs.zip ys ∧ b = f (a, y) := by
  induction xs generalizing ys with
  | nil => simp at h
  | cons x xs ih =>
    cases ys with
    | nil => simp at h
    | cons y ys =>
      simp only [List.zip_cons_cons, List.map_cons, List.mem_cons, Prod.mk.injEq] at h ⊢
      rcases h with ⟨rfl, rfl⟩ | h
      · exact ⟨y, .inl ⟨rfl, rfl⟩, rfl⟩
      · obtain ⟨y', h1, h2⟩ := ih ys h
        exact ⟨y', .inr h1, h2⟩

theorem popPoint_constEmpty (q : QR) (p : List Value) (q2 : QR) (h : q.ConstEmpty)
    (hp : q.popPoint = some (p, q2)) : q2.ConstEmpty := by
  intro hz2
  have hac : q.allConstant = false := by
    rw [← QR.zw_eq_allConstant]
    unfold QR.popPoint at hp
    split at hp
    · split at hp
      · cases hp
      · cases hp; exact hz2
    · dsimp only at hp
      split at hp
      · cases hp
      · cases hp; exact hz2
  unfold QR.popPoint at hp
  simp only [hac, Bool.false_eq_true, if_false] at hp
  split at hp
  · cases hp
  · cases hp
    intro rec qu hm hb
    dsimp only at hm
    obtain ⟨qu0, hm0, rfl⟩ := rt_mem_zip_zip_map _ _ _ _ _ hm
    have hc : (constOf rec.dt).isSome = true := by rw [constOf_isSome]; simpa using hb
    have hz : q.zw = false := by rw [QR.zw_eq_allConstant]; exact hac
    simp only [hc, if_true]
    exact h hz rec qu0 hm0 hb

theorem refill_constEmpty : ∀ (fuel : Nat) (q : QR) (r : PR), q.ConstEmpty →
    (refill fuel q r).2.1.ConstEmpty := by
  intro fuel
  induction fuel with
  | zero => intro q r h; exact h
  | succ fuel ih =>
    intro q r h
    rw [refill_succ]
    split
    · exact h
    · have := advance_constEmpty q r h
      cases hadv : q.advance r with
      | mk r1 rest =>
        obtain ⟨q1, ok⟩ := rest
        rw [hadv] at this
        cases ok with
        | true => exact ih q1 r1 this
        | false => exact this

theorem RawIter.next_constEmpty (it : RawIter) (r : PR) (h : it.q.ConstEmpty) :
    (it.next r).2.1.q.ConstEmpty := by
  unfold RawIter.next
  split
  · exact h
  · have := refill_constEmpty (refillFuel r) it.q r h
    cases hrf : refill (refillFuel r) it.q r with
    | mk r1 rest =>
      obtain ⟨q1, ok⟩ := rest
      rw [hrf] at this
      cases ok with
      | false => exact this
      | true =>
        dsimp only
        cases hpp : q1.popPoint with
        | none => exact this
        | some pq =>
          obtain ⟨p, q2⟩ := pq
          exact popPoint_constEmpty q1 p q2 this hpp

theorem RawIter.after_constEmpty : ∀ (n : Nat) (it : RawIter) (r : PR), it.q.ConstEmpty →
    (RawIter.after n it r).1.q.ConstEmpty := by
  intro n
  induction n with
  | zero => intro it r h; exact h
  | succ n ih =>
    intro it r h
    have := RawIter.next_constEmpty it r h
    cases hnx : it.next r with
    | mk r' rest =>
      obtain ⟨it', item⟩ := rest
      rw [hnx] at this
      simp only [RawIter.after, hnx]
      exact ih it' r' this

theorem QR.new_constEmpty (pc : PointCloud) (r r' : PR) (q : QR) (h : QR.new pc r = (r', some q)) :
    q.ConstEmpty := by
  have hq : q.queues = List.replicate pc.prototype.length [] := by
    unfold QR.new at h
    split at h
    · split at h
      · split at h
        · cases h; rfl
        · cases h
      · cases h
    · cases h
  intro _ rec qu hm _
  rw [hq] at hm
  exact List.eq_of_mem_replicate (List.of_mem_zip hm).2

/-- **Records of zero bit size are never queued.**  For any file: after any number of `next` calls on a
    freshly created queue reader, the queue of every record of zero bit size is empty — unless all records
    of the (non-empty) prototype have zero bit size, where one point at a time is synthesised
    (`advance_allZeroWidth`).  Together with `advance_queue_growth_linear`: the values queued by one
    `advance` are at most 8 per byte of the packet's (and left-over) stream data. -/
theorem reader_constants_unqueued (pc : PointCloud) (r r0 : PR) (q : QR)
    (hnew : QR.new pc r = (r0, some q)) (n : Nat) :
    (RawIter.after n ⟨q, pc.records, 0⟩ r0).1.q.ConstEmpty :=
  RawIter.after_constEmpty n _ r0 (QR.new_constEmpty pc r r0 q hnew)

/-- under `ConstEmpty` only the queues of the sized records hold values -/
theorem QR.ConstEmpty.totalLen_eq (q : QR) (h : q.ConstEmpty) (hz : q.zw = false)
    (hl : q.queues.length = q.proto.length) :
    totalLen q.queues =
      (((q.proto.zip q.queues).filter (fun x => x.1.dt.bitSize != 0)).map (fun x => x.2.length)).sum := by
  have h := h hz
  unfold totalLen
  generalize q.proto = p at *
  generalize q.queues = qs at *
  induction p generalizing qs with
  | nil =>
    have : qs = [] := by simpa using hl
    subst this; rfl
  | cons rec p ih =>
    cases qs with
    | nil => simp at hl
    | cons a qs =>
      have ih' := ih qs (by simpa using hl) (fun rec' qu hm hb => h rec' qu (by simp [hm]) hb)
      simp only [List.zip_cons_cons, List.map_cons, List.sum_cons, List.filter_cons]
      by_cases hb : rec.dt.bitSize = 0
      · have : a = [] := h rec a (by simp) hb
        simp [hb, this, ih']
      · simp [hb, ih']

/-! ### non-vacuity: a sized record (8 bits) next to a record of zero bit size -/

def exMixedQ : QR :=
  ⟨[⟨.cartesianX, .integer 0 255⟩, ⟨.rowIndex, .integer 7 7⟩], [⟨[1, 2], 0⟩, RBuf.new], [[], []]⟩

def exMixedR : PR := ⟨⟨List.replicate 1024 0, 0⟩, 1024, 1024, 1020, 1, 0, none, List.replicate 1024 0⟩

/-- the hypotheses of `advance_queue_growth_linear`, `advance_no_panic`, … are satisfiable by a cloud with
    a constant record -/
theorem exMixed_hyps : exMixedQ.WF ∧ exMixedR.CacheInv ∧ exMixedQ.zw = false ∧ exMixedQ.ConstEmpty := by
  refine ⟨⟨rfl, rfl, ?_, ?_⟩, ?_, by decide +kernel, ?_⟩
  · intro s hs
    simp only [exMixedQ, List.mem_cons, List.not_mem_nil, or_false] at hs
    rcases hs with rfl | rfl
    · simp [RBuf.WF]
    · exact RBuf.wf_new
  · intro rec hrec
    simp only [exMixedQ, List.mem_cons, List.not_mem_nil, or_false] at hrec
    rcases hrec with rfl | rfl
    · exact ⟨by decide, by decide +kernel, by decide +kernel⟩
    · exact ⟨by decide, by decide +kernel, by decide +kernel⟩
  · refine ⟨by decide +kernel, by decide +kernel, by decide +kernel, by decide +kernel,
      by decide +kernel, by decide +kernel, ?_⟩
    intro p hp; cases hp
  · intro _ rec qu hm _
    simp only [exMixedQ, List.zip_cons_cons, List.zip_nil_right, List.mem_cons, List.not_mem_nil,
      or_false, Prod.mk.injEq] at hm
    rcases hm with ⟨_, rfl⟩ | ⟨_, rfl⟩ <;> rfl

/-- unpacking the two bytes held queues two values for the sized record and nothing for the constant one;
    two points are then available and the first one carries the constant -/
example :
    (parseStreams exMixedQ.proto exMixedQ.streams exMixedQ.queues).map (·.2)
      = some [[.integer 1, .integer 2], []] ∧
    ({ exMixedQ with queues := [[.integer 1, .integer 2], []] } : QR).available = 2 ∧
    (({ exMixedQ with queues := [[.integer 1, .integer 2], []] } : QR).popPoint).map (·.1)
      = some [.integer 1, .integer 7] := by
  decide +kernel

/-! ## axioms used -/


end E57
