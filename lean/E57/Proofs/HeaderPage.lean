/-
The header page check of `E57Reader::new` / `E57Reader::raw_xml` (`validate_header_page` in
src/e57_reader.rs, `checkHeaderPage` in the model): after the 48 header bytes were read from the bare
device, they are read once more THROUGH the paged reader, which verifies the checksum of page 0.

* `checkHeaderPage_some`   what a successful check says (page 0 valid; same file; invariant kept)
* `checkHeaderPage_valid`  page 0 valid (and at least 48 payload bytes per page) ⇒ the check succeeds
* `checkHeaderPage_iff`    both directions
* `checkHeaderPage_image`  the check succeeds on every file image written by the page layer
* `open_checks_header_page`, `rawXml_checks_header_page`, `header_alteration_rejected`

Core Lean only.
-/
import E57.Model.Reader
import E57.Proofs.PagesRead
namespace E57

/-! ## the check itself -/

/-- the state `checkHeaderPage` starts reading from -/
theorem checkHeaderPage_unfold (r : PR) (hinv : r.CacheInv) :
    checkHeaderPage r =
      match ({ r with offset := 0 } : PR).readExact 48 with
      | (r2, some _) => some r2
      | (_, none) => none := by
  obtain ⟨h1, h2, h3, h4, -⟩ := hinv
  have hpos : 0 < r.pages * r.pageSize := Nat.mul_pos h4 (by omega)
  have hlt : ¬ 0 ≥ r.physSize := by omega
  simp only [checkHeaderPage, PR.seekPhysical, hlt, if_false, Nat.zero_div, Nat.zero_mul, Nat.sub_zero]
  generalize PR.readExact _ 48 = x
  obtain ⟨a, b⟩ := x
  cases b <;> rfl

/-- a successful check is a seek followed by a `read_exact`: the state it leaves behind -/
theorem checkHeaderPage_state (r r2 : PR) (hinv : r.CacheInv) (h : checkHeaderPage r = some r2) :
    ∃ bs, ({ r with offset := 0 } : PR).readExact 48 = (r2, some bs) := by
  rw [checkHeaderPage_unfold r hinv] at h
  split at h
  · rename_i r2' bs e
    cases h
    exact ⟨bs, e⟩
  · cases h

/-- **What a successful header page check says.**  Page 0 of the device carries a valid checksum;
    the reader left behind is a reader of the same file and satisfies the cache invariant. -/
theorem checkHeaderPage_some (r r2 : PR) (hinv : r.CacheInv) (h : checkHeaderPage r = some r2) :
    r2.CacheInv ∧ r.SameFile r2 ∧ pageValid (devPage r.dev.data r.pageSize 0) r.pageSize := by
  obtain ⟨bs, e⟩ := checkHeaderPage_state r r2 hinv h
  have hinv1 : ({ r with offset := 0 } : PR).CacheInv := pr_cacheInv_offset r 0 hinv
  have hi := pr_readExact_inv _ 48 hinv1
  have hd := pr_readExact_data ({ r with offset := 0 } : PR) 48
  rw [e] at hi hd
  refine ⟨hi, hd, ?_⟩
  -- the first `read` of the loop is on page 0 and returned something
  unfold PR.readExact at e
  rw [show (48 + 1 : Nat) = 48 + 1 from rfl, show (48 : Nat) = 47 + 1 from rfl, PR.readExactFuel] at e
  split at e
  · rename_i r' b er
    split at e
    · cases e
    · rename_i hne
      have hne' : b ≠ [] := by
        intro hb; rw [hb] at hne; exact hne rfl
      have := (pr_read_sound _ _ r' b hinv1 er hne').1
      simpa using this
  · cases e

/-- **Page 0 valid ⇒ the check succeeds** (for pages with at least 48 payload bytes, in particular
    for the 1024-byte pages of E57); it consumes exactly the 48 header bytes. -/
theorem checkHeaderPage_valid (r : PR) (hinv : r.CacheInv) (hps : 52 ≤ r.pageSize)
    (hv : pageValid (devPage r.dev.data r.pageSize 0) r.pageSize) :
    ∃ r2, checkHeaderPage r = some r2 ∧ r2.offset = 48 ∧ r2.CacheInv ∧ r.SameFile r2 := by
  have hinv1 : ({ r with offset := 0 } : PR).CacheInv := pr_cacheInv_offset r 0 hinv
  obtain ⟨h1, h2, h3, h4, h5, h6, h7⟩ := hinv
  have hpl : (devPage r.dev.data r.pageSize 0).length = r.pageSize :=
    devPage_length _ _ 0 r.pages (h1.trans h2) h4
  have hm : min 48 (r.pageSize - 4 - 0 % (r.pageSize - 4)) = 48 := by
    rw [Nat.zero_mod]; omega
  have hbl : (((devPage r.dev.data r.pageSize 0).drop (0 % (r.pageSize - 4))).take 48).length = 48 := by
    rw [Nat.zero_mod, List.drop_zero, List.length_take, hpl]; omega
  -- one `read` delivers the 48 bytes
  have key : ∃ r' b, ({ r with offset := 0 } : PR).read 48 = .ok (r', b) ∧ b.length = 48 ∧
      r'.offset = 48 := by
    have hc := pr_read_cases ({ r with offset := 0 } : PR) 48 hinv1
    simp only [Nat.zero_div] at hc
    rcases hc with ⟨hp, _⟩ | ⟨_, _, _, _, e⟩ | ⟨_, _, _, e⟩ | ⟨_, hv', _⟩
    · omega
    · rw [hm] at e; exact ⟨_, _, e, hbl, rfl⟩
    · rw [hm] at e; exact ⟨_, _, e, hbl, rfl⟩
    · exact absurd hv hv'
  obtain ⟨r', b, e, hb, ho⟩ := key
  have hex : ({ r with offset := 0 } : PR).readExact 48 = (r', some b) := by
    unfold PR.readExact
    rw [show (48 + 1 : Nat) = 48 + 1 from rfl, show (48 : Nat) = 47 + 1 from rfl, PR.readExactFuel, e]
    have hne : b.isEmpty = false := by
      cases b with
      | nil => simp at hb
      | cons _ _ => rfl
    simp only [hne, Bool.false_eq_true, if_false, hb, Nat.sub_self, List.nil_append]
    exact pr_readExactFuel_zero _ _ _
  have hcp : checkHeaderPage r = some r' := by
    rw [checkHeaderPage_unfold r ⟨h1, h2, h3, h4, h5, h6, h7⟩, hex]
  obtain ⟨a, b', _⟩ := checkHeaderPage_some r r' ⟨h1, h2, h3, h4, h5, h6, h7⟩ hcp
  exact ⟨r', hcp, ho, a, b'⟩

/-- the header page check succeeds exactly when page 0 carries a valid checksum -/
theorem checkHeaderPage_iff (r : PR) (hinv : r.CacheInv) (hps : 52 ≤ r.pageSize) :
    (checkHeaderPage r).isSome ↔ pageValid (devPage r.dev.data r.pageSize 0) r.pageSize := by
  constructor
  · intro h
    obtain ⟨r2, e⟩ := Option.isSome_iff_exists.mp h
    exact (checkHeaderPage_some r r2 hinv e).2.2
  · intro hv
    obtain ⟨r2, e, -⟩ := checkHeaderPage_valid r hinv hps hv
    rw [e]; rfl

theorem checkHeaderPage_none_iff (r : PR) (hinv : r.CacheInv) (hps : 52 ≤ r.pageSize) :
    checkHeaderPage r = none ↔ ¬ pageValid (devPage r.dev.data r.pageSize 0) r.pageSize := by
  rw [← checkHeaderPage_iff r hinv hps]
  cases checkHeaderPage r <;> simp

/-- the check keeps the reader among the states reachable from `PagedReader::new` -/
theorem checkHeaderPage_reach (dev : Dev) (ps : Nat) (r r2 : PR) (hr : PR.Reach dev ps r)
    (h : checkHeaderPage r = some r2) : PR.Reach dev ps r2 := by
  have hinv := (pr_reach_inv dev ps r hr).1
  obtain ⟨bs, e⟩ := checkHeaderPage_state r r2 hinv h
  have hs : r.seekPhysical 0 = .ok (({ r with offset := 0 } : PR), 0) := by
    obtain ⟨h1, h2, h3, h4, -⟩ := hinv
    have hpos : 0 < r.pages * r.pageSize := Nat.mul_pos h4 (by omega)
    have hlt : ¬ 0 ≥ r.physSize := by omega
    simp only [PR.seekPhysical, hlt, if_false, Nat.zero_div, Nat.zero_mul, Nat.sub_zero]
  have := PR.Reach.readExact _ 48 (PR.Reach.seek r 0 _ 0 hr hs)
  rw [e] at this
  exact this

/-- **Files written by the page layer pass the check**: every page of `Spec.image d` is valid. -/
theorem checkHeaderPage_image (d : Bytes) (r : PR) (hd : d.length % 1020 = 0) (hne : d ≠ [])
    (hinv : r.CacheInv) (hps : r.pageSize = 1024) (hdata : r.dev.data = Spec.image d) :
    ∃ r2, checkHeaderPage r = some r2 ∧ r2.offset = 48 ∧ r2.CacheInv ∧ r.SameFile r2 ∧
      r2.pageSize = 1024 ∧ r2.dev.data = Spec.image d := by
  have hpos : 0 < d.length := List.length_pos_iff.mpr hne
  have hv := image_page_valid d hd 0 (by omega)
  obtain ⟨r2, e, o, i, s⟩ := checkHeaderPage_valid r hinv (by omega) (by rw [hps, hdata]; exact hv)
  exact ⟨r2, e, o, i, s, s.2.1.trans hps, s.1.trans hdata⟩

/-- the same for the reader `PagedReader::new` creates on an image -/
theorem checkHeaderPage_new_image (d : Bytes) (pos : Nat) (hd : d.length % 1020 = 0) (hne : d ≠ [])
    (r : PR) (hnew : PR.new ⟨Spec.image d, pos⟩ 1024 = .ok r) :
    ∃ r2, checkHeaderPage r = some r2 ∧ r2.offset = 48 ∧ r2.CacheInv ∧ r.SameFile r2 ∧
      r2.pageSize = 1024 ∧ r2.dev.data = Spec.image d ∧ PR.Reach ⟨Spec.image d, pos⟩ 1024 r2 := by
  obtain ⟨d0, p0, -⟩ := pr_new_data _ _ r hnew
  obtain ⟨r2, e, o, i, s, p, dd⟩ :=
    checkHeaderPage_image d r hd hne (pr_new_inv _ _ r hnew) p0 d0
  exact ⟨r2, e, o, i, s, p, dd, checkHeaderPage_reach _ _ r r2 (.new r hnew) e⟩

end E57

namespace E57.HeaderPage

/-! ## the reader entry points -/

/-- **`E57Reader::new` checks the header page.**  If a file is accepted, its first 1024-byte page
    carries a valid checksum (so the 48 header bytes that were trusted are protected like all
    other data). -/
theorem open_checks_header_page (file : Bytes) (xo : XmlOracle) (fp : FloatParse) (rd : Reader)
    (h : Reader.open file xo fp = some rd) : pageValid (devPage file 1024 0) 1024 := by
  unfold Reader.open at h
  simp only [Option.bind_eq_bind, Option.bind_eq_some_iff] at h
  obtain ⟨hd, hh, r0, hnew, r1, hc, -⟩ := h
  have hps : hd.pageSize = 1024 := by
    unfold FileHeader.read at hh
    split at hh
    · cases hh
    · dsimp only at hh
      split at hh
      · cases hh
      · split at hh
        · cases hh
        · split at hh
          · cases hh
          · split at hh
            · cases hh
            · rename_i hp
              cases hh
              simpa using hp
  have hnew' : PR.new ⟨file, 48⟩ hd.pageSize = .ok r0 := by
    cases hn : PR.new ⟨file, 48⟩ hd.pageSize with
    | ok a => rw [hn] at hnew; cases hnew; rfl
    | err e => rw [hn] at hnew; cases hnew
    | panic e => rw [hn] at hnew; cases hnew
  obtain ⟨d0, p0, -⟩ := pr_new_data _ _ r0 hnew'
  have := (checkHeaderPage_some r0 r1 (pr_new_inv _ _ r0 hnew') hc).2.2
  rw [d0, p0, hps] at this
  exact this

/-- **`E57Reader::raw_xml` checks the header page**, with the page size stored in the header bytes
    (`raw_xml` does not insist on 1024). -/
theorem rawXml_checks_header_page (file xml : Bytes) (h : rawXml file = some xml) :
    ∃ ps, devGetU64 ⟨file, 0⟩ 40 = some ps ∧ pageValid (devPage file ps 0) ps := by
  unfold rawXml at h
  simp only [Option.bind_eq_bind, Option.bind_eq_some_iff] at h
  obtain ⟨ps, hps, off, -, len, -, r0, hnew, r1, hc, -⟩ := h
  have hnew' : PR.new ⟨file, 0⟩ ps = .ok r0 := by
    cases hn : PR.new ⟨file, 0⟩ ps with
    | ok a => rw [hn] at hnew; cases hnew; rfl
    | err e => rw [hn] at hnew; cases hnew
    | panic e => rw [hn] at hnew; cases hnew
  obtain ⟨d0, p0, -⟩ := pr_new_data _ _ r0 hnew'
  have := (checkHeaderPage_some r0 r1 (pr_new_inv _ _ r0 hnew') hc).2.2
  rw [d0, p0] at this
  exact ⟨ps, hps, this⟩

/-- the project's predicate `pageValid (devPage d ps 0) ps` for page 0, written out with `drop`/`take`,
    `crc32c` and `toBE32` only: the four bytes behind the payload are the big-endian CRC-32C of the payload -/
theorem pageValid_page0_iff (d : Bytes) (ps : Nat) (h : 4 ≤ ps) :
    pageValid (devPage d ps 0) ps ↔
      (d.drop (ps - 4)).take 4 = toBE32 (crc32c (d.take (ps - 4))).toNat := by
  unfold pageValid devPage crcBytes
  rw [Nat.zero_mul, List.drop_zero, List.drop_take, List.take_take]
  have e1 : min (ps - 4) ps = ps - 4 := by omega
  have e2 : ps - (ps - 4) = 4 := by omega
  rw [e1, e2]

/-- `open_checks_header_page` without any project definition: bytes 1020..1024 of an accepted file are
    the big-endian CRC-32C of its first 1020 bytes (which contain the 48 header bytes) -/
theorem open_checks_header_page_explicit (file : Bytes) (xo : XmlOracle) (fp : FloatParse) (rd : Reader)
    (h : Reader.open file xo fp = some rd) :
    (file.drop 1020).take 4 = toBE32 (crc32c (file.take 1020)).toNat :=
  (pageValid_page0_iff file 1024 (by omega)).mp (open_checks_header_page file xo fp rd h)

/-- for a file whose header stores the page size 1024 -/
theorem rawXml_checks_header_page_1024 (file xml : Bytes) (h : rawXml file = some xml)
    (hps : devGetU64 ⟨file, 0⟩ 40 = some 1024) : pageValid (devPage file 1024 0) 1024 := by
  obtain ⟨ps, e, v⟩ := rawXml_checks_header_page file xml h
  rw [hps] at e; cases e
  exact v

/-- **An altered header is rejected.**  `d'` differs from `d` only inside page 0 (same length,
    same bytes from offset 1024 on) and its page 0 does not carry a valid checksum -- the typical
    result of changing header bytes without recomputing the CRC: neither `E57Reader::new` nor
    `E57Reader::raw_xml` accepts `d'`.  (`raw_xml` takes the page size from the header bytes of the
    file it is given: the hypothesis is stated for that size.) -/
theorem header_alteration_rejected (d d' : Bytes) (xo : XmlOracle) (fp : FloatParse)
    (_hlen : d'.length = d.length) (_hsame : d'.drop 1024 = d.drop 1024)
    (hbad : ¬ pageValid (devPage d' 1024 0) 1024)
    (hbadRaw : ∀ ps, devGetU64 ⟨d', 0⟩ 40 = some ps → ¬ pageValid (devPage d' ps 0) ps) :
    Reader.open d' xo fp = none ∧ rawXml d' = none := by
  constructor
  · cases h : Reader.open d' xo fp with
    | none => rfl
    | some rd => exact absurd (open_checks_header_page d' xo fp rd h) hbad
  · cases h : rawXml d' with
    | none => rfl
    | some xml =>
      obtain ⟨ps, e, v⟩ := rawXml_checks_header_page d' xml h
      exact absurd v (hbadRaw ps e)

/-- the same when the altered header still stores the page size 1024 (or is too short to store one) -/
theorem header_alteration_rejected_1024 (d d' : Bytes) (xo : XmlOracle) (fp : FloatParse)
    (hlen : d'.length = d.length) (hsame : d'.drop 1024 = d.drop 1024)
    (hbad : ¬ pageValid (devPage d' 1024 0) 1024)
    (hps : ∀ ps, devGetU64 ⟨d', 0⟩ 40 = some ps → ps = 1024) :
    Reader.open d' xo fp = none ∧ rawXml d' = none :=
  header_alteration_rejected d d' xo fp hlen hsame hbad
    (fun ps e => by rw [hps ps e]; exact hbad)

end E57.HeaderPage
