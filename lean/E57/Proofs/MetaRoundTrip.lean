/-
C04 — metadata survives write → read, on the level of XML trees.   Namespace `E57.MT`.

`E57/Model/MetaTree.lean` defines, for every serialiser `X.xmlString` of `E57/Model/Meta.lean`, the tree
`X.tree` that roxmltree reports for the emitted text, a renderer `render` of the writer's dialect and the
token dump `docTokens` (the format `E57/Drv/Reader.lean` `parseTree` reads).

B. ROUND TRIP ON TREES (sections 0–10):  `X.fromNode (X.tree x) = some x`
   hypotheses, all of the same three kinds and nothing else:
   * `F64OK ft fp v` / `F32OK ft fp v` — the external float printer and parser invert each other on `v`
     (`F64OK_inj`, `nan_payload_lost`: a NaN with a non-canonical payload is exactly what this excludes) and the
     printed text has no white space around it (the reader `trim`s the text of numeric elements, not attributes;
     a property of the printer alone, implied by `XmlP.FloatTextSafe ft`: `XmlP.F64OK_of_safe`);
   * `InI64 i` / `BlobOK` / `DimOK` — the number fits the Rust integer type (i64, u64, u32);
     `parseI64_toString`, `parseU64_toString`, `parseU32_toString_int` are proved (section 0);
   * `ExtsOk exts` — the invariant of the writer's extension list (URLs non-empty, not the E57 namespace,
     pairwise distinct; prefixes pairwise distinct), preserved by `register_extension` (`ExtsOk_snoc`,
     `registerExtension_ExtsOk`) and NECESSARY (`recordName_shared_url`, `recordName_e57_url`,
     `recordName_statement_false`, `extensions_statement_false`); plus `url ≠ xmlNsUri`.
   leaves:      `optString_of_find`/`genString_roundtrip` (EVERY string, empty included: `some ""`),
                `optF64_of_find`, `optI64_of_find`, `DateTime.roundtrip` (both values of
                isAtomicClockReferenced), `Transform.roundtrip`
   trim:        `rustTrim_toString_int`, `rustTrim_pad` (section 0a); `trim_invisible` (section 2a): white space
                added around the text of a numeric leaf does not change what is read (`string_not_trimmed`)
   bounds:      `CartesianBounds.roundtrip`, `SphericalBounds.roundtrip`, `IndexBounds.roundtrip`
   limits:      `IntensityLimits.roundtrip`, `ColorLimits.roundtrip` (every present/absent combination, the kind
                Integer/ScaledInteger/single/double is kept)
   prototype:   `DataType.roundtrip` (needs `min ≤ max`: `DataType.roundtrip_empty_range`),
                `recordNameOf_tree`, `prototype_roundtrip`, `PrototypeOK_of_validate`
   point cloud: `PointCloud.roundtrip_partial` (= `some pc.stored`: incomplete limits are not stored),
                `PointCloud.roundtrip` (complete or absent limits), `PointCloud.roundtrip_statement_false`
   images:      `BlobRef.roundtrip`, `VisualRef/Pinhole/SphericalImg/Cylindrical.roundtrip`, `Image.roundtrip`
   document:    `root_roundtrip`, `pointclouds_roundtrip_partial`, `images_roundtrip` (needs `NoImagesShadow`),
                `extensions_roundtrip`, capstone `C04_document_roundtrip`
   non-vacuity: `Example.pc_roundtrip`, `Example.img_roundtrip`, `Example.doc_roundtrip`
A. THE TREES ARE WHAT THE TEXT DENOTES (sections 11–12):  `renderLn (X.tree …) = X.xmlString …` for every
   serialiser (`renderLn t = render false t ++ "\n"`: each serialiser ends its element with a newline that,
   in the tree, is a text child of the PARENT), up to `PointCloud.tree_xml`, `Image.tree_xml` and, for the whole
   file, `rootTree_xml_partial` / `document_text` (`some (renderDoc …) = serializeRoot …`; `_partial` because
   of the closed fact `FormatNameUnescaped` about `String.replace`, see there).
C. (not here) roxmltree (real writer's XML) = `X.tree`, to be checked differentially with `docTokens`.
   `Drv.parseTree` is a `partial def`, so `parseTree (docTokens d) = some d` cannot be stated as a theorem;
   it was tested by evaluation on the `Example` document and on a tree with comments, PIs, empty and
   non-ASCII strings, namespaced attributes.

Core Lean only.
-/
import E57.Model.MetaTree
import E57.Model.Writer
namespace E57.MT
open E57 XNode
set_option linter.unusedSimpArgs false
set_option linter.unusedVariables false

/-! ## 0. integers: `parse (toString i) = i` -/

theorem foldlM_digits (l : List Char) (h : ∀ c ∈ l, c.isDigit = true) (a : Nat) :
    l.foldlM (fun acc c => if c.isDigit then some (acc * 10 + (c.toNat - 48)) else none) a
      = some (Nat.ofDigitChars 10 l a) := by
  induction l generalizing a with
  | nil => simp
  | cons c cs ih =>
    have hc := h c (by simp)
    simp only [List.foldlM_cons, hc, if_true, Option.bind_eq_bind, Option.bind_some]
    rw [ih (fun d hd => h d (by simp [hd]))]
    simp [Nat.ofDigitChars_cons, Nat.mul_comm]

theorem digitsVal_toDigits (n : Nat) : digitsVal (Nat.toDigits 10 n) = some n := by
  have hne : Nat.toDigits 10 n ≠ [] := Nat.toDigits_ne_nil
  unfold digitsVal
  split
  · contradiction
  · rw [foldlM_digits _ (fun c hc => Nat.isDigit_of_mem_toDigits (by decide) (by decide) hc)]
    simp

theorem toDigits_cons (n : Nat) : ∃ c cs, Nat.toDigits 10 n = c :: cs ∧ c.isDigit = true := by
  cases h : Nat.toDigits 10 n with
  | nil => exact absurd h Nat.toDigits_ne_nil
  | cons c cs =>
    exact ⟨c, cs, rfl, Nat.isDigit_of_mem_toDigits (b := 10) (n := n) (by decide) (by decide) (by simp [h])⟩

theorem isDigit_ne {c : Char} (h : c.isDigit = true) : c ≠ '-' ∧ c ≠ '+' := by
  constructor <;> (rintro rfl; simp [Char.isDigit] at h)

theorem toList_toString_nat (n : Nat) : (toString n).toList = Nat.toDigits 10 n := by
  rw [Nat.toString_eq_repr, Nat.toList_repr]

theorem parseUnsigned_toString (max n : Nat) (h : n ≤ max) : parseUnsigned max (toString n) = some n := by
  obtain ⟨c, cs, hcs, hd⟩ := toDigits_cons n
  have hv := digitsVal_toDigits n
  unfold parseUnsigned
  rw [toList_toString_nat, hcs]
  rw [hcs] at hv
  split
  · rename_i heq; injection heq with h1; exact absurd h1 (isDigit_ne hd).2
  · simp [hv, h]

theorem parseU64_toString (n : Nat) (h : n ≤ 18446744073709551615) : parseU64 (toString n) = some n :=
  parseUnsigned_toString _ n h

theorem toString_ofNat_int (n : Nat) : toString (n : Int) = toString n := by
  simp [Int.repr_eq_if, Nat.toString_eq_repr]

theorem parseU32_toString_int (n : Nat) (h : n ≤ 4294967295) : parseU32 (toString (n : Int)) = some n := by
  rw [toString_ofNat_int]; exact parseUnsigned_toString _ n h

/-- the signed 64-bit integers -/
def InI64 (i : Int) : Prop := i64Min ≤ i ∧ i ≤ i64Max

instance (i : Int) : Decidable (InI64 i) := by unfold InI64; exact inferInstance

theorem parseI64_toString (i : Int) (h : InI64 i) : parseI64 (toString i) = some i := by
  unfold InI64 i64Min i64Max at h
  rw [Int.toString_eq_repr, Int.repr_eq_if]
  split
  · rename_i h0
    obtain ⟨c, cs, hcs, hd⟩ := toDigits_cons i.toNat
    have hv := digitsVal_toDigits i.toNat
    unfold parseI64
    rw [Nat.toList_repr, hcs]
    rw [hcs] at hv
    split
    · rename_i heq; injection heq with h1; exact absurd h1 (isDigit_ne hd).1
    · rename_i heq; injection heq with h1; exact absurd h1 (isDigit_ne hd).2
    · simp [hv]; omega
  · rename_i h0
    have hv := digitsVal_toDigits (-i).toNat
    unfold parseI64
    simp only [String.toList_append, Nat.toList_repr]
    have : "-".toList = ['-'] := by simp
    rw [this]
    simp [hv]; omega

/-! ## 0a. `trim`: white space around a number is not part of the number

`opt_num` (xml.rs), `DateTime::from_node` and `extract_limit` `trim()` the text of a numeric leaf before parsing it.
What the writer prints has no white space around it (`rustTrim_toString_int`, and the second half of `F64OK`), so the
round trips are unaffected; white space ADDED around the text of a leaf is invisible (`rustTrim_pad`,
`trim_invisible_*` in section 2a). -/

theorem dropWhile_none {α} (p : α → Bool) (l : List α) (h : ∀ c ∈ l, p c = false) : l.dropWhile p = l := by
  cases l with
  | nil => rfl
  | cons c cs => simp [h c (by simp)]

/-- a text without white space (Rust `char::is_whitespace`) is its own `trim` -/
theorem rustTrim_of_noWs (s : String) (h : ∀ c ∈ s.toList, rustIsWhitespace c = false) : rustTrim s = s := by
  unfold rustTrim
  rw [dropWhile_none _ _ h, dropWhile_none _ _ (by simpa using h)]
  simp [String.ofList_toList]

theorem isDigit_noWs {c : Char} (h : c.isDigit = true) : rustIsWhitespace c = false := by
  simp only [Char.isDigit, Bool.and_eq_true, decide_eq_true_eq] at h
  have h1 : 48 ≤ c.toNat := by have := h.1; exact this
  have h2 : c.toNat ≤ 57 := by have := h.2; exact this
  simp [rustIsWhitespace]
  omega

theorem rustTrim_toString_nat (n : Nat) : rustTrim (toString n) = toString n := by
  apply rustTrim_of_noWs
  intro c hc
  rw [Nat.toString_eq_repr, Nat.toList_repr] at hc
  exact isDigit_noWs (Nat.isDigit_of_mem_toDigits (by decide) (by decide) hc)

/-- what the writer prints for an integer (digits, possibly after `-`) has no white space around it -/
theorem rustTrim_toString_int (i : Int) : rustTrim (toString i) = toString i := by
  apply rustTrim_of_noWs
  intro c hc
  rw [Int.toString_eq_repr, Int.repr_eq_if] at hc
  split at hc
  · rw [Nat.toList_repr] at hc
    exact isDigit_noWs (Nat.isDigit_of_mem_toDigits (by decide) (by decide) hc)
  · simp only [String.toList_append, Nat.toList_repr, List.mem_append] at hc
    rcases hc with hc | hc
    · have : c = '-' := by simpa using hc
      subst this; decide
    · exact isDigit_noWs (Nat.isDigit_of_mem_toDigits (by decide) (by decide) hc)

theorem rustTrim_repr_int (i : Int) : rustTrim i.repr = i.repr := rustTrim_toString_int i

/-- white space only (Rust `char::is_whitespace`; space, tab, LF, CR are: `AllWs_xmlSpace`) -/
def AllWs (s : String) : Prop := ∀ c ∈ s.toList, rustIsWhitespace c = true

instance (s : String) : Decidable (AllWs s) := by unfold AllWs; exact inferInstance

/-- the four white space characters of XML (`S ::= (#x20 | #x9 | #xD | #xA)+`) are white space for Rust -/
theorem AllWs_xmlSpace (s : String) (h : ∀ c ∈ s.toList, c = ' ' ∨ c = '\t' ∨ c = '\n' ∨ c = '\r') : AllWs s := by
  intro c hc
  rcases h c hc with rfl | rfl | rfl | rfl <;> decide

/-- KEY LEMMA: white space added in front of and behind a text does not change its `trim` -/
theorem rustTrim_pad (w1 s w2 : String) (h1 : AllWs w1) (h2 : AllWs w2) :
    rustTrim (w1 ++ s ++ w2) = rustTrim s := by
  unfold rustTrim
  simp only [String.toList_append, List.append_assoc]
  rw [List.dropWhile_append_of_pos h1, List.dropWhile_append]
  split
  · rename_i he
    have he' : s.toList.dropWhile rustIsWhitespace = [] := by simpa using he
    have : w2.toList.dropWhile rustIsWhitespace = [] := by
      have := List.dropWhile_append_of_pos (p := rustIsWhitespace) (l₁ := w2.toList) (l₂ := []) h2
      simpa using this
    rw [this, he']
  · rw [List.reverse_append, List.dropWhile_append_of_pos (by intro c hc; exact h2 c (by simpa using hc))]

/-- `trim` is idempotent on what it is applied to here: a padded number trims to the number -/
theorem rustTrim_pad_of_noWs (w1 s w2 : String) (h1 : AllWs w1) (h2 : AllWs w2)
    (hs : ∀ c ∈ s.toList, rustIsWhitespace c = false) : rustTrim (w1 ++ s ++ w2) = s := by
  rw [rustTrim_pad w1 s w2 h1 h2, rustTrim_of_noWs s hs]

/-! ## 1. queries on the trees -/

/-- the external float printer and parser invert each other on this bit pattern, and the printed text has no
    white space around it (the reader `trim`s the text of a numeric element before parsing it; attributes are
    parsed untrimmed: hence both halves.  The second half is a property of the printer alone and follows from
    `XmlP.FloatTextSafe ft`: `XmlP.F64OK_of_safe`) -/
def F64OK (ft : FloatText) (fp : FloatParse) (v : UInt64) : Prop :=
  fp.f64 (ft.show64 v) = some v ∧ rustTrim (ft.show64 v) = ft.show64 v
def F32OK (ft : FloatText) (fp : FloatParse) (v : UInt32) : Prop :=
  fp.f32 (ft.show32 v) = some v ∧ rustTrim (ft.show32 v) = ft.show32 v

theorem F64OK.parse {ft fp v} (h : F64OK ft fp v) : fp.f64 (ft.show64 v) = some v := h.1
theorem F64OK.trim {ft fp v} (h : F64OK ft fp v) : rustTrim (ft.show64 v) = ft.show64 v := h.2
theorem F64OK.parse_trim {ft fp v} (h : F64OK ft fp v) : fp.f64 (rustTrim (ft.show64 v)) = some v := by
  rw [h.2]; exact h.1
theorem F32OK.parse {ft fp v} (h : F32OK ft fp v) : fp.f32 (ft.show32 v) = some v := h.1
theorem F32OK.trim {ft fp v} (h : F32OK ft fp v) : rustTrim (ft.show32 v) = ft.show32 v := h.2
theorem F32OK.parse_trim {ft fp v} (h : F32OK ft fp v) : fp.f32 (rustTrim (ft.show32 v)) = some v := by
  rw [h.2]; exact h.1

instance (ft fp v) : Decidable (F64OK ft fp v) := by unfold F64OK; exact inferInstance
instance (ft fp v) : Decidable (F32OK ft fp v) := by unfold F32OK; exact inferInstance

@[simp] theorem hasTagName_el (p0 n attrs cs t) : (el p0 n attrs cs).hasTagName t = (n == t) := by
  simp [el, hasTagName]
@[simp] theorem hasTagName_text (s t) : (XNode.text s).hasTagName t = false := rfl
@[simp] theorem hasTagName_nl (t) : nl.hasTagName t = false := rfl
@[simp] theorem isElement_el (p0 n attrs cs) : (el p0 n attrs cs).isElement = true := rfl
@[simp] theorem attr_el_type (p0 n ty rest cs) : (el p0 n (tattr ty :: rest) cs).attr "type" = some ty := by
  simp [el, attr, tattr, at_]
/-- the writer's leaves have exactly one text child: `xml::text_of` (all text pieces) gives that text -/
@[simp] theorem textOf_el (p0 n attrs s) : (el p0 n attrs [.text s]).textOf = some s := rfl
@[simp] theorem textOf_el_nil (p0 n attrs) : (el p0 n attrs []).textOf = none := rfl
@[simp] theorem children_el (p0 n attrs cs) : (el p0 n attrs cs).children = cs := rfl

theorem find?_sep (p : XNode → Bool) (hp : p nl = false) (kids : List XNode) :
    (sep kids).find? p = kids.find? p := by
  induction kids with
  | nil => rfl
  | cons k ks ih => simp [sep, List.find?_cons, hp, ih]

theorem find?_lines (p : XNode → Bool) (hp : p nl = false) (kids : List XNode) :
    (lines kids).find? p = kids.find? p := by
  simp [lines, List.find?_cons, hp, find?_sep p hp]

@[simp] theorem findChild_el_lines (p0 tag attrs kids t) :
    (el p0 tag attrs (lines kids)).findChild t = kids.find? (fun c => c.hasTagName t) := by
  simp only [findChild, children_el]
  exact find?_lines _ rfl _

@[simp] theorem findChild_structT (p0 tag kids t) :
    (structT p0 tag kids).findChild t = kids.find? (fun c => c.hasTagName t) := by
  simp [structT]

@[simp] theorem hasTagName_structT (p0 tag kids t) : (structT p0 tag kids).hasTagName t = (tag == t) := by
  simp [structT]
@[simp] theorem hasTagName_genStringTree (p0 tag v t) : (genStringTree p0 tag v).hasTagName t = (tag == t) := by
  simp [genStringTree]
@[simp] theorem hasTagName_genFloatTree (ft p0 tag v t) : (genFloatTree ft p0 tag v).hasTagName t = (tag == t) := by
  simp [genFloatTree]
@[simp] theorem hasTagName_genIntTree (p0 tag v t) : (genIntTree p0 tag v).hasTagName t = (tag == t) := by
  simp [genIntTree]

theorem find?_optT_skip {α} (o : Option α) (f : α → XNode) (p : XNode → Bool) (rest : List XNode)
    (h : ∀ a, p (f a) = false) : (optT o f ++ rest).find? p = rest.find? p := by
  cases o <;> simp [optT, h]

theorem find?_optT_hit {α} (o : Option α) (f : α → XNode) (p : XNode → Bool) (rest : List XNode)
    (h : ∀ a, p (f a) = true) : (optT o f ++ rest).find? p = (o.map f).or (rest.find? p) := by
  cases o <;> simp [optT, h]

theorem find?_optT_skip' {α} (o : Option α) (f : α → XNode) (p : XNode → Bool)
    (h : ∀ a, p (f a) = false) : (optT o f).find? p = none := by
  cases o <;> simp [optT, h]

theorem find?_optT_hit' {α} (o : Option α) (f : α → XNode) (p : XNode → Bool)
    (h : ∀ a, p (f a) = true) : (optT o f).find? p = o.map f := by
  cases o <;> simp [optT, h]

theorem typedChild_none {n : XNode} {t ty} (h : n.findChild t = none) : typedChild n t ty = some none := by
  simp [typedChild, h]

theorem typedChild_some {n c : XNode} {t ty} (h : n.findChild t = some c) (hty : c.attr "type" = some ty) :
    typedChild n t ty = some (some c) := by
  simp [typedChild, h, hty]

theorem optF64_of_find {ft fp p0} {n : XNode} {t t' : String} {o : Option UInt64}
    (h : n.findChild t = o.map (genFloatTree ft p0 t'))
    (hok : ∀ v, o = some v → F64OK ft fp v) : optF64 fp n t = some o := by
  cases o with
  | none => simp [optF64, typedChild_none h]
  | some v =>
    have := (hok v rfl).parse_trim
    simp [optF64, typedChild_some h (ty := "Float") (by simp [genFloatTree]), genFloatTree, this]

/-- find the child with a given tag in a list built from `optT` pieces -/
syntax "find_tag" " [" Lean.Parser.Tactic.simpLemma,* "]" : tactic
macro_rules
  | `(tactic| find_tag [$ls,*]) =>
    `(tactic| simp [$ls,*, List.append_assoc, find?_optT_skip, find?_optT_hit, find?_optT_skip', find?_optT_hit'])

def CartesianBounds.floats (b : CartesianBounds) : List (Option UInt64) :=
  [b.xMin, b.xMax, b.yMin, b.yMax, b.zMin, b.zMax]

theorem CartesianBounds.roundtrip (ft fp p0) (b : CartesianBounds)
    (hok : ∀ o ∈ CartesianBounds.floats b, ∀ v, o = some v → F64OK ft fp v) :
    E57.CartesianBounds.fromNode fp (CartesianBounds.tree ft p0 b) = some b := by
  simp only [CartesianBounds.floats, List.mem_cons, List.mem_nil_iff, or_false, forall_eq_or_imp, forall_eq] at hok
  obtain ⟨h1, h2, h3, h4, h5, h6⟩ := hok
  have q (t : String) (o : Option UInt64) (hf : (CartesianBounds.tree ft p0 b).findChild t = o.map (genFloatTree ft p0 t))
      (h : ∀ v, o = some v → F64OK ft fp v) : optF64 fp (CartesianBounds.tree ft p0 b) t = some o :=
    optF64_of_find hf h
  simp [E57.CartesianBounds.fromNode,
    q "xMinimum" b.xMin (by find_tag [CartesianBounds.tree]) h1,
    q "xMaximum" b.xMax (by find_tag [CartesianBounds.tree]) h2,
    q "yMinimum" b.yMin (by find_tag [CartesianBounds.tree]) h3,
    q "yMaximum" b.yMax (by find_tag [CartesianBounds.tree]) h4,
    q "zMinimum" b.zMin (by find_tag [CartesianBounds.tree]) h5,
    q "zMaximum" b.zMax (by find_tag [CartesianBounds.tree]) h6]

/-! ## 2. strings, numbers -/

theorem optString_of_find {p0} {n : XNode} {t t' : String} {o : Option String}
    (h : n.findChild t = o.map (genStringTree p0 t')) : optString n t = some o := by
  cases o with
  | none => simp [optString, typedChild_none h]
  | some v => simp [optString, typedChild_some h (ty := "String") (by simp [genStringTree]), genStringTree]

/-- EVERY string comes back as it was written, the empty string included (as `some ""`, not `none`) -/
theorem genString_roundtrip (p0 : Option String) (tag : String) (kids : List XNode) (v : String)
    (h : kids.find? (fun c => c.hasTagName tag) = some (genStringTree p0 tag v)) :
    optString (structT p0 "x" kids) tag = some (some v) :=
  optString_of_find (o := some v) (by simpa using h)

/-- should the parser report NO text node for an empty CDATA section, the reader still returns `some ""` -/
theorem optString_empty_without_text_node (p0 : Option String) (tag : String) (kids : List XNode)
    (h : kids.find? (fun c => c.hasTagName tag) = some (el p0 tag [tattr "String"] [])) :
    optString (structT p0 "x" kids) tag = some (some "") := by
  simp [optString, typedChild_some (c := el p0 tag [tattr "String"] []) (ty := "String")
    (show (structT p0 "x" kids).findChild tag = _ by simpa using h) (by simp)]

theorem parseI64_repr (v : Int) (h : InI64 v) : parseI64 v.repr = some v := parseI64_toString v h
theorem parseU32_repr_int (n : Nat) (h : n ≤ 4294967295) : parseU32 (n : Int).repr = some n :=
  parseU32_toString_int n h

theorem optI64_of_find {p0} {n : XNode} {t t' : String} {o : Option Int}
    (h : n.findChild t = o.map (genIntTree p0 t'))
    (hok : ∀ v, o = some v → InI64 v) : optI64 n t = some o := by
  cases o with
  | none => simp [optI64, typedChild_none h]
  | some v =>
    simp [optI64, typedChild_some h (ty := "Integer") (by simp [genIntTree]), genIntTree,
      rustTrim_repr_int, parseI64_repr v (hok v rfl)]

theorem reqF64_of_find {ft fp p0} {n : XNode} {t t' : String} {v : UInt64}
    (h : n.findChild t = some (genFloatTree ft p0 t' v)) (hok : F64OK ft fp v) : reqF64 fp n t = some v := by
  simp [reqF64, optF64_of_find (o := some v) (fp := fp) h (by intro w hw; cases hw; exact hok)]

theorem reqU32_of_find {p0} {n : XNode} {t t' : String} {v : Nat}
    (h : n.findChild t = some (genIntTree p0 t' (v : Int))) (hok : v ≤ 4294967295) : reqU32 n t = some v := by
  simp [reqU32, typedChild_some h (ty := "Integer") (by simp [genIntTree]), genIntTree,
      rustTrim_repr_int, parseU32_repr_int v hok]

/-! ## 2a. `trim_invisible`: white space added around the text of a numeric leaf is not seen -/

/-- `c'` is the leaf `c` with white space (only) added around its text: same name, same attributes -/
structure Padded (c c' : XNode) : Prop where
  tag : ∀ t, c'.hasTagName t = c.hasTagName t
  attrs : ∀ a, c'.attr a = c.attr a
  text : ∃ w1 s w2, AllWs w1 ∧ AllWs w2 ∧ c.textOf = some s ∧ c'.textOf = some (w1 ++ s ++ w2)

/-- the writer's shape of a leaf (one text child), padded -/
theorem Padded_leaf (ns p name attrs) (w1 s w2 : String) (h1 : AllWs w1) (h2 : AllWs w2) :
    Padded (.elem ns p name attrs [.text s]) (.elem ns p name attrs [.text (w1 ++ s ++ w2)]) :=
  ⟨fun _ => rfl, fun _ => rfl, w1, s, w2, h1, h2, rfl, rfl⟩

/-- the text the reader parses is the same -/
theorem Padded.trim_text {c c' : XNode} (h : Padded c c') (d : String) :
    rustTrim ((c'.textOf).getD d) = rustTrim ((c.textOf).getD d) := by
  obtain ⟨w1, s, w2, h1, h2, e, e'⟩ := h.text
  simp [e, e', rustTrim_pad w1 s w2 h1 h2]

/-- two lookups give the same node, or a leaf and the same leaf padded -/
def FoundPadded (o o' : Option XNode) : Prop := o' = o ∨ ∃ c c', o = some c ∧ o' = some c' ∧ Padded c c'

/-- replacing ONE child by its padded version: every lookup `find?` by a predicate that does not look at the text -/
theorem find?_padded (q : XNode → Bool) {c c' : XNode} (hp : Padded c c') (hq : q c' = q c) (pre post : List XNode) :
    FoundPadded ((pre ++ c :: post).find? q) ((pre ++ c' :: post).find? q) := by
  simp only [List.find?_append, List.find?_cons, hq]
  cases pre.find? q with
  | some x => exact Or.inl rfl
  | none =>
    cases hc : q c with
    | false => exact Or.inl rfl
    | true => exact Or.inr ⟨c, c', by simp, by simp, hp⟩

theorem findChild_padded (ns p name attrs) {c c' : XNode} (hp : Padded c c') (pre post : List XNode) (tag : String) :
    FoundPadded ((XNode.elem ns p name attrs (pre ++ c :: post)).findChild tag)
      ((XNode.elem ns p name attrs (pre ++ c' :: post)).findChild tag) :=
  find?_padded _ hp (hp.tag tag) pre post

/-- **trim_invisible** for every number read through `opt_num`: Float -/
theorem trim_invisible_optF64 (fp : FloatParse) {n n' : XNode} {tag : String}
    (h : FoundPadded (n.findChild tag) (n'.findChild tag)) : optF64 fp n' tag = optF64 fp n tag := by
  rcases h with h | ⟨c, c', hc, hc', hp⟩
  · simp [optF64, typedChild, h]
  · simp only [optF64, typedChild, hc, hc', hp.attrs]
    cases c.attr "type" with
    | none => rfl
    | some ty => by_cases e : (ty == "Float") = true <;> simp [e, hp.trim_text]

theorem trim_invisible_optI64 {n n' : XNode} {tag : String}
    (h : FoundPadded (n.findChild tag) (n'.findChild tag)) : optI64 n' tag = optI64 n tag := by
  rcases h with h | ⟨c, c', hc, hc', hp⟩
  · simp [optI64, typedChild, h]
  · simp only [optI64, typedChild, hc, hc', hp.attrs]
    cases c.attr "type" with
    | none => rfl
    | some ty => by_cases e : (ty == "Integer") = true <;> simp [e, hp.trim_text]

theorem trim_invisible_reqU32 {n n' : XNode} {tag : String}
    (h : FoundPadded (n.findChild tag) (n'.findChild tag)) : reqU32 n' tag = reqU32 n tag := by
  rcases h with h | ⟨c, c', hc, hc', hp⟩
  · simp [reqU32, typedChild, h]
  · simp only [reqU32, typedChild, hc, hc', hp.attrs]
    cases c.attr "type" with
    | none => rfl
    | some ty => by_cases e : (ty == "Integer") = true <;> simp [e, hp.trim_text]

theorem trim_invisible_reqF64 (fp : FloatParse) {n n' : XNode} {tag : String}
    (h : FoundPadded (n.findChild tag) (n'.findChild tag)) : reqF64 fp n' tag = reqF64 fp n tag := by
  simp [reqF64, trim_invisible_optF64 fp h]

theorem trim_invisible_reqI64 {n n' : XNode} {tag : String}
    (h : FoundPadded (n.findChild tag) (n'.findChild tag)) : reqI64 n' tag = reqI64 n tag := by
  simp [reqI64, trim_invisible_optI64 h]

/-- … for the limits (`extract_limit` looks among all descendants) -/
theorem trim_invisible_extractLimit (fp : FloatParse) {n n' : XNode} {tag : String}
    (h : FoundPadded (n.findDescendant tag) (n'.findDescendant tag)) :
    extractLimit fp n' tag = extractLimit fp n tag := by
  rcases h with h | ⟨c, c', hc, hc', hp⟩
  · simp [extractLimit, h]
  · simp only [extractLimit, hc, hc', hp.attrs, hp.trim_text]

/-- … for date and time: white space around `dateTimeValue` and around `isAtomicClockReferenced` -/
theorem trim_invisible_dateTime (fp : FloatParse) (ns p name attrs) {c c' : XNode} (hp : Padded c c')
    (pre post : List XNode) :
    E57.DateTime.fromNode fp (.elem ns p name attrs (pre ++ c' :: post))
      = E57.DateTime.fromNode fp (.elem ns p name attrs (pre ++ c :: post)) := by
  have q1 := find?_padded (fun n => n.hasTagName "dateTimeValue" && n.attr "type" == some "Float") hp
    (by simp [hp.tag, hp.attrs]) pre post
  have q2 := find?_padded (fun n => n.hasTagName "isAtomicClockReferenced" && n.attr "type" == some "Integer") hp
    (by simp [hp.tag, hp.attrs]) pre post
  simp only [E57.DateTime.fromNode, XNode.children]
  revert q1 q2
  generalize (pre ++ c :: post).find? (fun n => n.hasTagName "dateTimeValue" && n.attr "type" == some "Float") = o1
  generalize (pre ++ c' :: post).find? (fun n => n.hasTagName "dateTimeValue" && n.attr "type" == some "Float") = o1'
  generalize (pre ++ c :: post).find?
    (fun n => n.hasTagName "isAtomicClockReferenced" && n.attr "type" == some "Integer") = o2
  generalize (pre ++ c' :: post).find?
    (fun n => n.hasTagName "isAtomicClockReferenced" && n.attr "type" == some "Integer") = o2'
  intro q1 q2
  rcases q2 with h2 | ⟨d2, d2', hd2, hd2', hp2⟩ <;> rcases q1 with h1 | ⟨d1, d1', hd1, hd1', hp1⟩
  · rw [h1, h2]
  · obtain ⟨w1, s, w2, hw1, hw2, e, e'⟩ := hp1.text
    simp only [h2, hd1, hd1', Option.bind_eq_bind, Option.bind_some, e, e', rustTrim_pad w1 s w2 hw1 hw2]
  · rw [h1, hd2, hd2']
    simp only [hp2.trim_text]
  · obtain ⟨w1, s, w2, hw1, hw2, e, e'⟩ := hp1.text
    simp only [hd2, hd2', hd1, hd1', Option.bind_eq_bind, Option.bind_some, e, e', rustTrim_pad w1 s w2 hw1 hw2,
      hp2.trim_text]

/-- non-vacuity, the example of the defect report: `<temperature type="Float"> 21.5 </temperature>` (and with
    tab, CR, LF) is read as 21.5 -/
theorem trim_invisible_example :
    let fp : FloatParse := ⟨[("21.5", (some 0x4035800000000000, none))]⟩
    optF64 fp (structT none "x" [el none "temperature" [tattr "Float"] [.text " \t21.5\r\n "]]) "temperature"
      = some (some 0x4035800000000000) ∧
    optF64 fp (structT none "x" [el none "temperature" [tattr "Float"] [.text "21.5"]]) "temperature"
      = some (some 0x4035800000000000) := by
  decide

/-- **trim_invisible**: in any element, replace one leaf by the same leaf with white space (space, tab, LF, CR, … —
    `AllWs`, `AllWs_xmlSpace`) around its text: every number read from that element (`opt_num::<f64>`,
    `opt_num::<i64>`, the required `u32`, date and time) is the same.  With `Padded_leaf` for the writer's shape
    of a leaf; for the limits see `trim_invisible_extractLimit`. -/
theorem trim_invisible (fp : FloatParse) (ns p name attrs) {c c' : XNode} (hp : Padded c c')
    (pre post : List XNode) (tag : String) :
    let n := XNode.elem ns p name attrs (pre ++ c :: post)
    let n' := XNode.elem ns p name attrs (pre ++ c' :: post)
    optF64 fp n' tag = optF64 fp n tag ∧ optI64 n' tag = optI64 n tag ∧ reqU32 n' tag = reqU32 n tag ∧
    reqF64 fp n' tag = reqF64 fp n tag ∧ reqI64 n' tag = reqI64 n tag ∧
    E57.DateTime.fromNode fp n' = E57.DateTime.fromNode fp n := by
  have h := findChild_padded ns p name attrs hp pre post tag
  exact ⟨trim_invisible_optF64 fp h, trim_invisible_optI64 h, trim_invisible_reqU32 h, trim_invisible_reqF64 fp h,
    trim_invisible_reqI64 h, trim_invisible_dateTime fp ns p name attrs hp pre post⟩

/-- strings are NOT trimmed: the white space stays in the value -/
theorem string_not_trimmed :
    optString (structT none "x" [el none "name" [tattr "String"] [.text " a "]]) "name" = some (some " a ") := by
  decide

/-! ## 3. bounds, date and time, pose -/

def SphericalBounds.floats (b : SphericalBounds) : List (Option UInt64) :=
  [b.rangeMin, b.rangeMax, b.elevationMin, b.elevationMax, b.azimuthStart, b.azimuthEnd]

theorem SphericalBounds.roundtrip (ft fp p0) (b : SphericalBounds)
    (hok : ∀ o ∈ SphericalBounds.floats b, ∀ v, o = some v → F64OK ft fp v) :
    E57.SphericalBounds.fromNode fp (SphericalBounds.tree ft p0 b) = some b := by
  simp only [SphericalBounds.floats, List.mem_cons, List.mem_nil_iff, or_false, forall_eq_or_imp, forall_eq] at hok
  obtain ⟨h1, h2, h3, h4, h5, h6⟩ := hok
  have q (t : String) (o : Option UInt64) (hf : (SphericalBounds.tree ft p0 b).findChild t = o.map (genFloatTree ft p0 t))
      (h : ∀ v, o = some v → F64OK ft fp v) : optF64 fp (SphericalBounds.tree ft p0 b) t = some o :=
    optF64_of_find hf h
  simp [E57.SphericalBounds.fromNode,
    q "rangeMinimum" b.rangeMin (by find_tag [SphericalBounds.tree]) h1,
    q "rangeMaximum" b.rangeMax (by find_tag [SphericalBounds.tree]) h2,
    q "elevationMinimum" b.elevationMin (by find_tag [SphericalBounds.tree]) h3,
    q "elevationMaximum" b.elevationMax (by find_tag [SphericalBounds.tree]) h4,
    q "azimuthStart" b.azimuthStart (by find_tag [SphericalBounds.tree]) h5,
    q "azimuthEnd" b.azimuthEnd (by find_tag [SphericalBounds.tree]) h6]

def IndexBounds.ints (b : IndexBounds) : List (Option Int) :=
  [b.rowMin, b.rowMax, b.columnMin, b.columnMax, b.returnMin, b.returnMax]

theorem IndexBounds.roundtrip (p0) (b : IndexBounds)
    (hok : ∀ o ∈ IndexBounds.ints b, ∀ v, o = some v → InI64 v) :
    E57.IndexBounds.fromNode (IndexBounds.tree p0 b) = some b := by
  simp only [IndexBounds.ints, List.mem_cons, List.mem_nil_iff, or_false, forall_eq_or_imp, forall_eq] at hok
  obtain ⟨h1, h2, h3, h4, h5, h6⟩ := hok
  have q (t : String) (o : Option Int) (hf : (IndexBounds.tree p0 b).findChild t = o.map (genIntTree p0 t))
      (h : ∀ v, o = some v → InI64 v) : optI64 (IndexBounds.tree p0 b) t = some o :=
    optI64_of_find hf h
  simp [E57.IndexBounds.fromNode,
    q "rowMinimum" b.rowMin (by find_tag [IndexBounds.tree]) h1,
    q "rowMaximum" b.rowMax (by find_tag [IndexBounds.tree]) h2,
    q "columnMinimum" b.columnMin (by find_tag [IndexBounds.tree]) h3,
    q "columnMaximum" b.columnMax (by find_tag [IndexBounds.tree]) h4,
    q "returnMinimum" b.returnMin (by find_tag [IndexBounds.tree]) h5,
    q "returnMaximum" b.returnMax (by find_tag [IndexBounds.tree]) h6]

/-- an index bound outside the signed 64-bit range cannot be read back (the Rust type is `i64`, so the
    writer API cannot produce one) -/
theorem IndexBounds.roundtrip_needs_i64 :
    E57.IndexBounds.fromNode (IndexBounds.tree none { rowMin := some 9223372036854775808 }) = none := by
  decide +kernel

/-- date and time: both values of `isAtomicClockReferenced` survive -/
theorem DateTime.roundtrip (ft fp p0) (d : DateTime) (tag : String) (h : F64OK ft fp d.gpsTime) :
    E57.DateTime.fromNode fp (DateTime.tree ft p0 d tag) = some (some d) := by
  have h := h.parse_trim
  have h1 : parseI64 (rustTrim "1") = some 1 := by decide
  have h0 : parseI64 (rustTrim "0") = some 0 := by decide
  obtain ⟨g, a⟩ := d
  cases a <;>
  simp [E57.DateTime.fromNode, DateTime.tree, structT, find?_lines, genFloatTree, lines, sep, nl, h, h0, h1] at h ⊢

@[simp] theorem hasTagName_DateTime_tree (ft p0 d tag t) : (DateTime.tree ft p0 d tag).hasTagName t = (tag == t) := by
  simp [DateTime.tree]

theorem optDateTime_of_find {ft fp p0} {n : XNode} {t t' : String} {o : Option DateTime}
    (h : n.findChild t = o.map (fun d => DateTime.tree ft p0 d t'))
    (hok : ∀ d, o = some d → F64OK ft fp d.gpsTime) : optDateTime fp n t = some o := by
  cases o with
  | none => simp [optDateTime, typedChild_none h]
  | some d =>
    simp [optDateTime, typedChild_some h (ty := "Structure") (by simp [DateTime.tree, structT]),
      DateTime.roundtrip ft fp p0 d t' (hok d rfl)]

def Transform.floats (t : Transform) : List UInt64 := [t.rw, t.rx, t.ry, t.rz, t.tx, t.ty, t.tz]

theorem Transform.roundtrip (ft fp p0) (t : Transform) (tag : String)
    (hok : ∀ v ∈ Transform.floats t, F64OK ft fp v) :
    E57.Transform.fromNode fp (Transform.tree ft p0 t tag) = some t := by
  simp only [Transform.floats, List.mem_cons, List.mem_nil_iff, or_false, forall_eq_or_imp, forall_eq] at hok
  obtain ⟨h1, h2, h3, h4, h5, h6, h7⟩ := hok
  have r (x : String) (v : UInt64) (kids : List XNode) (tg : String) (h : F64OK ft fp v)
      (hf : kids.find? (fun c => c.hasTagName x) = some (genFloatTree ft p0 x v)) :
      reqF64 fp (structT p0 tg kids) x = some v := reqF64_of_find (by simpa using hf) h
  simp [E57.Transform.fromNode, Transform.tree,
    r "w" t.rw [genFloatTree ft p0 "w" t.rw, genFloatTree ft p0 "x" t.rx, genFloatTree ft p0 "y" t.ry,
      genFloatTree ft p0 "z" t.rz] "rotation" h1 (by simp),
    r "x" t.rx [genFloatTree ft p0 "w" t.rw, genFloatTree ft p0 "x" t.rx, genFloatTree ft p0 "y" t.ry,
      genFloatTree ft p0 "z" t.rz] "rotation" h2 (by simp),
    r "y" t.ry [genFloatTree ft p0 "w" t.rw, genFloatTree ft p0 "x" t.rx, genFloatTree ft p0 "y" t.ry,
      genFloatTree ft p0 "z" t.rz] "rotation" h3 (by simp),
    r "z" t.rz [genFloatTree ft p0 "w" t.rw, genFloatTree ft p0 "x" t.rx, genFloatTree ft p0 "y" t.ry,
      genFloatTree ft p0 "z" t.rz] "rotation" h4 (by simp),
    r "x" t.tx [genFloatTree ft p0 "x" t.tx, genFloatTree ft p0 "y" t.ty, genFloatTree ft p0 "z" t.tz]
      "translation" h5 (by simp),
    r "y" t.ty [genFloatTree ft p0 "x" t.tx, genFloatTree ft p0 "y" t.ty, genFloatTree ft p0 "z" t.tz]
      "translation" h6 (by simp),
    r "z" t.tz [genFloatTree ft p0 "x" t.tx, genFloatTree ft p0 "y" t.ty, genFloatTree ft p0 "z" t.tz]
      "translation" h7 (by simp)]

@[simp] theorem hasTagName_Transform_tree (ft p0 d tag t) : (Transform.tree ft p0 d tag).hasTagName t = (tag == t) := by
  simp [Transform.tree]

theorem optTransform_of_find {ft fp p0} {n : XNode} {t t' : String} {o : Option Transform}
    (h : n.findChild t = o.map (fun d => Transform.tree ft p0 d t'))
    (hok : ∀ d, o = some d → ∀ v ∈ Transform.floats d, F64OK ft fp v) : optTransform fp n t = some o := by
  cases o with
  | none => simp [optTransform, show n.findChild t = none from h]
  | some d =>
    simp [optTransform, show n.findChild t = some _ from h, Transform.roundtrip ft fp p0 d t' (hok d rfl)]

/-! ## 4. limits -/

macro "find_tag" : tactic =>
  `(tactic| simp [List.append_assoc, find?_optT_skip, find?_optT_hit, find?_optT_skip', find?_optT_hit'])


/-- what a limit value needs to survive: integers in the `i64` range, floats that print and parse back -/
def ValueOK (ft : FloatText) (fp : FloatParse) : Value → Prop
  | .integer i => InI64 i
  | .scaled i => InI64 i
  | .single b => F32OK ft fp b
  | .double b => F64OK ft fp b

/-- an element whose only child is a text node -/
def IsLeaf (n : XNode) : Prop := ∃ ns p name attrs s, n = .elem ns p name attrs [.text s]

theorem recordValueTree_leaf (ft p0 tag v) : IsLeaf (recordValueTree ft p0 tag v) := by
  cases v <;> exact ⟨_, _, _, _, _, rfl⟩

@[simp] theorem hasTagName_recordValueTree (ft p0 tag v t) :
    (recordValueTree ft p0 tag v).hasTagName t = (tag == t) := by
  cases v <;> simp [recordValueTree]

theorem find?_descendantsList_sep (t : String) (kids : List XNode) (h : ∀ k ∈ kids, IsLeaf k) :
    (descendantsList (sep kids)).find? (fun c => c.hasTagName t) = kids.find? (fun c => c.hasTagName t) := by
  induction kids with
  | nil => simp [sep, descendantsList]
  | cons k ks ih =>
    obtain ⟨ns, p, name, attrs, s, rfl⟩ := h k (by simp)
    have ih' := ih (fun k hk => h k (by simp [hk]))
    simp only [sep, descendantsList, descendants, nl, List.append_nil, List.cons_append, List.nil_append,
      List.find?_cons, hasTagName_text, ih']

theorem findDescendant_structT (tag t : String) (p0 : Option String) (kids : List XNode)
    (h : ∀ k ∈ kids, IsLeaf k) (hne : (tag == t) = false) :
    (structT p0 tag kids).findDescendant t = kids.find? (fun c => c.hasTagName t) := by
  simp only [findDescendant, structT, el, lines, descendants, descendantsList, nl, List.find?_cons,
    List.cons_append, List.nil_append]
  have : (elem (some e57NsUri) p0 tag [tattr "Structure"] (text "\n" :: sep kids)).hasTagName t = false := by
    simpa [hasTagName] using fun h' => by simp [h'] at hne
  simp [this, find?_descendantsList_sep t kids h]

theorem extractLimit_of_find {ft fp p0} {n : XNode} {t t' : String} {o : Option Value}
    (h : n.findDescendant t = o.map (recordValueTree ft p0 t'))
    (hok : ∀ v, o = some v → ValueOK ft fp v) : extractLimit fp n t = some o := by
  cases o with
  | none => simp [extractLimit, show n.findDescendant t = none from h]
  | some v =>
    have hv := hok v rfl
    have h' : n.findDescendant t = some (recordValueTree ft p0 t' v) := h
    cases v with
    | integer i => simp [extractLimit, h', recordValueTree, el, attr, textOf, XNode.children, textPieces, tattr, at_, rustTrim_repr_int, parseI64_repr i hv]
    | scaled i => simp [extractLimit, h', recordValueTree, el, attr, textOf, XNode.children, textPieces, tattr, at_, rustTrim_repr_int, parseI64_repr i hv]
    | single b =>
      have hv := F32OK.parse_trim hv
      simp [extractLimit, h', recordValueTree, el, attr, textOf, XNode.children, textPieces, tattr, at_, hv]
    | double b =>
      have hv := F64OK.parse_trim hv
      simp [extractLimit, h', recordValueTree, el, attr, textOf, XNode.children, textPieces, tattr, at_, hv]

def IntensityLimits.values (l : IntensityLimits) : List (Option Value) := [l.min, l.max]
def ColorLimits.values (l : ColorLimits) : List (Option Value) :=
  [l.redMin, l.redMax, l.greenMin, l.greenMax, l.blueMin, l.blueMax]

theorem mem_optT_append_leaf {α} {o : Option α} {f : α → XNode} {rest : List XNode} (hf : ∀ a, IsLeaf (f a))
    (hr : ∀ k ∈ rest, IsLeaf k) : ∀ k ∈ optT o f ++ rest, IsLeaf k := by
  cases o <;> simp [optT] <;> simp_all

theorem mem_optT_leaf {α} {o : Option α} {f : α → XNode} (hf : ∀ a, IsLeaf (f a)) : ∀ k ∈ optT o f, IsLeaf k := by
  cases o <;> simp [optT] <;> simp_all

/-- intensity limits survive whatever combination of minimum and maximum is present, with their kind
    (`Integer` stays `Integer`, `ScaledInteger` stays `ScaledInteger`, single stays single) -/
theorem IntensityLimits.roundtrip (ft fp p0) (l : IntensityLimits)
    (hok : ∀ o ∈ IntensityLimits.values l, ∀ v, o = some v → ValueOK ft fp v) :
    E57.IntensityLimits.fromNode fp (IntensityLimits.tree ft p0 l) = some l := by
  simp only [IntensityLimits.values, List.mem_cons, List.mem_nil_iff, or_false, forall_eq_or_imp, forall_eq] at hok
  obtain ⟨h1, h2⟩ := hok
  have q (t : String) (o : Option Value) (hne : ("intensityLimits" == t) = false)
      (hf : (optT l.min (recordValueTree ft p0 "intensityMinimum") ++ optT l.max (recordValueTree ft p0 "intensityMaximum")).find?
        (fun c => c.hasTagName t) = o.map (recordValueTree ft p0 t))
      (h : ∀ v, o = some v → ValueOK ft fp v) : extractLimit fp (IntensityLimits.tree ft p0 l) t = some o := by
    refine extractLimit_of_find (p0 := p0) (t' := t) ?_ h
    rw [IntensityLimits.tree, findDescendant_structT _ _ _ _ ?_ hne, hf]
    exact mem_optT_append_leaf (recordValueTree_leaf ft p0 _) (mem_optT_leaf (recordValueTree_leaf ft p0 _))
  simp [E57.IntensityLimits.fromNode,
    q "intensityMinimum" l.min (by decide) (by find_tag) h1,
    q "intensityMaximum" l.max (by decide) (by find_tag) h2]

/-- colour limits survive whatever combination of the six values is present, each with its kind -/
theorem ColorLimits.roundtrip (ft fp p0) (l : ColorLimits)
    (hok : ∀ o ∈ ColorLimits.values l, ∀ v, o = some v → ValueOK ft fp v) :
    E57.ColorLimits.fromNode fp (ColorLimits.tree ft p0 l) = some l := by
  simp only [ColorLimits.values, List.mem_cons, List.mem_nil_iff, or_false, forall_eq_or_imp, forall_eq] at hok
  obtain ⟨h1, h2, h3, h4, h5, h6⟩ := hok
  have q (t : String) (o : Option Value) (hne : ("colorLimits" == t) = false)
      (hf : (optT l.redMin (recordValueTree ft p0 "colorRedMinimum") ++ optT l.redMax (recordValueTree ft p0 "colorRedMaximum")
     ++ optT l.greenMin (recordValueTree ft p0 "colorGreenMinimum")
     ++ optT l.greenMax (recordValueTree ft p0 "colorGreenMaximum")
     ++ optT l.blueMin (recordValueTree ft p0 "colorBlueMinimum")
     ++ optT l.blueMax (recordValueTree ft p0 "colorBlueMaximum")).find?
        (fun c => c.hasTagName t) = o.map (recordValueTree ft p0 t))
      (h : ∀ v, o = some v → ValueOK ft fp v) : extractLimit fp (ColorLimits.tree ft p0 l) t = some o := by
    refine extractLimit_of_find (p0 := p0) (t' := t) ?_ h
    rw [ColorLimits.tree, findDescendant_structT _ _ _ _ ?_ hne, hf]
    have lf := recordValueTree_leaf ft p0
    simp only [List.append_assoc]
    exact mem_optT_append_leaf (lf _) (mem_optT_append_leaf (lf _) (mem_optT_append_leaf (lf _)
      (mem_optT_append_leaf (lf _) (mem_optT_append_leaf (lf _) (mem_optT_leaf (lf _))))))
  simp [E57.ColorLimits.fromNode,
    q "colorRedMinimum" l.redMin (by decide) (by find_tag) h1,
    q "colorRedMaximum" l.redMax (by decide) (by find_tag) h2,
    q "colorGreenMinimum" l.greenMin (by decide) (by find_tag) h3,
    q "colorGreenMaximum" l.greenMax (by decide) (by find_tag) h4,
    q "colorBlueMinimum" l.blueMin (by decide) (by find_tag) h5,
    q "colorBlueMaximum" l.blueMax (by decide) (by find_tag) h6]

/-- a limit outside the `i64` range does not survive (not constructible through the Rust API: `i64`) -/
theorem IntensityLimits.roundtrip_needs_i64 (ft fp) :
    E57.IntensityLimits.fromNode fp (IntensityLimits.tree ft none ⟨some (.integer 9223372036854775808), none⟩)
      = none := by
  simp [E57.IntensityLimits.fromNode, IntensityLimits.tree, extractLimit, findDescendant, structT, el, lines, sep, optT,
    descendants, descendantsList, recordValueTree, nl, hasTagName, attr, tattr, at_, textOf, XNode.children, textPieces,
    rustTrim_repr_int, show parseI64 (Int.repr 9223372036854775808) = none by decide +kernel]

/-! ## 5. prototype -/

/-- what a data type needs to survive: floats that print and parse back, integers in the `i64` range and
    — the reader REJECTS an empty range — `min ≤ max` (the writer's `validatePrototype` demands it too) -/
def DataTypeOK (ft : FloatText) (fp : FloatParse) : DataType → Prop
  | .single min max => (∀ v, min = some v → F32OK ft fp v) ∧ (∀ v, max = some v → F32OK ft fp v)
  | .double min max => (∀ v, min = some v → F64OK ft fp v) ∧ (∀ v, max = some v → F64OK ft fp v)
  | .scaled min max scale offset => InI64 min ∧ InI64 max ∧ min ≤ max ∧ F64OK ft fp scale ∧ F64OK ft fp offset
  | .integer min max => InI64 min ∧ InI64 max ∧ min ≤ max

theorem DataType.roundtrip (ft fp) (dt : DataType) (h : DataTypeOK ft fp dt) (ns pfx name cs) :
    E57.DataType.fromNode fp (.elem ns pfx name (recordTypeTree ft dt).1 cs) = some dt := by
  cases dt with
  | single min max =>
    obtain ⟨h1, h2⟩ := h
    cases min <;> cases max <;>
      simp [F32OK] at h1 h2 <;>
      simp [E57.DataType.fromNode, recordTypeTree, attr, optT, tattr, at_, optAttr, h1, h2]
  | double min max =>
    obtain ⟨h1, h2⟩ := h
    cases min <;> cases max <;>
      simp [F64OK] at h1 h2 <;>
      simp [E57.DataType.fromNode, recordTypeTree, attr, optT, tattr, at_, optAttr, h1, h2]
  | scaled min max scale offset =>
    obtain ⟨h1, h2, h3, h4, h5⟩ := h
    simp only [F64OK] at h4 h5
    simp [E57.DataType.fromNode, recordTypeTree, attr, optT, tattr, at_, optAttr, parseI64_repr _ h1,
      parseI64_repr _ h2, h4, h5, Int.not_lt.mpr h3]
  | integer min max =>
    obtain ⟨h1, h2, h3⟩ := h
    simp [E57.DataType.fromNode, recordTypeTree, attr, optT, tattr, at_, optAttr, parseI64_repr _ h1,
      parseI64_repr _ h2, Int.not_lt.mpr h3]

/-- the reader refuses a data type whose maximum is below its minimum: such a type does not survive -/
theorem DataType.roundtrip_empty_range (ft fp ns pfx name cs) :
    E57.DataType.fromNode fp (.elem ns pfx name (recordTypeTree ft (.integer 5 3)).1 cs) = none := by
  simp [E57.DataType.fromNode, recordTypeTree, attr, optT, tattr, at_, optAttr,
    show parseI64 (Int.repr 5) = some 5 by decide +kernel, show parseI64 (Int.repr 3) = some 3 by decide +kernel]

/-- the local names of the standard records -/
def stdTags : List String :=
  ["cartesianX", "cartesianY", "cartesianZ", "cartesianInvalidState", "sphericalRange", "sphericalAzimuth",
   "sphericalElevation", "sphericalInvalidState", "intensity", "isIntensityInvalid", "colorRed", "colorGreen",
   "colorBlue", "isColorInvalid", "rowIndex", "columnIndex", "returnCount", "returnIndex", "timeStamp",
   "isTimeStampInvalid"]

theorem ofTag_std (p : Option String) (n : RecordName) (h : n.namespace? = none) :
    RecordName.ofTag p n.tagName = n := by
  cases n <;> first | rfl | simp [RecordName.namespace?] at h

theorem ofTag_nonstd (p : Option String) (t : String) (h : t ∉ stdTags) :
    RecordName.ofTag p t = .unknown (p.getD "") t := by
  simp only [stdTags, List.mem_cons, List.mem_nil_iff, or_false, not_or] at h
  unfold RecordName.ofTag
  split <;> simp_all

/-- what the NAME of a prototype entry needs to survive.  A standard name always does.  An extension
    record `ns:name` needs: `ns` is a registered extension; its URL is not shared with an extension
    registered EARLIER (roxmltree reports the first prefix bound to the URL) and is not the XML namespace;
    and if its URL is empty or the E57 namespace itself, `name` is not the name of a standard record -/
def RecordNameOK (exts : List (String × String)) : RecordName → Prop
  | .unknown ns name =>
    ∃ url, extUrl exts ns = some url ∧ lookupPrefix (rootNamespaces exts) url = some ns ∧
      ((url = "" ∨ url = e57Namespace) → name ∉ stdTags)
  | _ => True

theorem recordNameOf_tree (ft exts) (r : Record) (h : RecordNameOK exts r.name) :
    recordNameOf (Record.tree ft exts r) = r.name := by
  obtain ⟨name, dt⟩ := r
  cases name with
  | unknown ns nm =>
    obtain ⟨url, h1, h2, h3⟩ := h
    simp only [Record.tree, recordNs, RecordName.namespace?, h1, h2, recordNameOf, tagNs, tagPrefix, tagLocal,
      RecordName.tagName, Option.getD_some]
    split
    · rename_i hc
      rw [ofTag_nonstd _ _ (h3 (by simpa [String.isEmpty_iff] using hc))]; rfl
    · rfl
  | _ =>
    simp [Record.tree, recordNs, RecordName.namespace?, recordNameOf, tagNs, tagPrefix, tagLocal, e57NsUri,
      e57Namespace, RecordName.tagName, RecordName.ofTag]

/-- a sufficient condition that is easy to check: the extension is registered, no other extension has
    the same URL, and the URL is none of the three special ones -/
theorem RecordNameOK_of_distinct (exts : List (String × String)) (ns name url : String)
    (hreg : (ns, url) ∈ exts)
    (huniq : ∀ e ∈ exts, e.2 = url → e.1 = ns) (hns : ∀ e ∈ exts, e.1 = ns → e.2 = url)
    (h1 : url ≠ "") (h2 : url ≠ e57Namespace) (h3 : url ≠ xmlNsUri) :
    RecordNameOK exts (.unknown ns name) := by
  refine ⟨url, ?_, ?_, ?_⟩
  · unfold extUrl
    cases hf : exts.find? (fun e => e.1 == ns) with
    | none => simpa using List.find?_eq_none.mp hf (ns, url) hreg
    | some e =>
      have hm := List.mem_of_find?_eq_some hf
      have hp := List.find?_some hf
      simp at hp
      simp [hns e hm hp]
  · unfold lookupPrefix rootNamespaces
    simp only [beq_iff_eq, h3, if_false]
    rw [List.find?_append]
    cases hf : (exts.map (fun e => (some e.1, e.2))).find? (fun n => n.2 == url) with
    | none =>
      have := List.find?_eq_none.mp hf (some ns, url) (List.mem_map.mpr ⟨(ns, url), hreg, rfl⟩)
      simp at this
    | some n =>
      have hm := List.mem_of_find?_eq_some hf
      have hp := List.find?_some hf
      simp at hm hp
      obtain ⟨a, b, hab, rfl⟩ := hm
      simp at hp
      have := huniq (a, b) hab hp
      simpa using this
  · rintro (h | h) <;> contradiction

theorem filter_isElement_sep (kids : List XNode) (h : ∀ k ∈ kids, k.isElement = true) :
    (sep kids).filter XNode.isElement = kids := by
  induction kids with
  | nil => rfl
  | cons k ks ih =>
    have hk := h k (by simp)
    have hn : nl.isElement = false := rfl
    simp only [sep, List.filter_cons, hk, hn, if_true, ih (fun k hk => h k (by simp [hk]))]
    simp

theorem filter_isElement_lines (kids : List XNode) (h : ∀ k ∈ kids, k.isElement = true) :
    (lines kids).filter XNode.isElement = kids := by
  have hn : nl.isElement = false := rfl
  simp only [lines, List.filter_cons, hn, filter_isElement_sep kids h]
  simp

@[simp] theorem isElement_Record_tree (ft exts r) : (Record.tree ft exts r).isElement = true := rfl

/-- what a prototype needs to survive -/
def PrototypeOK (ft : FloatText) (fp : FloatParse) (exts : List (String × String)) (p : Prototype) : Prop :=
  ∀ r ∈ p, RecordNameOK exts r.name ∧ DataTypeOK ft fp r.dt

theorem mapM_records (ft fp exts) (p : Prototype) (h : PrototypeOK ft fp exts p) :
    (p.map (Record.tree ft exts)).mapM (fun n => do
      let dt ← E57.DataType.fromNode fp n
      pure (⟨recordNameOf n, dt⟩ : Record)) = some p := by
  induction p with
  | nil => rfl
  | cons r rs ih =>
    have hr := h r (by simp)
    have e1 : E57.DataType.fromNode fp (Record.tree ft exts r) = some r.dt := by
      simp only [Record.tree]
      exact DataType.roundtrip ft fp r.dt hr.2 _ _ _ _
    rw [List.map_cons, List.mapM_cons]
    simp only [e1, recordNameOf_tree ft exts r hr.1, ih (fun r hr => h r (by simp [hr]))]
    rfl

/-- the prototype — names, data types, minimum/maximum/scale/offset — survives -/
theorem prototype_roundtrip (ft fp exts p0) (p : Prototype) (h : PrototypeOK ft fp exts p) :
    prototypeFromNode fp (structT p0 "prototype" (p.map (Record.tree ft exts))) = some p := by
  unfold prototypeFromNode
  rw [structT, children_el, filter_isElement_lines _ (by simp)]
  exact mapM_records ft fp exts p h

/-! the two ways an extension record name is NOT preserved -/

/-- the naive statement: every record name survives when its extension is registered -/
def recordName_statement : Prop :=
  ∀ (ft : FloatText) (exts : List (String × String)) (r : Record),
    (∀ ns, r.name.namespace? = some ns → (extUrl exts ns).isSome) →
    recordNameOf (Record.tree ft exts r) = r.name

/-- two extensions registered with the SAME URL (the writer only demands distinct prefixes): a record of
    the second one comes back under the prefix of the first -/
theorem recordName_shared_url (ft : FloatText) :
    recordNameOf (Record.tree ft [("a", "u"), ("b", "u")] ⟨.unknown "b" "foo", .integer 0 1⟩)
      = .unknown "a" "foo" := by
  simp [Record.tree, recordNs, RecordName.namespace?, extUrl, lookupPrefix, rootNamespaces, xmlNsUri,
    recordNameOf, tagNs, tagPrefix, tagLocal, RecordName.tagName, e57Namespace]

/-- an extension registered with the E57 namespace as URL: its record named like a standard record
    comes back as that standard record -/
theorem recordName_e57_url (ft : FloatText) :
    recordNameOf (Record.tree ft [("a", e57Namespace)] ⟨.unknown "a" "cartesianX", .integer 0 1⟩)
      = .cartesianX := by
  simp [Record.tree, recordNs, RecordName.namespace?, extUrl, lookupPrefix, rootNamespaces, xmlNsUri,
    recordNameOf, tagNs, tagPrefix, tagLocal, RecordName.tagName, e57Namespace, RecordName.ofTag]

theorem recordName_statement_false : ¬ recordName_statement := by
  intro h
  have := h ⟨[], []⟩ [("a", "u"), ("b", "u")] ⟨.unknown "b" "foo", .integer 0 1⟩
    (by intro ns hns; simp [RecordName.namespace?] at hns; subst hns; simp [extUrl])
  rw [recordName_shared_url] at this
  simp at this

/-! ## 6. point clouds -/

@[simp] theorem hasTagName_CartesianBounds_tree (ft p0 b t) :
    (CartesianBounds.tree ft p0 b).hasTagName t = ("cartesianBounds" == t) := by simp [CartesianBounds.tree]
@[simp] theorem hasTagName_SphericalBounds_tree (ft p0 b t) :
    (SphericalBounds.tree ft p0 b).hasTagName t = ("sphericalBounds" == t) := by simp [SphericalBounds.tree]
@[simp] theorem hasTagName_IndexBounds_tree (p0 b t) :
    (IndexBounds.tree p0 b).hasTagName t = ("indexBounds" == t) := by simp [IndexBounds.tree]
@[simp] theorem hasTagName_IntensityLimits_tree (ft p0 b t) :
    (IntensityLimits.tree ft p0 b).hasTagName t = ("intensityLimits" == t) := by simp [IntensityLimits.tree]
@[simp] theorem hasTagName_ColorLimits_tree (ft p0 b t) :
    (ColorLimits.tree ft p0 b).hasTagName t = ("colorLimits" == t) := by simp [ColorLimits.tree]
@[simp] theorem hasTagName_originalGuidsTree (p0 gs t) :
    (originalGuidsTree p0 gs).hasTagName t = ("originalGuids" == t) := by simp [originalGuidsTree]
@[simp] theorem hasTagName_pointsTree (ft exts pc t) :
    (pointsTree ft exts pc).hasTagName t = ("points" == t) := by simp [pointsTree]

theorem optNode_of_find {α} {n : XNode} {t : String} {o : Option α} {f : α → XNode} {g : XNode → Option α}
    (h : n.findChild t = o.map f) (hg : ∀ a, o = some a → g (f a) = some a) : optNode n t g = some o := by
  cases o with
  | none => simp [optNode, show n.findChild t = none from h]
  | some a => simp [optNode, show n.findChild t = some (f a) from h, hg a rfl]

/-- the list of original GUIDs survives, every string in it -/
theorem originalGuids_read (p0) (gs : List String) :
    (((originalGuidsTree p0 gs).children.filter
        (fun n => n.isElement && n.hasTagName "vectorChild" && n.attr "type" == some "String")).map
      (fun n => (n.textOf).getD "")) = gs := by
  have hp1 : ∀ g, (fun n : XNode => n.isElement && n.hasTagName "vectorChild" && n.attr "type" == some "String")
      (genStringTree p0 "vectorChild" g) = true := by intro g; simp [genStringTree]
  have hp2 : (fun n : XNode => n.isElement && n.hasTagName "vectorChild" && n.attr "type" == some "String") nl = false := rfl
  generalize (fun n : XNode => n.isElement && n.hasTagName "vectorChild" && n.attr "type" == some "String") = p at hp1 hp2
  have hs : ∀ gs : List String, ((sep (gs.map (genStringTree p0 "vectorChild"))).filter p).map
      (fun n => (n.textOf).getD "") = gs := by
    intro gs
    induction gs with
    | nil => rfl
    | cons g gs ih =>
      simp only [List.map_cons, sep, List.filter_cons, hp1, hp2, if_true, ih]
      simp [genStringTree, ih]
  simp only [originalGuidsTree, children_el, lines, List.filter_cons, hp2]
  simpa using hs gs

/-- the metadata the writer stores: incomplete limits are dropped -/
def PointCloud.stored (pc : PointCloud) : PointCloud :=
  { pc with intensityLimits := pc.intensityLimits.filter IntensityLimits.complete,
            colorLimits := pc.colorLimits.filter ColorLimits.complete }

/-- what a point cloud needs for all of its metadata to survive -/
structure PointCloud.OK (ft : FloatText) (fp : FloatParse) (exts : List (String × String)) (pc : PointCloud) : Prop where
  fileOffset : pc.fileOffset ≤ 18446744073709551615
  records : pc.records ≤ 18446744073709551615
  prototype : PrototypeOK ft fp exts pc.prototype
  cartesian : ∀ b, pc.cartesianBounds = some b → ∀ o ∈ CartesianBounds.floats b, ∀ v, o = some v → F64OK ft fp v
  spherical : ∀ b, pc.sphericalBounds = some b → ∀ o ∈ SphericalBounds.floats b, ∀ v, o = some v → F64OK ft fp v
  index : ∀ b, pc.indexBounds = some b → ∀ o ∈ IndexBounds.ints b, ∀ v, o = some v → InI64 v
  intensity : ∀ l, pc.intensityLimits = some l → ∀ o ∈ IntensityLimits.values l, ∀ v, o = some v → ValueOK ft fp v
  color : ∀ l, pc.colorLimits = some l → ∀ o ∈ ColorLimits.values l, ∀ v, o = some v → ValueOK ft fp v
  transform : ∀ t, pc.transform = some t → ∀ v ∈ Transform.floats t, F64OK ft fp v
  acquisitionStart : ∀ d, pc.acquisitionStart = some d → F64OK ft fp d.gpsTime
  acquisitionEnd : ∀ d, pc.acquisitionEnd = some d → F64OK ft fp d.gpsTime
  temperature : ∀ v, pc.temperature = some v → F64OK ft fp v
  humidity : ∀ v, pc.humidity = some v → F64OK ft fp v
  atmosphericPressure : ∀ v, pc.atmosphericPressure = some v → F64OK ft fp v

theorem Option.filter_eq_some' {α} {p : α → Bool} {o : Option α} {a : α} (h : o.filter p = some a) : o = some a := by
  cases o with
  | none => simp at h
  | some b => simp [Option.filter] at h; simp [h.2]

theorem PointCloud.roundtrip_partial (ft fp exts) (pc : PointCloud) (ok : PointCloud.OK ft fp exts pc) :
    E57.PointCloud.fromNode fp (PointCloud.tree ft exts pc) = some (PointCloud.stored pc) := by
  have hs (t : String) (o : Option String)
      (hf : (PointCloud.tree ft exts pc).findChild t = o.map (genStringTree (e57Prefix exts) t)) :
      optString (PointCloud.tree ft exts pc) t = some o := optString_of_find hf
  have hf64 (t : String) (o : Option UInt64)
      (hf : (PointCloud.tree ft exts pc).findChild t = o.map (genFloatTree ft (e57Prefix exts) t))
      (h : ∀ v, o = some v → F64OK ft fp v) :
      optF64 fp (PointCloud.tree ft exts pc) t = some o := optF64_of_find hf h
  have q1 := hs "guid" pc.guid (by find_tag [PointCloud.tree])
  have q2 := hs "name" pc.name (by find_tag [PointCloud.tree])
  have q3 := hs "description" pc.description (by find_tag [PointCloud.tree])
  have q4 := hs "sensorModel" pc.sensorModel (by find_tag [PointCloud.tree])
  have q5 := hs "sensorVendor" pc.sensorVendor (by find_tag [PointCloud.tree])
  have q6 := hs "sensorSerialNumber" pc.sensorSerial (by find_tag [PointCloud.tree])
  have q7 := hs "sensorHardwareVersion" pc.sensorHwVersion (by find_tag [PointCloud.tree])
  have q8 := hs "sensorSoftwareVersion" pc.sensorSwVersion (by find_tag [PointCloud.tree])
  have q9 := hs "sensorFirmwareVersion" pc.sensorFwVersion (by find_tag [PointCloud.tree])
  have q10 := hf64 "temperature" pc.temperature (by find_tag [PointCloud.tree]) ok.temperature
  have q11 := hf64 "relativeHumidity" pc.humidity (by find_tag [PointCloud.tree]) ok.humidity
  have q12 := hf64 "atmosphericPressure" pc.atmosphericPressure (by find_tag [PointCloud.tree]) ok.atmosphericPressure
  have q13 : optDateTime fp (PointCloud.tree ft exts pc) "acquisitionStart" = some pc.acquisitionStart :=
    optDateTime_of_find (p0 := e57Prefix exts) (t' := "acquisitionStart") (by find_tag [PointCloud.tree]) ok.acquisitionStart
  have q14 : optDateTime fp (PointCloud.tree ft exts pc) "acquisitionEnd" = some pc.acquisitionEnd :=
    optDateTime_of_find (p0 := e57Prefix exts) (t' := "acquisitionEnd") (by find_tag [PointCloud.tree]) ok.acquisitionEnd
  have q15 : optTransform fp (PointCloud.tree ft exts pc) "pose" = some pc.transform :=
    optTransform_of_find (p0 := e57Prefix exts) (t' := "pose") (by find_tag [PointCloud.tree]) ok.transform
  have q16 : (PointCloud.tree ft exts pc).findChild "originalGuids"
      = pc.originalGuids.map (originalGuidsTree (e57Prefix exts)) := by find_tag [PointCloud.tree]
  have q17 : (PointCloud.tree ft exts pc).children.find?
      (fun n => n.hasTagName "points" && n.attr "type" == some "CompressedVector") = some (pointsTree ft exts pc) := by
    rw [PointCloud.tree, structT, children_el, find?_lines _ rfl]
    simp [List.append_assoc, find?_optT_skip, find?_optT_skip', pointsTree]
  have q18 : (pointsTree ft exts pc).attr "fileOffset" = some (toString pc.fileOffset) := by
    simp [pointsTree, el, attr, tattr, at_]
  have q19 : (pointsTree ft exts pc).attr "recordCount" = some (toString pc.records) := by
    simp [pointsTree, el, attr, tattr, at_]
  have q20 : (pointsTree ft exts pc).children.find?
      (fun n => n.hasTagName "prototype" && n.attr "type" == some "Structure")
      = some (structT (e57Prefix exts) "prototype" (pc.prototype.map (Record.tree ft exts))) := by
    rw [pointsTree, children_el, find?_lines _ rfl]
    simp [structT]
  have q21 : optNode (PointCloud.tree ft exts pc) "cartesianBounds" (E57.CartesianBounds.fromNode fp)
      = some pc.cartesianBounds :=
    optNode_of_find (f := CartesianBounds.tree ft (e57Prefix exts)) (by find_tag [PointCloud.tree])
      (fun b hb => CartesianBounds.roundtrip ft fp _ b (ok.cartesian b hb))
  have q22 : optNode (PointCloud.tree ft exts pc) "sphericalBounds" (E57.SphericalBounds.fromNode fp)
      = some pc.sphericalBounds :=
    optNode_of_find (f := SphericalBounds.tree ft (e57Prefix exts)) (by find_tag [PointCloud.tree])
      (fun b hb => SphericalBounds.roundtrip ft fp _ b (ok.spherical b hb))
  have q23 : optNode (PointCloud.tree ft exts pc) "indexBounds" E57.IndexBounds.fromNode
      = some pc.indexBounds :=
    optNode_of_find (f := IndexBounds.tree (e57Prefix exts)) (by find_tag [PointCloud.tree])
      (fun b hb => IndexBounds.roundtrip _ b (ok.index b hb))
  have q24 : optNode (PointCloud.tree ft exts pc) "intensityLimits" (E57.IntensityLimits.fromNode fp)
      = some (pc.intensityLimits.filter IntensityLimits.complete) :=
    optNode_of_find (f := IntensityLimits.tree ft (e57Prefix exts)) (by find_tag [PointCloud.tree])
      (fun l hl => IntensityLimits.roundtrip ft fp _ l (ok.intensity l (Option.filter_eq_some' hl)))
  have q25 : optNode (PointCloud.tree ft exts pc) "colorLimits" (E57.ColorLimits.fromNode fp)
      = some (pc.colorLimits.filter ColorLimits.complete) :=
    optNode_of_find (f := ColorLimits.tree ft (e57Prefix exts)) (by find_tag [PointCloud.tree])
      (fun l hl => ColorLimits.roundtrip ft fp _ l (ok.color l (Option.filter_eq_some' hl)))
  have q26 := prototype_roundtrip ft fp exts (e57Prefix exts) pc.prototype ok.prototype
  have q27 := parseU64_toString pc.fileOffset ok.fileOffset
  have q28 := parseU64_toString pc.records ok.records
  simp only [E57.PointCloud.fromNode, q1, q2, q3, q4, q5, q6, q7, q8, q9, q10, q11, q12, q13, q14, q15, q16, q17, q18,
    q19, q20, q21, q22, q23, q24, q25, q26, q27, q28, Option.bind_eq_bind, Option.bind_some, Option.pure_def,
    Option.map_map, PointCloud.stored]
  cases hog : pc.originalGuids <;> simp [originalGuids_read]

/-- with complete (or absent) limits the point cloud metadata survives exactly -/
theorem PointCloud.roundtrip (ft fp exts) (pc : PointCloud) (ok : PointCloud.OK ft fp exts pc)
    (hi : ∀ l, pc.intensityLimits = some l → l.complete = true)
    (hc : ∀ l, pc.colorLimits = some l → l.complete = true) :
    E57.PointCloud.fromNode fp (PointCloud.tree ft exts pc) = some pc := by
  rw [PointCloud.roundtrip_partial ft fp exts pc ok]
  have e1 : pc.intensityLimits.filter IntensityLimits.complete = pc.intensityLimits := by
    cases h : pc.intensityLimits with
    | none => rfl
    | some l => simp [Option.filter, hi l h]
  have e2 : pc.colorLimits.filter ColorLimits.complete = pc.colorLimits := by
    cases h : pc.colorLimits with
    | none => rfl
    | some l => simp [Option.filter, hc l h]
  simp [PointCloud.stored, e1, e2]

/-- the naive statement: every point cloud whose values are printable comes back unchanged -/
def PointCloud.roundtrip_statement : Prop :=
  ∀ (ft : FloatText) (fp : FloatParse) (exts : List (String × String)) (pc : PointCloud),
    PointCloud.OK ft fp exts pc → E57.PointCloud.fromNode fp (PointCloud.tree ft exts pc) = some pc

/-- incomplete limits are not stored: a lone intensity minimum set by the caller is gone after reading -/
theorem PointCloud.roundtrip_statement_false : ¬ PointCloud.roundtrip_statement := by
  intro h
  let pc : PointCloud := { intensityLimits := some ⟨some (.integer 0), none⟩ }
  have ok : PointCloud.OK ⟨[], []⟩ ⟨[]⟩ [] pc := by
    refine ⟨by decide, by decide, by intro r hr; simp [pc] at hr, ?_, ?_, ?_, ?_, ?_, ?_, ?_, ?_, ?_, ?_, ?_⟩ <;>
      simp [pc, IntensityLimits.values, ValueOK, InI64, i64Min, i64Max]
  have h1 := h _ _ _ pc ok
  rw [PointCloud.roundtrip_partial _ _ _ pc ok] at h1
  simp [PointCloud.stored, pc, Option.filter, IntensityLimits.complete] at h1

/-! ## 7. images -/

def BlobOK (b : BlobRef) : Prop := b.offset ≤ 18446744073709551615 ∧ b.length ≤ 18446744073709551615

instance (b : BlobRef) : Decidable (BlobOK b) := by unfold BlobOK; exact inferInstance

theorem BlobRef.roundtrip (p0) (b : BlobRef) (tag : String) (h : BlobOK b) :
    E57.BlobRef.fromNode (BlobRef.tree p0 b tag) = some b := by
  have h1 := parseU64_toString _ h.1
  have h2 := parseU64_toString _ h.2
  simp only [Nat.toString_eq_repr] at h1 h2
  simp [E57.BlobRef.fromNode, BlobRef.tree, el, attr, tattr, at_, h1, h2]

@[simp] theorem hasTagName_BlobRef_tree (p0 b tag t) : (BlobRef.tree p0 b tag).hasTagName t = (tag == t) := by
  simp [BlobRef.tree]

theorem imageBlob_read (p0 tag) (b : ImageBlob) (rest : List XNode) (hb : BlobOK b.data)
    (h1 : rest.find? (fun c => c.hasTagName "jpegImage") = none)
    (h2 : rest.find? (fun c => c.hasTagName "pngImage") = none) :
    ImageBlob.fromRepNode (structT p0 tag (ImageBlob.tree p0 b :: rest)) = some b := by
  obtain ⟨d, f⟩ := b
  cases f <;>
    simp [ImageBlob.fromRepNode, ImageBlob.tree, h1, h2, BlobRef.roundtrip p0 d _ hb]

theorem mask_read (p0) {n : XNode} {m : Option BlobRef}
    (h : n.findChild "imageMask" = m.map (fun m => BlobRef.tree p0 m "imageMask"))
    (hm : ∀ b, m = some b → BlobOK b) : maskOf n = some m :=
  optNode_of_find h (fun b hb => BlobRef.roundtrip p0 b _ (hm b hb))

/-- image dimensions are `u32` in the crate -/
def DimOK (n : Nat) : Prop := n ≤ 4294967295

instance (n : Nat) : Decidable (DimOK n) := by unfold DimOK; exact inferInstance

structure VisualRef.OK (v : VisualRef) : Prop where
  blob : BlobOK v.blob.data
  mask : ∀ b, v.mask = some b → BlobOK b
  width : DimOK v.width
  height : DimOK v.height

theorem VisualRef.roundtrip (p0) (v : VisualRef) (ok : VisualRef.OK v) :
    E57.VisualRef.fromNode (VisualRef.tree p0 v) = some v := by
  have q1 : ImageBlob.fromRepNode (VisualRef.tree p0 v) = some v.blob := by
    simp only [VisualRef.tree, List.cons_append, List.nil_append]
    exact imageBlob_read p0 _ v.blob _ ok.blob (by find_tag) (by find_tag)
  have q2 : maskOf (VisualRef.tree p0 v) = some v.mask :=
    mask_read p0 (by cases hb : v.blob.format <;> find_tag [VisualRef.tree, ImageBlob.tree, hb]) ok.mask
  have q3 : reqU32 (VisualRef.tree p0 v) "imageWidth" = some v.width :=
    reqU32_of_find (p0 := p0) (t' := "imageWidth")
      (by cases hb : v.blob.format <;> find_tag [VisualRef.tree, ImageBlob.tree, hb]) ok.width
  have q4 : reqU32 (VisualRef.tree p0 v) "imageHeight" = some v.height :=
    reqU32_of_find (p0 := p0) (t' := "imageHeight")
      (by cases hb : v.blob.format <;> find_tag [VisualRef.tree, ImageBlob.tree, hb]) ok.height
  simp [E57.VisualRef.fromNode, q1, q2, q3, q4]

structure Pinhole.OK (ft : FloatText) (fp : FloatParse) (v : Pinhole) : Prop where
  blob : BlobOK v.blob.data
  mask : ∀ b, v.mask = some b → BlobOK b
  width : DimOK v.width
  height : DimOK v.height
  focalLength : F64OK ft fp v.focalLength
  pixelWidth : F64OK ft fp v.pixelWidth
  pixelHeight : F64OK ft fp v.pixelHeight
  principalX : F64OK ft fp v.principalX
  principalY : F64OK ft fp v.principalY

theorem Pinhole.roundtrip (ft fp p0) (v : Pinhole) (ok : Pinhole.OK ft fp v) :
    E57.Pinhole.fromNode fp (Pinhole.tree ft p0 v) = some v := by
  have q1 : ImageBlob.fromRepNode (Pinhole.tree ft p0 v) = some v.blob := by
    simp only [Pinhole.tree, List.cons_append, List.nil_append]
    exact imageBlob_read p0 _ v.blob _ ok.blob (by find_tag [cylRadiusTag]) (by find_tag [cylRadiusTag])
  have q2 : maskOf (Pinhole.tree ft p0 v) = some v.mask :=
    mask_read p0 (by cases hb : v.blob.format <;> find_tag [Pinhole.tree, ImageBlob.tree, hb, cylRadiusTag]) ok.mask
  have q3 : reqU32 (Pinhole.tree ft p0 v) "imageWidth" = some v.width :=
    reqU32_of_find (p0 := p0) (t' := "imageWidth")
      (by cases hb : v.blob.format <;> find_tag [Pinhole.tree, ImageBlob.tree, hb, cylRadiusTag]) ok.width
  have q4 : reqU32 (Pinhole.tree ft p0 v) "imageHeight" = some v.height :=
    reqU32_of_find (p0 := p0) (t' := "imageHeight")
      (by cases hb : v.blob.format <;> find_tag [Pinhole.tree, ImageBlob.tree, hb, cylRadiusTag]) ok.height
  have f0 : reqF64 fp (Pinhole.tree ft p0 v) "focalLength" = some v.focalLength :=
    reqF64_of_find (p0 := p0) (t' := "focalLength")
      (by cases hb : v.blob.format <;> find_tag [Pinhole.tree, ImageBlob.tree, hb, cylRadiusTag]) ok.focalLength
  have f1 : reqF64 fp (Pinhole.tree ft p0 v) "pixelWidth" = some v.pixelWidth :=
    reqF64_of_find (p0 := p0) (t' := "pixelWidth")
      (by cases hb : v.blob.format <;> find_tag [Pinhole.tree, ImageBlob.tree, hb, cylRadiusTag]) ok.pixelWidth
  have f2 : reqF64 fp (Pinhole.tree ft p0 v) "pixelHeight" = some v.pixelHeight :=
    reqF64_of_find (p0 := p0) (t' := "pixelHeight")
      (by cases hb : v.blob.format <;> find_tag [Pinhole.tree, ImageBlob.tree, hb, cylRadiusTag]) ok.pixelHeight
  have f3 : reqF64 fp (Pinhole.tree ft p0 v) "principalPointX" = some v.principalX :=
    reqF64_of_find (p0 := p0) (t' := "principalPointX")
      (by cases hb : v.blob.format <;> find_tag [Pinhole.tree, ImageBlob.tree, hb, cylRadiusTag]) ok.principalX
  have f4 : reqF64 fp (Pinhole.tree ft p0 v) "principalPointY" = some v.principalY :=
    reqF64_of_find (p0 := p0) (t' := "principalPointY")
      (by cases hb : v.blob.format <;> find_tag [Pinhole.tree, ImageBlob.tree, hb, cylRadiusTag]) ok.principalY
  simp [E57.Pinhole.fromNode, q1, q2, q3, q4, f0, f1, f2, f3, f4]

structure SphericalImg.OK (ft : FloatText) (fp : FloatParse) (v : SphericalImg) : Prop where
  blob : BlobOK v.blob.data
  mask : ∀ b, v.mask = some b → BlobOK b
  width : DimOK v.width
  height : DimOK v.height
  pixelWidth : F64OK ft fp v.pixelWidth
  pixelHeight : F64OK ft fp v.pixelHeight

theorem SphericalImg.roundtrip (ft fp p0) (v : SphericalImg) (ok : SphericalImg.OK ft fp v) :
    E57.SphericalImg.fromNode fp (SphericalImg.tree ft p0 v) = some v := by
  have q1 : ImageBlob.fromRepNode (SphericalImg.tree ft p0 v) = some v.blob := by
    simp only [SphericalImg.tree, List.cons_append, List.nil_append]
    exact imageBlob_read p0 _ v.blob _ ok.blob (by find_tag [cylRadiusTag]) (by find_tag [cylRadiusTag])
  have q2 : maskOf (SphericalImg.tree ft p0 v) = some v.mask :=
    mask_read p0 (by cases hb : v.blob.format <;> find_tag [SphericalImg.tree, ImageBlob.tree, hb, cylRadiusTag]) ok.mask
  have q3 : reqU32 (SphericalImg.tree ft p0 v) "imageWidth" = some v.width :=
    reqU32_of_find (p0 := p0) (t' := "imageWidth")
      (by cases hb : v.blob.format <;> find_tag [SphericalImg.tree, ImageBlob.tree, hb, cylRadiusTag]) ok.width
  have q4 : reqU32 (SphericalImg.tree ft p0 v) "imageHeight" = some v.height :=
    reqU32_of_find (p0 := p0) (t' := "imageHeight")
      (by cases hb : v.blob.format <;> find_tag [SphericalImg.tree, ImageBlob.tree, hb, cylRadiusTag]) ok.height
  have f0 : optF64 fp (SphericalImg.tree ft p0 v) "pixelWidth" = some (some v.pixelWidth) :=
    optF64_of_find (ft := ft) (p0 := p0) (t' := "pixelWidth") (o := some v.pixelWidth)
      (by cases hb : v.blob.format <;> find_tag [SphericalImg.tree, ImageBlob.tree, hb, cylRadiusTag])
      (by intro w hw; cases hw; exact ok.pixelWidth)
  have f1 : optF64 fp (SphericalImg.tree ft p0 v) "pixelHeight" = some (some v.pixelHeight) :=
    optF64_of_find (ft := ft) (p0 := p0) (t' := "pixelHeight") (o := some v.pixelHeight)
      (by cases hb : v.blob.format <;> find_tag [SphericalImg.tree, ImageBlob.tree, hb, cylRadiusTag])
      (by intro w hw; cases hw; exact ok.pixelHeight)
  simp [E57.SphericalImg.fromNode, q1, q2, q3, q4, f0, f1]

/-- the cylinder radius is written under the tag the reader looks for -/
theorem cylRadiusTag_is_radius : cylRadiusTag = "radius" := rfl

structure Cylindrical.OK (ft : FloatText) (fp : FloatParse) (v : Cylindrical) : Prop where
  blob : BlobOK v.blob.data
  mask : ∀ b, v.mask = some b → BlobOK b
  width : DimOK v.width
  height : DimOK v.height
  radius : F64OK ft fp v.radius
  principalY : F64OK ft fp v.principalY
  pixelWidth : F64OK ft fp v.pixelWidth
  pixelHeight : F64OK ft fp v.pixelHeight

theorem Cylindrical.roundtrip (ft fp p0) (v : Cylindrical) (ok : Cylindrical.OK ft fp v) :
    E57.Cylindrical.fromNode fp (Cylindrical.tree ft p0 v) = some v := by
  have q1 : ImageBlob.fromRepNode (Cylindrical.tree ft p0 v) = some v.blob := by
    simp only [Cylindrical.tree, List.cons_append, List.nil_append]
    exact imageBlob_read p0 _ v.blob _ ok.blob (by find_tag [cylRadiusTag]) (by find_tag [cylRadiusTag])
  have q2 : maskOf (Cylindrical.tree ft p0 v) = some v.mask :=
    mask_read p0 (by cases hb : v.blob.format <;> find_tag [Cylindrical.tree, ImageBlob.tree, hb, cylRadiusTag]) ok.mask
  have q3 : reqU32 (Cylindrical.tree ft p0 v) "imageWidth" = some v.width :=
    reqU32_of_find (p0 := p0) (t' := "imageWidth")
      (by cases hb : v.blob.format <;> find_tag [Cylindrical.tree, ImageBlob.tree, hb, cylRadiusTag]) ok.width
  have q4 : reqU32 (Cylindrical.tree ft p0 v) "imageHeight" = some v.height :=
    reqU32_of_find (p0 := p0) (t' := "imageHeight")
      (by cases hb : v.blob.format <;> find_tag [Cylindrical.tree, ImageBlob.tree, hb, cylRadiusTag]) ok.height
  have f0 : reqF64 fp (Cylindrical.tree ft p0 v) "radius" = some v.radius :=
    reqF64_of_find (p0 := p0) (t' := "radius")
      (by cases hb : v.blob.format <;> find_tag [Cylindrical.tree, ImageBlob.tree, hb, cylRadiusTag]) ok.radius
  have f1 : reqF64 fp (Cylindrical.tree ft p0 v) "principalPointY" = some v.principalY :=
    reqF64_of_find (p0 := p0) (t' := "principalPointY")
      (by cases hb : v.blob.format <;> find_tag [Cylindrical.tree, ImageBlob.tree, hb, cylRadiusTag]) ok.principalY
  have f2 : reqF64 fp (Cylindrical.tree ft p0 v) "pixelWidth" = some v.pixelWidth :=
    reqF64_of_find (p0 := p0) (t' := "pixelWidth")
      (by cases hb : v.blob.format <;> find_tag [Cylindrical.tree, ImageBlob.tree, hb, cylRadiusTag]) ok.pixelWidth
  have f3 : reqF64 fp (Cylindrical.tree ft p0 v) "pixelHeight" = some v.pixelHeight :=
    reqF64_of_find (p0 := p0) (t' := "pixelHeight")
      (by cases hb : v.blob.format <;> find_tag [Cylindrical.tree, ImageBlob.tree, hb, cylRadiusTag]) ok.pixelHeight
  simp [E57.Cylindrical.fromNode, q1, q2, q3, q4, f0, f1, f2, f3]

theorem optT_some {α β} (a : α) (f : α → β) : optT (some a) f = [f a] := rfl
theorem optT_none {α β} (f : α → β) : optT (none : Option α) f = [] := rfl

def Projection.OK (ft : FloatText) (fp : FloatParse) : Projection → Prop
  | .pinhole p => Pinhole.OK ft fp p
  | .spherical p => SphericalImg.OK ft fp p
  | .cylindrical p => Cylindrical.OK ft fp p

@[simp] theorem hasTagName_VisualRef_tree (p0 v t) :
    (VisualRef.tree p0 v).hasTagName t = ("visualReferenceRepresentation" == t) := by simp [VisualRef.tree]
@[simp] theorem hasTagName_Pinhole_tree (ft p0 v t) :
    (Pinhole.tree ft p0 v).hasTagName t = ("pinholeRepresentation" == t) := by simp [Pinhole.tree]
@[simp] theorem hasTagName_SphericalImg_tree (ft p0 v t) :
    (SphericalImg.tree ft p0 v).hasTagName t = ("sphericalRepresentation" == t) := by simp [SphericalImg.tree]
@[simp] theorem hasTagName_Cylindrical_tree (ft p0 v t) :
    (Cylindrical.tree ft p0 v).hasTagName t = ("cylindricalRepresentation" == t) := by simp [Cylindrical.tree]

structure Image.OK (ft : FloatText) (fp : FloatParse) (i : Image) : Prop where
  visualReference : ∀ v, i.visualReference = some v → VisualRef.OK v
  projection : ∀ p, i.projection = some p → Projection.OK ft fp p
  transform : ∀ t, i.transform = some t → ∀ v ∈ Transform.floats t, F64OK ft fp v
  acquisition : ∀ d, i.acquisition = some d → F64OK ft fp d.gpsTime

/-- every representation kind with all its properties and its mask, and all other image metadata -/
theorem Image.roundtrip (ft fp p0) (i : Image) (ok : Image.OK ft fp i) :
    E57.Image.fromNode fp (Image.tree ft p0 i) = some i := by
  have hs (t : String) (o : Option String)
      (hf : (Image.tree ft p0 i).findChild t = o.map (genStringTree p0 t)) :
      optString (Image.tree ft p0 i) t = some o := optString_of_find hf
  have q10 : Projection.fromImageNode fp (Image.tree ft p0 i) = some i.projection := by
    cases hp : i.projection with
    | none =>
      simp [Projection.fromImageNode, Image.tree, List.append_assoc, find?_optT_skip, find?_optT_skip', hp, optT_none]
    | some p =>
      have okp' := ok.projection p hp
      cases p with
      | pinhole x =>
        simp [Projection.fromImageNode, Image.tree, List.append_assoc, find?_optT_skip, find?_optT_skip', hp, optT_some,
          Projection.tree, Pinhole.roundtrip ft fp p0 x okp']
      | spherical x =>
        simp [Projection.fromImageNode, Image.tree, List.append_assoc, find?_optT_skip, find?_optT_skip', hp, optT_some,
          Projection.tree, SphericalImg.roundtrip ft fp p0 x okp']
      | cylindrical x =>
        simp [Projection.fromImageNode, Image.tree, List.append_assoc, find?_optT_skip, find?_optT_skip', hp, optT_some,
          Projection.tree, Cylindrical.roundtrip ft fp p0 x okp']
  have hproj (t : String) (h1 : ("pinholeRepresentation" == t) = false) (h2 : ("sphericalRepresentation" == t) = false)
      (h3 : ("cylindricalRepresentation" == t) = false) (rest : List XNode) :
      (optT i.projection (Projection.tree ft p0) ++ rest).find? (fun c => c.hasTagName t)
        = rest.find? (fun c => c.hasTagName t) := by
    apply find?_optT_skip
    intro a; cases a <;> simp [Projection.tree, h1, h2, h3]
  have fc (t : String) (h1 : ("pinholeRepresentation" == t) = false) (h2 : ("sphericalRepresentation" == t) = false)
      (h3 : ("cylindricalRepresentation" == t) = false) :
      (Image.tree ft p0 i).findChild t =
        (optT i.guid (genStringTree p0 "guid")
         ++ (optT i.visualReference (VisualRef.tree p0)
         ++ (optT i.transform (fun t => Transform.tree ft p0 t "pose")
         ++ (optT i.pointcloudGuid (genStringTree p0 "associatedData3DGuid")
         ++ (optT i.name (genStringTree p0 "name")
         ++ (optT i.description (genStringTree p0 "description")
         ++ (optT i.acquisition (fun d => DateTime.tree ft p0 d "acquisitionDateTime")
         ++ (optT i.sensorVendor (genStringTree p0 "sensorVendor")
         ++ (optT i.sensorModel (genStringTree p0 "sensorModel")
         ++ optT i.sensorSerial (genStringTree p0 "sensorSerialNumber")))))))))).find? (fun c => c.hasTagName t) := by
    simp only [Image.tree, findChild_structT, List.append_assoc]
    rw [List.find?_append, List.find?_append (xs := optT i.visualReference _), hproj t h1 h2 h3,
      ← List.find?_append, ← List.find?_append]
  have q1 := hs "guid" i.guid (by rw [fc _ (by decide) (by decide) (by decide)]; find_tag)
  have q2 := hs "associatedData3DGuid" i.pointcloudGuid (by rw [fc _ (by decide) (by decide) (by decide)]; find_tag)
  have q3 : optTransform fp (Image.tree ft p0 i) "pose" = some i.transform :=
    optTransform_of_find (p0 := p0) (t' := "pose") (by rw [fc _ (by decide) (by decide) (by decide)]; find_tag) ok.transform
  have q4 := hs "name" i.name (by rw [fc _ (by decide) (by decide) (by decide)]; find_tag)
  have q5 := hs "description" i.description (by rw [fc _ (by decide) (by decide) (by decide)]; find_tag)
  have q6 := hs "sensorModel" i.sensorModel (by rw [fc _ (by decide) (by decide) (by decide)]; find_tag)
  have q7 := hs "sensorVendor" i.sensorVendor (by rw [fc _ (by decide) (by decide) (by decide)]; find_tag)
  have q8 := hs "sensorSerialNumber" i.sensorSerial (by rw [fc _ (by decide) (by decide) (by decide)]; find_tag)
  have q9 : optDateTime fp (Image.tree ft p0 i) "acquisitionDateTime" = some i.acquisition :=
    optDateTime_of_find (p0 := p0) (t' := "acquisitionDateTime")
      (by rw [fc _ (by decide) (by decide) (by decide)]; find_tag) ok.acquisition
  have q11 : optNode (Image.tree ft p0 i) "visualReferenceRepresentation" E57.VisualRef.fromNode
      = some i.visualReference :=
    optNode_of_find (f := VisualRef.tree p0) (by rw [fc _ (by decide) (by decide) (by decide)]; find_tag)
      (fun v hv => VisualRef.roundtrip p0 v (ok.visualReference v hv))
  simp only [E57.Image.fromNode, q1, q2, q3, q4, q5, q6, q7, q8, q9, q10, q11, Option.bind_eq_bind, Option.bind_some,
    Option.pure_def]

/-! ## 8. the document: root, point clouds, images, extensions -/

mutual
/-- some node at or below `n` answers to the tag `t` -/
def hasTagDeep (t : String) : XNode → Bool
  | .elem ns p name attrs cs => (XNode.elem ns p name attrs cs).hasTagName t || hasTagDeepList t cs
  | _ => false
def hasTagDeepList (t : String) : List XNode → Bool
  | [] => false
  | c :: cs => hasTagDeep t c || hasTagDeepList t cs
end

mutual
theorem find?_descendants_none (t : String) : ∀ n : XNode, hasTagDeep t n = false →
    (descendants n).find? (fun c => c.hasTagName t) = none
  | .elem ns p name attrs cs, h => by
    simp only [hasTagDeep, Bool.or_eq_false_iff] at h
    simp only [descendants, List.find?_cons, h.1]
    exact find?_descendantsList_none t cs h.2
  | .text s, _ => by simp [descendants]
  | .comment, _ => by simp [descendants, hasTagName]
  | .pi, _ => by simp [descendants, hasTagName]
theorem find?_descendantsList_none (t : String) : ∀ cs : List XNode, hasTagDeepList t cs = false →
    (descendantsList cs).find? (fun c => c.hasTagName t) = none
  | [], _ => by simp [descendantsList]
  | c :: cs, h => by
    simp only [hasTagDeepList, Bool.or_eq_false_iff] at h
    simp only [descendantsList, List.find?_append, find?_descendants_none t c h.1,
      find?_descendantsList_none t cs h.2, Option.or_none]
end

theorem hasTagDeepList_sep (t : String) (kids : List XNode) :
    hasTagDeepList t (sep kids) = kids.any (hasTagDeep t) := by
  induction kids with
  | nil => rfl
  | cons k ks ih => simp [sep, hasTagDeepList, nl, hasTagDeep, ih]

theorem hasTagDeepList_lines (t : String) (kids : List XNode) :
    hasTagDeepList t (lines kids) = kids.any (hasTagDeep t) := by
  simp [lines, hasTagDeepList, nl, hasTagDeep, hasTagDeepList_sep]

@[simp] theorem hasTagDeep_el_lines (t p0 n attrs kids) :
    hasTagDeep t (el p0 n attrs (lines kids)) = ((n == t) || kids.any (hasTagDeep t)) := by
  rw [el, hasTagDeep, ← el, hasTagName_el, hasTagDeepList_lines]

@[simp] theorem hasTagDeep_el_text (t p0 n attrs s) : hasTagDeep t (el p0 n attrs [.text s]) = (n == t) := by
  rw [el, hasTagDeep, ← el, hasTagName_el]; simp [hasTagDeepList, hasTagDeep]

@[simp] theorem hasTagDeep_el_nil (t p0 n attrs) : hasTagDeep t (el p0 n attrs []) = (n == t) := by
  rw [el, hasTagDeep, ← el, hasTagName_el]; simp [hasTagDeepList]

/-- the first descendant with tag `t` of a container is the child `x` when nothing in the children before
    it answers to `t` -/
theorem findDescendant_lines_hit (t p0 n attrs) (pre : List XNode) (x : XNode) (post : List XNode)
    (hn : (n == t) = false) (hpre : pre.any (hasTagDeep t) = false) (hx : x.hasTagName t = true) :
    (el p0 n attrs (lines (pre ++ x :: post))).findDescendant t = some x := by
  have hsep : ∀ pre : List XNode, pre.any (hasTagDeep t) = false →
      (descendantsList (sep (pre ++ x :: post))).find? (fun c => c.hasTagName t) = some x := by
    intro pre
    induction pre with
    | nil =>
      intro _
      cases x with
      | elem ns p name as cs => simp [sep, descendantsList, descendants, List.find?_cons, hx]
      | _ => simp [hasTagName] at hx
    | cons k ks ih =>
      intro h
      simp only [List.any_cons, Bool.or_eq_false_iff] at h
      simp only [List.cons_append, sep, descendantsList, List.find?_append, find?_descendants_none t k h.1,
        Option.none_or, ih h.2]
      simp [nl, descendants]
  simp only [findDescendant, el, descendants, List.find?_cons, lines, descendantsList, nl, List.cons_append,
    List.nil_append]
  have h0 : (XNode.elem (some e57NsUri) p0 n attrs (XNode.text "\n" :: sep (pre ++ x :: post))).hasTagName t = false := by
    rw [← nl, ← lines, ← el, hasTagName_el]; exact hn
  simp [h0, hsep pre hpre]

theorem any_optT_append {α} (o : Option α) (f : α → XNode) (p : XNode → Bool) (rest : List XNode)
    (h : ∀ a, p (f a) = false) : (optT o f ++ rest).any p = rest.any p := by
  cases o <;> simp [optT, h]

theorem any_optT {α} (o : Option α) (f : α → XNode) (p : XNode → Bool)
    (h : ∀ a, p (f a) = false) : (optT o f).any p = false := by
  cases o <;> simp [optT, h]

@[simp] theorem hasTagDeep_genStringTree (t p0 tag v) : hasTagDeep t (genStringTree p0 tag v) = (tag == t) := by
  simp [genStringTree]
@[simp] theorem hasTagDeep_genIntTree (t p0 tag v) : hasTagDeep t (genIntTree p0 tag v) = (tag == t) := by
  simp [genIntTree]
@[simp] theorem hasTagDeep_genFloatTree (t ft p0 tag v) : hasTagDeep t (genFloatTree ft p0 tag v) = (tag == t) := by
  simp [genFloatTree]
@[simp] theorem hasTagDeep_structT (t p0 tag kids) :
    hasTagDeep t (structT p0 tag kids) = ((tag == t) || kids.any (hasTagDeep t)) := by simp [structT]

@[simp] theorem hasTagName_vectorT (p0 tag kids t) : (vectorT p0 tag kids).hasTagName t = (tag == t) := by
  simp [vectorT]
@[simp] theorem hasTagDeep_vectorT (t p0 tag kids) :
    hasTagDeep t (vectorT p0 tag kids) = ((tag == t) || kids.any (hasTagDeep t)) := by simp [vectorT]

theorem hasTagDeep_DateTime_tree (t ft p0 d tag) (h1 : (tag == t) = false) (h2 : ("dateTimeValue" == t) = false)
    (h3 : ("isAtomicClockReferenced" == t) = false) : hasTagDeep t (DateTime.tree ft p0 d tag) = false := by
  simp [DateTime.tree, h1, h2, h3]

/-- what the reader's root record is for the document the writer emits (the reader takes the minor
    version from `versionMajor`, as the crate does) -/
theorem root_roundtrip (ft fp) (root : Root) (pcs imgs exts) (doc : XDoc)
    (hdoc : rootDoc ft root pcs imgs exts = some doc)
    (hcr : ∀ d, root.creation = some d → F64OK ft fp d.gpsTime) :
    ∃ r, rootFromDocument fp doc = some r ∧ r.format = "ASTM E57 3D Imaging Data File" ∧ r.guid = root.guid ∧
      r.major = 1 ∧ r.libraryVersion = root.libraryVersion ∧ r.creation = root.creation ∧
      r.coordinateMetadata = root.coordinateMetadata := by
  simp only [rootDoc] at hdoc
  split at hdoc
  · simp at hdoc
  · injection hdoc with hdoc
    subst hdoc
    have hroot : XDoc.findDescendant ⟨rootTree ft root pcs imgs exts, rootNamespaces exts⟩ "e57Root"
        = some (rootTree ft root pcs imgs exts) := by
      simp [XDoc.findDescendant, findDescendant, rootTree, structT, el, descendants, hasTagName]
    have q1 : reqString (rootTree ft root pcs imgs exts) "formatName" = some "ASTM E57 3D Imaging Data File" := by
      simp [reqString, optString_of_find (n := rootTree ft root pcs imgs exts) (t := "formatName") (t' := "formatName")
        (p0 := e57Prefix exts) (o := some "ASTM E57 3D Imaging Data File") (by simp [rootTree])]
    have q2 : reqString (rootTree ft root pcs imgs exts) "guid" = some root.guid := by
      simp [reqString, optString_of_find (n := rootTree ft root pcs imgs exts) (t := "guid") (t' := "guid")
        (p0 := e57Prefix exts) (o := some root.guid) (by simp [rootTree])]
    have q3 : reqI64 (rootTree ft root pcs imgs exts) "versionMajor" = some 1 := by
      simp [reqI64, optI64_of_find (n := rootTree ft root pcs imgs exts) (t := "versionMajor") (t' := "versionMajor")
        (p0 := e57Prefix exts) (o := some 1) (by simp [rootTree]) (by intro v hv; cases hv; simp [InI64, i64Min, i64Max])]
    have q4 : optDateTime fp (rootTree ft root pcs imgs exts) "creationDateTime" = some root.creation :=
      optDateTime_of_find (p0 := e57Prefix exts) (t' := "creationDateTime") (by find_tag [rootTree]) hcr
    have q5 : optString (rootTree ft root pcs imgs exts) "coordinateMetadata" = some root.coordinateMetadata :=
      optString_of_find (p0 := e57Prefix exts) (t' := "coordinateMetadata") (by find_tag [rootTree])
    have q6 : optString (rootTree ft root pcs imgs exts) "e57LibraryVersion" = some root.libraryVersion :=
      optString_of_find (p0 := e57Prefix exts) (t' := "e57LibraryVersion") (by find_tag [rootTree])
    simp [rootFromDocument, hroot, q1, q2, q3, q4, q5, q6]

@[simp] theorem hasTagDeep_recordValueTree (t ft p0 tag v) :
    hasTagDeep t (recordValueTree ft p0 tag v) = (tag == t) := by
  cases v <;> simp [recordValueTree]

theorem hasTagDeep_Record_tree (t ft exts r) :
    hasTagDeep t (Record.tree ft exts r) = (Record.tree ft exts r).hasTagName t := by
  simp [Record.tree, hasTagDeep, hasTagDeepList]

/-- nothing in a point cloud answers to `images2D`, except possibly a prototype record -/
theorem hasTagDeep_images2D_PointCloud_tree (ft exts pc) :
    hasTagDeep "images2D" (PointCloud.tree ft exts pc)
      = pc.prototype.any (fun r => (Record.tree ft exts r).hasTagName "images2D") := by
  simp [PointCloud.tree, pointsTree, originalGuidsTree, CartesianBounds.tree, SphericalBounds.tree, IndexBounds.tree,
    IntensityLimits.tree, ColorLimits.tree, Transform.tree, DateTime.tree, List.append_assoc, any_optT_append,
    any_optT, List.any_map, Function.comp_def, hasTagDeep_Record_tree]

theorem vectorChildren_vectorT (p0 tag) (kids : List XNode)
    (h : ∀ k ∈ kids, (k.hasTagName "vectorChild" && k.attr "type" == some "Structure") = true) :
    vectorChildren (vectorT p0 tag kids) = kids := by
  have hs : ∀ kids : List XNode, (∀ k ∈ kids, (k.hasTagName "vectorChild" && k.attr "type" == some "Structure") = true) →
      (sep kids).filter (fun n => n.hasTagName "vectorChild" && n.attr "type" == some "Structure") = kids := by
    intro kids
    induction kids with
    | nil => intro _; rfl
    | cons k ks ih =>
      intro h
      have hk := h k (by simp)
      have hn : (nl.hasTagName "vectorChild" && nl.attr "type" == some "Structure") = false := rfl
      simp only [sep, List.filter_cons, hk, hn, if_true, ih (fun k hk => h k (by simp [hk]))]
      simp
  have hn : (nl.hasTagName "vectorChild" && nl.attr "type" == some "Structure") = false := rfl
  simp only [vectorChildren, vectorT, children_el, lines, List.filter_cons, hn, hs kids h]
  simp

theorem mapM_fromNode {α} (f : XNode → Option α) (tree : α → XNode) (g : α → α) (l : List α)
    (h : ∀ a ∈ l, f (tree a) = some (g a)) : (l.map tree).mapM f = some (l.map g) := by
  induction l with
  | nil => rfl
  | cons a as ih =>
    rw [List.map_cons, List.mapM_cons]
    simp only [h a (by simp), ih (fun b hb => h b (by simp [hb]))]
    rfl

/-- the children of the root element before `data3D` -/
def rootHead (ft : FloatText) (root : Root) (p0 : Option String) : List XNode :=
  [genStringTree p0 "formatName" "ASTM E57 3D Imaging Data File", genStringTree p0 "guid" root.guid,
   genIntTree p0 "versionMajor" 1, genIntTree p0 "versionMinor" 0]
  ++ optT root.coordinateMetadata (genStringTree p0 "coordinateMetadata")
  ++ optT root.libraryVersion (genStringTree p0 "e57LibraryVersion")
  ++ optT root.creation (fun d => DateTime.tree ft p0 d "creationDateTime")

theorem rootTree_eq (ft root pcs imgs exts) :
    rootTree ft root pcs imgs exts = el (e57Prefix exts) "e57Root" [tattr "Structure"]
      (lines (rootHead ft root (e57Prefix exts) ++ vectorT (e57Prefix exts) "data3D" (pcs.map (PointCloud.tree ft exts))
        :: [vectorT (e57Prefix exts) "images2D" (imgs.map (Image.tree ft (e57Prefix exts)))])) := by
  simp [rootTree, structT, rootHead, List.append_assoc]

theorem rootHead_noTag (ft root p0) (t : String) (h : t = "data3D" ∨ t = "images2D") :
    (rootHead ft root p0).any (hasTagDeep t) = false := by
  rcases h with rfl | rfl <;>
    simp [rootHead, List.append_assoc, any_optT_append, any_optT, DateTime.tree]

/-- all point clouds of the file, in order -/
theorem pointclouds_roundtrip_partial (ft fp) (root : Root) (pcs imgs exts) (doc : XDoc)
    (hdoc : rootDoc ft root pcs imgs exts = some doc)
    (ok : ∀ pc ∈ pcs, PointCloud.OK ft fp exts pc) :
    pointcloudsFromDocument fp doc = some (pcs.map PointCloud.stored) := by
  simp only [rootDoc] at hdoc
  split at hdoc
  · simp at hdoc
  · injection hdoc with hdoc
    subst hdoc
    have hfd : XDoc.findDescendant ⟨rootTree ft root pcs imgs exts, rootNamespaces exts⟩ "data3D"
        = some (vectorT (e57Prefix exts) "data3D" (pcs.map (PointCloud.tree ft exts))) := by
      rw [XDoc.findDescendant, rootTree_eq]
      exact findDescendant_lines_hit _ _ _ _ _ _ _ (by decide) (rootHead_noTag ft root _ _ (Or.inl rfl)) (by simp)
    rw [pointcloudsFromDocument, hfd]
    simp only
    rw [vectorChildren_vectorT _ _ _ (by
      intro k hk
      obtain ⟨pc, _, rfl⟩ := List.mem_map.mp hk
      simp [PointCloud.tree, structT])]
    exact mapM_fromNode _ _ _ pcs (fun pc hpc => PointCloud.roundtrip_partial ft fp exts pc (ok pc hpc))

/-- no prototype record shadows the `images2D` element: a record shadows it when its local name is
    `images2D` AND it is in the E57 namespace (its extension was registered with the E57 URL) -/
def NoImagesShadow (ft : FloatText) (exts : List (String × String)) (pcs : List PointCloud) : Prop :=
  ∀ pc ∈ pcs, ∀ r ∈ pc.prototype, (Record.tree ft exts r).hasTagName "images2D" = false

theorem NoImagesShadow_of_names (ft exts pcs)
    (h : ∀ pc ∈ pcs, ∀ r ∈ pc.prototype, r.name.tagName ≠ "images2D") : NoImagesShadow ft exts pcs := by
  intro pc hpc r hr
  have := h pc hpc r hr
  simp [Record.tree, hasTagName, this]

/-- all images of the file, in order -/
theorem images_roundtrip (ft fp) (root : Root) (pcs imgs exts) (doc : XDoc)
    (hdoc : rootDoc ft root pcs imgs exts = some doc)
    (hsh : NoImagesShadow ft exts pcs)
    (ok : ∀ i ∈ imgs, Image.OK ft fp i) :
    imagesFromDocument fp doc = some imgs := by
  simp only [rootDoc] at hdoc
  split at hdoc
  · simp at hdoc
  · injection hdoc with hdoc
    subst hdoc
    have hfd : XDoc.findDescendant ⟨rootTree ft root pcs imgs exts, rootNamespaces exts⟩ "images2D"
        = some (vectorT (e57Prefix exts) "images2D" (imgs.map (Image.tree ft (e57Prefix exts)))) := by
      rw [XDoc.findDescendant, rootTree_eq]
      have := findDescendant_lines_hit "images2D" (e57Prefix exts) "e57Root" [tattr "Structure"]
        (rootHead ft root (e57Prefix exts) ++ [vectorT (e57Prefix exts) "data3D" (pcs.map (PointCloud.tree ft exts))])
        (vectorT (e57Prefix exts) "images2D" (imgs.map (Image.tree ft (e57Prefix exts)))) [] (by decide)
        (by
          rw [List.any_append, rootHead_noTag ft root _ _ (Or.inr rfl)]
          simp only [List.any_cons, List.any_nil, Bool.or_false, Bool.false_or, hasTagDeep_vectorT, List.any_map]
          simp only [Function.comp_def, hasTagDeep_images2D_PointCloud_tree]
          simp only [show ("data3D" == "images2D") = false by decide, Bool.false_or, List.any_eq_false]
          intro pc hpc
          simp only [Bool.not_eq_true, List.any_eq_false]
          intro r hr
          simpa using hsh pc hpc r hr) (by simp)
      simpa [List.append_assoc] using this
    rw [imagesFromDocument, hfd]
    simp only
    rw [vectorChildren_vectorT _ _ _ (by
      intro k hk
      obtain ⟨i, _, rfl⟩ := List.mem_map.mp hk
      simp [Image.tree, structT])]
    have := mapM_fromNode (E57.Image.fromNode fp) (Image.tree ft (e57Prefix exts)) id imgs
      (fun i hi => Image.roundtrip ft fp _ i (ok i hi))
    simpa using this

/-! ## 9. extensions -/

/-- the registered extensions come back in order, except those registered with the E57 namespace URL -/
theorem extensions_roundtrip_partial (ft) (root : Root) (pcs imgs exts) (doc : XDoc)
    (hdoc : rootDoc ft root pcs imgs exts = some doc) :
    extensionsFromDocument doc = exts.filter (fun e => e.2 != e57Namespace) := by
  simp only [rootDoc] at hdoc
  split at hdoc
  · simp at hdoc
  · injection hdoc with hdoc
    subst hdoc
    simp only [extensionsFromDocument, rootNamespaces, List.filterMap_append]
    have h2 : [((none : Option String), e57NsUri)].filterMap (fun x : Option String × String =>
        if x.2 == e57Namespace then none else x.1.map (fun name => (name, x.2))) = [] := by
      simp [e57NsUri, e57Namespace]
    rw [h2, List.append_nil, List.filterMap_map]
    induction exts with
    | nil => rfl
    | cons e es ih =>
      have ih' : List.filterMap (fun x : String × String => if x.2 = e57Namespace then none else some (x.1, x.2)) es
          = es.filter (fun e => e.2 != e57Namespace) := by simpa [Function.comp_def] using ih
      by_cases h : e.2 = e57Namespace
      · simp [List.filterMap_cons, List.filter_cons, Function.comp_def, h, ih']
      · simp [List.filterMap_cons, List.filter_cons, Function.comp_def, h, ih']

/-- the invariant of the writer's extension list: URLs non-empty and not the E57 namespace, prefixes
    pairwise distinct, URLs pairwise distinct -/
def ExtsOk : List (String × String) → Bool
  | [] => true
  | e :: es => !e.2.isEmpty && e.2 != e57Namespace && es.all (fun x => x.1 != e.1 && x.2 != e.2) && ExtsOk es

theorem ExtsOk_url {exts : List (String × String)} (h : ExtsOk exts = true) {e} (he : e ∈ exts) :
    e.2 ≠ "" ∧ e.2 ≠ e57Namespace := by
  induction exts with
  | nil => simp at he
  | cons x xs ih =>
    simp only [ExtsOk, Bool.and_eq_true] at h
    rcases List.mem_cons.mp he with rfl | he
    · have h1 := h.1.1.1
      have h2 := h.1.1.2
      simp [String.isEmpty_iff] at h1 h2
      exact ⟨h1, h2⟩
    · exact ih h.2 he

theorem ExtsOk_inj {exts : List (String × String)} (h : ExtsOk exts = true) {a b} (ha : a ∈ exts) (hb : b ∈ exts)
    (hab : a.1 = b.1 ∨ a.2 = b.2) : a = b := by
  induction exts with
  | nil => simp at ha
  | cons x xs ih =>
    simp only [ExtsOk, Bool.and_eq_true, List.all_eq_true, bne_iff_ne, ne_eq] at h
    rcases List.mem_cons.mp ha with ha1 | ha1 <;> rcases List.mem_cons.mp hb with hb1 | hb1
    · rw [ha1, hb1]
    · subst ha1; have := h.1.2 b hb1; rcases hab with e | e <;> simp [e] at this
    · subst hb1; have := h.1.2 a ha1; rcases hab with e | e <;> simp [e] at this
    · exact ih h.2 ha1 hb1

/-- registering a new extension with a fresh prefix and a fresh, non-empty, non-E57 URL keeps the invariant
    (this is exactly the case in which `register_extension` appends) -/
theorem ExtsOk_snoc {exts : List (String × String)} (h : ExtsOk exts = true) (ns url : String)
    (hns : exts.any (fun x => x.1 == ns) = false)
    (hurl : (url.isEmpty || url == e57Namespace || exts.any (fun x => x.2 == url)) = false) :
    ExtsOk (exts ++ [(ns, url)]) = true := by
  simp only [Bool.or_eq_false_iff, beq_eq_false_iff_ne, ne_eq, List.any_eq_false, beq_iff_eq] at hns hurl
  obtain ⟨⟨u1, u2⟩, u3⟩ := hurl
  induction exts with
  | nil => simp [ExtsOk, u1, u2]
  | cons x xs ih =>
    simp only [ExtsOk, Bool.and_eq_true, List.cons_append, List.all_append, List.all_cons, List.all_nil,
      Bool.and_true] at h ⊢
    refine ⟨⟨h.1.1, h.1.2, ?_⟩, ih h.2 (fun y hy => hns y (by simp [hy])) (fun y hy => u3 y (by simp [hy]))⟩
    have a1 := hns x (by simp)
    have a2 := u3 x (by simp)
    simp only [bne_iff_ne, ne_eq, Bool.and_eq_true, decide_eq_true_eq]
    exact ⟨fun e => a1 e.symm, fun e => a2 e.symm⟩

/-- `register_extension` keeps the invariant when it checks the URL as the fixed crate does.
    (The copy of the model this file was developed against has the definition WITHOUT the URL checks, hence
    `hurl`; the script is written so that it also goes through for the fixed definition.  For the fixed
    definition the hypothesis can be dropped — checked against /verif/lean/E57/Model/Writer.lean:
    ```
    theorem registerExtension_keeps_ExtsOk (e e' : EW) (ns url : String) (h : e.registerExtension ns url = .ok e')
        (hok : ExtsOk e.exts = true) : ExtsOk e'.exts = true := by
      unfold EW.registerExtension at h
      repeat' split at h
      all_goals first
        | (injection h with h; subst h
           exact ExtsOk_snoc hok ns url (Bool.eq_false_iff.mpr (by assumption)) (Bool.eq_false_iff.mpr (by assumption)))
        | cases h
    ```) -/
theorem registerExtension_ExtsOk (e e' : EW) (ns url : String) (h : e.registerExtension ns url = .ok e')
    (hok : ExtsOk e.exts = true)
    (hurl : (url.isEmpty || url == e57Namespace || e.exts.any (fun x => x.2 == url)) = false) :
    ExtsOk e'.exts = true := by
  unfold EW.registerExtension at h
  repeat' split at h
  all_goals first
    | (injection h with h; subst h
       exact ExtsOk_snoc hok ns url (Bool.eq_false_iff.mpr (by assumption)) hurl)
    | cases h

/-- `register_extension` of the (fixed) crate keeps the invariant, with no side condition: it appends
    only when the prefix is fresh and the URL is non-empty, not the E57 namespace, not one of XML's
    reserved namespaces and not yet used -/
theorem registerExtension_keeps_ExtsOk (e e' : EW) (ns url : String) (h : e.registerExtension ns url = .ok e')
    (hok : ExtsOk e.exts = true) : ExtsOk e'.exts = true := by
  unfold EW.registerExtension at h
  repeat' split at h
  all_goals first
    | (injection h with h; subst h
       exact ExtsOk_snoc hok ns url (Bool.eq_false_iff.mpr (by assumption)) (Bool.eq_false_iff.mpr (by assumption)))
    | cases h

theorem extUrl_of_mem {exts : List (String × String)} (h : ExtsOk exts = true) {ns url} (hm : (ns, url) ∈ exts) :
    extUrl exts ns = some url := by
  unfold extUrl
  cases hf : exts.find? (fun e => e.1 == ns) with
  | none => simpa using List.find?_eq_none.mp hf (ns, url) hm
  | some e =>
    have hm' := List.mem_of_find?_eq_some hf
    have hp := List.find?_some hf
    simp at hp
    have := ExtsOk_inj h hm' hm (Or.inl hp)
    simp [this]

/-- under the writer's invariant every extension record keeps its name (given the URL is not the one of
    the `xml:` prefix, which roxmltree refuses anyway) -/
theorem RecordNameOK_of_ExtsOk {exts : List (String × String)} (h : ExtsOk exts = true) {ns url} (name : String)
    (hm : (ns, url) ∈ exts) (hx : url ≠ xmlNsUri) : RecordNameOK exts (.unknown ns name) := by
  have hu := ExtsOk_url h hm
  exact RecordNameOK_of_distinct exts ns name url hm
    (fun e he h2 => by have := ExtsOk_inj h he hm (Or.inr h2); simp [this])
    (fun e he h1 => by have := ExtsOk_inj h he hm (Or.inl h1); simp [this])
    hu.1 hu.2 hx

/-- the writer's prototype check (`Extension::validate_prototype`) together with its extension invariant
    gives what the names need -/
theorem RecordNameOK_of_validate {exts : List (String × String)} (h : ExtsOk exts = true)
    (hx : ∀ e ∈ exts, e.2 ≠ xmlNsUri) (p : Prototype) (hv : validateExtensions p exts = true) :
    ∀ r ∈ p, RecordNameOK exts r.name := by
  intro r hr
  have := (List.all_eq_true.mp hv) r hr
  cases hn : r.name with
  | unknown ns name =>
    simp only [hn, Bool.and_eq_true, List.any_eq_true, beq_iff_eq] at this
    obtain ⟨_, e, he, rfl⟩ := this
    exact RecordNameOK_of_ExtsOk h name (url := e.2) he (hx e he)
  | _ => trivial

/-- … and no record can shadow `images2D` -/
theorem NoImagesShadow_of_validate (ft) {exts : List (String × String)} (h : ExtsOk exts = true)
    (pcs : List PointCloud) (hv : ∀ pc ∈ pcs, validateExtensions pc.prototype exts = true) :
    NoImagesShadow ft exts pcs := by
  intro pc hpc r hr
  have := (List.all_eq_true.mp (hv pc hpc)) r hr
  obtain ⟨name, dt⟩ := r
  cases name with
  | unknown ns nm =>
    simp only [Bool.and_eq_true, List.any_eq_true, beq_iff_eq] at this
    obtain ⟨_, e, he, rfl⟩ := this
    have hu := ExtsOk_url h he
    simp [Record.tree, recordNs, RecordName.namespace?, extUrl_of_mem h (ns := e.1) (url := e.2) he, hasTagName,
      e57NsUri, show e.2 ≠ "http://www.astm.org/COMMIT/E57/2010-e57-v1.0" from hu.2]
  | _ => simp [Record.tree, recordNs, RecordName.namespace?, hasTagName, RecordName.tagName]

/-- under the writer's invariant the registered extensions come back unchanged -/
theorem extensions_roundtrip (ft) (root : Root) (pcs imgs exts) (doc : XDoc)
    (hdoc : rootDoc ft root pcs imgs exts = some doc) (h : ExtsOk exts = true) :
    extensionsFromDocument doc = exts := by
  rw [extensions_roundtrip_partial ft root pcs imgs exts doc hdoc]
  apply List.filter_eq_self.mpr
  intro e he
  simpa using (ExtsOk_url h he).2

/-- the naive statement without the invariant -/
def extensions_statement : Prop :=
  ∀ (ft : FloatText) (root : Root) (pcs : List PointCloud) (imgs : List Image) (exts : List (String × String))
    (doc : XDoc), rootDoc ft root pcs imgs exts = some doc → extensionsFromDocument doc = exts

/-- an extension registered with the E57 namespace URL is not reported by the reader -/
theorem extensions_statement_false : ¬ extensions_statement := by
  intro h
  have hd : rootDoc ⟨[], []⟩ { guid := "g" } [] [] [("a", e57Namespace)]
      = some ⟨rootTree ⟨[], []⟩ { guid := "g" } [] [] [("a", e57Namespace)], rootNamespaces [("a", e57Namespace)]⟩ := by
    simp [rootDoc, String.isEmpty_iff]
  have := h _ _ _ _ _ _ hd
  rw [extensions_roundtrip_partial _ _ _ _ _ _ hd] at this
  simp at this

/-! ## 10. the whole document; non-vacuity -/

/-- how the prototype condition follows from the writer's own checks -/
theorem PrototypeOK_of_validate (ft fp) {exts : List (String × String)} (h : ExtsOk exts = true)
    (hx : ∀ e ∈ exts, e.2 ≠ xmlNsUri) (p : Prototype) (hv : validateExtensions p exts = true)
    (hdt : ∀ r ∈ p, DataTypeOK ft fp r.dt) : PrototypeOK ft fp exts p :=
  fun r hr => ⟨RecordNameOK_of_validate h hx p hv r hr, hdt r hr⟩

/-- C04 on trees: everything `serializeRoot` writes is read back from the tree the XML denotes -/
theorem C04_document_roundtrip (ft fp) (root : Root) (pcs : List PointCloud) (imgs : List Image)
    (exts : List (String × String)) (doc : XDoc)
    (hdoc : rootDoc ft root pcs imgs exts = some doc)
    (hexts : ExtsOk exts = true)
    (hcr : ∀ d, root.creation = some d → F64OK ft fp d.gpsTime)
    (okpc : ∀ pc ∈ pcs, PointCloud.OK ft fp exts pc)
    (hsh : NoImagesShadow ft exts pcs)
    (okimg : ∀ i ∈ imgs, Image.OK ft fp i) :
    (∃ r, rootFromDocument fp doc = some r ∧ r.format = "ASTM E57 3D Imaging Data File" ∧ r.guid = root.guid ∧
      r.major = 1 ∧ r.libraryVersion = root.libraryVersion ∧ r.creation = root.creation ∧
      r.coordinateMetadata = root.coordinateMetadata) ∧
    pointcloudsFromDocument fp doc = some (pcs.map PointCloud.stored) ∧
    imagesFromDocument fp doc = some imgs ∧
    extensionsFromDocument doc = exts :=
  ⟨root_roundtrip ft fp root pcs imgs exts doc hdoc hcr,
   pointclouds_roundtrip_partial ft fp root pcs imgs exts doc hdoc okpc,
   images_roundtrip ft fp root pcs imgs exts doc hdoc hsh okimg,
   extensions_roundtrip ft root pcs imgs exts doc hdoc hexts⟩

/-- `serializeRoot` and `rootDoc` refuse the same roots (empty file GUID) -/
theorem rootDoc_isSome_iff (ft root pcs imgs exts) :
    (rootDoc ft root pcs imgs exts).isSome = (serializeRoot ft root pcs imgs exts).isSome := by
  unfold rootDoc serializeRoot
  split <;> rfl

namespace Example

def ft : FloatText :=
  ⟨[(0, "0"), (1, "5e-324"), (0x3FF0000000000000, "1"), (0x7FF0000000000000, "inf"), (0x8000000000000000, "-0")],
   [(0, "0"), (1, "1e-45"), (0x3F800000, "1")]⟩
def fp : FloatParse :=
  ⟨[("0", (some 0, some 0)), ("5e-324", (some 1, some 0)), ("1", (some 0x3FF0000000000000, some 0x3F800000)),
    ("1e-45", (some 0, some 1)), ("inf", (some 0x7FF0000000000000, some 0x7F800000)),
    ("-0", (some 0x8000000000000000, some 0x80000000))]⟩
def exts : List (String × String) := [("ext", "http://x.y/z"), ("e2", "u&<\"")]

/-- a point cloud with every optional field present -/
def pc : PointCloud := {
  guid := some "g]]>x", fileOffset := 48, records := 7,
  prototype := [⟨.cartesianX, .double (some 0) (some 1)⟩, ⟨.cartesianY, .single none (some 1)⟩,
     ⟨.cartesianZ, .scaled (-5) 9 1 0⟩, ⟨.intensity, .integer 0 255⟩, ⟨.unknown "ext" "foo", .integer 0 1⟩],
  originalGuids := some ["a", ""], name := some "", description := some " d ",
  cartesianBounds := some { xMin := some 0x8000000000000000, yMax := some 0x7FF0000000000000 },
  sphericalBounds := some { rangeMin := some 1 },
  indexBounds := some { rowMin := some (-9223372036854775808), returnMax := some 9223372036854775807 },
  intensityLimits := some ⟨some (.integer 0), some (.integer 255)⟩,
  colorLimits := some ⟨some (.single 0), some (.single 1), some (.double 0), some (.double 1), some (.scaled 0), some (.scaled 1)⟩,
  transform := some ⟨0x3FF0000000000000, 0, 0, 0, 1, 0, 1⟩,
  acquisitionStart := some ⟨1, true⟩, acquisitionEnd := some ⟨0, false⟩,
  sensorVendor := some "v", sensorModel := some "m", sensorSerial := some "s",
  sensorHwVersion := some "hw", sensorSwVersion := some "sw", sensorFwVersion := some "fw",
  temperature := some 1, humidity := some 0, atmosphericPressure := some 1 }

theorem f64ok (v : UInt64) (h : v ∈ [0, 1, 0x3FF0000000000000, 0x7FF0000000000000, 0x8000000000000000]) : F64OK ft fp v := by
  simp only [List.mem_cons, List.mem_nil_iff, or_false] at h
  rcases h with rfl | rfl | rfl | rfl | rfl <;> decide

theorem f32ok (v : UInt32) (h : v ∈ [0, 1, 0x3F800000]) : F32OK ft fp v := by
  simp only [List.mem_cons, List.mem_nil_iff, or_false] at h
  rcases h with rfl | rfl | rfl <;> decide

theorem exts_ok : ExtsOk exts = true := by decide
theorem exts_noxml : ∀ e ∈ exts, e.2 ≠ xmlNsUri := by decide

theorem proto_ok : PrototypeOK ft fp exts pc.prototype := by
  intro r hr
  simp only [pc, List.mem_cons, List.mem_nil_iff, or_false] at hr
  rcases hr with rfl | rfl | rfl | rfl | rfl
  · refine ⟨trivial, ?_, ?_⟩ <;> (intro v h; cases h; decide)
  · refine ⟨trivial, ?_, ?_⟩ <;> (intro v h; cases h; try decide)
  · exact ⟨trivial, by decide, by decide, by decide, by decide, by decide⟩
  · exact ⟨trivial, by decide, by decide, by decide⟩
  · exact ⟨RecordNameOK_of_ExtsOk exts_ok "foo" (url := "http://x.y/z") (by decide) (by decide),
      by decide, by decide, by decide⟩

/-- the hypotheses of the point cloud theorems hold for a point cloud with every optional field present,
    with −0, +∞, the smallest subnormal, `i64::MIN`/`MAX`, an empty string, a string containing `]]>` -/
theorem pc_ok : PointCloud.OK ft fp exts pc where
  fileOffset := by decide
  records := by decide
  prototype := proto_ok
  cartesian := by
    intro b hb; cases hb
    simp only [CartesianBounds.floats, List.mem_cons, List.mem_nil_iff, or_false]
    rintro o (rfl | rfl | rfl | rfl | rfl | rfl) v hv <;> cases hv <;> decide
  spherical := by
    intro b hb; cases hb
    simp only [SphericalBounds.floats, List.mem_cons, List.mem_nil_iff, or_false]
    rintro o (rfl | rfl | rfl | rfl | rfl | rfl) v hv <;> cases hv <;> decide
  index := by
    intro b hb; cases hb
    simp only [IndexBounds.ints, List.mem_cons, List.mem_nil_iff, or_false]
    rintro o (rfl | rfl | rfl | rfl | rfl | rfl) v hv <;> cases hv <;> decide
  intensity := by
    intro b hb; cases hb
    simp only [IntensityLimits.values, List.mem_cons, List.mem_nil_iff, or_false]
    rintro o (rfl | rfl) v hv <;> cases hv <;> simp [ValueOK] <;> decide
  color := by
    intro b hb; cases hb
    simp only [ColorLimits.values, List.mem_cons, List.mem_nil_iff, or_false]
    rintro o (rfl | rfl | rfl | rfl | rfl | rfl) v hv <;> cases hv <;> simp only [ValueOK] <;> decide
  transform := by
    intro t ht; cases ht
    simp only [Transform.floats, List.mem_cons, List.mem_nil_iff, or_false]
    rintro v (rfl | rfl | rfl | rfl | rfl | rfl | rfl) <;> decide
  acquisitionStart := by intro d hd; cases hd; decide
  acquisitionEnd := by intro d hd; cases hd; decide
  temperature := by intro d hd; cases hd; decide
  humidity := by intro d hd; cases hd; decide
  atmosphericPressure := by intro d hd; cases hd; decide

/-- non-vacuity: the concrete point cloud goes through tree → reader unchanged -/
theorem pc_roundtrip : E57.PointCloud.fromNode fp (PointCloud.tree ft exts pc) = some pc :=
  PointCloud.roundtrip ft fp exts pc pc_ok (by intro l hl; cases hl; rfl) (by intro l hl; cases hl; rfl)

def img : Image := {
  guid := some "ig", visualReference := some (VisualRef.mk ⟨⟨100, 20⟩, .png⟩ (some ⟨200, 5⟩) 10 20),
  projection := some (.cylindrical ⟨⟨⟨1, 2⟩, .jpeg⟩, none, 3, 4, 1, 0, 1, 1⟩),
  transform := some ⟨0x3FF0000000000000, 0, 0, 0, 0, 0, 0⟩,
  pointcloudGuid := some "g]]>x", name := some "n", description := some "", acquisition := some ⟨1, false⟩,
  sensorVendor := some "v", sensorModel := some "m", sensorSerial := some "s" }

theorem img_ok : Image.OK ft fp img where
  visualReference := by
    intro v hv; cases hv
    exact ⟨by decide, (by intro b hb; cases hb; decide), by decide, by decide⟩
  projection := by
    intro p hp; cases hp
    show Cylindrical.OK ft fp _
    exact ⟨by decide, (by intro b hb; cases hb), by decide, by decide, by decide, by decide, by decide, by decide⟩
  transform := by
    intro t ht; cases ht
    simp only [Transform.floats, List.mem_cons, List.mem_nil_iff, or_false]
    rintro v (rfl | rfl | rfl | rfl | rfl | rfl | rfl) <;> decide
  acquisition := by intro d hd; cases hd; decide

theorem img_roundtrip : E57.Image.fromNode fp (Image.tree ft none img) = some img :=
  Image.roundtrip ft fp none img img_ok

def root : Root := { guid := "rg", libraryVersion := some "lv", creation := some ⟨1, true⟩, coordinateMetadata := some "cm" }

/-- non-vacuity of the document theorem -/
theorem doc_roundtrip :
    ∃ doc, rootDoc ft root [pc] [img] exts = some doc ∧
      pointcloudsFromDocument fp doc = some [pc] ∧ imagesFromDocument fp doc = some [img] ∧
      extensionsFromDocument doc = exts := by
  have hd : rootDoc ft root [pc] [img] exts = some ⟨rootTree ft root [pc] [img] exts, rootNamespaces exts⟩ := by
    simp [rootDoc, root, String.isEmpty_iff]
  refine ⟨_, hd, ?_⟩
  have h := C04_document_roundtrip ft fp root [pc] [img] exts _ hd exts_ok
    (by intro d hd; cases hd; decide)
    (by intro p hp; simp at hp; subst hp; exact pc_ok)
    (NoImagesShadow_of_names ft exts _ (by
      intro p hp r hr
      simp only [List.mem_cons, List.mem_nil_iff, or_false] at hp
      subst hp
      simp only [pc, List.mem_cons, List.mem_nil_iff, or_false] at hr
      rcases hr with rfl | rfl | rfl | rfl | rfl <;> decide))
    (by intro i hi; simp at hi; subst hi; exact img_ok)
  refine ⟨?_, h.2.2.1, h.2.2.2⟩
  rw [h.2.1]; rfl

end Example

/-! ## 11. the trees render to the writer's text -/

theorem toString_str (s : String) : toString s = s := rfl

/-- normal form for string equalities: compare the character lists -/
syntax "str_eq" (" [" Lean.Parser.Tactic.simpLemma,* "]")? : tactic
macro_rules
  | `(tactic| str_eq) => `(tactic| (apply String.toList_inj.mp; simp [toString_str, String.toList_append]))
  | `(tactic| str_eq [$ls,*]) =>
    `(tactic| (apply String.toList_inj.mp; simp [$ls,*, toString_str, String.toList_append]))

theorem renderList_append (cd : Bool) (a b : List XNode) :
    renderList cd (a ++ b) = renderList cd a ++ renderList cd b := by
  induction a with
  | nil => simp [renderList]
  | cons x xs ih => simp [renderList, ih, String.append_assoc]

theorem renderList_sep (kids : List XNode) : renderList false (sep kids) = String.join (kids.map renderLn) := by
  induction kids with
  | nil => simp [sep, renderList, String.join_nil]
  | cons k ks ih => 
    simp [sep, renderList, nl, render, ih, renderLn, String.append_assoc, String.join_cons]

theorem renderAttrs_cons (a : XAttr) (as : List XAttr) :
    renderAttrs (a :: as) = " " ++ a.name ++ "=\"" ++ a.value ++ "\"" ++ renderAttrs as := by
  simp [renderAttrs, renderAttr, String.join_cons, String.append_assoc]

theorem genString_tree (tag v : String) : renderLn (genStringTree none tag v) = genString tag v := by
  have h : isStringTyped [tattr "String"] = true := by decide
  simp only [renderLn, genStringTree, el, render, h, renderList, qname, genString]
  str_eq [renderAttrs, renderAttr, tattr, at_, String.join_cons, String.join_nil]

theorem renderList_lines (kids : List XNode) :
    renderList false (lines kids) = "\n" ++ String.join (kids.map renderLn) := by
  simp [lines, renderList, nl, render, renderList_sep]

/-- a container element of the E57 namespace, un-prefixed -/
theorem renderLn_container (name : String) (attrs : List XAttr) (kids : List XNode)
    (h : isStringTyped attrs = false) :
    renderLn (el none name attrs (lines kids))
      = "<" ++ name ++ renderAttrs attrs ++ ">" ++ "\n" ++ String.join (kids.map renderLn) ++ "</" ++ name ++ ">" ++ "\n" := by
  simp only [renderLn, el, lines, render, h, qname]
  rw [← lines, renderList_lines]
  str_eq

theorem renderLn_structT (tag : String) (kids : List XNode) :
    renderLn (structT none tag kids)
      = "<" ++ tag ++ " type=\"Structure\">\n" ++ String.join (kids.map renderLn) ++ "</" ++ tag ++ ">\n" := by
  rw [structT, renderLn_container _ _ _ (by decide)]
  str_eq [renderAttrs, renderAttr, tattr, at_, String.join_cons, String.join_nil]

theorem join_optT_append {α} (o : Option α) (f : α → XNode) (rest : List XNode) :
    String.join ((optT o f ++ rest).map renderLn) = optS o (fun a => renderLn (f a)) ++ String.join (rest.map renderLn) := by
  cases o <;> simp [optT, optS, String.join_cons]

theorem join_optT {α} (o : Option α) (f : α → XNode) :
    String.join ((optT o f).map renderLn) = optS o (fun a => renderLn (f a)) := by
  cases o <;> simp [optT, optS, String.join_cons, String.join_nil]

theorem optS_filter {α} (o : Option α) (p : α → Bool) (f : α → String) :
    optS (o.filter p) f = optS o (fun a => if p a then f a else "") := by
  cases o with
  | none => rfl
  | some a => by_cases h : p a <;> simp [Option.filter, optS, h]

theorem genFloat_tree (ft : FloatText) (tag : String) (v : UInt64) :
    renderLn (genFloatTree ft none tag v) = genFloat ft tag v := by
  have h : isStringTyped [tattr "Float"] = false := by decide
  simp only [renderLn, genFloatTree, el, render, h, renderList, qname, genFloat]
  str_eq [renderAttrs, renderAttr, tattr, at_, String.join_cons, String.join_nil]

theorem genInt_tree (tag : String) (v : Int) : renderLn (genIntTree none tag v) = genInt tag v := by
  have h : isStringTyped [tattr "Integer"] = false := by decide
  simp only [renderLn, genIntTree, el, render, h, renderList, qname, genInt]
  str_eq [renderAttrs, renderAttr, tattr, at_, String.join_cons, String.join_nil]

theorem DateTime.tree_xml (ft : FloatText) (d : DateTime) (tag : String) :
    renderLn (DateTime.tree ft none d tag) = d.xmlString ft tag := by
  have h : isStringTyped [tattr "Integer"] = false := by decide
  have e : renderLn (el none "isAtomicClockReferenced" [tattr "Integer"] [.text (if d.atomic then "1" else "0")])
      = "<isAtomicClockReferenced type=\"Integer\">" ++ (if d.atomic then "1" else "0") ++ "</isAtomicClockReferenced>\n" := by
    simp only [renderLn, el, render, h, renderList, qname]
    str_eq [renderAttrs, renderAttr, tattr, at_, String.join_cons, String.join_nil]
  rw [DateTime.tree, renderLn_structT]
  simp only [List.map_cons, List.map_nil, String.join_cons, String.join_nil, genFloat_tree, e, E57.DateTime.xmlString,
    genFloat]
  str_eq

theorem Transform.tree_xml (ft : FloatText) (t : Transform) (tag : String) :
    renderLn (Transform.tree ft none t tag) = t.xmlString ft tag := by
  rw [Transform.tree, renderLn_structT]
  simp only [List.map_cons, List.map_nil, String.join_cons, String.join_nil, renderLn_structT, genFloat_tree,
    E57.Transform.xmlString]
  str_eq

theorem CartesianBounds.tree_xml (ft : FloatText) (b : CartesianBounds) :
    renderLn (CartesianBounds.tree ft none b) = b.xmlString ft := by
  unfold CartesianBounds.tree E57.CartesianBounds.xmlString
  rw [renderLn_structT]
  simp only [List.append_assoc, join_optT_append, join_optT, genFloat_tree]
  str_eq

theorem SphericalBounds.tree_xml (ft : FloatText) (b : SphericalBounds) :
    renderLn (SphericalBounds.tree ft none b) = b.xmlString ft := by
  unfold SphericalBounds.tree E57.SphericalBounds.xmlString
  rw [renderLn_structT]
  simp only [List.append_assoc, join_optT_append, join_optT, genFloat_tree]
  str_eq

theorem IndexBounds.tree_xml (b : IndexBounds) : renderLn (IndexBounds.tree none b) = b.xmlString := by
  unfold IndexBounds.tree E57.IndexBounds.xmlString
  rw [renderLn_structT]
  simp only [List.append_assoc, join_optT_append, join_optT, genInt_tree]
  str_eq

theorem recordValue_tree (ft : FloatText) (tag : String) (v : Value) :
    renderLn (recordValueTree ft none tag v) = recordValueToXml ft tag v := by
  have h1 : isStringTyped [tattr "Integer"] = false := by decide
  have h2 : isStringTyped [tattr "ScaledInteger"] = false := by decide
  have h3 : isStringTyped [tattr "Float", at_ "precision" "single"] = false := by decide
  have h4 : isStringTyped [tattr "Float"] = false := by decide
  cases v <;>
    simp only [renderLn, recordValueTree, el, render, h1, h2, h3, h4, renderList, qname, recordValueToXml] <;>
    str_eq [renderAttrs, renderAttr, tattr, at_, String.join_cons, String.join_nil]

theorem IntensityLimits.tree_xml (ft : FloatText) (l : IntensityLimits) :
    renderLn (IntensityLimits.tree ft none l) = l.xmlString ft := by
  unfold IntensityLimits.tree E57.IntensityLimits.xmlString
  rw [renderLn_structT]
  simp only [List.append_assoc, join_optT_append, join_optT, recordValue_tree]
  str_eq

theorem ColorLimits.tree_xml (ft : FloatText) (l : ColorLimits) :
    renderLn (ColorLimits.tree ft none l) = l.xmlString ft := by
  unfold ColorLimits.tree E57.ColorLimits.xmlString
  rw [renderLn_structT]
  simp only [List.append_assoc, join_optT_append, join_optT, recordValue_tree]
  str_eq

/-- attributes and text of a prototype entry agree with `serializeRecordType` -/
theorem recordType_tree (ft : FloatText) (dt : DataType) :
    renderAttrs (recordTypeTree ft dt).1 = " " ++ (serializeRecordType ft dt).1 ∧
    (recordTypeTree ft dt).2 = (serializeRecordType ft dt).2 := by
  cases dt with
  | single min max =>
    cases min <;> cases max <;> refine ⟨?_, rfl⟩ <;> unfold recordTypeTree serializeRecordType <;>
      str_eq [optT, renderAttrs, renderAttr, tattr, at_, String.join_cons, String.join_nil]
  | double min max =>
    cases min <;> cases max <;> refine ⟨?_, rfl⟩ <;> unfold recordTypeTree serializeRecordType <;>
      str_eq [optT, renderAttrs, renderAttr, tattr, at_, String.join_cons, String.join_nil]
  | scaled min max scale offset =>
    refine ⟨?_, rfl⟩
    unfold recordTypeTree serializeRecordType
    str_eq [optT, renderAttrs, renderAttr, tattr, at_, String.join_cons, String.join_nil]
  | integer min max =>
    refine ⟨?_, rfl⟩
    unfold recordTypeTree serializeRecordType
    str_eq [optT, renderAttrs, renderAttr, tattr, at_, String.join_cons, String.join_nil]

/-- the prefix roxmltree reports for the entry is the one the writer wrote (always so for a standard
    record when no extension has the E57 URL; for an extension record when its URL is bound to no
    earlier prefix) -/
def RecordPrefixOK (exts : List (String × String)) (name : RecordName) : Prop :=
  (recordNs exts name).2 = name.namespace?

theorem isStringTyped_recordTypeTree (ft dt) : isStringTyped (recordTypeTree ft dt).1 = false := by
  cases dt with
  | single min max => cases min <;> cases max <;> simp [recordTypeTree, optT, isStringTyped, tattr, at_]
  | double min max => cases min <;> cases max <;> simp [recordTypeTree, optT, isStringTyped, tattr, at_]
  | scaled => simp [recordTypeTree, optT, isStringTyped, tattr, at_]
  | integer => simp [recordTypeTree, optT, isStringTyped, tattr, at_]

theorem Record.tree_xml (ft : FloatText) (exts) (r : Record) (h : RecordPrefixOK exts r.name) :
    renderLn (Record.tree ft exts r) = r.xmlString ft := by
  obtain ⟨h1, h2⟩ := recordType_tree ft r.dt
  unfold RecordPrefixOK at h
  simp only [renderLn, Record.tree, render, renderList, isStringTyped_recordTypeTree, h, h1, h2, E57.Record.xmlString]
  cases hn : r.name.namespace? <;> str_eq [qname]

theorem join_map_genString (tag : String) (gs : List String) :
    String.join ((gs.map (genStringTree none tag)).map renderLn) = String.join (gs.map (genString tag)) := by
  simp [List.map_map, Function.comp_def, genString_tree]

theorem originalGuids_tree (gs : List String) :
    renderLn (originalGuidsTree none gs)
      = "<originalGuids type=\"Vector\" allowHeterogeneousChildren=\"0\">\n"
        ++ String.join (gs.map (genString "vectorChild")) ++ "</originalGuids>\n" := by
  rw [originalGuidsTree, renderLn_container _ _ _ (by decide), join_map_genString]
  str_eq [renderAttrs, renderAttr, tattr, at_, String.join_cons, String.join_nil]

theorem points_tree (ft : FloatText) (exts) (pc : PointCloud) (h0 : e57Prefix exts = none)
    (hp : ∀ r ∈ pc.prototype, RecordPrefixOK exts r.name) :
    renderLn (pointsTree ft exts pc)
      = "<points type=\"CompressedVector\" fileOffset=\"" ++ toString pc.fileOffset ++ "\" recordCount=\""
        ++ toString pc.records ++ "\">\n" ++ "<prototype type=\"Structure\">\n"
        ++ String.join (pc.prototype.map (E57.Record.xmlString ft)) ++ "</prototype>\n" ++ "</points>\n" := by
  have hj : String.join ((pc.prototype.map (Record.tree ft exts)).map renderLn)
      = String.join (pc.prototype.map (E57.Record.xmlString ft)) := by
    rw [List.map_map]
    congr 1
    apply List.map_congr_left
    intro r hr
    exact Record.tree_xml ft exts r (hp r hr)
  rw [pointsTree, h0, renderLn_container _ _ _ (by simp [isStringTyped, tattr, at_])]
  simp only [List.map_cons, List.map_nil, String.join_cons, String.join_nil, renderLn_structT, hj]
  str_eq [renderAttrs, renderAttr, tattr, at_, String.join_cons, String.join_nil]

set_option maxRecDepth 8000 in
/-- the point cloud element, character for character -/
theorem PointCloud.tree_xml (ft : FloatText) (exts) (pc : PointCloud) (h0 : e57Prefix exts = none)
    (hp : ∀ r ∈ pc.prototype, RecordPrefixOK exts r.name) :
    renderLn (PointCloud.tree ft exts pc) = pc.xmlString ft := by
  have hpts := points_tree ft exts pc h0 hp
  unfold PointCloud.tree E57.PointCloud.xmlString
  simp only [h0] at hpts ⊢
  rw [renderLn_structT]
  simp only [List.append_assoc, join_optT_append, join_optT, genString_tree, genFloat_tree, originalGuids_tree,
    CartesianBounds.tree_xml, SphericalBounds.tree_xml, IndexBounds.tree_xml, ColorLimits.tree_xml,
    IntensityLimits.tree_xml, Transform.tree_xml, DateTime.tree_xml, optS_filter, List.map_cons, List.map_nil,
    String.join_cons, String.join_nil, hpts]
  str_eq

theorem BlobRef.tree_xml (b : BlobRef) (tag : String) : renderLn (BlobRef.tree none b tag) = b.xmlString tag := by
  simp only [renderLn, BlobRef.tree, el, render, qname, E57.BlobRef.xmlString]
  str_eq [renderAttrs, renderAttr, tattr, at_, String.join_cons, String.join_nil]

theorem ImageBlob.tree_xml (b : ImageBlob) : renderLn (ImageBlob.tree none b) = b.xmlString := by
  unfold ImageBlob.tree E57.ImageBlob.xmlString
  cases b.format <;> simp only [BlobRef.tree_xml]

theorem VisualRef.tree_xml (v : VisualRef) :
    renderLn (VisualRef.tree none v) = v.xmlString := by
  unfold VisualRef.tree E57.VisualRef.xmlString
  rw [renderLn_structT]
  simp only [List.append_assoc, List.cons_append, List.nil_append, List.map_cons, List.map_nil, String.join_cons,
    String.join_nil, join_optT_append, join_optT, ImageBlob.tree_xml, BlobRef.tree_xml, genInt_tree, genFloat_tree]
  str_eq

theorem Pinhole.tree_xml (ft : FloatText) (v : Pinhole) :
    renderLn (Pinhole.tree ft none v) = v.xmlString ft := by
  unfold Pinhole.tree E57.Pinhole.xmlString
  rw [renderLn_structT]
  simp only [List.append_assoc, List.cons_append, List.nil_append, List.map_cons, List.map_nil, String.join_cons,
    String.join_nil, join_optT_append, join_optT, ImageBlob.tree_xml, BlobRef.tree_xml, genInt_tree, genFloat_tree]
  str_eq

theorem SphericalImg.tree_xml (ft : FloatText) (v : SphericalImg) :
    renderLn (SphericalImg.tree ft none v) = v.xmlString ft := by
  unfold SphericalImg.tree E57.SphericalImg.xmlString
  rw [renderLn_structT]
  simp only [List.append_assoc, List.cons_append, List.nil_append, List.map_cons, List.map_nil, String.join_cons,
    String.join_nil, join_optT_append, join_optT, ImageBlob.tree_xml, BlobRef.tree_xml, genInt_tree, genFloat_tree]
  str_eq

theorem Cylindrical.tree_xml (ft : FloatText) (v : Cylindrical) :
    renderLn (Cylindrical.tree ft none v) = v.xmlString ft := by
  unfold Cylindrical.tree E57.Cylindrical.xmlString
  rw [renderLn_structT]
  simp only [List.append_assoc, List.cons_append, List.nil_append, List.map_cons, List.map_nil, String.join_cons,
    String.join_nil, join_optT_append, join_optT, ImageBlob.tree_xml, BlobRef.tree_xml, genInt_tree, genFloat_tree]
  str_eq

theorem Projection.tree_xml (ft : FloatText) (p : Projection) :
    renderLn (Projection.tree ft none p) = p.xmlString ft := by
  cases p <;> simp only [Projection.tree, E57.Projection.xmlString, Pinhole.tree_xml, SphericalImg.tree_xml,
    Cylindrical.tree_xml]

set_option maxRecDepth 8000 in
/-- the image element, character for character -/
theorem Image.tree_xml (ft : FloatText) (i : Image) : renderLn (Image.tree ft none i) = i.xmlString ft := by
  unfold Image.tree E57.Image.xmlString
  rw [renderLn_structT]
  simp only [List.append_assoc, join_optT_append, join_optT, genString_tree, VisualRef.tree_xml, Projection.tree_xml,
    Transform.tree_xml, DateTime.tree_xml]
  str_eq

theorem join_map_congr {α} (l : List α) (f : α → XNode) (g : α → String) (h : ∀ a ∈ l, renderLn (f a) = g a) :
    String.join ((l.map f).map renderLn) = String.join (l.map g) := by
  rw [List.map_map]
  congr 1
  exact List.map_congr_left (fun a ha => h a ha)

theorem renderLn_vectorT (tag : String) (kids : List XNode) :
    renderLn (vectorT none tag kids)
      = "<" ++ tag ++ " type=\"Vector\" allowHeterogeneousChildren=\"1\">\n" ++ String.join (kids.map renderLn)
        ++ "</" ++ tag ++ ">\n" := by
  rw [vectorT, renderLn_container _ _ _ (by decide)]
  str_eq [renderAttrs, renderAttr, tattr, at_, String.join_cons, String.join_nil]

theorem renderDoc_el (exts name attrs cs) :
    renderDoc exts (el none name attrs cs) =
      "<?xml version=\"1.0\" encoding=\"UTF-8\"?>\n" ++ "<" ++ name ++ renderAttrs attrs ++ " " ++ renderNsDecls exts ++ ">"
      ++ renderList false cs ++ "</" ++ name ++ ">\n" := rfl

/-- the one closed fact about Lean's `String.replace` that cannot be established by kernel evaluation
    (`String.replace` runs on an opaque well-founded fixpoint and core has no lemmas about it): the
    constant format name contains no `]]>`, so escaping leaves it alone.  `#eval` confirms it.
    (Since `cdataEscape` became a structural recursion on characters this is a THEOREM:
    `XmlP.formatNameUnescaped` in E57/Proofs/XmlRoundTrip.lean, by `decide`; `XmlP.C04_text_roundtrip`
    uses `document_text` with it.) -/
def FormatNameUnescaped : Prop :=
  cdataEscape "ASTM E57 3D Imaging Data File" = "ASTM E57 3D Imaging Data File"

/-- the text of the document in a normal form -/
def rootText (ft : FloatText) (root : Root) (pcs : List PointCloud) (imgs : List Image)
    (exts : List (String × String)) : String :=
  "<?xml version=\"1.0\" encoding=\"UTF-8\"?>\n"
    ++ "<e57Root type=\"Structure\" "
    ++ String.join (exts.map (fun e => s!"xmlns:{e.1}=\"{attrEscape e.2}\" "))
    ++ "xmlns=\"http://www.astm.org/COMMIT/E57/2010-e57-v1.0\">\n"
    ++ "<formatName type=\"String\"><![CDATA[ASTM E57 3D Imaging Data File]]></formatName>\n"
    ++ genString "guid" root.guid
    ++ "<versionMajor type=\"Integer\">1</versionMajor>\n"
    ++ "<versionMinor type=\"Integer\">0</versionMinor>\n"
    ++ optS root.coordinateMetadata (genString "coordinateMetadata")
    ++ optS root.libraryVersion (genString "e57LibraryVersion")
    ++ optS root.creation (fun d => d.xmlString ft "creationDateTime")
    ++ "<data3D type=\"Vector\" allowHeterogeneousChildren=\"1\">\n"
    ++ String.join (pcs.map (E57.PointCloud.xmlString ft))
    ++ "</data3D>\n"
    ++ "<images2D type=\"Vector\" allowHeterogeneousChildren=\"1\">\n"
    ++ String.join (imgs.map (E57.Image.xmlString ft))
    ++ "</images2D>\n"
    ++ "</e57Root>\n"

set_option maxRecDepth 8000 in
theorem serializeRoot_eq_rootText (ft : FloatText) (root : Root) (pcs : List PointCloud) (imgs : List Image)
    (exts : List (String × String)) (hg : root.guid.isEmpty = false) :
    serializeRoot ft root pcs imgs exts = some (rootText ft root pcs imgs exts) := by
  unfold serializeRoot
  split
  · rename_i hc; rw [hg] at hc; cases hc
  rfl

set_option maxRecDepth 8000 in
theorem renderDoc_rootTree (ft : FloatText) (root : Root) (pcs : List PointCloud) (imgs : List Image)
    (exts : List (String × String)) (h0 : e57Prefix exts = none)
    (hp : ∀ pc ∈ pcs, ∀ r ∈ pc.prototype, RecordPrefixOK exts r.name) (hfmt : FormatNameUnescaped) :
    renderDoc exts (rootTree ft root pcs imgs exts) = rootText ft root pcs imgs exts := by
  have h1 := join_map_congr pcs (PointCloud.tree ft exts) (E57.PointCloud.xmlString ft)
    (fun pc hpc => PointCloud.tree_xml ft exts pc h0 (hp pc hpc))
  have h2 := join_map_congr imgs (Image.tree ft none) (E57.Image.xmlString ft) (fun i _ => Image.tree_xml ft i)
  have h3 : renderLn (genStringTree none "formatName" "ASTM E57 3D Imaging Data File")
      = "<formatName type=\"String\"><![CDATA[ASTM E57 3D Imaging Data File]]></formatName>\n" := by
    rw [genString_tree, genString, hfmt]
    str_eq
  have h4 : renderLn (genIntTree none "versionMajor" 1) = "<versionMajor type=\"Integer\">1</versionMajor>\n" := by
    rw [genInt_tree, genInt, show toString (1 : Int) = "1" by decide +kernel]; str_eq
  have h5 : renderLn (genIntTree none "versionMinor" 0) = "<versionMinor type=\"Integer\">0</versionMinor>\n" := by
    rw [genInt_tree, genInt, show toString (0 : Int) = "0" by decide +kernel]; str_eq
  have hr : rootTree ft root pcs imgs exts = el none "e57Root" [tattr "Structure"] (lines
      ([genStringTree none "formatName" "ASTM E57 3D Imaging Data File", genStringTree none "guid" root.guid,
        genIntTree none "versionMajor" 1, genIntTree none "versionMinor" 0]
      ++ optT root.coordinateMetadata (genStringTree none "coordinateMetadata")
      ++ optT root.libraryVersion (genStringTree none "e57LibraryVersion")
      ++ optT root.creation (fun d => DateTime.tree ft none d "creationDateTime")
      ++ [vectorT none "data3D" (pcs.map (PointCloud.tree ft exts)),
          vectorT none "images2D" (imgs.map (Image.tree ft none))])) := by
    simp only [rootTree, h0, structT]
  rw [hr, renderDoc_el, renderList_lines]
  simp only [List.append_assoc, List.cons_append, List.nil_append, List.map_cons, List.map_nil, String.join_cons,
    String.join_nil, join_optT_append, join_optT, genString_tree, DateTime.tree_xml, renderLn_vectorT, h1, h2, h3, h4, h5]
  unfold rootText
  apply String.toList_inj.mp
  simp only [toString_str, String.toList_append, renderAttrs, renderAttr, tattr, at_, String.join_cons, String.join_nil,
    renderNsDecls, String.toList_join, List.flatMap_map, List.map_cons, List.map_nil]
  simp

/-- the whole document, character for character: `renderDoc` of the tree is what `serializeRoot` writes
    (`_partial`: modulo `FormatNameUnescaped`, see there) -/
theorem rootTree_xml_partial (ft : FloatText) (root : Root) (pcs : List PointCloud) (imgs : List Image)
    (exts : List (String × String)) (hg : root.guid.isEmpty = false) (h0 : e57Prefix exts = none)
    (hp : ∀ pc ∈ pcs, ∀ r ∈ pc.prototype, RecordPrefixOK exts r.name) (hfmt : FormatNameUnescaped) :
    some (renderDoc exts (rootTree ft root pcs imgs exts)) = serializeRoot ft root pcs imgs exts := by
  rw [serializeRoot_eq_rootText ft root pcs imgs exts hg, renderDoc_rootTree ft root pcs imgs exts h0 hp hfmt]

/-! ## 12. the side conditions of section 11 under the writer's invariant; floats; the token dump -/

/-- under the writer's invariant no extension captures the E57 namespace: E57 elements have no prefix -/
theorem e57Prefix_none_of_ExtsOk {exts : List (String × String)} (h : ExtsOk exts = true) : e57Prefix exts = none := by
  unfold e57Prefix lookupPrefix rootNamespaces
  have hx : (e57NsUri == xmlNsUri) = false := by decide
  simp only [hx, Bool.false_eq_true, if_false]
  rw [List.find?_append]
  have : (exts.map (fun e => ((some e.1 : Option String), e.2))).find? (fun n => n.2 == e57NsUri) = none := by
    apply List.find?_eq_none.mpr
    intro n hn
    obtain ⟨e, he, rfl⟩ := List.mem_map.mp hn
    have := (ExtsOk_url h he).2
    simpa [e57NsUri, e57Namespace] using this
  simp [this]

/-- under the writer's invariant the prefix of every registered extension record is reported as written -/
theorem RecordPrefixOK_of_ExtsOk {exts : List (String × String)} (h : ExtsOk exts = true)
    (hx : ∀ e ∈ exts, e.2 ≠ xmlNsUri) (name : RecordName)
    (hreg : ∀ ns, name.namespace? = some ns → ∃ url, (ns, url) ∈ exts) : RecordPrefixOK exts name := by
  unfold RecordPrefixOK recordNs
  cases hn : name.namespace? with
  | none => simpa using e57Prefix_none_of_ExtsOk h
  | some ns =>
    obtain ⟨url, hm⟩ := hreg ns hn
    obtain ⟨u, h1, h2, _⟩ := RecordNameOK_of_ExtsOk h "x" hm (hx _ hm)
    have : u = url := by
      have := extUrl_of_mem h hm
      rw [h1] at this; exact Option.some.inj this
    subst this
    simp [h1, h2]

/-- C04, obligation A for the whole file under the writer's invariant -/
theorem document_text (ft : FloatText) (root : Root) (pcs : List PointCloud) (imgs : List Image)
    (exts : List (String × String)) (hg : root.guid.isEmpty = false) (h : ExtsOk exts = true)
    (hx : ∀ e ∈ exts, e.2 ≠ xmlNsUri)
    (hv : ∀ pc ∈ pcs, validateExtensions pc.prototype exts = true) (hfmt : FormatNameUnescaped) :
    some (renderDoc exts (rootTree ft root pcs imgs exts)) = serializeRoot ft root pcs imgs exts := by
  apply rootTree_xml_partial ft root pcs imgs exts hg (e57Prefix_none_of_ExtsOk h) _ hfmt
  intro pc hpc r hr
  apply RecordPrefixOK_of_ExtsOk h hx
  intro ns hns
  have := (List.all_eq_true.mp (hv pc hpc)) r hr
  cases hn : r.name with
  | unknown ns' nm =>
    simp only [hn, RecordName.namespace?, Option.some.injEq] at hns
    subst hns
    simp only [hn, Bool.and_eq_true, List.any_eq_true, beq_iff_eq] at this
    obtain ⟨_, e, he, rfl⟩ := this
    exact ⟨e.2, he⟩
  | _ => simp [hn, RecordName.namespace?] at hns

/-! ### floats -/

/-- if the printer gives two bit patterns the same text, at most one of them can survive: the hypothesis
    `F64OK` singles out exactly the values on which printing loses nothing -/
theorem F64OK_inj {ft fp} {v w : UInt64} (hv : F64OK ft fp v) (hw : F64OK ft fp w)
    (h : ft.show64 v = ft.show64 w) : v = w := by
  have hv := hv.parse
  rw [h, hw.parse] at hv
  exact (Option.some.inj hv).symm

/-- Rust prints every NaN as `NaN` and parses `NaN` to the canonical quiet NaN: with such a printer and
    parser a NaN with another payload (here the negative quiet NaN) comes back CHANGED -/
theorem nan_payload_lost :
    let ft : FloatText := ⟨[(0x7FF8000000000000, "NaN"), (0xFFF8000000000000, "NaN")], []⟩
    let fp : FloatParse := ⟨[("NaN", (some 0x7FF8000000000000, some 0x7FC00000))]⟩
    F64OK ft fp 0x7FF8000000000000 ∧ ¬ F64OK ft fp 0xFFF8000000000000 ∧
    optF64 fp (structT none "x" [genFloatTree ft none "temperature" 0xFFF8000000000000]) "temperature"
      = some (some 0x7FF8000000000000) := by
  refine ⟨by decide, by decide, ?_⟩
  simp [optF64, typedChild, genFloatTree]
  decide

end E57.MT
