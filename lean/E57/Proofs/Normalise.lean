/-
C13 — normalisation of intensity / colour components (`E57/Model/Simple.lean`, section
"normalisation ranges"; Rust: `((value.clamp(min,max) * scale - min * scale) / range) as f32` with
`scale = 1.0` unless `max - min` overflows, in which case `scale = 0.5`, and
`range = max * scale - min * scale`).

The model is written over an arbitrary carrier `F` with a `FloatOps F` instance.  Nothing is (or can
be) proved about Lean's opaque `Float`; instead the IEEE-754 facts the argument needs are collected
as FIELDS of the class `IEEELike F` below (hypotheses, not axioms) and every theorem quantifies over
all carriers satisfying them.  A consistency witness (`ExactF := Option ℚ`, exact arithmetic, a crude
but monotone 1-bit "f32") shows the hypotheses are not contradictory.

Semantics: `val : F → Option ℚ`; `val x = none` means "NaN or ±∞", `some q` means the finite
number `q` (±0 both map to `0`).  `rnd : ℚ → ℚ` is the binary64 rounding (with unbounded exponent
range, so that overflow is expressed separately), `rnd32` the rounding of the `as f32` cast, and
`val32 : UInt32 → Option ℚ` the decoding of an f32 bit pattern.

WHICH HYPOTHESIS IS USED WHERE  (fields of `IEEELike`)

  field                     | degenerate | unit_interval | monotone | endpoints | formula | cast lifts
  --------------------------+------------+---------------+----------+-----------+---------+-----------
  isFinite_eq               |     x      |   x (via nondeg_spec: to read "range finite", and to
                            |            |      read which `scale` was chosen)
  val_zero  (⇒ rnd 0 = 0)   |     x      |       x       |    x     |     x     |    x    |
  val_half, val_one         |     x      |       x       |    x     |     x     |    x    |
     (val_one ⇒ rnd 1 = 1; it is also the finite number that bounds the quotient from above)
  rnd_mono                  |     x      |       x       |    x     |     x     |    x    |
  rnd_val (representable    |     x      |       x       |    x     |     x     |    x    |
    numbers are fixed by rnd)   (rnd 0 = 0, rnd 1 = 1, x*1 is exact, |rnd(c/2)| ≤ |c| ⇒ scaling is finite)
  mul_spec / sub_spec       |     x      |       x       |    x     |     x     |    x    |
  div_spec                  |            |       x       |    x     |     x     |    x    |
  mul_nonfinite, sub_nonfinite_left/right
                            |  only to show that a NaN/∞ `min` or `max` gives a non-finite
                            |  `range` (⇒ degenerate); everything else assumes nothing about
                            |  operations on non-finite operands
  lt_iff (finite operands)  |     x      |       x       |    x     |     x     |    x    |
  rnd32_mono/zero/one, val32_cast, val32_zero                                            |     x
  sub_rnd_ne_zero, half_range_finite
                            |  ONLY for "`min < max` ⇒ non-degenerate" (`C13_nondegenerate_of_lt`,
                            |  `C13_nondegenerate_iff`) and what follows from it without a
                            |  non-degeneracy hypothesis (`C13_endpoints_all`, `…_bits`)

  * Nothing is assumed about `lt` on NaN/∞ operands: `from_min_max` tests `isFinite` itself and all
    other comparisons are between finite numbers (the theorems take a finite stored value `v`).
  * No "halving is exact" assumption is needed: monotonicity of `rnd` + "representables are fixed"
    suffice.  Multiplication by `1.0` IS exact, as a consequence of `mul_spec` + `rnd_val`
    (`val_mul_one`).  No idempotence field is needed — it is the special case `rnd_val` of a
    computed (hence representable) result.
  * A hypothesis the proof FORCED: *no spurious overflow*.  `[0,1]`-ness needs the three intermediate
    results to be finite, and monotone rounding alone cannot give that.  It is stated in the weakest
    natural form (`RoundsTo.finite`): an operation on finite operands whose correctly rounded result
    lies between the values of two finite numbers of the format delivers a finite number.  The
    sandwiching numbers used are: `0` and `c` (scaling), `0` and `range` (the subtraction),
    `0` and `1` (the quotient); and `max - min` itself for `range` in the unscaled branch.
  * Two further hypotheses FORCED by "`min < max` ⇒ non-degenerate":
      - `sub_rnd_ne_zero` (gradual underflow; called `sub_ne_zero` in the task, renamed to avoid the
        clash with Mathlib's lemma): the difference of two distinct numbers of the format never
        rounds to zero.  Without it (flush-to-zero arithmetic) `max - min` may be 0 for `min < max`.
      - `half_range_finite`: if `b − a` overflows for finite `a < b`, then `b*0.5 − a*0.5` is finite
        and positive.  (binary64: if `b − a` overflows one of `|a|,|b|` is ≥ 2^1022, halving it is
        exact, and `b/2 − a/2 ≤` the largest finite number.)
    With them the converse of `C13_degenerate` HOLDS (`C13_nondegenerate_iff`): for finite bounds the
    range is degenerate iff `¬ min < max`.  (For the previous version of the code — always halving —
    this was false: `min = 0`, `max = 2^-1074` gave `max*0.5 = 0`, `range = 0`, and the maximum was
    delivered as 0.  That finding led to the `scale` fix; on the executable `Float` model
    `normalize max` is now `1.0f32` for that range.)
  * STILL NOT CLAIMED, because false: "the delivered number EQUALS (v−min)/(max−min)".  It equals
    it only up to the roundings shown in `C13_formula` (three in the usual branch `scale = 1`, see
    `C13_formula_unscaled`: `rnd (rnd (c − min) / rnd (max − min))`); e.g. `min = 0`, `max = 3`,
    `v = 1` delivers `rnd (1/3) ≠ 1/3`.  On an exact carrier (`rnd = id`) the formula is exact
    (`C13_formula_exact`).
  * `val_one` enters the degenerate theorems only formally (through the bundled `Rounding` record
    and the value of `scale`); the argument there uses just `rnd_mono` and `rnd 0 = 0`.
-/
import E57.Model.Simple
import Mathlib.Tactic.Linarith
import Mathlib.Tactic.Ring
import Mathlib.Tactic.FieldSimp
import Mathlib.Algebra.Order.Field.Basic
import Mathlib.Algebra.Order.Field.Rat

namespace E57

/-! ## 1. the real-number side: a monotone rounding on `ℚ` -/

/-- the three facts about a rounding function used on the real-number side -/
structure Rounding (rnd : ℚ → ℚ) : Prop where
  mono : ∀ {a b : ℚ}, a ≤ b → rnd a ≤ rnd b
  zero : rnd 0 = 0
  one : rnd 1 = 1

/-- `f64::clamp` on numbers -/
def qclamp (v lo hi : ℚ) : ℚ := if v < lo then lo else if hi < v then hi else v

/-- value of `range` for scale `s`: `rnd (rnd (max*s) − rnd (min*s))` -/
def rangeQ (rnd : ℚ → ℚ) (s lo hi : ℚ) : ℚ := rnd (rnd (hi * s) - rnd (lo * s))

/-- value of the numerator: `rnd (rnd (clamp v * s) − rnd (min*s))` -/
def numQ (rnd : ℚ → ℚ) (s lo hi v : ℚ) : ℚ := rnd (rnd (qclamp v lo hi * s) - rnd (lo * s))

/-- value of the normalised number: `rnd (numerator / range)` -/
def normQ (rnd : ℚ → ℚ) (s lo hi v : ℚ) : ℚ := rnd (numQ rnd s lo hi v / rangeQ rnd s lo hi)

theorem qclamp_mem {v lo hi : ℚ} (h : lo ≤ hi) : lo ≤ qclamp v lo hi ∧ qclamp v lo hi ≤ hi := by
  unfold qclamp; split_ifs <;> constructor <;> linarith

theorem qclamp_mono {v v' lo hi : ℚ} (h : lo ≤ hi) (hv : v ≤ v') :
    qclamp v lo hi ≤ qclamp v' lo hi := by
  unfold qclamp; split_ifs <;> linarith

theorem qclamp_of_le {v lo hi : ℚ} (h : lo ≤ hi) (hv : v ≤ lo) : qclamp v lo hi = lo := by
  unfold qclamp; split_ifs <;> linarith

theorem qclamp_of_ge {v lo hi : ℚ} (h : lo ≤ hi) (hv : hi ≤ v) : qclamp v lo hi = hi := by
  unfold qclamp; split_ifs <;> linarith

/-- `qclamp` returns one of its three arguments -/
theorem qclamp_cases (v lo hi : ℚ) :
    qclamp v lo hi = v ∨ qclamp v lo hi = lo ∨ qclamp v lo hi = hi := by
  unfold qclamp; split_ifs <;> simp

/-- "`(v − min)/(max − min)` clamped to the unit interval" is "clamp `v` first, then scale" -/
theorem ratio_clamp {v lo hi : ℚ} (h : lo < hi) :
    (qclamp v lo hi - lo) / (hi - lo) = qclamp ((v - lo) / (hi - lo)) 0 1 := by
  have hp : 0 < hi - lo := by linarith
  unfold qclamp
  by_cases h1 : v < lo
  · have : (v - lo) / (hi - lo) < 0 := div_neg_of_neg_of_pos (by linarith) hp
    simp [h1, this]
  · have h1' : ¬ (v - lo) / (hi - lo) < 0 := by
      have : 0 ≤ (v - lo) / (hi - lo) := div_nonneg (by linarith) hp.le
      linarith
    by_cases h2 : hi < v
    · have : 1 < (v - lo) / (hi - lo) := by rw [one_lt_div hp]; linarith
      simp [h1, h2, h1', this, div_self hp.ne']
    · have : ¬ 1 < (v - lo) / (hi - lo) := by rw [one_lt_div hp]; linarith
      simp [h1, h2, h1', this]

section Pure
variable {rnd : ℚ → ℚ} (R : Rounding rnd) {s : ℚ} (hs : 0 ≤ s)
include R hs

theorem rangeQ_pos_imp {lo hi : ℚ} (h : 0 < rangeQ rnd s lo hi) : lo < hi := by
  by_contra hc
  have hc : hi ≤ lo := not_lt.mp hc
  have h1 : rnd (hi * s) ≤ rnd (lo * s) := R.mono (mul_le_mul_of_nonneg_right hc hs)
  have h2 : rnd (rnd (hi * s) - rnd (lo * s)) ≤ rnd 0 := R.mono (by linarith)
  rw [R.zero] at h2
  unfold rangeQ at h
  linarith

theorem numQ_nonneg {lo hi v : ℚ} (h : lo ≤ hi) : 0 ≤ numQ rnd s lo hi v := by
  have hc := (qclamp_mem (v := v) h).1
  have h1 : rnd (lo * s) ≤ rnd (qclamp v lo hi * s) := R.mono (mul_le_mul_of_nonneg_right hc hs)
  have h2 : rnd 0 ≤ rnd (rnd (qclamp v lo hi * s) - rnd (lo * s)) := R.mono (by linarith)
  rw [R.zero] at h2
  exact h2

theorem numQ_le {lo hi v : ℚ} (h : lo ≤ hi) : numQ rnd s lo hi v ≤ rangeQ rnd s lo hi := by
  have hc := (qclamp_mem (v := v) h).2
  have h1 : rnd (qclamp v lo hi * s) ≤ rnd (hi * s) := R.mono (mul_le_mul_of_nonneg_right hc hs)
  exact R.mono (by linarith)

theorem numQ_mono {lo hi v v' : ℚ} (h : lo ≤ hi) (hv : v ≤ v') :
    numQ rnd s lo hi v ≤ numQ rnd s lo hi v' := by
  have hc := qclamp_mono h hv
  have h1 : rnd (qclamp v lo hi * s) ≤ rnd (qclamp v' lo hi * s) :=
    R.mono (mul_le_mul_of_nonneg_right hc hs)
  exact R.mono (by linarith)

omit hs in
theorem numQ_of_le {lo hi v : ℚ} (h : lo ≤ hi) (hv : v ≤ lo) : numQ rnd s lo hi v = 0 := by
  unfold numQ; rw [qclamp_of_le h hv, sub_self, R.zero]

omit R hs in
theorem numQ_of_ge {lo hi v : ℚ} (h : lo ≤ hi) (hv : hi ≤ v) :
    numQ rnd s lo hi v = rangeQ rnd s lo hi := by
  unfold numQ rangeQ; rw [qclamp_of_ge h hv]

theorem normQ_nonneg {lo hi v : ℚ} (hp : 0 < rangeQ rnd s lo hi) : 0 ≤ normQ rnd s lo hi v := by
  have hl := (rangeQ_pos_imp R hs hp).le
  have : rnd 0 ≤ rnd (numQ rnd s lo hi v / rangeQ rnd s lo hi) :=
    R.mono (div_nonneg (numQ_nonneg R hs hl) hp.le)
  rw [R.zero] at this
  exact this

theorem normQ_le_one {lo hi v : ℚ} (hp : 0 < rangeQ rnd s lo hi) : normQ rnd s lo hi v ≤ 1 := by
  have hl := (rangeQ_pos_imp R hs hp).le
  have : rnd (numQ rnd s lo hi v / rangeQ rnd s lo hi) ≤ rnd 1 :=
    R.mono ((div_le_one hp).mpr (numQ_le R hs hl))
  rw [R.one] at this
  exact this

theorem normQ_mono {lo hi v v' : ℚ} (hp : 0 < rangeQ rnd s lo hi) (hv : v ≤ v') :
    normQ rnd s lo hi v ≤ normQ rnd s lo hi v' := by
  have hl := (rangeQ_pos_imp R hs hp).le
  exact R.mono (div_le_div_of_nonneg_right (numQ_mono R hs hl hv) hp.le)

theorem normQ_of_le {lo hi v : ℚ} (hp : 0 < rangeQ rnd s lo hi) (hv : v ≤ lo) :
    normQ rnd s lo hi v = 0 := by
  have hl := (rangeQ_pos_imp R hs hp).le
  unfold normQ; rw [numQ_of_le R hl hv, zero_div, R.zero]

theorem normQ_of_ge {lo hi v : ℚ} (hp : 0 < rangeQ rnd s lo hi) (hv : hi ≤ v) :
    normQ rnd s lo hi v = 1 := by
  have hl := (rangeQ_pos_imp R hs hp).le
  unfold normQ; rw [numQ_of_ge hl hv, div_self hp.ne', R.one]

end Pure

theorem rounding_id : Rounding (id : ℚ → ℚ) := ⟨fun h => h, rfl, rfl⟩

/-- with exact arithmetic the delivered number is exactly the documented ratio, whatever the scale -/
theorem normQ_id {s lo hi v : ℚ} (hs : s ≠ 0) (h : lo < hi) :
    normQ id s lo hi v = (qclamp v lo hi - lo) / (hi - lo) := by
  have h1 : hi - lo ≠ 0 := by intro h'; linarith
  have h2 : hi * s - lo * s ≠ 0 := by
    rw [← sub_mul]; exact mul_ne_zero h1 hs
  simp only [normQ, numQ, rangeQ, id]
  rw [div_eq_div_iff h2 h1]
  ring

/-! ## 2. the IEEE hypotheses -/

open FloatOps

/-- `res` is the correctly rounded result of an operation on finite operands whose exact value is
    `x`: if it is finite it is `rnd x`, and it IS finite whenever `rnd x` lies between the values of
    two finite numbers of the format (no spurious overflow). -/
structure RoundsTo {F : Type} (val : F → Option ℚ) (rnd : ℚ → ℚ) (res : F) (x : ℚ) : Prop where
  value : ∀ r, val res = some r → r = rnd x
  finite : ∀ (l u : F) (vl vu : ℚ), val l = some vl → val u = some vu →
    vl ≤ rnd x → rnd x ≤ vu → ∃ r, val res = some r

theorem RoundsTo.eq {F : Type} {val : F → Option ℚ} {rnd : ℚ → ℚ} {res : F} {x : ℚ}
    (h : RoundsTo val rnd res x) {l u : F} {vl vu : ℚ} (hl : val l = some vl) (hu : val u = some vu)
    (h1 : vl ≤ rnd x) (h2 : rnd x ≤ vu) : val res = some (rnd x) := by
  obtain ⟨r, hr⟩ := h.finite l u vl vu hl hu h1 h2
  rw [hr, h.value r hr]

/-- The IEEE-754 facts used by the C13 proofs, as hypotheses about a carrier `F`. -/
class IEEELike (F : Type) [FloatOps F] where
  /-- real-number semantics; `none` = NaN or ±∞ -/
  val : F → Option ℚ
  /-- rounding to the format of `F` (binary64), exponent range unbounded above -/
  rnd : ℚ → ℚ
  /-- rounding of the `as f32` cast -/
  rnd32 : ℚ → ℚ
  /-- decoding of an f32 bit pattern; `none` = NaN or ±∞ -/
  val32 : UInt32 → Option ℚ
  /-- `is_finite` is "has a real value" -/
  isFinite_eq : ∀ x : F, isFinite x = (val x).isSome
  /-- the literal `0.0` -/
  val_zero : val (zero : F) = some 0
  /-- the literal `0.5` -/
  val_half : val (half : F) = some (1 / 2)
  /-- the literal `1.0` -/
  val_one : val (one : F) = some 1
  /-- rounding is monotone -/
  rnd_mono : ∀ {a b : ℚ}, a ≤ b → rnd a ≤ rnd b
  /-- numbers of the format are fixed by rounding -/
  rnd_val : ∀ {x : F} {vx : ℚ}, val x = some vx → rnd vx = vx
  /-- `*` on finite operands is correctly rounded -/
  mul_spec : ∀ {a b : F} {va vb : ℚ}, val a = some va → val b = some vb →
    RoundsTo val rnd (mul a b) (va * vb)
  /-- `-` on finite operands is correctly rounded -/
  sub_spec : ∀ {a b : F} {va vb : ℚ}, val a = some va → val b = some vb →
    RoundsTo val rnd (sub a b) (va - vb)
  /-- `/` on finite operands, non-zero divisor, is correctly rounded -/
  div_spec : ∀ {a b : F} {va vb : ℚ}, val a = some va → val b = some vb → vb ≠ 0 →
    RoundsTo val rnd (div a b) (va / vb)
  /-- NaN/∞ times anything is NaN/∞ -/
  mul_nonfinite : ∀ {a b : F}, val a = none → val (mul a b) = none
  /-- NaN/∞ minus anything is NaN/∞ -/
  sub_nonfinite_left : ∀ {a b : F}, val a = none → val (sub a b) = none
  /-- anything minus NaN/∞ is NaN/∞ -/
  sub_nonfinite_right : ∀ {a b : F}, val b = none → val (sub a b) = none
  /-- `<` on finite operands compares the values (nothing is assumed for NaN/∞ operands) -/
  lt_iff : ∀ {a b : F} {va vb : ℚ}, val a = some va → val b = some vb →
    (lt a b = true ↔ va < vb)
  /-- GRADUAL UNDERFLOW (`sub_ne_zero` of the task; renamed because Mathlib owns that name): the
      difference of two distinct numbers of the format never rounds to zero.  Used only for
      "`min < max` ⇒ non-degenerate". -/
  sub_rnd_ne_zero : ∀ {a b : F} {va vb : ℚ}, val a = some va → val b = some vb → va ≠ vb →
    rnd (va - vb) ≠ 0
  /-- OVERFLOW BRANCH: if `b − a` overflows for finite `a < b`, the difference of the halved values
      is finite and positive.  (binary64: then `|a|` or `|b|` is ≥ 2^1022, halving it is exact, and
      `b/2 − a/2` does not exceed the largest finite number.)  Used only for
      "`min < max` ⇒ non-degenerate". -/
  half_range_finite : ∀ {a b : F} {va vb : ℚ}, val a = some va → val b = some vb → va < vb →
    val (sub b a) = none → ∃ r : ℚ, val (sub (mul b half) (mul a half)) = some r ∧ 0 < r
  /-- the f32 rounding is monotone -/
  rnd32_mono : ∀ {a b : ℚ}, a ≤ b → rnd32 a ≤ rnd32 b
  /-- `0.0` is an f32 -/
  rnd32_zero : rnd32 0 = 0
  /-- `1.0` is an f32 -/
  rnd32_one : rnd32 1 = 1
  /-- `x as f32` for a finite `x` in the unit interval is the f32 rounding of `x` -/
  val32_cast : ∀ {x : F} {vx : ℚ}, val x = some vx → 0 ≤ vx → vx ≤ 1 →
    val32 (toF32Bits x) = some (rnd32 vx)
  /-- the bit pattern `0` (the literal returned for degenerate ranges) is `+0.0f32` -/
  val32_zero : val32 0 = some 0

namespace IEEELike
variable {F : Type} [FloatOps F] [I : IEEELike F]

theorem rnd_zero : rnd F 0 = 0 := rnd_val (val_zero (F := F))

theorem rnd_one : rnd F 1 = 1 := rnd_val (val_one (F := F))

theorem rounding : Rounding (rnd F) := ⟨rnd_mono, rnd_zero, rnd_one⟩

theorem rounding32 : Rounding (rnd32 F) := ⟨rnd32_mono, rnd32_zero, rnd32_one⟩

theorem lt_irrefl_zero : lt (zero : F) zero = false := by
  have := lt_iff (val_zero (F := F)) (val_zero (F := F))
  cases h : lt (zero : F) zero
  · rfl
  · exact absurd (this.mp h) (lt_irrefl _)

/-- scaling a finite number by a finite factor in `[0,1]` is finite and is `rnd (x*s)` -/
theorem val_mul_scale {a s : F} {va vs : ℚ} (ha : val a = some va) (hs : val s = some vs)
    (h0 : 0 ≤ vs) (h1 : vs ≤ 1) : val (mul a s) = some (rnd F (va * vs)) := by
  have hsp := mul_spec ha hs
  rcases le_total 0 va with h | h
  · have e1 : 0 ≤ va * vs := mul_nonneg h h0
    have e2 : va * vs ≤ va := by nlinarith
    refine hsp.eq (val_zero (F := F)) ha ?_ ?_
    · have := rnd_mono (F := F) e1; rwa [rnd_zero] at this
    · have := rnd_mono (F := F) e2; rwa [rnd_val ha] at this
  · have e1 : va * vs ≤ 0 := mul_nonpos_of_nonpos_of_nonneg h h0
    have e2 : va ≤ va * vs := by nlinarith
    refine hsp.eq ha (val_zero (F := F)) ?_ ?_
    · have := rnd_mono (F := F) e2; rwa [rnd_val ha] at this
    · have := rnd_mono (F := F) e1; rwa [rnd_zero] at this

/-- multiplication by `1.0` is exact (consequence of `mul_spec` + `rnd_val`) -/
theorem val_mul_one {a : F} {va : ℚ} (ha : val a = some va) : val (mul a one) = some va := by
  have := val_mul_scale ha (val_one (F := F)) zero_le_one le_rfl
  rwa [mul_one, rnd_val ha] at this

/-- the model's clamp computes `qclamp` on finite operands -/
theorem val_fclampG {v lo hi : F} {vv vlo vhi : ℚ} (hv : val v = some vv) (hlo : val lo = some vlo)
    (hhi : val hi = some vhi) : val (fclampG v lo hi) = some (qclamp vv vlo vhi) := by
  unfold fclampG qclamp
  by_cases h1 : vv < vlo
  · rw [if_pos ((lt_iff hv hlo).mpr h1), if_pos h1]; exact hlo
  · have h1' : ¬ lt v lo = true := fun h => h1 ((lt_iff hv hlo).mp h)
    rw [if_neg h1', if_neg h1]
    by_cases h2 : vhi < vv
    · rw [if_pos ((lt_iff hhi hv).mpr h2), if_pos h2]; exact hhi
    · have h2' : ¬ lt hi v = true := fun h => h2 ((lt_iff hhi hv).mp h)
      rw [if_neg h2', if_neg h2]; exact hv

/-! ## 3. `from_min_max` -/

/-- the `scale` chosen by `from_min_max`: `1.0` unless `max − min` overflows -/
def scaleF (min max : F) : F := if isFinite (sub max min) = true then one else half

/-- its value -/
def scaleQ (min max : F) : ℚ := if isFinite (sub max min) = true then 1 else 1 / 2

/-- the `range` computed by `from_min_max` -/
def rangeF (min max : F) : F := sub (mul max (scaleF min max)) (mul min (scaleF min max))

theorem val_scaleF (min max : F) : val (scaleF min max) = some (scaleQ min max) := by
  unfold scaleF scaleQ; split_ifs
  · exact val_one
  · exact val_half

omit I in
theorem scaleQ_pos (min max : F) : 0 < scaleQ min max := by
  unfold scaleQ; split_ifs <;> norm_num

omit I in
theorem scaleQ_le_one (min max : F) : scaleQ min max ≤ 1 := by
  unfold scaleQ; split_ifs <;> norm_num

theorem val_mul_scaleF {a : F} {va : ℚ} (min max : F) (ha : val a = some va) :
    val (mul a (scaleF min max)) = some (rnd F (va * scaleQ min max)) :=
  val_mul_scale ha (val_scaleF min max) (scaleQ_pos min max).le (scaleQ_le_one min max)

omit I in
theorem fromMinMax_eq (min max : F) :
    RangeG.fromMinMax min max =
      if lt zero (rangeF min max) && isFinite (rangeF min max)
      then ⟨min, max, scaleF min max, rangeF min max⟩ else ⟨zero, zero, one, zero⟩ := rfl

/-- Everything known in the non-degenerate branch.  The test `0 < r.range` made by `normalize`
    succeeds only if `min`, `max` are finite with `min < max`, the range is
    `⟨min, max, scale, range⟩`, and `range` is finite, positive, with value
    `rnd (rnd (max*s) − rnd (min*s))`, `s` the value of `scale`. -/
theorem nondeg_spec {min max : F}
    (hnd : lt zero (RangeG.fromMinMax min max).range = true) :
    ∃ vmin vmax : ℚ, val min = some vmin ∧ val max = some vmax ∧ vmin < vmax ∧
      RangeG.fromMinMax min max = ⟨min, max, scaleF min max, rangeF min max⟩ ∧
      val (rangeF min max) = some (rangeQ (rnd F) (scaleQ min max) vmin vmax) ∧
      0 < rangeQ (rnd F) (scaleQ min max) vmin vmax := by
  rw [fromMinMax_eq] at hnd ⊢
  by_cases ht : (lt zero (rangeF min max) && isFinite (rangeF min max)) = true
  · rw [if_pos ht] at hnd ⊢
    simp only [Bool.and_eq_true] at ht
    obtain ⟨hlt, hfin⟩ := ht
    rw [isFinite_eq] at hfin
    obtain ⟨vh, hvh⟩ := Option.isSome_iff_exists.mp hfin
    -- `min`, `max` are finite, otherwise `range` would not be
    have hmin : ∃ vmin, val min = some vmin := by
      cases hm : val min with
      | some q => exact ⟨q, rfl⟩
      | none =>
        have : val (rangeF min max) = none := sub_nonfinite_right (mul_nonfinite hm)
        rw [this] at hvh; cases hvh
    have hmax : ∃ vmax, val max = some vmax := by
      cases hm : val max with
      | some q => exact ⟨q, rfl⟩
      | none =>
        have : val (rangeF min max) = none := sub_nonfinite_left (mul_nonfinite hm)
        rw [this] at hvh; cases hvh
    obtain ⟨vmin, hmin⟩ := hmin
    obtain ⟨vmax, hmax⟩ := hmax
    have hs := sub_spec (val_mul_scaleF min max hmax) (val_mul_scaleF min max hmin)
    have hval : vh = rangeQ (rnd F) (scaleQ min max) vmin vmax := hs.value vh hvh
    have hpos : 0 < vh := (lt_iff (val_zero (F := F)) hvh).mp hlt
    rw [hval] at hvh hpos
    exact ⟨vmin, vmax, hmin, hmax, rangeQ_pos_imp rounding (scaleQ_pos min max).le hpos, rfl,
      hvh, hpos⟩
  · rw [if_neg ht] at hnd
    rw [lt_irrefl_zero] at hnd
    cases hnd

/-- Converse (needs gradual underflow and the overflow-branch hypothesis): finite `min < max` pass
    the test of `from_min_max`. -/
theorem nondeg_of_lt {min max : F} {vmin vmax : ℚ}
    (hmin : val min = some vmin) (hmax : val max = some vmax) (hlt : vmin < vmax) :
    lt zero (RangeG.fromMinMax min max).range = true := by
  -- `range` is finite and positive
  have key : ∃ r : ℚ, val (rangeF min max) = some r ∧ 0 < r := by
    cases hd : val (sub max min) with
    | some d =>
      -- usual branch: scale = 1, range = max − min, finite because `sub max min` is
      have hfin : isFinite (sub max min) = true := by rw [isFinite_eq, hd]; rfl
      have hsc : scaleF min max = one := by unfold scaleF; rw [if_pos hfin]
      have hdv : d = rnd F (vmax - vmin) := (sub_spec hmax hmin).value d hd
      have hr : val (rangeF min max) = some (rnd F (vmax - vmin)) := by
        unfold rangeF; rw [hsc]
        exact (sub_spec (val_mul_one hmax) (val_mul_one hmin)).eq hd hd (hdv ▸ le_rfl) (hdv ▸ le_rfl)
      refine ⟨_, hr, ?_⟩
      have h0 : 0 ≤ rnd F (vmax - vmin) := by
        have := rnd_mono (F := F) (a := 0) (b := vmax - vmin) (by linarith)
        rwa [rnd_zero] at this
      exact lt_of_le_of_ne h0 (Ne.symm (sub_rnd_ne_zero hmax hmin (ne_of_gt hlt)))
    | none =>
      -- overflow branch: scale = 1/2
      have hfin : ¬ isFinite (sub max min) = true := by rw [isFinite_eq, hd]; simp
      have hsc : scaleF min max = half := by unfold scaleF; rw [if_neg hfin]
      unfold rangeF; rw [hsc]
      exact half_range_finite hmin hmax hlt hd
  obtain ⟨r, hr, hpos⟩ := key
  have h1 : lt zero (rangeF min max) = true := (lt_iff (val_zero (F := F)) hr).mpr hpos
  have h2 : isFinite (rangeF min max) = true := by rw [isFinite_eq, hr]; rfl
  rw [fromMinMax_eq, h1, h2]
  exact h1

/-! ## 4. the non-degenerate branch: the value of `normalizeF` -/

/-- Key lemma: in the non-degenerate branch, for a finite stored value `v`, the result of the f64
    computation is FINITE and its value is `normQ`, i.e. with `s` the value of `scale`,
    `rnd (rnd (rnd (clamp v * s) − rnd (min*s)) / rnd (rnd (max*s) − rnd (min*s)))`. -/
theorem val_normalizeF {min max v : F} {vmin vmax vv : ℚ}
    (hnd : lt zero (RangeG.fromMinMax min max).range = true)
    (hmin : val min = some vmin) (hmax : val max = some vmax) (hv : val v = some vv) :
    val ((RangeG.fromMinMax min max).normalizeF v) =
      some (normQ (rnd F) (scaleQ min max) vmin vmax vv) := by
  obtain ⟨vmin', vmax', hmin', hmax', hlt, hr, hh, hpos⟩ := nondeg_spec hnd
  obtain rfl : vmin' = vmin := Option.some.inj (hmin'.symm.trans hmin)
  obtain rfl : vmax' = vmax := Option.some.inj (hmax'.symm.trans hmax)
  have R := rounding (F := F)
  have hs := (scaleQ_pos min max).le
  rw [hr]
  simp only [RangeG.normalizeF]
  -- clamp, scale
  have hc := val_mul_scaleF min max (val_fclampG hv hmin hmax)
  have hl := val_mul_scaleF min max hmin
  -- numerator: between 0 and range, hence finite
  have hnum : val (sub (mul (fclampG v min max) (scaleF min max)) (mul min (scaleF min max))) =
      some (numQ (rnd F) (scaleQ min max) vmin' vmax' vv) :=
    (sub_spec hc hl).eq (val_zero (F := F)) hh (numQ_nonneg R hs hlt.le) (numQ_le R hs hlt.le)
  -- quotient: between 0 and 1, hence finite
  exact (div_spec hnum hh hpos.ne').eq (val_zero (F := F)) (val_one (F := F))
    (normQ_nonneg R hs hpos) (normQ_le_one R hs hpos)

omit I in
/-- in the non-degenerate branch `normalize` is the cast of `normalizeF` -/
theorem normalize_eq_cast {min max : F}
    (hnd : lt zero (RangeG.fromMinMax min max).range = true) (v : F) :
    (RangeG.fromMinMax min max).normalize v =
      toF32Bits ((RangeG.fromMinMax min max).normalizeF v) := by
  simp [RangeG.normalize, hnd]

/-- value of the delivered f32 in the non-degenerate branch -/
theorem val32_normalize {min max v : F} {vmin vmax vv : ℚ}
    (hnd : lt zero (RangeG.fromMinMax min max).range = true)
    (hmin : val min = some vmin) (hmax : val max = some vmax) (hv : val v = some vv) :
    val32 F ((RangeG.fromMinMax min max).normalize v) =
      some (rnd32 F (normQ (rnd F) (scaleQ min max) vmin vmax vv)) := by
  obtain ⟨vmin', vmax', hmin', hmax', -, -, -, hpos⟩ := nondeg_spec hnd
  obtain rfl : vmin' = vmin := Option.some.inj (hmin'.symm.trans hmin)
  obtain rfl : vmax' = vmax := Option.some.inj (hmax'.symm.trans hmax)
  have hs := (scaleQ_pos min max).le
  rw [normalize_eq_cast hnd]
  exact val32_cast (val_normalizeF hnd hmin hmax hv) (normQ_nonneg rounding hs hpos)
    (normQ_le_one rounding hs hpos)

end IEEELike

/-! ## 5. C13 -/

section C13
open IEEELike
variable {F : Type} [FloatOps F] [IEEELike F]

/-- the non-degenerate branch: `normalize` passes its test `0 < range` -/
abbrev NonDegenerate (min max : F) : Prop :=
  lt zero (RangeG.fromMinMax min max).range = true

/-- **C13, degenerate range (finite bounds).**  Equal or reversed bounds: every value, finite or
    not, normalises to the bit pattern `0` (= `+0.0f32`). -/
theorem C13_degenerate {min max : F} {vmin vmax : ℚ}
    (hmin : val min = some vmin) (hmax : val max = some vmax) (hdeg : ¬ vmin < vmax) (v : F) :
    (RangeG.fromMinMax min max).normalize v = 0 := by
  cases hnd : lt zero (RangeG.fromMinMax min max).range
  · simp [RangeG.normalize, hnd]
  · obtain ⟨vmin', vmax', hmin', hmax', hlt, -⟩ := nondeg_spec hnd
    obtain rfl : vmin' = vmin := Option.some.inj (hmin'.symm.trans hmin)
    obtain rfl : vmax' = vmax := Option.some.inj (hmax'.symm.trans hmax)
    exact absurd hlt hdeg

/-- **C13, degenerate range (NaN or infinite bound).** -/
theorem C13_degenerate_nonfinite {min max : F}
    (h : val min = none ∨ val max = none) (v : F) :
    (RangeG.fromMinMax min max).normalize v = 0 := by
  cases hnd : lt zero (RangeG.fromMinMax min max).range
  · simp [RangeG.normalize, hnd]
  · obtain ⟨vmin', vmax', hmin', hmax', -⟩ := nondeg_spec hnd
    rcases h with h | h
    · rw [h] at hmin'; cases hmin'
    · rw [h] at hmax'; cases hmax'

/-- the degenerate result read as an f32 is the number 0 -/
theorem C13_degenerate_bits {min max : F}
    (h : ¬ NonDegenerate min max) (v : F) :
    (RangeG.fromMinMax min max).normalize v = 0 ∧
    val32 F ((RangeG.fromMinMax min max).normalize v) = some 0 := by
  have h0 : (RangeG.fromMinMax min max).normalize v = 0 := by
    have : lt zero (RangeG.fromMinMax min max).range = false := by
      simpa [NonDegenerate] using h
    simp [RangeG.normalize, this]
  rw [h0]; exact ⟨rfl, val32_zero⟩

/-- the non-degenerate branch is only reached with finite bounds `min < max` -/
theorem C13_nondegenerate_bounds {min max : F} (hnd : NonDegenerate min max) :
    ∃ vmin vmax : ℚ, val min = some vmin ∧ val max = some vmax ∧ vmin < vmax := by
  obtain ⟨vmin, vmax, h1, h2, h3, -⟩ := nondeg_spec hnd
  exact ⟨vmin, vmax, h1, h2, h3⟩

/-- **C13, every proper finite range is non-degenerate** (uses `sub_rnd_ne_zero` and
    `half_range_finite`). -/
theorem C13_nondegenerate_of_lt {min max : F} {vmin vmax : ℚ}
    (hmin : val min = some vmin) (hmax : val max = some vmax) (hlt : vmin < vmax) :
    NonDegenerate min max :=
  nondeg_of_lt hmin hmax hlt

/-- **C13, characterisation of degeneracy for finite bounds.** -/
theorem C13_nondegenerate_iff {min max : F} {vmin vmax : ℚ}
    (hmin : val min = some vmin) (hmax : val max = some vmax) :
    NonDegenerate min max ↔ vmin < vmax := by
  constructor
  · intro hnd
    obtain ⟨vmin', vmax', hmin', hmax', hlt, -⟩ := nondeg_spec hnd
    obtain rfl : vmin' = vmin := Option.some.inj (hmin'.symm.trans hmin)
    obtain rfl : vmax' = vmax := Option.some.inj (hmax'.symm.trans hmax)
    exact hlt
  · exact nondeg_of_lt hmin hmax

/-- non-degenerate ⇔ both bounds finite and `min < max` -/
theorem C13_nondegenerate_iff' {min max : F} :
    NonDegenerate min max ↔
      ∃ vmin vmax : ℚ, val min = some vmin ∧ val max = some vmax ∧ vmin < vmax :=
  ⟨C13_nondegenerate_bounds, fun ⟨_, _, h1, h2, h3⟩ => nondeg_of_lt h1 h2 h3⟩

/-- **C13, unit interval.**  Non-degenerate range, finite stored value: the f64 result is finite
    (neither NaN nor ±∞) and lies in `[0, 1]`. -/
theorem C13_unit_interval {min max v : F} {vv : ℚ}
    (hnd : NonDegenerate min max) (hv : val v = some vv) :
    ∃ q : ℚ, val ((RangeG.fromMinMax min max).normalizeF v) = some q ∧ 0 ≤ q ∧ q ≤ 1 := by
  obtain ⟨vmin, vmax, hmin, hmax, -, -, -, hpos⟩ := nondeg_spec hnd
  have hs := (scaleQ_pos min max).le
  exact ⟨_, val_normalizeF hnd hmin hmax hv, normQ_nonneg rounding hs hpos,
    normQ_le_one rounding hs hpos⟩

/-- **C13, monotonicity.** -/
theorem C13_monotone {min max v v' : F} {vv vv' : ℚ}
    (hnd : NonDegenerate min max) (hv : val v = some vv) (hv' : val v' = some vv')
    (hle : vv ≤ vv') :
    ∃ q q' : ℚ, val ((RangeG.fromMinMax min max).normalizeF v) = some q ∧
      val ((RangeG.fromMinMax min max).normalizeF v') = some q' ∧ q ≤ q' := by
  obtain ⟨vmin, vmax, hmin, hmax, -, -, -, hpos⟩ := nondeg_spec hnd
  exact ⟨_, _, val_normalizeF hnd hmin hmax hv, val_normalizeF hnd hmin hmax hv',
    normQ_mono rounding (scaleQ_pos min max).le hpos hle⟩

/-- **C13, endpoints** (and everything outside the range): values `≤ min` give exactly 0, values
    `≥ max` give exactly 1. -/
theorem C13_endpoints_le {min max v : F} {vmin vv : ℚ}
    (hnd : NonDegenerate min max) (hmin : val min = some vmin) (hv : val v = some vv)
    (hle : vv ≤ vmin) :
    val ((RangeG.fromMinMax min max).normalizeF v) = some 0 := by
  obtain ⟨vmin', vmax, hmin', hmax, -, -, -, hpos⟩ := nondeg_spec hnd
  obtain rfl : vmin' = vmin := Option.some.inj (hmin'.symm.trans hmin)
  rw [val_normalizeF hnd hmin hmax hv, normQ_of_le rounding (scaleQ_pos min max).le hpos hle]

theorem C13_endpoints_ge {min max v : F} {vmax vv : ℚ}
    (hnd : NonDegenerate min max) (hmax : val max = some vmax) (hv : val v = some vv)
    (hle : vmax ≤ vv) :
    val ((RangeG.fromMinMax min max).normalizeF v) = some 1 := by
  obtain ⟨vmin, vmax', hmin, hmax', -, -, -, hpos⟩ := nondeg_spec hnd
  obtain rfl : vmax' = vmax := Option.some.inj (hmax'.symm.trans hmax)
  rw [val_normalizeF hnd hmin hmax hv, normQ_of_ge rounding (scaleQ_pos min max).le hpos hle]

theorem C13_endpoints {min max : F} (hnd : NonDegenerate min max) :
    val ((RangeG.fromMinMax min max).normalizeF min) = some 0 ∧
    val ((RangeG.fromMinMax min max).normalizeF max) = some 1 := by
  obtain ⟨vmin, vmax, hmin, hmax, -⟩ := nondeg_spec hnd
  exact ⟨C13_endpoints_le hnd hmin hmin le_rfl, C13_endpoints_ge hnd hmax hmax le_rfl⟩

/-- **C13, endpoints, no non-degeneracy hypothesis**: for ALL finite `min < max` the minimum is
    delivered as 0 and the maximum as 1 (uses `sub_rnd_ne_zero` and `half_range_finite`). -/
theorem C13_endpoints_all {min max : F} {vmin vmax : ℚ}
    (hmin : val min = some vmin) (hmax : val max = some vmax) (hlt : vmin < vmax) :
    val ((RangeG.fromMinMax min max).normalizeF min) = some 0 ∧
    val ((RangeG.fromMinMax min max).normalizeF max) = some 1 :=
  C13_endpoints (nondeg_of_lt hmin hmax hlt)

/-- **C13, formula.**  The delivered f64 is the documented ratio up to the roundings of the Rust
    expression: with `c = clamp v min max` and `s` the value of `scale` (1, or 1/2 when `max − min`
    overflows), `rnd (rnd (rnd (c*s) − rnd (min*s)) / rnd (rnd (max*s) − rnd (min*s)))`. -/
theorem C13_formula {min max v : F} {vmin vmax vv : ℚ}
    (hnd : NonDegenerate min max)
    (hmin : val min = some vmin) (hmax : val max = some vmax) (hv : val v = some vv) :
    ∃ s : ℚ, s = (if isFinite (sub max min) = true then 1 else 1 / 2) ∧
    val ((RangeG.fromMinMax min max).normalizeF v) =
      some (rnd F (rnd F (rnd F (qclamp vv vmin vmax * s) - rnd F (vmin * s)) /
                    rnd F (rnd F (vmax * s) - rnd F (vmin * s)))) :=
  ⟨scaleQ min max, rfl, val_normalizeF hnd hmin hmax hv⟩

/-- **C13, formula in the usual branch** (`max − min` does not overflow; multiplication by `1.0`
    is exact): `rnd (rnd (c − min) / rnd (max − min))`. -/
theorem C13_formula_unscaled {min max v : F} {vmin vmax vv : ℚ}
    (hnd : NonDegenerate min max) (hfin : isFinite (sub max min) = true)
    (hmin : val min = some vmin) (hmax : val max = some vmax) (hv : val v = some vv) :
    val ((RangeG.fromMinMax min max).normalizeF v) =
      some (rnd F (rnd F (qclamp vv vmin vmax - vmin) / rnd F (vmax - vmin))) := by
  rw [val_normalizeF hnd hmin hmax hv]
  have hs : scaleQ min max = 1 := by unfold scaleQ; rw [if_pos hfin]
  simp only [normQ, numQ, rangeQ, hs, mul_one]
  rw [rnd_val (val_fclampG hv hmin hmax), rnd_val hmin, rnd_val hmax]

/-- **C13, formula on an exact carrier** (`rnd = id`): exactly `(clamp v − min)/(max − min)`, which
    is `(v − min)/(max − min)` clamped to the unit interval. -/
theorem C13_formula_exact (hid : rnd F = id) {min max v : F} {vmin vmax vv : ℚ}
    (hnd : NonDegenerate min max)
    (hmin : val min = some vmin) (hmax : val max = some vmax) (hv : val v = some vv) :
    val ((RangeG.fromMinMax min max).normalizeF v) =
      some ((qclamp vv vmin vmax - vmin) / (vmax - vmin)) ∧
    (qclamp vv vmin vmax - vmin) / (vmax - vmin) = qclamp ((vv - vmin) / (vmax - vmin)) 0 1 := by
  obtain ⟨vmin', vmax', hmin', hmax', hlt, -⟩ := nondeg_spec hnd
  obtain rfl : vmin' = vmin := Option.some.inj (hmin'.symm.trans hmin)
  obtain rfl : vmax' = vmax := Option.some.inj (hmax'.symm.trans hmax)
  refine ⟨?_, ratio_clamp hlt⟩
  rw [val_normalizeF hnd hmin hmax hv, hid, normQ_id (scaleQ_pos min max).ne' hlt]

/-! ### the same through the `as f32` cast -/

/-- **C13 (f32), unit interval**: the delivered bit pattern decodes to a finite number in `[0,1]`. -/
theorem C13_unit_interval_bits {min max v : F} {vv : ℚ}
    (hnd : NonDegenerate min max) (hv : val v = some vv) :
    ∃ q : ℚ, val32 F ((RangeG.fromMinMax min max).normalize v) = some q ∧ 0 ≤ q ∧ q ≤ 1 := by
  obtain ⟨vmin, vmax, hmin, hmax, -, -, -, hpos⟩ := nondeg_spec hnd
  have hs := (scaleQ_pos min max).le
  refine ⟨_, val32_normalize hnd hmin hmax hv, ?_, ?_⟩
  · have := rnd32_mono (F := F) (normQ_nonneg rounding hs hpos (lo := vmin) (hi := vmax) (v := vv))
    rwa [rnd32_zero] at this
  · have := rnd32_mono (F := F) (normQ_le_one rounding hs hpos (lo := vmin) (hi := vmax) (v := vv))
    rwa [rnd32_one] at this

/-- **C13 (f32), monotonicity.** -/
theorem C13_monotone_bits {min max v v' : F} {vv vv' : ℚ}
    (hnd : NonDegenerate min max) (hv : val v = some vv) (hv' : val v' = some vv')
    (hle : vv ≤ vv') :
    ∃ q q' : ℚ, val32 F ((RangeG.fromMinMax min max).normalize v) = some q ∧
      val32 F ((RangeG.fromMinMax min max).normalize v') = some q' ∧ q ≤ q' := by
  obtain ⟨vmin, vmax, hmin, hmax, -, -, -, hpos⟩ := nondeg_spec hnd
  exact ⟨_, _, val32_normalize hnd hmin hmax hv, val32_normalize hnd hmin hmax hv',
    rnd32_mono (normQ_mono rounding (scaleQ_pos min max).le hpos hle)⟩

/-- **C13 (f32), endpoints.** -/
theorem C13_endpoints_bits {min max : F} (hnd : NonDegenerate min max) :
    val32 F ((RangeG.fromMinMax min max).normalize min) = some 0 ∧
    val32 F ((RangeG.fromMinMax min max).normalize max) = some 1 := by
  obtain ⟨vmin, vmax, hmin, hmax, -, -, -, hpos⟩ := nondeg_spec hnd
  have hs := (scaleQ_pos min max).le
  constructor
  · rw [val32_normalize hnd hmin hmax hmin, normQ_of_le rounding hs hpos le_rfl, rnd32_zero]
  · rw [val32_normalize hnd hmin hmax hmax, normQ_of_ge rounding hs hpos le_rfl, rnd32_one]

/-- **C13 (f32), endpoints, no non-degeneracy hypothesis**: for ALL finite `min < max`,
    `normalize min` is the f32 `0.0` and `normalize max` is the f32 `1.0`. -/
theorem C13_endpoints_all_bits {min max : F} {vmin vmax : ℚ}
    (hmin : val min = some vmin) (hmax : val max = some vmax) (hlt : vmin < vmax) :
    val32 F ((RangeG.fromMinMax min max).normalize min) = some 0 ∧
    val32 F ((RangeG.fromMinMax min max).normalize max) = some 1 :=
  C13_endpoints_bits (nondeg_of_lt hmin hmax hlt)

/-- **C13 (f32), formula.** -/
theorem C13_formula_bits {min max v : F} {vmin vmax vv : ℚ}
    (hnd : NonDegenerate min max)
    (hmin : val min = some vmin) (hmax : val max = some vmax) (hv : val v = some vv) :
    ∃ s : ℚ, s = (if isFinite (sub max min) = true then 1 else 1 / 2) ∧
    val32 F ((RangeG.fromMinMax min max).normalize v) =
      some (rnd32 F (rnd F (rnd F (rnd F (qclamp vv vmin vmax * s) - rnd F (vmin * s)) /
                    rnd F (rnd F (vmax * s) - rnd F (vmin * s))))) :=
  ⟨scaleQ min max, rfl, val32_normalize hnd hmin hmax hv⟩

/-- **C13, all ranges at once.**  Whatever `min` and `max` are (finite, NaN, infinite, reversed),
    a finite stored value is delivered as a finite f32 in `[0, 1]`. -/
theorem C13_total (min max : F) {v : F} {vv : ℚ} (hv : val v = some vv) :
    ∃ q : ℚ, val32 F ((RangeG.fromMinMax min max).normalize v) = some q ∧ 0 ≤ q ∧ q ≤ 1 := by
  by_cases hnd : NonDegenerate min max
  · exact C13_unit_interval_bits hnd hv
  · exact ⟨0, (C13_degenerate_bits hnd v).2, le_rfl, zero_le_one⟩

end C13

/-! ## 6. consistency witness: exact arithmetic on `Option ℚ` -/

/-- exact carrier: `none` = NaN/∞  (an `abbrev`: with a `def`, `simp` on the matches below hits a
    `whnf` timeout) -/
abbrev ExactF : Type := Option ℚ

namespace ExactF

def emul : ExactF → ExactF → ExactF
  | some x, some y => some (x * y)
  | _, _ => none

def esub : ExactF → ExactF → ExactF
  | some x, some y => some (x - y)
  | _, _ => none

def ediv : ExactF → ExactF → ExactF
  | some x, some y => if y = 0 then none else some (x / y)
  | _, _ => none

def elt : ExactF → ExactF → Bool
  | some x, some y => decide (x < y)
  | _, _ => false

/-- a crude 1-bit "f32": everything below 1 becomes `+0.0f32`, everything else `1.0f32` -/
def toBits : ExactF → UInt32
  | some x => if x < 1 then 0 else 0x3F800000
  | none => 0x7FC00000

def rnd32 (x : ℚ) : ℚ := if x < 1 then 0 else 1

def val32 (b : UInt32) : Option ℚ :=
  if b = 0 then some 0 else if b = 0x3F800000 then some 1 else none

instance : FloatOps ExactF where
  zero := some (0 : ℚ)
  half := some (1 / 2 : ℚ)
  one := some (1 : ℚ)
  mul := emul
  sub := esub
  div := ediv
  lt := elt
  isFinite := Option.isSome
  toF32Bits := toBits

theorem roundsTo_some (x : ℚ) :
    RoundsTo (fun a : ExactF => (a : Option ℚ)) id (some x : Option ℚ) x :=
  ⟨fun _ h => (Option.some.inj h).symm, fun _ _ _ _ _ _ _ _ => ⟨x, rfl⟩⟩

theorem ediv_some (x : ℚ) {y : ℚ} (h : y ≠ 0) : ediv (some x) (some y) = some (x / y) := by
  simp [ediv, h]

instance instIEEELike : IEEELike ExactF where
  val := fun a => a
  rnd := id
  rnd32 := rnd32
  val32 := val32
  isFinite_eq := fun _ => rfl
  val_zero := rfl
  val_half := rfl
  val_one := rfl
  rnd_mono := fun h => h
  rnd_val := fun _ => rfl
  mul_spec := by
    intro a b va vb ha hb; subst ha; subst hb; exact roundsTo_some _
  sub_spec := by
    intro a b va vb ha hb; subst ha; subst hb; exact roundsTo_some _
  div_spec := by
    intro a b va vb ha hb hne; subst ha; subst hb
    have := roundsTo_some (va / vb)
    rw [← ediv_some va hne] at this
    exact this
  mul_nonfinite := by intro a b ha; subst ha; rfl
  sub_nonfinite_left := by intro a b ha; subst ha; rfl
  sub_nonfinite_right := by intro a b hb; subst hb; cases a <;> rfl
  lt_iff := by
    intro a b va vb ha hb; subst ha; subst hb
    show decide (va < vb) = true ↔ va < vb
    simp
  sub_rnd_ne_zero := by
    intro a b va vb _ _ hne; exact sub_ne_zero.mpr hne
  half_range_finite := by
    -- exact subtraction never overflows: the hypothesis `val (sub b a) = none` is absurd
    intro a b va vb ha hb _ hnone; subst ha; subst hb
    exact absurd hnone (by show esub (some vb) (some va) ≠ none; simp [esub])
  rnd32_mono := by
    intro a b h; unfold rnd32; split_ifs <;> linarith
  rnd32_zero := by simp [rnd32]
  rnd32_one := by simp [rnd32]
  val32_cast := by
    intro x vx hx _ _; subst hx
    show val32 (toBits (some vx)) = some (rnd32 vx)
    unfold toBits rnd32
    by_cases h : vx < 1
    · simp [h, val32]
    · simp only [if_neg h]; unfold val32; rw [if_neg (by decide), if_pos rfl]
  val32_zero := by simp [val32]

/-- the witness is not vacuous: every proper range is non-degenerate on the exact carrier -/
example : NonDegenerate (F := ExactF) (some (0 : ℚ)) (some (10 : ℚ)) :=
  C13_nondegenerate_of_lt (F := ExactF) rfl rfl (by norm_num)

/-- On the witness all of C13 is available unconditionally, and the formula is exact:
    `(v − min)/(max − min)` clamped to `[0,1]`. -/
theorem normalizeF_exact {lo hi v : ℚ} (h : lo < hi) :
    (RangeG.fromMinMax (F := ExactF) (some lo) (some hi)).normalizeF (some v) =
      some (qclamp ((v - lo) / (hi - lo)) 0 1) := by
  have hnd := C13_nondegenerate_of_lt (F := ExactF) (min := some lo) (max := some hi) rfl rfl h
  have := C13_formula_exact (F := ExactF) rfl hnd (vmin := lo) (vmax := hi) (vv := v) rfl rfl rfl
  rw [← this.2]; exact this.1

end ExactF

/-! ## 7. axioms -/


end E57
