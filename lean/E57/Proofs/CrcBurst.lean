/-
Burst detection of the page checksum (CRC-32C as modelled in `E57/Model/Crc.lean`).
Core Lean only; no finite table is needed for the detection theorems (the only kernel evaluation
is `crcRaw_generator`, used for the sharpness example).

Idea: absorbing a byte string into the reflected LFSR = xor its little-endian value onto the
state and do one shift step per bit, on natural numbers of unbounded width (`crcRaw_toNat`).  An
alteration whose flipped bits lie in a window of at most 32 bits has the value `w * 2 ^ s` with
`0 < w < 2 ^ 32`; the first `s` steps are plain halvings (no feedback), after which `w` sits in
the register and only `crcShift` steps follow, and `crcShift` is injective.

Bit order: bit `8 * k + j` is bit `j` (least significant first) of byte `k` — the order in which
the CRC consumes the message.  Main results: `detect_burst_payload`, `detect_burst_checksum`,
`detect_burst`, `detect_burst_bytes` (byte-aligned, independent of the bit order inside a byte),
`detect_burst_codeword` (no side condition, in the order with the checksum bytes reversed), and
`burst33_undetected` (32 is sharp).
-/
import E57.Proofs.CrcAlgebra
namespace E57

/-! ### 1. bits of a byte string, in the CRC's own transmission order -/

/-- bit `i` of a byte string: bit `i % 8` (least significant first) of byte `i / 8`;
    `false` beyond the end -/
def bitOf (e : Bytes) (i : Nat) : Bool := (e[i / 8]!).toNat.testBit (i % 8)

theorem testBit_leVal_bitOf (e : Bytes) (i : Nat) : (leVal e).testBit i = bitOf e i := by
  induction e generalizing i with
  | nil => simp [bitOf, show (default : UInt8) = 0 from rfl]
  | cons b e ih =>
    have hb : b.toNat < 2 ^ 8 := b.toNat_lt
    rw [leVal_cons, Nat.add_comm, show (256 : Nat) = 2 ^ 8 from rfl,
      Nat.testBit_two_pow_mul_add _ hb]
    by_cases hi : i < 8
    · have h0 : i / 8 = 0 := by omega
      have h1 : i % 8 = i := by omega
      simp [hi, bitOf, h0, h1]
    · have h0 : i / 8 = (i - 8) / 8 + 1 := by omega
      have h1 : i % 8 = (i - 8) % 8 := by omega
      rw [if_neg hi, ih, bitOf, bitOf, h0, h1]
      simp

/-! ### 2. the LFSR on natural numbers of unbounded width -/

def natShift (v : Nat) : Nat := (v / 2) ^^^ (if v % 2 = 1 then 0x82F63B78 else 0)

def natShiftN : Nat → Nat → Nat
  | 0, v => v
  | n + 1, v => natShiftN n (natShift v)

theorem natShift_xor (a b : Nat) : natShift (a ^^^ b) = natShift a ^^^ natShift b := by
  unfold natShift
  have hd : (a ^^^ b) / 2 = a / 2 ^^^ b / 2 := by
    have := Nat.shiftRight_xor_distrib (a := a) (b := b) (i := 1)
    simpa [Nat.shiftRight_eq_div_pow] using this
  have hm : (a ^^^ b) % 2 = (a % 2) ^^^ (b % 2) := by
    have := Nat.xor_mod_two_pow (a := a) (b := b) (n := 1)
    simpa using this
  rw [hd, hm]
  generalize a / 2 = x
  generalize b / 2 = y
  generalize (0x82F63B78 : Nat) = c
  rcases Nat.mod_two_eq_zero_or_one a with ha | ha <;>
    rcases Nat.mod_two_eq_zero_or_one b with hb | hb <;>
    simp only [ha, hb, show (0 : Nat) ^^^ 0 = 0 from rfl, show (0 : Nat) ^^^ 1 = 1 from rfl,
      show (1 : Nat) ^^^ 0 = 1 from rfl, show (1 : Nat) ^^^ 1 = 0 from rfl, if_true, if_false,
      Nat.xor_zero, show (0 : Nat) = 1 ↔ False from by decide, if_false]
  · ac_rfl
  · ac_rfl
  · rw [Nat.xor_assoc x c, ← Nat.xor_assoc c y c, Nat.xor_comm c y, Nat.xor_assoc y c c,
      Nat.xor_self, Nat.xor_zero]

theorem natShiftN_xor (n a b : Nat) : natShiftN n (a ^^^ b) = natShiftN n a ^^^ natShiftN n b := by
  induction n generalizing a b with
  | zero => rfl
  | succ n ih => simp only [natShiftN, natShift_xor, ih]

theorem natShiftN_add (m n v : Nat) : natShiftN (m + n) v = natShiftN n (natShiftN m v) := by
  induction m generalizing v with
  | zero => simp [natShiftN]
  | succ m ih => rw [Nat.add_right_comm]; simp only [natShiftN]; exact ih _

/-- no feedback while the low bit is zero -/
theorem natShift_two_mul (v : Nat) : natShift (2 * v) = v := by
  unfold natShift
  have h1 : 2 * v / 2 = v := by omega
  have h2 : ¬ (2 * v % 2 = 1) := by omega
  rw [h1, if_neg h2, Nat.xor_zero]

theorem natShiftN_mul_two_pow (s w : Nat) : natShiftN s (w * 2 ^ s) = w := by
  induction s with
  | zero => simp [natShiftN]
  | succ s ih =>
    rw [natShiftN, show w * 2 ^ (s + 1) = 2 * (w * 2 ^ s) by rw [Nat.pow_succ]; ac_rfl,
      natShift_two_mul, ih]

/-- on 32-bit states the unbounded LFSR is `crcShift` -/
theorem crcShift_toNat (x : UInt32) : (crcShift x).toNat = natShift x.toNat := by
  rw [crcShift_eq, UInt32.toNat_xor, UInt32.toNat_shiftRight, Nat.testBit_zero]
  unfold natShift crcFb
  by_cases h : x.toNat % 2 = 1
  · simp [h, Nat.shiftRight_eq_div_pow]; rfl
  · simp [h, Nat.shiftRight_eq_div_pow]

theorem crcShiftN_toNat (n : Nat) (x : UInt32) : (crcShiftN n x).toNat = natShiftN n x.toNat := by
  induction n generalizing x with
  | zero => rfl
  | succ n ih => rw [crcShiftN, natShiftN, ih, crcShift_toNat]

/-- absorbing a byte string = xor its little-endian value onto the state, then one shift step per
    bit: the bits of the message are consumed in the order bit 0 of byte 0, bit 1 of byte 0, … -/
theorem crcRaw_toNat (st : UInt32) (l : Bytes) :
    (crcRaw st l).toNat = natShiftN (8 * l.length) (st.toNat ^^^ leVal l) := by
  induction l generalizing st with
  | nil => simp [natShiftN]
  | cons b l ih =>
    rw [crcRaw_cons, ih, crcStepRef, crcShift8_eq_N, crcShiftN_toNat, UInt32.toNat_xor,
      UInt8.toNat_toUInt32, List.length_cons, show 8 * (l.length + 1) = 8 + 8 * l.length by omega,
      natShiftN_add, leVal_cons]
    congr 1
    have hb : b.toNat < 2 ^ 8 := b.toNat_lt
    have hsplit : b.toNat + 256 * leVal l = b.toNat ^^^ (leVal l * 2 ^ 8) := by
      apply Nat.eq_of_testBit_eq
      intro i
      rw [Nat.add_comm, show (256 : Nat) = 2 ^ 8 from rfl, Nat.testBit_two_pow_mul_add _ hb,
        Nat.testBit_xor, Nat.mul_comm, Nat.testBit_two_pow_mul]
      by_cases hi : i < 8
      · have h8 : ¬ 8 ≤ i := by omega
        simp [hi, h8]
      · have : b.toNat.testBit i = false :=
          Nat.testBit_lt_two_pow (Nat.lt_of_lt_of_le hb (Nat.pow_le_pow_right (by omega) (by omega)))
        simp [hi, this]; omega
    rw [hsplit, ← Nat.xor_assoc, natShiftN_xor 8 _ (leVal l * 2 ^ 8), natShiftN_mul_two_pow]

/-! ### 3. a bit pattern of at most 32 bits, preceded and followed by zeros -/

theorem crcShiftN_zero (n : Nat) : crcShiftN n 0 = 0 := by
  induction n with
  | zero => rfl
  | succ n ih => rw [crcShiftN, crcShift_zero, ih]

theorem crcShiftN_ne_zero (n : Nat) (x : UInt32) (h : x ≠ 0) : crcShiftN n x ≠ 0 := by
  intro h0
  rw [← crcShiftN_zero n] at h0
  exact h (crcShiftN_inj n _ _ h0)

/-- a message whose value is a 32-bit word `w` placed at bit offset `s` (zeros before and after):
    the first `s` steps shift zeros out of a zero state, then the word sits in the register
    unchanged (the reflected LFSR feeds back only what reaches bit 0), and the remaining steps are
    plain `crcShift` steps on that state -/
theorem crcRaw_window (l : Bytes) (w s : Nat) (hw : w < 2 ^ 32) (hs : s ≤ 8 * l.length)
    (h : leVal l = w * 2 ^ s) : crcRaw 0 l = crcShiftN (8 * l.length - s) (UInt32.ofNat w) := by
  apply UInt32.toNat_inj.mp
  have hof : (UInt32.ofNat w).toNat = w := by
    simp only [UInt32.toNat_ofNat']; exact Nat.mod_eq_of_lt hw
  rw [crcRaw_toNat, crcShiftN_toNat, hof, h, show (0 : UInt32).toNat = 0 from rfl, Nat.zero_xor]
  conv => lhs; rw [show 8 * l.length = s + (8 * l.length - s) by omega]
  rw [natShiftN_add, natShiftN_mul_two_pow]

theorem crcRaw_window_ne_zero (l : Bytes) (w s : Nat) (hw0 : w ≠ 0) (hw : w < 2 ^ 32)
    (hs : s ≤ 8 * l.length) (h : leVal l = w * 2 ^ s) : crcRaw 0 l ≠ 0 := by
  rw [crcRaw_window l w s hw hs h]
  apply crcShiftN_ne_zero
  intro h0
  have := congrArg UInt32.toNat h0
  simp only [UInt32.toNat_ofNat'] at this
  rw [Nat.mod_eq_of_lt hw] at this
  exact hw0 this

/-! ### 4. from bit windows to values -/

/-- a number whose set bits all lie in `[s, s + len)` is a `len`-bit word shifted left by `s` -/
theorem window_factor (v s len : Nat) (hwin : ∀ i, v.testBit i = true → s ≤ i ∧ i < s + len) :
    v = (v >>> s) * 2 ^ s ∧ v >>> s < 2 ^ len := by
  constructor
  · apply Nat.eq_of_testBit_eq
    intro i
    rw [Nat.testBit_mul_two_pow, Nat.testBit_shiftRight]
    by_cases hi : s ≤ i
    · simp [hi, show s + (i - s) = i by omega]
    · cases hb : v.testBit i
      · simp [hi]
      · exact absurd (hwin i hb).1 hi
  · apply Nat.lt_pow_two_of_testBit
    intro i hi
    rw [Nat.testBit_shiftRight]
    cases hb : v.testBit (s + i)
    · rfl
    · have := (hwin _ hb).2; omega

theorem eq_zeros_of_leVal (l : Bytes) (h : leVal l = 0) : l = zeros l.length :=
  eq_of_leVal_eq l (zeros l.length) (zeros_length _).symm (by rw [h, leVal_zeros])

theorem bitOf_zeros (n i : Nat) : bitOf (zeros n) i = false := by
  rw [← testBit_leVal_bitOf, leVal_zeros, Nat.zero_testBit]

/-! ### 5. bursts inside the payload -/

/-- value form: the alteration is a non-zero word `w` of `len ≤ 32` bits placed at bit offset `s`
    inside the 1020 payload bytes (`leVal` = little-endian value of the 1024 alteration bytes) -/
theorem detect_window_value (p e : Bytes) (hp : p.length = 1024) (he : e.length = 1024)
    (hok : pageOk p = true) (w s len : Nat) (hw0 : w ≠ 0) (hw : w < 2 ^ len) (h32 : len ≤ 32)
    (hin : s + len ≤ 8160) (hval : leVal e = w * 2 ^ s) :
    pageOk (xorBytes p e) = false := by
  have hw32 : w < 2 ^ 32 := Nat.lt_of_lt_of_le hw (Nat.pow_le_pow_right (by omega) h32)
  have hlt : w * 2 ^ s < 2 ^ (8 * 1020) :=
    calc w * 2 ^ s < 2 ^ len * 2 ^ s := Nat.mul_lt_mul_of_pos_right hw (Nat.two_pow_pos _)
      _ = 2 ^ (len + s) := (Nat.pow_add 2 len s).symm
      _ ≤ 2 ^ (8 * 1020) := Nat.pow_le_pow_right (by omega) (by omega)
  rw [Bool.eq_false_iff]
  intro hund
  rw [alteration_undetected_iff p e hp he hok] at hund
  have htake : leVal (e.take 1020) = w * 2 ^ s := by
    rw [leVal_take, hval]; exact Nat.mod_eq_of_lt hlt
  have hdrop : e.drop 1020 = zeros 4 := by
    have hl : (e.drop 1020).length = 4 := by simp [he]
    have := eq_zeros_of_leVal (e.drop 1020) (by
      rw [leVal_drop, hval, Nat.shiftRight_eq_div_pow]; exact Nat.div_eq_of_lt hlt)
    rwa [hl] at this
  have hl : (e.take 1020).length = 1020 := by simp [he]
  have hs : s ≤ 8 * (e.take 1020).length := by rw [hl]; omega
  apply crcRaw_window_ne_zero (e.take 1020) w s hw0 hw32 hs htake
  apply toBE32_inj
  rw [← hund, hdrop]
  exact toBE32_zero.symm

/-- **Every burst of up to 32 bits inside the payload is detected.**  All flipped bits lie in the
    bit window `[s, s + len)`, `len ≤ 32`, the window ends at or before the end of the 1020 payload
    bytes (bit 8160), and at least one bit is flipped (so `1 ≤ len`).  Bit `8 * k + j` is bit `j`,
    least significant first, of byte `k`: the order in which the CRC consumes the message. -/
theorem detect_burst_payload (p e : Bytes) (hp : p.length = 1024) (he : e.length = 1024)
    (hok : pageOk p = true) (s len : Nat) (h32 : len ≤ 32) (hin : s + len ≤ 8160)
    (hwin : ∀ i, bitOf e i = true → s ≤ i ∧ i < s + len) (hne : ∃ i, bitOf e i = true) :
    pageOk (xorBytes p e) = false := by
  have hwin' : ∀ i, (leVal e).testBit i = true → s ≤ i ∧ i < s + len := by
    intro i hi; rw [testBit_leVal_bitOf] at hi; exact hwin i hi
  obtain ⟨hval, hlt⟩ := window_factor (leVal e) s len hwin'
  have hw0 : leVal e >>> s ≠ 0 := by
    intro h0
    obtain ⟨i, hi⟩ := hne
    rw [← testBit_leVal_bitOf, hval, h0, Nat.zero_mul, Nat.zero_testBit] at hi
    exact Bool.false_ne_true hi
  exact detect_window_value p e hp he hok (leVal e >>> s) s len hw0 hlt h32 hin hval

/-! ### 6. bursts inside the stored checksum -/

/-- any non-zero alteration all of whose flipped bits lie in the four checksum bytes is detected
    (window form of `detect_checksum_only`) -/
theorem detect_checksum_bits (p e : Bytes) (hp : p.length = 1024) (he : e.length = 1024)
    (hok : pageOk p = true) (hwin : ∀ i, bitOf e i = true → 8160 ≤ i)
    (hne : ∃ i, bitOf e i = true) : pageOk (xorBytes p e) = false := by
  have hpay : e.take 1020 = zeros 1020 := by
    have hl : (e.take 1020).length = 1020 := by simp [he]
    have := eq_zeros_of_leVal (e.take 1020) (by
      rw [leVal_take]
      obtain ⟨m, hm⟩ : ∃ m, m = 8 * 1020 := ⟨_, rfl⟩
      rw [← hm]
      apply Nat.eq_of_testBit_eq
      intro i
      rw [Nat.testBit_mod_two_pow, Nat.zero_testBit, testBit_leVal_bitOf]
      cases hb : bitOf e i
      · simp
      · have := hwin i hb
        have hi : ¬ i < m := by omega
        simp [hi])
    rwa [hl] at this
  have hck : e.drop 1020 ≠ zeros 4 := by
    intro h
    obtain ⟨i, hi⟩ := hne
    have h8 := hwin i hi
    have : (leVal (e.drop 1020)).testBit (i - 8160) = true := by
      rw [leVal_drop, Nat.testBit_shiftRight, show 8 * 1020 + (i - 8160) = i by omega,
        testBit_leVal_bitOf, hi]
    rw [h, leVal_zeros, Nat.zero_testBit] at this
    exact Bool.false_ne_true this
  exact detect_checksum_only p e hp he hok hpay hck

/-- **Every burst inside the stored checksum is detected** (whatever its length: the checksum
    field has only 32 bits; bits from 8192 on do not exist and read as `false`). -/
theorem detect_burst_checksum (p e : Bytes) (hp : p.length = 1024) (he : e.length = 1024)
    (hok : pageOk p = true) (s len : Nat) (hs : 8160 ≤ s)
    (hwin : ∀ i, bitOf e i = true → s ≤ i ∧ i < s + len) (hne : ∃ i, bitOf e i = true) :
    pageOk (xorBytes p e) = false :=
  detect_checksum_bits p e hp he hok (fun i hi => Nat.le_trans hs (hwin i hi).1) hne

/-- **Burst clause of the page checksum, for bursts that do not straddle the boundary between
    payload and stored checksum**: every alteration of a valid page that flips at least one bit
    and only bits inside one window of at most 32 consecutive bits (in the CRC's bit order) lying
    entirely in the payload or entirely in the checksum field is detected.  The excluded case is
    real: see `E57.C07.burst_straddling_undetected`. -/
theorem detect_burst (p e : Bytes) (hp : p.length = 1024) (he : e.length = 1024)
    (hok : pageOk p = true) (s len : Nat) (h32 : len ≤ 32) (hin : s + len ≤ 8160 ∨ 8160 ≤ s)
    (hwin : ∀ i, bitOf e i = true → s ≤ i ∧ i < s + len) (hne : ∃ i, bitOf e i = true) :
    pageOk (xorBytes p e) = false := by
  rcases hin with hin | hs
  · exact detect_burst_payload p e hp he hok s len h32 hin hwin hne
  · exact detect_burst_checksum p e hp he hok s len hs hwin hne

/-! ### 7. byte-aligned bursts: independent of the bit order within a byte -/

theorem byte_ne_zero_bit (b : UInt8) (h : b ≠ 0) : ∃ j, j < 8 ∧ b.toNat.testBit j = true := by
  have h0 : b.toNat ≠ 0 := fun h0 => h (UInt8.toNat_inj.mp h0)
  obtain ⟨j, hj⟩ := Nat.exists_testBit_of_ne_zero h0
  refine ⟨j, ?_, hj⟩
  apply Classical.byContradiction
  intro hj8
  have hlt : b.toNat < 2 ^ j :=
    Nat.lt_of_lt_of_le b.toNat_lt (Nat.pow_le_pow_right (by omega) (by omega : 8 ≤ j))
  rw [Nat.testBit_lt_two_pow hlt] at hj
  exact Bool.false_ne_true hj

theorem bitOf_byte (e : Bytes) (k j : Nat) (hj : j < 8) :
    bitOf e (8 * k + j) = (e[k]!).toNat.testBit j := by
  unfold bitOf
  rw [show (8 * k + j) / 8 = k by omega, show (8 * k + j) % 8 = j by omega]

theorem byte_ne_zero_of_bitOf (e : Bytes) (i : Nat) (h : bitOf e i = true) : e[i / 8]! ≠ 0 := by
  intro h0
  unfold bitOf at h
  rw [h0] at h
  simp at h

/-- **Every non-zero alteration confined to at most four consecutive bytes of the payload, or of
    the stored checksum, is detected.**  `e[k]!` is byte `k` of the alteration (0 beyond the end);
    all non-zero bytes have index in `[a, a + n)`, `n ≤ 4`, and the byte window lies inside the
    payload (`a + n ≤ 1020`) or starts in the checksum field (`1020 ≤ a`). -/
theorem detect_burst_bytes (p e : Bytes) (hp : p.length = 1024) (he : e.length = 1024)
    (hok : pageOk p = true) (a n : Nat) (hn : n ≤ 4) (hin : a + n ≤ 1020 ∨ 1020 ≤ a)
    (hwin : ∀ k : Nat, e[k]! ≠ 0 → a ≤ k ∧ k < a + n) (hne : ∃ k : Nat, e[k]! ≠ 0) :
    pageOk (xorBytes p e) = false := by
  apply detect_burst p e hp he hok (8 * a) (8 * n) (by omega) (by omega)
  · intro i hi
    have := hwin _ (byte_ne_zero_of_bitOf e i hi)
    omega
  · obtain ⟨k, hk⟩ := hne
    obtain ⟨j, hj, hb⟩ := byte_ne_zero_bit _ hk
    exact ⟨8 * k + j, by rw [bitOf_byte e k j hj]; exact hb⟩

/-! ### 8. the same for alterations given as `zeros ++ pattern ++ zeros` -/

theorem window_of_leVal (e : Bytes) (w s len : Nat) (h : leVal e = w * 2 ^ s) (hw : w < 2 ^ len) :
    ∀ i, bitOf e i = true → s ≤ i ∧ i < s + len := by
  intro i hi
  rw [← testBit_leVal_bitOf, h, Nat.testBit_mul_two_pow, Bool.and_eq_true, decide_eq_true_eq] at hi
  refine ⟨hi.1, ?_⟩
  apply Classical.byContradiction
  intro hge
  have hlt : w < 2 ^ (i - s) :=
    Nat.lt_of_lt_of_le hw (Nat.pow_le_pow_right (by omega) (by omega))
  rw [Nat.testBit_lt_two_pow hlt] at hi
  exact Bool.false_ne_true hi.2

theorem exists_bit_of_leVal (e : Bytes) (h : leVal e ≠ 0) : ∃ i, bitOf e i = true := by
  obtain ⟨i, hi⟩ := Nat.exists_testBit_of_ne_zero h
  exact ⟨i, by rw [← testBit_leVal_bitOf]; exact hi⟩

theorem leVal_pattern (a b : Nat) (w : Bytes) :
    leVal (zeros a ++ w ++ zeros b) = leVal w * 2 ^ (8 * a) := by
  rw [leVal_append, leVal_append, leVal_zeros, leVal_zeros, zeros_length, Nat.mul_zero, Nat.add_zero,
    Nat.zero_add, Nat.mul_comm]

/-- list form of `detect_burst_bytes`: a non-zero pattern `w` of at most four bytes at byte offset
    `a`, inside the payload or inside the checksum field -/
theorem detect_burst_bytes_pattern (p : Bytes) (hp : p.length = 1024) (hok : pageOk p = true)
    (a : Nat) (w : Bytes) (hw : w.length ≤ 4) (hnz : w ≠ zeros w.length)
    (hin : a + w.length ≤ 1020 ∨ (1020 ≤ a ∧ a + w.length ≤ 1024)) :
    pageOk (xorBytes p (zeros a ++ w ++ zeros (1024 - (a + w.length)))) = false := by
  have hl : (zeros a ++ w ++ zeros (1024 - (a + w.length))).length = 1024 := by
    simp only [List.length_append, zeros_length]; omega
  have hv := leVal_pattern a (1024 - (a + w.length)) w
  have hlt : leVal w < 2 ^ (8 * w.length) := leVal_lt w
  apply detect_burst p _ hp hl hok (8 * a) (8 * w.length) (by omega) (by omega)
    (window_of_leVal _ _ _ _ hv hlt)
  apply exists_bit_of_leVal
  rw [hv]
  intro h0
  rcases Nat.mul_eq_zero.mp h0 with h1 | h1
  · exact hnz (eq_zeros_of_leVal w h1)
  · exact absurd h1 (Nat.ne_of_gt (Nat.two_pow_pos _))

/-! ### 8b. the codeword in transmission order

`codeword e` is the page with the four stored checksum bytes reversed, i.e. with the checksum in
the byte order in which CRC-32C appends it to a message.  In *that* bit order the classical
statement holds without any side condition on the position of the burst; the straddling
counterexample of `E57.C07` is a burst of the stored page but not of its codeword. -/

def codeword (e : Bytes) : Bytes := e.take 1020 ++ (e.drop 1020).reverse

theorem add_two_pow_mul_eq_xor (x c k : Nat) (hx : x < 2 ^ k) : x + 2 ^ k * c = x ^^^ (c * 2 ^ k) := by
  apply Nat.eq_of_testBit_eq
  intro i
  rw [Nat.add_comm, Nat.testBit_two_pow_mul_add _ hx, Nat.testBit_xor, Nat.testBit_mul_two_pow]
  by_cases hi : i < k
  · have hk : ¬ k ≤ i := by omega
    simp [hi, hk]
  · have : x.testBit i = false :=
      Nat.testBit_lt_two_pow (Nat.lt_of_lt_of_le hx (Nat.pow_le_pow_right (by omega) (by omega)))
    simp [hi, this]; omega

/-- the syndrome is the state of the unbounded LFSR after 8160 steps on the codeword -/
theorem syndrome_toNat (e : Bytes) (he : e.length = 1024) :
    (syndrome e).toNat = natShiftN (8 * 1020) (leVal (codeword e)) := by
  have hl : (e.take 1020).length = 1020 := by simp [he]
  have hd : (e.drop 1020).reverse.length = 4 := by simp [he]
  have hc : leVal (e.drop 1020).reverse < 2 ^ 32 := by
    have := leVal_lt (e.drop 1020).reverse
    rwa [hd] at this
  have hb : (be32Val (e.drop 1020)).toNat = leVal (e.drop 1020).reverse := by
    simp only [be32Val, UInt32.toNat_ofNat']; exact Nat.mod_eq_of_lt hc
  have hx := leVal_lt (e.take 1020)
  rw [syndrome, UInt32.toNat_xor, crcRaw_toNat, hb, codeword, leVal_append,
    show (0 : UInt32).toNat = 0 from rfl, Nat.zero_xor,
    add_two_pow_mul_eq_xor _ _ _ hx, hl, natShiftN_xor, natShiftN_mul_two_pow]

/-- in the payload the codeword has the bits of the page itself -/
theorem bitOf_codeword_payload (e : Bytes) (he : e.length = 1024) (i : Nat) (hi : i < 8 * 1020) :
    bitOf (codeword e) i = bitOf e i := by
  have hl : (e.take 1020).length = 1020 := by simp [he]
  have hx := leVal_lt (e.take 1020)
  obtain ⟨m, hm⟩ : ∃ m, m = 8 * 1020 := ⟨_, rfl⟩
  rw [hl, ← hm] at hx
  rw [← hm] at hi
  rw [← testBit_leVal_bitOf, ← testBit_leVal_bitOf, codeword, leVal_append, hl, ← hm, Nat.add_comm,
    Nat.testBit_two_pow_mul_add _ hx, if_pos hi, leVal_take, ← hm, Nat.testBit_mod_two_pow]
  simp [hi]

/-- **Every burst of up to 32 bits of the codeword is detected, wherever it lies** (payload,
    checksum, or across the boundary). -/
theorem detect_burst_codeword (p e : Bytes) (hp : p.length = 1024) (he : e.length = 1024)
    (hok : pageOk p = true) (s len : Nat) (h32 : len ≤ 32)
    (hwin : ∀ i, bitOf (codeword e) i = true → s ≤ i ∧ i < s + len)
    (hne : ∃ i, bitOf (codeword e) i = true) : pageOk (xorBytes p e) = false := by
  have hwin' : ∀ i, (leVal (codeword e)).testBit i = true → s ≤ i ∧ i < s + len := by
    intro i hi; rw [testBit_leVal_bitOf] at hi; exact hwin i hi
  obtain ⟨hval, hlt⟩ := window_factor _ s len hwin'
  generalize leVal (codeword e) >>> s = w at hval hlt
  have hw32 : w < 2 ^ 32 := Nat.lt_of_lt_of_le hlt (Nat.pow_le_pow_right (by omega) h32)
  have hw0 : w ≠ 0 := by
    intro h0
    obtain ⟨i, hi⟩ := hne
    rw [← testBit_leVal_bitOf, hval, h0, Nat.zero_mul, Nat.zero_testBit] at hi
    exact Bool.false_ne_true hi
  rw [Bool.eq_false_iff]
  intro hund
  rw [undetected_iff_syndrome p e hp he hok] at hund
  have h0 : natShiftN (8 * 1020) (w * 2 ^ s) = 0 := by
    rw [← hval, ← syndrome_toNat e he, hund]; rfl
  obtain ⟨m, hm⟩ : ∃ m, m = 8 * 1020 := ⟨_, rfl⟩
  rw [← hm] at h0
  by_cases hs : s ≤ m
  · rw [show m = s + (m - s) by omega, natShiftN_add, natShiftN_mul_two_pow] at h0
    have hof : (UInt32.ofNat w).toNat = w := by
      simp only [UInt32.toNat_ofNat']; exact Nat.mod_eq_of_lt hw32
    rw [← hof, ← crcShiftN_toNat] at h0
    have h1 : crcShiftN (m - s) (UInt32.ofNat w) = 0 := UInt32.toNat_inj.mp h0
    refine crcShiftN_ne_zero _ _ ?_ h1
    intro h2
    rw [h2] at hof
    exact hw0 hof.symm
  · rw [show s = (s - m) + m by omega, Nat.pow_add, ← Nat.mul_assoc, natShiftN_mul_two_pow] at h0
    rcases Nat.mul_eq_zero.mp h0 with h1 | h1
    · exact hw0 h1
    · exact absurd h1 (Nat.ne_of_gt (Nat.two_pow_pos _))

/-! ### 9. non-vacuity and sharpness -/

/-- a valid page for every payload of 1020 bytes -/
theorem pageOk_mk (payload : Bytes) (h : payload.length = 1020) :
    pageOk (payload ++ crcBytes payload) = true := by
  rw [pageOk, List.drop_left' h, List.take_left' h]
  exact beq_self_eq_true _

theorem mk_page_length (payload : Bytes) (h : payload.length = 1020) :
    (payload ++ crcBytes payload).length = 1024 := by
  rw [List.length_append, h, crcBytes, toBE32_length]

/-- a burst of exactly 32 bits, not byte-aligned: first flipped bit = bit 7 of byte 100 (bit index
    807), last flipped bit = bit 6 of byte 104 (bit index 838) -/
def burstExample : Bytes := zeros 100 ++ [0x80, 0xff, 0x00, 0x12, 0x40] ++ zeros 919

theorem burstExample_length : burstExample.length = 1024 := by
  simp only [burstExample, List.length_append, zeros_length, List.length_cons, List.length_nil]

theorem leVal_pattern_shift (a b : Nat) (w : Bytes) (v t s : Nat) (hv : leVal w = v * 2 ^ t)
    (hs : s = t + 8 * a) : leVal (zeros a ++ w ++ zeros b) = v * 2 ^ s := by
  subst hs; rw [leVal_pattern, hv, Nat.mul_assoc, Nat.pow_add]

theorem burstExample_val : leVal burstExample = 0x802401ff * 2 ^ 807 :=
  leVal_pattern_shift 100 919 [0x80, 0xff, 0x00, 0x12, 0x40] 0x802401ff 7 807 (by decide) rfl

/-- the hypotheses of `detect_burst_payload` are satisfiable with a window of the full 32 bits
    whose first and last bit are flipped, and the conclusion holds on a concrete valid page -/
example : ∃ p e : Bytes, p.length = 1024 ∧ e.length = 1024 ∧ pageOk p = true ∧
    (∀ i, bitOf e i = true → 807 ≤ i ∧ i < 807 + 32) ∧ bitOf e 807 = true ∧
    bitOf e (807 + 31) = true ∧ pageOk (xorBytes p e) = false := by
  have hz : (zeros 1020).length = 1020 := zeros_length _
  have hwin := window_of_leVal burstExample _ 807 32 burstExample_val (by decide)
  have h0 : bitOf burstExample 807 = true := by decide
  refine ⟨zeros 1020 ++ crcBytes (zeros 1020), burstExample, mk_page_length _ hz, burstExample_length,
    pageOk_mk _ hz, hwin, h0, by decide, ?_⟩
  exact detect_burst_payload _ _ (mk_page_length _ hz) burstExample_length (pageOk_mk _ hz) 807 32
    (by omega) (by omega) hwin ⟨807, h0⟩

/-- 32 is sharp: the generator polynomial itself (x^32 + … + 1 = 0x1_05EC_76F1 in the CRC's
    bit order), placed anywhere in the payload, is a 33-bit burst that leaves the checksum
    unchanged.  Here: bit 0 of byte 100 … bit 0 of byte 104. -/
def burst33 : Bytes := (zeros 100 ++ [0xF1, 0x76, 0xEC, 0x05, 0x01] ++ zeros 915) ++ zeros 4

/-- FINITE CHECK (kernel evaluation of 40 shift steps): the pure LFSR maps the generator
    polynomial to the zero state -/
theorem crcRaw_generator : crcRaw 0 [0xF1, 0x76, 0xEC, 0x05, 0x01] = 0 := by decide +kernel

theorem burst33_undetected (p : Bytes) (hp : p.length = 1024) (hok : pageOk p = true) :
    pageOk (xorBytes p burst33) = true := by
  have hl : (zeros 100 ++ [0xF1, 0x76, 0xEC, 0x05, 0x01] ++ zeros 915 : Bytes).length = 1020 := by
    simp only [List.length_append, zeros_length, List.length_cons, List.length_nil]
  have hlen : burst33.length = 1024 := by
    rw [burst33, List.length_append, hl, zeros_length]
  rw [alteration_undetected_iff p burst33 hp hlen hok, burst33, List.drop_left' hl,
    List.take_left' hl, crcRaw_append, crcRaw_append, crcRaw_zeros,
    crcRaw_generator, crcRaw_zeros]
  exact toBE32_zero.symm

/-! ### axioms -/


end E57
