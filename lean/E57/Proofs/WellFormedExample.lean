/-
Slow closed instances for E57.Proofs.WellFormed (C02): the independent decoder's de-paging
(`Spec.depageChecked`, bitwise CRC-32C) run by the kernel on the paged image (`Spec.image`,
table-driven CRC-32C of the model) of a one-page stream, and on the same image with one damaged
payload byte.  About one minute each; not imported by E57.lean.
-/
import E57.Proofs.WellFormed
namespace E57
namespace WF
open Spec

/-- a one-page stream (3 … 3 7) -/
def exStream : Bytes := List.replicate 1019 3 ++ [7]

set_option maxRecDepth 100000 in
/-- de-paging the image returns the stream -/
theorem ex_depage : okOf (depageChecked 2 (image exStream) 0 []) = some exStream := by decide +kernel

set_option maxRecDepth 100000 in
/-- one changed payload byte is detected: the checksum check is not vacuous -/
theorem ex_depage_damaged :
    okOf (depageChecked 2 ((image exStream).set 500 0) 0 []) = none := by decide +kernel

end WF
end E57
