/- Lemmas about little-endian values of byte lists. Core Lean only. -/
import E57.Model.Basic
namespace E57

theorem pow8_succ (n : Nat) : 2 ^ (8 * (n + 1)) = 256 * 2 ^ (8 * n) := by
  rw [Nat.mul_succ, Nat.pow_add]; omega

@[simp] theorem leVal_nil : leVal [] = 0 := rfl
@[simp] theorem leVal_cons (b : UInt8) (bs : Bytes) : leVal (b :: bs) = b.toNat + 256 * leVal bs := rfl

theorem leVal_lt (l : Bytes) : leVal l < 2 ^ (8 * l.length) := by
  induction l with
  | nil => simp [leVal]
  | cons b bs ih =>
    have := b.toNat_lt
    simp only [leVal, List.length_cons]
    have e := pow8_succ bs.length
    omega

theorem leVal_append (a b : Bytes) : leVal (a ++ b) = leVal a + 2 ^ (8 * a.length) * leVal b := by
  induction a with
  | nil => simp [leVal]
  | cons x xs ih =>
    simp only [List.cons_append, leVal, ih, List.length_cons]
    rw [pow8_succ, Nat.mul_add, Nat.mul_assoc, Nat.add_assoc]

theorem leVal_zeros (n : Nat) : leVal (zeros n) = 0 := by
  induction n with
  | zero => rfl
  | succ n ih => simp [zeros, List.replicate_succ] at *; omega

/-- value of the sub-list [s, e) = bits [8s, 8e) of the whole value -/
theorem leVal_slice (l : Bytes) (s e : Nat) (hse : s ≤ e) (he : e ≤ l.length) :
    leVal ((l.drop s).take (e - s)) = (leVal l >>> (8 * s)) % 2 ^ (8 * (e - s)) := by
  have h1 : l = l.take s ++ ((l.drop s).take (e - s) ++ (l.drop s).drop (e - s)) := by
    rw [List.take_append_drop, List.take_append_drop]
  have hl1 : (l.take s).length = s := by simp; omega
  have hl2 : ((l.drop s).take (e - s)).length = e - s := by simp; omega
  conv => rhs; rw [h1]
  rw [leVal_append, leVal_append, hl1, hl2, Nat.shiftRight_eq_div_pow]
  have hlt := leVal_lt (l.take s); rw [hl1] at hlt
  have hlt2 := leVal_lt ((l.drop s).take (e - s)); rw [hl2] at hlt2
  rw [Nat.add_mul_div_left _ _ (Nat.two_pow_pos _), Nat.div_eq_of_lt hlt, Nat.zero_add,
      Nat.add_mul_mod_self_left, Nat.mod_eq_of_lt hlt2]

theorem leVal_take (l : Bytes) (k : Nat) : leVal (l.take k) = leVal l % 2 ^ (8 * k) := by
  by_cases h : k ≤ l.length
  · have := leVal_slice l 0 k (Nat.zero_le _) h
    simpa using this
  · have hk : l.length ≤ k := by omega
    rw [List.take_of_length_le hk]
    have := leVal_lt l
    have hp : 2 ^ (8 * l.length) ≤ 2 ^ (8 * k) := Nat.pow_le_pow_right (by omega) (by omega)
    rw [Nat.mod_eq_of_lt (by omega)]

theorem leVal_drop (l : Bytes) (k : Nat) : leVal (l.drop k) = leVal l >>> (8 * k) := by
  have h1 : l = l.take k ++ l.drop k := (List.take_append_drop k l).symm
  by_cases h : k ≤ l.length
  · conv => rhs; rw [h1]
    have hl1 : (l.take k).length = k := by simp; omega
    have hlt := leVal_lt (l.take k); rw [hl1] at hlt
    rw [leVal_append, hl1, Nat.shiftRight_eq_div_pow,
        Nat.add_mul_div_left _ _ (Nat.two_pow_pos _), Nat.div_eq_of_lt hlt, Nat.zero_add]
  · have hk : l.length ≤ k := by omega
    rw [List.drop_eq_nil_of_le hk, Nat.shiftRight_eq_div_pow]
    have := leVal_lt l
    have hp : 2 ^ (8 * l.length) ≤ 2 ^ (8 * k) := Nat.pow_le_pow_right (by omega) (by omega)
    rw [Nat.div_eq_of_lt (by omega)]; rfl

/-- `extract`: window of bytes, shift by phase, truncate to 64 bits, mask to w bits
    = bits [o, o+w) of the stream -/
theorem extract_window (l : Bytes) (o w : Nat) (hw : w ≤ 64) (hav : o + w ≤ 8 * l.length) :
    ((leVal ((l.drop (o / 8)).take ((o + w + 7) / 8 - o / 8)) >>> (o % 8)) % 2 ^ 64) % 2 ^ w
      = (leVal l >>> o) % 2 ^ w := by
  have hse : o / 8 ≤ (o + w + 7) / 8 := by omega
  have he : (o + w + 7) / 8 ≤ l.length := by omega
  rw [leVal_slice l _ _ hse he]
  apply Nat.eq_of_testBit_eq
  intro i
  simp only [Nat.testBit_mod_two_pow, Nat.testBit_shiftRight]
  by_cases hi : i < w
  · have h64 : i < 64 := by omega
    have hin : o % 8 + i < 8 * ((o + w + 7) / 8 - o / 8) := by omega
    have hidx : 8 * (o / 8) + (o % 8 + i) = o + i := by omega
    simp [hi, h64, hin, hidx]
  · simp [hi]

theorem toLE_length (n k : Nat) : (toLE n k).length = k := by
  induction k generalizing n with
  | zero => rfl
  | succ k ih => simp [toLE, ih]

theorem leVal_toLE (n k : Nat) : leVal (toLE n k) = n % 2 ^ (8 * k) := by
  induction k generalizing n with
  | zero => simp [toLE, Nat.mod_one]
  | succ k ih =>
    simp only [toLE, leVal, ih, pow8_succ]
    have h : (UInt8.ofNat (n % 256)).toNat = n % 256 := by
      simp
    rw [h]
    have := Nat.mod_mul_right_div_self n 256 (2 ^ (8 * k))
    have h2 : n % (256 * 2 ^ (8 * k)) = n % 256 + 256 * (n / 256 % 2 ^ (8 * k)) := by
      rw [Nat.mod_mul]
    omega

theorem toLE_leVal (l : Bytes) : toLE (leVal l) l.length = l := by
  induction l with
  | nil => rfl
  | cons b bs ih =>
    simp only [leVal, List.length_cons, toLE]
    have hb := b.toNat_lt
    have h1 : (b.toNat + 256 * leVal bs) % 256 = b.toNat := by omega
    have h2 : (b.toNat + 256 * leVal bs) / 256 = leVal bs := by omega
    rw [h1, h2, ih]
    simp

/-- a byte list is determined by its length and value -/
theorem eq_of_leVal_eq (a b : Bytes) (hl : a.length = b.length) (hv : leVal a = leVal b) : a = b := by
  rw [← toLE_leVal a, ← toLE_leVal b, hl, hv]

end E57
